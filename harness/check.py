"""check driver (DESIGN §2.3):  extract -> build -> audit -> correspond -> search -> findings -> evidence

exit 0: property held on everything explored (KNOWN-FINDING lines allowed)
exit 1: VIOLATION property=<id> replay=<path> [no-failing-input-found]
exit 2: infrastructure problem / timeout (never a VIOLATION)"""
import os, sys, json, time, subprocess, re, importlib, traceback, fcntl, argparse, random

sys.path.insert(0, os.path.dirname(os.path.abspath(__file__)))
import hidlib

VERIF = hidlib.VERIF
LEAN = os.path.join(VERIF, 'lean')
STD_AXIOMS = {'propext', 'Classical.choice', 'Quot.sound'}
FORBIDDEN = re.compile(r'\b(sorry|admit|native_decide|bv_decide|implemented_by|unsafe)\b|^\s*axiom\s|maxHeartbeats\s+0')


class Ctx:
    def __init__(self, pid, tier, seed):
        self.pid, self.tier, self.seed = pid, tier, seed
        self.rng = random.Random(seed * 1000003 + sum(map(ord, pid)))
        self.t0 = time.time()
        self.log = []
        self.violations = []      # dicts: {what, replay: {...}, concrete: bool}
        self.breaks = []          # proof / correspondence breaks: {kind, name, detail}
        self.known = []
        self.stats = {}
        self.samples = []

    def say(self, *a):
        msg = ' '.join(str(x) for x in a)
        self.log.append(msg)
        print('[%s %6.1fs] %s' % (self.pid, time.time() - self.t0, msg), flush=True)

    @property
    def quick(self):
        return self.tier == 'quick'

    def budget(self, quick, thorough):
        return quick if self.quick else thorough


def lake(args, timeout=3000):
    lockf = open(os.path.join(LEAN, '.lake.lock'), 'w')
    fcntl.flock(lockf, fcntl.LOCK_EX)
    try:
        return subprocess.run(['lake'] + args, cwd=LEAN, capture_output=True, text=True, timeout=timeout)
    finally:
        fcntl.flock(lockf, fcntl.LOCK_UN)
        lockf.close()


def run_extract(ctx):
    p = subprocess.run(['/venv/bin/python', os.path.join(VERIF, 'tools', 'extract.py')],
                       capture_output=True, text=True, timeout=600)
    last = p.stdout.strip().split('\n')[-1] if p.stdout.strip() else '{}'
    try:
        changed = json.loads(last)
    except Exception:
        changed = {'_error': p.stdout[-2000:] + p.stderr[-2000:]}
    ctx.stats['extract'] = changed
    errs = {k: v for k, v in changed.items() if isinstance(v, str)}
    if p.returncode != 0 or errs:
        for k, v in errs.items():
            ctx.breaks.append(dict(kind='translator', name='Gen/%s.lean' % k, detail=str(v)[:2000]))
        ctx.say('extract: translator could not transcribe:', errs or p.stderr[-500:])
    else:
        ch = [k for k, v in changed.items() if v is True]
        ctx.say('extract: ok' + (' (regenerated: %s)' % ', '.join(ch) if ch else ' (unchanged)'))
    return changed


GEN = os.path.join(LEAN, 'HidVerif', 'Gen')
GEN_GOOD = os.path.join(LEAN, '.lake', 'gen_good')


def _gen_files(d):
    return {f: open(os.path.join(d, f), encoding='utf-8').read() for f in sorted(os.listdir(d)) if f.endswith('.lean')} if os.path.isdir(d) else {}


def backup_gen_once():
    """before the first extraction in this checkout: the Gen files in the tree are the ones the model was committed with"""
    if not os.path.isdir(GEN_GOOD): save_gen()


def save_gen():
    import shutil
    os.makedirs(GEN_GOOD, exist_ok=True)
    for f in os.listdir(GEN):
        if f.endswith('.lean'): shutil.copyfile(os.path.join(GEN, f), os.path.join(GEN_GOOD, f))


def gen_differs():
    return bool(_gen_files(GEN_GOOD)) and _gen_files(GEN_GOOD) != _gen_files(GEN)


def restore_gen():
    import shutil
    for f in os.listdir(GEN_GOOD):
        shutil.copyfile(os.path.join(GEN_GOOD, f), os.path.join(GEN, f))


ERR_RE = re.compile(r'^error: (HidVerif/[\w/]+\.lean):(\d+):(\d+): (.*)$')


def enclosing_decl(path, line):
    try:
        src = open(os.path.join(LEAN, path), encoding='utf-8').read().split('\n')
    except OSError:
        return path
    for i in range(min(line, len(src)) - 1, -1, -1):
        m = re.match(r'\s*(?:private |protected |@\[[^\]]*\]\s*)*(theorem|lemma|def|example|instance|abbrev)\s+([^\s:({\[]+)?', src[i])
        if m:
            return '%s (%s:%d)' % (m.group(2) or m.group(1), path, i + 1)
    return '%s:%d' % (path, line)


def build(ctx, modules):
    """build the model executable first (infrastructure), then the property modules"""
    p = lake(['build', 'hidmodel'])
    if p.returncode != 0:
        out = p.stdout + p.stderr
        bad = sorted({m.group(1) for l in out.split('\n') for m in [ERR_RE.match(l)] if m})
        ctx.say('BUILD of the model executable failed:', bad)
        if bad and all('/Gen/' in b for b in bad):
            ctx.breaks.append(dict(kind='translator', name=', '.join(bad), detail=out[-3000:]))
            return False
        if not gen_differs():
            raise Infra('model executable does not build:\n' + out[-4000:])
        # the hand-written model no longer builds against the definitions regenerated from the source (a name it uses is gone, a
        # shape changed): the tie is broken.  Fall back to the definitions the model was last built with so that the VM can still
        # run the implementation's output in the search for a failing input
        ctx.breaks.append(dict(kind='model', name='model does not build against the regenerated definitions: ' + ', '.join(bad), detail=out[-3000:]))
        restore_gen()
        ctx.stats['gen_fallback'] = 'executable built with the last good Gen/*.lean; regenerated definitions break ' + ', '.join(bad)
        p = lake(['build', 'hidmodel'])
        if p.returncode != 0:
            raise Infra('model executable does not build even with the last good definitions:\n' + (p.stdout + p.stderr)[-4000:])
        ctx.say('falling back to the last good regenerated definitions for the VM')
        return False
    save_gen()
    if not modules:
        return True
    p = lake(['build'] + modules)
    out = p.stdout + p.stderr
    if p.returncode == 0:
        ctx.say('build: ok (%s)' % ', '.join(modules))
        return True
    seen = set()
    for l in out.split('\n'):
        m = ERR_RE.match(l)
        if m:
            decl = enclosing_decl(m.group(1), int(m.group(2)))
            if decl not in seen:
                seen.add(decl)
                ctx.breaks.append(dict(kind='proof', name=decl, detail=m.group(4)[:500]))
    if not seen:
        raise Infra('lake build failed without a Lean error:\n' + out[-4000:])
    ctx.say('build: %d declaration(s) no longer check: %s' % (len(seen), '; '.join(sorted(seen))[:1500]))
    return False


class Infra(Exception):
    pass


def strip_comments(text):
    text = re.sub(r'/-.*?-/', lambda m: '\n' * m.group(0).count('\n'), text, flags=re.S)
    return re.sub(r'--.*', '', text)


def audit(ctx, modules, theorems):
    # 1. forbidden tokens in every Lean source of the project
    hits = []
    for root, _, files in os.walk(os.path.join(LEAN, 'HidVerif')):
        for f in files:
            if f.endswith('.lean'):
                path = os.path.join(root, f)
                for i, line in enumerate(strip_comments(open(path, encoding='utf-8').read()).split('\n')):
                    if FORBIDDEN.search(line):
                        hits.append('%s:%d: %s' % (os.path.relpath(path, LEAN), i + 1, line.strip()[:120]))
    if hits:
        raise Infra('forbidden constructs in Lean sources:\n' + '\n'.join(hits[:20]))
    # 2. axioms of every registry theorem
    if not theorems:
        return {}
    src = ''.join('import %s\n' % m for m in modules) + ''.join('#print axioms %s\n' % t for t in theorems)
    path = os.path.join(LEAN, '.lake', 'audit_%s.lean' % ctx.pid)
    os.makedirs(os.path.dirname(path), exist_ok=True)
    open(path, 'w').write(src)
    p = lake(['env', 'lean', path])
    out = p.stdout + p.stderr
    axioms = {}
    for m in re.finditer(r"'([^']+)' (?:depends on axioms: \[([^\]]*)\]|does not depend on any axioms)", out):
        axioms[m.group(1)] = [a.strip() for a in (m.group(2) or '').replace('\n', ' ').split(',') if a.strip()]
    missing = [t for t in theorems if t not in axioms and t.split('.')[-1] not in [k.split('.')[-1] for k in axioms]]
    if p.returncode != 0 or missing:
        for t in missing:
            ctx.breaks.append(dict(kind='proof', name=t, detail='theorem missing or does not check: ' + out[-600:]))
        ctx.say('audit: %d registry theorem(s) missing' % len(missing))
    bad = {t: [a for a in ax if a not in STD_AXIOMS] for t, ax in axioms.items()}
    bad = {t: a for t, a in bad.items() if a}
    if bad:
        raise Infra('non-standard axioms: %r' % bad)
    ctx.say('audit: %d theorems, axioms within {propext, Classical.choice, Quot.sound}' % len(axioms))
    return axioms


def load_known():
    path = os.path.join(VERIF, 'known_findings.json')
    if not os.path.exists(path):
        return []
    return json.load(open(path))['findings']


def write_replay(ctx, idx, data):
    d = os.path.join(VERIF, 'replays')
    os.makedirs(d, exist_ok=True)
    path = os.path.join(d, '%s_%s_%d.json' % (ctx.pid, ctx.tier, idx))
    json.dump(data, open(path, 'w'), indent=1, default=str)
    return os.path.relpath(path, VERIF)


def main():
    ap = argparse.ArgumentParser()
    ap.add_argument('pid')
    ap.add_argument('--tier', default=os.environ.get('VERIF_TIER', 'quick'))
    ap.add_argument('--replay')
    a = ap.parse_args()
    seed = int(os.environ.get('VERIF_SEED', '0') or 0)
    ctx = Ctx(a.pid, a.tier, seed)
    mod = importlib.import_module('props.' + a.pid)
    if a.replay:
        return mod.replay(ctx, json.load(open(a.replay)))
    evidence_path = os.path.join(VERIF, 'evidence', a.pid + '.json')
    # replay files of earlier runs of this check and tier would be mistaken for this run's
    import glob as _glob
    for old in _glob.glob(os.path.join(VERIF, 'replays', '%s_%s_*.json' % (a.pid, ctx.tier))):
        try: os.unlink(old)
        except OSError: pass
    try:
        backup_gen_once()
        run_extract(ctx)
        ok = build(ctx, mod.LEAN_MODULES)
        axioms = audit(ctx, mod.LEAN_MODULES, mod.THEOREMS) if ok else {}
        ctx.proofs_ok = ok and not ctx.breaks
        try:
            mod.run(ctx)           # correspondence suites + searcher; fills ctx.violations/breaks/stats
        except (Infra, subprocess.TimeoutExpired):
            raise
        except Exception as e:
            # the implementation under test may behave so strangely that a later stage of the driver trips over it: what was
            # found before that point is still a finding; without any finding this is an infrastructure problem
            if isinstance(e, (MemoryError, OSError)): raise
            import traceback
            tb = traceback.format_exc()[-1500:]
            if not (ctx.violations or ctx.breaks):
                # no finding yet: the driver runs to completion on the unchanged tree for every seed, so an exception raised while
                # it drives the implementation means the implementation answered something the driver cannot interpret - the
                # property is no longer shown to hold (reported without a failing input; the traceback is in the replay file)
                ctx.breaks.append(dict(kind='driver', name='check driver could not complete: %s' % type(e).__name__, detail=tb))
            ctx.say('driver stopped: %s: %s' % (type(e).__name__, str(e)[:200]))
            ctx.stats['driver_exception'] = tb
    except Infra as e:
        print('INFRASTRUCTURE: %s' % e)
        return 2
    except subprocess.TimeoutExpired as e:
        print('INFRASTRUCTURE: timeout %s' % e)
        return 2
    # known findings
    known = [k for k in load_known() if k['property'] == a.pid and k.get('status') == 'known']
    new_violations = []
    for v in ctx.violations:
        match = next((k for k in known if mod.matches_known(k, v)), None) if hasattr(mod, 'matches_known') else None
        if match is not None:
            if match['id'] not in ctx.known:
                ctx.known.append(match['id'])
                print('KNOWN-FINDING: property=%s %s' % (a.pid, match['what']))
        else:
            new_violations.append(v)
    # a break that no concrete violation explains
    lines = []
    concrete = [v for v in new_violations]
    for i, v in enumerate(concrete[:5]):
        path = write_replay(ctx, i, dict(property=a.pid, replay_kind='concrete', **v))
        lines.append('VIOLATION property=%s replay=%s' % (a.pid, path))
    if ctx.breaks and not concrete:
        # only breaks not explained by a known finding count
        path = write_replay(ctx, 99, dict(property=a.pid, replay_kind='no-failing-input-found', broken=ctx.breaks,
                                          note='a proof obligation or the model/implementation correspondence '
                                               'no longer checks and the search found no failing input'))
        lines.append('VIOLATION property=%s replay=%s no-failing-input-found' % (a.pid, path))
    wall = time.time() - ctx.t0
    n_thm = len(mod.THEOREMS)
    n_ok = len([t for t in mod.THEOREMS if t in axioms or any(k.endswith(t.split('.')[-1]) for k in axioms)])
    level = 'proof' if n_ok >= 1 else 'other'
    ev = dict(property_id=a.pid, tier=a.tier, seed=seed, level=level,
              coverage=dict(obligations=max(1, n_thm), discharged=n_ok,
                            checker_cmd='cd lean && lake build %s && lake env lean <#print axioms of the registry theorems>' % ' '.join(mod.LEAN_MODULES),
                            trusted_base=mod.TRUSTED,
                            explanation=('kernel-checked theorems + correspondence + failing-input search' if n_ok >= 1 else
                                         'the proof obligations of this property no longer check on this tree (see breaks); only the search ran'),
                            theorems=[dict(name=t, axioms=axioms.get(t)) for t in mod.THEOREMS],
                            evaluations=int(ctx.stats.get('evaluations', 0)),
                            distinct_nontrivial=int(ctx.stats.get('distinct_nontrivial', 0)),
                            rule=getattr(mod, 'RULE', ''),
                            samples=ctx.samples[:8] or [dict(theorem=t) for t in mod.THEOREMS[:5]],
                            breaks=ctx.breaks, known_findings=ctx.known,
                            stats={k: v for k, v in ctx.stats.items() if k not in ('evaluations', 'distinct_nontrivial')}),
              assumptions=mod.ASSUMPTIONS, wall_s=round(wall, 2), violations=len(lines))
    os.makedirs(os.path.dirname(evidence_path), exist_ok=True)
    json.dump(ev, open(evidence_path, 'w'), indent=1, default=str)
    for l in lines:
        print(l)
    print('[%s] done in %.1fs: %s' % (a.pid, wall, 'VIOLATION' if lines else 'ok'))
    return 1 if lines else 0


if __name__ == '__main__':
    try:
        sys.exit(main())
    except Infra as e:
        print('INFRASTRUCTURE: %s' % e); sys.exit(2)
    except Exception:
        traceback.print_exc()
        print('INFRASTRUCTURE: unexpected exception in the check driver')
        sys.exit(2)
