"""Stand-in for the missing `spasm` package: the assembler and emulator are the Lean model
(`hidmodel`).  Lets /repo/tests/test_codegen.py (outputs recorded upstream from the real
emulator) run unmodified against the Lean VM."""
class Program:
    def __init__(self, lines, args):
        self.lines = lines; self.args = args

class Parser:
    def __init__(self, args=()):
        self.args = [a if isinstance(a, bytes) else str(a).encode() for a in args]
        self.lines = []
    def parse_lines(self, lines):
        self.lines += [l if isinstance(l, bytes) else l.encode() for l in lines]
    def get_program(self):
        return Program(self.lines, self.args)
