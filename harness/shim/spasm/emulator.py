import os, sys
sys.path.insert(0, os.path.dirname(os.path.dirname(os.path.dirname(os.path.abspath(__file__)))))
import hidlib

class Emulator:
    def __init__(self, prog, ctx=None):
        self.p = prog; self.ctx = ctx; self.events = None; self.pos = 0
    def run(self):
        r = hidlib.run_vm(self.p.lines, self.p.args, fuel=3000000)
        self.result = r
        evs = []
        for k, v in r.events:
            if k == 'out': evs += [('out', bytes([b])) for b in v]
            else: evs.append((k, v))
        self.events = evs
    def step(self):
        if self.events is None: self.run()
        if self.pos < len(self.events):
            k, v = self.events[self.pos]; self.pos += 1
            if k == 'out': self.ctx.output(v)
            elif k == 'sleep': self.ctx.sleep(v)
            elif k == 'flag': self.ctx.on_flag(self.p, v)
            return True
        if self.result.outcome.startswith(('fault', 'asmerror')):
            raise RuntimeError(self.result.outcome)
        return self.result.outcome != 'halted'
