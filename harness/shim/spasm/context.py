class ExecutionContext:
    def __init__(self): pass
    def output(self, val): pass
    def sleep(self, millis): pass
    def on_flag(self, prog, flag): pass
    def virtualize(self): return VirtualContext()
class VirtualContext(ExecutionContext):
    pass
