"""Shared harness library: drives the real hidc (in-process, from /repo's working tree) and the
Lean model executable `hidmodel` (line protocol over a batch file)."""
import os, sys, subprocess, tempfile, json, time, hashlib, random

VERIF = os.path.dirname(os.path.dirname(os.path.abspath(__file__)))
REPO = os.environ.get('HIDC_REPO', '/repo')
HIDMODEL = os.path.join(VERIF, 'lean', '.lake', 'build', 'bin', 'hidmodel')
# the command line tool lifts CPython's int<->str digit limit (hidc/__main__.py); the harness drives the same code in-process
if hasattr(sys, 'set_int_max_str_digits'):
    sys.set_int_max_str_digits(0)
if sys.path[0] != REPO:
    sys.path.insert(0, REPO)


def hidc():
    """import the working-tree hidc lazily and return the pieces used by the harness"""
    from hidc.lexer import SourceCode
    from hidc.parser import parse
    from hidc.ast import Environment
    from hidc.codegen import CodeGen
    from hidc.errors import CompilerError
    return SourceCode, parse, Environment, CodeGen, CompilerError


def compile_src(src, w=2, s=500, unchecked=False, lint=False, want_env=False):
    SourceCode, parse, Environment, CodeGen, _ = hidc()
    env = Environment.empty(unreachable_error=lint)
    parsed = parse(SourceCode.from_string(src))
    prog = parsed.evaluate(env)
    cg = CodeGen(env, w, s, unchecked)
    lines = list(cg.gen_lines())
    if want_env:
        env.options['_parsed'] = parsed      # the tree before typechecking (for syntactic facts)
        return lines, prog, env
    return lines


class Result:
    __slots__ = ('id', 'kind', 'outcome', 'steps', 'backtracks', 'pending', 'trace')

    def __init__(self, fields):
        self.id, self.kind, self.outcome = fields[0], fields[1], fields[2]
        self.steps, self.backtracks, self.pending = int(fields[3]), int(fields[4]), int(fields[5])
        self.trace = fields[6] if len(fields) > 6 else ''

    @property
    def events(self):
        """list of ('out', bytes) / ('flag', name) / ('sleep', ms) / ('note', text)"""
        evs = []
        for part in self.trace.split(',') if self.trace else []:
            k, v = part[0], part[1:]
            if k == 'O': evs.append(('out', bytes.fromhex(v)))
            elif k == 'F': evs.append(('flag', v))
            elif k == 'S': evs.append(('sleep', int(v)))
            elif k == 'N': evs.append(('note', v))
        return evs

    @property
    def output(self):
        return b''.join(v for k, v in self.events if k == 'out')

    @property
    def flags(self):
        return [v for k, v in self.events if k == 'flag']

    @property
    def notes(self):
        return [v for k, v in self.events if k == 'note']

    def obs(self):
        """observable behaviour: outcome, output bytes and flags in order (sleeps dropped)"""
        return (self.outcome, tuple((k, v) for k, v in self.events if k in ('out', 'flag')))

    def __repr__(self):
        return f'<{self.kind} {self.outcome} out={self.output[:60]!r} flags={self.flags} steps={self.steps}>'


def _arg_bytes(a):
    if isinstance(a, bytes): return a
    return str(a).encode('utf-8')


def write_batch(f, cases):
    """cases: dicts with id, asm (list of bytes lines) and/or ast (list of bytes lines),
    args (list), fuel, opts (list of str)"""
    for c in cases:
        f.write(b'@case %s\n' % str(c['id']).encode())
        f.write(b'@fuel %d\n' % c.get('fuel', 2000000))
        for a in c.get('args', ()):
            ab = _arg_bytes(a)
            f.write(b'@arg ' + ab.hex().encode() + b'\n' if ab else b'@arg\n')
        for o in c.get('opts', ()):
            f.write(b'@opt ' + o.encode() + b'\n')
        if c.get('asm') is not None:
            lines = c['asm']
            assert all(b'\n' not in l for l in lines)
            f.write(b'@asm %d\n' % len(lines))
            for l in lines: f.write(l + b'\n')
        if c.get('ast') is not None:
            lines = c['ast']
            f.write(b'@ast %d\n' % len(lines))
            for l in lines: f.write(l + b'\n')
        f.write(b'@end\n')


def run_batch(cases, timeout=600):
    """returns {id: {kind: Result}}"""
    if not cases: return {}
    with tempfile.NamedTemporaryFile(prefix='hidbatch', suffix='.txt', delete=False) as f:
        write_batch(f, cases)
        name = f.name
    try:
        p = subprocess.run([HIDMODEL, 'batch', name], capture_output=True, timeout=timeout)
    finally:
        os.unlink(name)
    if p.returncode != 0:
        raise RuntimeError('hidmodel failed: %s' % p.stderr.decode(errors='replace')[:2000])
    out = {}
    for line in p.stdout.decode('utf-8', errors='replace').split('\n'):
        if not line: continue
        fields = line.split('\t')
        r = Result(fields)
        out.setdefault(r.id, {})[r.kind] = r
    return out


def run_parallel(cases, jobs=None, chunk=200, timeout=900):
    """split cases over several hidmodel processes"""
    from concurrent.futures import ThreadPoolExecutor
    jobs = jobs or min(16, os.cpu_count() or 4)
    chunks = [cases[i:i + chunk] for i in range(0, len(cases), chunk)]
    res = {}
    with ThreadPoolExecutor(max_workers=jobs) as ex:
        for r in ex.map(lambda c: run_batch(c, timeout=timeout), chunks):
            res.update(r)
    return res


def run_vm(lines, args=(), fuel=2000000, opts=()):
    r = run_batch([dict(id='x', asm=lines, args=args, fuel=fuel, opts=list(opts))])
    return r['x']['vm']
