"""Dump the typechecked tree returned by the real front end as an s-expression that
HidVerif/Hid/Ast.lean reads back."""
import hidlib


def _hx(prefix, b):
    if isinstance(b, str): b = b.encode('utf-8')
    return prefix + b.hex()


def dump_program(prog, env):
    from hidc import ast
    from hidc.ast import DataType, ArrayType

    def ty(t):
        if isinstance(t, ArrayType):
            return '(arr %s %d)' % (ty(t.el_type), 1 if t.const else 0)
        return str(t)

    binops = {ast.Add: 'add', ast.Sub: 'sub', ast.Mul: 'mul', ast.Div: 'div', ast.Mod: 'mod',
              ast.Lt: 'lt', ast.Gt: 'gt', ast.Le: 'le', ast.Ge: 'ge', ast.Eq: 'eq', ast.Ne: 'ne',
              ast.And: 'and', ast.Or: 'or'}
    unops = {ast.Pos: 'pos', ast.Neg: 'neg', ast.Not: 'not'}
    casts = {ast.ByteToInt: 'b2i', ast.IntToByte: 'i2b', ast.IntToBool: 'i2bool',
             ast.BoolToByte: 'bool2b', ast.StringToByteArray: 's2a'}

    def ex(e):
        t = type(e)
        if t is ast.ByteValue: return '(lit byte %d)' % e.data
        if t is ast.IntValue: return '(lit int %d)' % e.data
        if t is ast.BoolValue: return '(lit bool %d)' % (1 if e.data else 0)
        if t is ast.StringValue: return '(str %s)' % _hx('x', e.data)
        if t in casts: return '(cast %s %s)' % (casts[t], ex(e.expr))
        if t is ast.Volatile: return '(cast vol %s)' % ex(e.expr)
        if t is ast.VariableLookup: return '(var %s)' % _hx('n', e.var.name)
        if t is ast.ArrayLookup: return '(index %s %s)' % (ex(e.source), ex(e.index))
        if t is ast.LengthLookup: return '(len %s)' % ex(e.source)
        if t is ast.FuncCall:
            return '(call %s (%s) (%s))' % (_hx('n', e.func.name), ' '.join(ty(a.type) for a in e.args),
                                          ' '.join(ex(a) for a in e.args))
        if t is ast.ArrayLiteral:
            return '(arrlit %s (%s))' % (ty(e.type.el_type), ' '.join(ex(v) for v in e.values))
        if t is ast.ArrayInitializer:
            return '(arrinit %s %s)' % (ty(e.type.el_type), ex(e.length))
        if t in binops: return '(bin %s %s %s)' % (binops[t], ex(e.left), ex(e.right))
        if t in unops: return '(un %s %s)' % (unops[t], ex(e.arg))
        if t is ast.Speculation: return '(spec %s %s)' % (ex(e.left), ex(e.right))
        raise ValueError('cannot dump expression %r' % (e,))

    def st(s):
        if isinstance(s, ast.Expression): return '(expr %s)' % ex(s)
        t = type(s)
        if t is ast.Declaration: return '(decl %s %s %s)' % (_hx('n', s.var.name), ty(s.var.type), ex(s.init))
        if t is ast.IncAssignment:
            return '(incassign %s %s %s %s)' % (ex(s.lookup), ex(s.expr), binops[s.bin_op], ty(s.lookup.type))
        if t is ast.Assignment: return '(assign %s %s)' % (ex(s.lookup), ex(s.expr))
        if t is ast.ReturnStatement: return '(ret)' if s.value is None else '(ret %s)' % ex(s.value)
        if t is ast.BreakStatement: return '(break)'
        if t is ast.ContinueStatement: return '(continue)'
        if t is ast.CodeBlock: return '(block %s)' % ' '.join(st(x) for x in s.stmts)
        if t is ast.IfBlock: return '(if %s %s %s)' % (ex(s.cond), st(s.body), st(s.else_block))
        if t is ast.LoopBlock: return '(loop %s %s %s)' % (ex(s.cond), st(s.body), st(s.cont))
        if t is ast.TryBlock:
            kind = 'stop' if isinstance(s.handler, ast.StopBlock) else 'undo'
            return '(try %s %s %s)' % (st(s.body), kind, st(s.handler.body))
        if t is ast.PreemptBlock: return '(preempt %s)' % st(s.body)
        raise ValueError('cannot dump statement %r' % (s,))

    def has_preempt(node, seen=None):
        """does the *syntax* contain a preempt block (README: 'anywhere in it, even if unreachable')"""
        import dataclasses
        if isinstance(node, ast.PreemptBlock): return True
        if isinstance(node, (tuple, list)): return any(has_preempt(x) for x in node)
        if dataclasses.is_dataclass(node) and not isinstance(node, type):
            return any(has_preempt(getattr(node, f.name)) for f in dataclasses.fields(node)
                       if f.name not in ('span', 'start', 'end', 'op_span'))
        return False

    parsed = env.options.get('_parsed')
    syntactic = {}
    if parsed is not None:
        for f in parsed.func_decls:
            syntactic[(f.name.name, tuple(str(t) for t in f.param_types))] = has_preempt(f.body)

    gl = []
    for name, decl in env.vars.globals.items():
        gl.append('(g %s %s %d %s)' % (_hx('n', name), ty(decl.var.type), 1 if decl.var.const else 0, ex(decl.init)))
    fs = []
    for f in prog.func_decls:
        ps = ' '.join('(p %s %s)' % (_hx('n', p.var.name), ty(p.var.type)) for p in f.params)
        pre = syntactic.get((f.name.name, tuple(str(t) for t in f.param_types)), f.body.preemptive)
        fs.append('(f %s %s %d (%s) %s)' % (_hx('n', f.name.name), ty(f.ret_type),
                                           1 if pre else 0, ps, st(f.body)))
    return '(prog (%s) (%s))' % (' '.join(gl), ' '.join(fs))


def compile_both(src, w=2, s=500, unchecked=False, lint=False):
    """returns (asm lines, ast lines)"""
    lines, prog, env = hidlib.compile_src(src, w=w, s=s, unchecked=unchecked, lint=lint, want_env=True)
    return lines, [dump_program(prog, env).encode('ascii')]


def case(cid, src, args=(), w=2, s=500, unchecked=False, fuel=2000000, vm=True, interp=True):
    asm, ast_ = compile_both(src, w=w, s=s, unchecked=unchecked)
    opts = ['w=%d' % w, 'stackbytes=%d' % ((s + 8) * w)]
    if unchecked: opts.append('unchecked')
    return dict(id=cid, asm=asm if vm else None, ast=ast_ if interp else None, args=list(args), fuel=fuel, opts=opts)


if __name__ == '__main__':
    import sys
    src = open(sys.argv[1]).read()
    c = case('t', src, sys.argv[2:])
    r = hidlib.run_batch([c])['t']
    print(r['vm']); print(r['src'])
    print('AGREE' if r['vm'].obs() == r['src'].obs() else 'DIFFER')
