"""Front-end correspondence suites: lexer (tokens + spans + error positions), parser, typechecker."""
import os, subprocess, tempfile, random
import hidlib

# ---------------------------------------------------------------------------------------- lexer
def py_lex(text):
    """token stream of the real lexer in the format of `hidmodel lex`"""
    from hidc.lexer import lex, SourceCode, tokens
    from hidc.errors import LexerError
    out = []
    gen = lex(SourceCode.from_string(text))
    try:
        while True:
            try:
                lx = next(gen)
            except StopIteration as st:
                c = st.value
                out.append('#eof %d:%d' % (c.line, c.col))
                break
            t = lx.token
            sp = '%d:%d-%d:%d' % (lx.span.start.line, lx.span.start.col, lx.span.end.line, lx.span.end.col)
            if isinstance(t, tokens.StringToken): d = 'str ' + t.data.hex()
            elif isinstance(t, tokens.IntToken): d = 'int %d' % t.data
            elif isinstance(t, tokens.CharToken): d = 'chr %d' % t.data
            elif isinstance(t, tokens.Ident):
                d = 'ident %s %s' % ({'': '-', '@': '@', '!': '!'}[t.flavor.value], ' '.join(str(ord(c)) for c in t.base_name))
            else: d = 'enum %s.%s' % (type(t).__name__, t.name)
            out.append(sp + ' ' + d)
    except LexerError as e:
        c = e.context[-1]
        out.append('#error %d:%d' % (c.line, c.col))
    return out


def model_lex(texts):
    """texts: {id: str} -> {id: [lines]}"""
    with tempfile.NamedTemporaryFile('w', suffix='.txt', delete=False, encoding='ascii') as f:
        for k, t in texts.items():
            f.write('#case %s\n' % k)
            for line in t.split('\n'):
                f.write(' '.join(str(ord(c)) for c in line) + '\n')
        f.write('#end\n')
        name = f.name
    p = subprocess.run([hidlib.HIDMODEL, 'lex', name], capture_output=True, text=True, timeout=600)
    os.unlink(name)
    out, cur = {}, None
    for l in p.stdout.split('\n'):
        if l.startswith('#case '):
            cur = l[6:]; out[cur] = []
        elif cur is not None and l: out[cur].append(l)
    return out


SPACES = [' ', ' ', ' ', '\t', '\r', '\x0c', '\x0b', '\xa0', ' ', '　', '\x1c', '\x85', ' ']
PIECES = ['+', '-', '*', '/', '%', '==', '!=', '<', '>', '<=', '>=', '??', '+=', '-=', '*=', '/=', '%=', '=', ';', ',', '.', '(', ')',
          '{', '}', '[', ']', 'or', 'and', 'not', 'is', 'break', 'continue', 'return', 'const', 'if', 'else', 'while', 'for', 'try',
          'undo', 'stop', 'preempt', 'int', 'bool', 'byte', 'string', 'empty', 'true', 'false']
IDCH = 'abcXYZ_019éλ١中ª'


def gen_lexeme(rng):
    r = rng.random()
    if r < 0.3: return rng.choice(PIECES)
    if r < 0.5:
        n = ''.join(rng.choice(IDCH) for _ in range(rng.randint(1, 6)))
        if n[0] in '019١': n = '_' + n
        return rng.choice(['', '', '@', '!']) + n
    if r < 0.7:
        base = rng.choice(['', '', '0x', '0o', '0b'])
        digs = {'': '0123456789٣३', '0x': '0123456789abcdefABCDEF٥', '0o': '01234567', '0b': '01'}[base]
        s = base + rng.choice(digs)
        for _ in range(rng.randint(0, 6)):
            s += rng.choice(['', '', '_']) + rng.choice(digs)
        if rng.random() < 0.15: s += rng.choice(['_', '__1', 'x', '8', '9'])
        return s
    if r < 0.88:
        body = ''
        for _ in range(rng.randint(0, 6)):
            k = rng.random()
            if k < 0.5: body += rng.choice('ab zé中\U0001F30E;/\'')
            elif k < 0.8: body += '\\' + rng.choice(['n', 't', 'r', '0', 'a', 'b', 'f', '\\', '"', "'", 'x41', 'xfF', 'x0', 'u{1F30E}', 'u{e9}', 'u{110000}',
                                                      'u{D800}', 'u{}', 'u{12', 'q', 'x١٢'])
            else: body += rng.choice(['//', ' ', '\t'])
        return '"' + body + ('"' if rng.random() < 0.9 else '')
    c = rng.choice(['a', ' ', '"', '\\n', "\\'", '\\\\', '\\x7f', '\\xff', '\\u{41}', 'é', '', "'", '\\q', 'ab', '\\0', '\\u{e9}'])
    return "'" + c + ("'" if rng.random() < 0.9 else '')


def gen_lex_text(rng):
    parts = []
    for _ in range(rng.randint(0, 14)):
        parts.append(gen_lexeme(rng))
        k = rng.random()
        if k < 0.6: parts.append(''.join(rng.choice(SPACES) for _ in range(rng.randint(0, 2))))
        elif k < 0.75: parts.append('\n' * rng.randint(1, 2))
        elif k < 0.85: parts.append(rng.choice([' // c ', '//', '// "x\n', '/ /']) + ('\n' if rng.random() < 0.8 else ''))
        if rng.random() < 0.03: parts.append(rng.choice(['#', '$', '`', '\\', '~', '^', '&', '|', '?', ':', '@', '!', '\x00', '\x7f']))
    return ''.join(parts)


def lex_suite(ctx, n, extra_texts=()):
    texts = {}
    for i, t in enumerate(extra_texts): texts['x%d' % i] = t
    for i in range(n): texts['g%d' % i] = gen_lex_text(ctx.rng)
    model = model_lex(texts)
    bad = []
    kinds = {}
    for k, t in texts.items():
        want = py_lex(t)
        got = model.get(k)
        for l in want:
            kk = l.split(' ')[1] if not l.startswith('#') else l.split(' ')[0]
            kinds[kk] = kinds.get(kk, 0) + 1
        if want != got: bad.append((k, t, want, got))
    ctx.stats['lex_correspondence'] = dict(texts=len(texts), mismatches=len(bad), token_kinds=kinds)
    if bad:
        k, t, want, got = bad[0]
        first = next((i for i in range(max(len(want), len(got or []))) if i >= len(want) or i >= len(got or []) or want[i] != got[i]), 0)
        ctx.breaks.append(dict(kind='correspondence', name='lex: Hid/Lexer.lean vs hidc.lexer', detail=repr(dict(
            text=t, impl=want[first:first + 2], model=(got or [])[first:first + 2]))[:1500]))
    ctx.say('lexer correspondence: %d texts, %d mismatches' % (len(texts), len(bad)))
    return bad
