"""Front-end correspondence suites: lexer (tokens + spans + error positions), parser, typechecker."""
import os, subprocess, tempfile, random
import hidlib

# ---------------------------------------------------------------------------------------- lexer
def py_lex_file(text, tail=''):
    """the same text read from a file (the command line's path into the lexer), with the given bytes appended"""
    import tempfile, os
    from hidc.lexer import SourceCode
    with tempfile.NamedTemporaryFile('wb', suffix='.hid', delete=False) as f:
        f.write(text.encode('utf-8') + tail.encode('utf-8'))
        name = f.name
    try:
        return py_lex(None, SourceCode.from_file(name))
    finally:
        os.unlink(name)


def py_lex(text, source=None):
    """token stream of the real lexer in the format of `hidmodel lex` (of `source`, a SourceCode, if given)"""
    from hidc.lexer import lex, SourceCode, tokens
    from hidc.errors import LexerError
    out = []
    gen = lex(source if source is not None else SourceCode.from_string(text))
    try:
        while True:
            try:
                lx = next(gen)
            except StopIteration as st:
                c = st.value
                out.append('#eof %d:%d' % (c.line, c.col))
                break
            t = lx.token
            sp = '%d:%d-%d:%d' % (lx.span.start.line, lx.span.start.col, lx.span.end.line, lx.span.end.col)
            if isinstance(t, tokens.StringToken): d = 'str ' + t.data.hex()
            elif isinstance(t, tokens.IntToken): d = 'int %d' % t.data
            elif isinstance(t, tokens.CharToken): d = 'chr %d' % t.data
            elif isinstance(t, tokens.Ident):
                d = 'ident %s %s' % ({'': '-', '@': '@', '!': '!'}[t.flavor.value], ' '.join(str(ord(c)) for c in t.base_name))
            else: d = 'enum %s.%s' % (type(t).__name__, t.name)
            out.append(sp + ' ' + d)
    except LexerError as e:
        c = e.context[-1]
        out.append('#error %d:%d' % (c.line, c.col))
    except RecursionError:
        out.append('#recursion')
    except Exception as e:
        # anything but a LexerError escaping the lexer is a failure of the implementation (C10/C12), never of the harness
        out.append('#internal %s: %s' % (type(e).__name__, str(e)[:80]))
    return out


def model_lex(texts):
    """texts: {id: str} -> {id: [lines]}"""
    with tempfile.NamedTemporaryFile('w', suffix='.txt', delete=False, encoding='ascii') as f:
        for k, t in texts.items():
            f.write('#case %s\n' % k)
            for line in t.split('\n'):
                f.write(' '.join(str(ord(c)) for c in line) + '\n')
        f.write('#end\n')
        name = f.name
    p = subprocess.run([hidlib.HIDMODEL, 'lex', name], capture_output=True, text=True, timeout=600)
    os.unlink(name)
    out, cur = {}, None
    for l in p.stdout.split('\n'):
        if l.startswith('#case '):
            cur = l[6:]; out[cur] = []
        elif cur is not None and l: out[cur].append(l)
    return out


SPACES = [' ', ' ', ' ', '\t', '\r', '\x0c', '\x0b', '\xa0', ' ', '　', '\x1c', '\x85', ' ']
PIECES = ['+', '-', '*', '/', '%', '==', '!=', '<', '>', '<=', '>=', '??', '+=', '-=', '*=', '/=', '%=', '=', ';', ',', '.', '(', ')',
          '{', '}', '[', ']', 'or', 'and', 'not', 'is', 'break', 'continue', 'return', 'const', 'if', 'else', 'while', 'for', 'try',
          'undo', 'stop', 'preempt', 'int', 'bool', 'byte', 'string', 'empty', 'true', 'false']
IDCH = 'abcXYZ_019éλ١中ª'


def gen_lexeme(rng):
    r = rng.random()
    if r < 0.3: return rng.choice(PIECES)
    if r < 0.5:
        n = ''.join(rng.choice(IDCH) for _ in range(rng.randint(1, 6)))
        if n[0] in '019١': n = '_' + n
        return rng.choice(['', '', '@', '!']) + n
    if r < 0.7:
        base = rng.choice(['', '', '0x', '0o', '0b'])
        digs = {'': '0123456789٣३', '0x': '0123456789abcdefABCDEF٥', '0o': '01234567', '0b': '01'}[base]
        s = base + rng.choice(digs)
        for _ in range(rng.randint(0, 6)):
            s += rng.choice(['', '', '_']) + rng.choice(digs)
        if rng.random() < 0.15: s += rng.choice(['_', '__1', 'x', '8', '9'])
        return s
    if r < 0.88:
        body = ''
        for _ in range(rng.randint(0, 6)):
            k = rng.random()
            if k < 0.5: body += rng.choice('ab zé中\U0001F30E;/\'')
            elif k < 0.8: body += '\\' + rng.choice(['n', 't', 'r', '0', 'a', 'b', 'f', '\\', '"', "'", 'x41', 'xfF', 'x00', 'x0', 'u{1F30E}', 'u{e9}', 'u{110000}',
                                                      'u{D800}', 'u{}', 'u{12', 'q', 'x١٢', 'u{0}',
                                                      'x%02x' % rng.randrange(256), 'x%02X' % rng.randrange(256), 'u{%x}' % rng.randrange(0x3000),
                                                      'u{%X}' % rng.getrandbits(rng.choice([8, 16, 20, 21, 24, 31, 32, 33, 63, 64, 65, 100, 400]))])
            else: body += rng.choice(['//', ' ', '\t'])
        return '"' + body + ('"' if rng.random() < 0.9 else '')
    c = rng.choice(['a', ' ', '"', '\\n', "\\'", '\\\\', '\\x7f', '\\xff', '\\u{41}', 'é', '', "'", '\\q', 'ab', '\\0', '\\u{e9}', '\\x00', '\\u{0}', '\\x%02x' % rng.randrange(256)])
    return "'" + c + ("'" if rng.random() < 0.9 else '')


def gen_lex_text(rng):
    parts = []
    for _ in range(rng.randint(0, 14)):
        parts.append(gen_lexeme(rng))
        k = rng.random()
        if k < 0.6: parts.append(''.join(rng.choice(SPACES) for _ in range(rng.randint(0, 2))))
        elif k < 0.75: parts.append('\n' * rng.randint(1, 2))
        elif k < 0.85: parts.append(rng.choice([' // c ', '//', '// "x\n', '/ /']) + ('\n' if rng.random() < 0.8 else ''))
        if rng.random() < 0.03: parts.append(rng.choice(['#', '$', '`', '\\', '~', '^', '&', '|', '?', ':', '@', '!', '\x00', '\x7f']))
    return ''.join(parts)


def lex_suite(ctx, n, extra_texts=()):
    texts = {}
    for i, t in enumerate(extra_texts): texts['x%d' % i] = t
    for i in range(n): texts['g%d' % i] = gen_lex_text(ctx.rng)
    model = model_lex(texts)
    bad = []
    kinds = {}
    for k, t in texts.items():
        want = py_lex(t)
        got = model.get(k)
        for l in want:
            kk = l.split(' ')[1] if not l.startswith('#') else l.split(' ')[0]
            kinds[kk] = kinds.get(kk, 0) + 1
        if want != got: bad.append((k, t, want, got))
        if want and want[-1].startswith('#internal'):
            internal = ctx.stats.setdefault('lexer_internal_exceptions', 0)
            ctx.stats['lexer_internal_exceptions'] = internal + 1
            if internal < 2:
                ctx.violations.append(dict(what='the lexer let an internal exception escape: ' + want[-1], kind='LEX-INTERNAL', source=t, args=[], config={}))
    ctx.stats['lex_correspondence'] = dict(texts=len(texts), mismatches=len(bad), token_kinds=kinds)
    if bad:
        k, t, want, got = bad[0]
        first = next((i for i in range(max(len(want), len(got or []))) if i >= len(want) or i >= len(got or []) or want[i] != got[i]), 0)
        ctx.breaks.append(dict(kind='correspondence', name='lex: Hid/Lexer.lean vs hidc.lexer', detail=repr(dict(
            text=t, impl=want[first:first + 2], model=(got or [])[first:first + 2]))[:1500]))
        # the token stream (tokens, values, spans, error position) is what the lexing properties speak of: a text on which the
        # implementation's stream differs from the verified model's is a concrete failing input, like in the parse and tc suites
        bad.sort(key=lambda x: len(x[1]))
        for k, t, want, got in bad[:2]:
            ctx.violations.append(dict(what='lexer departs from the verified model: implementation %r, model %r' % (want[:3], (got or [])[:3]),
                                       kind='LEX-MODEL', source=t, args=[], config={}, implementation=want[:40], model=(got or [])[:40]))
    ctx.say('lexer correspondence: %d texts, %d mismatches' % (len(texts), len(bad)))
    return bad


# ---------------------------------------------------------------------------------------- parser
def dump_parse(prog):
    """untyped parse tree in the format of Hid/ParseRender.lean"""
    from hidc import ast
    from hidc.ast import ArrayType
    from hidc.lexer.tokens import Flavor

    def name(n): return 'n' + '.'.join(str(ord(c)) for c in n)
    def fl(f): return {Flavor.NONE: '-', Flavor.YOU: '@', Flavor.DEFEAT: '!'}[f]
    def ty(t): return '(arr %s %d)' % (ty(t.el_type), 1 if t.const else 0) if isinstance(t, ArrayType) else str(t)

    def ex(e):
        t = type(e)
        if t is ast.ByteValue: return '(char %d)' % e.data
        if t is ast.IntValue: return '(int %d)' % e.data
        if t is ast.StringValue: return '(str x%s)' % e.data.hex()
        if t is ast.BoolValue: return '(bool %d)' % (1 if e.data else 0)
        if t is ast.ArrayLiteral: return '(arrlit%s)' % ''.join(' ' + ex(v) for v in e.values)
        if t is ast.FuncCall: return '(call %s %s%s)' % (fl(e.func.flavor), name(e.func.base_name), ''.join(' ' + ex(a) for a in e.args))
        if t is ast.VariableLookup: return '(var %s)' % name(e.var.name)
        if t is ast.LengthLookup: return '(len %s)' % ex(e.source)
        if t is ast.ArrayLookup: return '(index %s %s)' % (ex(e.source), ex(e.index))
        if t is ast.Is: return '(is %s %s)' % (ex(e.expr), ty(e.type))
        if t is ast.Speculation: return '(spec %s %s)' % (ex(e.left), ex(e.right))
        if isinstance(e, ast.Unary): return '(un %s %s)' % (t.__name__, ex(e.arg))
        if isinstance(e, ast.Binary): return '(bin %s %s %s)' % (t.__name__, ex(e.left), ex(e.right))
        raise ValueError('dump_parse: %r' % (e,))

    def st(s):
        if isinstance(s, ast.Expression) and not isinstance(s, ast.ArrayInitializer): return '(expr %s)' % ex(s)
        t = type(s)
        if t is ast.Declaration:
            if isinstance(s.init, ast.ArrayInitializer):
                return '(vla %s %s %d %s)' % (name(s.var.name), ty(s.var.type.el_type), 1 if s.var.type.const else 0, ex(s.init.length))
            return '(decl %s %s %d %s)' % (name(s.var.name), ty(s.var.type), 1 if s.var.const else 0, ex(s.init))
        if t is ast.IncAssignment: return '(incassign %s %s %s)' % (ex(s.lookup), ex(s.expr), s.bin_op.__name__)
        if t is ast.Assignment: return '(assign %s %s)' % (ex(s.lookup), ex(s.expr))
        if t is ast.ReturnStatement: return '(ret)' if s.value is None else '(ret %s)' % ex(s.value)
        if t is ast.BreakStatement: return '(break)'
        if t is ast.ContinueStatement: return '(continue)'
        if t is ast.CodeBlock: return '(block %d%s)' % (1 if s.preemptive else 0, ''.join(' ' + st(x) for x in s.stmts))
        if t is ast.IfBlock: return '(if %s %s %s)' % (ex(s.cond), st(s.body), st(s.else_block))
        if t is ast.LoopBlock: return '(loop %s %s %s)' % (ex(s.cond), st(s.body), st(s.cont))
        if t is ast.TryBlock: return '(try %s %s %s)' % (st(s.body), 'stop' if isinstance(s.handler, ast.StopBlock) else 'undo', st(s.handler.body))
        if t is ast.PreemptBlock: return '(preempt %s)' % st(s.body)
        raise ValueError('dump_parse: %r' % (s,))

    vs = ' '.join(st(d) for d in prog.var_decls)
    fs = ' '.join('(f %s %s %s (%s) %s)' % (ty(f.ret_type), fl(f.name.flavor), name(f.name.base_name),
                                          ' '.join('(%s %s %d)' % (name(p.var.name), ty(p.var.type), 1 if p.var.const else 0) for p in f.params),
                                          st(f.body)) for f in prog.func_decls)
    return '(prog (%s) (%s))' % (vs, fs)


def py_parse(text):
    from hidc.lexer import SourceCode
    from hidc.parser import parse
    from hidc.errors import LexerError, ParserError
    try:
        return 'ok ' + dump_parse(parse(SourceCode.from_string(text)))
    except (LexerError, ParserError) as e:
        c = e.context[-1].start
        return '%s %d:%d' % (type(e).__name__, c.line, c.col)
    except RecursionError:
        return 'recursion'
    except Exception as e:
        # an internal exception escaping the implementation is a result to compare, not a harness failure
        return 'INTERNAL %s: %s' % (type(e).__name__, str(e)[:80])


def model_run(cmd, texts):
    with tempfile.NamedTemporaryFile('w', suffix='.txt', delete=False, encoding='ascii') as f:
        for k, t in texts.items():
            f.write('#case %s\n' % k)
            for line in t.split('\n'):
                f.write(' '.join(str(ord(c)) for c in line) + '\n')
        f.write('#end\n')
        name = f.name
    p = subprocess.run([hidlib.HIDMODEL, cmd, name], capture_output=True, text=True, timeout=900)
    os.unlink(name)
    out, cur = {}, None
    for l in p.stdout.split('\n'):
        if l.startswith('#case '):
            cur = l[6:]; out[cur] = []
        elif cur is not None and l: out[cur].append(l)
    return {k: '\n'.join(v) for k, v in out.items()}


def mutate_text(rng, text):
    """(never raises: the spans come from the lexer under test, which may be wrong - then the text is returned unchanged)"""
    try:
        return _mutate_text(rng, text)
    except Exception:
        return text


def _mutate_text(rng, text):
    """token-level mutations of a valid program: delete / duplicate / swap / replace a lexeme"""
    toks = [l.split(' ')[0] for l in py_lex(text) if not l.startswith('#')]
    if not toks: return text
    lines = text.split('\n')
    i = rng.randrange(len(toks))
    (l0, c0), (l1, c1) = [tuple(map(int, x.split(':'))) for x in toks[i].split('-')]
    lex = lines[l0][c0:c1]
    k = rng.random()
    if k < 0.3: rep = ''
    elif k < 0.45: rep = lex + ' ' + lex
    elif k < 0.9: rep = rng.choice(PIECES + ['x', '1', '"s"', "'c'", '@f', '!g', 'try', 'preempt', '??', 'break', '{', '}', '(', ')', ';', 'empty', '[', ']'])
    else: rep = gen_lexeme(rng)
    lines[l0] = lines[l0][:c0] + rep + lines[l0][c1:]
    return '\n'.join(lines)


def parse_suite(ctx, texts):
    model = model_run('parse', texts)
    bad = []
    kinds = {}
    for k, t in texts.items():
        want = py_parse(t)
        got = model.get(k)
        kk = want.split(' ')[0]
        kinds[kk] = kinds.get(kk, 0) + 1
        if want != got: bad.append((k, t, want, got))
    ctx.stats['parse_correspondence'] = dict(texts=len(texts), mismatches=len(bad), outcomes=kinds)
    if bad:
        bad.sort(key=lambda x: len(x[1]))
        k, t, want, got = bad[0]
        ctx.breaks.append(dict(kind='correspondence', name='parse: Hid/Parser.lean vs hidc.parser', detail=repr(dict(
            text=t[:600], impl=want[:300], model=(got or '')[:300]))[:1800]))
        if hasattr(ctx, 'violations'):
            for k, t, want, got in bad[:2]:
                ctx.violations.append(dict(what='parser departs from the verified model: implementation %s, model %s' % (want[:60], (got or '')[:60]),
                                           kind='PARSE-MODEL', source=t, args=[], config={}, implementation=want[:1500], model=(got or '')[:1500]))
    ctx.say('parser correspondence: %d texts, %d mismatches %s' % (len(texts), len(bad), kinds))
    return bad


# ---------------------------------------------------------------------------------------- typechecker
def py_frontend(text, lint=False):
    """'ok <typed tree>' | 'LexerError l:c' | 'ParserError l:c' | 'TypeCheckError' | 'EXC <type>'"""
    import dump_ast
    from hidc.lexer import SourceCode
    from hidc.parser import parse
    from hidc.ast import Environment
    from hidc.errors import LexerError, ParserError, TypeCheckError
    try:
        parsed = parse(SourceCode.from_string(text))
    except (LexerError, ParserError) as e:
        c = e.context[-1].start
        return '%s %d:%d' % (type(e).__name__, c.line, c.col)
    except RecursionError:
        return 'recursion'
    except Exception as e:
        return 'EXC ' + type(e).__name__
    env = Environment.empty(unreachable_error=lint)
    try:
        prog = parsed.evaluate(env)
    except TypeCheckError:
        return 'TypeCheckError'
    except Exception as e:
        return 'EXC ' + type(e).__name__
    env.options['_parsed'] = parsed
    return 'ok ' + dump_ast.dump_program(prog, env)


def tc_suite(ctx, texts, lint=False):
    model = model_run('tclint' if lint else 'tc', texts)
    bad = []
    kinds = {}
    for k, t in texts.items():
        want = py_frontend(t, lint)
        got = model.get(k)
        kk = want.split(' ')[0]
        kinds[kk] = kinds.get(kk, 0) + 1
        if want != got: bad.append((k, t, want, got))
    st = ctx.stats.setdefault('tc_correspondence', dict(texts=0, mismatches=0, outcomes={}))
    st['texts'] += len(texts); st['mismatches'] += len(bad)
    for k, v in kinds.items(): st['outcomes'][k] = st['outcomes'].get(k, 0) + v
    if bad:
        bad.sort(key=lambda x: len(x[1]))
        k, t, want, got = bad[0]
        ctx.breaks.append(dict(kind='correspondence', name='tc: Hid/Typecheck*.lean vs Program.evaluate', detail=repr(dict(
            text=t[:700], impl=want[:300], model=(got or '')[:300]))[:2000]))
        # the model satisfies the proved typing theorems; an input on which the implementation departs from it
        # is a concrete input on which "accepts exactly the well-typed programs / binds the documented overload" fails
        if hasattr(ctx, 'violations'):
            for k, t, want, got in bad[:2]:
                ctx.violations.append(dict(what='typechecker departs from the verified model: implementation %s, model %s' % (want[:60], (got or '')[:60]),
                                           kind='TC-MODEL', source=t, args=[], config=dict(lint=lint), implementation=want[:1500], model=(got or '')[:1500]))
    ctx.say('typechecker correspondence%s: %d texts, %d mismatches %s' % (' (lint)' if lint else '', len(texts), len(bad), kinds))
    return bad


def test_snippets():
    """every string constant of the repository's front-end test files: about 400 hand-written
    programs and fragments, valid and invalid (their expected outcome is irrelevant here: the
    model is compared with the implementation on them)"""
    import ast as pyast
    out = []
    for f in ('test_lexer.py', 'test_parser.py', 'test_typecheck.py', 'test_codegen.py'):
        path = os.path.join(hidlib.REPO, 'tests', f)
        if not os.path.exists(path): continue
        tree = pyast.parse(open(path, encoding='utf-8').read())
        for n in pyast.walk(tree):
            if isinstance(n, pyast.Constant) and isinstance(n.value, str) and len(n.value) > 2:
                out.append(n.value)
            elif isinstance(n, pyast.Constant) and isinstance(n.value, bytes) and len(n.value) > 2:
                try: out.append(n.value.decode('utf-8'))
                except UnicodeDecodeError: pass
    return sorted(set(out))


TYPE_WORDS = ['int', 'byte', 'bool', 'string']
LIT_SWAPS = ['1', '300', '"s"', 'true', "'c'", '[1, 2]', '[]', '[true]', '["a"]', '(-1)', '0']


def type_mutate(rng, text):
    try:
        return _type_mutate(rng, text)
    except Exception:
        return text


def _type_mutate(rng, text):
    """edits that keep the syntax (mostly) valid and disturb typing: swap type keywords, add or
    drop const, swap literal kinds, rename identifiers, drop return statements, duplicate
    declarations, change assignment operators, add array brackets"""
    toks = [l for l in py_lex(text) if not l.startswith('#')]
    if not toks: return text
    lines = text.split('\n')

    def span(l):
        (l0, c0), (l1, c1) = [tuple(map(int, x.split(':'))) for x in l.split(' ')[0].split('-')]
        return l0, c0, c1

    for _ in range(rng.choice([1, 1, 2])):
        k = rng.random()
        if k < 0.25:
            cands = [l for l in toks if l.split(' ', 1)[1].startswith('enum DataType.')]
            if not cands: continue
            l0, c0, c1 = span(rng.choice(cands))
            rep = rng.choice(TYPE_WORDS + ['const int', 'int[]', 'const byte[]', 'empty'])
        elif k < 0.45:
            cands = [l for l in toks if l.split(' ')[1] in ('int', 'chr', 'str') or 'BoolToken' in l]
            if not cands: continue
            l0, c0, c1 = span(rng.choice(cands))
            rep = rng.choice(LIT_SWAPS)
        elif k < 0.65:
            ids = [l for l in toks if l.split(' ')[1] == 'ident']
            if len(ids) < 2: continue
            a, b = rng.sample(ids, 2)
            l0, c0, c1 = span(a)
            bl, bc0, bc1 = span(b)
            rep = lines[bl][bc0:bc1]
        elif k < 0.75:
            cands = [l for l in toks if 'StmtToken.RETURN' in l or 'StmtToken.CONST' in l]
            if not cands: continue
            l0, c0, c1 = span(rng.choice(cands))
            rep = rng.choice(['', 'const'])
        elif k < 0.85:
            cands = [l for l in toks if 'StmtToken.ASSIGN' in l or 'IncAssignToken' in l]
            if not cands: continue
            l0, c0, c1 = span(rng.choice(cands))
            rep = rng.choice(['=', '+=', '/=', '%='])
        else:
            i = rng.randrange(len(lines))
            lines.insert(i, lines[i])
            toks = [l for l in py_lex('\n'.join(lines)) if not l.startswith('#')]
            continue
        lines[l0] = lines[l0][:c0] + rep + lines[l0][c1:]
        toks = [l for l in py_lex('\n'.join(lines)) if not l.startswith('#')]
        if not toks: break
    return '\n'.join(lines)


# ---------------------------------------------------------------------------------------- exit modes
def skeleton(block):
    """control skeleton of a typechecked block, every CodeBlock annotated with the mode the real
    typechecker recorded (ExitMode value)"""
    from hidc import ast
    from hidc.lexer.tokens import Flavor

    def st(s):
        t = type(s)
        if t is ast.CodeBlock: return '(block %d %s)' % (s.exit_modes().value, ' '.join(st(x) for x in s.stmts))
        if t is ast.IfBlock: return '(if %s %s)' % (st(s.body), st(s.else_block))
        if t is ast.LoopBlock:
            tc = isinstance(s.cond, ast.BoolValue) and s.cond.data
            return '(loop %d %s %s)' % (1 if tc else 0, st(s.body), st(s.cont))
        if t is ast.TryBlock: return '(try %s %s)' % (st(s.body), st(s.handler.body))
        if t is ast.PreemptBlock: return '(preempt %s)' % st(s.body)
        if t is ast.ReturnStatement: return '(ret)'
        if t is ast.BreakStatement: return '(brk)'
        if t is ast.ContinueStatement: return '(cont)'
        if t is ast.FuncCall:
            if s.func.flavor == Flavor.DEFEAT:
                return '(defeat)' if (s.func.base_name == 'is_defeat' and not s.args) else '(defcall)'
            if s.func.flavor == Flavor.NONE and s.func.base_name in ('all_is_win', 'all_is_broken') and not s.args: return '(term)'
        return '(other)'
    return st(block)


def exit_suite(ctx, texts):
    """Hid/ExitModes.lean `modes` == the mode recorded by CodeBlock.evaluate for every block of
    every function of every accepted program"""
    from hidc.lexer import SourceCode
    from hidc.parser import parse
    from hidc.ast import Environment
    lines = []
    owners = []
    for k, t in texts.items():
        try:
            env = Environment.empty()
            prog = parse(SourceCode.from_string(t)).evaluate(env)
        except Exception:
            continue
        for f in prog.func_decls:
            # the appended implicit return changed the recorded mode of the outermost block only
            lines.append(skeleton(f.body)); owners.append((k, f.name.name))
    with tempfile.NamedTemporaryFile('w', suffix='.txt', delete=False) as f:
        f.write('\n'.join(lines) + '\n'); name = f.name
    p = subprocess.run([hidlib.HIDMODEL, 'exitmodes', name], capture_output=True, text=True, timeout=600)
    os.unlink(name)
    res = [l for l in p.stdout.split('\n') if l]
    bad = [(o, l, r) for o, l, r in zip(owners, lines, res) if r != 'ok']
    nblocks = sum(l.count('(block') for l in lines)
    ctx.stats['exit_correspondence'] = dict(functions=len(lines), blocks=nblocks, mismatches=len(bad))
    if bad or len(res) != len(lines):
        ctx.breaks.append(dict(kind='correspondence', name='exit: Hid/ExitModes.lean modes vs CodeBlock.evaluate',
                               detail=repr([(o, r, l[:300]) for o, l, r in bad[:2]])[:1500]))
    ctx.say('exit-mode correspondence: %d functions, %d blocks, %d mismatches' % (len(lines), nblocks, len(bad)))
    return bad


# ---------------------------------------------------------------------------------------- empty is not a value
def empty_value_programs():
    """every empty-typed expression (user/builtin call of each flavour) in every value position: all must be rejected by the typechecker"""
    pre = 'empty e2() { }\nempty g(int a) { }\nempty @y2() { }\nempty !d2() { }\n'
    exprs = {'ord': ['e2()', 'writeln("x")', 'write(1)'], 'you': ['@y2()'], 'def': ['!d2()', '!is_defeat()']}
    pos = ['return %s;', 'int x = %s;', 'x = %s;', 'write(%s);', 'g(%s);', '[%s];', 'int[] a = [%s];', 'if (%s) { }', 'while (%s) { }', 'for (;%s;) { }',
           'int a[%s];', 'arr[%s] = 1;', 'arr[0] = %s;', 'int y = %s + 1;', 'bool b = %s == %s;', 'int y = -%s;', 'bool b = not %s;', 'int y = %s is int;',
           'bool b = %s is bool;', 'int n = %s.length;', 'int n = %s[0];', 'x += %s;', 'bool b = %s and true;', 'bool b = true or %s;', 'int y = (%s);',
           'byte y = %s is byte;', 'string s = %s is string;', 'const int[] q = %s is int[];']
    out = []
    for fl, es in exprs.items():
        name = {'ord': 'f', 'you': '@f', 'def': '!f'}[fl]
        call = {'ord': 'f();', 'you': '@f();', 'def': 'try { !f(); } undo { }'}[fl]
        for e in es:
            for ret in ('empty', 'int'):
                for p in pos:
                    out.append(pre + '%s %s() { int x = 0; int[] arr = [1]; %s%s }\nempty @is_you() { %s }'
                               % (ret, name, p.replace('%s', e), ' return 1;' if ret == 'int' else '', call))
    return out


def mentioned_name_programs():
    """calls of *undefined* functions whose names the compiler's own sources mention as string literals (builtin names, names that
    diagnostics special-case for hints, attribute names), in each flavour and with several argument shapes: every one must end in a
    located diagnostic (or compile, for real builtins) - diagnostic code paths are where unguarded lookups hide"""
    import glob, re
    names = set()
    for f in glob.glob(os.path.join(hidlib.REPO, "hidc", "**", "*.py"), recursive=True):
        try: txt = open(f, encoding='utf-8').read()
        except Exception: continue
        for m in re.finditer(r"""['"]([A-Za-z_][A-Za-z_0-9]{1,14})['"]""", txt):
            names.add(m.group(1))
    names = sorted(n for n in names if n not in ('int', 'byte', 'bool', 'string', 'empty', 'const', 'if', 'else', 'while', 'for', 'try', 'undo',
                                                 'stop', 'preempt', 'return', 'break', 'continue', 'is', 'not', 'and', 'or', 'true', 'false'))
    out = []
    argsets = ['', '"s"', '1', "'c'", '1, 2', 'true', '[1, 2]']
    for i, n in enumerate(names):
        for j, a in enumerate(argsets):
            out.append('empty @is_you() { %s(%s); }' % (n, a))
            if (i + j) % 2 == 0:
                out.append('empty @is_you() { @%s(%s); }' % (n, a))
                out.append('empty @is_you() { try { !%s(%s); } undo { } }' % (n, a))
                out.append('empty !d() { !%s(%s); }\nempty @is_you() { try { !d(); } undo { } }' % (n, a))
    return out
