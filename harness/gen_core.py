"""Generator of *core* programs (the sub-language modelled by lean/HidVerif/Compiler/Core.lean):
one @is_you(), int locals, + - * / %, unary + -, comparisons, and/or/not, declarations, assignments,
op-assignments, write(int), writeln, character output, blocks, if/else, while, for, break, continue, return,
user functions, try/undo with defeat calls, try/stop with !is_defeat()."""
import random


class G:
    def __init__(self, rng, faults=0.05):
        self.r = rng
        self.faults = faults
        self.n = 0
        self.scopes = [[]]
        self.loopvars = set()
        self.in_try = False       # inside a try body: defeat calls allowed, try not
        self.funcs = []           # (name, nparams, returns_int) callable from the code being generated
        self.dfuncs = []          # defeat functions: callable only inside try/stop bodies and defeat functions
        self.in_handler = False   # inside an undo handler: plain statements only
        self.loops = []           # kinds ('for' / 'while') of the enclosing loops of the code being generated

    def vars(self):
        return [v for sc in self.scopes for v in sc]

    def fresh(self):
        self.n += 1
        return 'v%d' % self.n

    def lit(self):
        r = self.r.random()
        if r < 0.5: return str(self.r.randrange(0, 10))
        if r < 0.8: return str(self.r.choice([0, 1, 2, 3, 7, 10, 100, 255, 256, 1000, 32767, 32768, 65535, 65536, 70000, 8388607, 2147483647]))
        return '(-%d)' % self.r.choice([1, 2, 5, 128, 32768, 32769])

    def e(self, d):
        r = self.r.random()
        vs = self.vars()
        if d <= 0 or r < 0.25:
            if vs and self.r.random() < 0.65: return self.r.choice(vs)
            return self.lit()
        if r < 0.85:
            op = self.r.choice(['+', '-', '*', '+', '-', '*', '/', '%'])
            l, rr = self.e(d - 1), self.e(d - 1)
            if op in '/%' and self.r.random() > self.faults:
                rr = self.r.choice(['1', '2', '3', '7', '10', '(-1)', '(-3)', '256'])
            # at least one side must not be a literal, or the typechecker folds (and may reject) the expression
            if not vs: return l
            if l[0] in '0123456789(' and l.lstrip('(-').rstrip(')').isdigit() and rr.lstrip('(-').rstrip(')').isdigit():
                l = self.r.choice(vs)
            return '(%s %s %s)' % (l, op, rr)
        if r < 0.95:
            inner = self.e(d - 1)
            if inner.lstrip('(-').rstrip(')').isdigit():
                if not vs: return inner
                inner = self.r.choice(vs)
            return '(-%s)' % inner
        inner = self.e(d - 1)
        if inner.lstrip('(-').rstrip(')').isdigit():
            if not vs: return inner
            inner = self.r.choice(vs)
        return '(+%s)' % inner

    def cmp(self, d):
        vs = self.vars()
        l, rr = self.e(d), self.e(d)
        if vs and l.lstrip('(-').rstrip(')').isdigit() and rr.lstrip('(-').rstrip(')').isdigit():
            l = self.r.choice(vs)
        elif not vs:
            return self.r.choice(['true', 'false'])
        return '%s %s %s' % (l, self.r.choice(['<', '>', '<=', '>=', '==', '!=']), rr)

    def b(self, d):
        r = self.r.random()
        if d <= 0 or r < 0.45: return self.cmp(self.r.randint(0, 2))
        if r < 0.6: return '(not (%s))' % self.b(d - 1)
        if r < 0.8: return '(%s and %s)' % (self.b(d - 1), self.b(d - 1))
        if r < 0.97: return '(%s or %s)' % (self.b(d - 1), self.b(d - 1))
        return self.r.choice(['true', 'false'])

    def block(self, d, n=None, ind='    '):
        self.scopes.append([])
        out = []
        for _ in range(n if n is not None else self.r.randint(1, 4)):
            out += self.stmt(d, ind)
        self.scopes.pop()
        return out

    def stmt(self, d, ind):
        r = self.r.random()
        vs = [v for v in self.vars() if v not in self.loopvars]
        if self.loops and self.r.random() < 0.09:
            # `continue` only where the loop still makes progress (the step of a `for` runs on continue)
            kw = 'continue' if (self.loops[-1] == 'for' and self.r.random() < 0.5) else 'break'
            return ['%sif (%s) {' % (ind, self.cmp(1)), '%s    %s;' % (ind, kw), '%s}' % ind]
        if r < 0.2 or not self.vars():
            x = self.fresh()
            s = '%sint %s = %s;' % (ind, x, self.e(self.r.randint(0, 3)))
            self.scopes[-1].append(x)
            return [s]
        if r < 0.35 and vs:
            return ['%s%s = %s;' % (ind, self.r.choice(vs), self.e(self.r.randint(0, 4)))]
        if r < 0.42 and vs:
            op = self.r.choice(['+=', '-=', '*=', '/=', '%='])
            rhs = self.e(self.r.randint(0, 2))
            if op in ('/=', '%=') and self.r.random() > self.faults: rhs = self.r.choice(['1', '2', '3', '7', '(-3)'])
            return ['%s%s %s %s;' % (ind, self.r.choice(vs), op, rhs)]
        usable = list(self.funcs)
        force = False
        if self.in_try in ('stop', 'undo', 'dfn') and self.dfuncs and self.r.random() < 0.5:
            usable = list(self.dfuncs)
            force = self.r.random() < 0.4
        if usable and (force or self.r.random() < 0.22):
            name, npar, retint = self.r.choice(usable)
            args = ', '.join(self.e(self.r.randint(0, 2)) for _ in range(npar))
            k = self.r.random()
            if retint and k < 0.4:
                x = self.fresh()
                self.scopes[-1].append(x)
                return ['%sint %s = %s(%s);' % (ind, x, name, args)]
            if retint and k < 0.7 and vs:
                return ['%s%s = %s(%s);' % (ind, self.r.choice(vs), name, args)]
            return ['%s%s(%s);' % (ind, name, args)]
        if r < 0.6:
            k = self.r.random()
            ex = self.e(self.r.randint(0, 4))
            if ex.lstrip('(-').rstrip(')').isdigit() and self.vars(): ex = '(%s + %s)' % (self.r.choice(self.vars()), ex)
            if k < 0.5: return ['%swrite(%s); write(\' \');' % (ind, ex)]
            if k < 0.8: return ['%swriteln(%s);' % (ind, ex)]
            if k < 0.9: return ['%swriteln();' % ind]
            return ['%swrite(\'%s\');' % (ind, self.r.choice(['a', 'Z', '.', '\\n', '\\x00', '\\xff', '\\\\', "\\'"]))]
        if self.in_try and self.r.random() < (0.3 if self.in_try == 'stop' else 0.18):
            k = self.r.random()
            if k < (0.4 if self.in_try == 'stop' else 0.15): return ['%s!is_defeat();' % ind]
            conds = [self.cmp(self.r.randint(0, 1)) for _ in range(self.r.randint(1, 3))]
            conds = [c for c in conds if c not in ('true', 'false')] or [self.r.choice(['true', 'false'])]
            return ['%s!truth_is_defeat(%s);' % (ind, ' or '.join(conds))]
        if d > 0 and not self.in_try and not self.in_handler and self.r.random() < (0.3 if self.dfuncs else 0.12):
            kind = 'stop' if self.r.random() < (0.8 if self.dfuncs else 0.5) else 'undo'
            self.in_try = kind
            saved_loops = self.loops
            if kind == 'stop': self.loops = []     # no break/continue out of a try/stop body
            body = self.block(d - 1, ind=ind + '    ')
            self.loops = saved_loops
            self.in_try = False
            self.in_handler = True
            handler = self.block(min(d - 1, 1), ind=ind + '    ')
            self.in_handler = False
            return ['%stry {' % ind] + body + ['%s} %s {' % (ind, kind)] + handler + ['%s}' % ind]
        if d <= 0: return ['%swrite(\'.\');' % ind]
        if r < 0.72:
            c = self.b(self.r.randint(0, 2))
            t = self.block(d - 1, ind=ind + '    ')
            if self.r.random() < 0.6:
                e = self.block(d - 1, ind=ind + '    ')
                return ['%sif (%s) {' % (ind, c)] + t + ['%s} else {' % ind] + e + ['%s}' % ind]
            return ['%sif (%s) {' % (ind, c)] + t + ['%s}' % ind]
        if r < 0.82:
            i = self.fresh()
            n = self.r.randint(0, 4)
            self.scopes.append([i]); self.loopvars.add(i)
            self.loops.append('for')
            body = self.block(d - 1, ind=ind + '    ')
            self.loops.pop()
            self.scopes.pop()
            step = self.r.choice(['%s += 1' % i, '%s = %s + 1' % (i, i)])
            cond = self.r.choice(['%s < %d' % (i, n), '%d > %s' % (n, i), '%s != %d' % (i, n), '%s < %d and true' % (i, n)])
            return ['%sfor (int %s = 0; %s; %s) {' % (ind, i, cond, step)] + body + ['%s}' % ind]
        if r < 0.9:
            i = self.fresh()
            n = self.r.randint(0, 3)
            self.scopes[-1].append(i); self.loopvars.add(i)
            self.loops.append('while')
            body = self.block(d - 1, ind=ind + '    ')
            self.loops.pop()
            return ['%sint %s = %d;' % (ind, i, n), '%swhile (%s > 0) {' % (ind, i)] + body + ['%s    %s = %s - 1;' % (ind, i, i), '%s}' % ind]
        if r < 0.95:
            return ['%s{' % ind] + self.block(d - 1, ind=ind + '    ') + ['%s}' % ind]
        if self.r.random() < 0.5 and self.in_try != 'stop':
            return ['%sif (%s) {' % (ind, self.cmp(1)), '%s    return%s;' % (ind, (' ' + self.e(1)) if getattr(self, 'ret_int', False) else ''), '%s}' % ind]
        return ['%swrite(\'!\');' % ind]

    def function(self, idx, dfn=False):
        npar = self.r.choice([0, 1, 1, 2, 3])
        retint = self.r.random() < (0.4 if dfn else 0.6)
        name = ('!df%d' if dfn else 'fn%d') % idx
        params = ['%s_a%d' % (name.lstrip('!'), i) for i in range(npar)]
        saved = (self.scopes, self.loopvars, self.in_try, self.in_handler)
        saved_loops, self.loops = self.loops, []
        self.ret_int = retint
        self.scopes, self.loopvars, self.in_try, self.in_handler = [list(params)], set(), ('dfn' if dfn else False), (not dfn)   # plain statements only; defeat calls in defeat functions
        body = self.block(2, n=self.r.randint(1, 5))
        if retint:
            body.append('    return %s;' % self.e(self.r.randint(0, 3)))
        elif self.r.random() < 0.5:
            # an `empty` function that returns early on some inputs and falls off its end on others
            cond = ('%s %s %d' % (params[0], self.r.choice(['<', '>', '==', '!=']), self.r.choice([0, 1, 2, 7]))) if params else self.cmp(0)
            body.insert(self.r.randint(0, len(body)), '    if (%s) {\n        return;\n    }' % cond)
        self.scopes, self.loopvars, self.in_try, self.in_handler = saved
        self.loops = saved_loops
        self.ret_int = False
        text = '%s %s(%s) {\n' % ('int' if retint else 'empty', name, ', '.join('int ' + q for q in params)) + '\n'.join(body) + '\n}\n'
        return (name, npar, retint), text

    def recursive(self):
        # a self-recursive function with a decreasing argument
        return ('rec', 2, True), ('int rec(int n, int acc) {\n    if (n < 1) {\n        return acc;\n    }\n'
                                  '    int r = rec(n - 1, acc + n * %d);\n    return r %s %d;\n}\n'
                                  % (self.r.randint(1, 9), self.r.choice(['+', '-', '*']), self.r.randint(1, 5)))

    def program(self):
        texts = []
        if self.r.random() < 0.55:
            for i in range(self.r.randint(1, 3)):
                sig, text = self.function(i)
                texts.append(text)
                self.funcs.append(sig)
            if self.r.random() < 0.4:
                sig, text = self.recursive()
                texts.append(text)
                self.funcs.append(sig)
        if self.r.random() < 0.45:
            for i in range(self.r.randint(1, 2)):
                sig, text = self.function(i, dfn=True)
                texts.append(text)
                self.dfuncs.append(sig)
        self.prelude = ''.join(texts)
        # int parameters of the entry point: values come from the command line
        nparams = self.r.choice([0, 0, 1, 2, 3])
        params = ['p%d' % i for i in range(nparams)]
        self.scopes[0] += params
        self.args = [str(self.r.choice([0, 1, 2, 3, 7, -1, -2, 100, 255, 256, 32767, -32768, 65535, 65536, 2147483647,
                                        -2147483648, self.r.randrange(-1000, 1000)])) for _ in params]
        body = self.block(3, n=self.r.randint(2, 8))
        return self.prelude + 'empty @is_you(%s) {\n' % ', '.join('int ' + q for q in params) + '\n'.join(body) + '\n}\n'


def gen(seed, faults=0.05):
    return G(random.Random(seed), faults).program()


def gen_with_args(seed, faults=0.05):
    g = G(random.Random(seed), faults)
    src = g.program()
    return src, g.args


if __name__ == '__main__':
    import sys
    print(gen(int(sys.argv[1]) if len(sys.argv) > 1 else 0))
