"""Correspondence suites and searchers shared by several properties."""
import os, json, time
from concurrent.futures import ProcessPoolExecutor
import hidlib, dump_ast, gen, shrink

WORD_SIZES = (2, 3, 4, 8)


# --------------------------------------------------------------------------- translator tie
def asmcheck(ctx, word_sizes=WORD_SIZES):
    """Gen.Stdlib (translator output) == what the Lean assembler makes of real hidc output"""
    cases = []
    for w in word_sizes:
        for unchecked in (False, True):
            lines = hidlib.compile_src('empty @is_you(int x) { write(x); write(x > 0); write("s"); }', w=w, unchecked=unchecked)
            cases.append(dict(id='w%d%s' % (w, 'u' if unchecked else ''), asm=lines, args=['1'], opts=['asmcheck']))
    res = hidlib.run_batch(cases)
    bad = {k: v['vm'].outcome for k, v in res.items() if v['vm'].outcome != 'ok'}
    ctx.stats['asmcheck'] = {'cases': len(cases), 'mismatches': bad}
    if bad:
        ctx.breaks.append(dict(kind='correspondence', name='asmcheck: Gen.stdlibCode vs assembled hidc output',
                               detail=json.dumps(bad)))
        ctx.say('asmcheck: MISMATCH', bad)
    else:
        ctx.say('asmcheck: Gen.Stdlib agrees with assembled output at w in', list(word_sizes))
    return not bad


# --------------------------------------------------------------------------- differential core
def classify(rv, rs, allow_stack=True):
    """'agree' | 'inconclusive:<why>' | 'DIFF' | 'HALT' | 'FAULT'"""
    if rv.outcome == 'halted':
        return 'HALT'
    if rv.outcome.startswith('asmerror'):
        return 'ASMERROR'
    if rs.outcome.startswith('fault:undef') or rs.outcome.startswith('fault:undefined-unchecked'):
        return 'inconclusive:undef'
    if rs.outcome == 'fuel' or rv.outcome == 'fuel':
        return 'inconclusive:fuel'
    if rs.outcome.startswith(('fault', 'asterror', 'initerror')):
        return 'inconclusive:model:' + rs.outcome[:60]
    if allow_stack and 'stack_overflow' in rv.flags and 'stack_overflow' not in rs.flags:
        return 'inconclusive:stack'
    if rv.outcome.startswith('fault'):
        return 'FAULT'
    return 'agree' if rv.obs() == rs.obs() else 'DIFF'


def _compile_one(job):
    cid, src, args, w, s, unchecked, fuel = job
    try:
        return dump_ast.case(cid, src, args, w=w, s=s, unchecked=unchecked, fuel=fuel), None
    except Exception as e:
        return None, (cid, '%s: %s' % (type(e).__name__, e))


def compile_cases(jobs, workers=None):
    """jobs: (id, src, args, w, s, unchecked, fuel) -> (cases, rejected)"""
    workers = workers or min(16, os.cpu_count() or 4)
    cases, rejected = [], []
    if len(jobs) < 40:
        results = map(_compile_one, jobs)
    else:
        ex = ProcessPoolExecutor(max_workers=workers)
        results = ex.map(_compile_one, jobs, chunksize=20)
    for c, err in results:
        if c is not None: cases.append(c)
        else: rejected.append(err)
    return cases, rejected


def describe(r):
    return dict(outcome=r.outcome, output=r.output[:400].hex(), flags=r.flags, steps=r.steps)


def differential(ctx, jobs, srcs, kinds_bad=('DIFF', 'HALT', 'FAULT', 'ASMERROR'), allow_stack=True,
                 do_shrink=True, max_report=3, label='diff'):
    """run VM and reference machine on the jobs; record violations (shrunk) in ctx"""
    cases, rejected = compile_cases(jobs)
    res = hidlib.run_parallel(cases, chunk=64)
    tally = {}
    bad = []
    for c in cases:
        r = res.get(c['id'])
        if not r or 'vm' not in r or 'src' not in r:
            tally['missing'] = tally.get('missing', 0) + 1
            continue
        k = classify(r['vm'], r['src'], allow_stack)
        tally[k] = tally.get(k, 0) + 1
        if k in kinds_bad: bad.append((c['id'], k))
    st = ctx.stats.setdefault(label, {})
    for k, v in tally.items(): st[k] = st.get(k, 0) + v
    st['rejected_by_compiler'] = st.get('rejected_by_compiler', 0) + len(rejected)
    if rejected: st.setdefault('rejected_samples', rejected[:3])
    ctx.stats['evaluations'] = ctx.stats.get('evaluations', 0) + len(cases)
    ctx.stats['distinct_nontrivial'] = ctx.stats.get('distinct_nontrivial', 0) + tally.get('agree', 0)
    jobmap = {j[0]: j for j in jobs}
    for cid, k in bad[:max_report]:
        _, src, args, w, s, unchecked, fuel = jobmap[cid]
        r = res[cid]
        if do_shrink:
            pred = shrink.diff_predicate(w=w, s=s, unchecked=unchecked, fuel=fuel,
                                         classify=lambda a, b: classify(a, b, allow_stack),
                                         want=lambda a, b, kk: kk == k)
            try:
                src2, args2 = shrink.shrink_source(src, args, pred)
                r2 = hidlib.run_batch([dump_ast.case('s', src2, args2, w=w, s=s, unchecked=unchecked, fuel=fuel)])['s']
                src, args, r = src2, args2, r2
            except Exception as e:
                ctx.say('shrink failed:', e)
        ctx.violations.append(dict(what='%s: compiled code vs reference semantics (%s)' % (label, k), kind=k,
                                   source=src, args=[a if isinstance(a, str) else a.decode('latin1') for a in args],
                                   config=dict(w=w, stack=s, unchecked=unchecked),
                                   vm=describe(r['vm']), reference=describe(r['src'])))
    if len(bad) > max_report:
        st['more_failures_not_reported'] = len(bad) - max_report
    ctx.say('%s: %s%s' % (label, tally, (' rejected=%d' % len(rejected)) if rejected else ''))
    return tally, bad, res


def gen_jobs(ctx, n, tt=False, w=2, s=500, unchecked=False, fuel=400000, prefix='g', **kw):
    jobs, srcs = [], {}
    stats = {}
    for i in range(n):
        seed = ctx.rng.getrandbits(48)
        src, args, st = gen.gen_program(seed, tt=tt, **kw)
        cid = '%s%d_%d' % (prefix, i, seed)
        jobs.append((cid, src, args, w, s, unchecked, fuel))
        for k, v in st.items(): stats[k] = stats.get(k, 0) + v
    return jobs, stats


def replay_case(ctx, data):
    """re-run a stored concrete case; prints both behaviours"""
    cfg = data.get('config', {})
    c = dump_ast.case('r', data['source'], data.get('args', []), w=cfg.get('w', 2), s=cfg.get('stack', 500),
                      unchecked=cfg.get('unchecked', False))
    r = hidlib.run_batch([c])['r']
    k = classify(r['vm'], r['src'])
    print('vm       :', r['vm']); print('reference:', r['src']); print('classification:', k)
    return 0 if k in ('agree',) or k.startswith('inconclusive') else 1
