"""Correspondence suites and searchers shared by several properties."""
import os, json, time
from concurrent.futures import ProcessPoolExecutor
import re
import hidlib, dump_ast, gen, shrink

WORD_SIZES = (2, 3, 4, 8)


# --------------------------------------------------------------------------- translator tie
def asmcheck(ctx, word_sizes=WORD_SIZES):
    """Gen.Stdlib (translator output) == what the Lean assembler makes of real hidc output"""
    cases = []
    for w in word_sizes:
        for unchecked in (False, True):
            lines = hidlib.compile_src('empty @is_you(int x) { write(x); write(x > 0); write("s"); }', w=w, unchecked=unchecked)
            cases.append(dict(id='w%d%s' % (w, 'u' if unchecked else ''), asm=lines, args=['1'], opts=['asmcheck']))
    res = hidlib.run_batch(cases)
    bad = {k: v['vm'].outcome for k, v in res.items() if v['vm'].outcome != 'ok'}
    ctx.stats['asmcheck'] = {'cases': len(cases), 'mismatches': bad}
    if bad:
        ctx.breaks.append(dict(kind='correspondence', name='asmcheck: Gen.stdlibCode vs assembled hidc output',
                               detail=json.dumps(bad)))
        ctx.say('asmcheck: MISMATCH', bad)
    else:
        ctx.say('asmcheck: Gen.Stdlib agrees with assembled output at w in', list(word_sizes))
    return not bad


# --------------------------------------------------------------------------- differential core
def classify(rv, rs, allow_stack=True):
    """'agree' | 'inconclusive:<why>' | 'DIFF' | 'HALT' | 'FAULT'"""
    if rv.outcome == 'halted':
        return 'HALT'
    if rv.outcome.startswith('asmerror'):
        return 'ASMERROR'
    if rs.outcome.startswith('fault:undef') or rs.outcome.startswith('fault:undefined-unchecked'):
        return 'inconclusive:undef'
    if rs.outcome == 'fuel' or rv.outcome == 'fuel':
        return 'inconclusive:fuel'
    if rs.outcome.startswith('fault:control_fell_off'):
        # the typed tree of an accepted program lets control fall off the end of a function: the front end is supposed to append
        # `return;` or reject (C16); no reading of the source makes the compiled behaviour right
        return 'FELLOFF'
    if rs.outcome.startswith(('fault', 'asterror', 'initerror')):
        return 'inconclusive:model:' + rs.outcome[:60]
    if allow_stack and 'stack_overflow' in rv.flags and 'stack_overflow' not in rs.flags:
        return 'inconclusive:stack'
    if rv.outcome.startswith('fault'):
        return 'FAULT'
    return 'agree' if rv.obs() == rs.obs() else 'DIFF'


def _compile_one(job):
    key, (src, w, s, unchecked) = job
    try:
        asm, ast_ = dump_ast.compile_both(src, w=w, s=s, unchecked=unchecked)
        return key, (asm, ast_), None
    except Exception as e:
        return key, None, '%s: %s' % (type(e).__name__, e)


def compile_cases(jobs, workers=None):
    """jobs: (id, src, args, w, s, unchecked, fuel) -> (cases, rejected); each distinct
    (source, configuration) is compiled once"""
    workers = workers or min(16, os.cpu_count() or 4)
    uniq = {}
    for (cid, src, args, w, s, unchecked, fuel) in jobs:
        uniq.setdefault((src, w, s, unchecked), None)
    keys = list(uniq)
    todo = [(i, k) for i, k in enumerate(keys)]
    if len(todo) < 40:
        results = map(_compile_one, todo)
    else:
        ex = ProcessPoolExecutor(max_workers=workers)
        results = ex.map(_compile_one, todo, chunksize=20)
    compiled, errors = {}, {}
    for i, out, err in results:
        if out is not None: compiled[keys[i]] = out
        else: errors[keys[i]] = err
    cases, rejected = [], []
    for (cid, src, args, w, s, unchecked, fuel) in jobs:
        k = (src, w, s, unchecked)
        if k in compiled:
            asm, ast_ = compiled[k]
            opts = ['w=%d' % w, 'stackbytes=%d' % ((s + 8) * w)] + (['unchecked'] if unchecked else [])
            cases.append(dict(id=cid, asm=asm, ast=ast_, args=list(args), fuel=fuel, opts=opts))
        else:
            rejected.append((cid, errors[k]))
    return cases, rejected


def describe(r):
    return dict(outcome=r.outcome, output=r.output[:400].hex(), flags=r.flags, steps=r.steps)


_LEN_FROM_ARG = re.compile(r'@is_you\(([^)]*)\)')


def _unbounded_demand(src):
    """does the program size a stack array (or recurse) by a number it takes from the command line?"""
    m = _LEN_FROM_ARG.search(src)
    if not m: return False
    names = [p.strip().split(' ')[-1] for p in m.group(1).split(',') if p.strip().startswith('int ')]
    for n in names:
        if re.search(r'\w\s+\w+\[[^\]]*\b%s\b[^\]]*\];' % re.escape(n), src): return True       # T x[... n ...];
        if re.search(r'\b(rec|deep|f\d*|fn\d*)\([^;]*\b%s\b' % re.escape(n), src): return True     # recursion depth from the argument
    return False


def differential(ctx, jobs, srcs, kinds_bad=('DIFF', 'HALT', 'FAULT', 'ASMERROR', 'FELLOFF'), allow_stack=True,
                 do_shrink=True, max_report=3, label='diff', must_compile=False, ife=True, must_compile_prefixes=()):
    """run VM and reference machine on the jobs; record violations (shrunk) in ctx"""
    cases, rejected = compile_cases(jobs)
    res = hidlib.run_parallel(cases, chunk=64)
    tally = {}
    bad = []
    for c in cases:
        r = res.get(c['id'])
        if not r or 'vm' not in r or 'src' not in r:
            tally['missing'] = tally.get('missing', 0) + 1
            continue
        k = classify(r['vm'], r['src'], allow_stack)
        tally[k] = tally.get(k, 0) + 1
        if k in kinds_bad: bad.append((c['id'], k))
    # an --unchecked build that runs out of stack is undefined (nothing checks it): when the checked build of the
    # same program in the same configuration reports stack_overflow, the unchecked run decides nothing
    jm0 = {j[0]: j for j in jobs}
    sus = [(cid, k) for cid, k in bad if jm0[cid][5]]
    if sus and allow_stack:
        twins = [(cid + '#ck', jm0[cid][1], jm0[cid][2], jm0[cid][3], jm0[cid][4], False, jm0[cid][6]) for cid, _ in sus]
        tc, _ = compile_cases(twins)
        tr = hidlib.run_parallel(tc, chunk=64)
        drop = set()
        for cid, k in sus:
            r = tr.get(cid + '#ck')
            if r and 'vm' in r and 'stack_overflow' in r['vm'].flags:
                drop.add(cid)
                tally[k] -= 1
                if not tally[k]: del tally[k]
                tally['inconclusive:stack'] = tally.get('inconclusive:stack', 0) + 1
        bad = [(cid, k) for cid, k in bad if cid not in drop]
    # "the VM ran out of stack, the reference knows no stack" decides nothing - unless the overflow is spurious: the same checked
    # build with a far larger stack must at least get further.  (Programs that allocate by a length taken from the command line
    # are exempt: one huge allocation fails at the same step whatever the stack.)
    if allow_stack and tally.get('inconclusive:stack'):
        sus = [c for c in cases if c['id'] in res and 'vm' in res[c['id']] and 'src' in res[c['id']] and not jm0[c['id']][5]
               and classify(res[c['id']]['vm'], res[c['id']]['src'], True) == 'inconclusive:stack'
               and not _unbounded_demand(jm0[c['id']][1])][:300]
        if sus:
            big = [dict(id=c['id'] + '#big', asm=set_stack(c['asm'], 6000 if jm0[c['id']][3] <= 3 else 3000), ast=c['ast'], args=c['args'],
                        fuel=c['fuel'], opts=c.get('opts', [])) for c in sus]
            br = hidlib.run_parallel(big, chunk=64)
            for c in sus:
                r = br.get(c['id'] + '#big')
                r0 = res[c['id']]['vm']
                # a real demand gets further with more stack; a guard that misfires stops at the same step with the same output
                if r and 'vm' in r and 'src' in r and 'stack_overflow' in r['vm'].flags and 'stack_overflow' not in r['src'].flags \
                        and r['src'].outcome == 'terminal' and r['vm'].steps == r0.steps and r['vm'].output == r0.output:
                    tally['inconclusive:stack'] -= 1
                    tally['SPURIOUS-OVERFLOW'] = tally.get('SPURIOUS-OVERFLOW', 0) + 1
                    if 'DIFF' in kinds_bad or 'HALT' in kinds_bad: bad.append((c['id'], 'SPURIOUS-OVERFLOW'))
            if not tally.get('inconclusive:stack'): tally.pop('inconclusive:stack', None)
    st = ctx.stats.setdefault(label, {})
    for k, v in tally.items(): st[k] = st.get(k, 0) + v
    st['rejected_by_compiler'] = st.get('rejected_by_compiler', 0) + len(rejected)
    if rejected: st.setdefault('rejected_samples', rejected[:3])
    if must_compile_prefixes and not must_compile:
        # hand-written families are valid by construction: a rejection is a finding (or a slip in the family - never silent)
        rejected_must = [(cid, err) for cid, err in rejected if cid.startswith(tuple(must_compile_prefixes))]
        jm_ = {j[0]: j for j in jobs}
        for cid, err in rejected_must[:max_report]:
            ctx.violations.append(dict(what='%s: valid program rejected by the compiler: %s' % (label, err[:200]), kind='REJECTED',
                                       source=jm_[cid][1], args=[a if isinstance(a, str) else a.decode('latin1') for a in jm_[cid][2]],
                                       config=dict(w=jm_[cid][3], stack=jm_[cid][4], unchecked=jm_[cid][5])))
    if must_compile and rejected:
        # the jobs are valid programs by construction: a rejection is itself a failure of the property's "for every program"
        jm = {j[0]: j for j in jobs}
        for cid, err in rejected[:max_report]:
            ctx.violations.append(dict(what='%s: valid program rejected by the compiler: %s' % (label, err[:200]), kind='REJECTED',
                                       source=jm[cid][1], args=[a if isinstance(a, str) else a.decode('latin1') for a in jm[cid][2]],
                                       config=dict(w=jm[cid][3], stack=jm[cid][4], unchecked=jm[cid][5])))
    ctx.stats['evaluations'] = ctx.stats.get('evaluations', 0) + len(cases)
    ctx.stats['distinct_nontrivial'] = ctx.stats.get('distinct_nontrivial', 0) + tally.get('agree', 0)
    jobmap = {j[0]: j for j in jobs}
    for cid, k in bad[:max_report]:
        _, src, args, w, s, unchecked, fuel = jobmap[cid]
        r = res[cid]
        if do_shrink:
            pred = shrink.diff_predicate(w=w, s=s, unchecked=unchecked, fuel=fuel,
                                         classify=lambda a, b: classify(a, b, allow_stack),
                                         want=lambda a, b, kk: kk == k)
            try:
                src2, args2 = shrink.shrink_source(src, args, pred)
                r2 = hidlib.run_batch([dump_ast.case('s', src2, args2, w=w, s=s, unchecked=unchecked, fuel=fuel)])['s']
                src, args, r = src2, args2, r2
            except Exception as e:
                ctx.say('shrink failed:', e)
        ctx.violations.append(dict(what='%s: compiled code vs reference semantics (%s)' % (label, k), kind=k,
                                   source=src, args=[a if isinstance(a, str) else a.decode('latin1') for a in args],
                                   config=dict(w=w, stack=s, unchecked=unchecked),
                                   vm=describe(r['vm']), reference=describe(r['src'])))
    if len(bad) > max_report:
        st['more_failures_not_reported'] = len(bad) - max_report
    ctx.say('%s: %s%s' % (label, tally, (' rejected=%d' % len(rejected)) if rejected else ''))
    # the reference ran on the typed tree of the real front end: a typechecker change that rewrites an expression (a wrong fold, a
    # dropped operand) changes oracle and code alike - so the same programs are also judged against the typed tree of the verified
    # front-end model wherever the two trees differ (they are identical on the unchanged tree: nothing is re-run)
    if ife and not bad:
        distinct = {}
        for j in jobs:
            if j[1] not in distinct: distinct[j[1]] = 'd%d' % len(distinct)
            if len(distinct) >= (ctx.budget(400, 4000) if hasattr(ctx, 'budget') else 400): break
        try:
            independent_front_end(ctx, {n: src for src, n in distinct.items()}, [j for j in jobs if j[1] in distinct], label=label + ':model-tree')
        except Exception as e:
            ctx.say('%s: model-tree comparison skipped: %s' % (label, str(e)[:120]))
    return tally, bad, res


def gen_jobs(ctx, n, tt=False, w=2, s=500, unchecked=False, fuel=400000, prefix='g', **kw):
    jobs, srcs = [], {}
    stats = {}
    for i in range(n):
        seed = ctx.rng.getrandbits(48)
        src, args, st = gen.gen_program(seed, tt=tt, **kw)
        cid = '%s%d_%d' % (prefix, i, seed)
        jobs.append((cid, src, args, w, s, unchecked, fuel))
        for k, v in st.items(): stats[k] = stats.get(k, 0) + v
    return jobs, stats


def independent_front_end(ctx, progs, jobs, label='independent-front-end', max_report=2):
    """The differential runs the reference machine on the typed tree of the *real* front end, so a typechecker change
    that rewrites an expression (drops a cast, folds wrongly) changes oracle and compiled code alike.  Here the typed
    tree of the Lean front end (Hid/Typecheck*.lean, the model the C07 theorems are about) is computed for the given
    programs; where it differs from the real tree the jobs of that program are re-run with the model's tree as the
    oracle, which exhibits a concrete input if the real front end changed the meaning.
    progs: {name: source}; jobs: standard job tuples whose source is one of the programs."""
    import frontend
    model = frontend.model_run('tc', progs)
    differing = {}
    for name, src in progs.items():
        want, got = frontend.py_frontend(src), model.get(name)
        if got and got.startswith('ok ') and want.startswith('ok ') and want != got:
            differing[src] = (name, got[3:])
    st = ctx.stats.setdefault(label, dict(programs=0, trees_differ=0, reruns=0, disagreements=0))
    st['programs'] += len(progs); st['trees_differ'] += len(differing)
    if not differing:
        ctx.say('%s: %d programs, typed trees identical' % (label, len(progs)))
        return []
    name0, tree0 = next(iter(differing.values()))
    ctx.breaks.append(dict(kind='correspondence', name='tc: typed tree of the real front end vs Hid/Typecheck*.lean on the programs of this check',
                           detail=repr(dict(program=name0, model_tree=tree0[:600]))[:1500]))
    sel = [j for j in jobs if j[1] in differing]
    cases, _ = compile_cases(sel)
    jm = {j[0]: j for j in sel}
    for c in cases:
        c['ast'] = [differing[jm[c['id']][1]][1].encode('ascii')]
    res = hidlib.run_parallel(cases, chunk=64)
    bad = []
    for c in cases:
        r = res.get(c['id'])
        if not r or 'vm' not in r or 'src' not in r: continue
        k = classify(r['vm'], r['src'])
        if k in ('DIFF', 'HALT', 'FAULT', 'FELLOFF'): bad.append((c['id'], k, r))
    st['reruns'] += len(cases); st['disagreements'] += len(bad)
    bad.sort(key=lambda b: len(jm[b[0]][1]))
    for cid, k, r in bad[:max_report]:
        _, src, args, w, s_, unchecked, fuel = jm[cid]
        ctx.violations.append(dict(what='%s: compiled code vs reference semantics on the typed tree of the verified front-end model (%s)' % (label, k),
                                   kind=k, source=src, args=[a if isinstance(a, str) else a.decode('latin1') for a in args],
                                   config=dict(w=w, stack=s_, unchecked=unchecked), reference_tree=differing[src][1],
                                   vm=describe(r['vm']), reference=describe(r['src'])))
    ctx.say('%s: %d programs, %d typed trees differ from the model, %d re-runs, %d disagreements' % (label, len(progs), len(differing), len(cases), len(bad)))
    return bad


def replay_case(ctx, data):
    """re-run a stored concrete case; prints both behaviours"""
    cfg = data.get('config', {})
    try:
        c = dump_ast.case('r', data['source'], data.get('args', []), w=cfg.get('w', 2), s=cfg.get('stack', 500),
                          unchecked=cfg.get('unchecked', False))
    except Exception as e:
        # a stored case whose finding is that the compiler refuses (or crashes on) a valid program
        print('the compiler does not compile this program: %s: %s' % (type(e).__name__, str(e)[:300]))
        return 1
    if data.get('reference_tree'):
        # the oracle of this case is the typed tree of the verified front-end model, not the real front end's
        c['ast'] = [data['reference_tree'].encode('ascii')]
    r = hidlib.run_batch([c])['r']
    k = classify(r['vm'], r['src'])
    print('vm       :', r['vm']); print('reference:', r['src']); print('classification:', k)
    return 0 if k in ('agree',) or k.startswith('inconclusive') else 1


# --------------------------------------------------------------------------- corpora
def upstream_corpus(ctx):
    """the repository's own tests/test_codegen.py (outputs recorded upstream from the real
    emulator) executed with the Lean VM standing in for `spasm`"""
    import subprocess
    env = dict(os.environ, PYTHONPATH=os.path.join(hidlib.VERIF, 'harness', 'shim'))
    p = subprocess.run(['/venv/bin/python', '-m', 'pytest', os.path.join(hidlib.REPO, 'tests', 'test_codegen.py'),
                        '-q', '-p', 'no:cacheprovider', '-x', '--no-header', '-rN'],
                       capture_output=True, text=True, env=env, timeout=900, cwd=hidlib.REPO)
    tail = (p.stdout.strip().split('\n') or [''])[-1]
    ctx.stats['upstream_corpus'] = tail
    ok = p.returncode == 0
    ctx.say('upstream corpus (52 recorded outputs) on the Lean VM:', tail)
    if not ok:
        # which test failed: re-run verbosely for the replay
        failed = [l for l in p.stdout.split('\n') if 'FAILED' in l or 'Error' in l][:5]
        ctx.violations.append(dict(what='upstream recorded output not reproduced', kind='CORPUS',
                                   source='tests/test_codegen.py', args=[], config={}, detail=p.stdout[-3000:], failed=failed))
    return ok


EXAMPLES = {'hello': [], 'max': ['3', '9', '2', '7'], 'mergesort': ['5', '3', '9', '1', '4', '4'], 'factor': ['91', '97', '60'],
            'optional_max': ['4', '2', '8'], 'decimal': ['22', '7'], 'ouroboros': []}


def example_jobs(w=2, s=500, unchecked=False):
    jobs = []
    for n, a in EXAMPLES.items():
        path = os.path.join(hidlib.REPO, 'examples', n + '.hid')
        if os.path.exists(path):
            jobs.append(('ex_' + n, open(path, encoding='utf-8').read(), a, w, s, unchecked, 3000000))
    return jobs


def corpus_jobs(w=2, s=500, unchecked=False):
    """minimised past failures (corpus/*.json) run first in every differential check"""
    jobs = []
    d = os.path.join(hidlib.VERIF, 'corpus')
    for f in sorted(os.listdir(d)) if os.path.isdir(d) else []:
        if f.endswith('.json'):
            c = json.load(open(os.path.join(d, f)))
            cfg = c.get('config', {})
            jobs.append(('corpus_' + f[:-5], c['source'], c.get('args', []), cfg.get('w', w), cfg.get('stack', s),
                         cfg.get('unchecked', unchecked), 1000000))
    return jobs


# --------------------------------------------------------------------------- template conformance
def conformance(ctx, jobs, label='templates'):
    """every guard / branch label emitted by the real generator is surrounded by exactly the
    instruction sequence of Compiler/Templates.lean (the tie for the template theorems)"""
    cases = []
    rejected = 0
    for (cid, src, args, w, s, unchecked, fuel) in jobs:
        try:
            lines = hidlib.compile_src(src, w=w, s=s, unchecked=unchecked)
        except Exception:
            rejected += 1
            continue
        cases.append(dict(id=cid, asm=lines, args=args, opts=['conform']))
    res = hidlib.run_parallel(cases, chunk=100)
    bad = {k: r['vm'].notes[:4] for k, r in res.items() if r['vm'].outcome != 'ok'}
    ctx.stats[label] = dict(programs=len(cases), nonconforming=len(bad), samples=dict(list(bad.items())[:3]))
    if bad:
        ctx.breaks.append(dict(kind='correspondence', name='template conformance (Compiler/Templates.lean vs emitted code)',
                               detail=json.dumps(dict(list(bad.items())[:3]))[:1500]))
        ctx.say('%s: %d of %d programs do NOT conform: %s' % (label, len(bad), len(cases), list(bad.items())[:2]))
    else:
        ctx.say('%s: all guard/branch templates conform in %d programs' % (label, len(cases)))
    return not bad


# --------------------------------------------------------------------------- tight stacks
def set_stack(lines, s):
    out = list(lines)
    i = out.index(b'stack_start:')
    assert out[i + 1].startswith(b'.zero '), out[i + 1]
    out[i + 1] = b'.zero %dw' % s
    return out


def min_stack(base_cases, lo=0, hi=400, fuel=400000):
    """lock-step binary search of the smallest stack size (words) whose VM run raises no
    stack_overflow.  base_cases: {id: (asm_lines, args)} -> {id: S_min or None}"""
    lo_ = {k: lo for k in base_cases}
    hi_ = {k: hi for k in base_cases}
    # make sure hi works
    res = hidlib.run_parallel([dict(id=k, asm=set_stack(a, hi), args=g, fuel=fuel) for k, (a, g) in base_cases.items()])
    alive = {k for k, r in res.items() if 'stack_overflow' not in r['vm'].flags and r['vm'].outcome == 'terminal'}
    while True:
        todo = [k for k in alive if lo_[k] < hi_[k]]
        if not todo: break
        mids = {k: (lo_[k] + hi_[k]) // 2 for k in todo}
        res = hidlib.run_parallel([dict(id=k, asm=set_stack(base_cases[k][0], mids[k]), args=base_cases[k][1], fuel=fuel) for k in todo])
        for k in todo:
            r = res[k]['vm']
            if 'stack_overflow' in r.flags or r.outcome != 'terminal': lo_[k] = mids[k] + 1
            else: hi_[k] = mids[k]
    return {k: (hi_[k] if k in alive else None) for k in base_cases}


def tight_stack(ctx, jobs, deltas=(8, 1, 0, -1), label='tight-stack', timetravel=False):
    """run each program with the monitor at S_min + delta; compare with the reference machine"""
    cases, rejected = compile_cases(jobs)
    base = {c['id']: (c['asm'], c['args']) for c in cases}
    ref = hidlib.run_parallel([dict(id=c['id'], ast=c['ast'], args=c['args'], fuel=c['fuel'], opts=c['opts']) for c in cases])
    smin = min_stack(base)
    runs = []
    for c in cases:
        s0 = smin.get(c['id'])
        if s0 is None: continue
        for d in deltas:
            if s0 + d < 0: continue
            runs.append(dict(id='%s@%d' % (c['id'], d), asm=set_stack(c['asm'], s0 + d), args=c['args'], fuel=c['fuel'], opts=['mon']))
    res = hidlib.run_parallel(runs)
    tally = {}
    jobmap = {j[0]: j for j in jobs}
    jobmap_src = {j[0]: j[1] for j in jobs}
    nviol = 0
    for rid, r in res.items():
        cid, d = rid.rsplit('@', 1); d = int(d)
        rv = r['vm']; rs = ref[cid]['src']
        notes = [n for n in rv.notes if n.startswith('region')]
        kind = None
        if notes: kind = 'REGION'
        elif rv.outcome == 'halted': kind = 'HALT'
        elif rv.outcome.startswith('fault'): kind = 'FAULT'
        elif d >= 0:
            k = classify(rv, rs)
            if k == 'DIFF': kind = 'CORRUPT'
            elif k.startswith('inconclusive'): tally[k] = tally.get(k, 0) + 1
        else:
            if 'stack_overflow' not in rv.flags: kind = 'NO-OVERFLOW-BELOW-MINIMUM'
            elif not timetravel and 'try' not in jobmap_src.get(cid, '') and rs.outcome == 'terminal' and not rs.output.startswith(rv.output):
                # (a program with a `try` is a time-travel program whatever stream it came from: the stack_overflow stub does not
                # halt, so an overflow inside a try body commits the body although the run with enough stack undoes it)
                kind = 'OUTPUT-BEFORE-OVERFLOW-NOT-A-PREFIX'
        tally[kind or 'ok'] = tally.get(kind or 'ok', 0) + 1
        if kind and nviol < 3:
            nviol += 1
            _, src, args, w, s, unchecked, fuel = jobmap[cid]
            ctx.violations.append(dict(what='%s: %s at minimal stack %+d words' % (label, kind, d), kind=kind, source=src,
                                       args=list(args), config=dict(w=w, stack=smin[cid] + d, unchecked=False, monitor=True),
                                       vm=describe(rv), notes=notes[:5], reference=describe(rs)))
    st = ctx.stats.setdefault(label, {})
    for k, v in tally.items(): st[k] = st.get(k, 0) + v
    st['programs'] = st.get('programs', 0) + len(cases)
    st['no_minimum_found'] = st.get('no_minimum_found', 0) + sum(1 for v in smin.values() if v is None)
    ctx.stats['evaluations'] = ctx.stats.get('evaluations', 0) + len(runs)
    ctx.stats['distinct_nontrivial'] = ctx.stats.get('distinct_nontrivial', 0) + tally.get('ok', 0)
    ctx.say('%s: %s (programs %d)' % (label, tally, len(cases)))
    return smin, res


# --------------------------------------------------------------------------- the verified core
def core_suite(ctx, n, configs=((2, 100, False), (3, 40, True), (8, 12, False), (4, 30, False)), faults=0.05, label='core'):
    """`core` correspondence: for generated programs of the core sub-language, Compiler/Core.lean's coreProg must be *identical*
    to the assembled output of the real compiler (code, const, state, entry), every program must be recognised and satisfy the
    hypotheses of C01.core_semantic_preservation, and Core.exec must agree with the reference machine.
    Returns standard job tuples of the same programs so that the caller's differential run finds a concrete failing input when
    the correspondence breaks."""
    import gen_core
    cases, jobs, srcs = [], [], {}
    for i in range(n):
        seed = ctx.rng.getrandbits(40)
        src, args = gen_core.gen_with_args(seed, faults=faults)
        w, s, un = configs[i % len(configs)]
        cid = '%s%d_%d' % (label, i, seed)
        try:
            c = dump_ast.case(cid, src, args, w=w, s=s, unchecked=un, fuel=300000)
        except Exception as e:
            ctx.violations.append(dict(what='%s: valid core program rejected by the compiler: %s: %s' % (label, type(e).__name__, str(e)[:200]),
                                       kind='REJECTED', source=src, args=args, config=dict(w=w, stack=s, unchecked=un)))
            continue
        k = dict(c); k['id'] = cid + '#K'; k['opts'] = c['opts'] + ['core', 'stackwords=%d' % s]
        cases += [c, k]
        srcs[cid] = (src, args, w, s, un)
        jobs.append((cid, src, args, w, s, un, 300000))
    res = hidlib.run_parallel(cases, chunk=80)
    tally = {}
    diffs, semdiffs = [], []
    for cid, (src, args, w, s, un) in srcs.items():
        r = res.get(cid + '#K', {}).get('core')
        if r is None:
            tally['missing'] = tally.get('missing', 0) + 1
            continue
        v = r.outcome.split(':')[0]
        tally[v] = tally.get(v, 0) + 1
        if r.outcome != 'ok':
            diffs.append((src, dict(w=w, stack=s, unchecked=un, args=args), r.outcome[:600]))
            continue
        ref = res.get(cid, {}).get('src')
        if 'stack_overflow' in r.flags:
            # the model says the checked build has no room for the entry frame: the source semantics knows no stack, so this
            # verdict is compared with the emitted code on the reference VM
            ref = res.get(cid, {}).get('vm')
            tally['overflow_verdicts'] = tally.get('overflow_verdicts', 0) + 1
        if ref is not None and r.trace != 'fuel' and ref.outcome == 'terminal':
            if r.events != ref.events:
                semdiffs.append((src, dict(w=w, stack=s, unchecked=un, args=args), r.trace[:200], ref.trace[:200]))
            else:
                tally['semantics_agree'] = tally.get('semantics_agree', 0) + 1
    st = ctx.stats.setdefault('core_correspondence', {})
    for k_, v_ in tally.items(): st[k_] = st.get(k_, 0) + v_
    ctx.stats['evaluations'] = ctx.stats.get('evaluations', 0) + len(srcs)
    if diffs:
        st.setdefault('diff_samples', [d[2] for d in diffs[:2]])
        ctx.breaks.append(dict(kind='correspondence', name='core: Compiler/Core.lean (coreProg) vs assembled hidc output',
                               detail=repr(dict(program=diffs[0][0], config=diffs[0][1], first_difference=diffs[0][2]))[:3000]))
    if semdiffs:
        ctx.breaks.append(dict(kind='correspondence', name='core: Core.exec vs the reference machine',
                               detail=repr(dict(program=semdiffs[0][0], config=semdiffs[0][1], core=semdiffs[0][2], reference=semdiffs[0][3]))[:3000]))
    ctx.say('%s correspondence: %s' % (label, tally))
    if diffs and not label.endswith('+'):
        # the model and the compiler disagree: widen the search for a concrete failing input around the disagreeing programs
        # (same programs at other word sizes and build modes, and a batch of fault-prone programs)
        extra = []
        for i, (src, cfg, _) in enumerate(diffs[:40]):
            for w in (2, 4):
                for un in (False, True):
                    extra.append(('%sx%d_%d%d' % (label, i, w, un), src, cfg['args'], w, cfg['stack'], un, 300000))
        for i in range(200):
            src, xargs = gen_core.gen_with_args(ctx.rng.getrandbits(40), faults=0.6)
            extra.append(('%sy%d' % (label, i), src, xargs, ctx.rng.choice([2, 3, 4, 8]), 100, False, 300000))
        jobs += extra
        ctx.stats['core_correspondence']['extra_search_jobs'] = len(extra)
    return jobs
