"""Differential runner: real hidc -> Lean VM  versus  real front end -> Lean reference machine."""
import sys, time, traceback
import hidlib, dump_ast, gen


def classify(rv, rs):
    """returns 'agree' | 'inconclusive:<why>' | 'DIFF'"""
    if rs.outcome.startswith('fault:undef') or rs.outcome.startswith('fault:undefined-unchecked'):
        return 'inconclusive:undef'
    if rs.outcome == 'fuel' or rv.outcome == 'fuel':
        return 'inconclusive:fuel'
    if 'stack_overflow' in rv.flags and 'stack_overflow' not in rs.flags:
        return 'inconclusive:stack'
    if rv.obs() == rs.obs():
        return 'agree'
    return 'DIFF'


def run(seeds, tt=False, w=2, s=500, unchecked=False, verbose=True, **kw):
    cases, meta = [], {}
    rejected = 0
    for seed in seeds:
        src, args, stats = gen.gen_program(seed, tt=tt, **kw)
        try:
            c = dump_ast.case(str(seed), src, args, w=w, s=s, unchecked=unchecked, fuel=400000)
        except Exception as e:
            rejected += 1
            if verbose: print('REJECTED seed', seed, type(e).__name__, e)
            continue
        cases.append(c); meta[str(seed)] = (src, args)
    res = hidlib.run_parallel(cases, chunk=50)
    tally = {}
    diffs = []
    for cid, r in res.items():
        k = classify(r['vm'], r['src'])
        tally[k] = tally.get(k, 0) + 1
        if k == 'DIFF': diffs.append(cid)
    return tally, diffs, meta, res, rejected


if __name__ == '__main__':
    lo, hi = int(sys.argv[1]), int(sys.argv[2])
    tt = 'tt' in sys.argv[3:]
    w = 2
    for a in sys.argv[3:]:
        if a.startswith('w='): w = int(a[2:])
    t0 = time.time()
    tally, diffs, meta, res, rej = run(range(lo, hi), tt=tt, w=w)
    print(tally, 'rejected', rej, 'time %.1fs' % (time.time() - t0))
    for cid in diffs[:5]:
        print('=== DIFF seed', cid, 'args', meta[cid][1])
        print(meta[cid][0])
        print(res[cid]['vm']); print(res[cid]['src'])
