"""Delta-debugging shrinker for failing HiD programs (line granularity, then argument list)."""
import hidlib, dump_ast


def ddmin(items, test):
    n = 2
    while len(items) >= 2:
        chunk = max(1, len(items) // n)
        reduced = False
        for i in range(0, len(items), chunk):
            cand = items[:i] + items[i + chunk:]
            if cand and test(cand):
                items = cand
                n = max(n - 1, 2)
                reduced = True
                break
        if not reduced:
            if chunk == 1: break
            n = min(len(items), n * 2)
    return items


def shrink_source(src, args, still_fails, max_rounds=3, budget_s=40):
    """still_fails(src, args) -> bool ; must be True for the input.  Bounded in time: a change that makes programs loop turns
    every probe into a fuel-exhausting run; after `budget_s` seconds no further reduction is attempted (the case found so far is
    still a failing one)."""
    import time
    deadline = time.time() + budget_s
    lines = src.split('\n')

    def probe(ls):
        return time.time() < deadline and still_fails('\n'.join(ls), args)
    for _ in range(max_rounds):
        before = len(lines)
        lines = ddmin(lines, probe)
        if len(lines) == before: break
    return '\n'.join(lines), args


def diff_predicate(w=2, s=500, unchecked=False, fuel=400000, classify=None, want=None):
    import difftest
    classify = classify or difftest.classify

    def pred(src, args):
        try:
            c = dump_ast.case('s', src, args, w=w, s=s, unchecked=unchecked, fuel=fuel)
        except Exception:
            return False
        r = hidlib.run_batch([c])['s']
        k = classify(r['vm'], r['src'])
        return k == 'DIFF' if want is None else want(r['vm'], r['src'], k)
    return pred


if __name__ == '__main__':
    import sys, gen
    seed = int(sys.argv[1]); tt = 'tt' in sys.argv
    src, args, _ = gen.gen_program(seed, tt=tt)
    pred = diff_predicate()
    assert pred(src, args), 'does not fail'
    s2, a2 = shrink_source(src, args, pred)
    print(s2); print('// args', a2)
    c = dump_ast.case('s', s2, a2)
    r = hidlib.run_batch([c])['s']
    print(r['vm']); print(r['src'])
