"""Type-directed generator of well-typed, terminating HiD programs (DESIGN §2.4a).

gen_core : sequential programs (no time travel)
gen_tt   : adds try/undo, try/stop, preempt, ??, defeat functions and history templates

Every random choice comes from the `random.Random` handed in, so a case is reproduced by its
seed.  Constant-only sub-expressions are never combined by an operator (so compile-time
folding — property C14, known finding D6 — is not re-tested here)."""
import random

INT, BYTE, BOOL, STRING = 'int', 'byte', 'bool', 'string'


def arr(el, const):
    return ('arr', el, const)


def is_arr(t):
    return isinstance(t, tuple)


def tyname(t):
    if is_arr(t):
        return ('const ' if t[2] else '') + t[1] + '[]'
    return t


class Var:
    __slots__ = ('name', 'ty', 'const', 'konst', 'length', 'is_global', 'loopvar')

    def __init__(self, name, ty, const=False, konst=False, length=None, is_global=False, loopvar=False):
        self.name, self.ty, self.const, self.konst = name, ty, const, konst
        self.length, self.is_global, self.loopvar = length, is_global, loopvar


class Func:
    __slots__ = ('name', 'ret', 'params', 'flavor', 'preemptive', 'may_defeat')

    def __init__(self, name, ret, params, flavor, preemptive=False):
        self.name, self.ret, self.params, self.flavor, self.preemptive = name, ret, params, flavor, preemptive


INT_POOL = [0, 1, 2, 3, 5, 7, 8, 9, 10, 16, 31, 100, 127, 128, 255, 256, 257, 1000, 12345, 32767,
            -1, -2, -7, -8, -128, -129, -1000, -32767]
BYTE_POOL = [0, 1, 2, 7, 8, 9, 10, 48, 65, 97, 127, 128, 200, 254, 255]
STR_POOL = ['', 'a', 'ab', 'hello', 'x y', 'Zq', '0123456789', 'tab\\tnl\\n', 'q\\"q', 'é', 'A\\x00B', '\\x7f\\xff']
CHAR_POOL = ["'a'", "'Z'", "'0'", "' '", "'\\n'", "'\\t'", "'\\''", "'\\x00'", "'\\xff'", "'~'", "'\\x80'", "'\"'", "';'"]


class Ctx:
    def __init__(self, flavor, in_try=False, in_loop=False, in_spec=False, try_kind=None):
        self.flavor, self.in_try, self.in_loop, self.in_spec, self.try_kind = flavor, in_try, in_loop, in_spec, try_kind

    def but(self, **kw):
        c = Ctx(self.flavor, self.in_try, self.in_loop, self.in_spec, self.try_kind)
        for k, v in kw.items(): setattr(c, k, v)
        return c

    @property
    def may_you(self):        # you-calls, try, ??
        return self.flavor == 'you' and not self.in_try and not self.in_spec

    @property
    def may_defeat(self):     # defeat calls, preempt
        return (self.flavor == 'defeat' or self.in_try) and not self.in_spec


class Gen:
    def __init__(self, rng, tt=False, faults=0.04, max_funcs=4, size=1.0, entry_args=True):
        self.r = rng
        self.tt = tt
        self.faults = faults          # probability of an unguarded divisor / index
        self.size = size
        self.max_funcs = max_funcs
        self.entry_args = entry_args
        self.n = 0
        self.funcs = []               # callable so far
        self.globals = []
        self.scopes = []
        self.lines = []
        self.indent = 0
        self.budget = 0
        self.cur_func = None
        self.stats = {}
        self.need_id = set()

    # ---------------------------------------------------------------- utilities
    def count(self, k):
        self.stats[k] = self.stats.get(k, 0) + 1

    def fresh(self, p='v'):
        self.n += 1
        return '%s%d' % (p, self.n)

    def emit(self, s):
        self.lines.append('    ' * self.indent + s)

    def chance(self, p):
        return self.r.random() < p

    def vars_of(self, pred):
        out = []
        seen = set()
        for sc in reversed(self.scopes):
            for v in reversed(sc):
                if v.name not in seen:
                    seen.add(v.name)
                    if pred(v): out.append(v)
        for v in self.globals:
            if v.name not in seen:
                seen.add(v.name)
                if pred(v): out.append(v)
        return out

    def declare(self, v):
        self.scopes[-1].append(v)

    # ---------------------------------------------------------------- expressions
    # each returns (text, konst) ; konst = compile-time constant after typechecking
    def lit_int(self):
        v = self.r.choice(INT_POOL)
        form = self.r.random()
        if v >= 0 and form < 0.1: return hex(v), True
        if v >= 1000 and form < 0.2: return '%d_%03d' % (v // 1000, v % 1000), True
        if v < 0: return '(%d)' % v, True
        return str(v), True

    def expr(self, ty, d, ctx):
        """expression of exactly type `ty` (after implicit coercion at the use site)"""
        if ty == INT: return self.e_int(d, ctx)
        if ty == BYTE: return self.e_byte(d, ctx)
        if ty == BOOL: return self.e_bool(d, ctx)
        if ty == STRING: return self.e_string(d, ctx)
        raise ValueError(ty)

    def nonconst(self, ty, d, ctx):
        for _ in range(6):
            t, k = self.expr(ty, d, ctx)
            if not k: return t, k
        # fall back to something surely dynamic: a variable if any, else a call to id
        vs = self.vars_of(lambda v: v.ty == ty and not v.konst)
        if vs: return self.r.choice(vs).name, False
        return self.opaque(ty)

    def opaque(self, ty):
        """a non-constant expression of type ty that needs no variable"""
        self.need_id.add(ty)
        t, _ = self.literal(ty)
        return 'id_%s(%s)' % (ty, t), False

    def literal(self, ty):
        if ty == INT: return self.lit_int()
        if ty == BYTE:
            if self.chance(0.5): return self.r.choice(CHAR_POOL), True
            return str(self.r.choice(BYTE_POOL)), True
        if ty == BOOL: return self.r.choice(['true', 'false']), True
        if ty == STRING: return '"%s"' % self.r.choice(STR_POOL), True
        raise ValueError(ty)

    def call_expr(self, ret, d, ctx):
        cands = [f for f in self.funcs if f.ret == ret and self.callable(f, ctx)]
        if not cands: return None
        f = self.r.choice(cands)
        return self.call_text(f, d, ctx), False

    def callable(self, f, ctx):
        if f.flavor == 'ordinary': return True
        if f.flavor == 'you': return ctx.may_you
        if f.flavor == 'defeat': return ctx.may_defeat
        return False

    def call_text(self, f, d, ctx):
        args = []
        for pt in f.params:
            if is_arr(pt): args.append(self.array_arg(pt, d, ctx))
            else: args.append(self.expr(pt, d - 1, ctx)[0])
        self.count('call_' + f.flavor)
        return '%s(%s)' % (f.name, ', '.join(args))

    def array_arg(self, pt, d, ctx):
        _, el, const = pt
        vs = self.vars_of(lambda v: is_arr(v.ty) and v.ty[1] == el and (const or not v.ty[2]))
        if vs and self.chance(0.7):
            return self.r.choice(vs).name
        if el == BYTE and const and self.chance(0.3):
            t, _ = self.e_string(d - 1, ctx)
            return t if self.chance(0.5) else '%s is byte[]' % self.paren(t)
        n = self.r.randint(0 if const else 1, 4)
        if n == 0: return '[]'
        return '[%s]' % ', '.join(self.expr(el, d - 1, ctx)[0] for _ in range(n))

    def paren(self, t):
        return t if t.isidentifier() or t.isdigit() else '(%s)' % t

    def index_expr(self, length, d, ctx):
        """an int expression; in range for `length` unless a fault is injected"""
        if length is not None and length > 0 and not self.chance(self.faults):
            if self.chance(0.5) or d <= 0:
                return str(self.r.randrange(length))
            t, k = self.nonconst(INT, d - 1, ctx)
            # ((t % n) + n) % n  is always in range for wrapping ints
            base = '((%s %% %d) + %d) %% %d' % (self.paren(t), length, length, length)
            if self.chance(0.2):
                # a byte-typed index: narrowing must bring k + 256*j back to k
                self.count('index_narrowed')
                return '(%s + %d) is byte' % (base, 256 * self.r.choice([0, 1, 1, 2, -1]))
            return base
        if self.chance(0.5): return str(self.r.choice([0, 1, 2, 5, -1, 100]))
        return self.e_int(d - 1, ctx)[0]

    def e_int(self, d, ctx):
        r = self.r.random()
        if d <= 0 or r < 0.18:
            return self.lit_int()
        if r < 0.42:
            vs = self.vars_of(lambda v: v.ty in (INT, BYTE))
            if vs:
                v = self.r.choice(vs)
                return v.name, v.konst
            return self.lit_int()
        if r < 0.66:
            op = self.r.choice(['+', '-', '*', '/', '%', '+', '-', '*'])
            a, ka = self.e_int(d - 1, ctx)
            if op in '/%':
                if self.chance(self.faults):
                    b, kb = self.e_int(d - 1, ctx)
                else:
                    lit = self.r.choice([1, 2, 3, 7, 10, 16, 255, 256, -1, -2, -3, -10])
                    b, kb = ('(%d)' % lit if lit < 0 else str(lit)), True
                    if self.chance(0.3):
                        # nonzero dynamic divisor: e*e*2 + 1 may still be 0 mod 2^n only if odd*… — keep literal-guarded form
                        t, _ = self.nonconst(INT, d - 1, ctx)
                        b, kb = '((%s %% 5) + 7)' % self.paren(t), False
                self.count('op_divmod')
            else:
                b, kb = self.e_int(d - 1, ctx)
            if ka and kb:
                a, ka = self.nonconst(INT, d - 1, ctx)
            self.count('op_arith')
            return '(%s %s %s)' % (a, op, b), False
        if r < 0.72:
            t, k = self.e_int(d - 1, ctx)
            if k: t, k = self.nonconst(INT, d - 1, ctx)
            return '(%s%s)' % (self.r.choice(['-', '+']), self.paren(t)), False
        if r < 0.80:
            vs = self.vars_of(lambda v: is_arr(v.ty) or v.ty == STRING)
            if vs:
                v = self.r.choice(vs)
                self.count('length')
                return v.name + '.length', False
        if r < 0.88:
            vs = self.vars_of(lambda v: is_arr(v.ty) and v.ty[1] == INT and v.length)
            if vs:
                v = self.r.choice(vs)
                self.count('index_int')
                return '%s[%s]' % (v.name, self.index_expr(v.length, d, ctx)), False
        if r < 0.93:
            src = self.r.choice([BYTE, BOOL])
            t, k = self.nonconst(src, d - 1, ctx)
            self.count('cast_to_int')
            return '(%s is int)' % self.paren(t), False
        if r < 0.97:
            c = self.call_expr(INT, d, ctx)
            if c: return c
        if self.tt and ctx.may_you and d >= 2 and self.chance(0.5):
            return self.spec(INT, d, ctx)
        return self.lit_int()

    def spec(self, ty, d, ctx):
        sctx = ctx.but(in_spec=True)
        a, _ = self.nonconst(ty, d - 1, sctx)
        if ty == INT and a.isidentifier():
            a = '(%s is int)' % a if any(v.name == a and v.ty == BYTE for v in self.vars_of(lambda v: True)) else a
        b, _ = self.expr(ty, d - 1, sctx)
        self.count('speculation')
        return '(%s ?? %s)' % (a, b), False

    def e_byte(self, d, ctx):
        r = self.r.random()
        if d <= 0 or r < 0.25:
            return self.literal(BYTE)
        if r < 0.5:
            vs = self.vars_of(lambda v: v.ty == BYTE)
            if vs:
                v = self.r.choice(vs)
                return v.name, v.konst
        if r < 0.65:
            src = self.r.choice([INT, BOOL])
            t, k = self.nonconst(src, d - 1, ctx)
            self.count('cast_to_byte')
            return '(%s is byte)' % self.paren(t), False
        if r < 0.78:
            vs = self.vars_of(lambda v: (v.ty == STRING and v.length) or (is_arr(v.ty) and v.ty[1] == BYTE and v.length))
            if vs:
                v = self.r.choice(vs)
                self.count('index_byte')
                return '%s[%s]' % (v.name, self.index_expr(v.length, d, ctx)), False
        if r < 0.9:
            # arithmetic of byte-coercible operands is itself coercible to byte
            a, ka = self.e_byte(d - 1, ctx)
            b, kb = self.e_byte(d - 1, ctx)
            if ka and kb:
                a, ka = self.nonconst(BYTE, d - 1, ctx)
            op = self.r.choice(['+', '-', '*'])
            self.count('byte_arith')
            return '(%s %s %s)' % (a, op, b), False
        c = self.call_expr(BYTE, d, ctx)
        if c: return c
        return self.literal(BYTE)

    def e_bool(self, d, ctx):
        r = self.r.random()
        if d <= 0 or r < 0.12:
            return self.literal(BOOL)
        if r < 0.28:
            vs = self.vars_of(lambda v: v.ty == BOOL)
            if vs:
                v = self.r.choice(vs)
                return v.name, v.konst
        if r < 0.58:
            op = self.r.choice(['==', '!=', '<', '<=', '>', '>='])
            a, ka = self.e_int(d - 1, ctx)
            b, kb = self.e_int(d - 1, ctx)
            if ka and kb:
                a, ka = self.nonconst(INT, d - 1, ctx)
            self.count('op_compare')
            return '(%s %s %s)' % (a, op, b), False
        if r < 0.72:
            op = self.r.choice(['and', 'or'])
            a, ka = self.e_bool(d - 1, ctx)
            b, kb = self.e_bool(d - 1, ctx)
            if ka and kb:
                a, ka = self.nonconst(BOOL, d - 1, ctx)
            self.count('op_logic')
            return '(%s %s %s)' % (a, op, b), False
        if r < 0.78:
            t, k = self.e_bool(d - 1, ctx)
            if k: t, k = self.nonconst(BOOL, d - 1, ctx)
            return '(not %s)' % t, False
        if r < 0.83:
            a, ka = self.e_bool(d - 1, ctx)
            b, kb = self.e_bool(d - 1, ctx)
            if ka and kb:
                a, ka = self.nonconst(BOOL, d - 1, ctx)
            return '(%s %s %s)' % (a, self.r.choice(['==', '!=']), b), False
        if r < 0.9:
            src = self.r.choice([INT, BYTE, STRING, 'array'])
            if src == 'array':
                vs = self.vars_of(lambda v: is_arr(v.ty))
                if vs:
                    self.count('cast_arr_to_bool')
                    return '(%s is bool)' % self.r.choice(vs).name, False
                src = INT
            t, k = self.nonconst(src, d - 1, ctx)
            self.count('cast_to_bool')
            return '(%s is bool)' % self.paren(t), False
        if r < 0.95:
            vs = self.vars_of(lambda v: is_arr(v.ty) and v.ty[1] == BOOL and v.length)
            if vs:
                v = self.r.choice(vs)
                self.count('index_bool')
                return '%s[%s]' % (v.name, self.index_expr(v.length, d, ctx)), False
        c = self.call_expr(BOOL, d, ctx)
        if c: return c
        return self.literal(BOOL)

    def e_string(self, d, ctx):
        r = self.r.random()
        if d <= 0 or r < 0.45:
            return self.literal(STRING)
        if r < 0.75:
            vs = self.vars_of(lambda v: v.ty == STRING)
            if vs:
                v = self.r.choice(vs)
                return v.name, v.konst
        if r < 0.88:
            vs = self.vars_of(lambda v: is_arr(v.ty) and v.ty[1] == STRING and v.length)
            if vs:
                v = self.r.choice(vs)
                return '%s[%s]' % (v.name, self.index_expr(v.length, d, ctx)), False
        c = self.call_expr(STRING, d, ctx)
        if c: return c
        return self.literal(STRING)

    # ---------------------------------------------------------------- statements
    def write_of(self, v):
        """emit code that prints variable v"""
        if is_arr(v.ty):
            el = v.ty[1]
            i = self.fresh('i')
            self.emit('for (int %s = 0; %s < %s.length; %s += 1) {' % (i, i, v.name, i))
            if el == STRING:
                self.emit('    write(%s[%s]); write(\',\');' % (v.name, i))
            elif el == BYTE:
                self.emit('    write(%s[%s] is int); write(\',\');' % (v.name, i))
            else:
                self.emit('    write(%s[%s]); write(\',\');' % (v.name, i))
            self.emit('}')
        elif v.ty == BYTE:
            self.emit('write(%s is int); write(\' \');' % v.name)
        else:
            self.emit('write(%s); write(\' \');' % v.name)

    def block(self, ctx, d, n=None, decls=True):
        self.emit('{') if False else None
        self.scopes.append([])
        n = n if n is not None else self.r.randint(1, max(1, int(4 * self.size)))
        exited = False
        for _ in range(n):
            if self.budget <= 0: break
            if self.stmt(ctx, d):
                exited = True
                break
        self.scopes.pop()
        return exited

    def stmt(self, ctx, d):
        """emit one statement; returns True if control certainly leaves"""
        self.budget -= 1
        r = self.r.random()
        if r < 0.22:
            return self.s_decl(ctx, d)
        if r < 0.40:
            return self.s_assign(ctx, d)
        if r < 0.52:
            return self.s_write(ctx, d)
        if r < 0.62 and d > 0:
            return self.s_if(ctx, d)
        if r < 0.72 and d > 0:
            return self.s_loop(ctx, d)
        if r < 0.78:
            return self.s_callstmt(ctx, d)
        if r < 0.82 and ctx.in_loop:
            self.count('break_continue')
            kw = self.r.choice(['break', 'continue'])
            if self.chance(0.7):
                c, _ = self.nonconst(BOOL, 1, ctx)
                self.emit('if (%s) { %s; }' % (c, kw))
                return False
            self.emit(kw + ';')
            return True
        if r < 0.85 and d > 0:
            self.emit('{')
            self.indent += 1
            ex = self.block(ctx, d - 1)
            self.indent -= 1
            self.emit('}')
            return ex
        if r < 0.88 and self.cur_func and self.cur_func.name != '@is_you':
            return self.s_return(ctx, d, cond=True)
        if self.tt and d > 0:
            if r < 0.94 and ctx.may_you:
                return self.s_try(ctx, d)
            if r < 0.97 and ctx.may_defeat:
                return self.s_preempt(ctx, d)
            if ctx.may_defeat:
                return self.s_defeat(ctx, d)
        return self.s_write(ctx, d)

    def s_decl(self, ctx, d):
        r = self.r.random()
        if r < 0.6:
            ty = self.r.choice([INT, INT, BYTE, BOOL, STRING])
            const = self.chance(0.15)
            name = self.fresh()
            t, k = self.expr(ty, 2, ctx)
            self.emit('%s%s %s = %s;' % ('const ' if const else '', ty, name, t))
            length = None
            self.declare(Var(name, ty, const=const, konst=(const and k), length=length))
            self.count('decl_' + ty)
            return False
        el = self.r.choice([INT, INT, BYTE, BOOL, STRING])
        name = self.fresh('a')
        if r < 0.85:
            n = self.r.randint(1, 5)
            const = self.chance(0.4)
            vals = [self.expr(el, 1, ctx) for _ in range(n)]
            self.emit('%s%s[] %s = [%s];' % ('const ' if const else '', el, name, ', '.join(v[0] for v in vals)))
            self.declare(Var(name, arr(el, const), const=True, length=n))
            self.count('decl_arrlit_' + el)
            return False
        # dynamic array, fully initialised right away
        n = self.r.randint(1, 6)
        if self.chance(0.5):
            t, _ = self.nonconst(INT, 1, ctx)
            ltxt = '((%s %% %d) + %d) %% %d + 1' % (self.paren(t), n, n, n)
            if self.chance(0.3):
                self.count('vla_len_narrowed')
                ltxt = '(%s + %d) is byte' % (ltxt, 256 * self.r.choice([0, 1, 2, -1]))
            # actual length unknown statically: 1..n ; treat as 1 for indexing purposes
            known = 1
        else:
            ltxt, known = str(n), n
        self.emit('%s %s[%s];' % (el, name, ltxt))
        i = self.fresh('i')
        init, _ = self.expr(el, 1, ctx)
        self.emit('for (int %s = 0; %s < %s.length; %s += 1) { %s[%s] = %s; }' % (i, i, name, i, name, i, init))
        self.declare(Var(name, arr(el, False), const=True, length=known))
        self.count('decl_vla_' + el)
        return False

    def s_assign(self, ctx, d):
        r = self.r.random()
        if r < 0.55:
            vs = self.vars_of(lambda v: not is_arr(v.ty) and not v.const and not v.loopvar)
            if not vs: return self.s_decl(ctx, d)
            v = self.r.choice(vs)
            if v.ty in (INT, BYTE) and self.chance(0.35):
                op = self.r.choice(['+=', '-=', '*=', '/=', '%='])
                if v.ty == BYTE:
                    # b op= e  typechecks as  b = b op e : needs a byte-coercible right side
                    rhs = self.literal(BYTE)[0] if self.chance(0.6) else self.e_byte(1, ctx)[0]
                    if op in ('/=', '%='):
                        rhs = str(self.r.choice([1, 2, 3, 7, 10]))
                else:
                    rhs = self.e_int(1, ctx)[0]
                    if op in ('/=', '%=') and not self.chance(self.faults):
                        rhs = str(self.r.choice([1, 2, 3, 7, 10, -1, -3]))
                self.emit('%s %s %s;' % (v.name, op, rhs))
                self.count('incassign_var')
                return False
            if self.tt and ctx.may_you and v.ty in (INT, BYTE, BOOL) and self.chance(0.2):
                t, _ = self.spec(v.ty, 3, ctx)
            else:
                t, _ = self.expr(v.ty, 2, ctx)
            self.emit('%s = %s;' % (v.name, t))
            self.count('assign_var' + ('_global' if v.is_global else ''))
            return False
        vs = self.vars_of(lambda v: is_arr(v.ty) and not v.ty[2] and v.length)
        if not vs: return self.s_decl(ctx, d)
        v = self.r.choice(vs)
        el = v.ty[1]
        idx = self.index_expr(v.length, 2, ctx)
        if el in (INT, BYTE) and self.chance(0.35):
            op = self.r.choice(['+=', '-=', '*=', '/=', '%='])
            if el == BYTE:
                rhs = self.literal(BYTE)[0]
                if op in ('/=', '%='): rhs = str(self.r.choice([1, 2, 3, 7]))
            else:
                rhs = self.e_int(1, ctx)[0]
                if op in ('/=', '%=') and not self.chance(self.faults):
                    rhs = str(self.r.choice([1, 2, 3, 7, 10, -1, -3]))
            self.emit('%s[%s] %s %s;' % (v.name, idx, op, rhs))
            self.count('incassign_elem_' + el)
            return False
        t, _ = self.expr(el, 2, ctx)
        self.emit('%s[%s] = %s;' % (v.name, idx, t))
        self.count('assign_elem_' + el)
        return False

    def s_write(self, ctx, d):
        ty = self.r.choice([INT, INT, BYTE, BOOL, STRING])
        t, _ = self.expr(ty, 2, ctx)
        fn = self.r.choice(['write', 'write', 'writeln'])
        if ty == BYTE and self.chance(0.6):
            t = '(%s is int)' % t  # keep most output printable
            # a constant byte cast is fine here: byte literals are in range
        self.emit('%s(%s);' % (fn, t))
        self.count('write_' + ty)
        if self.chance(0.1):
            vs = self.vars_of(lambda v: is_arr(v.ty) and v.ty[1] == BYTE)
            if vs:
                self.emit('write(%s);' % self.r.choice(vs).name)
                self.count('write_bytes')
        return False

    def s_if(self, ctx, d):
        c, _ = self.nonconst(BOOL, 2, ctx)
        self.emit('if (%s) {' % c)
        self.indent += 1
        e1 = self.block(ctx, d - 1)
        self.indent -= 1
        e2 = False
        if self.chance(0.5):
            self.emit('} else {')
            self.indent += 1
            e2 = self.block(ctx, d - 1)
            self.indent -= 1
            self.emit('}')
            return e1 and e2
        self.emit('}')
        self.count('if')
        return False

    def s_loop(self, ctx, d):
        i = self.fresh('i')
        k = self.r.randint(0, 4)
        lctx = ctx.but(in_loop=True)
        if self.chance(0.7):
            self.emit('for (int %s = 0; %s < %d; %s += 1) {' % (i, i, k, i))
            self.scopes.append([Var(i, INT, loopvar=True)])
            self.indent += 1
            self.block(lctx, d - 1)
            self.indent -= 1
            self.scopes.pop()
            self.emit('}')
            self.count('for')
        else:
            self.emit('int %s = %d;' % (i, k))
            self.declare(Var(i, INT, loopvar=True))
            self.emit('while (%s > 0) {' % i)
            self.indent += 1
            self.emit('%s -= 1;' % i)
            self.block(lctx, d - 1)
            self.indent -= 1
            self.emit('}')
            self.count('while')
        return False

    def s_callstmt(self, ctx, d):
        cands = [f for f in self.funcs if self.callable(f, ctx)]
        if not cands: return self.s_write(ctx, d)
        f = self.r.choice(cands)
        self.emit(self.call_text(f, 2, ctx) + ';')
        return False

    def s_return(self, ctx, d, cond=False):
        f = self.cur_func
        val = '' if f.ret == 'empty' else ' ' + self.expr(f.ret, 2, ctx)[0]
        if cond:
            c, _ = self.nonconst(BOOL, 1, ctx)
            self.emit('if (%s) { return%s; }' % (c, val))
            return False
        self.emit('return%s;' % val)
        self.count('return')
        return True

    # ---- time travel
    def defeat_cond(self, ctx):
        c, _ = self.nonconst(BOOL, 2, ctx)
        return c

    def s_defeat(self, ctx, d):
        r = self.r.random()
        self.count('defeat_stmt')
        if r < 0.25:
            self.emit('!is_defeat();')
            return True
        if r < 0.6:
            self.emit('!truth_is_defeat(%s);' % self.defeat_cond(ctx))
            return False
        cands = [f for f in self.funcs if f.flavor == 'defeat']
        if cands:
            self.emit(self.call_text(self.r.choice(cands), 2, ctx) + ';')
            return False
        self.emit('if (%s) { !is_defeat(); }' % self.defeat_cond(ctx))
        return False

    def s_try(self, ctx, d):
        kind = self.r.choice(['undo', 'stop'])
        self.count('try_' + kind)
        self.emit('try {')
        self.indent += 1
        tctx = ctx.but(in_try=True, try_kind=kind)
        self.scopes.append([])
        n = self.r.randint(1, 3)
        for _ in range(n):
            if self.stmt(tctx, d - 1): break
        if self.chance(0.8):
            self.s_defeat(tctx, d - 1)
        self.scopes.pop()
        self.indent -= 1
        self.emit('} %s {' % kind)
        self.indent += 1
        self.block(ctx, d - 1, n=self.r.randint(1, 2))
        self.indent -= 1
        self.emit('}')
        return False

    def s_preempt(self, ctx, d):
        self.count('preempt')
        if self.cur_func: self.cur_func.preemptive = self.cur_func.preemptive or ctx.flavor == 'defeat' and not ctx.in_try
        self.emit('preempt {')
        self.indent += 1
        self.scopes.append([])
        self.stmt(ctx, d - 1)
        r = self.r.random()
        if r < 0.3 and ctx.in_loop:
            self.emit(self.r.choice(['break;', 'continue;']))
        elif r < 0.5 and self.cur_func and self.cur_func.name != '@is_you':
            self.s_return(ctx, d)
        self.scopes.pop()
        self.indent -= 1
        self.emit('}')
        return False

    # ---------------------------------------------------------------- top level
    def gen_globals(self):
        out = []
        for _ in range(self.r.randint(0, 4)):
            ty = self.r.choice([INT, BYTE, BOOL, STRING])
            const = self.chance(0.4)
            name = self.fresh('g')
            t, _ = self.literal(ty)
            out.append('%s%s %s = %s;' % ('const ' if const else '', ty, name, t))
            # globals are substituted when const — and, inside global scope, always
            self.globals.append(Var(name, ty, const=const, konst=const, is_global=True))
        for _ in range(self.r.randint(0, 2)):
            el = self.r.choice([INT, BYTE, BOOL, STRING])
            const = self.chance(0.5)
            name = self.fresh('ga')
            if self.chance(0.7) or el == STRING:
                n = self.r.randint(1, 5)
                vals = [self.literal(el)[0] for _ in range(n)]
                out.append('%s%s[] %s = [%s];' % ('const ' if const else '', el, name, ', '.join(vals)))
                self.globals.append(Var(name, arr(el, const), const=True, length=n, is_global=True))
            else:
                n = self.r.randint(1, 9)
                out.append('%s %s[%d];' % (el, name, n))
                self.globals.append(Var(name, arr(el, False), const=True, length=n, is_global=True))
        return out

    def gen_func(self, flavor, name=None, entry=False):
        prefix = {'ordinary': '', 'you': '@', 'defeat': '!'}[flavor]
        name = name or (prefix + self.fresh('f'))
        if entry:
            ret = 'empty'
            params, args = self.entry_sig()
        else:
            ret = self.r.choice(['empty', INT, INT, BYTE, BOOL, STRING])
            params = []
            for _ in range(self.r.randint(0, 3)):
                if self.chance(0.25):
                    params.append(arr(self.r.choice([INT, BYTE, BOOL, STRING]), self.chance(0.6)))
                else:
                    params.append(self.r.choice([INT, INT, BYTE, BOOL, STRING]))
            args = None
        f = Func(name, ret, params, flavor)
        self.cur_func = f
        pnames = [self.fresh('p') for _ in params]
        self.scopes = [[Var(n, t, const=is_arr(t), length=(None if not is_arr(t) else 0)) for n, t in zip(pnames, params)]]
        # array parameters: unknown length -> index only through guarded form using .length is not
        # expressible statically; treat as length 0 (no direct indexing) but allow loops over .length
        saved, self.lines, self.indent = self.lines, [], 1
        self.budget = int(self.r.randint(4, 14) * self.size)
        ctx = Ctx(flavor)
        exited = False
        for v in self.scopes[0]:
            if is_arr(v.ty) and self.chance(0.5):
                self.write_of(v)
        if entry and self.tt and self.chance(0.5):
            for _ in range(self.r.randint(2, 5)):
                self.s_try(ctx, 2)
                self.count('history_try')
        while self.budget > 0 and not exited:
            exited = self.stmt(ctx, 3)
        if not exited:
            if entry:
                for v in self.vars_of(lambda v: True)[:6]:
                    if not (is_arr(v.ty) and v.ty[1] == STRING and not v.is_global and v.length == 1 and False):
                        self.write_of(v)
            if ret != 'empty':
                self.emit('return %s;' % self.expr(ret, 2, ctx)[0])
        body = self.lines
        self.lines, self.indent = saved, 0
        sig = ', '.join('%s %s' % (tyname(t), n) for t, n in zip(params, pnames))
        text = ['%s %s(%s) {' % (ret, name, sig)] + body + ['}']
        self.cur_func = None
        self.scopes = []
        return f, text, args

    def entry_sig(self):
        if not self.entry_args or self.chance(0.35):
            return [], []
        params, args = [], []
        has_arr = False
        for _ in range(self.r.randint(1, 3)):
            k = self.r.random()
            if k < 0.3 and not has_arr:
                el = self.r.choice([INT, BYTE, STRING])
                const = True if el == STRING else self.chance(0.5)
                params.append(arr(el, const))
                has_arr = True
                n = self.r.randint(0, 4)
                args.append([self.arg_value(el) for _ in range(n)])
            else:
                t = self.r.choice([INT, INT, BYTE, STRING])
                params.append(t)
                args.append([self.arg_value(t)])
        return params, [a for group in args for a in group]

    def arg_value(self, t):
        if t == INT: return str(self.r.choice(INT_POOL + [40000, -40000, 65535, 65536, 8388607, -8388608]))
        if t == BYTE: return str(self.r.choice(BYTE_POOL + [256, 300, -1]))
        return self.r.choice(['', 'a', 'hello', 'x y', '123', 'é', '-'])

    def program(self):
        out = self.gen_globals()
        texts = []
        nf = self.r.randint(0, self.max_funcs)
        for _ in range(nf):
            flavors = ['ordinary', 'ordinary', 'you'] + (['defeat', 'defeat'] if self.tt else [])
            f, text, _ = self.gen_func(self.r.choice(flavors))
            self.funcs.append(f)
            texts.append(text)
        f, text, args = self.gen_func('you', name='@is_you', entry=True)
        texts.append(text)
        ids = []
        for ty in sorted(self.need_id):
            ids.append('%s id_%s(%s x) { return x; }' % (ty, ty, ty))
        src = '\n'.join(out + ids + ['\n'.join(t) for t in texts]) + '\n'
        return src, args


def gen_program(seed, tt=False, **kw):
    rng = random.Random(seed)
    g = Gen(rng, tt=tt, **kw)
    src, args = g.program()
    return src, args, g.stats


if __name__ == '__main__':
    import sys
    seed = int(sys.argv[1]) if len(sys.argv) > 1 else 0
    tt = len(sys.argv) > 2
    src, args, stats = gen_program(seed, tt=tt)
    print(src)
    print('// args:', args)
    print('// stats:', stats)
