"""C06 - flavour and context rules are enforced on every program"""
import itertools
import suites, frontend, gen, hidlib
from props.common import TRUSTED_BASE, ASSUMPTIONS as _A

ID = 'C06'
LEAN_MODULES = ['HidVerif.Props.C06']
THEOREMS = ['HidVerif.Props.C06.' + n for n in ('ctx_algebra', 'ctx_tests_pinned', 'func_contexts_pinned', 'reachable_closed',
                                                 'you_permissions', 'try_body_permissions', 'handler_context', 'spec_permissions',
                                                 'defeat_permissions', 'ordinary_permissions', 'global_permissions', 'loop_flag',
                                                 'accepted_programs_respect_the_rules')] + \
           ['HidVerif.Hid.Parse.parse_sound', 'HidVerif.Hid.Parse.rel_steps']
TRUSTED = TRUSTED_BASE + ['Hid/Parser.lean: hand-written model of rules.py/grammar.py using the regenerated context expressions, tests and '
                          'operator tables (Gen/Grammar.lean); tied by the parse suite (trees, error class, error position)',
                          'the permission table in harness/props/C06.py (independent reading of README "Summary of what\'s allowed")']
ASSUMPTIONS = _A + ['soundness (accepted => rules hold) is proved for the parser MODEL; that the model is the real parser is the parse suite',
                    'completeness (every program that respects the rules is accepted) is validated by exhaustive placement enumeration, '
                    'not proved']
RULE = ('placement enumeration: 9 leaf constructs (ordinary/you/defeat call, try, preempt, ??, break, continue, nested loop) x every path '
        'of statement wrappers (try body, undo/stop handler, preempt body, while/for/if/else/block) up to depth 2 (thorough 3) x expression '
        'wrappers (paren, index, call argument, array literal, ?? left/right) up to depth 2 x three function flavours, plus '
        'global initialisers; accept/reject of hidc.parser.parse vs the permission table; parse suite on all of them; non-trivial = '
        'placement whose verdict agrees, both verdicts occurring')

S_WRAP = {
    'try': ('try { %s } undo { }', 'try'), 'undo': ('try { } undo { %s }', 'handler'), 'stop': ('try { } stop { %s }', 'handler'),
    'preempt': ('preempt { %s }', 'preempt'), 'while': ('while (c) { %s }', 'loop'), 'for': ('for (;;) { %s }', 'loop'),
    'if': ('if (c) { %s }', 'same'), 'else': ('if (c) { } else { %s }', 'same'), 'block': ('{ %s }', 'same'),
}
E_WRAP = {'paren': '(%s)', 'index': 'arr[%s]', 'arg': 'h(%s)', 'lit': '[%s]', 'specl': '%s ?? 0', 'specr': '0 ?? %s'}
LEAVES = {'ocall': ('e', 'f()'), 'ycall': ('e', '@y()'), 'dcall': ('e', '!d()'), 'spec': ('e', 'a ?? b'),
          'try': ('s', 'try { } undo { }'), 'preempt': ('s', 'preempt { }'), 'break': ('s', 'break;'), 'continue': ('s', 'continue;'),
          'trystop': ('s', 'try { } stop { }')}


def legal(flavor, swraps, ewraps, leaf):
    st = dict(you=flavor == 'you', defeat=flavor == 'defeat', loop=False)
    for w in swraps:
        eff = S_WRAP[w][1]
        if eff == 'try':
            if not st['you']: return False
            st = dict(st, you=False, defeat=True)
        elif eff == 'handler':
            # the handler belongs to a try statement, which needs a you context; its body is parsed in that same context
            if not st['you']: return False
        elif eff == 'preempt':
            if not st['defeat']: return False
        elif eff == 'loop': st = dict(st, loop=True)
    for w in ewraps:
        if w in ('specl', 'specr'):
            if not st['you']: return False
            st = dict(st, you=False, defeat=False)
    if leaf == 'ocall': return True
    if leaf == 'ycall': return st['you']
    if leaf == 'dcall': return st['defeat']
    if leaf in ('spec', 'try', 'trystop'): return st['you']
    if leaf == 'preempt': return st['defeat']
    return st['loop']


def build(flavor, swraps, ewraps, leaf):
    kind, text = LEAVES[leaf]
    if kind == 'e':
        for w in reversed(ewraps): text = E_WRAP[w] % text
        text = text + ';'
    for w in reversed(swraps): text = S_WRAP[w][0] % text
    name = {'ordinary': 'g', 'you': '@g', 'defeat': '!g'}[flavor]
    return 'empty %s() { %s }' % (name, text)


def run(ctx):
    sdepth, edepth = ctx.budget((2, 2), (3, 2))
    texts, expect = {}, {}
    n = 0
    for flavor in ('ordinary', 'you', 'defeat'):
        for sd in range(sdepth + 1):
            for sw in itertools.product(S_WRAP, repeat=sd):
                for leaf in LEAVES:
                    kind = LEAVES[leaf][0]
                    for ed in range((edepth + 1) if kind == 'e' else 1):
                        for ew in itertools.product(E_WRAP, repeat=ed):
                            # spec operands cannot nest another ?? without parentheses producing a different shape: keep as is
                            key = 'p%d' % n; n += 1
                            texts[key] = build(flavor, sw, ew, leaf)
                            expect[key] = legal(flavor, sw, ew, leaf)
    for k, t in (('g1', 'int g = f();'), ('g2', 'int g = a ?? b;'), ('g3', 'int g = @y();'), ('g4', 'int g = 1 + 2;'), ('g5', 'int[] g = [f()];'),
                 ('g6', 'int g[f()];')):
        texts[k] = t; expect[k] = (k == 'g4')
    # global scope, completeness: initialisers and array lengths may mention other globals in every expression form that is not a
    # call, `??` or try (the first alternative the expression grammar tries on an identifier is a call)
    gpre = 'const int N = 4; int a = 1; const byte q = 2; int[] arr = [1, 2]; string s = "ab";\n'
    gforms = ['int g = a;', 'int g = a + 1;', 'int g = (a);', 'int g = -a;', 'bool g = not a;', 'byte g = a is byte;', 'int g = arr[a];',
              'int g = arr[N - 3];', 'int g = s.length;', 'int g = arr.length + a;', 'int buf[N];', 'byte buf[N + a];', 'byte[] g = [q, 3, q];',
              'int[] g = [a, N, a * N];', 'bool g = a < N and q == 2;', 'int g = s[0];', 'const int[] g = arr;', 'bool g = arr is bool;',
              'int g = [a, N][1];', 'int g = [a].length;']
    for i, f in enumerate(gforms):
        texts['gv%d' % i] = gpre + f; expect['gv%d' % i] = True
    for i, f in enumerate(['int g = arr[f()];', 'int g = a + @y();', 'int g = [a, !d()][0];', 'int buf[a ?? N];', 'int g = -(a ?? 1);']):
        texts['gx%d' % i] = gpre + f; expect['gx%d' % i] = False
    wrong = []
    acc = rej = 0
    for k, t in texts.items():
        r = frontend.py_parse(t)
        ok = r.startswith('ok')
        if ok: acc += 1
        else: rej += 1
        if ok != expect[k] or (not ok and not r.startswith('ParserError')):
            wrong.append((t, r[:60], expect[k]))
    ctx.stats['placements'] = dict(total=len(texts), accepted=acc, rejected=rej, disagreements=len(wrong), statement_depth=sdepth, expression_depth=edepth)
    for t, r, e in wrong[:3]:
        ctx.violations.append(dict(what='placement %s by the parser but %s by the documented rules' % ('accepted' if r.startswith('ok') else 'rejected: ' + r, 'legal' if e else 'illegal'),
                                   kind='PLACEMENT', source=t, args=[], config={}))
    ctx.say('placements: %d (accepted %d, rejected %d), %d disagreements with the permission table' % (len(texts), acc, rej, len(wrong)))
    # model correspondence on a sample of them and on generated programs with context mutations
    keys = list(texts)
    sample = {k: texts[k] for k in ctx.rng.sample(keys, min(len(keys), ctx.budget(3000, 20000)))}
    sample.update({k: t for k, t in texts.items() if k.startswith('g')})
    for i in range(ctx.budget(150, 1500)):
        src, _, _ = gen.gen_program(ctx.rng.getrandbits(40), tt=True)
        sample['g%d' % i] = src
        sample['m%d' % i] = frontend.mutate_text(ctx.rng, src)
    frontend.parse_suite(ctx, sample)
    ctx.stats['evaluations'] = len(texts) + len(sample)
    ctx.stats['distinct_nontrivial'] = len(texts) - len(wrong)
    ctx.stats['exhaustive'] = True
    ctx.samples.append(dict(placement=texts['p%d' % (n // 2)], legal=expect['p%d' % (n // 2)]))


def replay(ctx, data):
    print(frontend.py_parse(data['source']))
    return 1
