"""C18 - reproducible builds; options do not change meaning"""
import os, subprocess, sys, hashlib
import suites, hidlib, gen, frontend
from props.common import TRUSTED_BASE, ASSUMPTIONS as _A

ID = 'C18'
LEAN_MODULES = ['HidVerif.Props.C18']
THEOREMS = ['HidVerif.Props.C18.' + n for n in ('step_deterministic', 'run_deterministic', 'entry_guard_monotone', 'core_larger_stack_same')]
TRUSTED = TRUSTED_BASE
ASSUMPTIONS = _A + ['RUNTIME BEHAVIOUR NOT MODELLED: that the hidc process is a function of (source, options) is observed by compiling in '
                    'fresh interpreters under different PYTHONHASHSEED values, not proved',
                    'behaviour across stack sizes and word sizes is validated on generated programs, not proved']
RULE = ('(a) each program compiled in 6 fresh interpreter processes with different hash seeds, interpreter modes (default, -O, -OO, -X dev) and in different orders (forwards, backwards, shuffled): byte-identical output; (b) programs that '
        'win at stack size S behave identically at S+1, S+7, 4S; outputs at different -s differ only in the .zero directive; (c) programs '
        'whose reference behaviour is the same at w and w\' behave the same compiled for both; (d) --lint either rejects or leaves the '
        'output byte-identical; non-trivial = program for which all comparisons were made and agree')

CHILD = r'''
import sys, hashlib
sys.path.insert(0, %r)
import hidlib
srcs, order = eval(sys.stdin.read())
res = {}
for i in order:            # the order of compilation is part of the process state a build must not depend on
    cfg, src = srcs[i]
    try:
        lines = hidlib.compile_src(src, **cfg)
        res[i] = hashlib.sha256(b"\n".join(lines)).hexdigest()
    except Exception as e:
        res[i] = "ERR " + type(e).__name__ + " " + hashlib.sha256(str(e).encode()).hexdigest()[:16]
for i in range(len(srcs)):
    print(res[i])
'''


def run(ctx):
    progs = []
    for i in range(ctx.budget(40, 400)):
        seed = ctx.rng.getrandbits(40)
        src, args, _ = gen.gen_program(seed, tt=(i % 2 == 0))
        progs.append((src, args))
    for n in suites.EXAMPLES:
        path = os.path.join(hidlib.REPO, 'examples', n + '.hid')
        if os.path.exists(path): progs.append((open(path, encoding='utf-8').read(), suites.EXAMPLES[n]))
    # the verified core (C18.core_larger_stack_same is about Compiler/Core.lean): its tie to the real compiler; the same programs
    # (helper functions, recursion, arguments) take part in every comparison below
    cj = suites.core_suite(ctx, ctx.budget(60, 600), configs=((2, 100, False), (4, 30, False)), faults=0.0)
    progs += [(j[1], list(j[2])) for j in cj[:ctx.budget(30, 300)]]
    # frame-pressure programs: live stack arrays below later locals, temporaries and call frames, everything printed at the end -
    # a frame peak computed too small makes the output depend on -s just above the minimum
    import gen_special
    progs += gen_special.frame_pressure_programs(ctx.rng, ctx.budget(40, 400))
    # (a) determinism across processes
    items = []
    for src, _ in progs:
        for cfg in (dict(w=2, s=500), dict(w=4, s=64, unchecked=True)):
            items.append((cfg, src))
    # front-end corpus: hash-dependent iteration over sets/dicts of types, names or overloads would show here
    from props import C07
    fe = list(C07.array_mix_programs(ctx.rng, True).values()) + list(frontend.test_snippets())
    if ctx.quick: fe = ctx.rng.sample(fe, min(len(fe), 450))
    for src in fe: items.append((dict(w=2, s=100), src))
    # programs that add overloads to builtin names, next to programs that rely on the builtin being chosen by coercion, and the
    # same source more than once: a table of builtins shared between compilations would carry one program's functions into the next
    ov = ['empty write(const int[] arr) { for (int i = 0; i < arr.length; i += 1) { write(arr[i]); write(\' \'); } }\nempty @is_you() { write([72, 105, 10]); }',
          'empty @is_you() { write([72, 105, 10]); writeln([1, 2]); }',
          'empty writeln(const int[] arr) { write(arr.length); writeln(); }\nempty @is_you() { writeln([1, 2]); }',
          'empty sleep(bool b) { write(b); }\nempty all_is_win(int x) { write(x); }\nempty @is_you() { sleep(true); all_is_win(3); sleep(5); }',
          'empty @is_you() { sleep(1); debug(); progress(); all_is_win(); }',
          'int !is_defeat(int k) { return k; }\nempty @is_you() { try { write(!is_defeat(2)); !is_defeat(); } undo { write(\'u\'); } }']
    for src in ov + ov[:2]:
        items.append((dict(w=2, s=100), src))
    seeds = ('0', '1', '2', '3', '12345', '987654321')
    # each process compiles the same items, in its own order (forwards, backwards, shuffled): state that leaks from one
    # compilation into the next (a cache, a counter, a label pool that is not reset) shows as a difference per item
    fwd = list(range(len(items)))
    orders = [fwd, fwd[::-1]]
    for _ in seeds[2:]:
        o = fwd[:]; ctx.rng.shuffle(o); orders.append(o)
    procs = []
    # the interpreter's own mode is process state too: assertions and docstrings stripped (-O, -OO), development mode
    pyflags = ([], ['-O'], ['-OO'], ['-X', 'dev'], ['-O'], [])
    for hs, fl in zip(seeds, pyflags):
        env = dict(os.environ, PYTHONHASHSEED=hs)
        env.pop('PYTHONOPTIMIZE', None)
        procs.append(subprocess.Popen(['/venv/bin/python'] + fl + ['-c', CHILD % os.path.join(hidlib.VERIF, 'harness')], stdin=subprocess.PIPE,
                                      stdout=subprocess.PIPE, text=True, env=env))
    outs = []
    for p, order in zip(procs, orders):
        so, _ = p.communicate(repr((items, order)), timeout=900)
        outs.append(so.strip().split('\n'))
    nondet = [i for i in range(len(items)) if len({o[i] if i < len(o) else None for o in outs}) != 1]
    ctx.stats['determinism'] = dict(compilations=len(items), processes=len(seeds), nondeterministic=len(nondet))
    for i in nondet[:2]:
        ctx.violations.append(dict(what='compiler output differs between interpreter processes (hash seed, interpreter mode -O / -OO / -X dev, or what the process compiled before)', kind='NONDET',
                                   source=items[i][1], args=[], config=items[i][0]))
    ctx.say('determinism: %d compilations x 6 processes, %d differ' % (len(items), len(nondet)))
    # (b) stack size: textual difference only in .zero, and same behaviour above the minimum
    textual = 0
    jobs = []
    for k, (src, args) in enumerate(progs):
        try:
            a = hidlib.compile_src(src, w=2, s=100); b = hidlib.compile_src(src, w=2, s=357)
        except Exception:
            continue
        diff = [(x, y) for x, y in zip(a, b) if x != y]
        if len(a) != len(b) or diff != [(b'.zero 100w', b'.zero 357w')]:
            textual += 1
            if textual <= 2:
                ctx.violations.append(dict(what='outputs for -s100 and -s357 differ in more than the .zero directive', kind='STACKTEXT',
                                           source=src, args=list(args), config=dict(w=2), diff=str(diff[:3])))
        jobs.append(('p%d' % k, src, args, 2, 100, False, 600000))
    ctx.stats['stack_size_textual'] = dict(programs=len(jobs), other_differences=textual)
    cases, rej = suites.compile_cases(jobs)
    base = {c['id']: (c['asm'], c['args']) for c in cases}
    smin = suites.min_stack(base, hi=400, fuel=600000)
    runs = []
    for c in cases:
        s0 = smin.get(c['id'])
        if s0 is None: continue
        for s in (s0, s0 + 1, s0 + 7, 4 * s0 + 16):
            runs.append(dict(id='%s@%d' % (c['id'], s), asm=suites.set_stack(c['asm'], s), args=c['args'], fuel=c['fuel']))
    res = hidlib.run_parallel(runs)
    by = {}
    for rid, r in res.items():
        by.setdefault(rid.split('@')[0], []).append((int(rid.split('@')[1]), r['vm']))
    bad = 0; same = 0
    jm = {j[0]: j for j in jobs}
    for cid, lst in by.items():
        obs = {r.obs() for _, r in lst}
        if len(obs) != 1:
            bad += 1
            if bad <= 2:
                ctx.violations.append(dict(what='behaviour changes with the stack size above the minimum: %s' % sorted((s, r.output[:30].hex(), r.flags) for s, r in lst),
                                           kind='STACKDEP', source=jm[cid][1], args=list(jm[cid][2]), config=dict(w=2, stack=smin[cid])))
        else: same += 1
    ctx.stats['stack_size_behaviour'] = dict(programs=len(by), same=same, different=bad)
    ctx.say('stack sizes: textual other-differences=%d; behaviour same=%d different=%d' % (textual, same, bad))
    # (c) word sizes: where the reference agrees across w, the compiled code must too
    wj = []
    for k, (src, args) in enumerate(progs):
        for w in (2, 3, 4, 8):
            wj.append(('q%d_w%d' % (k, w), src, args, w, 500, False, 600000))
    wc, _ = suites.compile_cases(wj)
    wres = hidlib.run_parallel(wc)
    wbad = wsame = 0
    for k, (src, args) in enumerate(progs):
        rs = [wres.get('q%d_w%d' % (k, w)) for w in (2, 3, 4, 8)]
        if any(r is None or 'src' not in r for r in rs): continue
        if len({r['src'].obs() for r in rs}) == 1 and rs[0]['src'].outcome == 'terminal':
            if len({r['vm'].obs() for r in rs}) != 1:
                wbad += 1
                if wbad <= 2:
                    ctx.violations.append(dict(what='compiled behaviour depends on the word size although the reference behaviour does not',
                                               kind='WORDDEP', source=src, args=list(args), config=dict(w=[2, 3, 4, 8])))
            else: wsame += 1
    ctx.stats['word_size_behaviour'] = dict(value_bounded_programs=wsame + wbad, same=wsame, different=wbad)
    # (d) lint
    lint_rej = lint_same = lint_diff = 0
    for src, args in progs:
        try: a = hidlib.compile_src(src, w=2, s=500)
        except Exception: continue
        try: b = hidlib.compile_src(src, w=2, s=500, lint=True)
        except Exception:
            lint_rej += 1; continue
        if a == b: lint_same += 1
        else:
            lint_diff += 1
            if lint_diff <= 2:
                ctx.violations.append(dict(what='--lint changed the generated code', kind='LINT', source=src, args=[], config=dict(lint=True)))
    ctx.stats['lint'] = dict(rejected=lint_rej, identical=lint_same, different=lint_diff)
    ctx.say('word sizes: same=%d different=%d; lint: rejected=%d identical=%d different=%d' % (wsame, wbad, lint_rej, lint_same, lint_diff))
    ctx.stats['evaluations'] = ctx.stats.get('evaluations', 0) + len(items) * 3 + len(runs) + len(wc)
    ctx.stats['distinct_nontrivial'] = same + wsame + lint_same
    ctx.samples.append(dict(program=progs[0][0][:600]))


def replay(ctx, data):
    print(data.get('what'))
    return suites.replay_case(ctx, data) if data.get('kind') in ('DIFF',) else 1
