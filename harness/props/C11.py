"""C11 - expressions group by the documented precedence and associativity"""
import itertools
import suites, frontend, hidlib
from props.common import TRUSTED_BASE, ASSUMPTIONS as _A

ID = 'C11'
LEAN_MODULES = ['HidVerif.Props.C11']
THEOREMS = ['HidVerif.Props.C11.levels_documented', 'HidVerif.Props.C11.levels_disjoint', 'HidVerif.Props.C11.documented_grouping',
            'HidVerif.Props.C11.reachable_contexts_ok', 'HidVerif.Hid.Parse.round_trip']
TRUSTED = TRUSTED_BASE + ['Hid/Parser.lean (parser model over the regenerated operator tables) tied by the parse suite',
                          'the reference grouping in harness/props/C11.py: an independent precedence-climbing implementation of the README table']
ASSUMPTIONS = _A + ['documented_grouping is proved for the parser MODEL (Hid/Parser.lean) on token sequences; that the model is the real '
                    'parser is the parse suite, and the round trip through the real lexer and parser is executed on all operator pairs and '
                    'triples and random trees',
                    'the proved fragment has literals, variables, indexing, .length, prefix operators, scalar `is` casts, the five binary '
                    'levels and arbitrary parentheses; calls, array literals, array casts and ?? occur only in the executed round trip']
RULE = ('every pair and triple of binary operators, with unary operators, `is`, postfix forms and parentheses mixed in, and random trees to '
        'depth 6: the tree returned by hidc.parser.parse must equal the tree of an independent precedence-climbing parser, and printing a '
        'tree with minimal parentheses and parsing it must give the tree back; parse suite on all texts; non-trivial = expression with '
        '>= 2 operators that agrees')

BIN = {'*': ('Mul', 4), '/': ('Div', 4), '%': ('Mod', 4), '+': ('Add', 5), '-': ('Sub', 5), '<': ('Lt', 6), '<=': ('Le', 6), '>': ('Gt', 6),
       '>=': ('Ge', 6), '==': ('Eq', 6), '!=': ('Ne', 6), 'and': ('And', 7), 'or': ('Or', 8)}
UN = {'+': 'Pos', '-': 'Neg', 'not': 'Not'}


def name(n): return 'n' + '.'.join(str(ord(c)) for c in n)


def show(t):
    """tree -> the dump format of frontend.dump_parse"""
    k = t[0]
    if k == 'var': return '(var %s)' % name(t[1])
    if k == 'int': return '(int %d)' % t[1]
    if k == 'char': return '(char %d)' % t[1]
    if k == 'bin': return '(bin %s %s %s)' % (t[1], show(t[2]), show(t[3]))
    if k == 'un': return '(un %s %s)' % (t[1], show(t[2]))
    if k == 'is': return '(is %s %s)' % (show(t[1]), t[2])
    if k == 'len': return '(len %s)' % show(t[1])
    if k == 'index': return '(index %s %s)' % (show(t[1]), show(t[2]))
    if k == 'spec': return '(spec %s %s)' % (show(t[1]), show(t[2]))
    if k == 'call': return '(call - %s%s)' % (name(t[1]), ''.join(' ' + show(a) for a in t[2]))
    raise ValueError(k)


def level(t):
    k = t[0]
    if k in ('var', 'int', 'char', 'call', 'len', 'index'): return 1
    if k == 'un': return 2
    if k == 'is': return 3
    if k == 'bin': return {v[0]: v[1] for v in BIN.values()}[t[1]]
    if k == 'spec': return 9


def text(t):
    """minimal parentheses according to the documented table"""
    k = t[0]
    def sub(x, maxlevel):
        s = text(x)
        return '(%s)' % s if level(x) > maxlevel else s
    if k == 'var': return t[1]
    if k == 'int': return str(t[1])
    if k == 'call': return '%s(%s)' % (t[1], ', '.join(text(a) for a in t[2]))
    if k == 'len': return sub(t[1], 1) + '.length'
    if k == 'index': return '%s[%s]' % (sub(t[1], 1), text(t[2]))
    if k == 'un':
        sym = {v: s for s, v in UN.items()}[t[1]]
        return sym + ' ' + sub(t[2], 2)
    if k == 'is': return '%s is %s' % (sub(t[1], 2), t[2])
    if k == 'bin':
        sym = {v[0]: s for s, v in BIN.items()}[t[1]]
        lv = level(t)
        return '%s %s %s' % (sub(t[2], lv), sym, sub(t[3], lv - 1))
    if k == 'spec': return '%s ?? %s' % (sub(t[1], 8), sub(t[2], 8))


def climb(tokens):
    """independent precedence-climbing parser over a token list of operands/operators (no parentheses):
    tokens alternate operand, binary operator, operand, ...; operands are trees already"""
    def parse(pos, minlevel):
        lhs = tokens[pos]; pos += 1
        while pos < len(tokens):
            op = tokens[pos]
            cls, lv = BIN[op]
            if lv > minlevel: break
            rhs, pos2 = parse(pos + 1, lv - 1)
            lhs = ('bin', cls, lhs, rhs); pos = pos2
        return lhs, pos
    t, _ = parse(0, 8)
    return t


def rand_tree(rng, d):
    r = rng.random()
    if d <= 0 or r < 0.2: return rng.choice([('var', 'a'), ('var', 'b'), ('int', 7), ('var', 'xs')])
    if r < 0.62:
        cls = rng.choice([v[0] for v in BIN.values()])
        return ('bin', cls, rand_tree(rng, d - 1), rand_tree(rng, d - 1))
    if r < 0.74: return ('un', rng.choice(list(UN.values())), rand_tree(rng, d - 1))
    if r < 0.82: return ('is', rand_tree(rng, d - 1), rng.choice(['int', 'byte', 'bool']))
    if r < 0.88: return ('len', rand_tree(rng, d - 1))
    if r < 0.95: return ('index', rand_tree(rng, d - 1), rand_tree(rng, d - 1))
    return ('call', 'f', [rand_tree(rng, d - 1) for _ in range(rng.randint(0, 2))])


def parsed_expr(src_expr):
    r = frontend.py_parse('empty @is_you() { x = %s; }' % src_expr)
    if not r.startswith('ok'): return r
    body = r[r.index('(assign (var n120) ') + len('(assign (var n120) '):]
    return body[:body.rindex(')))))')] if body.endswith(')))))') else body


def run(ctx):
    ops = list(BIN)
    cases = []      # (text, expected dump)
    operands = [('var', 'a'), ('var', 'b'), ('var', 'c'), ('var', 'd')]
    for o1, o2 in itertools.product(ops, repeat=2):
        toks = [operands[0], o1, operands[1], o2, operands[2]]
        cases.append(('a %s b %s c' % (o1, o2), show(climb(toks))))
        cases.append(('a %s (b %s c)' % (o1, o2), show(('bin', BIN[o1][0], operands[0], ('bin', BIN[o2][0], operands[1], operands[2])))))
        for u in UN:
            cases.append(('%s a %s b %s c' % (u, o1, o2), show(climb([('un', UN[u], operands[0]), o1, operands[1], o2, operands[2]]))))
            cases.append(('a %s %s b %s c' % (o1, u, o2), show(climb([operands[0], o1, ('un', UN[u], operands[1]), o2, operands[2]]))))
        cases.append(('a is int %s b %s c[0]' % (o1, o2), show(climb([('is', operands[0], 'int'), o1, operands[1], o2, ('index', operands[2], ('int', 0))]))))
        cases.append(('- a.length %s b %s c' % (o1, o2), show(climb([('un', 'Neg', ('len', operands[0])), o1, operands[1], o2, operands[2]]))))
    # the same chains with every mix of operand kinds (a parser may special-case literal operands): for each pair of operators,
    # each of the 27 assignments of {variable, int literal, char literal} to the three operands
    kinds = [lambda n: ('var', n), lambda n: ('int', {'a': 1, 'b': 2, 'c': 5}[n]), lambda n: ('char', {'a': 97, 'b': 48, 'c': 1}[n])]
    spell = [lambda n: n, lambda n: str({'a': 1, 'b': 2, 'c': 5}[n]), lambda n: {'a': "'a'", 'b': "'0'", 'c': "'\\x01'"}[n]]
    pairs2 = list(itertools.product(ops, repeat=2))
    if ctx.quick: pairs2 = [(o, o) for o in ops] + ctx.rng.sample(pairs2, 60)
    for o1, o2 in pairs2:
        for ka, kb, kc in itertools.product(range(3), repeat=3):
            if ka == kb == kc == 0: continue
            A, B, C = kinds[ka]('a'), kinds[kb]('b'), kinds[kc]('c')
            cases.append(('%s %s %s %s %s' % (spell[ka]('a'), o1, spell[kb]('b'), o2, spell[kc]('c')), show(climb([A, o1, B, o2, C]))))
            if ka == 0 and (kb, kc) != (0, 0):
                cases.append(('(%s %s %s) %s %s' % (spell[ka]('a'), o1, spell[kb]('b'), o2, spell[kc]('c')), show(('bin', BIN[o2][0], ('bin', BIN[o1][0], A, B), C))))
    triples = list(itertools.product(ops, repeat=3))
    if ctx.quick: triples = ctx.rng.sample(triples, 700)
    for o1, o2, o3 in triples:
        toks = [operands[0], o1, operands[1], o2, operands[2], o3, operands[3]]
        cases.append(('a %s b %s c %s d' % (o1, o2, o3), show(climb(toks))))
    for _ in range(ctx.budget(2000, 50000)):
        t = rand_tree(ctx.rng, ctx.rng.randint(1, 6))
        if ctx.rng.random() < 0.15: t = ('spec', t, rand_tree(ctx.rng, 2))
        cases.append((text(t), show(t)))
    wrong = []
    for src, want in cases:
        got = parsed_expr(src)
        if got != want: wrong.append((src, want, got))
    # non-associativity of `is` and `??`
    for src in ('a is int is bool', 'a ?? b ?? c', 'a is', 'a ?? '):
        if frontend.py_parse('empty @is_you() { x = %s; }' % src).startswith('ok'):
            wrong.append((src, 'ParserError', 'accepted'))
    ctx.stats['expressions'] = dict(total=len(cases), disagreements=len(wrong), pairs=len(ops) ** 2, triples=len(triples))
    for src, want, got in wrong[:3]:
        ctx.violations.append(dict(what='expression grouped differently from the documented table', kind='PRECEDENCE',
                                   source='empty @is_you() { x = %s; }' % src, expected_tree=want, parsed_tree=got[:400], args=[], config={}))
    ctx.say('expressions: %d, %d disagreements with the reference grouping' % (len(cases), len(wrong)))
    texts = {'e%d' % i: 'empty @is_you() { x = %s; }' % c[0] for i, c in enumerate(ctx.rng.sample(cases, min(len(cases), ctx.budget(2500, 20000))))}
    frontend.parse_suite(ctx, texts)
    ctx.stats['evaluations'] = len(cases) + len(texts)
    ctx.stats['distinct_nontrivial'] = len(cases) - len(wrong)
    ctx.samples.append(dict(expression=cases[-1][0], tree=cases[-1][1]))


def replay(ctx, data):
    print(frontend.py_parse(data['source']))
    return 1
