"""C01 - compiled code computes what the source program says (sequential core)"""
import suites, gen_special
from props.common import TRUSTED_BASE, ASSUMPTIONS as _A

ID = 'C01'
LEAN_MODULES = ['HidVerif.Props.C01']
THEOREMS = ['HidVerif.Props.C01.core_semantic_preservation', 'HidVerif.Props.C01.core_expression_correct', 'HidVerif.Props.C01.trace_unique', 'HidVerif.Props.C01.arith_map_sound', 'HidVerif.Props.C01.compare_map_sound',
            'HidVerif.Props.C01.win_reach', 'HidVerif.Props.C01.vm_verdict_sound', 'HidVerif.Props.C01.interp_verdict_sound',
            'HidVerif.PSys.cstep_halts_iff', 'HidVerif.PSys.run_sound']
TRUSTED = TRUSTED_BASE
ASSUMPTIONS = _A + ['end-to-end semantic preservation is NOT proved: whole programs are validated by executing the reference '
                    'machine and the VM (both Lean definitions, driver proved sound) on generated programs']
RULE = ('type-directed generator of terminating sequential programs (harness/gen.py, tt=False): all scalar/array types, overloads, '
        'nested scopes, globals, by-reference arrays, every @is_you signature shape, boundary argument values; each compiled by '
        'the real hidc and run on the Lean VM, the typed tree run on the reference machine; non-trivial = both ran to win/error '
        'and agree on every output byte and flag')


def run(ctx):
    suites.asmcheck(ctx)
    suites.upstream_corpus(ctx)
    jobs = suites.corpus_jobs() + suites.example_jobs()
    stats = {}
    plan = [(2, ctx.budget(500, 8000)), (3, ctx.budget(120, 2500)), (4, ctx.budget(120, 2500)), (8, ctx.budget(120, 2500))]
    for w, n in plan:
        j, st = suites.gen_jobs(ctx, n, tt=False, w=w, s=ctx.rng.choice([300, 500]), prefix='w%d_' % w)
        jobs += j
        for k, v in st.items(): stats[k] = stats.get(k, 0) + v
    ctx.stats['generator_distribution'] = stats
    jobs += suites.core_suite(ctx, ctx.budget(240, 4000))
    # left-to-right evaluation with side effects: every scalar type x storage class x consuming form
    order = gen_special.order_programs(ctx.rng)
    for w in ((2, 4) if ctx.quick else (2, 3, 4, 8)):
        for un in (False, True):
            jobs += [('ord%d_%d_%d' % (i, w, un), src, args, w, 200, un, 300000) for i, (src, args, tag) in enumerate(order)]
    ctx.stats['evaluation_order_forms'] = len(order)
    # expression statements whose root is an operator, a cast, an index, a literal or `??` but which contain calls
    jobs += [('%s_%d' % (tag, un), src, a, 2, 200, un, 300000) for tag, src, a in gen_special.exprstmt_programs() for un in (False, True)]
    suites.differential(ctx, jobs, None, label='sequential', must_compile=True)
    # the oracle above runs on the typed tree of the real front end; a sample of the programs is also type-checked by the
    # verified front-end model, and re-run against the model's tree wherever the two trees differ
    seen, sample = set(), {}
    for j in jobs:
        if j[1] not in seen and len(sample) < ctx.budget(200, 2000):
            seen.add(j[1]); sample['p%d' % len(sample)] = j[1]
    suites.independent_front_end(ctx, sample, jobs)
    ctx.samples.append(dict(generated_program=jobs[-1][1][:1500], args=jobs[-1][2], w=jobs[-1][3]))


def replay(ctx, data):
    return suites.replay_case(ctx, data)
