"""C15 - --unchecked changes nothing on fault-free runs"""
import suites, hidlib
from props.common import TRUSTED_BASE, ASSUMPTIONS as _A

ID = 'C15'
LEAN_MODULES = ['HidVerif.Props.C15']
THEOREMS = ['HidVerif.Props.C15.' + n for n in ('core_unchecked_same', 'div_guard_observer', 'index_guard_observer', 'length_guard_observer',
                                                 'entry_guard_observer')]
TRUSTED = TRUSTED_BASE + ['Compiler/Templates.lean guard templates, tied to the generator by the conformance check']
ASSUMPTIONS = _A + ['PROVED for the core sub-language (core_unchecked_same, tied by the core correspondence suite in both build modes); beyond it, that the unchecked build is the checked build minus the guard fragments is validated by running both builds, '
                    'not proved (the dynamic-array guard and the return protection have no template theorem yet)']
RULE = ('both builds of every fault-free program of the sequential and time-travel generators, all word sizes; the unchecked VM '
        'trace must equal the checked VM trace (and the reference); non-trivial = fault-free program whose two builds differ in '
        'code size and agree in behaviour')


def run(ctx):
    suites.asmcheck(ctx)
    jobs = suites.corpus_jobs() + suites.example_jobs()
    for w, n in [(2, ctx.budget(400, 6000)), (3, ctx.budget(80, 1500)), (4, ctx.budget(80, 1500)), (8, ctx.budget(80, 1500))]:
        for tt in (False, True):
            j, _ = suites.gen_jobs(ctx, n // 2, tt=tt, w=w, faults=0.01, prefix='w%d_%s' % (w, 't' if tt else 's'))
            jobs += j
    core_jobs = suites.core_suite(ctx, ctx.budget(160, 2500), configs=((2, 100, False), (2, 100, True), (4, 30, False), (4, 30, True)), faults=0.0)
    suites.conformance(ctx, jobs[:ctx.budget(300, 2000)])
    import gen_special
    for w in ((2,) if ctx.quick else (2, 4)):
        jobs += [('%s_%s_w%d' % (tag, a[0], w), src, a, w, 200, False, 300000) for tag, src, a in gen_special.preempt_programs() + gen_special.try_exit_programs() + gen_special.exprstmt_programs()]
    jobs += [j for j in core_jobs if not j[5]]
    tally, bad, res = suites.differential(ctx, jobs, None, kinds_bad=(), do_shrink=False, label='checked', must_compile_prefixes=('pre_', 'int_', 'empty_', 'loop_', 'main_', 'xs_'))
    faults = ('stack_overflow', 'division_by_zero', 'out_of_bounds', 'nonlocal_preempt')
    clean = [j for j in jobs if j[0] in res and 'vm' in res[j[0]] and res[j[0]]['vm'].outcome == 'terminal'
             and not any(f in res[j[0]]['vm'].flags for f in faults)]
    un = [(j[0] + '_u', j[1], j[2], j[3], j[4], True, j[6]) for j in clean]
    cases, rej = suites.compile_cases(un)
    ures = hidlib.run_parallel([dict(id=c['id'], asm=c['asm'], args=c['args'], fuel=c['fuel']) for c in cases])
    same = diff = 0
    jm = {j[0]: j for j in un}
    for cid, r in ures.items():
        rc = res[cid[:-2]]['vm']
        if r['vm'].obs() == rc.obs(): same += 1
        else:
            diff += 1
            if diff <= 3:
                _, src, args, w, s, _, fuel = jm[cid]
                ctx.violations.append(dict(what='unchecked build behaves differently on a fault-free run', kind='UNCHECKED-DIFF',
                                           source=src, args=list(args), config=dict(w=w, stack=s, unchecked=True),
                                           vm=suites.describe(r['vm']), checked_vm=suites.describe(rc)))
    ctx.stats['unchecked_vs_checked'] = dict(fault_free_programs=len(clean), same=same, different=diff)
    ctx.stats['evaluations'] = ctx.stats.get('evaluations', 0) + len(cases)
    ctx.stats['distinct_nontrivial'] = same
    ctx.say('unchecked vs checked on fault-free runs: same=%d different=%d' % (same, diff))


def replay(ctx, data):
    import dump_ast
    cfg = data['config']
    out = []
    for un in (False, True):
        c = dump_ast.case('r', data['source'], data.get('args', []), w=cfg.get('w', 2), s=cfg.get('stack', 500), unchecked=un, interp=False)
        out.append(hidlib.run_batch([c])['r']['vm'])
    print('checked  :', out[0]); print('unchecked:', out[1])
    return 0 if out[0].obs() == out[1].obs() else 1
