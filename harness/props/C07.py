"""C07 - the typechecker accepts exactly the well-typed programs"""
import itertools, glob, os
import suites, frontend, gen, hidlib, dump_ast
from props.common import TRUSTED_BASE, ASSUMPTIONS as _A

ID = 'C07'
LEAN_MODULES = ['HidVerif.Props.C07']
THEOREMS = ['HidVerif.Props.C07.' + n for n in ('coercible_table', 'cast_table', 'literal_shrinkable', 'substituted_literal_not_shrinkable',
                                                 'explicit_int_cast_not_shrinkable', 'arith_shrinkable', 'narrowing_rejected',
                                                 'const_array_to_mutable_rejected', 'resolve_exact', 'resolve_fallback', 'resolve_spec',
                                                 'const_targets', 'accepted_programs_are_well_typed', 'accepted_expressions_are_well_typed',
                                                 'cast_has_target_type')] + ['HidVerif.Hid.TC.tcProgram_wt', 'HidVerif.Hid.TC.tcExpr_wt', 'HidVerif.Hid.TC.cast_ok', 'HidVerif.Hid.Parse.parse_sound']
TRUSTED = TRUSTED_BASE + ['Hid/Typecheck.lean, Hid/TypecheckStmt.lean: hand-written model of the evaluate methods; tied by the tc suite '
                          '(identical typed tree on acceptance, identical error class on rejection)',
                          'the rule oracle of harness/props/C07.py (documented coercion lattice and overload rule)']
ASSUMPTIONS = _A + ['completeness w.r.t. a declarative typing relation is not proved; error positions of TypeCheckError are not modelled']
RULE = ('tc suite on generated programs, type mutations of them (type keywords, const, literal kinds, identifiers, return statements, '
        'duplicated declarations, assignment operators) and the repository\'s ~300 test snippets; rule generator: one program per typing '
        'rule x position, accept/reject vs the documented rule; overload sets x argument forms executed on the VM, chosen overload vs '
        'the documented resolution rule; non-trivial = text whose verdict and tree agree')

SCAL = ['int', 'byte', 'bool', 'string']

# argument forms: (expression text, static type, shrinkable-to-byte)
ARGS = [('5', 'int', True), ("'c'", 'byte', False), ('bv', 'byte', False), ('iv', 'int', False), ('true', 'bool', False), ('"s"', 'string', False),
        ('(bv + 1)', 'int', True), ('(iv + 1)', 'int', False), ('cb', 'const byte[]', False), ('mb', 'byte[]', False), ('ci', 'const int[]', False),
        ('mi', 'int[]', False), ('[1, 2]', 'lit', None), ('K', 'int', False), ('(2 is int)', 'int', False), ('(iv is byte)', 'byte', False)]
PARAMS = ['int', 'byte', 'bool', 'string', 'const byte[]', 'byte[]', 'const int[]', 'int[]']


def coercible(arg, p):
    text, t, shrink = arg
    if t == 'lit':      # [1, 2]: coercible to any array whose element type accepts int literals
        return p in ('const int[]', 'int[]', 'const byte[]', 'byte[]')
    if t == p: return True
    if t == 'byte' and p == 'int': return True
    if t == 'string' and p == 'const byte[]': return True
    if t == 'byte[]' and p == 'const byte[]': return True
    if t == 'int[]' and p == 'const int[]': return True
    if t == 'int' and p == 'byte' and shrink: return True
    return False


def exact(arg, p):
    text, t, _ = arg
    if t == 'lit': return p == 'const int[]'     # preferred type of [1, 2]
    return t == p


def expected_overload(overloads, arg):
    for i, p in enumerate(overloads):
        if exact(arg, p): return i
    for i, p in enumerate(overloads):
        if coercible(arg, p): return i
    return None


def rules():
    """(source, should be accepted) — one per documented rule and position"""
    R = []
    def fn(body, pre='', ret='empty', sig=''): return '%s\n%s f(%s) { %s }\nempty @is_you() { }' % (pre, ret, sig, body)
    R += [(fn('const int x = 1; x = 2;'), False), (fn('int x = 1; x = 2;'), True), (fn('const int[] a = [1]; a[0] = 2;'), False),
          (fn('int[] a = [1]; a[0] = 2;'), True), (fn('string s = "a"; s[0] = 1;'), False), (fn('string s = "a"; s = "b";'), True),
          (fn('int i = 300; byte b = i;'), False), (fn('byte b = 300;'), True), (fn('int i = 3; byte b = i is byte;'), True),
          (fn('const int K = 5; byte b = K;'), False), (fn('byte b = 1 + 2;'), True), (fn('byte c = 1; byte b = c + 1;'), True),
          (fn('int i = 1; byte b = i + 1;'), False), (fn('byte b = (2 is int);'), False),
          (fn('const int[] c = [1]; int[] m = c;'), False), (fn('int[] m = [1]; const int[] c = m;'), False),
          (fn('g(c);', pre='empty g(int[] a) { }', sig='const int[] c'), False), (fn('g(m);', pre='empty g(const int[] a) { }', sig='int[] m'), True),
          (fn('g(1, 2);', pre='empty g(int a) { }'), False), (fn('g();', pre='empty g(int a) { }'), False), (fn('g("s");', pre='empty g(int a) { }'), False),
          (fn('g(true);', pre='empty g(int a) { }'), False), (fn('g(\'c\');', pre='empty g(int a) { }'), True),
          (fn('return 1;'), False), (fn('return;', ret='int'), False), (fn('', ret='int'), False), (fn('return "s";', ret='int'), False),
          (fn('return 1;', ret='int'), True), (fn('if (x) { return 1; }', ret='int', sig='bool x'), False),
          (fn('if (x) { return 1; } else { return 2; }', ret='int', sig='bool x'), True), (fn('while (true) { }', ret='int'), True),
          (fn('x = 1;'), False), (fn('int x = y;'), False), (fn('int x = 1; int x = 2;'), False), (fn('int x = 1; { int x = 2; }'), False),
          (fn('{ int x = 1; } { int x = 2; }'), True), (fn('int a = 1;', sig='int a'), False),
          ('int g = 1;\nempty f() { int g = 2; }\nempty @is_you() { }', True), ('int g = 1; int g = 2;\nempty @is_you() { }', False),
          ('empty f(int a) { }\nempty f(int b) { }\nempty @is_you() { }', False), ('empty f(int a) { }\nempty f(byte b) { }\nempty @is_you() { }', True),
          ('empty write(int a) { }\nempty @is_you() { }', False), ('empty write(int[] a) { }\nempty @is_you() { }', True),
          (fn('int[] a = [[1], [2]];'), False), (fn('int[] a = [1, "s"];'), False), (fn('e2();', pre='empty e2() { }'), True),
          (fn('int[] a = [e2()];', pre='empty e2() { }'), False), (fn('int x = e2();', pre='empty e2() { }'), False),
          (fn('bool b = "s" is bool; bool c = [1] is bool; bool d = 3 is bool;'), True), (fn('string s = 1 is string;'), False),
          (fn('int i = "s" is int;'), False), (fn('const byte[] b = "s" is byte[];'), True), (fn('int[] a = "s" is int[];'), False),
          (fn('byte[] b = [1, 2] is byte[];'), True), (fn('bool[] b = [1, 2] is bool[];'), True), (fn('string[] b = [1] is string[];'), False),
          (fn('int x = 1 / 0;'), False), (fn('int x = 1 % 0;'), False), (fn('bool b = 1 < true;'), False), (fn('bool b = true == false;'), True),
          (fn('bool b = "a" == "b";'), False), (fn('int x = true + 1;'), False), (fn('int x = -true;'), False), (fn('bool b = not 5;'), True),
          (fn('int n = 3; int a[n]; a[0] = 1;'), True), (fn('const int a[3];'), False), (fn('int n = 3; int a[n] = 5;'), False),
          (fn('int x = a.length;', sig='int a'), False), (fn('int x = a[0];', sig='int a'), False), (fn('int x = s.length + s[0];', sig='string s'), True),
          (fn('int x = [].length;'), True), (fn('int x = [][0];'), False)]
    # a folded arithmetic constant is byte-coercible only if all its operands were (literals / byte constants), in every consuming position
    for op in ('K + 1', 'K * 2', '-K', 'K / 1', 'K % 2', 'K - K', '1 + K', '(3 is int) + 1', '+K'):
        R += [(fn('const int K = 5; byte b = %s;' % op), False), (fn('const int K = 5; return %s;' % op, ret='byte'), False),
              (fn('const int K = 5; byte[] a = [%s];' % op), False), (fn('const int K = 5; g(%s);' % op, pre='empty g(byte x) { }'), False),
              (fn('const int K = 5; byte b = 1; b = %s;' % op), False), ('const int K = 5; byte h = %s;\nempty @is_you() { }' % op, False),
              (fn('const int K = 5; int b = %s;' % op), True), (fn('const int K = 5; byte b = (%s) is byte;' % op), True)]
    R += [(fn('byte b = 2 + 3;'), True), (fn('const byte C = 5; byte b = C + 1;'), True), (fn('const byte C = 5; byte b = -C + 9;'), True),
          (fn('const int K = 5; g(K + K);', pre='empty g(byte x) { } empty g(string s) { }'), False)]
    # an int constant is not byte-coercible, whatever literal it was initialised from (a character literal is an int literal too)
    for kd in ("const int K = 5;", "const int K = 'a';", "const byte B = 'a'; const int K = B;", "const int K = 'a' is int;", "const int K = '\\n';"):
        for use in ('K', '(K)', '+K'):
            R += [(fn('%s byte b = %s;' % (kd, use)), False), (fn('%s return %s;' % (kd, use), ret='byte'), False),
                  (fn('%s byte[] a = [%s];' % (kd, use)), False), (fn('%s g(%s);' % (kd, use), pre='empty g(byte x) { }'), False),
                  (fn('%s byte b = 1; b = %s;' % (kd, use)), False), (fn('%s byte b = 1; b += %s;' % (kd, use)), False),
                  (fn('%s byte[] a = [1, 2]; a[0] = %s;' % (kd, use)), False),
                  (fn('%s int r = show([\'b\', %s]);' % (kd, use), pre='int show(const int[] a) { return 1; }\nstring show(const byte[] a) { return "s"; }'), True),
                  (fn('%s int b = %s; byte c = %s is byte;' % (kd, use, use)), True)]
        R += [('%s byte h = K;\nempty @is_you() { }' % kd, False), ('%s int h = K; byte[] hb = [1];\nempty @is_you() { }' % kd, True)]
    R += [(fn("byte b = 'a'; const byte C = 'a'; byte d = C; byte[] e = ['a', C];"), True)]
    # a const array may not be bound to mutable storage, however the initialiser is written: bare, under an explicit cast to its own
    # type, in parentheses, through a call result; mutable local / VLA / parameter / global, local and global declarations
    for el, lit in (('int', '[1, 2]'), ('byte', '[1, 2]'), ('bool', '[true, false]'), ('string', '["a", "b"]')):
        for form in ('m', 'm is %s[]' % el, '(m)', '(m is %s[])' % el, '(m is %s[]) is %s[]' % (el, el)):
            R += [(fn('%s[] m = %s; const %s[] c = %s;' % (el, lit, el, form)), False),
                  (fn('int n = 2; %s m[n]; const %s[] c = %s;' % (el, el, form)), False),
                  (fn('const %s[] c = %s;' % (el, form), sig='%s[] m' % el), False),
                  (fn('const %s[] c = %s;' % (el, form), pre='%s[] m = %s;' % (el, lit)), False),
                  ('%s[] m = %s;\nconst %s[] c = %s;\nempty @is_you() { }' % (el, lit, el, form), False),
                  (fn('%s[] m = %s; %s[] c = %s;' % (el, lit, el, form)), True),
                  (fn('const %s[] k = %s; const %s[] c = %s;' % (el, lit, el, form.replace('m', 'k'))), True),
                  (fn('g(%s);' % form, pre='empty g(const %s[] a) { }' % el, sig='%s[] m' % el), True)]
        R += [(fn('const %s[] c = %s is %s[];' % (el, lit, el)), True)]
    R += [(fn('string s = "ab"; const byte[] c = s is byte[];'), True), (fn('const byte[] c = "ab" is byte[];'), True)]
    # folds the generators did not reach (found by measuring branch coverage of hidc under all checks)
    R += [(fn('byte b = true is byte; byte c = false is byte; int i = (true is byte) + 1; write(b is int); write(i);'), True),
          ('empty @is_you() { int a = 1 ?? 2; const int K = 3; int b = K ?? 4; bool t = true ?? false; byte y = \'a\' ?? \'b\'; write(a + b); write(t); write(y); }', True),
          ('empty @is_you() { sleep(1); debug(); progress(); write(1); }', True), ('empty @is_you() { sleep(true); }', False),
          ('empty @is_you() { debug(1); }', False), ('empty f() { return; }\nint g = 1;\nempty @is_you() { f(); }', True),
          ('return;\nempty @is_you() { }', False)]
    # constant sources with constant indices at and around the ends: always accepted (the bounds check is a run-time matter), in
    # value position, under a dead branch, and - for strings and const arrays - rejected as assignment targets
    for srcx, n in (('"abc"', 3), ('""', 0), ('CS', 2), ('CA', 3), ('[7, 8, 9]', 3), ('"a"', 1)):
        for i in (-1, 0, n - 1, n, n + 1, 255, 256):
            R.append(('const string CS = "hi"; const int[] CA = [1, 2, 3];\nempty @is_you() { if (CA.length > 7) { write(%s[%d] is int); } write(1); }' % (srcx, i), True))
        R.append(('const string CS = "hi"; const int[] CA = [1, 2, 3];\nempty @is_you() { write(%s[\'\\x01\'] is int); write(%s.length); }' % (srcx, srcx), True))
        if srcx != '[7, 8, 9]':
            R.append(('const string CS = "hi"; const int[] CA = [1, 2, 3];\nempty @is_you() { %s[%d] = 1; }' % (srcx, n), False))
    # compound assignment is typed as `x = x op e`: numeric targets only, and the result must fit the target
    cpre = 'int i = 1; byte b = 2; bool t = true; string s = "ab"; int[] ia = [1]; byte[] ba = [1]; bool[] ta = [true]; string[] sa = ["x"]; int j = 5; '
    for op in ('+=', '-=', '*=', '/=', '%='):
        for stmt, ok in (('i %s 2;', True), ('i %s b;', True), ('i %s j;', True), ('b %s 1;', True), ('b %s b;', True), ('b %s i;', False), ('b %s j + 1;', False),
                         ('t %s true;', False), ('t %s t;', False), ('t %s 1;', False), ('s %s "cd";', False), ('s %s s;', False), ('s %s 1;', False),
                         ('ia[0] %s 2;', True), ('ia[0] %s b;', True), ('ba[0] %s 1;', True), ('ba[0] %s i;', False), ('ta[0] %s true;', False), ('ta[0] %s ta[0];', False),
                         ('sa[0] %s "y";', False), ('i %s true;', False), ('i %s "s";', False), ('i %s ia;', False)):
            R.append((fn(cpre + (stmt % op)), ok))
    R += [(t, False) for t in frontend.empty_value_programs()]
    R += scope_rules()
    R += spec_rules()
    return R


def spec_rules():
    """`L ?? R`: L must be int, byte or bool, and R must be *implicitly* coercible to the type of L (no narrowing of a
    non-literal int, nothing to or from bool) - every argument form of ARGS on the right of every scalar on the left"""
    R = []
    pre = ('const int K = 7;\nempty @is_you() { int iv = 3; byte bv = 4; bool tv = true; const byte[] cb = "ab"; byte[] mb = [1]; '
           'const int[] ci = [1]; int[] mi = [2]; string sv = "s"; ')
    lefts = [('iv', 'int'), ('bv', 'byte'), ('tv', 'bool'), ('(iv + 1)', 'int'), ('(iv is byte)', 'byte'), ('(iv > 2)', 'bool')]
    for ltxt, lty in lefts:
        for arg in ARGS + [('tv', 'bool', False), ('sv', 'string', False), ('(iv > 1)', 'bool', False), ('300', 'int', True), ('(iv is bool)', 'bool', False)]:
            ok = coercible(arg, lty)
            R.append((pre + '%s x = %s ?? %s; }' % (lty, ltxt, arg[0]), ok))
    for ltxt in ('sv', 'mi', 'cb', '"s"', '[1, 2]'):
        R.append((pre + 'int x = (%s ?? %s).length; }' % (ltxt, ltxt), False))
    return R


def scope_rules():
    """names: a declaration is rejected iff a declaration of the same name made in the same function (parameter or local of an
    enclosing or the same block) is visible - whether or not a global of that name exists too; shadowing a global once is fine,
    sibling blocks are independent.  (global exists?) x (first declaration) x (second declaration)"""
    R = []
    firsts = [('param', 'int n', ''), ('local', '', 'int n = 1;'), ('none', '', '')]
    seconds = [('same block', 'byte n = 2;'), ('nested block', '{ byte n = 2; }'), ('if body', 'if (true) { byte n = 2; }'),
               ('else body', 'if (false) { } else { byte n = 2; }'), ('while body', 'while (false) { byte n = 2; }'),
               ('for init', 'for (byte n = 2; false; ) { }'), ('for body', 'for (;false;) { byte n = 2; }'),
               ('nested twice', '{ { byte n = 2; } }'), ('vla', 'int k = 2; byte n[k];'), ('const', 'const byte n = 2;')]
    for glob in (True, False):
        g = 'int n = 7;\n' if glob else ''
        for fk, sig, fdecl in firsts:
            for sk, sdecl in seconds:
                src = '%sempty f(%s) { %s %s }\nempty @is_you() { }' % (g, sig, fdecl, sdecl)
                R.append((src, fk == 'none'))
            # sibling blocks never clash; a use after the inner block sees the outer declaration again
            R.append(('%sempty f(%s) { %s { int m = 1; } { int m = 2; } }\nempty @is_you() { }' % (g, sig, fdecl), True))
        R.append(('%sempty f(int n, byte n) { }\nempty @is_you() { }' % g, False))
        R.append(('%sempty f(int n) { }\nempty h(int n) { int q = n; }\nempty @is_you() { }' % g, True))
        # inner block declares, then the enclosing block declares the same name after the inner block ended: allowed
        R.append(('%sempty f() { { int n = 1; } int n = 2; }\nempty @is_you() { }' % g, True))
        # try / undo bodies are blocks of the entry point
        R.append(('%sempty @is_you() { int n = 1; try { int n = 2; } undo { } }' % g, False))
        R.append(('%sempty @is_you() { try { int n = 2; } undo { int n = 3; } }' % g, True))
    return R


def array_mix_programs(rng, quick):
    """array literals with every mix and order of element kinds, in every consuming position"""
    texts = {}
    kinds = ['b', 'i', '1', "'c'", '(b + 1)', '(i + 1)', 'true', '"s"', 'K', '300']
    uses = ['int[] x = %s;', 'const int[] x = %s;', 'byte[] x = %s;', 'const byte[] x = %s;', 'f(%s);', 'g(%s);', 'int x = %s[0];',
            'int x = %s.length;', 'const byte[] x = %s is byte[];', 'bool x = %s is bool;', 'write(%s);', 'write(%s[i - 2]);']
    mixes = [list(m) for n in (1, 2, 3) for m in itertools.product(kinds, repeat=n)]
    if quick: mixes = rng.sample(mixes, 260)
    pre = ('int f(int[] a) { return 1; } bool f(const int[] a) { return true; } byte f(const byte[] a) { return 2; }\n'
           'int g(byte[] a) { return 1; } bool g(const byte[] a) { return true; } string g(const int[] a) { return "s"; }\n')
    for j, m in enumerate(mixes):
        for u in (uses if not quick else rng.sample(uses, 3)):
            texts['al%d_%d' % (j, uses.index(u))] = (pre + 'empty @is_you() { byte b = 1; int i = 2; const int K = 7; ' +
                                                    (u % ('[' + ', '.join(m) + ']')) + ' }')
    return texts


def run(ctx):
    texts = {}
    for i, t in enumerate(frontend.test_snippets()): texts['t%d' % i] = t
    for f in sorted(glob.glob(os.path.join(hidlib.REPO, 'examples', '*.hid'))): texts['ex_' + os.path.basename(f)] = open(f, encoding='utf-8').read()
    for i in range(ctx.budget(150, 4000)):
        src, _, _ = gen.gen_program(ctx.rng.getrandbits(40), tt=(i % 2 == 0))
        texts['g%d' % i] = src
        for j in range(3): texts['y%d_%d' % (i, j)] = frontend.type_mutate(ctx.rng, src)
    RL = rules()
    for i, (src, _) in enumerate(RL): texts['r%d' % i] = src
    texts.update(array_mix_programs(ctx.rng, ctx.quick))
    frontend.tc_suite(ctx, texts)
    frontend.tc_suite(ctx, {k: v for k, v in list(texts.items())[:ctx.budget(300, 3000)]}, lint=True)
    # documented rules: accept / reject
    wrong = []
    for src, ok in RL:
        r = frontend.py_frontend(src)
        if r.startswith('ok') != ok or (not ok and r.split(' ')[0] not in ('TypeCheckError', 'ParserError')): wrong.append((src, r[:40], ok))
    ctx.stats['rules'] = dict(programs=len(RL), disagreements=len(wrong))
    for src, r, ok in wrong[:3]:
        ctx.violations.append(dict(what='typing rule: program should be %s but the front end says %s' % ('accepted' if ok else 'rejected', r),
                                   kind='TYPERULE', source=src, args=[], config={}))
    ctx.say('typing rules: %d programs, %d disagreements' % (len(RL), len(wrong)))
    # overload resolution observed through the output
    jobs, want = [], {}
    k = 0
    sets = [list(p) for n in (1, 2, 3) for p in itertools.permutations(PARAMS, n)]
    if ctx.quick: sets = ctx.rng.sample(sets, 120)
    decls = ('byte bv = 7; int iv = 9; const int K = 4; const byte[] cb = [1]; byte[] mb = [2]; const int[] ci = [3]; int[] mi = [4];')
    for ov in sets:
        for arg in ARGS:
            e = expected_overload(ov, arg)
            # the caller is declared before, between or after the overloads (declaration order of the overloads is what the rule
            # refers to, wherever the call is written)
            fl = ['empty tag(%s p) { write(%d); }' % (p, i) for i, p in enumerate(ov)]
            fl.insert(k % (len(ov) + 1), 'empty @is_you() { %s tag(%s); write(\'.\'); }' % (decls, arg[0]))
            src = '\n'.join(fl)
            cid = 'o%d' % k; k += 1
            jobs.append((cid, src, [], 2, 200, False, 100000)); want[cid] = e
    # arguments with several coercible, non-exact candidates (array literals; int literals that fit a byte): every ordered
    # selection of candidate parameter types x every position of the caller among the overloads
    multi = [(('[1, 2]', 'lit', None), ['const int[]', 'int[]', 'const byte[]', 'byte[]']), (('5', 'int', True), ['int', 'byte']),
             (('(bv + 1)', 'int', True), ['int', 'byte'])]
    for arg, cands in multi:
        for n in (2, 3):
            for ov in itertools.permutations(cands, n):
                ov = list(ov)
                e = expected_overload(ov, arg)
                for pos in range(len(ov) + 1):
                    fl = ['empty tag(%s p) { write(%d); }' % (p, i) for i, p in enumerate(ov)]
                    fl.insert(pos, 'empty @is_you() { %s tag(%s); write(\'.\'); }' % (decls, arg[0]))
                    cid = 'm%d' % k; k += 1
                    jobs.append((cid, '\n'.join(fl), [], 2, 200, False, 100000)); want[cid] = e
    # several parameters (and overloads of different arity under one name): an overload matches exactly when *every* argument does,
    # and by coercion when *every* argument is coercible - not the last one only
    def expected_multi(ovs, args):
        for i, ps in enumerate(ovs):
            if len(ps) == len(args) and all(exact(a, q) for a, q in zip(args, ps)): return i
        for i, ps in enumerate(ovs):
            if len(ps) == len(args) and all(coercible(a, q) for a, q in zip(args, ps)): return i
        return None
    nm = 0
    tries = 0
    while nm < ctx.budget(400, 6000) and tries < 400000:
        tries += 1
        ovs = []
        for _ in range(ctx.rng.choice([2, 2, 3, 4])):
            ps = tuple(ctx.rng.choice(PARAMS) for _ in range(ctx.rng.choice([2, 2, 2, 3, 1])))
            if ps not in ovs: ovs.append(ps)
        args = [ctx.rng.choice(ARGS) for _ in range(ctx.rng.choice([2, 2, 3]))]
        e = expected_multi(ovs, args)
        # favour the interesting case: an earlier overload of the right arity that fits in some positions but not in all
        partial = any(len(ps) == len(args) and any(coercible(a, q) for a, q in zip(args, ps)) and not all(coercible(a, q) for a, q in zip(args, ps))
                      for ps in ovs[:e if e is not None else len(ovs)])
        if not partial and ctx.rng.random() < 0.8: continue
        if e is None and ctx.rng.random() < 0.98: continue
        fl = ['empty tag(%s) { write(%d); }' % (', '.join('%s p%d' % (q, j) for j, q in enumerate(ps)), i) for i, ps in enumerate(ovs)]
        fl.insert(k % (len(ovs) + 1), 'empty @is_you() { %s tag(%s); write(\'.\'); }' % (decls, ', '.join(a[0] for a in args)))
        cid = 'n%d' % k; k += 1; nm += 1
        jobs.append((cid, '\n'.join(fl), [], 2, 200, False, 100000)); want[cid] = e
    # ... and the typed trees of these calls against the typechecker model (the binding is in the tree)
    frontend.tc_suite(ctx, {j[0]: j[1] for j in jobs if j[0].startswith('n')})
    cases, rejected = suites.compile_cases(jobs)
    res = hidlib.run_parallel(cases)
    rej = dict(rejected)
    bad = agree = 0
    jm = {j[0]: j for j in jobs}
    for cid, e in want.items():
        if e is None:
            okk = cid in rej and rej[cid].startswith('TypeCheckError')
            got = rej.get(cid, 'accepted')
        else:
            r = res.get(cid)
            got = r['vm'].output.decode('latin1') if r else rej.get(cid, '?')
            okk = bool(r) and got == '%d.' % e and r['src'].output == r['vm'].output
        if okk: agree += 1
        else:
            bad += 1
            if bad <= 3:
                ctx.violations.append(dict(what='overload resolution: expected overload %s, observed %r' % (e, got), kind='OVERLOAD',
                                           source=jm[cid][1], args=[], config=dict(w=2, stack=200, unchecked=False)))
    ctx.stats['overloads'] = dict(calls=len(want), agree=agree, disagree=bad)
    ctx.say('overload resolution: %d calls, %d disagree with the documented rule' % (len(want), bad))
    ctx.stats['evaluations'] = ctx.stats['tc_correspondence']['texts'] + len(RL) + len(want)
    ctx.stats['distinct_nontrivial'] = ctx.stats['tc_correspondence']['texts'] - ctx.stats['tc_correspondence']['mismatches'] + agree
    ctx.samples.append(dict(rule_program=RL[6][0], expected_accept=RL[6][1]))


def replay(ctx, data):
    print(frontend.py_frontend(data['source'])[:300])
    return 1
