"""C08 - every scope exit releases exactly what the scope allocated"""
import suites, gen_special, hidlib
from props.common import TRUSTED_BASE, ASSUMPTIONS as _A

ID = 'C08'
LEAN_MODULES = ['HidVerif.Props.C08']
THEOREMS = ['HidVerif.Props.C08.' + n for n in ('call_restores_fp', 'static_pop_restores_ap', 'alloc_release_restores', 'stop_handler_restores',
                                                'core_scope_exit_restores_frame')]
TRUSTED = TRUSTED_BASE + ['Sphinx/Monitor.lean ap-drift monitor (ap must be the same at every arrival at a loop head within one activation)']
ASSUMPTIONS = _A + ['the compile-time bookkeeping of the generator (static vs dynamic pop, reset_ap targets) is validated, not proved']
RULE = ('scope-stress generator (literal/dynamic/passed arrays in nested scopes inside loops; fall-through, break, continue, return, try/undo, '
        'try/stop as exit routes); (a) the minimal non-overflowing stack size must not depend on the iteration count; (b) no ap-drift '
        'note from the monitor on these and on generated programs; (c) output equals the reference at the minimal stack size; '
        'non-trivial = program whose loop body allocates and whose minimal stack does not grow over 3 iteration counts')


def run(ctx):
    progs = gen_special.scope_programs(ctx.rng, ctx.budget(60, 800))
    # all residue classes the generated conditions test (mod 2, 3, 4) occur below 12; a leak grows with every iteration
    counts = (12, 24, 60)
    base = {}
    asts = {}
    srcs = {}
    for i, (src, _, _) in enumerate(progs):
        try:
            import dump_ast
            asm, ast_ = dump_ast.compile_both(src, w=2, s=200)
        except Exception as e:
            continue
        srcs[i] = src
        for n in counts:
            base['p%d_n%d' % (i, n)] = (asm, [str(n)])
        asts[i] = ast_
    smin = suites.min_stack(base, hi=300, fuel=1500000)
    leaks = 0
    ok = 0
    for i in srcs:
        ss = [smin.get('p%d_n%d' % (i, n)) for n in counts]
        if None in ss: continue
        if ss[0] < ss[1] < ss[2]:
            leaks += 1
            if leaks <= 3:
                ctx.violations.append(dict(what='stack footprint depends on the number of loop iterations: minimal stack %s for n=%s' % (ss, list(counts)),
                                           kind='FOOTPRINT', source=srcs[i], args=[str(counts[-1])], config=dict(w=2, stack=ss[0], unchecked=False)))
        else: ok += 1
    ctx.stats['footprint'] = dict(programs=len(srcs), iteration_counts=list(counts), independent=ok, dependent=leaks)
    ctx.say('footprint independent of iteration count: %d programs ok, %d dependent' % (ok, leaks))
    # monitored runs at the minimal stack: ap drift + output
    jobs = [('sc%d' % i, srcs[i], [str(counts[-1])], 2, 200, False, 1500000) for i in srcs]
    for w, n in [(2, ctx.budget(150, 3000)), (4, ctx.budget(40, 600))]:
        for tt in (False, True):
            j, _ = suites.gen_jobs(ctx, n // 2, tt=tt, w=w, faults=0.0, prefix='g%d%s' % (w, 't' if tt else 's'), fuel=300000)
            jobs += j
    # the verified core (C08.core_scope_exit_restores_frame is about Compiler/Core.lean): its tie to the real compiler, and the same
    # programs under the monitor
    jobs += suites.core_suite(ctx, ctx.budget(80, 1200), configs=((2, 100, False), (4, 30, False), (3, 40, False)), faults=0.0)
    cases, rej = suites.compile_cases(jobs)
    for c in cases: c['opts'] = c['opts'] + ['mon']
    res = hidlib.run_parallel(cases)
    drift = 0
    jm = {j[0]: j for j in jobs}
    agree = 0
    for cid, r in res.items():
        notes = [n for n in r['vm'].notes if n.startswith('apdrift')]
        k = suites.classify(r['vm'], r['src'])
        if notes or k in ('DIFF', 'FAULT', 'HALT'):
            drift += 1
            if drift <= 3:
                _, src, args, w, s, _, _ = jm[cid]
                ctx.violations.append(dict(what='ap differs between arrivals at a loop head' if notes else 'behaviour differs from the reference (%s)' % k,
                                           kind='APDRIFT' if notes else k, source=src, args=list(args),
                                           config=dict(w=w, stack=s, unchecked=False, monitor=True), notes=notes[:4],
                                           vm=suites.describe(r['vm']), reference=suites.describe(r['src'])))
        elif k == 'agree': agree += 1
    ctx.stats['monitored'] = dict(programs=len(cases), findings=drift, agree=agree)
    ctx.stats['evaluations'] = ctx.stats.get('evaluations', 0) + len(cases) + len(base)
    ctx.stats['distinct_nontrivial'] = ok + agree
    ctx.say('monitored runs: %d programs, %d findings' % (len(cases), drift))
    ctx.samples.append(dict(program=progs[0][0][:900]))


def replay(ctx, data):
    import dump_ast
    cfg = data['config']
    c = dump_ast.case('r', data['source'], data.get('args', []), w=cfg.get('w', 2), s=cfg.get('stack', 200))
    c['opts'].append('mon')
    r = hidlib.run_batch([c])['r']
    print('vm:', r['vm'], r['vm'].notes[:4]); print('reference:', r['src'])
    if data.get('kind') == 'FOOTPRINT':
        base = {'n%d' % n: (c['asm'], [str(n)]) for n in (12, 24, 60)}
        sm = suites.min_stack(base, hi=300, fuel=1500000)
        print('minimal stacks:', sm)
        v = [sm['n12'], sm['n24'], sm['n60']]
        return 1 if None not in v and v[0] < v[1] < v[2] else 0
    return 1 if r['vm'].notes or suites.classify(r['vm'], r['src']) == 'DIFF' else 0
