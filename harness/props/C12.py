"""C12 - lexing is exact and independent of layout"""
import glob, os
import suites, hidlib, frontend, gen
from props.common import TRUSTED_BASE, ASSUMPTIONS as _A

ID = 'C12'
LEAN_MODULES = ['HidVerif.Props.C12']
THEOREMS = ['HidVerif.Props.C12.' + n for n in ('int_literal_digits', 'int_literal_value', 'underscore_not_digit', 'keywords_classified',
                                                 'keyword_flavour_rejected', 'symbol_order_irrelevant', 'symbol_longest',
                                                 'symbols_classified', 'escapes_classified', 'lex_of_layout', 'layout_independence',
                                                 'span_exact', 'symbols_are_pieces', 'identifiers_are_pieces', 'decimal_literals_are_pieces',
                                                 'prefixed_literals_are_pieces', 'string_literals_are_pieces', 'char_literals_are_pieces',
                                                 'keywords_are_pieces', 'flavoured_names_are_pieces', 'escaped_string_literals_are_pieces',
                                                 'simple_and_hex_escapes_complete', 'touching_symbol', 'touching_symbol_next', 'touching_word',
                                                 'touching_decimal', 'touching_decimal_unicode', 'touching_hex', 'touching_oct_bin', 'touching_quoted', 'escaped_char_literals_are_pieces',
                                                 'unicode_escapes_complete')]
TRUSTED = TRUSTED_BASE + ['Hid/Lexer.lean: hand-written model of scanner.py/readers.py/lex (regex matchers written out for the pattern '
                          'strings pinned in Gen.lexPatterns); tied by the lex correspondence suite (tokens, spans, error positions)',
                          'Gen/LexTables.lean: keyword/symbol/escape tables and the Unicode classes \\d \\w \\s of the running Python']
ASSUMPTIONS = _A + ['layout independence (v) and span exactness (vi) are proved for the lexer MODEL on sources in layout form (token texts, with or without white space between them, '
                    'each reading as its token in front of the rest of its line; shown for all symbols, words, integer literals, strings and character literals with simple / hex / \\u{} escapes); completeness (every accepted text is of one of these forms) is '
                    'not proved; tokens outside the proved forms are covered by the re-layout searcher on the real lexer only',
                    "CPython's re, int() and str.encode are run, not modelled (their behaviour enters through the tables and the suite)"]
RULE = ('lex suite: generated texts (every token kind, Unicode identifiers/digits/spaces, comments, escapes, malformed literals, stray '
        'characters) through hidc.lexer and the Lean model, compared token by token with spans and error positions; re-layout: token '
        'sequences rendered with two random layouts must lex to the same tokens, each span must contain exactly the lexeme text, and '
        're-laid-out programs must compile to the same instructions; non-trivial = text with >= 3 tokens that agrees')


def relayout(rng, lexemes):
    out = ''
    for i, lx in enumerate(lexemes):
        k = rng.random()
        if i == 0 and k < 0.5: sep = ''
        elif k < 0.5: sep = ''.join(rng.choice(frontend.SPACES) for _ in range(rng.randint(1, 3)))
        elif k < 0.75: sep = rng.choice(['\n', '\n\n', ' \n\t', '\r\n'])
        else: sep = rng.choice([' // note\n', ' //\n', '\t// "quoted" \'c\' /* */\n'])
        out += sep + lx
    return out + rng.choice(['', '\n', ' ', ' // trailing', '\n\n'])


# independent reading of "every character and string escape denotes its documented value": the C meanings
SIMPLE_ESCAPES = {'a': 7, 'b': 8, 'f': 12, 'n': 10, 'r': 13, 't': 9, '0': 0, "'": 39, '"': 34, '\\': 92}


def escape_oracle(ctx):
    """every \\xHH (all 256 values, both hex cases), every simple escape, \\u{...} over the low planes and the UTF-8 length
    boundaries, each in five contexts: the token value must be exactly the denoted bytes"""
    cases = []          # (escape text, denoted bytes)
    for v in range(256):
        for f in ('%02x', '%02X'):
            cases.append(('\\x' + f % v, bytes([v])))
    for c, v in SIMPLE_ESCAPES.items(): cases.append(('\\' + c, bytes([v])))
    cps = list(range(0, 0x300)) + [0x7ff, 0x800, 0xfff, 0x1000, 0xd7ff, 0xe000, 0xffff, 0x10000, 0x1f30e, 0x10ffff]
    for cp in cps:
        cases.append(('\\u{%x}' % cp, chr(cp).encode('utf-8')))
        cases.append(('\\u{%04X}' % cp, chr(cp).encode('utf-8')))
    texts, bad, n = [], 0, 0
    for esc, val in cases:
        forms = [('"%s"' % esc, 'str', val), ('"A%sB"' % esc, 'str', b'A' + val + b'B'), ('"%s\\n"' % esc, 'str', val + b'\n'),
                 ('"%s%s"' % (esc, esc), 'str', val + val), ('"\\\\%s"' % esc, 'str', b'\\' + val)]
        if len(val) == 1: forms.append(("'%s'" % esc, 'chr', val))
        for text, kind, want in forms:
            n += 1
            texts.append(text)
            got = frontend.py_lex(text)
            exp = '0:0-0:%d %s %s' % (len(text), kind, want.hex() if kind == 'str' else str(want[0]))
            if len(got) != 2 or got[0] != exp:
                bad += 1
                if bad <= 3:
                    ctx.violations.append(dict(what='escape %s does not denote its documented value: expected %r, lexer gave %r' % (esc, exp, got[:2]),
                                               kind='ESCAPE', source=text, args=[], config={}))
    # code points that do not exist: a LexerError located inside the literal, whatever the magnitude
    for cp in [0x110000, 0x110001, 0xd800, 0xdfff, 0x7fffffff, 0x80000000, 0xffffffff, 0x100000000, 2 ** 63 - 1, 2 ** 63, 2 ** 64, 16 ** 30, 16 ** 400]:
        for text in ('"\\u{%x}"' % cp, "'\\u{%X}'" % cp, '"ab\\u{%x}cd"' % cp):
            n += 1
            texts.append(text)
            got = frontend.py_lex(text)
            if len(got) != 1 or not got[0].startswith('#error 0:') or not (0 <= int(got[0].split(':')[1]) <= len(text)):
                bad += 1
                if bad <= 3:
                    ctx.violations.append(dict(what='invalid code point escape must be a located LexerError, lexer gave %r' % got[:2], kind='ESCAPE', source=text, args=[], config={}))
    ctx.stats['escape_oracle'] = dict(cases=n, failures=bad)
    ctx.say('escape oracle: %d literal forms, %d failures' % (n, bad))
    return texts


def int_oracle(ctx):
    """independent reading of "decimal/hex/octal/binary integers with digit separators": groups of digits joined by single
    underscores denote the number spelled by the digits alone; one token spanning the whole literal, in three contexts"""
    rng = ctx.rng
    bases = [('', '0123456789', 10), ('0x', '0123456789abcdefABCDEF', 16), ('0o', '01234567', 8), ('0b', '01', 2)]
    cases = []
    for prefix, digs, base in bases:
        for groups in (1, 2, 3, 4, 6):
            for _ in range(ctx.budget(12, 120)):
                gs = [''.join(rng.choice(digs) for _ in range(rng.randint(1, 4))) for _ in range(groups)]
                cases.append((prefix + '_'.join(gs), int(''.join(gs), base)))
    cases += [('1_000', 1000), ('1_000_000', 1000000), ('1_2_3_4', 1234), ('0x_ff', None), ('0b1111_0000_1010', 0xf0a), ('0', 0), ('0_0', 0), ('00', 0), ('007', 7), ('09', 9), ('0_1', 1), ('0_59', 59), ('000_123', 123), ('0x0_1', 1), ('0o07', 7),
              ('0b0_0', 0), ('010', 10), ('0_10', 10)]
    texts, bad, n = [], 0, 0
    for text, val in cases:
        if val is None: continue
        for pre, post in (('', ''), ('x=', ';'), ('(', ')')):
            n += 1
            t = pre + text + post
            texts.append(t)
            got = frontend.py_lex(t)
            want = '0:%d-0:%d int %d' % (len(pre), len(pre) + len(text), val)
            if want not in got:
                bad += 1
                if bad <= 3:
                    ctx.violations.append(dict(what='integer literal %s does not denote its documented value %d as one token: lexer gave %r' % (text, val, got[:4]),
                                               kind='INTLIT', source=t, args=[], config={}))
    ctx.stats['int_oracle'] = dict(cases=n, failures=bad)
    ctx.say('integer literal oracle: %d literal forms, %d failures' % (n, bad))
    return texts


def run(ctx):
    esc_texts = escape_oracle(ctx)
    int_texts = int_oracle(ctx)
    extra = esc_texts if ctx.tier == 'thorough' else ctx.rng.sample(esc_texts, 1500)
    extra += int_texts if ctx.tier == 'thorough' else ctx.rng.sample(int_texts, min(len(int_texts), 300))
    extra += [open(f, encoding='utf-8').read() for f in sorted(glob.glob(os.path.join(hidlib.REPO, 'examples', '*.hid')))]
    extra += ['', '\n', ' ', '//', 'a//b\nc', '1__2', '0x', '0x_1', "''", "'", '"', '"\\', '@', '!', '!=', '! x', '@if', '09_', '0b12', '0o8',
              '١٢_٣', '"\\u{110000}"', '"\\u{D800}"', "'é'", "'\\xff'", 'x.length', 'a<=b', 'a< =b', 'a??b', 'a? ?b']
    frontend.lex_suite(ctx, ctx.budget(3000, 60000), extra)
    # the file path into the lexer (SourceCode.from_file, what the command line uses): the same tokens and spans as from_string,
    # whether or not the file ends with a line break, blanks or a comment
    fbad = 0
    ftexts = [t for t in extra if isinstance(t, str) and t and '\r' not in t and '\x00' not in t][-60:] + ['a', 'a b', 'x = 1;', 'empty f() {\n}', '// c', 'a // c', '"s"', 'a\n\nb']
    for t in ftexts:
        try:
            base = frontend.py_lex(t)
        except Exception:
            continue
        strip = lambda ls: [l for l in ls if not l.startswith('#eof')]
        for tail in ('', '\n', '\n\n', ' ', '\n '):
            try:
                got = frontend.py_lex_file(t, tail)
            except Exception as e:
                got = ['#internal %s' % type(e).__name__]
            if strip(got) != strip(base) and not any(l.startswith('#error') for l in base):
                fbad += 1
                if fbad <= 2:
                    ctx.violations.append(dict(what='a source read from a file lexes differently from the same text as a string (file tail %r): %r vs %r' % (tail, strip(got)[-2:], strip(base)[-2:]),
                                               kind='FROMFILE', source=t, file_tail=tail, args=[], config={}))
    ctx.stats['from_file'] = dict(texts=len(ftexts), tails=5, failures=fbad)
    ctx.say('from_file vs from_string: %d texts x 5 file tails, %d failures' % (len(ftexts), fbad))
    # re-layout invariance on the implementation
    from hidc.lexer import lex, SourceCode
    bad = 0
    n = ctx.budget(600, 15000)
    nontrivial = 0
    for i in range(n):
        lexemes = []
        for _ in range(ctx.rng.randint(1, 12)):
            lx = frontend.gen_lexeme(ctx.rng)
            alone = frontend.py_lex(lx)
            # keep lexemes that are exactly one token on their own (malformed ones are the lex suite's business)
            if len(alone) != 2 or not alone[0].startswith('0:0-0:%d ' % len(lx)) or not alone[1].startswith('#eof'): continue
            lexemes.append(lx)
        if not lexemes: continue
        t1, t2 = relayout(ctx.rng, lexemes), relayout(ctx.rng, lexemes)
        a, b = frontend.py_lex(t1), frontend.py_lex(t2)
        strip = lambda ls: [l.split(' ', 1)[1] if not l.startswith('#') else l.split(' ')[0] for l in ls]
        if strip(a) != strip(b):
            bad += 1
            if bad <= 2:
                ctx.violations.append(dict(what='token stream depends on layout', kind='LAYOUT', source=t1, other_layout=t2, args=[], config={},
                                           tokens_a=strip(a)[:12], tokens_b=strip(b)[:12]))
        elif len(a) >= 4: nontrivial += 1
        # spans contain exactly the lexeme text
        lines = t1.split('\n')
        k = 0
        for l in a:
            if l.startswith('#'): break
            sp = l.split(' ')[0]
            (l0, c0), (l1, c1) = [tuple(map(int, x.split(':'))) for x in sp.split('-')]
            inside = l0 < len(lines) and l1 < len(lines)      # a span outside the text is a span that does not contain the token
            if not inside or l0 != l1 or k >= len(lexemes) or lines[l0][c0:c1] != lexemes[k]:
                # adjacent lexemes may legitimately fuse (e.g. `=` `=`) - only report when the text differs from every lexeme join
                joined = lines[l0][c0:c1] if (inside and l0 == l1) else None
                if joined is None or not any(joined == ''.join(lexemes[k:j]) for j in range(k + 1, min(len(lexemes), k + 4) + 1)):
                    bad += 1
                    if bad <= 2:
                        ctx.violations.append(dict(what='span does not contain the token text', kind='SPAN', source=t1, args=[], config={}, span=sp))
                break
            k += 1
    ctx.stats['relayout'] = dict(pairs=n, failures=bad)
    # re-laid-out programs compile to the same instructions
    same = diff = 0
    for i in range(ctx.budget(40, 600)):
        src, args, _ = gen.gen_program(ctx.rng.getrandbits(40), tt=(i % 2 == 0))
        try:
            a = hidlib.compile_src(src)
            toks = [l.split(' ')[0] for l in frontend.py_lex(src) if not l.startswith('#')]
            lines = src.split('\n')
            lexemes = []
            for sp in toks:
                (l0, c0), (l1, c1) = [tuple(map(int, x.split(':'))) for x in sp.split('-')]
                lexemes.append(lines[l0][c0:c1])
            b = hidlib.compile_src(relayout(ctx.rng, lexemes))
        except Exception as e:
            continue
        code = lambda ls: [l.strip() for l in ls if not l.strip().startswith(b';')]
        if code(a) == code(b): same += 1
        else:
            diff += 1
            if diff <= 2:
                ctx.violations.append(dict(what='re-laid-out program compiles to different instructions', kind='LAYOUT-CODE', source=src, args=[], config={}))
    ctx.stats['relayout_programs'] = dict(same=same, different=diff)
    ctx.stats['evaluations'] = ctx.stats['lex_correspondence']['texts'] + n + same + diff
    ctx.stats['distinct_nontrivial'] = nontrivial + same
    ctx.say('re-layout: %d pairs, %d failures; programs same=%d different=%d' % (n, bad, same, diff))
    ctx.samples.append(dict(text=frontend.gen_lex_text(ctx.rng)))


def replay(ctx, data):
    print(frontend.py_lex(data['source']))
    if 'other_layout' in data: print(frontend.py_lex(data['other_layout']))
    return 1
