"""C05 - runtime faults are detected exactly, first, and terminally"""
import suites, gen_special, hidlib
from props.common import TRUSTED_BASE, ASSUMPTIONS as _A

ID = 'C05'
LEAN_MODULES = ['HidVerif.Props.C05']
THEOREMS = ['HidVerif.Props.C05.' + n for n in ('core_division_by_zero', 'div_guard_exact', 'index_guard_exact', 'length_guard_exact',
                                                 'length_guard_arith', 'length_guard_tight', 'error_stub_trace')] + \
           ['HidVerif.Sphinx.guard_pass', 'HidVerif.Sphinx.guard_fail', 'HidVerif.Sphinx.index_guard_arith']
TRUSTED = TRUSTED_BASE + ['Compiler/Templates.lean: hand-written guard templates, tied to the generator by the conformance check '
                          '(hidmodel conform) on every compiled program']
ASSUMPTIONS = _A + ['for division by zero in the core sub-language the whole-program statement is PROVED (core_division_by_zero, tied by the core correspondence suite); otherwise placement of the guards before every faulting operation in whole programs is validated by fault injection, '
                    'not proved']
RULE = ('fault-injection generator: division/modulo x position (value, branch, compound on local/global/element, in call/try/loop), '
        'indexing x element type x storage class x access form, string indexing, dynamic lengths x element type, nonlocal preempt; '
        'operand values from boundary pools via the command line; VM vs reference machine on flags and output; non-trivial = agreeing '
        'run, counted per fault kind in stats')


def run(ctx):
    suites.asmcheck(ctx)
    jobs = suites.corpus_jobs()
    kinds = {}
    for w in (2, 3, 4, 8):
        n = ctx.budget(350 if w == 2 else 120, 4000 if w == 2 else 1500)
        for i, (src, args, tag) in enumerate(gen_special.fault_programs(ctx.rng, w, n)):
            jobs.append(('f%d_%d' % (w, i), src, args, w, 200, False, 300000))
            kinds[tag] = kinds.get(tag, 0) + 1
    # faults inside random programs as well
    j, _ = suites.gen_jobs(ctx, ctx.budget(200, 3000), tt=True, faults=0.3, prefix='rf')
    jobs += j
    ctx.stats['forms'] = kinds
    jobs += suites.core_suite(ctx, ctx.budget(160, 2500), configs=((2, 100, False), (3, 40, False), (4, 30, False), (8, 12, False)), faults=0.5)
    # stack sizes at and beyond the compiler's own limit: the guards of byte arrays (which have no separate length guard) rely on the
    # free stack staying below half the address space - a configuration the compiler accepts must keep every fault detected
    big = []
    for el, val in (('byte', '7'), ('int', '7'), ('bool', 'true')):
        src = ('empty @is_you(int n) { write("pre "); int canary = 1234; %s buf[n]; write("len "); write(buf.length); write(canary); write(" post"); }' % el)
        for w, sizes in ((2, (16000, 16378, 16379, 16400, 20000, 30000, 32750)), (3, (2796000, 2796197, 2796198, 2800000, 4000000))):
            H = 1 << (8 * w - 1)
            for sz in sizes:
                for n in (-H, -H + 1, -H + 2768, -(H * 7 // 8), -(H * 3 // 4), -(H // 2), -H // 4, -1, H - 1, 3):
                    big.append(('bigstack_%s_w%d_s%d_%d' % (el, w, sz, len(big)), src, [str(n)], w, sz, False, 300000))
    if ctx.quick: big = [b for b in big if b[3] == 2]
    suites.differential(ctx, big, None, label='huge-stacks')
    ctx.stats['huge_stack_configurations'] = len(big)
    # a VLA declared after stack-allocated array literals of the same block, with little stack left: the remaining-space guard must
    # account for what the block has already taken - impossible lengths fault at every stack size, possible ones exactly when they fit
    tightv = []
    for w in (2, 3):
        for el in ('byte', 'int', 'bool'):
            for nl in (1, 3, 6, 9):
                lit = ', '.join(['n'] + [str(k) for k in range(2, nl + 1)])
                src = ('empty @is_you(int n) { write("pre "); int[] lit = [%s]; %s v[n]; write(v.length); write(lit[0]); write(" post"); }' % (lit, el))
                src2 = ('empty @is_you(int n) { write("pre "); int[] lit = [%s]; { int[] more = [n, n]; %s v[n]; write(v.length); write(more[1]); } write(lit[0]); write(" post"); }' % (lit, el))
                H = 1 << (8 * w - 1)
                for st in ((10, 14, 18, 22, 26, 30, 40, 60) if not ctx.quick else (12, 18, 24, 30, 44)):
                    for n in (-1, -8, -100, H - 1, H // 2 + 7, 3000, 1, 4, 9, 17, 33):
                        tightv.append(('tightvla_%s_w%d_l%d_s%d_%d' % (el, w, nl, st, len(tightv)), src if len(tightv) % 3 else src2, [str(n)], w, st, False, 200000))
    if ctx.quick: tightv = [t for i, t in enumerate(tightv) if i % 2 == 0]
    tcases, _ = suites.compile_cases(tightv)
    tres = hidlib.run_parallel(tcases)
    tm = {t[0]: t for t in tightv}
    judged = tbad = 0
    for c in tcases:
        r = tres.get(c['id'], {})
        if 'vm' not in r or 'src' not in r: continue
        vm, ref = r['vm'], r['src']
        # the entry check of the function may refuse the whole frame first (no output at all): nothing to judge then
        if not vm.output.startswith(b'pre ') or 'stack_overflow' not in ref.flags: continue
        judged += 1
        if vm.output != ref.output or vm.flags != ref.flags:
            tbad += 1
            if tbad <= 3:
                t = tm[c['id']]
                ctx.violations.append(dict(what='a variable-length array of impossible length declared after array literals of the same block is not refused '
                                           'when the stack is nearly full', kind='DIFF', source=t[1], args=t[2], config=dict(w=t[3], stack=t[4], unchecked=False),
                                           vm=suites.describe(vm), reference=suites.describe(ref)))
    ctx.stats['vla_after_literals_tight'] = dict(runs=len(tcases), judged=judged, findings=tbad)
    ctx.say('vla after literals at tight stacks: %d runs, %d judged (entry check passed, length impossible), %d findings' % (len(tcases), judged, tbad))
    suites.conformance(ctx, jobs[:ctx.budget(400, 3000)])
    tally, bad, res = suites.differential(ctx, jobs, None, label='fault-injection', must_compile_prefixes=('f2_', 'f3_', 'f4_', 'f8_'))
    flags = {}
    for r in res.values():
        if 'vm' in r:
            k = r['vm'].flags[0] if r['vm'].flags else 'none'
            flags[k] = flags.get(k, 0) + 1
    ctx.stats['first_flag_distribution'] = flags
    ctx.samples.append(dict(program=jobs[-1][1][:800], args=jobs[-1][2]))


def replay(ctx, data):
    return suites.replay_case(ctx, data)
