"""C04 - checked builds are memory safe, even with the stack exactly full"""
import suites, gen_special
from props.common import TRUSTED_BASE, ASSUMPTIONS as _A

ID = 'C04'
LEAN_MODULES = ['HidVerif.Props.C04']
THEOREMS = ['HidVerif.Props.C04.' + n for n in ('core_stack_check_exact', 'core_call_stack_check', 'write_int_buffer_sufficient', 'entry_guard_exact', 'gap_arith', 'index_guard_arith', 'length_guard_arith',
                                                 'write_int_footprint')]
TRUSTED = TRUSTED_BASE + ['Sphinx/Monitor.lean: the region monitor (frame accesses in [ap,fp), element accesses in the array region or '
                          'globals, library stores in the free gap, registers written only as destinations) - an observer, no theorem '
                          'depends on it', 'Compiler/Templates.lean guard templates + conformance check']
ASSUMPTIONS = _A + ['the static accounting (Tracker maxima cover every frame slot and array literal) is validated by the monitor at the '
                    'minimal succeeding stack size and one word below, not proved for all programs']
RULE = ('programs of the sequential/time-travel/scope/fault generators; for each the minimal non-overflowing stack size S is found by '
        'binary search on the VM, then the program runs with the access monitor at S+8, S+1, S, S-1: no region note, no machine fault, '
        'output equal to the reference at >= S, stack_overflow with a prefix of the reference output at S-1; non-trivial = monitored '
        'run without finding')


def run(ctx):
    suites.asmcheck(ctx)
    jobs = suites.corpus_jobs()
    for w, n in [(2, ctx.budget(120, 2500)), (3, ctx.budget(30, 600)), (4, ctx.budget(30, 600)), (8, ctx.budget(20, 600))]:
        j, _ = suites.gen_jobs(ctx, n, tt=False, w=w, faults=0.0, prefix='s%d_' % w, fuel=200000)
        jobs += j
    suites.conformance(ctx, jobs[:300])
    # lengths of variable-length arrays whose size in bytes wraps around the word: the run must end in stack_overflow, not carry on
    # with an array that owns no memory
    wrap = []
    for w in (3, 4, 8):
        wrap += [('lw%d_%d' % (w, i), src, a, w, 64, False, 200000)
                 for i, (src, a, tag) in enumerate(gen_special.fault_programs(ctx.rng, w, 1)) if tag.startswith('two_lengthwrap')]
    suites.differential(ctx, wrap, None, label='length-wrap')
    seq = [j for j in jobs]
    seq += suites.core_suite(ctx, ctx.budget(120, 2000), configs=((2, 0, False), (2, 3, False), (2, 9, False), (3, 5, False), (4, 7, False), (8, 4, False)), faults=0.0)
    suites.tight_stack(ctx, seq, label='tight-stack-sequential')
    tt = []
    for w, n in [(2, ctx.budget(80, 2000)), (4, ctx.budget(20, 500))]:
        j, _ = suites.gen_jobs(ctx, n, tt=True, w=w, faults=0.0, prefix='t%d_' % w, fuel=200000)
        tt += j
    sc = [('sc%d' % i, s, [str(ctx.rng.choice([3, 7, 12]))], 2, 200, False, 1500000)
          for i, (s, a, t) in enumerate(gen_special.scope_programs(ctx.rng, ctx.budget(25, 400)))]
    suites.tight_stack(ctx, tt + sc, label='tight-stack-timetravel', timetravel=True)


def replay(ctx, data):
    import hidlib, dump_ast
    cfg = data['config']
    c = dump_ast.case('r', data['source'], data.get('args', []), w=cfg.get('w', 2), s=cfg.get('stack', 500))
    c['opts'].append('mon')
    r = hidlib.run_batch([c])['r']
    print('vm       :', r['vm'], r['vm'].notes[:5]); print('reference:', r['src'])
    bad = r['vm'].notes or r['vm'].outcome != 'terminal' or (suites.classify(r['vm'], r['src']) == 'DIFF')
    return 1 if bad else 0
