"""C04 - checked builds are memory safe, even with the stack exactly full"""
import suites, gen_special
from props.common import TRUSTED_BASE, ASSUMPTIONS as _A

ID = 'C04'
LEAN_MODULES = ['HidVerif.Props.C04']
THEOREMS = ['HidVerif.Props.C04.' + n for n in ('core_stack_check_exact', 'core_call_stack_check', 'write_int_buffer_sufficient', 'entry_guard_exact', 'gap_arith', 'index_guard_arith', 'length_guard_arith',
                                                 'write_int_footprint')]
TRUSTED = TRUSTED_BASE + ['Sphinx/Monitor.lean: the region monitor (frame accesses in [ap,fp), element accesses in the array region or '
                          'globals, library stores in the free gap, registers written only as destinations) - an observer, no theorem '
                          'depends on it', 'Compiler/Templates.lean guard templates + conformance check']
ASSUMPTIONS = _A + ['the static accounting (Tracker maxima cover every frame slot and array literal) is validated by the monitor at the '
                    'minimal succeeding stack size and one word below, not proved for all programs']
RULE = ('programs of the sequential/time-travel/scope/fault generators; for each the minimal non-overflowing stack size S is found by '
        'binary search on the VM, then the program runs with the access monitor at S+8, S+1, S, S-1: no region note, no machine fault, '
        'output equal to the reference at >= S, stack_overflow with a prefix of the reference output at S-1; non-trivial = monitored '
        'run without finding')


def run(ctx):
    suites.asmcheck(ctx)
    jobs = suites.corpus_jobs()
    for w, n in [(2, ctx.budget(120, 2500)), (3, ctx.budget(30, 600)), (4, ctx.budget(30, 600)), (8, ctx.budget(20, 600))]:
        j, _ = suites.gen_jobs(ctx, n, tt=False, w=w, faults=0.0, prefix='s%d_' % w, fuel=200000)
        jobs += j
    suites.conformance(ctx, jobs[:300])
    # lengths of variable-length arrays whose size in bytes wraps around the word: the run must end in stack_overflow, not carry on
    # with an array that owns no memory
    wrap = []
    for w in (2, 3, 4, 8):
        wrap += [('lw%d_%d' % (w, i), src, a, w, 64, False, 200000)
                 for i, (src, a, tag) in enumerate(gen_special.fault_programs(ctx.rng, w, 1)) if tag.startswith('two_lengthwrap')]
    suites.differential(ctx, wrap, None, label='length-wrap')
    # global arrays have no run-time length guard: a length the unsigned index check cannot protect (more than the largest signed
    # word, in elements) must be refused at compile time - if it compiles, negative indices reach foreign memory
    import dump_ast
    big = []
    for w in (2, 3):
        H = 1 << (8 * w - 1)
        for el in ('bool', 'byte', 'int', 'string'):
            for n in (H, H + 7, H + 8000, 2 * H - 1):
                if w == 3 and el != 'bool': continue      # would need megabytes of state
                src = ('int total = 0;\n%s big[%d];\nempty @is_you(int i) { big[i] = %s; write(total); write(big[3] %s); }'
                       % (el, n, {'bool': 'true', 'byte': '9', 'int': '9', 'string': '"s"'}[el], {'bool': '', 'byte': ' is int', 'int': '', 'string': ''}[el]))
                try:
                    dump_ast.case('big', src, ['-%d' % (H - 752)], w=w, s=64)
                    big.append((src, w, n))
                except Exception as e:
                    if type(e).__name__ not in ('CodeGenError', 'TypeCheckError'):
                        ctx.violations.append(dict(what='internal exception for an oversized global array: %s' % type(e).__name__, kind='INTERNAL', source=src, args=[], config=dict(w=w)))
    ctx.stats['oversized_global_arrays'] = dict(accepted=len(big))
    for src, w, n in big[:3]:
        ctx.violations.append(dict(what='global array of %d elements accepted at %d-bit words: the unsigned index check cannot reject negative indices' % (n, 8 * w),
                                   kind='GLOBAL-LENGTH', source=src, args=['-%d' % ((1 << (8 * w - 1)) - 752)], config=dict(w=w, stack=64, unchecked=False)))
    seq = [j for j in jobs]
    seq += suites.core_suite(ctx, ctx.budget(120, 2000), configs=((2, 0, False), (2, 3, False), (2, 9, False), (3, 5, False), (4, 7, False), (8, 4, False)), faults=0.0)
    # stores whose index or right-hand side is changed by the other (evaluation-order family of C01): under the access monitor a
    # store that is checked against one index and performed at another shows as an access outside the array
    seq += [('ord%d' % i, src, a, 2, 200, False, 300000) for i, (src, a, tag) in enumerate(gen_special.order_programs(ctx.rng))
            if tag.startswith(('compound_elem', 'int_', 'byte_'))]
    # strings read as byte arrays (implicitly at a `const byte[]` parameter, explicitly with `is byte[]`): the bytes live in the const
    # section - read through a state-section access they would be the registers and the stack
    shw = ('empty show(const byte[] a) { for (int i = 0; i < a.length; i += 1) { write(a[i]); } write(\'|\'); write(a); write(a.length); }\n'
           'int sum(const byte[] a) { int t = 0; for (int i = 0; i < a.length; i += 1) { t += a[i]; } return t; }\n')
    sb = ['show("Hi!");', 'string s = "hello, world"; show(s); write(sum(s));', 'string s = "abc"; write(s is byte[]); write((s is byte[])[1]); write((s is byte[]).length);',
          'const byte[] b = "xyz" is byte[]; write(b[1]); write(b); show(b);', 'string[] ss = ["one", "three"]; show(ss[1]); write(sum(ss[0]));',
          'write(sum("\\x01\\x02\\xff")); show("");']
    for k, body in enumerate(sb):
        for w in (2, 4):
            seq.append(('strbytes%d_w%d' % (k, w), shw + 'string gs = "global";\nempty @is_you(string arg) { %s show(gs); show(arg); }' % body, ['argument'], w, 200, False, 300000))
    suites.tight_stack(ctx, seq, label='tight-stack-sequential')
    tt = []
    for w, n in [(2, ctx.budget(80, 2000)), (4, ctx.budget(20, 500))]:
        j, _ = suites.gen_jobs(ctx, n, tt=True, w=w, faults=0.0, prefix='t%d_' % w, fuel=200000)
        tt += j
    sc = [('sc%d' % i, s, [str(ctx.rng.choice([3, 7, 12]))], 2, 200, False, 1500000)
          for i, (s, a, t) in enumerate(gen_special.scope_programs(ctx.rng, ctx.budget(25, 400)))]
    suites.tight_stack(ctx, tt + sc, label='tight-stack-timetravel', timetravel=True)


def replay(ctx, data):
    import hidlib, dump_ast
    cfg = data['config']
    c = dump_ast.case('r', data['source'], data.get('args', []), w=cfg.get('w', 2), s=cfg.get('stack', 500))
    c['opts'].append('mon')
    r = hidlib.run_batch([c])['r']
    print('vm       :', r['vm'], r['vm'].notes[:5]); print('reference:', r['src'])
    bad = r['vm'].notes or r['vm'].outcome != 'terminal' or (suites.classify(r['vm'], r['src']) == 'DIFF')
    return 1 if bad else 0
