TRUSTED_BASE = [
    "Lean 4.33 kernel; axioms limited to propext, Classical.choice, Quot.sound (audited by #print axioms each run)",
    "Sphinx ISA model HidVerif/Sphinx/Isa.lean written from assumptions A1-A8 (DESIGN 3.4); the real emulator is unavailable offline; "
    "cross-validated by the 52 upstream tests/test_codegen.py outputs recorded from the real emulator",
    "Lean assembler/loader HidVerif/Sphinx/Asm.lean for the text hidc emits (assumed assembler syntax, A8)",
    "translator tools/extract.py (transcribes stdlib.py, tables and small functions into Gen/*.lean); "
    "double-derived at w in {2,3,4,8} by hidmodel asmcheck",
    "reference semantics HidVerif/Hid/Machine.lean as a formalisation of README.rst (modelling decisions listed in its header)",
    "differential harness (generators in harness/gen.py): validation and failing-input search only, not proof",
]
ASSUMPTIONS = [
    "A1-A8 about the Sphinx ISA (little-endian words mod 2^n, Turing jump = least fixed point of halting, signed/unsigned "
    "conditional halts, floor div/mod, zero-extending byte loads, faults distinct from halt)",
    "the executable driver PSys.run is trusted as an interpreter of Halts/CStep until its soundness proof lands",
    "CPython and the hidc front end are run, not modelled, when producing assembly and typed trees",
]
