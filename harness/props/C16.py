"""C16 - control never runs off the end of a function"""
import glob, os
import suites, frontend, gen, hidlib
from props.common import TRUSTED_BASE, ASSUMPTIONS as _A

ID = 'C16'
LEAN_MODULES = ['HidVerif.Props.C16']
THEOREMS = ['HidVerif.Props.C16.analysis_sound', 'HidVerif.Props.C16.dropped_is_unreachable', 'HidVerif.Props.C16.exits_reflected',
            'HidVerif.Hid.Exit.exits_sound', 'HidVerif.Hid.Exit.modes_lt', 'HidVerif.Props.C16.accepted_function_never_falls_off',
            'HidVerif.Hid.TC.tcStmt_link', 'HidVerif.Hid.TC.step_link', 'HidVerif.Hid.TC.tcFunc_link',
            'HidVerif.Props.C16.core_entry_never_falls_off', 'HidVerif.Props.C16.core_activation_returns_to_caller']
TRUSTED = TRUSTED_BASE + ['Hid/ExitModes.lean: model of the exit-mode bookkeeping of blocks.py and an abstract control-flow semantics; tied by '
                          'the exit suite (every block mode of every accepted function recomputed)',
                          'Sphinx/Monitor.lean fall-through monitor (a function entry must be reached by a taken jump)']
ASSUMPTIONS = _A + ['(d) the machine-level statement (pc never crosses a function boundary by falling through) is validated by the monitor on '
                    'generated programs, not proved']
RULE = ('control-shape generator for function bodies (loops incl. constant-true, break/continue, if/else, try/undo/stop, preempt, defeat and '
        'terminal calls, returns in every position); (1) exit suite: model modes == recorded modes for every block; (2) accept/reject '
        '(missing return) vs the model (tc suite); (3) every accepted program runs on the VM with the fall-through monitor and agrees '
        'with the reference machine, which faults when control falls off a function; non-trivial = function body with >= 2 nested '
        'control constructs whose modes agree')


def shape(rng, d, ctx):
    """a statement list as text; ctx: dict(flavor, loop, tryb)"""
    out = []
    for _ in range(rng.randint(1, 3)):
        r = rng.random()
        if d <= 0 or r < 0.25:
            out.append(rng.choice(['write(1);', 'x += 1;', 'write(x);']))
        elif r < 0.37: out.append('return%s;' % (' x' if ctx['ret'] else ''))
        elif r < 0.45 and ctx['loop']: out.append(rng.choice(['break;', 'continue;']))
        elif r < 0.55: out.append('if (%s) { %s } else { %s }' % (rng.choice(['x > 1', 'true', 'false', 'x == x']), shape(rng, d - 1, ctx), shape(rng, d - 1, ctx)))
        elif r < 0.62: out.append('if (x > 2) { %s }' % shape(rng, d - 1, ctx))
        elif r < 0.74:
            cond = rng.choice(['true', 'x < 9', '1 == 1', 'false'])
            out.append('while (%s) { x += 1; %s }' % (cond, shape(rng, d - 1, dict(ctx, loop=True))))
        elif r < 0.80: out.append('for (int i%d = 0; %s; i%d += 1) { %s }' % (d, rng.choice(['', 'i%d < 3' % d]), d, shape(rng, d - 1, dict(ctx, loop=True))))
        elif r < 0.88 and ctx['flavor'] == 'you' and not ctx['tryb']:
            out.append('try { %s %s } %s { %s }' % (shape(rng, d - 1, dict(ctx, tryb=True)), rng.choice(['!is_defeat();', '!truth_is_defeat(x > 3);', '']),
                                                   rng.choice(['undo', 'stop']), shape(rng, d - 1, ctx)))
        elif r < 0.93 and (ctx['tryb'] or ctx['flavor'] == 'defeat'):
            out.append(rng.choice(['!is_defeat();', 'preempt { %s }' % shape(rng, d - 1, ctx), '!truth_is_defeat(x > 5);', '!truth_is_defeat(false);',
                                   '!truth_is_defeat(1 > 2);', '!truth_is_defeat(true);', '!truth_is_defeat(not true);']))
        elif r < 0.95: out.append(rng.choice(['all_is_win();', 'all_is_broken();']))
        elif r < 0.99:
            # user functions that share a *name* with a terminal / defeat builtin but not its flavour: ordinary calls that return
            c = ['is_defeat();', 'truth_is_defeat(x > 0);', 'all_is_win(x);', 'all_is_broken("m", false);', 'all_is_broken(x > 1);']
            if ctx['flavor'] == 'you' and not ctx['tryb']: c += ['@all_is_win();', '@all_is_broken();', '@is_defeat();', '@truth_is_defeat(true);']
            if ctx['tryb'] or ctx['flavor'] == 'defeat': c += ['!all_is_win();', '!all_is_broken();']
            out.append(rng.choice(c))
        else: out.append('{ %s }' % shape(rng, d - 1, ctx))
    return ' '.join(out)


def program(rng):
    fl = rng.choice(['ordinary', 'you', 'defeat'])
    ret = rng.random() < 0.5
    name = {'ordinary': 'f', 'you': '@f', 'defeat': '!f'}[fl]
    body = shape(rng, 3, dict(flavor=fl, loop=False, tryb=False, ret=ret))
    call = {'ordinary': 'f(2);', 'you': '@f(2);', 'defeat': 'try { !f(2); } undo { write("u"); }'}[fl]
    look = ('empty @all_is_win() { write(\'w\'); }\nempty !all_is_win() { write(\'W\'); }\nempty @all_is_broken() { write(\'b\'); }\n'
            'empty !all_is_broken() { write(\'B\'); }\nempty is_defeat() { write(\'d\'); }\nempty @is_defeat() { write(\'D\'); }\n'
            'empty truth_is_defeat(bool t) { write(t); }\nempty @truth_is_defeat(bool t) { write(t); }\n'
            # ordinary overloads of the terminal builtins that take parameters - and return
            'empty all_is_win(int q) { write(\'q\'); }\nempty all_is_broken(string m, bool f) { write(m); }\nempty all_is_broken(bool f) { write(f); }\n')
    return look + '%s %s(int x) { %s }\nempty @is_you() { %s write("end"); }' % ('int' if ret else 'empty', name, body, call)


def run(ctx):
    texts = {}
    for f in sorted(glob.glob(os.path.join(hidlib.REPO, 'examples', '*.hid'))): texts['ex_' + os.path.basename(f)] = open(f, encoding='utf-8').read()
    for i, t in enumerate(frontend.test_snippets()): texts['t%d' % i] = t
    for i in range(ctx.budget(700, 15000)): texts['s%d' % i] = program(ctx.rng)
    for i in range(ctx.budget(100, 2000)): texts['g%d' % i] = gen.gen_program(ctx.rng.getrandbits(40), tt=True)[0]
    # loops whose body never reaches its bottom except through `continue` (which the analysis does not record): the back edge must
    # still be there.  loop kind x where the continue sits x how the body ends; the continue executes a few times at run time
    k = 0
    for head in ('while (true)', 'for (;;)', 'while (x < 100)', 'for (int q = 0; q < 50; q += 1)'):
        for cont in ('if (x < 5) { continue; }', 'if (x >= 5) { } else { continue; }', '{ if (x < 5) { continue; } }', 'if (x < 3) { continue; } if (x < 5) { { continue; } }'):
            for tail, ret in (('return x;', True), ('return;', False), ('write(x); all_is_win();', False), ('if (x > 6) { return %s } else { return %s }', None)):
                for r in ((True, False) if ret is None else (ret,)):
                    t = tail % (('x;', '7;') if r else (';', ';')) if ret is None else tail
                    body = '%s { x += 1; %s %s }' % (head, cont, t)
                    after = '' if head in ('while (true)', 'for (;;)') else (' return 0;' if r else ' return;')
                    texts['sk%d' % k] = ('%s f(int x) { %s%s }\nempty other() { write("OTHER"); }\nempty @is_you() { %s write("end"); }'
                                         % ('int' if r else 'empty', body, after, 'write(f(2));' if r else 'f(2);'))
                    k += 1
    frontend.exit_suite(ctx, texts)
    frontend.tc_suite(ctx, {k: v for k, v in texts.items() if k.startswith('s')})    # ('s…' shapes and 'sk…' continue loops)
    frontend.tc_suite(ctx, {k: v for k, v in list(texts.items())[:300]}, lint=True)
    # run the accepted shapes with the fall-through monitor
    jobs = [(k, v, [], 2, 300, False, 200000) for k, v in texts.items() if k.startswith('s')]
    cases, rejected = suites.compile_cases(jobs)
    for c in cases: c['opts'] = c['opts'] + ['mon']
    res = hidlib.run_parallel(cases)
    bad = agree = 0
    for c in cases:
        r = res[c['id']]
        notes = [n for n in r['vm'].notes if n.startswith('fallthrough')]
        k = suites.classify(r['vm'], r['src'])
        fell = r['src'].outcome.startswith('fault:control_fell_off')
        if notes or fell or k in ('DIFF', 'FAULT', 'HALT'):
            bad += 1
            if bad <= 3:
                ctx.violations.append(dict(what='control ran off the end of a function' if (notes or fell) else 'behaviour differs from the reference (%s)' % k,
                                           kind='FALLTHROUGH' if (notes or fell) else k, source=texts[c['id']], args=[], config=dict(w=2, stack=300, unchecked=False, monitor=True),
                                           notes=notes[:3], vm=suites.describe(r['vm']), reference=suites.describe(r['src'])))
        elif k == 'agree': agree += 1
    ctx.stats['monitored'] = dict(accepted=len(cases), rejected_by_compiler=len(rejected), findings=bad, agree=agree)
    ctx.say('accepted shapes on the VM with the fall-through monitor: %d, findings %d (rejected by the compiler: %d)' % (len(cases), bad, len(rejected)))
    # the verified core ((d) is proved for Compiler/Core.lean): its tie to the real compiler, and the same programs against the reference
    cj = suites.core_suite(ctx, ctx.budget(80, 1200), faults=0.0)
    suites.differential(ctx, cj, {}, label='core-programs', must_compile=True)
    ctx.stats['evaluations'] = ctx.stats.get('evaluations', 0) + len(texts) + len(cases)
    ctx.stats['distinct_nontrivial'] = ctx.stats['exit_correspondence']['functions'] - ctx.stats['exit_correspondence']['mismatches']
    ctx.samples.append(dict(program=texts['s0']))


def replay(ctx, data):
    import dump_ast
    c = dump_ast.case('r', data['source'], [], s=300)
    c['opts'].append('mon')
    r = hidlib.run_batch([c])['r']
    print(r['vm'], r['vm'].notes[:3]); print(r['src'])
    return 1 if r['vm'].notes or r['src'].outcome.startswith('fault') else 0
