"""C02 - try/undo, try/stop, preempt and ?? follow their time-travel semantics"""
import suites
from props.common import TRUSTED_BASE, ASSUMPTIONS as _A

ID = 'C02'
LEAN_MODULES = ['HidVerif.Props.C02']
THEOREMS = ['HidVerif.Props.C02.' + n for n in ('core_try_undo_correct', 'undo_source_law', 'try_ok_source_law', 'core_try_stop_correct', 'stop_source_law', 'stop_ok_source_law', 'undo_law', 'preempt_law', 'preempt_forced', 'stop_law', 'defeat_caught',
                                                 'spec_law', 'spec_compare', 'interp_verdict_sound')] + \
           ['HidVerif.Core.tryStop_ok', 'HidVerif.Core.cD_ok_vd', 'HidVerif.Core.call_ok', 'HidVerif.PSys.jump_law', 'HidVerif.PSys.halts_jump_iff', 'HidVerif.PSys.Reach.jump_taken',
            'HidVerif.PSys.Reach.jump_fallthrough', 'HidVerif.Sphinx.vm_sound']
TRUSTED = TRUSTED_BASE
ASSUMPTIONS = _A + ['the reference semantics gives try/stop the reading the generator implements (preempt forced while defeat is '
                    'caught); try/undo with defeat calls, and try/stop with !is_defeat(), !truth_is_defeat() and calls of (non-preemptive) defeat functions, with or without a result, from try/stop and try/undo bodies under any control flow, in the you function are PROVED end to end for the core sub-language (core_try_undo_correct, core_try_stop_correct, tied by the exact core correspondence); return/break/continue out of try/stop bodies, preempt, ?? and preemptive defeat functions in whole programs and histories are validated, not proved']
RULE = ('generator with try/undo, try/stop, preempt (in try bodies, loops, defeat functions), ??, defeat functions and history '
        'templates (2-5 try blocks in sequence, defeat inline and inside calls); VM vs reference machine; non-trivial = agreeing run '
        'that resolved at least one Turing jump by backtracking')


def run(ctx):
    suites.asmcheck(ctx)
    jobs = suites.corpus_jobs() + suites.example_jobs()
    stats = {}
    plan = [(2, ctx.budget(700, 8000)), (3, ctx.budget(100, 2000)), (4, ctx.budget(100, 2000)), (8, ctx.budget(100, 2000))]
    for w, n in plan:
        j, st = suites.gen_jobs(ctx, n, tt=True, w=w, s=500, prefix='w%d_' % w)
        jobs += j
        for k, v in st.items(): stats[k] = stats.get(k, 0) + v
    ctx.stats['generator_distribution'] = stats
    jobs += suites.core_suite(ctx, ctx.budget(240, 4000), faults=0.03)
    # one defeat function shared by try blocks of both kinds in several functions, in every emission order
    import gen_special
    shared = gen_special.shared_defeat_programs()
    for w in ((2,) if ctx.quick else (2, 3, 4)):
        for un in (False, True):
            jobs += [('shd_%s_%s_w%d_%d' % (tag, a[0], w, un), src, a, w, 200, un, 300000) for tag, src, a in shared]
    ctx.stats['shared_defeat_function_programs'] = len(shared)
    # every way of leaving a try body other than falling out of it or defeat (return with a defeat-computed value, break, continue)
    exits = gen_special.try_exit_programs()
    for w in ((2,) if ctx.quick else (2, 3, 4)):
        jobs += [('tex_%s_%s_w%d' % (tag, a[0], w), src, a, w, 200, False, 300000) for tag, src, a in exits]
    ctx.stats['try_exit_programs'] = len(exits)
    pre = gen_special.preempt_programs()
    for un in (False, True):
        jobs += [('%s_%s_%d' % (tag, a[0], un), src, a, 2, 200, un, 300000) for tag, src, a in pre]
    ctx.stats['preempt_programs'] = len(pre)
    sp = gen_special.spec_programs()
    for w in ((2,) if ctx.quick else (2, 4)):
        jobs += [('%s_%s_w%d' % (tag, a[0], w), src, a, w, 200, False, 300000) for tag, src, a in sp]
    ctx.stats['speculation_programs'] = len(sp)
    tally, bad, res = suites.differential(ctx, jobs, None, label='time-travel', must_compile_prefixes=('shd_', 'tex_', 'pre_', 'spec'))
    # the typechecker folds `??` (and constants generally): the reference above runs on the real front end's typed tree, so the
    # special families are also judged against the typed tree of the verified front-end model
    fam = {}
    for tag, src, a in sp + exits + pre:
        fam.setdefault(src, 'f%d' % len(fam))
    suites.independent_front_end(ctx, {n: src for src, n in fam.items()}, [j for j in jobs if j[1] in fam])
    bt = sum(1 for r in res.values() if 'src' in r and r['src'].backtracks > 0)
    ctx.stats['runs_with_backtracking'] = bt
    ctx.samples.append(dict(generated_program=jobs[-1][1][:1500], args=jobs[-1][2], w=jobs[-1][3]))


def replay(ctx, data):
    return suites.replay_case(ctx, data)
