"""C14 - compile-time evaluation is invisible"""
import os, subprocess, tempfile
import suites, hidlib
from props.common import TRUSTED_BASE, ASSUMPTIONS as _A

ID = 'C14'
LEAN_MODULES = ['HidVerif.Props.C14']
THEOREMS = ['HidVerif.Props.C14.' + n for n in ('fold_agrees_partial', 'fold_error_only_on_fault', 'fold_disagrees_on_overflow',
                                                 'C14_statement_false')]
TRUSTED = TRUSTED_BASE + ['Hid/Fold.lean: evalZ is the model of ArithmeticOp/BooleanOp.simplify and IntValue.cast (unbounded Python '
                          'integers); tied to the typechecker by the `fold` correspondence suite (folded literal of the real typed tree '
                          'vs evalZ) on every run']
ASSUMPTIONS = _A + ['KNOWN FINDING D6: the unconditional statement is false on this tree (folding on unbounded integers); the theorem '
                    'proved is the conditional one (InRange)']
RULE = ('constant expressions to depth 5 over all operators and casts; each is compiled in literal form and in run-time form (leaves '
        'routed through identity functions); VM outputs compared at w in {2,3,4}; a differing pair whose exact evaluation leaves the '
        'signed word range is the known finding D6, any other differing pair is a violation; non-trivial = pair that agrees')

ARITH = ['add', 'sub', 'mul', 'div', 'mod']
CMP = ['lt', 'gt', 'le', 'ge', 'eq', 'ne']
SYM = dict(add='+', sub='-', mul='*', div='/', mod='%', lt='<', gt='>', le='<=', ge='>=', eq='==', ne='!=')
LITS = [0, 1, 2, 3, 7, 10, 100, 127, 128, 255, 256, 257, 1000, 181, 182, 32767, 16384, 8191, 46341, 2896]


def gen_int(rng, d, small):
    r = rng.random()
    if d <= 0 or r < 0.3:
        v = rng.choice(LITS[:13] if small else LITS)
        return ('lit', -v if rng.random() < 0.25 else v)
    if r < 0.75:
        return ('bin', rng.choice(ARITH), gen_int(rng, d - 1, small), gen_int(rng, d - 1, small))
    if r < 0.82: return ('un', 'neg', gen_int(rng, d - 1, small))
    if r < 0.9: return ('tobyte', gen_int(rng, d - 1, small))
    return ('toint', gen_bool(rng, d - 1, small))


def gen_bool(rng, d, small):
    r = rng.random()
    if d <= 0 or r < 0.5:
        return ('bin', rng.choice(CMP), gen_int(rng, d - 1, small), gen_int(rng, d - 1, small))
    if r < 0.7: return ('bin', rng.choice(['and', 'or']), gen_bool(rng, d - 1, small), gen_bool(rng, d - 1, small))
    if r < 0.8: return ('un', 'not', gen_bool(rng, d - 1, small))
    if r < 0.9: return ('bin', rng.choice(['eq', 'ne']), gen_bool(rng, d - 1, small), gen_bool(rng, d - 1, small))
    return ('tobool', gen_int(rng, d - 1, small))


# ---- partially constant expressions: some leaves are observable (they print, or may fault) and stay run-time in both twins
def gen_mixed_int(rng, d):
    r = rng.random()
    if d <= 0 or r < 0.25:
        k = rng.random()
        v = rng.choice([0, 1, 2, 3, 5])
        if k < 0.45: return ('lit', v)
        if k < 0.8: return ('eff', v)
        return ('rt', v)
    if r < 0.8: return ('bin', rng.choice(ARITH), gen_mixed_int(rng, d - 1), gen_mixed_int(rng, d - 1))
    if r < 0.85: return ('un', 'neg', gen_mixed_int(rng, d - 1))
    if r < 0.9: return ('tobyte', gen_mixed_int(rng, d - 1))
    return ('toint', gen_mixed_bool(rng, d - 1))


def gen_mixed_bool(rng, d):
    r = rng.random()
    if d <= 0 or r < 0.3:
        k = rng.random()
        if k < 0.35: return ('blit', rng.choice([0, 1]))
        if k < 0.7: return ('beff', rng.choice([0, 1]))
        return ('bin', rng.choice(CMP), gen_mixed_int(rng, 0), gen_mixed_int(rng, 0))
    if r < 0.65: return ('bin', rng.choice(['and', 'or']), gen_mixed_bool(rng, d - 1), gen_mixed_bool(rng, d - 1))
    if r < 0.75: return ('un', 'not', gen_mixed_bool(rng, d - 1))
    if r < 0.85: return ('bin', rng.choice(CMP), gen_mixed_int(rng, d - 1), gen_mixed_int(rng, d - 1))
    if r < 0.92: return ('bin', rng.choice(['eq', 'ne']), gen_mixed_bool(rng, d - 1), gen_mixed_bool(rng, d - 1))
    return ('tobool', gen_mixed_int(rng, d - 1))


MIXED_PRE = ('int id_int(int x) { return x; }\nbool id_bool(bool x) { return x; }\n'
             'int noisy(int x) { write(\'<\'); write(x); write(\'>\'); return x; }\n'
             'bool noisyb(bool x) { write(\'[\'); write(x); write(\']\'); return x; }\n'
             'const int K0 = 0; const int K1 = 1; const int K2 = 2; const int K3 = 3; const int K5 = 5; const bool KF = false; const bool KT = true;\n')


def range_exit(e, H):
    """conservative: does any sub-expression (evaluated or not) leave [-H, H) or divide by zero when computed exactly?"""
    trail = []
    def ev(e):
        k = e[0]
        if k in ('lit', 'eff', 'rt', 'blit', 'beff'): v = e[1]
        elif k == 'bin':
            a, b = ev(e[2]), ev(e[3]); op = e[1]
            if op in ('div', 'mod') and b == 0:
                trail.append('div0'); v = 0
            else:
                v = {'add': lambda: a + b, 'sub': lambda: a - b, 'mul': lambda: a * b, 'div': lambda: a // b, 'mod': lambda: a % b,
                     'lt': lambda: int(a < b), 'gt': lambda: int(a > b), 'le': lambda: int(a <= b), 'ge': lambda: int(a >= b),
                     'eq': lambda: int(a == b), 'ne': lambda: int(a != b), 'and': lambda: int(bool(a) and bool(b)),
                     'or': lambda: int(bool(a) or bool(b))}[op]()
        elif k == 'un':
            a = ev(e[2]); v = -a if e[1] == 'neg' else int(not a)
        elif k == 'tobyte': v = ev(e[1]) & 0xFF
        elif k == 'tobool': v = int(ev(e[1]) != 0)
        elif k == 'toint': v = ev(e[1])
        if not (-H <= v < H): trail.append('range')
        return v
    ev(e)
    return 'range' in trail


def hid(e, runtime):
    k = e[0]
    if k == 'lit':
        t = '(%d)' % e[1] if e[1] < 0 else str(e[1])
        if runtime == 'const': return 'K%d' % e[1]
        return 'id_int(%s)' % t if runtime else t
    if k == 'blit':
        t = 'true' if e[1] else 'false'
        if runtime == 'const': return 'KT' if e[1] else 'KF'
        return 'id_bool(%s)' % t if runtime else t
    if k == 'eff': return 'noisy(%d)' % e[1]
    if k == 'rt': return 'id_int(%d)' % e[1]
    if k == 'beff': return 'noisyb(%s)' % ('true' if e[1] else 'false')
    if k == 'bin': return '(%s %s %s)' % (hid(e[2], runtime), SYM.get(e[1], e[1]), hid(e[3], runtime))
    if k == 'un': return '(%s %s)' % ({'neg': '-', 'not': 'not'}[e[1]], hid(e[2], runtime))
    if k == 'tobyte': return '(%s is byte)' % hid(e[1], runtime)
    if k == 'tobool': return '(%s is bool)' % hid(e[1], runtime)
    if k == 'toint': return '(%s is int)' % hid(e[1], runtime)


def sexp(e):
    k = e[0]
    if k == 'lit': return '(lit %d)' % e[1]
    if k == 'bin': return '(bin %s %s %s)' % (e[1], sexp(e[2]), sexp(e[3]))
    if k == 'un': return '(un %s %s)' % (e[1], sexp(e[2]))
    if k == 'tobyte': return '(tobyte %s)' % sexp(e[1])
    if k == 'tobool': return '(tobool %s)' % sexp(e[1])
    if k == 'toint': return '(un pos %s)' % sexp(e[1])


def exact(e, H, trail):
    """exact evaluation; appends True to trail when an intermediate leaves [-H, H)"""
    k = e[0]
    if k == 'lit': v = e[1]
    elif k == 'bin':
        a, b = exact(e[2], H, trail), exact(e[3], H, trail)
        op = e[1]
        if op in ('div', 'mod') and b == 0: raise ZeroDivisionError
        v = {'add': lambda: a + b, 'sub': lambda: a - b, 'mul': lambda: a * b, 'div': lambda: a // b, 'mod': lambda: a % b,
             'lt': lambda: int(a < b), 'gt': lambda: int(a > b), 'le': lambda: int(a <= b), 'ge': lambda: int(a >= b),
             'eq': lambda: int(a == b), 'ne': lambda: int(a != b), 'and': lambda: int(bool(a) and bool(b)),
             'or': lambda: int(bool(a) or bool(b))}[op]()
    elif k == 'un':
        a = exact(e[2], H, trail)
        v = -a if e[1] == 'neg' else int(not a)
    elif k == 'tobyte': v = exact(e[1], H, trail) & 0xFF
    elif k == 'tobool': v = int(exact(e[1], H, trail) != 0)
    elif k == 'toint': v = exact(e[1], H, trail)
    if not (-H <= v < H): trail.append(True)
    return v


def folded_value(src):
    """what the real typechecker folded the argument of write(...) to"""
    from hidc.lexer import SourceCode
    from hidc.parser import parse
    from hidc.ast import Environment
    from hidc import ast
    env = Environment.empty()
    prog = parse(SourceCode.from_string(src)).evaluate(env)
    f = [f for f in prog.func_decls if f.name.name == '@is_you'][0]
    call = f.body.stmts[0]
    arg = call.args[0]
    if isinstance(arg, ast.PrimitiveValue): return int(arg.data)
    return None


def run(ctx):
    rng = ctx.rng
    n = ctx.budget(500, 8000)
    # the witness of known finding D6 is replayed on every run
    exprs = [(('bin', 'div', ('bin', 'add', ('lit', 32767), ('lit', 1)), ('lit', 2)), False)]
    for i in range(n):
        small = rng.random() < 0.6
        root_bool = rng.random() < 0.3
        e = gen_bool(rng, rng.randint(1, 4), small) if root_bool else gen_int(rng, rng.randint(1, 5), small)
        exprs.append((e, root_bool))
    # constants that only fit wider words (multiples of 65536, the 24-bit extremes): the typechecker folds without knowing the
    # word size, the twins run at 24 and 32 bits
    wide_from = len(exprs)
    for K in (65536, 131072, 196608, -65536, 65537, 8388607, -8388608, 16777216, 1 << 30, (1 << 31) - 65536, 327680):
        L = ('lit', K)
        for e, rb in ((('tobool', L), True), (('un', 'not', ('tobool', L)), True), (('bin', 'and', ('tobool', L), ('bin', 'lt', ('lit', 1), ('lit', 2))), True),
                      (('bin', 'or', ('bin', 'gt', ('lit', 1), ('lit', 2)), ('tobool', L)), True), (('tobyte', L), False), (('bin', 'eq', L, ('lit', 0)), True),
                      (('bin', 'div', L, ('lit', 3)), False), (('bin', 'mod', L, ('lit', 65536)), False), (('bin', 'mul', ('lit', 2), L), False),
                      (('un', 'neg', L), False), (('toint', ('tobool', L)), False), (('bin', 'sub', L, ('lit', 1)), False),
                      (('tobool', ('bin', 'mul', ('lit', 256), ('lit', 256))), True), (('tobool', ('bin', 'sub', L, ('lit', K))), True)):
            exprs.append((e, rb))
    wide_to = len(exprs)
    # (1) correspondence of evalZ with the real typechecker's folding
    with tempfile.NamedTemporaryFile('w', suffix='.txt', delete=False) as f:
        for e, _ in exprs: f.write(sexp(e) + '\n')
        name = f.name
    p = subprocess.run([hidlib.HIDMODEL, 'fold', name], capture_output=True, text=True, timeout=300)
    os.unlink(name)
    model = [l.split(' ') for l in p.stdout.strip().split('\n')]
    mism = []
    checked = 0
    from hidc.errors import TypeCheckError
    for (e, rb), m in zip(exprs[:ctx.budget(400, 4000)], model):
        src = 'empty @is_you() { write(%s); }' % hid(e, False)
        try:
            fv = folded_value(src)
            got = 'unfolded' if fv is None else str(fv)
        except TypeCheckError as err:
            got = 'divzero' if ('zero' in str(err)) else 'tcerror:' + str(err)
        checked += 1
        if got != m[0]: mism.append((src, got, m[0]))
    ctx.stats['fold_correspondence'] = dict(expressions=checked, mismatches=len(mism), samples=mism[:3])
    if mism:
        ctx.breaks.append(dict(kind='correspondence', name='fold: evalZ vs the typechecker', detail=str(mism[:3])[:1500]))
    ctx.say('fold correspondence (evalZ vs real typechecker): %d expressions, %d mismatches' % (checked, len(mism)))
    # (2) twins on the VM
    jobs = []
    meta = {}
    idsrc = 'int id_int(int x) { return x; }\n'
    for i, (e, rb) in enumerate(exprs):
        for w in (2, 3, 4):
            if ctx.quick and w != 2 and i % 4 and not (wide_from <= i < wide_to): continue
            for form in ('lit', 'run'):
                src = idsrc + 'empty @is_you() { write(%s); }' % hid(e, form == 'run')
                jobs.append(('e%d_w%d_%s' % (i, w, form), src, [], w, 100, False, 200000))
            meta[(i, w)] = e
    cases, rejected = suites.compile_cases(jobs)
    res = hidlib.run_parallel([dict(id=c['id'], asm=c['asm'], args=[], fuel=c['fuel']) for c in cases])
    rejected_ids = {r[0] for r in rejected}
    agree = known = new = skipped = 0
    for (i, w), e in meta.items():
        a, b = 'e%d_w%d_lit' % (i, w), 'e%d_w%d_run' % (i, w)
        if a in rejected_ids or b in rejected_ids or a not in res or b not in res:
            skipped += 1
            continue
        ra, rb_ = res[a]['vm'], res[b]['vm']
        if ra.obs() == rb_.obs():
            agree += 1
            continue
        H = 1 << (8 * w - 1)
        trail = []
        try: exact(e, H, trail)
        except ZeroDivisionError: trail.append(True)
        v = dict(what='literal form and run-time form of a constant expression print different values', kind='FOLD-DIFF',
                 source=idsrc + 'empty @is_you() { write(%s); write(\' \'); write(%s); }' % (hid(e, False), hid(e, True)),
                 args=[], config=dict(w=w, stack=100, unchecked=False), literal_form=suites.describe(ra),
                 runtime_form=suites.describe(rb_), intermediate_leaves_word_range=bool(trail))
        if trail: known += 1
        else: new += 1
        if (trail and known <= 1) or (not trail and new <= 3):
            ctx.violations.append(v)
    # (3) partially constant expressions with observable run-time leaves: literal / const-variable / run-time forms
    mjobs, mmeta = [], {}
    for i in range(ctx.budget(400, 6000)):
        e = gen_mixed_bool(rng, rng.randint(1, 3)) if rng.random() < 0.5 else gen_mixed_int(rng, rng.randint(1, 3))
        w = rng.choice([2, 2, 3, 4])
        if range_exit(e, 1 << (8 * w - 1)): continue
        for form, rt in (('lit', False), ('const', 'const'), ('run', True)):
            src = MIXED_PRE + 'empty @is_you() { write(%s); }' % hid(e, rt)
            mjobs.append(('m%d_%s' % (i, form), src, [], w, 100, False, 200000))
        mmeta[i] = (e, w)
    mcases, mrej = suites.compile_cases(mjobs)
    mres = hidlib.run_parallel([dict(id=c['id'], asm=c['asm'], args=[], fuel=c['fuel']) for c in mcases])
    mrej_ids = {r[0] for r in mrej}
    magree = mdiff = mskip = 0
    for i, (e, w) in mmeta.items():
        b = 'm%d_run' % i
        if b in mrej_ids or b not in mres:
            mskip += 1; continue
        for form in ('lit', 'const'):
            a = 'm%d_%s' % (i, form)
            if a in mrej_ids or a not in mres:
                mskip += 1; continue
            ra, rb_ = mres[a]['vm'], mres[b]['vm']
            if ra.obs() == rb_.obs():
                magree += 1; continue
            mdiff += 1
            if mdiff <= 3:
                ctx.violations.append(dict(what='value or effects of a partially constant expression depend on compile-time evaluation (%s form vs run-time form)' % form,
                                           kind='FOLD-EFFECT', source=MIXED_PRE + 'empty @is_you() { write(%s); }' % hid(e, False if form == 'lit' else 'const'),
                                           twin=MIXED_PRE + 'empty @is_you() { write(%s); }' % hid(e, True), args=[],
                                           config=dict(w=w, stack=100, unchecked=False), constant_form=suites.describe(ra), runtime_form=suites.describe(rb_)))
    # (4) literals the typechecker could pre-evaluate *around* observable elements: `.length`, indexing and truth of array
    # literals whose elements call, print or fault; string literal lookups - written form vs the same through a variable
    spre = 'int g = 0;\nint f(int x) { write(\'<\'); write(x); write(\'>\'); g += 1; return x; }\n'
    spairs = [('writeln([f(7), 2, f(9)].length); writeln(g);', 'int[] a = [f(7), 2, f(9)]; writeln(a.length); writeln(g);'),
              ('int z = 0; writeln([10 / z, 2].length); writeln("u");', 'int z = 0; int[] a = [10 / z, 2]; writeln(a.length); writeln("u");'),
              ('writeln([f(1), f(2)][1]); writeln(g);', 'int[] a = [f(1), f(2)]; writeln(a[1]); writeln(g);'),
              ('writeln([f(1)] is bool); writeln(g);', 'int[] a = [f(1)]; writeln(a is bool); writeln(g);'),
              ('if ([f(3), f(4)].length > 1) { write("T"); } writeln(g);', 'int[] a = [f(3), f(4)]; if (a.length > 1) { write("T"); } writeln(g);'),
              ('writeln([1, 2, 3].length + [f(4)].length); writeln(g);', 'int[] a = [1, 2, 3]; int[] b = [f(4)]; writeln(a.length + b.length); writeln(g);'),
              ('int k = 5; writeln([1, 2][k - 5 + f(1)]);', 'int k = 5; int[] a = [1, 2]; writeln(a[k - 5 + f(1)]);'),
              ('writeln("abc".length); writeln("abc"[1] is int); writeln("" is bool);', 'string s = "abc"; string e = ""; int k = 1; writeln(s.length); writeln(s[k] is int); writeln(e is bool);'),
              ('int k = 3; writeln("abc"[k] is int); writeln("u");', 'int k = 3; string s = "abc"; writeln(s[k] is int); writeln("u");'),
              ('writeln([f(1), f(2)].length is bool); writeln((not ([f(5)] is bool))); writeln(g);', 'int[] a = [f(1), f(2)]; writeln(a.length is bool); int[] b = [f(5)]; writeln((not (b is bool))); writeln(g);')]
    # array literals that mix compile-time constant elements with run-time ones: the constant elements may be pre-packed (bool
    # literals are packed into bytes at compile time), the twin builds every element at run time
    mpre = 'bool t = g == 0; bool ff = g != 0; int one = g + 1; int two = g + 2; const bool CT = true; const int C5 = 5; '
    for k in range(ctx.budget(24, 400)):
        n = ctx.rng.randint(2, 19)
        if k % 3 != 2:
            vals = [ctx.rng.random() < 0.6 for _ in range(n)]
            konst = [ctx.rng.random() < 0.5 for _ in range(n)]
            cel = [(ctx.rng.choice(['true', 'CT', '(1 < 2)', 'not false']) if v else ctx.rng.choice(['false', 'not CT', '(2 < 1)'])) if c
                   else ('t' if v else 'ff') for v, c in zip(vals, konst)]
            rel = ['t' if v else 'ff' for v in vals]
            show = ' '.join('write(a[%d]);' % j for j in range(n))
            spairs.append((mpre + 'bool[] a = [%s]; %s writeln();' % (', '.join(cel), show), mpre + 'bool[] a = [%s]; %s writeln();' % (', '.join(rel), show)))
        else:
            vals = [ctx.rng.choice([1, 2]) for _ in range(n)]
            konst = [ctx.rng.random() < 0.5 for _ in range(n)]
            cel = [(ctx.rng.choice(['1', '(C5 - 4)', '(3 - 2)']) if v == 1 else ctx.rng.choice(['2', '(1 + 1)', '(C5 - 3)'])) if c
                   else ('one' if v == 1 else 'two') for v, c in zip(vals, konst)]
            rel = ['one' if v == 1 else 'two' for v in vals]
            el = ctx.rng.choice(['int', 'byte'])
            conv = (lambda x: x) if el == 'int' else (lambda x: '(%s is byte)' % x)
            show = ' '.join('write(a[%d] is int);' % j for j in range(n))
            spairs.append((mpre + '%s[] a = [%s]; %s writeln();' % (el, ', '.join(conv(x) for x in cel), show),
                           mpre + '%s[] a = [%s]; %s writeln();' % (el, ', '.join(conv(x) for x in rel), show)))
    sjobs = []
    for i, (cf, rf) in enumerate(spairs):
        for w in (2, 4):
            sjobs.append(('sp%d_w%d_c' % (i, w), spre + 'empty @is_you() { %s }' % cf, [], w, 100, False, 200000))
            sjobs.append(('sp%d_w%d_r' % (i, w), spre + 'empty @is_you() { %s }' % rf, [], w, 100, False, 200000))
    scases, srej = suites.compile_cases(sjobs)
    sres = hidlib.run_parallel([dict(id=c['id'], asm=c['asm'], args=[], fuel=c['fuel']) for c in scases])
    sdiff = 0
    for i, (cf, rf) in enumerate(spairs):
        for w in (2, 4):
            a, b = sres.get('sp%d_w%d_c' % (i, w)), sres.get('sp%d_w%d_r' % (i, w))
            if not a or not b or 'vm' not in a or 'vm' not in b or a['vm'].obs() != b['vm'].obs():
                sdiff += 1
                if sdiff <= 2:
                    ctx.violations.append(dict(what='a literal form behaves differently from the same computation through a variable (pre-evaluation is visible)',
                                               kind='FOLD-EFFECT', source=spre + 'empty @is_you() { %s }' % cf, twin=spre + 'empty @is_you() { %s }' % rf, args=[],
                                               config=dict(w=w, stack=100, unchecked=False),
                                               constant_form=suites.describe(a['vm']) if a and 'vm' in a else 'rejected',
                                               runtime_form=suites.describe(b['vm']) if b and 'vm' in b else 'rejected'))
    ctx.stats['structured_twins'] = dict(pairs=len(spairs) * 2, differ=sdiff)
    ctx.say('structured twins: %d pairs, %d differ' % (len(spairs) * 2, sdiff))
    ctx.stats['mixed_twins'] = dict(expressions=len(mmeta), agree=magree, differ=mdiff, constant_form_rejected_or_missing=mskip)
    ctx.say('mixed twins: %d expressions, agree=%d differ=%d skipped=%d' % (len(mmeta), magree, mdiff, mskip))
    agree += magree
    ctx.stats['twins'] = dict(pairs=len(meta), agree=agree - magree, differ_known_mechanism_D6=known, differ_other=new,
                              literal_form_rejected_at_compile_time=skipped)
    ctx.stats['evaluations'] = len(jobs) + len(mjobs)
    ctx.stats['distinct_nontrivial'] = agree
    ctx.say('twins: %d pairs, agree=%d, known-mechanism(D6)=%d, other=%d, skipped=%d' % (len(meta), agree - magree, known, new, skipped))
    ctx.samples.append(dict(expression=hid(exprs[0][0], False), runtime_form=hid(exprs[0][0], True)))


def matches_known(k, v):
    return k['id'] == 'D6' and v.get('kind') == 'FOLD-DIFF' and v.get('intermediate_leaves_word_range') is True


def replay(ctx, data):
    import dump_ast
    cfg = data['config']
    if 'twin' in data:
        cs = [dump_ast.case(n, data[k], [], w=cfg.get('w', 2), s=100, interp=False) for n, k in (('a', 'source'), ('b', 'twin'))]
        r = hidlib.run_batch(cs)
        print('constant form:', r['a']['vm']); print('run-time form:', r['b']['vm'])
        return 0 if r['a']['vm'].obs() == r['b']['vm'].obs() else 1
    c = dump_ast.case('r', data['source'], [], w=cfg.get('w', 2), s=100, interp=False)
    r = hidlib.run_batch([c])['r']['vm']
    print('vm:', r)
    parts = r.output.split(b' ')
    return 0 if len(parts) == 2 and parts[0] == parts[1] else 1
