"""C09 - operators and casts at every boundary value"""
import suites, gen_special
from props.common import TRUSTED_BASE, ASSUMPTIONS as _A

ID = 'C09'
LEAN_MODULES = ['HidVerif.Props.C09']
THEOREMS = ['HidVerif.Props.C09.' + n for n in ('arith_map_correct', 'compare_map_correct', 'halt_inversion_correct', 'branch_lowering',
                                                 'int_to_bool_norm', 'neg_lowering', 'not_lowering', 'int_to_byte_is_truncation',
                                                 'word_store_then_byte_read', 'byte_survives_word_roundtrip',
                                                 'neg_boundary', 'neg_neg_word', 'neg_lowering_is_negW')]
TRUSTED = TRUSTED_BASE + ['Compiler/Templates.lean branch / normalisation templates, tied to the generator by the conformance check']
ASSUMPTIONS = _A + ['A4 (floor division/modulus on negative operands) is not pinned by any recorded upstream output']
RULE = ('theorems over the whole value space; searcher: every operator and cast in value, branch (if/while/not) and defeat position with '
        'operands as parameters, globals, array elements and mixed, boundary grid {0,+-1,+-2,127,128,255,256,H-1,-H,...}^2 at w in '
        '{2,3,4} (thorough: also 8), real hidc + Lean VM vs reference machine (on the real typed tree, and on the typed tree of the Lean front-end model wherever the two differ); non-trivial = agreeing run')


def run(ctx):
    suites.asmcheck(ctx)
    jobs = []
    progs = gen_special.operator_programs(2)
    conf = []
    for w in ((2, 3, 4) if ctx.quick else (2, 3, 4, 8)):
        vals = gen_special.grid_values(w)
        pairs = [(a, b) for a in vals for b in vals]
        if ctx.quick and w != 2:
            pairs = ctx.rng.sample(pairs, 60)
        for name, src in progs:
            if name == 'strbool':
                for s, xs in (('', []), ('a', ['1']), ('abc', ['0', '0'])):
                    jobs.append(('%s_w%d_%s%d' % (name, w, s, len(xs)), src, [s] + xs, w, 100, False, 100000))
                continue
            if name.startswith('lenbyte'):
                jobs.append(('%s_w%d' % (name, w), src, [], w, 100, False, 400000))
                continue
            conf.append(('c_%s_w%d' % (name, w), src, ['1', '2'], w, 100, False, 100000))
            if name.startswith('lit'):
                # one operand is a literal: the second argument is not used, sweep the first
                for a in (vals if (w == 2 or not ctx.quick) else ctx.rng.sample(vals, 6)):
                    jobs.append(('%s_w%d_%d' % (name, w, a), src, [str(a), '1'], w, 100, False, 200000))
                continue
            for a, b in pairs:
                jobs.append(('%s_w%d_%d_%d' % (name, w, a, b), src, [str(a), str(b)], w, 100, False, 200000))
    suites.conformance(ctx, conf)
    suites.differential(ctx, jobs, None, label='operator-grid', must_compile=True)
    # the same grid against the typed tree of the verified front-end model, wherever the real front end's tree differs
    suites.independent_front_end(ctx, {name: src for name, src in progs}, jobs)
    ctx.samples.append(dict(program=progs[3][1][:700], args=['-32768', '-1']))


def replay(ctx, data):
    return suites.replay_case(ctx, data)
