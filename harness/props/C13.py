"""C13 - constant data reaches the output byte for byte"""
import suites, hidlib
from props.common import TRUSTED_BASE, ASSUMPTIONS as _A

ID = 'C13'
LEAN_MODULES = ['HidVerif.Props.C13']
THEOREMS = ['HidVerif.Props.C13.' + n for n in ('escape_roundtrip', 'unit_table', 'escaped_is_printable', 'escaped_string_is_printable', 'escaped_length', 'char_immediate_roundtrip', 'pack_bools_spec')]
TRUSTED = TRUSTED_BASE + ['py2lean in tools/extract.py transcribes _escape_bytes (if/elif chains over one byte); anything outside that '
                          'shape is reported as untranslatable; the transcription is also executed against the Python function on all '
                          '256 bytes x 2 quotes every run; it transcribes CodeGen.pack_bools (a loop over enumerate that appends to / updates the last element '
                          'of a list) likewise, executed against Python on all 0/1 lists up to length 11 and 300 longer ones every run']
ASSUMPTIONS = _A + ['the literal syntax accepted by the real assembler is the one of Asm.unescape (A8)']
RULE = ('theorem for all byte strings; searcher: every byte value singly and in pairs with neighbours, random strings, as string and '
        'character literals and in constant int/byte/bool/string arrays of lengths 0..40, global and local, through real hidc, the Lean '
        'assembler and VM, compared with the reference machine and with the literal bytes; non-trivial = assembled and printed bytes '
        'equal the source bytes')


def hid_str(bs):
    return '"' + ''.join('\\x%02x' % b for b in bs) + '"'


def transcription_check(ctx):
    """Gen.escapeByte (py2lean output, evaluated by Lean) agrees with the Python function on its
    whole per-byte domain"""
    import subprocess
    from hidc.codegen.asm import _escape_bytes
    p = subprocess.run([hidlib.HIDMODEL, 'escapetable'], capture_output=True, text=True, timeout=120)
    bad = []
    n = 0
    for line in p.stdout.split('\n'):
        if not line: continue
        q, b, hx = (line.split(' ') + [''])[:3]
        n += 1
        want = _escape_bytes(bytes([int(b)]), bytes([int(q)]))
        if bytes.fromhex(hx) != want: bad.append((int(q), int(b), hx, want.hex()))
    ctx.stats['transcription_escape_bytes'] = dict(cases=n, mismatches=len(bad))
    if bad or n != 512:
        ctx.breaks.append(dict(kind='translator', name='py2lean(_escape_bytes)', detail=str(bad[:3]) + ' cases=%d' % n))
    ctx.say('py2lean transcription of _escape_bytes vs Python on %d cases: %d mismatches' % (n, len(bad)))


def pack_check(ctx):
    """Gen.packBools (py2lean output, evaluated by Lean) agrees with CodeGen.pack_bools on every 0/1 list up to length 11 and on
    random longer ones; both agree with the specification (bit j % 8 of byte j / 8 is element j) - a disagreement with the
    specification is a concrete failing input for the proof that no longer checks"""
    import subprocess, itertools
    from hidc.codegen.generator import CodeGen
    lists = [list(t) for n in range(0, 12) for t in itertools.product((0, 1), repeat=n)]
    lists += [[ctx.rng.randrange(2) for _ in range(ctx.rng.randrange(12, 90))] for _ in range(300)]
    p = subprocess.run([hidlib.HIDMODEL, 'packbools'], input=''.join(''.join(map(str, l)) + '\n' for l in lists), capture_output=True, text=True, timeout=300)
    outs = p.stdout.split('\n')
    bad = spec = 0
    for l, o in zip(lists, outs):
        try:
            py = list(CodeGen.pack_bools([bool(x) for x in l]))
        except Exception as e:
            py = 'raises %s' % type(e).__name__
        want = [sum(l[8 * k + j] << j for j in range(8) if 8 * k + j < len(l)) for k in range((len(l) + 7) // 8)]
        if py != want:
            spec += 1
            if spec <= 2:
                ctx.violations.append(dict(what='pack_bools(%s) = %s, the packed bits must be %s' % (l, py, want), kind='PACK-BOOLS',
                                           source='const bool[] a = [%s];\nempty @is_you() { for (int i = 0; i < a.length; i += 1) { write(a[i]); } }' % ', '.join('true' if x else 'false' for x in l),
                                           args=[], config=dict(w=2, stack=100, unchecked=False)))
        if py != [int(x) for x in o.split()]: bad += 1
    ctx.stats['transcription_pack_bools'] = dict(cases=len(lists), mismatches=bad, differ_from_specification=spec)
    if (bad and not spec) or len(outs) < len(lists):
        ctx.breaks.append(dict(kind='translator', name='py2lean(pack_bools)', detail='%d of %d lists differ between Gen.packBools and Python' % (bad, len(lists))))
    ctx.say('py2lean transcription of pack_bools vs Python on %d lists: %d mismatches, %d differ from the specification' % (len(lists), bad, spec))


def run(ctx):
    try:
        transcription_check(ctx)
    except Exception as e:
        ctx.breaks.append(dict(kind='translator', name='py2lean(_escape_bytes) self-check', detail='%s: %s' % (type(e).__name__, e)))
    try:
        pack_check(ctx)
    except Exception as e:
        ctx.breaks.append(dict(kind='translator', name='py2lean(pack_bools) self-check', detail='%s: %s' % (type(e).__name__, e)))
    jobs = suites.corpus_jobs()
    # every byte singly, in a string / char / const byte array, with neighbours that stress escaping
    ctxbytes = [0x5c, 0x22, 0x27, 0x0a, 0x41]
    for b in range(256):
        for nb in (ctxbytes if not ctx.quick else [0x5c, 0x41]):
            bs = [nb, b, nb, b]
            src = ('const byte[] ga = [%s];\nempty @is_you() { write(%s); write(\'|\'); write(\'\\x%02x\'); write(\'|\'); '
                   'const string[] sa = [%s, "z"]; write(sa[0]); write(sa[0].length); write(ga); write(ga[1] is int); '
                   'string s = %s; write(s[1] is int); write(s.length); }'
                   % (', '.join(str(x) for x in bs), hid_str(bs), b, hid_str(bs), hid_str(bs)))
            jobs.append(('b%d_%d' % (b, nb), src, [], 2, 100, False, 100000))
    # long constants: a byte that needs escaping at every position (the emitter may split or wrap long directives)
    maxpos = 150 if ctx.quick else 700
    for sp in ([0x5c, 0x22, 0x0a, 0x02, 0xff] if ctx.quick else [0x5c, 0x22, 0x27, 0x0a, 0x0d, 0x00, 0x02, 0x7f, 0x80, 0xff]):
        for p0 in range(0, maxpos, 10):
            strs = [bytes([0x61] * p + [sp] + [0x62] * ctx.rng.randrange(3) + [sp] * ctx.rng.randrange(2)) for p in range(p0, p0 + 10)]
            src = ('const string[] gs = [%s];\nempty @is_you() { for (int i = 0; i < gs.length; i += 1) { write(gs[i]); write(gs[i].length); } }'
                   % ', '.join('"' + ''.join(chr(b) if 0x61 <= b <= 0x62 else '\\x%02x' % b for b in st) + '"' for st in strs))
            jobs.append(('long%d_%d' % (sp, p0), src, [], 2, 100, False, 400000))
    for i in range(ctx.budget(20, 300)):
        n = ctx.rng.randrange(40, 400)
        st = bytes(ctx.rng.choice([0x5c, 0x22, 0x0a, 0x41, 0x41, 0x20, 0x00, 0xff, ctx.rng.randrange(256)]) for _ in range(n))
        src = ('empty @is_you() { write(%s); const byte[] b = %s; write(b); write(b.length); }' % (hid_str(st), hid_str(st)))
        jobs.append(('rnd%d' % i, src, [], ctx.rng.choice([2, 3, 4]), 300, False, 400000))
    # arrays of every element type and length
    for n in (range(0, 41) if not ctx.quick else [0, 1, 7, 8, 9, 16, 17, 40]):
        ints = [ctx.rng.choice([0, 1, -1, 255, 256, 32767, -32768, ctx.rng.randrange(-32768, 32768)]) for _ in range(n)]
        bools = [ctx.rng.random() < 0.5 for _ in range(n)]
        byts = [ctx.rng.randrange(256) for _ in range(n)]
        strs = [bytes(ctx.rng.randrange(256) for _ in range(ctx.rng.randrange(4))) for _ in range(n)]
        def arr(vals): return '[' + ', '.join(vals) + ']'
        for w in ((2, 3) if ctx.quick else (2, 3, 4, 8)):
            src = ('const int[] gi = %s; const bool[] gb = %s; const byte[] gy = %s; const string[] gs = %s; int[] mi = %s; bool[] mb = %s;\n'
                   'empty dump(const int[] a) { for (int i = 0; i < a.length; i += 1) { write(a[i]); write(\',\'); } }\n'
                   'empty dump(const bool[] a) { for (int i = 0; i < a.length; i += 1) { write(a[i]); } }\n'
                   'empty dump(const string[] a) { for (int i = 0; i < a.length; i += 1) { write(a[i]); write(a[i].length); } }\n'
                   'empty @is_you() { dump(gi); dump(gb); write(gy); dump(gs); dump(mi); dump(mb); const int[] li = %s; const bool[] lb = %s; dump(li); dump(lb); '
                   'write(gi.length); write(gb.length); write(gy.length); write(gs.length); }'
                   % (arr(map(str, ints)), arr('true' if x else 'false' for x in bools), arr(map(str, byts)),
                      arr(hid_str(s) for s in strs), arr(map(str, ints)), arr('true' if x else 'false' for x in bools),
                      arr(map(str, ints)), arr('true' if x else 'false' for x in bools)))
            jobs.append(('arr%d_w%d' % (n, w), src, [], w, 200, False, 400000))
    # constants that are equal as numbers but not as data: the same values as int[], byte[], bool[] (and a string with the same
    # bytes), global and local, in every order of first use, plus true duplicates - an emitter that shares storage between
    # "equal" constants must not confuse layouts
    import itertools
    decl = {'int': ('const int[] %s = %s;', lambda v: str(v)), 'byte': ('const byte[] %s = %s;', lambda v: str(v)),
            'bool': ('const bool[] %s = %s;', lambda v: 'true' if v else 'false')}
    dumpers = ('empty dump(const int[] a) { for (int i = 0; i < a.length; i += 1) { write(a[i]); write(\',\'); } write(\';\'); }\n'
               'empty dump(const byte[] a) { for (int i = 0; i < a.length; i += 1) { write(a[i] is int); write(\'.\'); } write(\';\'); }\n'
               'empty dump(const bool[] a) { for (int i = 0; i < a.length; i += 1) { write(a[i]); } write(\';\'); }\n')
    k = 0
    for n in ((3, 9, 10) if ctx.quick else (1, 2, 3, 7, 8, 9, 10, 16, 17)):
        vals = [ctx.rng.randrange(2) for _ in range(n)]
        lit = {t: '[' + ', '.join(decl[t][1](v) for v in vals) + ']' for t in decl}
        for order in itertools.permutations(['int', 'byte', 'bool']):
            for place in ('global', 'local', 'mixed'):
                gl, lo = [], []
                for i, t in enumerate(order):
                    (gl if place == 'global' or (place == 'mixed' and i % 2 == 0) else lo).append(decl[t][0] % ('k' + t, lit[t]))
                src = ('\n'.join(gl) + '\n' + dumpers + 'empty @is_you() { ' + ' '.join(lo) + ' ' +
                       ' '.join('dump(k%s);' % t for t in order) + ' ' + ' '.join('dump(k%s);' % t for t in reversed(order)) +
                       ' const int[] again = %s; dump(again); write(kint.length + kbyte.length + kbool.length); }' % lit['int'])
                for w in ((2,) if ctx.quick else (2, 4)):
                    jobs.append(('eq%d_w%d' % (k, w), src, [], w, 200, False, 400000)); k += 1
    bs = [ctx.rng.choice([0x41, 0x42, 0x5c, 0x00, 0x01]) for _ in range(6)]
    for order in itertools.permutations(range(3)):
        parts = ['const byte[] kb = [%s];' % ', '.join(map(str, bs)), 'const string ks = %s;' % hid_str(bs), 'const int[] ki = [%s];' % ', '.join(map(str, bs))]
        uses = ['write(kb); write(kb.length);', 'write(ks); write(ks.length);', 'for (int i = 0; i < ki.length; i += 1) { write(ki[i]); write(\',\'); }']
        src = '\n'.join(parts[i] for i in order) + '\nempty @is_you() { ' + ' '.join(uses[i] for i in order) + ' ' + ' '.join(uses[i] for i in reversed(order)) + ' }'
        jobs.append(('eqs%s' % ''.join(map(str, order)), src, [], 2, 200, False, 400000))
    # tables that are all zero / all equal (an emitter may abbreviate them), each followed by a table that is not
    for w in ((2, 3) if ctx.quick else (2, 3, 4, 8)):
        for n in (1, 2, 4, 9):
            for fill in ('0', '7'):
                z = '[' + ', '.join([fill] * n) + ']'
                zb = '[' + ', '.join(['false' if fill == '0' else 'true'] * n) + ']'
                src = ('const int[] ZI = %s; const int[] PI = [2, 3, 5, 7]; const byte[] ZB = %s; const byte[] PB = [9, 8]; const bool[] ZT = %s; int[] MZ = %s; int[] MP = [4, 4];\n'
                       'empty di(const int[] a) { for (int i = 0; i < a.length; i += 1) { write(a[i]); write(\',\'); } write(\';\'); }\n'
                       'empty @is_you() { const int[] one = %s; di(ZI); di(PI); write(ZB); write(PB); write(ZT[0]); write(ZT.length); di(MZ); di(MP); di(one); MZ[0] = 3; di(MZ); di(MP); }'
                       % (z, z, zb, z, z))
                jobs.append(('zero_w%d_n%d_%s' % (w, n, fill), src, [], w, 200, False, 300000))
    # string constants reached through computed addresses, with index expressions that need the same scratch registers
    import gen_special
    jobs += [('si%d' % i, src, a, 2, 200, False, 300000) for i, (src, a, tag) in enumerate(gen_special.order_programs(ctx.rng)) if tag.startswith('string_index')]
    tally, bad, res = suites.differential(ctx, jobs, None, label='constant-data', must_compile=True)
    # independent oracle: the printed prefix must be the literal bytes
    wrong = 0
    for j in jobs:
        if j[0].startswith('b') and j[0] in res and 'vm' in res[j[0]]:
            b, nb = map(int, j[0][1:].split('_'))
            want = bytes([nb, b, nb, b]) + b'|' + bytes([b]) + b'|'
            if not res[j[0]]['vm'].output.startswith(want): wrong += 1
    ctx.stats['literal_prefix_mismatches'] = wrong
    if wrong and not bad:
        ctx.violations.append(dict(what='printed bytes differ from the literal', kind='DIFF', source=jobs[0][1], args=[], config={}))
    ctx.samples.append(dict(program=jobs[len(jobs) // 2][1][:600]))


def replay(ctx, data):
    return suites.replay_case(ctx, data)
