"""C17 - the write family prints every value correctly"""
import hidlib, dump_ast, suites
from props.common import TRUSTED_BASE, ASSUMPTIONS as _A

ID = 'C17'
LEAN_MODULES = ['HidVerif.Props.C17']
THEOREMS = ['HidVerif.Props.C17.' + n for n in ('write_int_correct', 'write_int_buffer_exceeds_frame', 'write_string_correct',
                                                 'write_const_byte_array_correct', 'write_state_byte_array_correct', 'write_bool_correct',
                                                 'bytesAt_length', 'yield_exact',
                                                 'digits_range', 'valOf_digits', 'digits_head', 'decimalW_reads_back', 'decimalW_injective')]
TRUSTED = TRUSTED_BASE
ASSUMPTIONS = _A
RULE = ('theorems about Gen.code_write_* (regenerated from stdlib.py) for all w>=2 and all word values; '
        'searcher: every 16-bit value through real hidc + Lean VM, boundary/random values at w in {3,4,8}, '
        'strings and byte arrays of lengths 0..64 in every storage class, caller state checked after the call, '
        'exactly-full stack; a case is non-trivial when VM and reference agree on a run that printed something')


def sweep_program(lo, hi):
    return ('empty @is_you() { int i = %d; while (true) { write(i); write(\',\'); '
            'if (i == %d) { break; } i += 1; } }' % (lo, hi))


def run(ctx):
    suites.asmcheck(ctx)
    jobs = []
    # (1) all 65 536 values at 16 bits, in 16 slices
    step = 4096
    for k in range(16):
        lo = -32768 + k * step
        jobs.append(('sweep%d' % k, sweep_program(lo, lo + step - 1), [], 2, 64, False, 4000000))
    # (2) boundary and random values at other word sizes, through the argument binding
    for w in (3, 4, 8):
        H = 1 << (8 * w - 1)
        vals = [0, 1, -1, 9, 10, 11, 99, 100, 255, 256, 32767, 32768, -32768, 65535, 65536, H - 1, -H, -H + 1, H // 10, -(H // 10)]
        vals += [ctx.rng.randrange(-H, H) for _ in range(ctx.budget(20, 300))]
        for i, v in enumerate(vals):
            jobs.append(('w%d_%d' % (w, i), 'empty @is_you(int x) { write(x); write(\' \'); writeln(x); int y = x; write(y - 1); }',
                         [str(v)], w, 64, False, 200000))
    # (3) bool, byte, strings, byte arrays in every storage class and length
    lens = list(range(0, 9)) + [15, 16, 17, 31, 32, 33, 63, 64]
    if ctx.quick: lens = [0, 1, 2, 7, 8, 9, 33, 64]
    for w in ((2, 3) if ctx.quick else (2, 3, 4, 8)):
        for n in lens:
            data = [ctx.rng.randrange(256) for _ in range(n)]
            lit = ''.join('\\x%02x' % b for b in data)
            elems = ', '.join(str(b) for b in data)
            src = '''
const byte[] gc = [%(elems)s];
byte[] gm = [%(elems)s];
string gs = "%(lit)s";
empty show(const byte[] a) { write(a); write('|'); writeln(a); }
empty @is_you(string arg) {
    int guard1 = 12345;
    byte[] lm = [%(elems)s];
    const byte[] lc = [%(elems)s];
    byte dyn[%(n)d];
    for (int i = 0; i < dyn.length; i += 1) { dyn[i] = gc[i]; }
    int guard2 = -23456;
    write("%(lit)s"); write('|'); write(gs); write('|'); write(arg); write('|');
    write(gc); write(gm); write(lm); write(lc); write(dyn); write(gs is byte[]); write(arg is byte[]);
    show(gc); show(gm); show(lm); show(dyn); show("%(lit)s");
    writeln(); writeln(true); write(false); write(n(%(n)d) > 3); write('x'); writeln('y');
    write(guard1); write(guard2); write(lm.length); write(dyn.length);
}
int n(int k) { return k; }
''' % dict(elems=elems, lit=lit, n=n)
            if n == 0:
                src = src.replace('const byte[] gc = [];', 'const byte[] gc = [];').replace('byte[] gm = [];', 'byte[] gm = [];')
            jobs.append(('bytes_w%d_n%d' % (w, n), src, ['a\x01z'], w, 200, False, 400000))
    # lengths around the byte boundary of the length word (127..257) and well beyond it: literal, global string, global const
    # array, command-line string - the length is a word, every byte of it counts
    for w in ((2, 4) if ctx.quick else (2, 3, 4, 8)):
        for n in ((127, 128, 255, 256, 257, 300) if ctx.quick else (127, 128, 129, 200, 255, 256, 257, 300, 511, 512, 1000)):
            data = [ctx.rng.choice(range(33, 127)) if i % 7 else ctx.rng.randrange(256) for i in range(n)]
            lit = ''.join('\\x%02x' % b for b in data)
            elems = ', '.join(str(b) for b in data)
            src = ('const byte[] gc = [%s];\nstring gs = "%s";\nempty @is_you(string arg) {\n    write("%s"); write(\'|\'); write(gs); write(\'|\'); '
                   'write(gc); write(\'|\'); write(arg); write(\'|\');\n    write(gs.length); write(\' \'); write(gc.length); write(\' \'); write(arg.length); '
                   'writeln(gs); writeln(arg is byte[]);\n}\n' % (elems, lit, lit))
            jobs.append(('long_w%d_n%d' % (w, n), src, [''.join(chr(33 + (i * 7) % 90) for i in range(n))], w, 200, False, 600000))
            # the same lengths for byte arrays that live in the state section (a different print routine): mutable global,
            # variable-length local, mutable local literal
            src2 = ('byte[] gm = [%s];\nempty show(const byte[] a) { write(a); write(\'|\'); }\nempty @is_you() {\n    byte dyn[%d];\n'
                    '    for (int i = 0; i < dyn.length; i += 1) { dyn[i] = gm[i]; }\n    write(gm); write(\'|\'); write(dyn); write(\'|\'); writeln(dyn); show(dyn); show(gm);\n'
                    '    gm[0] = 65; dyn[dyn.length - 1] = 66; write(gm); write(dyn); write(gm.length); write(\' \'); write(dyn.length);\n}\n' % (elems, n))
            jobs.append(('longstate_w%d_n%d' % (w, n), src2, [], w, 300 + n, False, 900000))
            if n <= 300:
                src3 = ('empty @is_you() {\n    byte[] lm = [%s];\n    write(lm); write(\'|\'); lm[1] = 67; writeln(lm); write(lm.length);\n}\n' % elems)
                jobs.append(('longlocal_w%d_n%d' % (w, n), src3, [], w, 400 + 2 * n, False, 900000))
    # a state byte array that straddles the sign boundary of the address word (16-bit: 0x8000): addresses are unsigned
    for pad in (range(15866, 15882, 2) if ctx.quick else range(15860, 15890)):
        src = ('int pad[%d];\nbyte[] msg = [115, 116, 114, 97, 100, 100, 108, 101, 10];\nempty @is_you() { pad[0] = 1; write(msg); writeln(12345); writeln(-32768); '
               'byte[] loc = [108, 111, 99]; writeln(loc); write(msg.length); writeln(pad[0]); }' % pad)
        jobs.append(('straddle_%d' % pad, src, [], 2, 500, False, 400000))
    # write(bool) of a conversion the typechecker cannot fold: the argument slot is one byte, the value a word (or a length)
    for w in ((2, 3) if ctx.quick else (2, 3, 4)):
        H = 1 << (8 * w - 1)
        for v in (0, 1, 255, 256, 257, 512, 4096, -256, -1, H - 1, -H, 0x7F00):
            jobs.append(('wb_w%d_%d' % (w, v), 'empty @is_you(int x) { write(x is bool); write(\' \'); writeln(x is bool); write((x is byte) is bool); write(not (x is bool)); }',
                         [str(v)], w, 64, False, 100000))
    for n in (0, 1, 255, 256, 257, 512):
        src = ('byte gbuf[%d];\nempty @is_you(string s) { byte dyn[%d]; write(gbuf is bool); write(dyn is bool); write(s is bool); write(s.length is bool); writeln(dyn.length is bool); }' % (n, n))
        jobs.append(('wbl_%d' % n, src, ['x' * n], 2, 400 + n, False, 300000))
    tally, bad, res = suites.differential(ctx, jobs, None, label='write-family', must_compile=True)
    # python's own decimal notation as a second oracle for the 16-bit sweep
    mism = 0
    for k in range(16):
        lo = -32768 + k * 4096
        r = res.get('sweep%d' % k, {}).get('vm')
        want = b''.join(b'%d,' % v for v in range(lo, lo + 4096))
        if r is None or r.output != want:
            mism += 1
    ctx.stats['sweep16_slices_matching_python_str'] = 16 - mism
    if mism and not bad:
        ctx.violations.append(dict(what='16-bit sweep differs from decimal notation', kind='DIFF',
                                   source=sweep_program(-32768, 32767), args=[], config=dict(w=2, stack=64, unchecked=False)))
    # (4) write(int) with the stack exactly full: caller data must survive
    tight = []
    for w in (2, 3):
        for v in (12345, -12345, 7, -32768, 99999 if w > 2 else 32767):
            src = ('empty @is_you() { int[] a = [11, 22, 33]; byte[] b = [1, 2, 3, 4, 5]; write(%d); write(\' \'); '
                   'write(a[0]); write(a[1]); write(a[2]); write(b[4] is int); write(b[0] is int); }' % v)
            for s in range(4, 16):
                tight.append(('tight_w%d_v%d_s%d' % (w, v, s), src, [], w, s, False, 200000))
    suites.differential(ctx, tight, None, label='write-int-full-stack')
    # (5) a function that declares only scalars and calls only library routines has a static frame: its entry check is the only place
    # where stack_overflow may arise.  Once it has passed (the marker is printed) every write must complete - a library routine
    # that asks for more than the entry check granted would refuse a stack the compiler itself accepted
    fit = []
    for w in (2, 3, 4):
        H = 1 << (8 * w - 1)
        for v in (0, 7, -1, 12345, -12345, H - 1, -H):
            for nb in (0, 1, 2, 3, 5):
                decl = ' '.join('byte b%d = %d;' % (j, 65 + j) for j in range(nb))
                use = ' '.join('write(b%d);' % j for j in range(nb))
                src = 'empty @is_you(int x) { %s write(\'[\'); write(x); writeln(x); write(true); %s write("s"); write(\']\'); }' % (decl, use)
                for st in range(1, 16):
                    fit.append(('fit_w%d_%d_%d_s%d' % (w, v, nb, st), src, [str(v)], w, st, False, 100000))
    if ctx.quick: fit = [f for i, f in enumerate(fit) if f[3] == 2 or i % 3 == 0]
    fcases, frej = suites.compile_cases(fit)
    fres = hidlib.run_parallel([dict(id=c['id'], asm=c['asm'], args=c['args'], fuel=c['fuel']) for c in fcases])
    fm = {f[0]: f for f in fit}
    late = complete = 0
    for c in fcases:
        r = fres.get(c['id'], {}).get('vm')
        if r is None: continue
        if r.output.endswith(b']'): complete += 1
        elif r.output.startswith(b'[') and 'stack_overflow' in r.flags:
            late += 1
            if late <= 2:
                f = fm[c['id']]
                ctx.violations.append(dict(what='stack_overflow raised by a library routine after the entry check of a function with a static frame had passed: '
                                           'write(int) refuses a stack the compiler accepted and prints nothing', kind='LATE-OVERFLOW', source=f[1], args=f[2],
                                           config=dict(w=f[3], stack=f[4], unchecked=False), vm=suites.describe(r)))
    ctx.stats['static_frame_fit'] = dict(runs=len(fcases), complete=complete, overflow_after_entry=late)
    ctx.say('static frames: %d runs, %d complete, %d overflow after the entry check' % (len(fcases), complete, late))
    ctx.samples.append(dict(theorem='write_int_correct', statement='forall w>=2, v<256^w, caller states: Reach entry (outs (decimalW v)) return-address and Same outside [fp-w-k, fp-w)'))
    ctx.samples.append(dict(case='sweep0', program=sweep_program(-32768, -28673)))


def replay(ctx, data):
    if data.get('kind') == 'LATE-OVERFLOW':
        import dump_ast
        cfg = data['config']
        c = dump_ast.case('r', data['source'], data['args'], w=cfg['w'], s=cfg['stack'])
        r = hidlib.run_batch([c])['r']['vm']
        print(r)
        bad = r.output.startswith(b'[') and not r.output.endswith(b']') and 'stack_overflow' in r.flags
        print('overflow after the entry check passed' if bad else 'no late overflow')
        return 1 if bad else 0
    return suites.replay_case(ctx, data)


def matches_known(k, v):
    return False
