"""C10 - the compiler is total: every input yields assembly or a located diagnostic"""
import os, subprocess, tempfile, glob, shutil
import suites, frontend, gen, hidlib
from props.common import TRUSTED_BASE, ASSUMPTIONS as _A

ID = 'C10'
LEAN_MODULES = ['HidVerif.Props.C10']
THEOREMS = ['HidVerif.Props.C10.' + n for n in ('ascii_always_assemblable', 'char_immediate_always_assemblable', 'lex_total', 'parse_never_runs_out_of_fuel', 'parse_total', 'volatile_initialiser_means_const_array', 'cast_node_operand_type', 'typechecker_never_internal', 'front_end_total')] + ['HidVerif.Hid.TC.tcStmt_modes', 'HidVerif.Hid.TC.tcExpr_ni', 'HidVerif.Hid.TC.tcExpr_fl'] + ['HidVerif.Hid.Parse.parse_never_out_of_fuel']
TRUSTED = TRUSTED_BASE + ['the lexer/parser/typechecker models (total Lean functions) tied by the lex/parse/tc suites on error class and position']
ASSUMPTIONS = _A + ['RUNTIME BEHAVIOUR NOT MODELLED: exit status, stderr and the output file of the hidc process are observed on the real '
                    'command-line tool (subprocess), not proved',
                    'unreachability of the generator-side assertions and InternalCompilerError for accepted programs is validated, not proved',
                    'the lexer, parser and typechecker models are total functions and front_end_total shows they answer a tree or a located/type error for every text; what stays validated is that they are the implementation (lex/parse/tc suites: an AssertionError or other exception of the real front end is compared, as INTERNAL, with the model that provably never says it)']
RULE = ('four input streams (random text over the lexical alphabet, token soups, token- and type-level mutations of generated programs, '
        'generated well-typed programs, plus non-UTF-8 files and 5000-digit literals through the CLI) x options -m {8,16,24,32,64}, -s '
        '{0,1,500,10^6}, --unchecked, --lint; in-process: only CompilerError may escape, its position lies inside the source and '
        'get_info renders; on success the Lean assembler accepts the output; CLI: exit status, stderr, presence and completeness of '
        'the output file; non-trivial = input that reached the outcome class it was counted under')


def api_case(text, w, s, unchecked, lint):
    """-> (class, detail, lines or None)"""
    from hidc.lexer import SourceCode
    from hidc.parser import parse
    from hidc.ast import Environment
    from hidc.codegen import CodeGen
    from hidc.errors import CompilerError
    src = SourceCode.from_string(text)
    try:
        env = Environment.empty(unreachable_error=lint)
        parse(src).evaluate(env)
        lines = list(CodeGen(env, w, s, unchecked).gen_lines())
        return 'ok', '', lines
    except CompilerError as e:
        try:
            info = e.get_info(src)
        except Exception as e2:
            return 'RENDER-FAILS', '%s: %s' % (type(e2).__name__, e2), None
        for c in e.context:
            st = c.start
            if not (0 <= st.line < max(1, len(src.lines)) and 0 <= st.col <= len(src[st.line])):
                return 'POSITION-OUTSIDE', '%s at %s' % (type(e).__name__, st), None
        return type(e).__name__, '', None
    except RecursionError:
        return 'recursion', '', None
    except Exception as e:
        return 'INTERNAL', '%s: %s' % (type(e).__name__, str(e)[:200]), None


def run(ctx):
    rng = ctx.rng
    inputs = []
    n = ctx.budget(500, 20000)
    alphabet = list('abcxyz_019 \t\n(){}[];,.+-*/%=<>!?@"\'\\#&|:') + ['int', 'byte', 'bool', 'string', 'empty', 'const', 'if', 'else', 'while',
                    'for', 'try', 'undo', 'stop', 'preempt', 'return', 'break', 'continue', 'is', 'not', 'and', 'or', 'true', 'false', '@is_you', 'é', '٣']
    for _ in range(n // 4): inputs.append(''.join(rng.choice(alphabet) for _ in range(rng.randint(0, 60))))
    for _ in range(n // 4): inputs.append(frontend.gen_lex_text(rng))
    for i in range(n // 4):
        src, _, _ = gen.gen_program(rng.getrandbits(40), tt=(i % 2 == 0))
        inputs.append(src)
        inputs.append(frontend.mutate_text(rng, src))
        inputs.append(frontend.type_mutate(rng, src))
    inputs += frontend.test_snippets()
    inputs += frontend.empty_value_programs()
    # every typing-rule program of C07 (one per documented rule and position, scoping matrix, `??` operand matrix): accepted or a
    # located TypeCheckError, never an internal exception
    from props import C07
    inputs += [src for src, _ in C07.rules()]
    named = frontend.mentioned_name_programs()
    inputs += named if not ctx.quick else rng.sample(named, min(len(named), 900))
    # every placement of the flavour-sensitive constructs (the C06 enumeration, sampled): accepted or diagnosed, never a crash
    from props import C06
    import itertools as _it
    placements = []
    for flavor in ('ordinary', 'you', 'defeat'):
        for sd in range(3):
            for sw in _it.product(C06.S_WRAP, repeat=sd):
                for leaf in C06.LEAVES:
                    placements.append(C06.build(flavor, sw, (), leaf).replace('empty g()', 'empty g()').replace(' }', ' }', 1)
                                      + '\nempty f() {} empty @y() {} empty !d() {} bool c = true; int a = 1; int b = 2; int[] arr = [1];\nempty @is_you() { %s }'
                                      % {'ordinary': 'g();', 'you': '@g();', 'defeat': 'try { !g(); } undo { }'}[flavor])
    inputs += rng.sample(placements, min(len(placements), ctx.budget(500, 3000)))
    for cp in (0x110000, 0xd800, 0x7fffffff, 0x80000000, 2 ** 32, 2 ** 63, 2 ** 64, 16 ** 40):
        inputs += ['empty @is_you() { write("\\u{%x}"); }' % cp, "empty @is_you() { write('\\u{%X}'); }" % cp]
    inputs += ['', '\n', 'empty @is_you() {}', 'empty @is_you(bool b) {}', 'empty @is_you(int[] a, int[] b) {}', 'int @is_you() { return 1; }',
               'empty @is_you() {} empty @is_you(int x) {}', 'empty f() {}', 'int g = f(); empty @is_you() { write(g); }',
               'int x = 1; int y = x + 1; empty @is_you() { write(y); }', 'int a[70000]; empty @is_you() { a[0] = 1; }',
               'empty @is_you(string[] s) {}', 'empty @is_you(const string[] s, int k) { write(s[k]); }',
               'empty @is_you() { string s = "abc"; s[0] = 1; }', 'empty e() {} empty @is_you() { [e()]; }',
               'empty @is_you() { ' + 'write(1);' * 300 + ' }', 'empty @is_you() { int x = ' + '(' * 40 + '1' + ')' * 40 + '; }']
    tally = {}
    bad = []
    asm_cases = []
    opts_pool = [(2, 500, False, False), (1, 500, False, False), (3, 0, False, True), (4, 1, True, False), (8, 10 ** 6, False, False),
                 (2, 10 ** 6, True, True), (2, 20000, False, False)]
    for i, t in enumerate(inputs):
        w, s, un, lint = opts_pool[i % len(opts_pool)] if i % 3 else opts_pool[0]
        cls, detail, lines = api_case(t, w, s, un, lint)
        tally[cls] = tally.get(cls, 0) + 1
        if cls in ('INTERNAL', 'RENDER-FAILS', 'POSITION-OUTSIDE'):
            bad.append((cls, detail, t, (w, s, un, lint)))
        elif cls == 'ok' and len(asm_cases) < ctx.budget(400, 5000):
            asm_cases.append(dict(id='a%d' % i, asm=lines, args=[], fuel=50, _src=t, _cfg=(w, s, un, lint)))
    for cls, detail, t, cfg in bad[:3]:
        ctx.violations.append(dict(what='%s: %s' % (cls, detail), kind=cls, source=t, args=[], config=dict(w=cfg[0], stack=cfg[1], unchecked=cfg[2], lint=cfg[3])))
    # accepted outputs must assemble (argument-less load; programs with parameters fail only on the argument count)
    res = hidlib.run_parallel([{k: v for k, v in c.items() if not k.startswith('_')} for c in asm_cases])
    notasm = 0
    for c in asm_cases:
        o = res[c['id']]['vm'].outcome
        if o.startswith('asmerror') and 'arguments' not in o and 'argument' not in o:
            notasm += 1
            if notasm <= 2:
                ctx.violations.append(dict(what='output rejected by the assembler: ' + o, kind='ASM', source=c['_src'], args=[], config=dict(w=c['_cfg'][0], stack=c['_cfg'][1])))
    tally['assembled'] = len(asm_cases) - notasm
    ctx.stats['in_process'] = tally
    ctx.say('in-process totality: %s' % tally)
    # model correspondence on a sample
    sample = {('s%d' % i): t for i, t in enumerate(rng.sample(inputs, min(len(inputs), ctx.budget(500, 5000))))}
    frontend.lex_suite(ctx, 0, list(sample.values())[:200])
    frontend.parse_suite(ctx, sample)
    frontend.tc_suite(ctx, sample)
    # the command line tool
    tmp = tempfile.mkdtemp(prefix='hidc10_')
    cli = []
    try:
        def cli_run(name, data, extra=(), expect_ok=None):
            path = os.path.join(tmp, name + '.hid'); out = os.path.join(tmp, name + '.s')
            open(path, 'wb').write(data)
            if os.path.exists(out): os.unlink(out)
            p = subprocess.run(['/venv/bin/python', '-m', 'hidc', path, '-o', out] + list(extra), capture_output=True, cwd=hidlib.REPO, timeout=120)
            exists = os.path.exists(out)
            complete = exists and open(out, 'rb').read().rstrip().endswith(b'halt')
            verdict = 'ok'
            if b'Traceback' in p.stderr: verdict = 'TRACEBACK'
            elif p.returncode == 0 and not complete: verdict = 'EXIT0-WITHOUT-COMPLETE-OUTPUT'
            elif p.returncode != 0 and exists: verdict = 'FAILED-BUT-LEFT-OUTPUT'
            elif p.returncode != 0 and not p.stderr.strip(): verdict = 'FAILED-SILENTLY'
            elif expect_ok is True and p.returncode != 0: verdict = 'UNEXPECTED-FAILURE'
            elif expect_ok is False and p.returncode == 0: verdict = 'UNEXPECTED-SUCCESS'
            if verdict == 'ok' and p.returncode == 0:
                lines = open(out, 'rb').read().split(b'\n')
                r = hidlib.run_vm([l for l in lines], fuel=20)
                if r.outcome.startswith('asmerror') and 'argument' not in r.outcome: verdict = 'OUTPUT-NOT-ASSEMBLABLE:' + r.outcome
            cli.append((name, verdict, p.returncode))
            if verdict != 'ok':
                ctx.violations.append(dict(what='command line: %s (exit %d) %s' % (verdict, p.returncode, p.stderr[-300:].decode('latin1')), kind='CLI',
                                           source=data.decode('latin1')[:2000], args=list(extra), config={}))
        good = b'empty @is_you(int n) { for (int i = 0; i < n; i += 1) { write(i); } }'
        cli_run('good', good, expect_ok=True)
        cli_run('good_m32', good, ['-m', '32', '-s', '10'], expect_ok=True)
        cli_run('m12', good, ['-m', '12'], expect_ok=False)
        cli_run('m8', good, ['-m', '8'], expect_ok=False)
        cli_run('m0', good, ['-m', '0'], expect_ok=False)
        cli_run('sneg', good, ['-s', '-5'], expect_ok=False)
        cli_run('shuge', good, ['-s', '1000000'], expect_ok=False)
        cli_run('s0', good, ['-s', '0', '--unchecked', '--lint'], expect_ok=True)
        cli_run('notutf8', b'empty @is_you() { write("\xff\xfe"); }', expect_ok=False)
        cli_run('bigdec', b'empty @is_you() { write(' + b'9' * 5000 + b'); }')
        cli_run('bighex', b'empty @is_you() { write(0x' + b'f' * 5000 + b'); }')
        cli_run('bigfold', b'empty @is_you() { int x = 5; write(x + ' + b'9' * 4000 + b' * ' + b'9' * 4000 + b'); }')
        cli_run('tcerr', b'empty @is_you() { int x = "s"; }', expect_ok=False)
        cli_run('lexerr', b'empty @is_you() { "unclosed }', expect_ok=False)
        cli_run('parseerr', b'empty @is_you() { if }', expect_ok=False)
        cli_run('noentry', b'empty f() { }', expect_ok=False)
        cli_run('empty', b'', expect_ok=False)
        cli_run('strelem', b'empty @is_you() { string s = "abc"; s[0] = 1; }', expect_ok=False)
        cli_run('emptyelem', b'empty e() {} empty @is_you() { [e()]; }', expect_ok=False)
        for i in range(ctx.budget(25, 400)):
            t = rng.choice(inputs)
            try: data = t.encode('utf-8')
            except UnicodeEncodeError: continue
            cli_run('r%d' % i, data, rng.choice([[], ['--lint'], ['--unchecked'], ['-m', '24'], ['-s', '3']]))
    finally:
        shutil.rmtree(tmp, ignore_errors=True)
    ctx.stats['command_line'] = dict(runs=len(cli), not_ok=[c for c in cli if c[1] != 'ok'][:5])
    ctx.say('command line: %d runs, %d not ok' % (len(cli), sum(1 for c in cli if c[1] != 'ok')))
    ctx.stats['evaluations'] = len(inputs) + len(cli)
    ctx.stats['distinct_nontrivial'] = len(inputs) - len(bad)
    ctx.samples.append(dict(input=inputs[3][:200]))


def replay(ctx, data):
    cfg = data.get('config', {})
    print(api_case(data['source'], cfg.get('w', 2), cfg.get('stack', 500), cfg.get('unchecked', False), cfg.get('lint', False))[:2])
    return 1
