"""C03 - halt is defeat: a compiled program never halts"""
import dump_ast, suites
from props.common import TRUSTED_BASE, ASSUMPTIONS as _A

ID = 'C03'
LEAN_MODULES = ['HidVerif.Props.C03', 'HidVerif.Props.C17']
THEOREMS = ['HidVerif.Props.C03.' + n for n in ('core_never_halts', 'core_overflow_never_halts', 'never_commits_halt_iff', 'terminal_never_halts', 'halt_inversion_sound',
                                                 'halt_inversion_total', 'goto_reach', 'vm_verdict_sound', 'library_writes_never_halt', 'reach_halts_iff')] + \
           ['HidVerif.PSys.safe_not_halts', 'HidVerif.Sphinx.error_stub_reach', 'HidVerif.Sphinx.tnt_never_halts']
TRUSTED = TRUSTED_BASE
ASSUMPTIONS = _A + ['whole-program non-halting is PROVED for the core sub-language (core_never_halts, tied by the core correspondence suite); for the rest of the language it is validated (VM verdict never `halted`, which by vm_verdict_sound would exhibit '
                    'Halts init), not proved; the flavour/context rules that confine defeat calls are the subject of C06']
RULE = ('every program of the sequential and time-travel generators in checked and unchecked builds (unchecked only where the '
        'checked run is fault-free), all word sizes; the VM outcome must never be a committed halt; non-trivial = run reached '
        'win/error with at least one Turing jump resolved')


def run(ctx):
    suites.asmcheck(ctx)
    jobs = suites.corpus_jobs() + suites.example_jobs()
    for w, n in [(2, ctx.budget(300, 5000)), (3, ctx.budget(60, 1500)), (4, ctx.budget(60, 1500)), (8, ctx.budget(60, 1500))]:
        for tt in (False, True):
            j, _ = suites.gen_jobs(ctx, n, tt=tt, w=w, prefix='w%d_%s' % (w, 't' if tt else 's'))
            jobs += j
    jobs += suites.core_suite(ctx, ctx.budget(120, 2000), faults=0.15)
    # one defeat function shared by try blocks of both kinds in several functions, in every emission order
    import gen_special
    jobs += [('shd_%s_%s' % (tag, a[0]), src, a, 2, 200, False, 300000) for tag, src, a in gen_special.shared_defeat_programs()]
    jobs += [('tex_%s_%s' % (tag, a[0]), src, a, 2, 200, False, 300000) for tag, src, a in gen_special.try_exit_programs()]
    jobs += [('%s_%s' % (tag, a[0]), src, a, 2, 200, False, 300000) for tag, src, a in gen_special.preempt_programs()]
    # writing things of length zero (each print routine has a guard that is there for this case only)
    for w in (2, 3):
        for un in (False, True):
            jobs += [('%s_w%d_%d' % (tag, w, un), src, a, w, 200, un, 100000) for tag, src, a in gen_special.empty_write_programs()]
    # defeat calls where no Turing jump protects them (a handler, the you level, an ordinary function): the front end must refuse
    # them; should one be accepted it is run like any other program - and would halt on the committed timeline
    dpre = 'int !checked(int x) { !truth_is_defeat(x > 9); return x * 2; }\nempty !boom(int x) { !truth_is_defeat(x > 9); }\n'
    forbidden = ['empty @is_you(int n) { try { !truth_is_defeat(n > 4); write(\'s\'); } undo { int m = !checked(n); write(m); } }',
                 'empty @is_you(int n) { try { !truth_is_defeat(n > 4); write(\'s\'); } stop { write(!checked(n)); } }',
                 'int @f(int n) { try { !truth_is_defeat(n > 4); return 1; } stop { return !checked(n); } }\nempty @is_you(int n) { write(@f(n)); }',
                 'empty @is_you(int n) { try { write(\'s\'); } undo { if (!checked(n) > 3) { write(\'h\'); } } }',
                 'empty @is_you(int n) { int m = !checked(n); write(m); }', 'empty @is_you(int n) { !boom(n); write(\'x\'); }',
                 'empty g(int n) { !boom(n); }\nempty @is_you(int n) { g(n); write(\'x\'); }',
                 'empty @is_you(int n) { write(!checked(n) ?? 0); }', 'empty @is_you(int n) { try { write(\'s\'); } undo { try { !boom(n); } undo { } } }']
    accepted = 0
    for i, body in enumerate(forbidden):
        for n in ('3', '12'):
            try:
                dump_ast.case('x', dpre + body, [n], w=2, s=200)
                jobs.append(('forb%d_%s' % (i, n), dpre + body, [n], 2, 200, False, 300000)); accepted += 1
            except Exception:
                pass
    ctx.stats['unprotected_defeat_calls_accepted'] = accepted
    tally, bad, res = suites.differential(ctx, jobs, None, kinds_bad=('HALT',), label='checked', must_compile_prefixes=('shd_', 'tex_', 'pre_', 'empty_'))
    # unchecked builds of the fault-free ones
    clean = [j for j in jobs if j[0] in res and 'vm' in res[j[0]] and res[j[0]]['vm'].outcome == 'terminal'
             and res[j[0]]['vm'].flags[-1:] == ['win'] and not any(f in res[j[0]]['vm'].flags for f in
                                                                  ('stack_overflow', 'division_by_zero', 'out_of_bounds', 'nonlocal_preempt'))]
    un = [(j[0] + '_u', j[1], j[2], j[3], j[4], True, j[6]) for j in clean]
    suites.differential(ctx, un, None, kinds_bad=('HALT',), label='unchecked-fault-free')
    ctx.samples.append(dict(generated_program=jobs[-1][1][:1500], args=jobs[-1][2], w=jobs[-1][3]))


def replay(ctx, data):
    return suites.replay_case(ctx, data)
