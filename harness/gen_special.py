"""Property-specific generators: fault injection (C05), scope stress (C08), operator grid (C09)."""
import random

# ----------------------------------------------------------------------------- C05 fault injection
def boundary(w):
    H = 1 << (8 * w - 1)
    return [0, 1, -1, 2, 7, 8, -7, -8, 127, 128, 255, 256, H - 1, -H, -H + 1, H // 2]


ELS = ['int', 'byte', 'bool', 'string']


def lit(el, i=0):
    return {'int': str(10 + i), 'byte': str(65 + i), 'bool': ['true', 'false'][i % 2], 'string': '"s%d"' % i}[el]


def show(el, e):
    if el == 'byte': return 'write(%s is int)' % e
    return 'write(%s)' % e


def fault_programs(rng, w, n):
    """(src, args, tag) : programs that print, then perform one possibly-faulting operation whose
    operands come from the command line, then print again"""
    out = []
    vals = boundary(w)
    forms = []
    # division / modulo: operator x position (value, branch, compound var, compound element) x divisor
    for op in ('/', '%'):
        forms.append(('div_value', 'empty @is_you(int a, int b) { write("pre "); write(a %s b); write(" post"); }' % op))
        forms.append(('div_branch', 'empty @is_you(int a, int b) { write("pre "); if (a %s b > 0) { write("T"); } else { write("F"); } write(" post"); }' % op))
        forms.append(('div_compound_var', 'empty @is_you(int a, int b) { write("pre "); int x = a; x %s= b; write(x); write(" post"); }' % op))
        forms.append(('div_compound_global', 'int g = 1; empty @is_you(int a, int b) { write("pre "); g = a; g %s= b; write(g); write(" post"); }' % op))
        forms.append(('div_compound_elem', 'empty @is_you(int a, int b) { write("pre "); int[] x = [a, a]; x[1] %s= b; write(x[1]); write(" post"); }' % op))
        forms.append(('div_byte_elem', 'empty @is_you(byte a, byte b) { write("pre "); byte[] x = [a, a]; x[1] %s= b; write(x[1] is int); write(" post"); }' % op))
        forms.append(('div_in_call', 'int f(int a, int b) { return a %s b; } empty @is_you(int a, int b) { write("pre "); write(f(a, b)); write(" post"); }' % op))
        forms.append(('div_in_try', 'empty @is_you(int a, int b) { try { write("pre "); write(a %s b); !truth_is_defeat(a == 12345); } undo { write("U"); } write(" post"); }' % op))
        forms.append(('div_in_loop', 'empty @is_you(int a, int b) { for (int i = 3; i >= 0; i -= 1) { write(i); write(a %s (b + i - 1)); write(\' \'); } }' % op))
    for name, src in forms:
        for _ in range(max(1, n // 40)):
            a, b = rng.choice(vals), rng.choice([0, 0, 1, -1, 2] + vals)
            out.append((src, [str(a), str(b)], name))
    # indexing: element type x storage class x access form x index value
    for el in ELS:
        decls = {
            'local_lit': ('%s[] x = [%s];' % (el, ', '.join(lit(el, i) for i in range(3))), ''),
            'local_const': ('const %s[] x = [%s];' % (el, ', '.join(lit(el, i) for i in range(3))), ''),
            'global_lit': ('', '%s[] x = [%s];' % (el, ', '.join(lit(el, i) for i in range(3)))),
            'global_const': ('', 'const %s[] x = [%s];' % (el, ', '.join(lit(el, i) for i in range(3)))),
            'vla': ('%s x[n]; for (int k = 0; k < x.length; k += 1) { x[k] = %s; }' % (el, lit(el, 1)), ''),
            'param': ('', ''),
        }
        for sc, (local, glob) in decls.items():
            mut = sc in ('local_lit', 'global_lit', 'vla')
            reads = ['%s;' % show(el, 'x[i]')]
            if mut:
                reads.append('x[i] = %s; %s;' % (lit(el, 5), show(el, 'x[(i + 0)]')))
                if el in ('int', 'byte'):
                    reads.append('x[i] += 1; %s;' % show(el, 'x[i]'))
            for rd in reads:
                if sc == 'param':
                    src = ('empty g(const %s[] x, int i) { write("in "); %s }\n'
                           'empty @is_you(int i, int n) { write("pre "); g([%s], i); write(" post"); }'
                           % (el, reads[0], ', '.join(lit(el, k) for k in range(3))))
                else:
                    src = '%s\nempty @is_you(int i, int n) { write("pre "); %s %s write(" post"); }' % (glob, local, rd)
                for _ in range(max(1, n // 60)):
                    i = rng.choice([0, 1, 2, 3, -1, 4, 100] + vals)
                    nn = rng.choice([3, 3, 1, 4, 0])
                    out.append((src, [str(i), str(nn)], 'index_%s_%s' % (el, sc)))
    # a check that passes on a path that later reaches defeat (inside a try body, inside a defeat function): no flag, the body is
    # undone / stopped as usual - a guard must not mistake the halt ahead for its own
    dfn = 'empty !late(int x) { int[] t = [1, 2]; int q[x]; write(t[x - 2] / x); !truth_is_defeat(x > 1); }\n'
    for hk in ('undo', 'stop'):
        gb = [
            ('vla_int', 'int n = 3; try { int scratch[n]; scratch[0] = 1; write(scratch[0]); !is_defeat(); } %s { write("H"); }' % hk),
            ('vla_bool', 'int n = 9; try { bool fl[n]; fl[8] = true; write(fl[8]); !truth_is_defeat(n > 2); } %s { write("H"); }' % hk),
            ('vla_string', 'int n = 2; try { string ss[n]; ss[1] = "x"; write(ss[1]); !is_defeat(); } %s { write("H"); }' % hk),
            ('vla_lit_len', 'try { int scratch[4]; scratch[3] = 1; write(scratch[3]); !is_defeat(); } %s { write("H"); }' % hk),
            ('index', 'int[] a = [4, 5, 6]; int i = 2; try { write(a[i]); a[i] = 1; !is_defeat(); } %s { write("H"); }' % hk),
            ('div', 'int d = 2; try { write(10 / d); write(10 %% d); !is_defeat(); } %s { write("H"); }' % hk),
            ('in_dfn', 'try { !late(2); write("k"); } %s { write("H"); }' % hk),
            ('call_frame', 'try { write(deep(3)); !is_defeat(); } %s { write("H"); }' % hk),
        ]
        for name, body in gb:
            src = dfn + 'int deep(int k) { if (k == 0) { return 1; } return deep(k - 1) + 1; }\nempty @is_you(int z) { write("pre "); %s write(" post"); }' % body
            out.append((src, ['1'], 'two_guard_before_defeat_%s_%s' % (hk, name)))
    # two things can go wrong in one statement, or a fault competes with a side effect: which happens first is part of "first"
    noisy = 'int noisy(int a, int b) { write("N"); return a / b; }\n'
    two = [
        ('int_elem_call', noisy + 'empty @is_you(int i, int b) { write("pre "); int[] x = [1, 2, 3]; x[i] = noisy(6, b); write(x[0]); write(" post"); }'),
        ('int_elem_div', 'empty @is_you(int i, int b) { write("pre "); int[] x = [1, 2, 3]; x[i] = 6 / b; write(x[0]); write(" post"); }'),
        ('byte_elem_call', noisy + 'empty @is_you(int i, int b) { write("pre "); byte[] x = [1, 2, 3]; x[i] = noisy(6, b) is byte; write(x[0] is int); write(" post"); }'),
        ('bool_elem_call', noisy + 'empty @is_you(int i, int b) { write("pre "); bool[] x = [true, false, true]; x[i] = noisy(6, b) > 2; write(x[0]); write(" post"); }'),
        ('global_elem_call', 'int[] x = [1, 2, 3];\n' + noisy + 'empty @is_you(int i, int b) { write("pre "); x[i] = noisy(6, b); write(x[0]); write(" post"); }'),
        ('vla_elem_call', noisy + 'empty @is_you(int i, int b) { write("pre "); int x[3]; x[i] = noisy(6, b); write(x[0]); write(" post"); }'),
        ('compound_elem_call', noisy + 'empty @is_you(int i, int b) { write("pre "); int[] x = [1, 2, 3]; x[i] += noisy(6, b); write(x[0]); write(" post"); }'),
        ('compound_elem_div', 'empty @is_you(int i, int b) { write("pre "); int[] x = [1, 2, 3]; x[i] %= b; write(x[0]); write(" post"); }'),
        ('index_is_call', noisy + 'empty @is_you(int i, int b) { write("pre "); int[] x = [1, 2, 3]; x[noisy(i, 1)] = noisy(6, b); write(x[0]); write(" post"); }'),
        ('read_then_div', 'empty @is_you(int i, int b) { write("pre "); int[] x = [1, 2, 3]; write(x[i] / b); write(" post"); }'),
        ('div_then_read', 'empty @is_you(int i, int b) { write("pre "); int[] x = [1, 2, 3]; write(6 / b + x[i]); write(" post"); }'),
        ('args_order', noisy + 'empty g(int p, int q) { write(p + q); }\nempty @is_you(int i, int b) { write("pre "); int[] x = [1, 2, 3]; g(x[i], noisy(6, b)); write(" post"); }'),
        ('args_order2', noisy + 'empty g(int p, int q) { write(p + q); }\nempty @is_you(int i, int b) { write("pre "); int[] x = [1, 2, 3]; g(noisy(6, b), x[i]); write(" post"); }'),
        ('string_elem_call', noisy + 'empty @is_you(int i, int b) { write("pre "); const string[] x = ["a", "b", "c"]; string[] y = ["p", "q", "r"]; y[i] = x[noisy(i, b)]; write(y[0]); write(" post"); }'),
        ('vla_len_call', noisy + 'empty @is_you(int i, int b) { write("pre "); int x[noisy(i, b)]; write(x.length); write(" post"); }'),
    ]
    two += [
        ('mod_param_length', 'int slot(int i, const byte[] buf) { return i % buf.length; }\nempty @is_you(int i, int b) { write("pre "); byte ring[b]; write(slot(i + 5, ring)); write(" post"); }'),
        ('div_string_length', 'empty @is_you(string s, int b) { write("pre "); write(10 / s.length); write(10 % s.length); write(" post"); }'),
        ('compound_length', 'empty @is_you(int i, int b) { write("pre "); int a[b]; int x = 17; x %= a.length; write(x); x = 9; x /= a.length; write(x); write(" post"); }'),
        ('length_literal_arr', 'empty @is_you(int i, int b) { write("pre "); write(i / [].length); write(" post"); }'),
    ]
    for name, src in two:
        if name == 'div_string_length':
            out += [(src, ['', '0'], 'two_' + name), (src, ['ab', '0'], 'two_' + name), (src, ['', '1'], 'two_' + name)]
            continue
        for i in (0, 2, 3, -1, 7):
            for b in (0, 1, 2):
                out.append((src, [str(i), str(b)], 'two_' + name))
    # arrays whose length sits at the byte boundary, indexed by a byte-typed and by an int-typed expression
    for el in ('byte', 'int', 'bool'):
        for n_ in (254, 255, 256):
            val = {'byte': "'!'", 'int': '9', 'bool': 'true'}[el]
            for ity, conv in (('byte', 'k is byte'), ('int', 'k')):
                srcb = ('%s table[%d]; int canary = 7;\nempty @is_you(int k) { write("pre "); %s i = %s; table[i] = %s; write(canary); %s; write(" post"); }'
                        % (el, n_, ity, conv, val, show(el, 'table[i]')))
                for k in (253, 254, 255):
                    out.append((srcb, [str(k)], 'two_bytelen_%s_%d_%s' % (el, n_, ity)))
    # strings
    for src in ('empty @is_you(string s, int i) { write("pre "); write(s[i] is int); write(" post"); }',
                'string g = "hey"; empty @is_you(string s, int i) { write("pre "); write(g[i] is int); write("abc"[i]); write(" post"); }',
                'empty @is_you(const string[] ss, int i) { write("pre "); write(ss[i]); write(ss[0][i]); write(" post"); }'):
        for _ in range(max(2, n // 30)):
            i = rng.choice([0, 1, 2, 3, -1, 100] + vals)
            s = rng.choice(['', 'a', 'abc', 'hello'])
            args = [s, 'zz', str(i)] if 'string[]' in src else [s, str(i)]
            out.append((src, args, 'index_string'))
    # dynamic array lengths
    for el in ELS:
        src = ('empty @is_you(int n) { write("pre "); int[] guard = [1, 2, 3]; %s x[n]; write(x.length); '
               'for (int k = 0; k < x.length; k += 1) { x[k] = %s; } write(guard[2]); write(" post"); }' % (el, lit(el)))
        for _ in range(max(2, n // 20)):
            v = rng.choice([0, 1, 2, 3, 5, 8, 9, -1, -7, -8, -9, 16, 17] + vals)
            out.append((src, [str(v)], 'length_' + el))
        # lengths whose size in bytes wraps around the word (length * w, or (length + 7) / 8): the largest sane length, one more,
        # and the lengths at which k * 256^w / w is passed
        M = 256 ** w; H = M // 2
        wraps = {(H - 1) // w, (H - 1) // w + 1, H - 1, H - 8, M // 8 if w > 1 else 1}
        for k in range(1, w):
            wraps |= {k * M // w, k * M // w + 1, k * M // w + 2}
        srcw = ('empty @is_you(int n) { write("pre "); int[] small = [7, 8]; %s x[n]; write(x.length); write(small[0]); write(small[1]); write(" post"); }' % el)
        for v in sorted(x for x in wraps if 0 < x < H):
            out.append((srcw, [str(v)], 'two_lengthwrap_' + el))
        # the same lengths (and the negative ones) written as constants: a compile-time length takes the same guard
        srcc = ('empty @is_you(int n) { write("pre "); int secret = 1234; int[] small = [7, 8]; %s x[%%s]; write(x.length); x[n] = %s; write(secret); '
                'write(small[0]); write(small[1]); write(" post"); }' % (el, lit(el)))
        for v in sorted(x for x in wraps if 0 < x < H) + [-1, -3, -7, -8, -9]:
            for a in ('0', '29'):
                out.append((srcc % v, [a], 'two_lengthwrap_const_' + el))
        src2 = ('empty f(int n) { %s x[n]; write(x.length); } empty @is_you(int n) { write("pre "); for (int i = 0; i < 3; i += 1) { f(n + i); } write(" post"); }' % el)
        for _ in range(max(1, n // 40)):
            out.append((src2, [str(rng.choice([0, 1, -1, -2, -3, -8, -9, 5]))], 'length_call_' + el))
    # nonlocal preempt
    for body in ('!baba(); !is_defeat();', '!baba();', '!baba(); !truth_is_defeat(x > 2);', 'if (x > 1) { !baba(); } !truth_is_defeat(x > 2);'):
        for hide in ('if (false) { preempt {} }', 'while (false) { preempt {} }', 'for (;false;) { preempt {} }', 'if (true) { } else { preempt {} }',
                     'if (true) { } else if (false) { } else { preempt {} }', 'if (true) { } else { while (false) { preempt {} } }', 'if (true) { } else preempt { }',
                     'for (int k = 0; k < 0; k += 1) { { preempt { write("p"); } } }', '{ return; preempt {} }'):
            src = ('empty !baba() { write("b"); %s }\n'
                   'empty @is_you(int x) { write("pre "); try { %s } undo { write("U"); } write(" post"); }' % (hide, body))
            for v in (0, 1, 2, 3, 5):
                out.append((src, [str(v)], 'nonlocal_preempt'))
    rng.shuffle(out)
    if n >= len(out): return out
    # the ordering family is always represented by the out-of-range index with a zero and a non-zero divisor, and the in-range control
    # compound division / modulus on byte targets: the operation is on ints and only the result is narrowed - a divisor that is a
    # non-zero multiple of 256 is not zero
    for tgt, decl in (('b', 'byte b = 200;'), ('a[1]', 'byte[] a = [1, 200, 3];'), ('g', '')):
        for op in ('/=', '%='):
            for rhs in ('256', 'c + 1', '(c + 1) * 2', '512', 'c + 257', 'c * 2 + 2'):
                src = ('byte g = 200;\nempty @is_you(int n) { write("pre "); byte c = n is byte; %s %s %s %s; write(%s is int); write(" post"); }' % (decl, tgt, op, rhs, tgt))
                for nv in ('255', '254', '127', '0'):
                    out.append((src, [nv], 'two_bytecompound'))
    must = [o for o in out if o[2].startswith('two_') and (o[2].startswith('two_lengthwrap') or o[2] == 'two_bytecompound' or o[2].startswith('two_guard_before') or (o[2].startswith('two_bytelen') and o[1][0] == '255') or o[2] == 'two_div_string_length' or (o[1][0] in ('3', '0') and o[1][1:2] in (['0'], ['1'])))]
    rest = [o for o in out if o not in must]
    return must + rest[:max(0, n - len(must))]


# ----------------------------------------------------------------------------- C08 scope stress
def scope_programs(rng, n):
    """loops with many iterations that allocate arrays in nested scopes and leave them by every
    exit route; a leak shows as stack_overflow (or ap drift), an early release as corruption"""
    out = []
    allocs = ['int[] a%(k)d = [i, i + 1, %(k)d];', 'byte b%(k)d[(i %% 3) + 1]; b%(k)d[0] = 7;', 'bool c%(k)d[9]; c%(k)d[8] = true;',
              'int d%(k)d[2]; d%(k)d[1] = i;', 'string[] s%(k)d = ["x", "yy"];']
    uses = ['acc += a%(k)d[1];', 'acc += b%(k)d[0];', 'if (c%(k)d[8]) { acc += 1; }', 'acc += d%(k)d[1];', 'acc += s%(k)d[1].length;']
    exits = ['', 'if (i %% 3 == 1) { continue; }', 'if (i == %(last)d) { break; }', 'if (i %% 4 == 2) { { continue; } }']
    for _ in range(n):
        iters = rng.choice([20, 40, 60])
        k1, k2 = rng.randrange(len(allocs)), rng.randrange(len(allocs))
        ex = rng.choice(exits) % dict(last=rng.choice([2, 5, 11]))
        inner_try = rng.random() < 0.4
        use_call = rng.random() < 0.4
        body = []
        body.append(allocs[k1] % dict(k=1))
        body.append('{ %s %s %s }' % (allocs[k2] % dict(k=2), uses[k2] % dict(k=2), ex))
        if inner_try:
            kind = rng.choice(['undo', 'stop'])
            body.append('try { int[] t = [i, 2, 3]; acc += t[0]; if (i %% 5 == 0) { %s } !truth_is_defeat(i %% 7 == 3); } %s { acc += 100; }'
                        % (rng.choice(['continue;', 'break;', 'acc += 1;']), kind))
        if use_call:
            body.append('acc += helper([i, 2], i);')
        # a callee that leaves a loop holding arrays by break / continue / falling out, and has no array of its own at its return:
        # what the loop exit does not release stays on the array stack of the caller
        use_finder = rng.random() < 0.5
        if use_finder:
            body.append('acc += finder([i, 2], i);')
        # a try body that owns no array itself but calls a defeat function (chain) that is defeated while its arrays are alive:
        # the handler must put ap back to where the try began
        dcall = rng.choice(['', '', 'acc += !deep(i);', 'acc += !outer(i);', 'acc += !witharg([i, 4], i);', '!deepv(i); acc += 1;'])
        if dcall:
            body.append('try { %s } %s { acc += 1000; }' % (dcall, rng.choice(['undo', 'stop', 'stop'])))
        body.append(uses[k1] % dict(k=1))
        dfuncs = ('int !deep(int i) { int[] loc = [i, 2, 3]; byte z[(i % 3) + 1]; z[0] = 1; !truth_is_defeat(i % 3 == 1); return loc[0] + z[0]; }\n'
                  'int !outer(int i) { int w[2]; w[0] = i; int r = !deep(i + 1); return r + w[0]; }\n'
                  'int !witharg(const int[] v, int i) { !truth_is_defeat(i % 2 == 0); return v[1]; }\n'
                  'empty !deepv(int i) { bool c[11]; c[10] = true; if (c[10]) { int[] q = [i]; !truth_is_defeat(q[0] % 4 != 0); } }\n') if dcall else ''
        if use_finder:
            how = rng.choice(['if (k == i % 3) { r = tmp[0] + z[0]; break; }', 'if (k == i % 3) { r = tmp[0] + z[0]; { break; } }',
                              'if (k != i % 3) { continue; } r = tmp[1] + z[0]; break;', 'while (true) { byte q[1]; q[0] = 2; r += q[0]; break; } if (k == 1) { break; }'])
            dfuncs += ('int finder(const int[] v, int i) { int r = 0; for (int k = 0; k < 3; k += 1) { int[] tmp = [k, i + v[1]]; byte z[2]; z[0] = 1; %s } return r; }\n' % how)
        src = dfuncs + ('int helper(const int[] v, int i) { int[] loc = [v[0], i]; if (i %% 2 == 0) { return loc[1]; } byte z[3]; z[2] = 1; return v[1] + z[2]; }\n'
               'empty @is_you(int n) { int acc = 0; int[] keep = [5, 6, 7];\n for (int i = 0; i < n; i += 1) {\n  %s\n }\n'
               ' write(acc); write(\' \'); write(keep[0]); write(keep[2]); }' % ('\n  '.join(body)))
        out.append((src, [str(iters)], 'scope'))
    # callers whose own loop body holds no array (so nothing in the caller puts ap back): a callee that leaves a loop holding
    # arrays by break / continue / return, with no array of its own alive at its return
    hows = ['if (k == i % 3) { r = tmp[0] + z[0]; break; }', 'if (k == i % 3) { r = tmp[0] + z[0]; { break; } }',
            'if (k != i % 3) { continue; } r = tmp[1] + z[0]; break;', 'while (true) { byte q[1]; q[0] = 2; r += q[0]; break; } if (k == 1) { break; }',
            'if (k == 2) { r = tmp[1]; }', 'if (k == i % 3) { return tmp[0] + z[0]; }', 'try { !truth_is_defeat(k == i % 3); r += 1; } stop { r += tmp[0]; break; }',
            'try { !truth_is_defeat(k == i % 3); r += 1; } undo { r += z[0]; break; }']
    for j, how in enumerate(hows):
        for loop in ('for (int k = 0; k < 3; k += 1)', 'int k = -1; while (k < 2)'):
            inc = '' if loop.startswith('for') else 'k += 1; '
            fl = '@' if 'try' in how else ''
            src = ('int %sfinder(int i) { int r = 0; %s { %sint[] tmp = [k, i + 1]; byte z[2]; z[0] = 1; %s } return r; }\n'
                   'empty @is_you(int n) { int acc = 0; for (int i = 0; i < n; i += 1) { acc += %sfinder(i); } write(acc); }' % (fl, loop, inc, how, fl))
            out.append((src, [str(rng.choice([20, 40, 60]))], 'scope'))
    return out


# ----------------------------------------------------------------------------- C09 operator grid
def grid_values(w):
    H = 1 << (8 * w - 1)
    return [0, 1, -1, 2, -2, 127, 128, 255, 256, -128, -129, H - 1, -H, -H + 1, 10, -10, 7]


BINOPS = ['+', '-', '*', '/', '%', '==', '!=', '<', '<=', '>', '>=']


def operator_programs(w):
    """one program per operator/cast; operands come from the command line; the result is
    observed in value position, in branch position and in defeat position, with operands in
    several storage classes"""
    progs = []

    def three(expr_of, ty='int', name=''):
        """expr_of(a, b) -> expression text using operand texts"""
        shows = {'int': 'write(%s);', 'bool': 'write(%s);', 'byte': 'write((%s) is int);'}
        lines = ['int ga = 0; int gb = 0;',
                 'empty @is_you(int a, int b) {', '  ga = a; gb = b; int[] arr = [a, b]; byte ba = a is byte; byte bb = b is byte;']
        forms = [('a', 'b'), ('ga', 'gb'), ('arr[0]', 'arr[1]'), ('a', 'gb')]
        for x, y in forms:
            e = expr_of(x, y)
            lines.append('  ' + shows[ty] % e + " write(' ');")
            cond = e if ty == 'bool' else '(%s) is bool' % e
            lines.append('  if (%s) { write("T"); } else { write("F"); }' % cond)
            lines.append('  try { !truth_is_defeat(%s); write("n"); } undo { write("d"); }' % cond)
            lines.append('  while (%s) { write("w"); break; }' % cond)
            if ty == 'bool':
                lines.append('  bool v%d = %s; write(v%d); write(not v%d);' % (len(lines), e, len(lines), len(lines)))
                lines.append('  if (not (%s)) { write("N"); }' % e)
            lines.append("  write(';');")
        lines.append('}')
        progs.append((name, '\n'.join(lines)))

    for op in BINOPS:
        ty = 'int' if op in '+-*/%' else 'bool'
        three(lambda x, y, op=op: '%s %s %s' % (x, op, y), ty, 'bin' + op)
    # one operand a literal (a lowering may special-case identity or absorbing operands - on the correct side only)
    for op in BINOPS:
        ty = 'int' if op in '+-*/%' else 'bool'
        for c in ('0', '1', '(-1)', '2', '255', '256'):
            three(lambda x, y, op=op, c=c: '%s %s %s' % (c, op, x), ty, 'lit%s%s_l' % (c, op))
            if not (op in '/%' and c == '0'):
                three(lambda x, y, op=op, c=c: '%s %s %s' % (x, op, c), ty, 'lit%s%s_r' % (c, op))
    three(lambda x, y: '-%s' % x, 'int', 'neg')
    three(lambda x, y: '+%s' % x, 'int', 'pos')
    three(lambda x, y: '(%s != 0) and (%s != 0)' % (x, y), 'bool', 'and')
    three(lambda x, y: '(%s != 0) or (%s != 0)' % (x, y), 'bool', 'or')
    for op in ('==', '!=', '<', '<=', '>', '>='):
        # the negation of every comparison, in value, branch and defeat position (a lowering may rewrite `not (x op y)`)
        three(lambda x, y, op=op: 'not (%s %s %s)' % (x, op, y), 'bool', 'not' + op)
    three(lambda x, y: 'not ((%s > 0) and (%s > 0))' % (x, y), 'bool', 'notand')
    three(lambda x, y: 'not ((%s > 0) or (%s > 0))' % (x, y), 'bool', 'notor')
    three(lambda x, y: 'not (not (%s <= %s))' % (x, y), 'bool', 'notnot')
    three(lambda x, y: '(%s >= %s) == (%s <= %s)' % (x, y, y, x), 'bool', 'cmpeq')
    three(lambda x, y: '(%s is bool) == (%s is bool)' % (x, y), 'bool', 'booleq')
    three(lambda x, y: '(%s is bool) != (%s is bool)' % (x, y), 'bool', 'boolne')
    three(lambda x, y: '%s is byte' % x, 'byte', 'int2byte')
    three(lambda x, y: '(%s is byte) is int' % x, 'int', 'byte2int')
    three(lambda x, y: '%s is bool' % x, 'bool', 'int2bool')
    three(lambda x, y: '(%s is byte) is bool' % x, 'bool', 'byte2bool')
    three(lambda x, y: '(%s is bool) is int' % x, 'int', 'bool2int')
    three(lambda x, y: '(%s is bool) is byte' % x, 'byte', 'bool2byte')
    three(lambda x, y: '(%s is byte) + (%s is byte)' % (x, y), 'int', 'byteadd')
    three(lambda x, y: '((%s is byte) - (%s is byte)) is byte' % (x, y), 'byte', 'bytesub_trunc')
    three(lambda x, y: '(%s * %s) / (%s + 3)' % (x, y, y), 'int', 'mixed')
    # `.length` of arrays whose length the compiler knows, narrowed to byte and used directly (value, comparison, bool, branch, defeat)
    for n_ in (255, 256, 300, 511):
        lines = ['bool flags[%d]; int words[%d]; const byte[] lit = [%s];' % (n_, n_, ', '.join(['1'] * min(n_, 300))), 'empty @is_you() {', '  int[] loc = [1, 2, 3];']
        for x in ('flags', 'words', 'lit'):
            e = '(%s.length is byte)' % x
            lines += ['  write(%s + 0); write(\' \'); write(%s * 2); write(\' \'); write(%s == %d); write(%s < 256); write(%s is bool);' % (e, e, e, n_ % 256, e, e),
                      '  if (%s is bool) { write("T"); } else { write("F"); }' % e,
                      '  try { !truth_is_defeat(%s is bool); write("n"); } undo { write("d"); }' % e,
                      '  byte st_%s = %s.length is byte; write(st_%s is int); write(-%s); write(\';\');' % (x, x, x, e)]
        lines.append('}')
        progs.append(('lenbyte%d' % n_, '\n'.join(lines)))
    progs.append(('strbool', 'empty @is_you(string s, const int[] xs) { write(s is bool); write(xs is bool); if (s is bool) { write("T"); } '
                             'try { !truth_is_defeat(xs is bool); write("n"); } undo { write("d"); } write(s.length); write(xs.length); }'))
    return progs


# ----------------------------------------------------------------------------- C01 evaluation order with side effects
def order_programs(rng, n=None):
    """(src, args, tag): the left operand / index / earlier argument is a mutable variable that the right operand /
    right-hand side / later argument changes through a call; for every scalar type, storage class and consuming form.
    The language evaluates left to right, so the old value must be used."""
    out = []
    types = {'int': ('3', '11', '%s'), 'byte': ('3', '11', '%s is int'), 'bool': ('true', 'false', '%s'), 'string': ('"ab"', '"wxyz"', '%s')}
    for ty, (v0, v1, show) in types.items():
        for storage in ('global', 'local_via_array'):
            if storage == 'global':
                decl_g = '%s g = %s;\n' % (ty, v0)
                bump = ('int bump() { g = %s; return 7; }\nbyte bumpb() { g = %s; return 7; }\nbool bumpt() { g = %s; return true; }\n'
                        'string bumps() { g = %s; return "q"; }\n' % (v1, v1, v1, v1))
                pre, read = '', 'g'
            else:
                # a one-element array shared by reference: element reads are volatile in the same way
                decl_g = ''
                bump = ('int bump(%s[] a) { a[0] = %s; return 7; }\n' % (ty, v1)) if ty != 'string' else None
                if bump is None: continue
                pre, read = '%s[] ga = [%s]; ' % (ty, v0), 'ga[0]'
            call = {'global': 'bump()', 'local_via_array': 'bump(ga)'}[storage]
            forms = []
            if ty in ('int', 'byte'):
                for op in ('+', '-', '*', '<', '==', '>='):
                    forms.append(('binop_%s' % op.strip(), 'write((%s %s %s) is int);' % (read, op, call) if op in ('<', '==', '>=')
                                  else 'write(%s %s %s);' % (read, op, call)))
                forms.append(('index_store', 'byte[] cells = [97, 98, 99, 100, 101, 102, 103, 104, 105, 106, 107, 108]; cells[%s] = %s is byte; write(cells);'
                              % (read, call if storage != 'global' else 'bumpb()')))
                forms.append(('index_store_int', 'int[] cells = [1, 2, 3, 4, 5, 6, 7, 8, 9, 10, 11, 12]; cells[%s] = %s; for (int i = 0; i < 12; i += 1) { write(cells[i]); write(\' \'); }'
                              % (read, call)))
                forms.append(('args', 'show2(%s, %s);' % (read, call)))
                forms.append(('arrlit', 'int[] t = [%s, %s]; write(t[0]); write(\' \'); write(t[1]);' % (read if ty == 'int' else read + ' is int', call)))
                forms.append(('compound', 'int acc = 100; acc += %s * %s; write(acc);' % (read, call)))
            elif ty == 'bool':
                tcall = call if storage != 'global' else 'bumpt()'
                forms.append(('eq', 'write(%s == (%s == 7));' % (read, call)))
                forms.append(('eq_int', 'write((%s is int) == %s);' % (read, call)))
                forms.append(('args', 'showb(%s, %s);' % (read, call)))
            else:
                forms.append(('len_plus', 'write(%s.length + %s);' % (read, call)))
                forms.append(('args', 'shows(%s, %s);' % (read, call)))
            helpers = ('empty show2(int a, int b) { write(a); write(\',\'); write(b); }\n'
                       'empty showb(bool a, int b) { write(a); write(\',\'); write(b); }\n'
                       'empty shows(string a, int b) { write(a); write(\',\'); write(b); }\n')
            for tag, body in forms:
                src = decl_g + bump + helpers + 'empty @is_you() { %s%s write(\' \'); write(%s); }' % (pre, body, show % read)
                out.append((src, [], '%s_%s_%s' % (ty, storage, tag)))
    # compound element assignment whose right-hand side changes that very element (by reference, through a global array)
    ce = [
        ('int_ref', 'int bump(int[] arr, int k) { arr[k] = arr[k] + 100; return 1; }\n', 'int[] a = [1, 2, 3];', ['a[0] += bump(a, 0);', 'a[1] *= bump(a, 1) + 1;', 'a[2] -= bump(a, 2);', 'a[0] %= bump(a, 0) + 6;'],
         'write(a[0]); write(\',\'); write(a[1]); write(\',\'); write(a[2]);'),
        ('byte_ref', 'byte bump(byte[] arr, int k) { arr[k] = 50; return 2; }\n', 'byte[] a = [1, 2, 3];', ['a[0] += bump(a, 0);', 'a[1] *= bump(a, 1);'],
         'write(a[0] is int); write(\',\'); write(a[1] is int);'),
        ('int_global', 'int[] ga = [5, 6, 7];\nint bump(int k) { ga[k] = ga[k] * 10; return 3; }\n', '', ['ga[0] += bump(0);', 'ga[1] -= bump(1);', 'ga[2] /= bump(2);'],
         'write(ga[0]); write(\',\'); write(ga[1]); write(\',\'); write(ga[2]);'),
        ('int_index_moves', 'int cur = 0;\nint step() { cur += 1; return 9; }\n', 'int[] a = [1, 2, 3];', ['a[cur] += step();', 'a[cur] *= step();'],
         'write(a[0]); write(\',\'); write(a[1]); write(\',\'); write(a[2]); write(cur);'),
    ]
    ce.append(('byte_global_index_oob', 'int gi = 0;\nbyte bump() { gi = 5; return 88; }\n', 'byte buf[4]; byte canary[4]; for (int k = 0; k < 4; k += 1) { buf[k] = 46; canary[k] = 99; }',
               ['buf[gi] = bump();', 'gi = 1;', 'buf[gi] += bump();'], 'write(buf); write(\' \'); write(canary); write(gi);'))
    ce.append(('int_global_index_oob', 'int gi = 0;\nint bump() { gi = 6; return 88; }\n', 'int buf[4]; int canary[4]; for (int k = 0; k < 4; k += 1) { buf[k] = 1; canary[k] = 2; }',
               ['buf[gi] = bump();', 'gi = 1;', 'buf[gi] *= bump();'], 'write(buf[0]); write(buf[1]); write(canary[1]); write(canary[2]); write(gi);'))
    for tag, pre, decl, stmts, show in ce:
        out.append((pre + 'empty @is_you() { %s %s %s }' % (decl, ' '.join(stmts), show), [], 'compound_elem_' + tag))
    # indexing a string whose address was computed, with an index expression that needs the same scratch registers
    si = [
        ('arr_call', 'const string[] words = ["alpha", "beta", "gamma"];\nint digit(string d, int k) { return d[k] - \'0\'; }\n',
         'for (int k = 0; k < 3; k += 1) { write(words[k][digit("120", k)]); }'),
        ('arr_nested', 'const string[] words = ["alpha", "beta", "gamma"];\n', 'string d = "120"; for (int k = 0; k < 3; k += 1) { write(words[k][d[k] - \'0\']); }'),
        ('arr_boolidx', 'const string[] words = ["alpha", "beta", "gamma"];\n', 'bool[] f = [true, false, true]; for (int k = 0; k < 3; k += 1) { write(words[k][f[k] is int]); }'),
        ('global_swap', 'string g = "first";\nint swap() { g = "other"; return 0; }\n', 'write(g[swap()]); write(g);'),
        ('arr_arith', 'const string[] words = ["alpha", "beta", "gamma"];\n', 'for (int k = 0; k < 3; k += 1) { write(words[k][(k + 1) % 4]); }'),
        ('length_call', 'const string[] words = ["alpha", "beta", "gamma"];\nint two(string s) { return s.length - 2; }\n',
         'for (int k = 0; k < 3; k += 1) { write(words[k][two(words[k])]); write(words[two("abcd") - k % 2].length); }'),
    ]
    for tag, pre, body in si:
        out.append((pre + 'empty @is_you() { %s }' % body, [], 'string_index_' + tag))
    if n is not None and len(out) > n: out = rng.sample(out, n)
    # element assignment whose right-hand side changes *another* element of the same array through a call (for bool arrays the
    # neighbours share a byte: a byte read before the right-hand side ran is stale).  Always included.
    for el, v, show in (('bool', 'true', 'write(a[k]);'), ('byte', '7', 'write(a[k] is int);'), ('int', '7', 'write(a[k]);')):
        for storage in ('local', 'global', 'vla'):
            decl = {'local': '%s[] a = [%s];' % (el, ', '.join(['false' if el == 'bool' else '0'] * 16)), 'global': '', 'vla': '%s a[16]; for (int z = 0; z < 16; z += 1) { a[z] = %s; }' % (el, 'false' if el == 'bool' else '0')}[storage]
            g = ('%s[] a = [%s];\n' % (el, ', '.join(['false' if el == 'bool' else '0'] * 16))) if storage == 'global' else ''
            par = '' if storage == 'global' else '%s[] f, ' % el
            arg = '' if storage == 'global' else 'a, '
            tgt = 'a' if storage == 'global' else 'f'
            pre = g + '%s mark(%sint j) { %s[j] = %s; return %s; }\n' % (el, par, tgt, v, v)
            body = ('%s a[3] = mark(%s12); a[2] = mark(%s5); a[9] = mark(%s8); a[mark2(%s1)] = mark(%s0); '
                    'for (int k = 0; k < 16; k += 1) { %s }' % (decl, arg, arg, arg, arg, arg, show))
            pre += 'int mark2(%sint j) { %s[j] = %s; return 6; }\n' % (par, tgt, v)
            out.append((pre + 'empty @is_you() { %s }' % body, [], 'elem_rhs_effect_%s_%s' % (el, storage)))
    return out


def spec_programs():
    """(tag, src, args): `L ?? R` - R is always evaluated (its output, its effect on globals, its faults), the value is L's
    unless that makes defeat... ; L constant / variable / call, R a bare call, a call under a coercion, in arithmetic, under
    `not`, inside an index, a faulting expression"""
    out = []
    pre = ('int g = 0;\nbyte bumpb() { g += 1; write(\'b\'); return 4; }\nint bump() { g += 1; write(\'B\'); return 5; }\n'
           'bool chk() { g += 1; write(\'c\'); return true; }\nint id(int x) { return x; }\nint[] arr = [10, 20, 30];\nconst int K = 7;\n')
    lefts = {'lit': '7', 'const': 'K', 'var': 'v', 'call': 'id(v)', 'arith': '(v + 1)'}
    rights = {'bare': 'bump()', 'coerced': 'bumpb()', 'arith': 'bump() + 1', 'index': 'arr[bumpb() - 3]', 'div': '10 / d', 'oob': 'arr[d + 3]',
              'const': '9', 'var': 'd'}
    for lk, l in lefts.items():
        for rk, r in rights.items():
            src = pre + 'empty @is_you(int d) { int v = 3; int x = %s ?? %s; write(x); write(\' \'); write(g); writeln(); }\n' % (l, r)
            for d in ('0', '1'):
                out.append(('spec_%s_%s' % (lk, rk), src, [d]))
    for lk, l in (('lit', 'true'), ('var', 't')):
        for rk, r in (('not_call', 'not chk()'), ('call', 'chk()'), ('cmp', 'bump() > d')):
            src = pre + 'empty @is_you(int d) { bool t = false; bool x = %s ?? %s; write(x); write(\' \'); write(g); writeln(); }\n' % (l, r)
            out.append(('specb_%s_%s' % (lk, rk), src, ['1']))
    # the same expression in every *position* an expression can stand in (each has its own result register and its own way of
    # consuming the value): return value, either operand of arithmetic / comparison, index, array length, condition, argument,
    # compound assignment, element of an int / bool array literal, unary operand
    places = {'ret': ('int @pick(int v, int d) { return %s; }\n', 'write(@pick(3, d));'),
              'arith_l': ('', 'int v = 3; write((%s) + 1);'), 'arith_r': ('', 'int v = 3; write(100 - (%s));'),
              'cmp_l': ('', 'int v = 3; write((%s) < 6);'), 'cmp_r': ('', 'int v = 3; write(4 <= (%s));'),
              'index': ('', 'int v = 3; write(arr[(%s) % 3]);'), 'vla': ('', 'int v = 3; int a[%s]; write(a.length);'),
              'cond': ('', 'int v = 3; if ((%s) > 4) { write("gt"); } else { write("le"); }'),
              'while': ('', 'int v = 3; int n = 0; while ((%s) > 4 and n < 2) { n += 1; write(\'w\'); }'),
              'arg': ('', 'int v = 3; write(id(%s));'), 'arg2': ('int sub(int a, int b) { return a - b; }\n', 'int v = 3; write(sub(%s, 1)); write(\' \'); write(sub(50, %s));'),
              'iadd': ('', 'int v = 3; int x = 40; x += %s; write(x);'), 'elem': ('', 'int v = 3; int[] a = [1, %s, 3]; write(a[1]);'),
              'elem0': ('', 'int v = 3; int[] a = [%s, v]; write(a[0]);'), 'neg': ('', 'int v = 3; write(-(%s));'),
              'store': ('', 'int v = 3; int[] a = [0, 0]; a[1] = %s; write(a[1]);'), 'gstore': ('int gx = 0;\n', 'int v = 3; gx = %s; write(gx);')}
    for pk, (extra, body) in places.items():
        for lk in ('var', 'call', 'arith'):
            for rk in ('bare', 'var', 'coerced', 'div', 'arith'):
                e = '%s ?? %s' % (lefts[lk], rights[rk])
                src = pre + extra.replace('%s', e) + 'empty @is_you(int d) { %s write(\' \'); write(g); writeln(); }\n' % body.replace('%s', e)
                for d in ('0', '3'):
                    out.append(('specp_%s_%s_%s' % (pk, lk, rk), src, [d]))
    bplaces = {'ret': ('bool @pickb(bool t, int d) { return %s; }\n', 'write(@pickb(false, d));'), 'elem': ('', 'bool t = false; bool[] a = [true, %s, t]; write(a[1]); write(a[0]);'),
               'elem0': ('', 'bool t = false; bool[] a = [%s, true, false]; write(a[0]); write(a[1]);'), 'not': ('', 'bool t = false; write(not (%s));'),
               'and_l': ('', 'bool t = false; write((%s) and true);'), 'cond': ('', 'bool t = false; if (%s) { write("T"); } else { write("F"); }')}
    for pk, (extra, body) in bplaces.items():
        for l in ('t', 'true'):
            for rk, r in (('call', 'chk()'), ('cmp', 'bump() > d'), ('var', 'u')):
                e = '%s ?? %s' % (l, r)
                src = (pre + extra.replace('%s', e).replace('bool t, int d) {', 'bool t, int d) { bool u = d > 0;')
                       + 'empty @is_you(int d) { bool u = d > 0; %s write(\' \'); write(g); writeln(); }\n' % body.replace('%s', e))
                for d in ('0', '1'):
                    out.append(('specpb_%s_%s_%s' % (pk, l, rk), src, [d]))
    return out


def empty_write_programs():
    """(tag, src, args): writing things of length zero, one storage class and one print routine per program - a guard that is
    only there for the empty case shows nowhere else"""
    show = 'empty show(const byte[] a) { write(\'<\'); write(a); write(\'|\'); writeln(a); write(\'>\'); }\n'
    P = {'const_global': ('const byte[] gc = [];\n', 'write(gc); writeln(gc); show(gc);'),
         'mut_global': ('byte[] gm = [];\n', 'write(gm); writeln(gm); show(gm);'),
         'vla_global': ('byte gz[0];\n', 'write(gz); writeln(gz); show(gz);'),
         'string_global': ('string gs = "";\n', 'write(gs); writeln(gs); write(gs is byte[]); show(gs);'),
         'const_local': ('', 'const byte[] lc = []; write(lc); writeln(lc); show(lc);'),
         'mut_local': ('', 'byte[] lm = []; write(lm); writeln(lm); show(lm);'),
         'vla_local': ('', 'byte dyn[0]; write(dyn); writeln(dyn); show(dyn);'),
         'vla_dynamic': ('', 'int k = 0; byte dyn[k]; write(dyn); writeln(dyn); show(dyn);'),
         'literal': ('', 'write(""); writeln(""); show(""); write("" is byte[]); writeln("" is byte[]);'),
         'string_local': ('', 'string s = ""; write(s); writeln(s); write(s is byte[]); show(s);'),
         'string_elem': ('', 'string[] ss = ["", "a"]; write(ss[0]); writeln(ss[0]); write(ss[0] is byte[]); show(ss[0]);'),
         'returned': ('string none() { return ""; }\n', 'write(none()); writeln(none()); write(none() is byte[]); show(none());')}
    out = []
    for tag, (g, body) in P.items():
        out.append(('empty_' + tag, g + show + 'empty @is_you() { write("["); %s write("]"); }\n' % body, []))
    out.append(('empty_arg_string', show + 'empty @is_you(string s) { write("["); write(s); writeln(s); write(s is byte[]); show(s); write("]"); }\n', ['']))
    out.append(('empty_arg_bytes', show + 'empty @is_you(const byte[] d) { write("["); write(d); writeln(d); show(d); write("]"); }\n', []))
    return out


def frame_pressure_programs(rng, n):
    """programs whose frame holds live stack arrays *below* later locals, expression temporaries and call frames, and which
    print every array element and local at the end: any slot overlap (a frame peak computed too small) shows in the output at the
    stack sizes just above the minimum.  Returns (source, args) pairs; the argument is a small int used in the values."""
    out = []
    for k in range(n):
        lines = []
        helper = rng.random() < 0.6
        # write(int) has a deep frame of its own that can dominate the peak: half of the programs print through bytes only
        bytes_only = k % 2 == 0
        def show(e, el='int'):
            if el == 'byte': return '    write(%s);' % e
            if bytes_only: return '    write((((%s) %% 64 + 64) %% 64 + 48) is byte);' % e
            return '    write(%s); write(\' \');' % e
        if helper:
            lines.append('int mix(int a, int b, int c) {\n    int t = a * 3 + b;\n    int u = t - c * 2;\n    return (t + u) * 1 + c;\n}')
        byte_tail = k % 3 == 0
        if byte_tail:
            # a leaf whose deepest slots are byte-sized, initialised without a word temporary (literal / variable / element)
            nb = rng.randint(2, 7)
            body = ' '.join('byte q%d = %s;' % (j, rng.choice(['35', 'c', "'#'", 'c'])) for j in range(nb))
            lines.append('byte leaf(byte c) {\n    %s bool f = true;\n    return q%d;\n}' % (body, nb - 1))
        lines.append('empty @is_you(int n) {')
        arrays = []
        names = []
        for i in range(rng.randint(1, 3)):
            el = rng.choice(['int', 'int', 'byte'])
            ln = rng.randint(2, 6)
            vals = ', '.join(('(n + %d)' % rng.randint(0, 40)) if el == 'int' else ('(%d is byte)' % rng.randint(33, 120)) for _ in range(ln))
            a = 'a%d' % i
            lines.append('    %s[] %s = [%s];' % (el, a, vals))
            arrays.append((a, el, ln))
            # locals and temporaries pushed after the array is live
            for j in range(rng.randint(1, 4)):
                x = 'x%d_%d' % (i, j)
                src = rng.choice(['n + %d' % rng.randint(1, 9), '(n + %d) * (n + %d) - (n * %d + (n - %d) * (n + 1))' % tuple(rng.randint(1, 5) for _ in range(4)),
                                  '%s[%d] + %d' % (a, rng.randrange(ln), rng.randint(0, 5)) if el == 'int' else 'n + %d' % rng.randint(10, 20)])
                if helper and rng.random() < 0.5:
                    src = 'mix(%s, n, %d)' % (src, rng.randint(0, 9))
                lines.append('    int %s = %s;' % (x, src))
                names.append(x)
            if rng.random() < 0.5 and not bytes_only:
                lines.append('    write(n * 1000 + %d); write(\' \');' % rng.randint(0, 999))
        if byte_tail:
            lines.append('    byte vla[n + 9];')
            lines.append('    for (int k = 0; k < vla.length; k += 1) { vla[k] = (97 + k) is byte; }')
            lines.append('    byte r = leaf(33 is byte);')
            lines.append('    write(vla); write(r);')
        for a, el, ln in arrays:
            for i in range(ln):
                lines.append(show('%s[%d]' % (a, i), el))
        for x in names:
            lines.append(show(x))
        lines.append('    writeln();')
        lines.append('}')
        out.append(('\n'.join(lines) + '\n', [str(rng.choice([0, 1, 3, 7, 12]))]))
    return out


# ----------------------------------------------------------------------------- C02/C03 defeat functions shared between try blocks
def shared_defeat_programs():
    """(src, args): one defeat function used from several try blocks of different kinds, in different functions, in every
    order in which the code generator can meet them (it emits functions when they are first referenced, starting at
    @is_you): the function's defeat calls must go through the word `defeat` whoever calls it first.  The argument decides
    whether the defeat is reached."""
    out = []
    dfn = {
        'truth': 'empty !chk(int x) { !truth_is_defeat(x > 0); }',
        'plain': 'empty !chk(int x) { if (x > 0) { !is_defeat(); } }',
        'nested': 'empty !inner(int x) { !truth_is_defeat(x > 0); }\nempty !chk(int x) { write(\'i\'); !inner(x); write(\'o\'); }',
        'value': 'int !val(int x) { !truth_is_defeat(x > 0); return x + 7; }\nempty !chk(int x) { int y = !val(x); write(y); }',
    }
    stop_fn = ("empty @guard(int x) {\n    try { write('a'); !chk(x); write('b'); } stop { write('S'); }\n    write('g');\n}")
    undo_fn = ("empty @probe(int x) {\n    try { write('c'); !chk(x); write('d'); } undo { write('U'); }\n    write('p');\n}")
    mains = {
        'undo_then_stopfn': "empty @is_you(int x) {\n    try { !chk(0); write('0'); } undo { write('u'); }\n    @guard(x);\n    writeln();\n}",
        'stopfn_then_undo': "empty @is_you(int x) {\n    @guard(x);\n    try { !chk(x); write('1'); } undo { write('u'); }\n    writeln();\n}",
        'undofn_then_stopfn': "empty @is_you(int x) {\n    @probe(x);\n    @guard(x);\n    @probe(0);\n    writeln();\n}",
        'stop_inline_then_undofn': "empty @is_you(int x) {\n    try { write('a'); !chk(x); write('b'); } stop { write('S'); }\n    @probe(x);\n    writeln();\n}",
        'undo_inline_only': "empty @is_you(int x) {\n    try { write('a'); !chk(x); write('b'); } undo { write('U'); }\n    try { !chk(0); write('2'); } undo { write('V'); }\n    writeln();\n}",
        'twice_stopfn': "empty @is_you(int x) {\n    @guard(0);\n    @guard(x);\n    @guard(0);\n    writeln();\n}",
    }
    for dk, dsrc in dfn.items():
        for mk, msrc in mains.items():
            for order in (0, 1):
                parts = [dsrc, stop_fn, undo_fn] if order == 0 else [undo_fn, stop_fn, dsrc]
                src = '\n'.join(parts + [msrc]) + '\n'
                for x in ('0', '1', '5'):
                    out.append(('%s_%s_%d' % (dk, mk, order), src, [x]))
    return out


def try_exit_programs():
    """(tag, src, args): every way of leaving a try body other than by falling out of it or by defeat - `return` (with and
    without a value, the value computed by a defeat function or after one), `break` and `continue` of a loop around the try,
    `break`/`continue` of a loop inside the try followed by a defeat - for try/stop and try/undo, in value-returning and empty
    you-functions and in @is_you itself.  The argument decides whether, and where, the defeat is reached."""
    out = []
    defs = ('int !val(int x) { !truth_is_defeat(x > 3); return x + 7; }\n'
            'empty !chk(int x) { !truth_is_defeat(x > 3); }\n')
    int_bodies = {
        'ret_call': 'return !val(x);',
        'ret_call_expr': 'return 2 * !val(x) + 1;',
        'decl_then_ret': 'int r = !val(x); return r;',
        'chk_then_ret': '!chk(x); return x * 2;',
        'ret_in_if': 'if (x > 1) { return !val(x); } write(\'n\'); return 0;',
        'ret_after_loop': 'for (int i = 0; i < 3; i += 1) { if (i == x) { break; } write(i); } return !val(x);',
        'loop_break_then_defeat': 'for (int i = 0; i < 4; i += 1) { if (i == 1) { continue; } if (i == 3) { break; } write(i); } !chk(x); return x;',
    }
    for kind, hk in (('stop', 'stop'), ('undo', 'undo')):
        for tag, body in int_bodies.items():
            fn = ('int @attempt(int x) {\n    try { write(\'a\'); %s } %s { write(\'H\'); return -1; }\n}' % (body, hk))
            main = 'empty @is_you(int x) {\n    writeln(@attempt(x));\n    writeln(@attempt(1));\n    writeln(@attempt(x + 1));\n}'
            for x in ('0', '2', '3', '5'):
                out.append(('int_%s_%s' % (kind, tag), defs + fn + '\n' + main + '\n', [x]))
        # empty you-function: bare return, and falling through after the handler
        fn = ('empty @step(int x) {\n    try { write(\'a\'); if (x == 2) { return; } !chk(x); write(\'b\'); } %s { write(\'H\'); }\n    write(\'s\');\n}' % hk)
        main = 'empty @is_you(int x) {\n    @step(x);\n    @step(2);\n    @step(x + 2);\n    writeln();\n}'
        for x in ('0', '2', '5'):
            out.append(('empty_%s_ret' % kind, defs + fn + '\n' + main + '\n', [x]))
        # leaving the try with break / continue of a loop around it; the next iteration defeats (or not)
        loops = {
            'break_out': 'for (int i = 0; i < 4; i += 1) {\n        try { write(i); if (i == 1) { break; } !chk(x + i); write(\'b\'); } %s { write(\'H\'); }\n        write(\'e\');\n    }',
            'continue_out': 'for (int i = 0; i < 4; i += 1) {\n        try { write(i); if (i == 1) { continue; } !chk(x + i); write(\'b\'); } %s { write(\'H\'); }\n        write(\'e\');\n    }',
            'while_break': 'int i = 0;\n    while (true) {\n        i += 1;\n        try { write(i); if (i == 3) { break; } !chk(x + i); write(\'b\'); } %s { write(\'H\'); }\n    }',
        }
        for tag, lp in loops.items():
            for where in ('fn', 'main'):
                if where == 'fn':
                    src = defs + 'empty @run(int x) {\n    %s\n    write(\'r\');\n}\nempty @is_you(int x) {\n    @run(x);\n    @run(0);\n    writeln();\n}\n' % (lp % hk)
                else:
                    src = defs + 'empty @is_you(int x) {\n    %s\n    writeln();\n}\n' % (lp % hk)
                for x in ('0', '2', '4'):
                    out.append(('loop_%s_%s_%s' % (kind, tag, where), src, [x]))
        # is_you itself returns out of a try
        src = defs + 'empty @is_you(int x) {\n    try { write(\'a\'); if (x == 0) { return; } !chk(x); write(\'b\'); return; } %s { write(\'H\'); }\n    writeln(\'z\');\n}\n' % hk
        for x in ('0', '2', '5'):
            out.append(('main_%s_ret' % kind, src, [x]))
    return out


def preempt_programs():
    """(tag, src, args): `preempt` in every position it is allowed in - directly in a try body, in a defeat function called from
    a try body, in a defeat function called from another defeat function - under try/stop and try/undo, with a preempt body
    that is observable, where skipping the preempt makes defeat unavoidable or not; the argument decides.  (A preemptive defeat
    function that returns before the defeat faults with nonlocal_preempt in checked builds - those runs are for the fault
    checks; the others must behave the same in both builds.)"""
    out = []
    fns = {
        'direct': ('', 'preempt { write(\'P\'); x -= 2; } !truth_is_defeat(x > 3); write(\'k\');'),
        'in_dfn': ('empty !guard(int x) { preempt { write(\'P\'); x -= 2; } !truth_is_defeat(x > 3); write(\'g\'); }\n', '!guard(x); write(\'k\');'),
        'nested_dfn': ('empty !inner(int x) { preempt { write(\'Q\'); x -= 1; } !truth_is_defeat(x > 4); }\n'
                       'empty !guard(int x) { write(\'i\'); !inner(x); write(\'o\'); }\n', '!guard(x); write(\'k\');'),
        'dfn_twice': ('empty !guard(int x) { preempt { write(\'P\'); x -= 2; } !truth_is_defeat(x > 3); }\n', '!guard(x - 2); write(\'m\'); !guard(x); write(\'k\');'),
        'dfn_loop': ('empty !guard(int x) { for (int i = 0; i < 2; i += 1) { preempt { write(\'P\'); x -= 1; } } !truth_is_defeat(x > 3); }\n', '!guard(x); write(\'k\');'),
        'value_dfn': ('int !pick(int x) { preempt { write(\'P\'); x = 0; } !truth_is_defeat(x > 5); return x + 1; }\n', 'int y = !pick(x); write(y);'),
        'leave_break': ('', 'for (int i = 0; i < 5; i += 1) { write(i); preempt { break; } } !truth_is_defeat(x > 3); write(\'k\');'),
        'leave_continue': ('', 'for (int i = 0; i < 4; i += 1) { preempt { write(\'P\'); continue; } write(i); } !truth_is_defeat(x > 3); write(\'k\');'),
        'leave_defeat': ('', 'for (int i = 0; i < 4; i += 1) { write(i); preempt { !is_defeat(); } } !truth_is_defeat(x > 3); write(\'k\');'),
        'leave_break_dfn': ('empty !scan(int x) { for (int i = 0; i < 5; i += 1) { write(i); preempt { break; } } !truth_is_defeat(x > 3); write(\'g\'); }\n', '!scan(x); write(\'k\');'),
        'leave_return_dfn': ('empty !early(int x) { write(\'e\'); preempt { write(\'P\'); return; } write(\'l\'); !truth_is_defeat(x > 3); }\n', '!early(x); !truth_is_defeat(x > 8); write(\'k\');'),
        'preempt_only_helps': ('empty !guard(int x) { preempt { write(\'P\'); x = 0; } !truth_is_defeat(x > 3); write(\'g\'); }\n', '!guard(x); write(\'k\');'),
    }
    for hk in ('stop', 'undo'):
        for tag, (pre, body) in fns.items():
            for where in ('main', 'fn'):
                if where == 'main':
                    src = pre + 'empty @is_you(int x) {\n    write(\'s\');\n    try { write(\'t\'); %s } %s { write(\'H\'); }\n    writeln(\'e\');\n}\n' % (body, hk)
                else:
                    src = (pre + 'empty @run(int x) {\n    try { write(\'t\'); %s } %s { write(\'H\'); }\n    write(\'r\');\n}\n'
                           'empty @is_you(int x) {\n    @run(x);\n    @run(1);\n    @run(x + 1);\n    writeln(\'e\');\n}\n' % (body, hk))
                for x in ('1', '4', '5', '6', '9'):
                    out.append(('pre_%s_%s_%s' % (hk, tag, where), src, [x]))
    return out


def exprstmt_programs():
    """(tag, src, args): expression statements whose root is not a call but which contain one (an operator, a cast, an index, a
    literal, `??`), for-loop clauses of that shape, conditions that are evaluated for their effect only: every call runs once"""
    out = []
    pre = ('int ticks = 0;\nint tick() { write(\'t\'); ticks += 1; return 3; }\nbool tickb() { write(\'b\'); ticks += 1; return true; }\n'
           'int[] arr = [1, 2, 3, 4, 5];\n')
    stmts = {'neg': '-tick();', 'arith': 'tick() + 1;', 'mul': '2 * tick() * tick();', 'index': 'arr[tick()];', 'len': '[tick(), 2].length;',
             'cast': 'tick() is byte;', 'tobool': 'tick() is bool;', 'not': 'not tickb();', 'cmp': 'tick() < 5;', 'and': 'tickb() and tickb();',
             'or': 'tickb() or tickb();', 'lit': '[tick()];', 'paren': '(tick());', 'eq': 'tickb() == tickb();', 'spec': 'tick() ?? 0;',
             'spec2': '0 ?? tick();', 'call': 'tick();'}
    for tag, st in stmts.items():
        src = pre + 'empty @is_you(int d) { %s %s write(\' \'); write(ticks); writeln(); }\n' % (st, st)
        out.append(('xs_' + tag, src, ['1']))
    out.append(('xs_for_clause', pre + 'empty @is_you(int d) { for (int i = 0; i < 3; tick() + 1) { i += 1; write(i); } write(ticks); writeln(); }\n', ['1']))
    out.append(('xs_for_clause2', pre + 'empty @is_you(int d) { for (-tick(); ticks < 4; arr[tick()]) { write(\'.\'); } write(ticks); writeln(); }\n', ['1']))
    out.append(('xs_in_fn', pre + 'empty run() { -tick(); arr[tick()]; tick() is bool; }\nempty @is_you(int d) { run(); run(); write(ticks); writeln(); }\n', ['1']))
    out.append(('xs_fault', pre + 'empty @is_you(int d) { write(\'p\'); arr[tick() + d + 2]; 10 / (d - 1); write(\'q\'); writeln(); }\n', ['1']))
    return out
