#!/usr/bin/env python3
"""write MANIFEST.json from the property registry below"""
import json, os
VERIF = os.path.dirname(os.path.dirname(os.path.abspath(__file__)))
NOTE = ("Trusted: Lean kernel (axioms propext, Classical.choice, Quot.sound only); the Sphinx ISA model (assumptions A1-A8, "
        "real emulator unavailable, cross-validated on the 52 upstream recorded outputs); the HiD reference semantics as a reading of "
        "README.rst; the translator tools/extract.py (double-derived by asmcheck / tabulation); the differential harness only "
        "validates the model and searches for replays.")
CLAIMS = {
 'C17': ("proof", "Kernel-checked theorems about the regenerated library code (Gen.code_write_*) for every word size w>=2, every word value "
         "and every caller state: write(int) prints exactly the signed decimal (sign, no leading zeros, minimum integer) and returns with "
         "memory unchanged outside its registers and digit buffer. Call sites in whole programs, strings/byte arrays/bool and the "
         "exactly-full stack are validated by running real hidc output on the Lean VM against the reference machine (all 65536 16-bit values).",
         "machine-checked proof (Lean 4) over translator-regenerated library code + differential validation", "6 C17"),
}
CLAIMS.update({
 'C01': ("proof", "Proof, partial. Proved (Lean, all word sizes and values): both machines are instances of one prophetic semantics whose "
         "backtracking driver is sound (run_sound), so every VM / reference-machine verdict is a statement about Exec and Halts; committed "
         "traces are unique; the generator's arith_map/compare_map (regenerated each run) agree with the reference operators including "
         "division by zero; reaching all_is_win is [flag win] + terminal loop; write(int) is correct. PROVED end to end for the sequential "
         "integer core (int locals, arithmetic, comparisons/and/or/not, declarations, assignments, write/writeln, blocks, if, loops, "
         "return, break/continue, try/undo with defeat calls, int parameters of the entry point, user functions with calls and recursion): core_semantic_preservation - the model Compiler/Core.lean of the code generator, checked on every run to be IDENTICAL "
         "to the assembled output of the real compiler, performs exactly the events of the source semantics, for every program, word "
         "size, stack size, argument vector and build mode. NOT proved beyond the core (arrays, bytes, strings, globals, preempt/stop): validated by running "
         "real hidc output on the Lean VM against the reference machine on generated programs, the examples and the 52 upstream "
         "recorded outputs.", "machine-checked proof (Lean 4) of semantics framework, tables and library + differential validation of whole programs", "6 C01"),
 'C02': ("proof", "Proof, partial. The construct laws (undo/preempt/stop/?? as Turing jumps: taken iff the other branch Defeats; a caught "
         "defeat restores environment, continuation and real defeat) are theorems about the reference semantics; the generic jump/Reach "
         "calculus and driver soundness are proved once for source and target. For the sequential integer core with try/undo and defeat "
         "calls the compiled code is PROVED to realise the undo semantics end to end (core_try_undo_correct: the Turing jump over the "
         "try body is taken exactly when the body would be defeated; model identical to the real compiler's output, checked every run), "
         "and so is try/stop with !is_defeat(), !truth_is_defeat(c) and calls of defeat functions from try/stop and try/undo bodies (defeat reached any number of frames down) under any control flow (core_try_stop_correct: variable defeat handler, the body's effects up "
         "to the defeat call kept, fp/ap restored in the handler). Exits out of try/stop bodies (return/break/continue), "
         "preempt, ??, defeat functions and histories of try blocks in whole programs are validated differentially (history "
         "templates, defeat inside defeat functions, ?? into globals).", "machine-checked proof (Lean 4) of the construct laws + differential validation", "6 C02"),
 'C03': ("proof", "Proof, partial. Proved for the regenerated library and tables, all w>=2: the win/error/fault entry points never halt and "
         "emit exactly their flags; halt_inversion is logical negation on all ten conditional halts; goto never commits its halt; the five print "
         "routines of the library (write_int, write_string, write_const_byte_array, write_state_byte_array, write_bool), called according to "
         "the calling convention, halt iff the caller's continuation does - every length, zero included (library_writes_never_halt); a VM "
         "verdict `halted` would exhibit Halts init (driver soundness). Whole-program non-halting is PROVED for the sequential integer core "
         "(core_never_halts, core_overflow_never_halts; model tied by the exact core correspondence) and validated beyond it: no "
         "generated program in any build ever yields a committed halt.", "machine-checked proof (Lean 4) + exhaustive-outcome validation on generated programs", "6 C03"),
 'C04': ("proof", "Proof, partial. Proved for all w and values: the function-entry stack guard passes iff the frame fits (no wrap), the "
         "unsigned index check is the two-sided bounds check, sane lengths cannot wrap, write(int) touches only its registers and digit "
         "buffer; the digit buffer the compiler accounts for suffices for every word size (2^100000 < 10^30103). For the sequential integer "
         "core (incl. user functions and recursion) the stack check is proved exact end to end, at the entry point and at every call at any depth "
         "(core_stack_check_exact, core_call_stack_check + core_semantic_preservation: fits => every access in "
         "frame, else stack_overflow first). Beyond the core the whole-program invariant is validated by the Lean access monitor at the "
         "minimal succeeding stack size S+8,S+1,S,S-1.",
         "machine-checked proof (Lean 4) of guard templates and library footprint + monitored execution at tight stacks", "6 C04"),
 'C05': ("proof", "Proof of exactness for every guard template (division, index, length, stack): passes iff the condition holds, otherwise "
         "exactly [flag kind, flag error] then the terminal loop, before the guarded instruction - all w>=2, all operand values. The "
         "templates are tied to the generator by a conformance check on every compiled program; for division by zero in the sequential "
         "integer core the whole-program statement is proved (core_division_by_zero); otherwise placement in whole programs is validated "
         "by fault injection over operator x element type x storage class x access form.", "machine-checked proof (Lean 4) of guard templates + conformance + fault injection", "6 C05"),
 'C15': ("proof", "Proof, partial. guards_are_observers: each runtime check that passes hands over exactly the memory it found (the "
         "scratch write of the stack guard is on the path not taken) - all w, all values. For the sequential integer core, equality of "
         "the two builds on fault-free runs is PROVED (core_unchecked_same); beyond it, it is validated by running both builds.", "machine-checked proof (Lean 4) of guard templates + two-build differential", "6 C15"),
})
CLAIMS.update({
 'C09': ("proof", "Proof. For the whole value space (all a, b < 2^n) and every w>=2: the regenerated arith_map/compare_map compute the reference "
         "operators (incl. division by zero), halt_inversion is negation, the two-sided branch template goes to the true side iff the "
         "comparison holds, IntToBool normalises to strict 0/1, not/neg are the emitted subtractions, byte access is truncation. Templates "
         "are tied to the generator by the conformance check; the named boundary grid x three positions x storage classes x w in {2,3,4} "
         "is additionally executed through real hidc on the Lean VM.", "machine-checked proof (Lean 4) over regenerated tables and templates + boundary-grid execution", "6 C09"),
 'C13': ("proof", "Proof. escape_roundtrip: for every byte string and both quote characters the assembler reads back exactly the bytes that "
         "_escape_bytes (transcribed from the source by py2lean on every run and re-executed against Python on its whole domain) escaped; "
         "the escaped text is printable ASCII. pack_bools_spec: for every list of booleans the transcribed pack_bools (same translator, "
         "executed against Python on all 0/1 lists up to length 11 every run) yields ceil(n/8) bytes below 256 in which bit j%8 of byte j/8 is "
         "element j and every other bit is clear (invariant over the loop). Data sections of whole programs (strings, chars, const int/byte/bool/string arrays, all "
         "lengths) are validated through real hidc, the Lean assembler and VM.", "machine-checked proof (Lean 4) over a transcribed function + data-section execution", "6 C13"),
 'C14': ("proof", "Proof of the conditional theorem, known finding for the unconditional one. fold_agrees_partial: for every constant "
         "expression whose exact evaluation stays inside the signed word range, folding (model evalZ, tied to the real typechecker by a "
         "correspondence suite) equals run-time evaluation, for every word size; compile-time division errors only where the run-time "
         "faults. The unconditional statement is proved FALSE (D6, (32767+1)/2) and reported as KNOWN-FINDING; twin programs search for "
         "any other mechanism.", "machine-checked proof (Lean 4) + twin-program search with known-finding classifier", "6 C14"),
})
CLAIMS.update({
 'C08': ("proof", "Proof, partial. Proved (all w, all values): the allocate/release pair around an array literal restores ap, the call/"
         "end_call pair restores fp, a caught defeat re-enters the handler with the try's environment and continuation. The whole-program "
         "statement is validated: the minimal stack size of scope-stress programs must not grow with the iteration count (a leak does), the "
         "Lean monitor checks that ap is identical at every arrival at a loop head within an activation, and behaviour equals the reference. "
         "For the verified core (int locals, blocks, loops, calls, recursion; no arrays) the whole statement is PROVED: "
         "core_scope_exit_restores_frame - however a statement list is left (fall-through, return, return e; any iteration count, any "
         "call depth) fp, ap and all memory from fp up are what they were on entry; model tied by the exact core correspondence.",
         "machine-checked proof (Lean 4) of the release pairs + monitored execution and minimal-stack search", "6 C08"),
 'C18': ("proof", "Proof, partial. Proved: committed step and trace of either machine are unique (a run is a function of program and input); "
         "the stack guard is monotone in the free space; for the verified core (functions, recursion, arguments) a run that completes at "
         "stack size S performs exactly the same events at every S' >= S (core_larger_stack_same, every program, input, w, build mode). "
         "Observed, not proved (runtime behaviour outside any model): byte-identical compiler "
         "output across fresh interpreter processes and hash seeds. Validated: behaviour unchanged above the minimal stack size, output "
         "differing only in the .zero directive, agreement across word sizes for value-bounded programs, --lint rejects or changes nothing.",
         "machine-checked proof (Lean 4) of determinism + cross-configuration differential", "6 C18"),
})
CLAIMS.update({
 'C06': ("proof", "Proof, partial. Proved over the regenerated grammar tables: the transcribed context expressions equal Python's IntFlag "
         "evaluation on every valid context value; the set of reachable contexts is closed; the permissions of you / try-body / handler / "
         "?? operand / defeat / ordinary / global contexts and the loop flag equal the documented table (kernel-evaluated over all "
         "reachable contexts); the context tests of the grammar are pinned. The Lean parser model uses exactly these definitions and is "
         "tied to hidc.parser by the parse suite (trees, error class, error position). SOUNDNESS of whole parses is proved for every source "
         "text (accepted_programs_respect_the_rules: by induction on the fuel of all 20 parser functions every returned tree satisfies the "
         "context discipline, and by induction on that derivation the documented rules - stated position by position in the words of the "
         "documentation, no context numbers - hold in every function body and global initialiser). Completeness (every rule-abiding "
         "program is accepted) is validated by exhaustive placement enumeration against an independent permission table, not proved.",
         "machine-checked proof (Lean 4) over regenerated context algebra + exhaustive placement enumeration", "6 C06"),
 'C07': ("proof", "Proof, partial. Proved about the typechecker model (tied by the tc suite: identical typed trees / error class on generated "
         "programs, type mutations and ~300 repository test snippets): coercion lattice and explicit-cast table equal the documented ones on "
         "all 15 scalar/array types; literal shrinkability and its loss on substitution and explicit cast; overload resolution = exact "
         "match, else first declared overload all arguments are coercible to (resolve_spec); narrowing and const-array rejections; "
         "type soundness accepted_programs_are_well_typed (induction over parse trees, every source text): whatever parser and typechecker "
         "accept has a typed tree obeying the rule predicate wtProg (exact argument/parameter types of a declared overload, int/bool operands, "
         "mutable assignment targets, return agreement, scalar non-empty array elements, cast table, no nested arrays). "
         "Completeness w.r.t. a declarative typing relation is not proved; more than 800 rule programs and 1920 overload calls are executed.",
         "machine-checked proof (Lean 4) about a hand-written model + typed-tree correspondence", "6 C07"),
 'C10': ("proof", "Proof, partial. The front-end models are total Lean functions tied to the implementation on error class and position; "
         "parse_never_runs_out_of_fuel (induction over the 25 grammar functions, every source text): the parser model's explicit fuel is never "
         "exhausted, so parse_total is three-way: tree, located lexer error or located parser error; front_end_total (induction over parse trees, every source text): the front end "
         "answers a located lexer/parser error, a type error or a typed tree - typechecker_never_internal: neither the BREAK/DEFEAT "
         "assertions of FuncDefinition.evaluate, nor the cast/Volatile assertions, nor an unknown operator class can be reached; "
         "string/character data can never make the output unassemblable (escape round trip). NOT MODELLED (runtime): exit status, stderr and "
         "output file of the hidc process are observed on the real command-line tool; absence of internal exceptions on four input "
         "streams x option combinations is validated in-process, every accepted output is assembled by the Lean assembler.",
         "machine-checked proof (Lean 4) of model totality and rendering + totality search in-process and on the CLI", "6 C10"),
 'C11': ("proof", "Proof. levels_documented: the operator tables regenerated from grammar.py equal the documented table and levels are "
         "disjoint. documented_grouping (induction over all expression trees, unbounded depth): for every expression built from literals, "
         "variables, indexing, .length, prefix operators, scalar `is` casts, the five binary levels and any parentheses, printing it with "
         "exactly the parentheses the documented precedence and left-associativity require and parsing the tokens with the model of "
         "hidc.parser (ps_expr and the functions below it, explicit fuel) returns exactly that tree and leaves the continuation untouched. "
         "The model is tied to hidc.parser by the parse suite; the round trip through the real lexer and parser is additionally executed "
         "on all operator pairs, all triples (thorough) and random trees against an independent precedence-climbing parser (this also "
         "covers calls, array literals, array casts and ??, which the proved fragment does not).",
         "machine-checked proof (Lean 4): inductive print/parse round trip over regenerated precedence tables + exhaustive pair/triple enumeration", "6 C11"),
 'C12': ("proof", "Proof, partial. Proved about the lexer model instantiated with the tables and Unicode classes regenerated from the running "
         "Python: integer literals for every digit string, base and underscore placement; keyword/flavour classification of the whole "
         "keyword table; longest symbol match independent of the order among equal-length symbols (the source's set-order dependence); "
         "escape table; layout independence and span exactness (lex_of_layout, layout_independence, span_exact: for every source whose lines "
         "are sequences of token texts, each preceded by a possibly EMPTY white-space separator and each reading as its token in front of the "
         "rest of its line (ReadsAs), with optional trailing comments and any line breaks, lex returns exactly "
         "those tokens in order, each span covering exactly its text, by induction over lines and tokens. ReadsAs is proved, with the token "
         "value denoted, for every symbol (maximal munch: in front of any continuation of which no longer symbol is a prefix), every "
         "keyword and identifier (plain, @ and ! flavoured; in front of any non-word character), every decimal / 0x / 0o / 0b literal with "
         "single underscores between digits - ASCII or any Unicode digit the lexer accepts (in front of anything that does not continue the digit class), every string literal "
         "with simple, \\xHH and \\u{...} escapes and every plain or escaped one-byte character literal (in front of anything); so sources written without any "
         "white space between tokens are covered). The model is tied by the lex suite (tokens, spans, error positions); an "
         "independent integer-literal and escape oracle and the re-layout searcher run on the real lexer. Not proved: the converse (that every text "
         "the lexer accepts as a token has one of these forms); the re-layout searcher runs arbitrary token texts through the real lexer.", "machine-checked proof (Lean 4) about a hand-written model + token-level correspondence", "6 C12"),
 'C16': ("proof", "Proof of (a) and (c): for every well-formed block, exit modes lacking NONE imply the block cannot complete normally, and "
         "whatever follows such a prefix is unreachable - against an abstract control-flow semantics in which every condition may go either "
         "way and every statement that evaluates an expression may be defeated (induction over derivations, all programs). The analysis "
         "model is tied to blocks.py by recomputing the mode of every block of every accepted function. (b) PROVED for every source text: "
         "accepted_function_never_falls_off - the modes the typechecker model writes into its tree are that analysis of the statements it "
         "kept (tcStmt_link), so no function body of an accepted program can complete normally (a missing return is rejected, an empty "
         "function gets its return appended); (d) the machine-level statement is PROVED for "
         "the verified core (functions laid out one after another: core_entry_never_falls_off, core_activation_returns_to_caller, and "
         "C01.core_semantic_preservation, whose trace equality excludes running into the next function) and validated beyond it by the "
         "fall-through monitor.", "machine-checked proof (Lean 4) of the exit-mode analysis + mode correspondence + VM monitor", "6 C16"),
})
PENDING = {}
def main():
    props = [json.loads(l) for l in open(os.path.join(VERIF, 'properties.jsonl'))]
    checks, na = [], []
    for p in props:
        pid = p['id']
        if pid in CLAIMS:
            cat, text, tech, ref = CLAIMS[pid]
            checks.append(dict(property_id=pid, quick_cmd='./check %s --tier quick' % pid,
                               thorough_cmd='./check %s --tier thorough' % pid,
                               evidence_file='evidence/%s.json' % pid,
                               replay_cmd_template='./check %s --replay {path}' % pid, engine='lean',
                               level_claimed=dict(category=cat, text=text, design_ref='DESIGN.md section ' + ref),
                               level_note=NOTE, technique=tech))
        else:
            na.append(dict(property_id=pid, reason=PENDING.get(pid, 'check under construction in this session; not claimed yet')))
    m = json.load(open(os.path.join(VERIF, 'MANIFEST.json')))
    m['checks'] = checks
    m['not_applicable'] = na
    json.dump(m, open(os.path.join(VERIF, 'MANIFEST.json'), 'w'), indent=1)
    print(len(checks), 'checks,', len(na), 'not claimed')
if __name__ == '__main__':
    main()
