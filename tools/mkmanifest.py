#!/usr/bin/env python3
"""write MANIFEST.json from the property registry below"""
import json, os
VERIF = os.path.dirname(os.path.dirname(os.path.abspath(__file__)))
NOTE = ("Trusted: Lean kernel (axioms propext, Classical.choice, Quot.sound only); the Sphinx ISA model (assumptions A1-A8, "
        "real emulator unavailable, cross-validated on the 52 upstream recorded outputs); the HiD reference semantics as a reading of "
        "README.rst; the translator tools/extract.py (double-derived by asmcheck / tabulation); the differential harness only "
        "validates the model and searches for replays.")
CLAIMS = {
 'C17': ("proof", "Kernel-checked theorems about the regenerated library code (Gen.code_write_*) for every word size w>=2, every word value "
         "and every caller state: write(int) prints exactly the signed decimal (sign, no leading zeros, minimum integer) and returns with "
         "memory unchanged outside its registers and digit buffer. Call sites in whole programs, strings/byte arrays/bool and the "
         "exactly-full stack are validated by running real hidc output on the Lean VM against the reference machine (all 65536 16-bit values).",
         "machine-checked proof (Lean 4) over translator-regenerated library code + differential validation", "6 C17"),
}
PENDING = {}
def main():
    props = [json.loads(l) for l in open(os.path.join(VERIF, 'properties.jsonl'))]
    checks, na = [], []
    for p in props:
        pid = p['id']
        if pid in CLAIMS:
            cat, text, tech, ref = CLAIMS[pid]
            checks.append(dict(property_id=pid, quick_cmd='./check %s --tier quick' % pid,
                               thorough_cmd='./check %s --tier thorough' % pid,
                               evidence_file='evidence/%s.json' % pid,
                               replay_cmd_template='./check %s --replay {path}' % pid, engine='lean',
                               level_claimed=dict(category=cat, text=text, design_ref='DESIGN.md section ' + ref),
                               level_note=NOTE, technique=tech))
        else:
            na.append(dict(property_id=pid, reason=PENDING.get(pid, 'check under construction in this session; not claimed yet')))
    m = json.load(open(os.path.join(VERIF, 'MANIFEST.json')))
    m['checks'] = checks
    m['not_applicable'] = na
    json.dump(m, open(os.path.join(VERIF, 'MANIFEST.json'), 'w'), indent=1)
    print(len(checks), 'checks,', len(na), 'not claimed')
if __name__ == '__main__':
    main()
