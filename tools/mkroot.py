#!/usr/bin/env python3
"""regenerate lean/HidVerif.lean (imports every module of the development)"""
import os
LEAN = os.path.join(os.path.dirname(os.path.dirname(os.path.abspath(__file__))), 'lean')
mods = []
for root, _, files in os.walk(os.path.join(LEAN, 'HidVerif')):
    for f in sorted(files):
        if f.endswith('.lean'):
            rel = os.path.relpath(os.path.join(root, f), LEAN)[:-5].replace(os.sep, '.')
            mods.append(rel)
open(os.path.join(LEAN, 'HidVerif.lean'), 'w').write(''.join('import %s\n' % m for m in sorted(mods)))
print(len(mods), 'modules')
