#!/venv/bin/python
"""usage: tools/difffile.py file.hid [args...] [--w N] [--s N] [--unchecked]  — one program: real hidc -> Lean VM vs reference machine"""
import sys, os
sys.path.insert(0, os.path.join(os.path.dirname(os.path.abspath(__file__)), '..', 'harness'))
import hidlib, dump_ast, suites
a = sys.argv[1:]
w, s, unchecked, rest = 2, 500, False, []
while a:
    x = a.pop(0)
    if x == '--w': w = int(a.pop(0))
    elif x == '--s': s = int(a.pop(0))
    elif x == '--unchecked': unchecked = True
    else: rest.append(x)
src = open(rest[0]).read()
c = dump_ast.case('r', src, rest[1:], w=w, s=s, unchecked=unchecked)
r = hidlib.run_batch([c])['r']
print('vm       :', r['vm']); print('reference:', r['src']); print('classification:', suites.classify(r['vm'], r['src']))
