#!/bin/bash
# usage: tools/import_seed.sh <worktree> <seeded-name> <checks...>  — confirm a sub-agent's change and try the checks on it
wt=$1; name=$2; shift 2
cd $wt || exit 1
echo "--- tests with the change:"; /venv/bin/python -m pytest -q -p no:cacheprovider --continue-on-collection-errors tests 2>&1 | tail -1
if [ -f _seed/demo.py ]; then
  echo "--- demo.py WITH change:"; /venv/bin/python _seed/demo.py 2>&1 | tail -2
  git diff -- hidc > /root/scratch/import_seed.$$.diff; git apply -R /root/scratch/import_seed.$$.diff
  echo "--- demo.py WITHOUT change:"; /venv/bin/python _seed/demo.py 2>&1 | tail -2
  git apply /root/scratch/import_seed.$$.diff; rm -f /root/scratch/import_seed.$$.diff
fi
mkdir -p /verif/seeded/$name; cp -r _seed/* /verif/seeded/$name/ 2>/dev/null
git diff -- hidc > /verif/seeded/$name/patch.diff
cd /verif && tools/try_seeded.sh $name "$@"
