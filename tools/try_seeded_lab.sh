#!/bin/bash
# usage: try.sh <worktree> <name> <checks...> : copy the agent's seed into /verif/seeded/<name>, try the checks in the lab copy
wt=$1; name=$2; shift 2
lab=/root/scratch/seedlab
mkdir -p /verif/seeded/$name; cp -r $wt/_seed/* /verif/seeded/$name/ 2>/dev/null
git -C $wt diff -- hidc > /verif/seeded/$name/patch.diff
( cd $wt && echo "--- tests with the change: $(/venv/bin/python -m pytest -q -p no:cacheprovider --continue-on-collection-errors tests 2>&1 | tail -1)" )
( cd $wt && echo "--- demo WITH change: $(/venv/bin/python _seed/demo.py 2>&1 | tail -1 | cut -c1-200)" )
git -C $lab/repo checkout -q -- . ; git -C $lab/repo apply /verif/seeded/$name/patch.diff || { echo "patch does not apply"; exit 3; }
for c in "$@"; do
  out=$(cd $lab/verif && HIDC_REPO=$lab/repo ./check $c 2>&1); rc=$?
  echo "== $c exit=$rc $(echo "$out" | grep -c '^VIOLATION') violation line(s): $(echo "$out" | grep '^VIOLATION' | head -2 | tr '\n' ' ')"
done
git -C $lab/repo checkout -q -- .
(cd $lab/verif && HIDC_REPO=$lab/repo /venv/bin/python tools/extract.py >/dev/null 2>&1)
