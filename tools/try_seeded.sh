#!/bin/bash
# usage: tools/try_seeded.sh <seeded-dir-name> <check ids...>   — apply the patch to /repo, run the checks, undo
d=/verif/seeded/$1; shift
git -C /repo apply "$d/patch.diff" || { echo "patch does not apply"; exit 3; }
for c in "$@"; do
  out=$(cd /verif && ./check $c 2>&1); rc=$?
  echo "== $c exit=$rc $(echo "$out" | grep -c '^VIOLATION') violation line(s): $(echo "$out" | grep '^VIOLATION' | head -2 | tr '\n' ' ')"
done
git -C /repo checkout -- . && git -C /repo status --short | head -3
