#!/bin/bash
# usage: tools/try_seeded.sh <seeded-dir-name> <check ids...>   — apply the patch to /repo, run the checks, undo
# evidence/ is saved and restored: evidence committed in /verif only ever comes from runs against the unchanged /repo.
d=/verif/seeded/$1; shift
sav=$(mktemp -d /root/scratch/evsave.XXXXXX); cp -a /verif/evidence/. $sav/
git -C /repo apply "$d/patch.diff" || { echo "patch does not apply"; rm -rf $sav; exit 3; }
for c in "$@"; do
  out=$(cd /verif && ./check $c 2>&1); rc=$?
  echo "== $c exit=$rc $(echo "$out" | grep -c '^VIOLATION') violation line(s): $(echo "$out" | grep '^VIOLATION' | head -2 | tr '\n' ' ')"
done
git -C /repo checkout -- . && git -C /repo status --short | head -3
(cd /verif && /venv/bin/python tools/extract.py >/dev/null 2>&1)
cp -a $sav/. /verif/evidence/; rm -rf $sav
