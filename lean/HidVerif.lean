import HidVerif.Prophetic
import HidVerif.Sphinx.Isa
import HidVerif.Sphinx.Asm
import HidVerif.Sphinx.VM
import HidVerif.Hid.Ast
import HidVerif.Hid.Machine
