import HidVerif.Prophetic
import HidVerif.Sphinx.Isa
import HidVerif.Sphinx.Asm
import HidVerif.Sphinx.VM
