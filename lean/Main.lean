import HidVerif.Sphinx.VM
import HidVerif.Hid.Machine
import HidVerif.Gen.Stdlib
import HidVerif.Sphinx.Monitor
import HidVerif.Compiler.Templates
import HidVerif.Gen.Funcs
import HidVerif.Hid.Fold
import HidVerif.Hid.Lexer
import HidVerif.Hid.ParseRender
import HidVerif.Hid.TypecheckStmt
import HidVerif.Hid.ExitModes
import HidVerif.Compiler.Core
open HidVerif HidVerif.Sphinx

def bytesToLines (b : ByteArray) : List (List Char) := Id.run do
  let mut lines : Array (List Char) := #[]
  let mut cur : Array Char := #[]
  for x in b.data do
    if x == 10 then
      lines := lines.push cur.toList; cur := #[]
    else cur := cur.push (Char.ofNat x.toNat)
  if cur.size > 0 then lines := lines.push cur.toList
  return lines.toList

def hexToBytes (s : String) : List Nat :=
  let rec go : List Char → List Nat
    | a :: b :: r => (16 * (Asm.hexVal a).getD 0 + (Asm.hexVal b).getD 0) :: go r
    | _ => []
  go s.toList

structure Case where
  id : String := ""
  fuel : Nat := 2000000
  args : List (List Nat) := []
  opts : List String := []
  asm : List (List Char) := []
  ast : List (List Char) := []

/-- double derivation of the runtime library: the instruction list the translator wrote into
`Gen.stdlibCode` must be what the Lean assembler makes of the text `hidc` actually emitted -/
def asmCheck (l : Asm.Loaded) : String :=
  match l.label? "all_is_win" with
  | none => "mismatch:no-all_is_win-label"
  | some B =>
    let want := Gen.stdlibCode l.prog.w B
    let regsOk := Gen.registers.zipIdx.all (fun (r, k) => l.label? r == some (k * l.prog.w))
      && l.label? "stack_start" == some (Gen.stackStart l.prog.w)
    let labelsOk := Gen.stdlibLabels.all (fun (n, r, o) =>
      l.label? n == ((Gen.stdlibRoutines.lookup r).map (fun ro => B + ro + o)))
    if !regsOk then "mismatch:registers"
    else if !labelsOk then "mismatch:labels"
    else if B + want.length != l.prog.code.size then "mismatch:length"
    else
      match (List.range want.length).find? (fun i => l.prog.code[B + i]? != want[i]?) with
      | some i => s!"mismatch:instr{i}"
      | none => "ok"

def renderTok : Hid.Lex.Tok → String
  | .str bs => "str " ++ "".intercalate (bs.map VM.hex2)
  | .int v => s!"int {v}"
  | .chr b => s!"chr {b}"
  | .ident n fl => s!"ident {match fl with | .none => "-" | .you => "@" | .defeat => "!"} {" ".intercalate (n.map toString)}"
  | .enum n => s!"enum {n}"

def renderLex (id : String) (src : List (List Nat)) : String :=
  let (toks, ending) := Hid.Lex.lex src
  let lines := toks.map (fun x => s!"{x.start.line}:{x.start.col}-{x.stop.line}:{x.stop.col} {renderTok x.tok}")
  let e := match ending with
    | .eof c => s!"#eof {c.line}:{c.col}"
    | .error c => s!"#error {c.line}:{c.col}"
  "\n".intercalate ([s!"#case {id}"] ++ lines ++ [e])

partial def toSkel : Hid.Sexp → Option Hid.Exit.Skel
  | .list [.atom "other"] => some .other | .list [.atom "ret"] => some .ret | .list [.atom "brk"] => some .brk
  | .list [.atom "cont"] => some .cont | .list [.atom "defeat"] => some .defeat | .list [.atom "term"] => some .term
  | .list [.atom "defcall"] => some .defcall
  | .list (.atom "block" :: .atom _ :: ss) => (ss.mapM toSkel).map .block
  | .list [.atom "if", t, e] => do pure (.ifb (← toSkel t) (← toSkel e))
  | .list [.atom "loop", .atom tc, b, k] => do pure (.loop (tc == "1") (← toSkel b) (← toSkel k))
  | .list [.atom "try", b, h] => do pure (.tryb (← toSkel b) (← toSkel h))
  | .list [.atom "preempt", b] => do pure (.preempt (← toSkel b))
  | _ => none

/-- every annotated block mode must equal the model's `modes`; also reports well-formedness -/
partial def checkModes (sx : Hid.Sexp) : String :=
  let rec walk (sx : Hid.Sexp) : List String :=
    match sx with
    | .list (.atom "block" :: .atom m :: ss) =>
      let here := match toSkel sx with
        | some sk => if toString (Hid.Exit.modes sk) == m then [] else [s!"block recorded {m} model {Hid.Exit.modes sk}"]
        | none => ["unreadable"]
      here ++ ss.flatMap walk
    | .list (_ :: rest) => rest.flatMap walk
    | _ => []
  match toSkel sx with
  | none => "unreadable"
  | some sk =>
    let bad := walk sx
    if !Hid.Exit.wf sk then "not-wellformed" else if bad.isEmpty then "ok" else "mismatch " ++ "; ".intercalate bad

partial def toCExpr : Hid.Sexp → Except String Hid.CExpr
  | .list [.atom "lit", .atom v] => match v.toInt? with | some i => .ok (.lit i) | none => .error "bad literal"
  | .list [.atom "bin", .atom op, l, r] => do pure (.bin (← Hid.toBinOp op) (← toCExpr l) (← toCExpr r))
  | .list [.atom "un", .atom op, e] => do
    let op ← match op with
      | "pos" => pure Hid.UnOp.pos | "neg" => pure .neg | "not" => pure .not | s => .error s!"bad unop {s}"
    pure (.un op (← toCExpr e))
  | .list [.atom "tobyte", e] => do pure (.toByte (← toCExpr e))
  | .list [.atom "tobool", e] => do pure (.toBool (← toCExpr e))
  | s => .error s!"bad constant expression {repr s}"

/-- `core` correspondence: is the typed tree a core program, and if so is `Core.coreProg` exactly
what the Lean assembler makes of the text `hidc` emitted (code array, const section, initial
state section, entry point)?  The trace field carries the source semantics `Core.runCore`. -/
def coreCase (c : Case) : String :=
  let optNat (key : String) (dflt : Nat) : Nat :=
    (c.opts.findSome? (fun o => if o.startsWith (key ++ "=") then (o.drop (key.length + 1)).toString.toNat? else none)).getD dflt
  let text := (c.ast.map (fun l => l ++ [' '])).flatten
  match Hid.Sexp.parse text >>= Hid.toProgram with
  | .error e => s!"{c.id}\tcore\tasterror:{e.replace "\t" " "}\t0\t0\t0\t"
  | .ok prog =>
    match Core.fromAst prog with
    | none => s!"{c.id}\tcore\tnotcore\t0\t0\t0\t"
    | some pr =>
      match Asm.load c.asm c.args with
      | .error e => s!"{c.id}\tcore\tasmerror:{e.replace "\t" " "}\t0\t0\t0\t"
      | .ok l =>
        -- the arguments as the assembler reads them (base-10 integers)
        match c.args.mapM Asm.parseIntArg with
        | .error e => s!"{c.id}\tcore\tasmerror:{e}\t0\t0\t0\t"
        | .ok args =>
        let cf : Core.Config := { w := optNat "w" 2, stackWords := optNat "stackwords" 0, checked := !c.opts.contains "unchecked" }
        let m := Core.coreProg cf pr
        let i := Core.coreInit cf args pr
        let firstDiff : Option Nat := (List.range (max m.code.size l.prog.code.size)).find? (fun k => m.code[k]? != l.prog.code[k]?)
        let verdict :=
          if !(Core.wfProg pr && args.length == pr.params.length) then "diff:not-well-formed"
          else if m.w != l.prog.w then "diff:word-size"
          else if let some k := firstDiff then s!"diff:code@{k}:model={repr (m.code[k]?)}:real={repr (l.prog.code[k]?)}".replace "\n" " "
          else if m.const.data != l.prog.const.data then "diff:const"
          else if i.pc != l.init.pc then "diff:entry"
          else if i.mem.data != l.init.mem.data then s!"diff:state:model={i.mem.data.size}:real={l.init.mem.data.size}"
          else "ok"
        let tr := match Core.runCore cf c.fuel args pr with
          | none => "fuel"
          | some evs => VM.renderTrace evs.toArray
        s!"{c.id}\tcore\t{verdict}\t{m.code.size}\t{pr.funs.length}\t0\t{tr}"

def runCase (c : Case) : String :=
  if c.opts.contains "core" then coreCase c else
  let vmPart :=
    if c.asm.isEmpty then "" else
    match Asm.load c.asm c.args with
    | .error e => s!"{c.id}\tvm\tasmerror:{e.replace "\t" " "}\t0\t0\t0\t"
    | .ok l =>
      if c.opts.contains "asmcheck" then s!"{c.id}\tvm\t{asmCheck l}\t0\t0\t0\t" else
      if c.opts.contains "conform" then
        let bad := Compiler.conform l
        s!"{c.id}\tvm\t{if bad.isEmpty then "ok" else "nonconforming"}\t0\t0\t0\t{",".intercalate (bad.map (fun b => "N" ++ b.replace "," ";"))}" else
      if c.opts.contains "mon" then
        let r := Monitor.run l c.fuel
        s!"{c.id}\tvm\t{VM.renderOutcome r.outcome}\t{r.steps}\t{r.backtracks}\t{r.pending}\t{VM.renderTrace r.events}"
      else
      let r := VM.runLoaded l { fuel := c.fuel }
      s!"{c.id}\tvm\t{VM.renderOutcome r.outcome}\t{r.steps}\t{r.backtracks}\t{r.pending}\t{VM.renderTrace r.events}"
  let optNat (key : String) (dflt : Nat) : Nat :=
    (c.opts.findSome? (fun o => if o.startsWith (key ++ "=") then (o.drop (key.length + 1)).toString.toNat? else none)).getD dflt
  let srcPart :=
    if c.ast.isEmpty then "" else
    let text := (c.ast.map (fun l => l ++ [' '])).flatten
    match Hid.Sexp.parse text >>= Hid.toProgram with
    | .error e => s!"{c.id}\tsrc\tasterror:{e.replace "\t" " "}\t0\t0\t0\t"
    | .ok prog =>
      let E : Hid.Env := { w := optNat "w" 2, checked := !c.opts.contains "unchecked",
                           stackBytes := optNat "stackbytes" 1000000, prog := prog }
      match Hid.initCfg E c.args with
      | .error e => s!"{c.id}\tsrc\tiniterror:{e}\t0\t0\t0\t"
      | .ok c0 =>
        let r := (Hid.machine E).run Hid.isDone (fun _ => #[]) c.fuel c0
        s!"{c.id}\tsrc\t{VM.renderOutcome r.outcome}\t{r.steps}\t{r.backtracks}\t{r.pending}\t{VM.renderTrace r.events}"
  if vmPart != "" && srcPart != "" then vmPart ++ "\n" ++ srcPart else vmPart ++ srcPart

partial def parseBatch (ls : List (List Char)) (cur : Case) (acc : Array Case) : Array Case :=
  match ls with
  | [] => acc
  | l :: rest =>
    let s := String.ofList l
    if s.startsWith "@case " then parseBatch rest { id := (s.drop 6).toString } acc
    else if s.startsWith "@fuel " then parseBatch rest { cur with fuel := ((s.drop 6).toString.toNat?).getD cur.fuel } acc
    else if s.startsWith "@arg " then parseBatch rest { cur with args := cur.args ++ [hexToBytes (s.drop 5).toString] } acc
    else if s == "@arg" then parseBatch rest { cur with args := cur.args ++ [[]] } acc
    else if s.startsWith "@opt " then parseBatch rest { cur with opts := cur.opts ++ [(s.drop 5).toString] } acc
    else if s.startsWith "@asm " then
      let n := ((s.drop 5).toString.toNat?).getD 0
      parseBatch (rest.drop n) { cur with asm := rest.take n } acc
    else if s.startsWith "@ast " then
      let n := ((s.drop 5).toString.toNat?).getD 0
      parseBatch (rest.drop n) { cur with ast := rest.take n } acc
    else if s == "@end" then parseBatch rest {} (acc.push cur)
    else parseBatch rest cur acc

/-- run `f` on every `#case` of a code-point text file (format of `frontend.model_run`) -/
def runTexts (file : String) (f : List (List Nat) → String) : IO UInt32 := do
  let txt ← IO.FS.readFile file
  let mut cur : Option (String × List (List Nat)) := none
  let flush (c : Option (String × List (List Nat))) : IO Unit :=
    match c with
    | none => pure ()
    | some (id, ls) => IO.println s!"#case {id}\n{f ls.reverse}"
  for l in txt.splitOn "\n" do
    if l.startsWith "#case " then
      flush cur
      cur := some ((l.drop 6).toString, [])
    else if l == "#end" then
      flush cur; cur := none
    else match cur with
      | some (id, ls) => cur := some (id, ((l.splitOn " ").filterMap (fun t => t.toNat?)) :: ls)
      | none => pure ()
  flush cur
  return 0

def main (argv : List String) : IO UInt32 := do
  match argv with
  | ["batch", file] =>
    let b ← IO.FS.readBinFile file
    let cases := parseBatch (bytesToLines b) {} #[]
    let out ← IO.getStdout
    for c in cases do
      out.putStrLn (runCase c)
    return 0
  | "vm" :: file :: args =>
    let b ← IO.FS.readBinFile file
    let c : Case := { id := "vm", asm := bytesToLines b, args := args.map (fun a => a.toUTF8.data.toList.map (·.toNat)) }
    IO.println (runCase c)
    return 0
  | ["exitmodes", file] =>
    -- one skeleton per line, blocks annotated with the mode the real typechecker recorded
    let b ← IO.FS.readBinFile file
    for l in bytesToLines b do
      match Hid.Sexp.parse l with
      | .error e => IO.println s!"error {e}"
      | .ok sx => IO.println (checkModes sx)
    return 0
  | ["tc", file] => runTexts file (Hid.TC.frontEnd false)
  | ["tclint", file] => runTexts file (Hid.TC.frontEnd true)
  | ["parse", file] =>
    let txt ← IO.FS.readFile file
    let mut cur : Option (String × List (List Nat)) := none
    let flush (c : Option (String × List (List Nat))) : IO Unit :=
      match c with
      | none => pure ()
      | some (id, ls) => IO.println s!"#case {id}\n{Hid.Parse.renderParse ls.reverse}"
    for l in txt.splitOn "\n" do
      if l.startsWith "#case " then
        flush cur
        cur := some ((l.drop 6).toString, [])
      else if l == "#end" then
        flush cur; cur := none
      else match cur with
        | some (id, ls) => cur := some (id, ((l.splitOn " ").filterMap (fun t => t.toNat?)) :: ls)
        | none => pure ()
    flush cur
    return 0
  | ["lex", file] =>
    -- token streams of the lexer model; input: `#case id` then one line of space-separated code points per source line
    let txt ← IO.FS.readFile file
    let mut cur : Option (String × List (List Nat)) := none
    let flush (c : Option (String × List (List Nat))) : IO Unit :=
      match c with
      | none => pure ()
      | some (id, ls) => IO.println (renderLex id ls.reverse)
    for l in txt.splitOn "\n" do
      if l.startsWith "#case " then
        flush cur
        cur := some ((l.drop 6).toString, [])
      else if l == "#end" then
        flush cur; cur := none
      else match cur with
        | some (id, ls) =>
          let nums := (l.splitOn " ").filterMap (fun t => t.toNat?)
          cur := some (id, nums :: ls)
        | none => pure ()
    flush cur
    return 0
  | ["fold", file] =>
    -- one constant expression per line: prints the exact (compile-time) value and the
    -- run-time values at w = 2, 3, 4
    let b ← IO.FS.readBinFile file
    for l in bytesToLines b do
      match Hid.Sexp.parse l >>= toCExpr with
      | .error e => IO.println s!"error {e}"
      | .ok ce =>
        let z := match Hid.evalZ ce with | some v => toString v | none => "divzero"
        let ws := [2, 3, 4].map (fun w =>
          let E : Hid.Env := { w := w, checked := true, stackBytes := 0, prog := ⟨[], []⟩ }
          match Hid.evalW E ce with | some v => toString (E.toS v) | none => "divzero")
        IO.println s!"{z} {" ".intercalate ws}"
    return 0
  | ["escapetable"] =>
    -- the transcribed `_escape_bytes` on its whole per-byte domain, for comparison with Python
    for q in [34, 39] do
      for b in List.range 256 do
        IO.println s!"{q} {b} {"".intercalate ((Gen.escapeByte [q] b).map VM.hex2)}"
    return 0
  | ["packbools"] =>
    -- the transcribed `pack_bools` on the lists given on stdin (one list of 0/1 digits per line), for comparison with Python
    let stdin ← IO.getStdin
    let mut go := true
    while go do
      let line ← stdin.getLine
      if line.isEmpty then go := false
      else
        let bs := line.trimAscii.toString.toList.map (fun c => c.toNat - 48)
        IO.println (" ".intercalate ((Gen.packBools bs).map toString))
    return 0
  | _ =>
    IO.eprintln "usage: hidmodel batch <file> | vm <asm> [args...]"
    return 2
