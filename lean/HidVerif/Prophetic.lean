/-!
# Prophetic transition systems

Both the Sphinx machine (target) and the HiD reference machine (source) are instances of one
notion: a deterministic step function whose only form of choice is a *Turing jump*
`jump no yes`, resolved by the rule "take `yes` iff continuing with `no` would lead to `halt`".

`Halts` is the least fixed point ("would lead to halting"), `CStep`/`Exec` the committed
timeline, `Reach` the composition device used by all template and library proofs, and `run` an
executable backtracking driver for any such system (proved sound in `Proofs/Driver.lean`).

No imports: this file is part of the executable model.
-/
namespace HidVerif

/-- Observable events, shared by the source and the target machine. -/
inductive Ev
  | out (b : Nat)
  | flag (s : String)
  | sleep (ms : Nat)
  | note (s : String)     -- monitor output, never produced by a machine step
  deriving DecidableEq, Repr, Inhabited

/-- Result of one machine step. `fault` is a stuck state that is *not* a halt. -/
inductive Step (σ ε : Type) where
  | next (s : σ) (ev : Option ε)
  | halt
  | jump (no yes : σ)
  | fault (why : String)

/-- A prophetic transition system. -/
structure PSys (σ ε : Type) where
  step : σ → Step σ ε

namespace PSys
variable {σ ε : Type} (sys : PSys σ ε)

/-- "Continuing from `s` leads to halt" (least fixed point; a run that loops forever or faults
has no derivation). -/
inductive Halts : σ → Prop where
  | halt {s} : sys.step s = .halt → Halts s
  | next {s s' ev} : sys.step s = .next s' ev → Halts s' → Halts s
  | jump {s a b} : sys.step s = .jump a b → Halts a → Halts b → Halts s

/-- One step of the committed timeline. -/
inductive CStep : σ → Option ε → σ → Prop where
  | next {s s' ev} : sys.step s = .next s' ev → CStep s ev s'
  | jumpYes {s a b} : sys.step s = .jump a b → Halts sys a → CStep s none b
  | jumpNo {s a b} : sys.step s = .jump a b → ¬ Halts sys a → CStep s none a

def evl : Option ε → List ε
  | none => []
  | some e => [e]

/-- Reflexive-transitive closure of `CStep` with the emitted events. -/
inductive Exec : σ → List ε → σ → Prop where
  | refl {s} : Exec s [] s
  | step {s ev s' tr s''} : CStep sys s ev s' → Exec s' tr s'' → Exec s (evl ev ++ tr) s''

/-- `Reach s tr s'`: whatever happens after `s'`, `s` behaves as "emit `tr`, then be `s'`":
if `s'` halts so does `s`, and if `s'` does not halt then the committed run goes from `s` to
`s'` emitting exactly `tr`. -/
def Reach (s : σ) (tr : List ε) (s' : σ) : Prop :=
  (Halts sys s' → Halts sys s) ∧ (¬ Halts sys s' → Exec sys s tr s')

end PSys

/-! ## Executable driver -/

inductive Outcome where
  | terminal            -- reached a state recognised as terminal (win/error loop)
  | halted              -- committed halt: a halt with no pending Turing jump to avert it
  | fault (why : String)
  | fuel
  deriving Repr, BEq, Inhabited

structure RunResult (σ ε : Type) where
  events : Array ε
  outcome : Outcome
  final : σ
  steps : Nat           -- all steps, speculative ones included
  backtracks : Nat
  pending : Nat         -- unresolved choice points at the end

/-- Backtracking driver. At a `jump no yes` it continues with `no` and remembers `yes`; on
`halt` it returns to the most recent remembered `yes`, discarding the events emitted since.
`pre s` are extra (monitor) events recorded before `s` is stepped. -/
def PSys.run {σ ε : Type} (sys : PSys σ ε) (isTerminal : σ → Bool) (pre : σ → Array ε)
    (fuel : Nat) (s₀ : σ) : RunResult σ ε :=
  let rec go (fuel : Nat) (s : σ) (evs : Array ε) (ch : Array (σ × Nat)) (steps bt : Nat) :
      RunResult σ ε :=
    match fuel with
    | 0 => ⟨evs, .fuel, s, steps, bt, ch.size⟩
    | fuel + 1 =>
      if isTerminal s then ⟨evs, .terminal, s, steps, bt, ch.size⟩ else
      let evs := evs ++ pre s
      match sys.step s with
      | .next s' ev =>
        go fuel s' (match ev with | some e => evs.push e | none => evs) ch (steps + 1) bt
      | .jump no yes => go fuel no evs (ch.push (yes, evs.size)) (steps + 1) bt
      | .fault why => ⟨evs, .fault why, s, steps, bt, ch.size⟩
      | .halt =>
        match ch.back? with
        | none => ⟨evs, .halted, s, steps, bt, 0⟩
        | some (yes, n) => go fuel yes (evs.extract 0 n) ch.pop (steps + 1) (bt + 1)
  go fuel s₀ #[] #[] 0 0

end HidVerif
