import HidVerif.Sphinx.Isa
import HidVerif.Gen.Stdlib
import HidVerif.Hid.Ast
import HidVerif.Proofs.WriteLib
/-!
# Core: a hand-written model of `hidc/codegen/generator.py` on the sequential integer core

The sub-language: one function `@is_you()`, `int` locals, `+ - * / %`, unary `+ -`,
comparisons, `and or not`, declarations, assignments, `write(int)`, `writeln`, character
output, blocks, `if`, `while`/`for`, `return`.  For these programs `coreProg` is meant to be
*exactly* the program `hidc` emits (same instructions at the same addresses, same initial
state section); `hidmodel` compares the two on every run (`core` correspondence suite), and
`Proofs/Core*.lean` prove that `coreProg` computes what `exec` (the source semantics below)
says.  Jump targets are absolute code addresses, so every compile function takes the address
`pc` its output is placed at; the `len*` functions give the output sizes needed for forward
targets (`len_*` lemmas: they are the lengths).
-/
namespace HidVerif.Core
open HidVerif HidVerif.Sphinx HidVerif.Gen

inductive AOp | add | sub | mul | div | mod
  deriving DecidableEq, Repr, Inhabited
inductive COp | lt | gt | le | ge | eq | ne
  deriving DecidableEq, Repr, Inhabited

inductive E
  | lit (v : Int)
  | var (x : String)
  | bin (op : AOp) (l r : E)
  | neg (e : E)
  | pos (e : E)
  deriving Repr, Inhabited

inductive B
  | lit (b : Bool)
  | cmp (op : COp) (l r : E)
  | not (b : B)
  | and (l r : B)
  | or (l r : B)
  deriving Repr, Inhabited

/-- statement *lists*: every constructor carries the rest of its list (`k`) -/
inductive S
  | nil
  | ret
  | decl (x : String) (e : E) (k : S)
  | assign (x : String) (e : E) (k : S)
  | write (e : E) (k : S)
  | writeln (e : Option E) (k : S)
  | putc (c : Nat) (k : S)
  | block (b : S) (k : S)
  | ifb (c : B) (t e : S) (k : S)
  | loop (c : B) (body cont : S) (k : S)
  /-- `!is_defeat();` -/
  | defeat (k : S)
  /-- `!truth_is_defeat(c);` for a condition of the directly lowered shape (`isD`) -/
  | defeatIf (c : B) (k : S)
  /-- `try { body } undo { handler }` -/
  | tryUndo (body handler : S) (k : S)
  deriving Repr, Inhabited

/-! ## compile-time context -/
structure Cx where
  w : Nat
  checked : Bool
  /-- code address of the runtime library (= length of the function's code) -/
  B : Nat
  deriving Repr

def Cx.M (cx : Cx) : Nat := 256 ^ cx.w
def Cx.fp (cx : Cx) : Nat := cx.w
def Cx.r0 (cx : Cx) : Nat := 2 * cx.w
def Cx.r1 (cx : Cx) : Nat := 3 * cx.w
def Cx.r2 (cx : Cx) : Nat := 4 * cx.w
/-- the immediate `-o` -/
def Cx.negImm (cx : Cx) (o : Nat) : Arg := .imm (wrapI cx.M (-(o : Int)))

/-- `Accessor`s that occur in the core: immediates, registers (`State(r)`), frame slots
(`Indirect(STATE, [fp], -o)`) -/
inductive Opd | imm (v : Int) | reg (a : Nat) | slot (o : Nat)
  deriving DecidableEq, Repr, Inhabited

/-- operand form of a non-slot accessor -/
def Opd.arg (cx : Cx) : Opd → Arg
  | .imm v => .imm (wrapI cx.M v)
  | .reg a => .st a
  | .slot _ => .imm 0

def ldSlot (cx : Cx) (r o : Nat) : Instr := .load true .state r (.st cx.fp) (some (cx.negImm o))
def stSlot (cx : Cx) (o : Nat) (v : Arg) : Instr := .store true (.st cx.fp) (some (cx.negImm o)) v

/-- `value.get(r)` -/
def getOp (cx : Cx) (r : Nat) : Opd → List Instr × Opd
  | .slot o => ([ldSlot cx r o], .reg r)
  | v => ([], v)

abbrev Gam := List (String × Nat)
def look (Γ : Gam) (x : String) : Nat := (Γ.lookup x).getD 0

def isSafe : E → Bool
  | .lit _ => true | .var _ => true | _ => false

def aluOf : AOp → AluOp
  | .add => .add | .sub => .sub | .mul => .mul | .div => .div | .mod => .mod
def needsGuard : AOp → Bool
  | .div => true | .mod => true | _ => false
def cmpHalt : COp → HaltOp
  | .lt => .hlt | .gt => .hgt | .le => .hle | .ge => .hge | .eq => .heq | .ne => .hne
def invHalt : COp → HaltOp
  | .lt => .hge | .gt => .hle | .le => .hgt | .ge => .hlt | .eq => .hne | .ne => .heq

/-- `arith_op_reg_arg` placed at `pc` -/
def arith (cx : Cx) (pc : Nat) (op : AOp) (rout : Nat) (a b : Arg) : List Instr :=
  if needsGuard op && cx.checked then
    [.j (.imm (pc + 4)), .hcond .hne b (.imm 0), .j (.imm (cx.B + off_division_by_zero)), .halt,
     .alu (aluOf op) rout a b]
  else [.alu (aluOf op) rout a b]

/-- the tail of `eval_expr`: the result is in `[rout]`; with `keep` it is pushed -/
def finish (cx : Cx) (o rout : Nat) (keep : Bool) (c : List Instr) : List Instr × Opd × Bool :=
  if keep then (c ++ [stSlot cx (o + cx.w) (.st rout)], .slot (o + cx.w), true)
  else (c, .reg rout, false)

/-- `eval_expr(r_out, e, keep)` with the stack at offset `o`, output placed at `pc`;
returns the code, the accessor of the value and whether a word was pushed -/
def cE (cx : Cx) (Γ : Gam) : (pc o rout : Nat) → E → Bool → List Instr × Opd × Bool
  | _, _, _, .lit v, _ => ([], .imm v, false)
  | _, _, _, .var x, _ => ([], .slot (look Γ x), false)
  | pc, o, rout, .bin op l r, keep =>
    let (c1, vl, p1) := cE cx Γ pc o cx.r0 l (!isSafe r)
    let o1 := if p1 then o + cx.w else o
    let (c2, vr0, _) := cE cx Γ (pc + c1.length) o1 cx.r1 r false
    let (c2', vr) := getOp cx cx.r1 vr0
    let (c3, vl') := getOp cx cx.r0 vl
    let pre := c1 ++ c2 ++ c2' ++ c3
    finish cx o rout keep (pre ++ arith cx (pc + pre.length) op rout (vl'.arg cx) (vr.arg cx))
  | pc, o, rout, .neg e, keep =>
    let (c, v0, _) := cE cx Γ pc o rout e false
    let (c', v) := getOp cx rout v0
    finish cx o rout keep (c ++ c' ++ [.alu .sub rout (.imm 0) (v.arg cx)])
  | pc, o, rout, .pos e, keep =>
    let (c, v0, _) := cE cx Γ pc o rout e false
    let (c', v) := getOp cx rout v0
    finish cx o rout keep (c ++ c' ++ (if v = .reg rout then [] else [.mov rout (v.arg cx)]))

/-- `get_expr_value(r, e)` -/
def gV (cx : Cx) (Γ : Gam) (pc o r : Nat) (e : E) : List Instr × Opd :=
  let (c, v0, _) := cE cx Γ pc o r e false
  let (c', v) := getOp cx r v0
  (c ++ c', v)

/-- `push_expr(r1, e)`: afterwards the value is in the slot at `o + w` -/
def pushE (cx : Cx) (Γ : Gam) (pc o : Nat) (e : E) : List Instr :=
  let (c, v0, pushed) := cE cx Γ pc o cx.r1 e true
  if pushed then c else
    let (c', v) := getOp cx cx.r1 v0
    c ++ c' ++ [stSlot cx (o + cx.w) (v.arg cx)]

def goto (t : Nat) : List Instr := [.j (.imm t), .halt]

/-- `is_goto(instrs[-2:])` -/
def endsGoto (l : List Instr) : Bool :=
  match l.reverse with
  | .halt :: .j _ :: _ => true
  | _ => false

def lenE : E → Bool → Bool → Nat   -- checked, keep
  | .lit _, _, _ => 0
  | .var _, _, _ => 0
  | .bin op l r, ck, keep =>
    lenE l ck (!isSafe r) + (lenE r ck false + (match r with | .var _ => 1 | _ => 0))
      + (match l with | .var _ => 1 | .lit _ => 0 | _ => if isSafe r then 0 else 1)
      + (if needsGuard op && ck then 5 else 1) + (if keep then 1 else 0)
  | .neg e, ck, keep => lenE e ck false + (match e with | .var _ => 1 | _ => 0) + 1 + (if keep then 1 else 0)
  | .pos e, ck, keep => lenE e ck false + (match e with | .var _ => 1 | .lit _ => 1 | _ => 0) + (if keep then 1 else 0)

/-- `bool_expr_branch(b, ifT, ifF)` placed at `pc` -/
def lenB (ck : Bool) : B → (nT nF : Nat) → (tG fG : Bool) → Nat
  | .lit true, nT, _, _, _ => nT
  | .lit false, _, nF, _, _ => nF
  | .cmp _ l r, nT, nF, _, fG =>
    lenE l ck (!isSafe r) + (lenE r ck false + (match r with | .var _ => 1 | _ => 0))
      + (match l with | .var _ => 1 | .lit _ => 0 | _ => if isSafe r then 0 else 1)
      + 2 + nF + (if fG then 0 else 2) + 1 + nT
  | .not b, nT, nF, tG, fG => lenB ck b nF nT fG tG
  | .and l r, nT, nF, tG, fG =>
    lenB ck l 2 (if fG then nF else nF + 2) true true + lenB ck r nT nF tG fG
  | .or l r, nT, nF, tG, fG =>
    lenB ck l (if tG then nT else nT + 2) 2 true true + lenB ck r nT nF tG fG

def cB (cx : Cx) (Γ : Gam) : (pc o : Nat) → B → (ifT ifF : List Instr) → List Instr
  | _, _, .lit true, ifT, _ => ifT
  | _, _, .lit false, _, ifF => ifF
  | pc, o, .cmp op l r, ifT, ifF =>
    let (c1, vl, p1) := cE cx Γ pc o cx.r0 l (!isSafe r)
    let o1 := if p1 then o + cx.w else o
    let (c2, vr0, _) := cE cx Γ (pc + c1.length) o1 cx.r1 r false
    let (c2', vr) := getOp cx cx.r1 vr0
    let (c3, vl') := getOp cx cx.r0 vl
    let pre := c1 ++ c2 ++ c2' ++ c3
    let a := pc + pre.length
    let fG := endsGoto ifF
    let tAddr := a + 2 + ifF.length + (if fG then 0 else 2)
    let eAddr := tAddr + 1 + ifT.length
    pre ++ [.j (.imm tAddr), .hcond (cmpHalt op) (vl'.arg cx) (vr.arg cx)] ++ ifF
      ++ (if fG then [] else goto eAddr)
      ++ [.hcond (invHalt op) (vl'.arg cx) (vr.arg cx)] ++ ifT
  | pc, o, .not b, ifT, ifF => cB cx Γ pc o b ifF ifT
  | pc, o, .and l r, ifT, ifF =>
    let tG := endsGoto ifT
    let fG := endsGoto ifF
    let nL := lenB cx.checked l 2 (if fG then ifF.length else ifF.length + 2) true true
    let nR := lenB cx.checked r ifT.length ifF.length tG fG
    let lit := pc + nL
    let aend := lit + nR
    cB cx Γ pc o l (goto lit) (if fG then ifF else ifF ++ goto aend) ++ cB cx Γ lit o r ifT ifF
  | pc, o, .or l r, ifT, ifF =>
    let tG := endsGoto ifT
    let fG := endsGoto ifF
    let nL := lenB cx.checked l (if tG then ifT.length else ifT.length + 2) 2 true true
    let nR := lenB cx.checked r ifT.length ifF.length tG fG
    let lif := pc + nL
    let oend := lif + nR
    cB cx Γ pc o l (if tG then ifT else ifT ++ goto oend) (goto lif) ++ cB cx Γ lif o r ifT ifF

/-! ## `!truth_is_defeat(c)`: conditions lowered directly to conditional halts -/
def isD : B → Bool
  | .lit _ => true
  | .cmp _ _ _ => true
  | .or l r => isD l && isD r
  | _ => false

def lenD (ck : Bool) : B → Nat
  | .lit true => 1
  | .lit false => 0
  | .cmp _ l r =>
    lenE l ck (!isSafe r) + (lenE r ck false + (match r with | .var _ => 1 | _ => 0))
      + (match l with | .var _ => 1 | .lit _ => 0 | _ => if isSafe r then 0 else 1) + 1
  | .or l r => lenD ck l + lenD ck r
  | _ => 0

/-- `truth_is_defeat(c)` in a context whose effective defeat is `halt` -/
def cD (cx : Cx) (Γ : Gam) : (pc o : Nat) → B → List Instr
  | _, _, .lit true => [.halt]
  | _, _, .lit false => []
  | pc, o, .cmp op l r =>
    let (c1, vl, p1) := cE cx Γ pc o cx.r0 l (!isSafe r)
    let o1 := if p1 then o + cx.w else o
    let (c2, vr0, _) := cE cx Γ (pc + c1.length) o1 cx.r1 r false
    let (c2', vr) := getOp cx cx.r1 vr0
    let (c3, vl') := getOp cx cx.r0 vl
    c1 ++ c2 ++ c2' ++ c3 ++ [.hcond (cmpHalt op) (vl'.arg cx) (vr.arg cx)]
  | pc, o, .or l r =>
    let c := cD cx Γ pc o l
    c ++ cD cx Γ (pc + c.length) o r
  | _, _, _ => []

/-! ## statements -/
def lenPush (ck : Bool) (e : E) : Nat :=
  match e with
  | .lit _ => 1
  | .var _ => 2
  | e => lenE e ck true

def lenGV (ck : Bool) (e : E) : Nat := lenE e ck false + (match e with | .var _ => 1 | _ => 0)

def lenWrite (ck : Bool) (e : E) : Nat := 1 + lenPush ck e + 3 + 1

def lenS (ck : Bool) : S → Nat
  | .nil => 0
  | .ret => 3
  | .decl _ e k => lenPush ck e + lenS ck k
  | .assign _ e k => lenGV ck e + 1 + lenS ck k
  | .write e k => lenWrite ck e + lenS ck k
  | .writeln (some e) k => lenWrite ck e + 1 + lenS ck k
  | .writeln none k => 1 + lenS ck k
  | .putc _ k => 1 + lenS ck k
  | .block b k => lenS ck b + lenS ck k
  | .ifb c t e k => lenB ck c 0 2 false true + lenS ck t + 2 + lenS ck e + lenS ck k
  | .loop c body cont k => lenB ck c 0 2 false true + lenS ck body + lenS ck cont + 2 + lenS ck k
  | .defeat k => 1 + lenS ck k
  | .defeatIf c k => lenD ck c + lenS ck k
  | .tryUndo body handler k => 1 + lenS ck body + 2 + lenS ck handler + lenS ck k

/-- the call `write(e)` for an `int` argument (`eval_func_call`, general path, callee `write_int`) -/
def cWrite (cx : Cx) (Γ : Gam) (pc o : Nat) (e : E) : List Instr :=
  let push := pushE cx Γ (pc + 1) (o + cx.w) e
  let endCall := pc + 1 + push.length + 3
  [stSlot cx (o + cx.w) (.imm endCall)] ++ push ++
    [.alu .add cx.fp (.st cx.fp) (cx.negImm o), .j (.imm (cx.B + off_write_int)), .halt,
     .alu .add cx.fp (.st cx.fp) (.imm (wrapI cx.M o))]

def cS (cx : Cx) : (Γ : Gam) → (pc o : Nat) → S → List Instr
  | _, _, _, .nil => []
  | _, _, _, .ret => [ldSlot cx cx.r1 cx.w, .j (.st cx.r1), .halt]
  | Γ, pc, o, .decl x e k =>
    let c := pushE cx Γ pc o e
    c ++ cS cx ((x, o + cx.w) :: Γ) (pc + c.length) (o + cx.w) k
  | Γ, pc, o, .assign x e k =>
    let (c, v) := gV cx Γ pc o cx.r1 e
    let c := c ++ [stSlot cx (look Γ x) (v.arg cx)]
    c ++ cS cx Γ (pc + c.length) o k
  | Γ, pc, o, .write e k =>
    let c := cWrite cx Γ pc o e
    c ++ cS cx Γ (pc + c.length) o k
  | Γ, pc, o, .writeln (some e) k =>
    let c := cWrite cx Γ pc o e ++ [.yld (.imm 10)]
    c ++ cS cx Γ (pc + c.length) o k
  | Γ, pc, o, .writeln none k => .yld (.imm 10) :: cS cx Γ (pc + 1) o k
  | Γ, pc, o, .putc ch k => .yld (.imm (ch % cx.M)) :: cS cx Γ (pc + 1) o k
  | Γ, pc, o, .block b k =>
    let c := cS cx Γ pc o b
    c ++ cS cx Γ (pc + c.length) o k
  | Γ, pc, o, .ifb c t e k =>
    let nC := lenB cx.checked c 0 2 false true
    let elseA := pc + nC + lenS cx.checked t + 2
    let endA := elseA + lenS cx.checked e
    cB cx Γ pc o c [] (goto elseA) ++ cS cx Γ (pc + nC) o t ++ goto endA ++ cS cx Γ elseA o e
      ++ cS cx Γ endA o k
  | Γ, pc, o, .loop c body cont k =>
    let nC := lenB cx.checked c 0 2 false true
    let contA := pc + nC + lenS cx.checked body
    let brkA := contA + lenS cx.checked cont + 2
    cB cx Γ pc o c [] (goto brkA) ++ cS cx Γ (pc + nC) o body ++ cS cx Γ contA o cont ++ goto pc
      ++ cS cx Γ brkA o k
  | Γ, pc, o, .defeat k => .halt :: cS cx Γ (pc + 1) o k
  | Γ, pc, o, .defeatIf c k =>
    let d := cD cx Γ pc o c
    d ++ cS cx Γ (pc + d.length) o k
  | Γ, pc, o, .tryUndo body handler k =>
    let hA := pc + 1 + lenS cx.checked body + 2
    let endA := hA + lenS cx.checked handler
    [.j (.imm hA)] ++ cS cx Γ (pc + 1) o body ++ goto endA ++ cS cx Γ hA o handler ++ cS cx Γ endA o k

/-! ## the stack-check constant (`Tracker`): the peak of `stack.static_size` over the function -/
def pkE (w : Nat) : (o : Nat) → E → Bool → Nat
  | o, .lit _, _ => o
  | o, .var _, _ => o
  | o, .bin _ l r, keep =>
    let p1 := pkE w o l (!isSafe r)
    let o1 := if (!isSafe r) && !isSafe l then o + w else o
    max (max p1 (pkE w o1 r false)) (if keep then o + w else o)
  | o, .neg e, keep => max (pkE w o e false) (if keep then o + w else o)
  | o, .pos e, keep => max (pkE w o e false) (if keep then o + w else o)

def pkB (w : Nat) (o : Nat) : B → Nat
  | .lit _ => o
  | .cmp _ l r =>
    let o1 := if (!isSafe r) && !isSafe l then o + w else o
    max (pkE w o l (!isSafe r)) (pkE w o1 r false)
  | .not b => pkB w o b
  | .and l r => max (pkB w o l) (pkB w o r)
  | .or l r => max (pkB w o l) (pkB w o r)

/-- digits of the longest `write(int)` output minus one word: what `write_int` writes below its frame -/
def wiExcess (w : Nat) : Nat := ((8 * w - 1) * 30103 / 100000 + 1) - w

def pkPush (w o : Nat) (e : E) : Nat := max (pkE w o e true) (o + w)
def pkWrite (w o : Nat) (e : E) : Nat := max (pkPush w (o + w) e) (o + 2 * w + wiExcess w)

def pkS (w : Nat) : (o : Nat) → S → Nat
  | o, .nil => o
  | o, .ret => o
  | o, .decl _ e k => max (pkPush w o e) (pkS w (o + w) k)
  | o, .assign _ e k => max (pkE w o e false) (pkS w o k)
  | o, .write e k => max (pkWrite w o e) (pkS w o k)
  | o, .writeln (some e) k => max (pkWrite w o e) (pkS w o k)
  | o, .writeln none k => pkS w o k
  | o, .putc _ k => pkS w o k
  | o, .block b k => max (pkS w o b) (pkS w o k)
  | o, .ifb c t e k => max (max (pkB w o c) (pkS w o t)) (max (pkS w o e) (pkS w o k))
  | o, .loop c body cont k => max (max (pkB w o c) (pkS w o body)) (max (pkS w o cont) (pkS w o k))
  | o, .defeat k => pkS w o k
  | o, .defeatIf c k => max (pkB w o c) (pkS w o k)
  | o, .tryUndo body handler k => max (max (pkS w o body) (pkS w o handler)) (pkS w o k)

/-! ## the whole program -/
structure Config where
  w : Nat
  stackWords : Nat
  checked : Bool
  deriving Repr

def prologueLen (ck : Bool) : Nat := if ck then 5 else 0

def funcLen (ck : Bool) (body : S) : Nat := prologueLen ck + lenS ck body

def mkCx (cf : Config) (body : S) : Cx := { w := cf.w, checked := cf.checked, B := funcLen cf.checked body }

/-- frame offsets of the `int` parameters of the entry point: the return address is at `w`, the
parameters follow in order -/
def paramGam (w : Nat) : (i : Nat) → List String → Gam
  | _, [] => []
  | i, x :: xs => (x, (i + 2) * w) :: paramGam w (i + 1) xs

/-- stack offset at the start of the body: return address and parameters are reserved -/
def entryOff (w : Nat) (params : List String) : Nat := (params.length + 1) * w

def funcCode (cf : Config) (params : List String) (body : S) : List Instr :=
  let cx := mkCx cf body
  (if cf.checked then
    [.j (.imm 5), .alu .sub cx.r1 (.st cx.fp) (.st 0),
     .hcond .hgeu (.st cx.r1) (.imm (pkS cf.w (entryOff cf.w params) body % cx.M)),
     .j (.imm (cx.B + off_stack_overflow)), .halt]
   else []) ++ cS cx (paramGam cf.w 0 params) (prologueLen cf.checked) (entryOff cf.w params) body

/-- store the (already parsed) command-line arguments into the entry frame -/
def writeArgs (w F : Nat) : Mem → Nat → List Int → Mem
  | m, _, [] => m
  | m, i, a :: rest => writeArgs w F (m.writeLE (F - (i + 2) * w) w (wrapI (256 ^ w) a)) (i + 1) rest

/-- the state section `gen_lines` emits: `ap fp r0 r1 r2`, the stack, the entry frame (arguments,
then the return address of `@is_you`, which is `all_is_win`); everything else is zero -/
def initMem (cf : Config) (args : List Int) (body : S) : Mem :=
  let w := cf.w
  let stackEnd := 5 * w + cf.stackWords * w + args.length * w + w
  writeArgs w stackEnd
    ((((⟨Array.replicate stackEnd 0⟩ : Mem).writeLE 0 w (5 * w)).writeLE w w stackEnd).writeLE (stackEnd - w) w
      (funcLen cf.checked body + off_all_is_win)) 0 args

def coreProg (cf : Config) (params : List String) (body : S) : Prog :=
  { w := cf.w, code := (funcCode cf params body ++ stdlibCode cf.w (funcLen cf.checked body)).toArray, const := ⟨#[]⟩ }

def coreInit (cf : Config) (args : List Int) (body : S) : St := ⟨0, initMem cf args body⟩

/-! ## source semantics (word values are the machine representation `0 ≤ v < 256^w`) -/
abbrev Env := String → Nat

def evalE (M n : Nat) (env : Env) : E → Option Nat
  | .lit v => some (wrapI M v)
  | .var x => some (env x)
  | .bin op l r => do
    let a ← evalE M n env l
    let b ← evalE M n env r
    aluOp M n (aluOf op) a b
  | .neg e => do let a ← evalE M n env e; aluOp M n .sub 0 a
  | .pos e => evalE M n env e

def evalB (M n : Nat) (env : Env) : B → Option Bool
  | .lit b => some b
  | .cmp op l r => do
    let a ← evalE M n env l
    let b ← evalE M n env r
    pure (haltCond M (cmpHalt op) a b)
  | .not b => do let v ← evalB M n env b; pure (!v)
  | .and l r => do
    let a ← evalB M n env l
    if a then evalB M n env r else pure false
  | .or l r => do
    let a ← evalB M n env l
    if a then pure true else evalB M n env r

inductive Res | norm | returned | div0 | defeat
  deriving DecidableEq, Repr, Inhabited

def upd (env : Env) (x : String) (v : Nat) : Env := fun y => if y = x then v else env y

/-- `none` = out of fuel.  Output events only; the terminal flags are added by `runCore`. -/
def exec (M n : Nat) : (fuel : Nat) → Env → S → Option (Env × List Ev × Res)
  | 0, _, _ => none
  | _ + 1, env, .nil => some (env, [], .norm)
  | _ + 1, env, .ret => some (env, [], .returned)
  | f + 1, env, .decl x e k =>
    match evalE M n env e with
    | none => some (env, [], .div0)
    | some v => exec M n f (upd env x v) k
  | f + 1, env, .assign x e k =>
    match evalE M n env e with
    | none => some (env, [], .div0)
    | some v => exec M n f (upd env x v) k
  | f + 1, env, .write e k =>
    match evalE M n env e with
    | none => some (env, [], .div0)
    | some v => do
      let (env', tr, r) ← exec M n f env k
      pure (env', outs (decimalW M v) ++ tr, r)
  | f + 1, env, .writeln (some e) k =>
    match evalE M n env e with
    | none => some (env, [], .div0)
    | some v => do
      let (env', tr, r) ← exec M n f env k
      pure (env', outs (decimalW M v) ++ [Ev.out 10] ++ tr, r)
  | f + 1, env, .writeln none k => do
    let (env', tr, r) ← exec M n f env k
    pure (env', Ev.out 10 :: tr, r)
  | f + 1, env, .putc c k => do
    let (env', tr, r) ← exec M n f env k
    pure (env', Ev.out (c % M % 256) :: tr, r)
  | f + 1, env, .block b k => do
    let (env1, tr1, r1) ← exec M n f env b
    if r1 = .norm then
      let (env2, tr2, r2) ← exec M n f env1 k
      pure (env2, tr1 ++ tr2, r2)
    else pure (env1, tr1, r1)
  | f + 1, env, .ifb c t e k =>
    match evalB M n env c with
    | none => some (env, [], .div0)
    | some cv => do
      let (env1, tr1, r1) ← exec M n f env (if cv then t else e)
      if r1 = .norm then
        let (env2, tr2, r2) ← exec M n f env1 k
        pure (env2, tr1 ++ tr2, r2)
      else pure (env1, tr1, r1)
  | f + 1, env, .loop c body cont k =>
    match evalB M n env c with
    | none => some (env, [], .div0)
    | some false => exec M n f env k
    | some true => do
      let (env1, tr1, r1) ← exec M n f env body
      if r1 = .norm then
        let (env2, tr2, r2) ← exec M n f env1 cont
        if r2 = .norm then
          let (env3, tr3, r3) ← exec M n f env2 (.loop c body cont k)
          pure (env3, tr1 ++ tr2 ++ tr3, r3)
        else pure (env2, tr1 ++ tr2, r2)
      else pure (env1, tr1, r1)
  | _ + 1, env, .defeat _ => some (env, [], .defeat)
  | f + 1, env, .defeatIf c k =>
    match evalB M n env c with
    | none => some (env, [], .div0)
    | some true => some (env, [], .defeat)
    | some false => exec M n f env k
  | f + 1, env, .tryUndo body handler k => do
    let (env1, tr1, r1) ← exec M n f env body
    if r1 = .defeat then
      -- the try body is never run: the handler starts from the state before the try
      let (env2, tr2, r2) ← exec M n f env handler
      if r2 = .norm then
        let (env3, tr3, r3) ← exec M n f env2 k
        pure (env3, tr2 ++ tr3, r3)
      else pure (env2, tr2, r2)
    else if r1 = .norm then
      let (env3, tr3, r3) ← exec M n f env1 k
      pure (env3, tr1 ++ tr3, r3)
    else pure (env1, tr1, r1)

/-- the environment the entry point starts in: its parameters bound to the arguments -/
def argEnv (M : Nat) : List String → List Int → Env
  | x :: xs, a :: as => upd (argEnv M xs as) x (wrapI M a)
  | _, _ => fun _ => 0

/-- observable behaviour of a core program: output events followed by the terminal flags -/
def runCore (w fuel : Nat) (params : List String) (args : List Int) (body : S) : Option (List Ev) :=
  match exec (256 ^ w) (8 * w) fuel (argEnv (256 ^ w) params args) body with
  | none => none
  | some (_, tr, .div0) => some (tr ++ [Ev.flag "division_by_zero", Ev.flag "error"])
  | some (_, tr, .defeat) => some tr
  | some (_, tr, _) => some (tr ++ [Ev.flag "win"])

/-! ## recognising core programs in the typed tree dumped by the real front end -/
open HidVerif.Hid in
partial def toE : Hid.Expr → Option E
  | .lit .int v => some (.lit v)
  | .var x => some (.var x)
  | .bin op l r => do
    let op ← match op with
      | .add => some AOp.add | .sub => some .sub | .mul => some .mul | .div => some .div | .mod => some .mod
      | _ => none
    pure (.bin op (← toE l) (← toE r))
  | .un .neg e => do pure (.neg (← toE e))
  | .un .pos e => do pure (.pos (← toE e))
  | _ => none

open HidVerif.Hid in
partial def toB : Hid.Expr → Option B
  | .lit .bool v => some (.lit (v != 0))
  | .bin op l r =>
    match op with
    | .and => do pure (.and (← toB l) (← toB r))
    | .or => do pure (.or (← toB l) (← toB r))
    | .lt => do pure (.cmp .lt (← toE l) (← toE r))
    | .gt => do pure (.cmp .gt (← toE l) (← toE r))
    | .le => do pure (.cmp .le (← toE l) (← toE r))
    | .ge => do pure (.cmp .ge (← toE l) (← toE r))
    | .eq => do pure (.cmp .eq (← toE l) (← toE r))
    | .ne => do pure (.cmp .ne (← toE l) (← toE r))
    | _ => none
  | .un .not e => do pure (.not (← toB e))
  | _ => none

open HidVerif.Hid in
/-- statement lists of the core (only `int` locals are admitted) -/
partial def toS : List Hid.Stmt → Option S
  | [] => some .nil
  | .ret none :: _ => some .ret
  | .decl x .int init :: k => do pure (.decl x (← toE init) (← toS k))
  | .assign (.var x) rhs :: k => do pure (.assign x (← toE rhs) (← toS k))
  | .incassign (.var x) rhs op .int :: k => do
    let op ← match op with
      | .add => some AOp.add | .sub => some .sub | .mul => some .mul | .div => some .div | .mod => some .mod
      | _ => none
    pure (.assign x (.bin op (.var x) (← toE rhs)) (← toS k))
  | .expr (.call "write" [.int] [e]) :: k => do pure (.write (← toE e) (← toS k))
  | .expr (.call "write" [.byte] [.lit .byte c]) :: k => do pure (.putc c.toNat (← toS k))
  | .expr (.call "writeln" [.int] [e]) :: k => do pure (.writeln (some (← toE e)) (← toS k))
  | .expr (.call "writeln" [] []) :: k => do pure (.writeln none (← toS k))
  | .expr (.call "writeln" [.byte] [.lit .byte c]) :: k => do pure (.putc c.toNat (.writeln none (← toS k)))
  | .block ss :: k => do pure (.block (← toS ss) (← toS k))
  | .ifb c (.block t) (.block e) :: k => do pure (.ifb (← toB c) (← toS t) (← toS e) (← toS k))
  | .loop c (.block body) (.block cont) :: k => do pure (.loop (← toB c) (← toS body) (← toS cont) (← toS k))
  | .expr (.call "!is_defeat" [] []) :: k => do pure (.defeat (← toS k))
  | .expr (.call "!truth_is_defeat" [.bool] [c]) :: k => do
    let c ← toB c
    if isD c then pure (.defeatIf c (← toS k)) else none
  | .tryb (.block body) .undo (.block handler) :: k => do pure (.tryUndo (← toS body) (← toS handler) (← toS k))
  | _ => none

def fromAst (p : Hid.Program) : Option (List String × S) :=
  match p.globals, p.funcs with
  | [], [f] =>
    if f.name == "@is_you" && f.ret == .empty && f.params.all (fun q => q.2 == .int) && !f.preemptive then
      match f.body with
      | .block ss => (toS ss).map (fun b => (f.params.map (·.1), b))
      | _ => none
    else none
  | _, _ => none

/-! ## well-formedness assumed by the theorems (decidable; guaranteed by the front end, and
re-checked by `hidmodel` on every program of the correspondence suite) -/
def boundE (Γ : List String) : E → Bool
  | .lit _ => true
  | .var x => Γ.contains x
  | .bin _ l r => boundE Γ l && boundE Γ r
  | .neg e => boundE Γ e
  | .pos e => boundE Γ e

def boundB (Γ : List String) : B → Bool
  | .lit _ => true
  | .cmp _ l r => boundE Γ l && boundE Γ r
  | .not b => boundB Γ b
  | .and l r => boundB Γ l && boundB Γ r
  | .or l r => boundB Γ l && boundB Γ r

/-- variables are declared before use and never shadowed -/
def wfS : List String → S → Bool
  | _, .nil => true
  | _, .ret => true
  | Γ, .decl x e k => boundE Γ e && !Γ.contains x && wfS (x :: Γ) k
  | Γ, .assign x e k => Γ.contains x && boundE Γ e && wfS Γ k
  | Γ, .write e k => boundE Γ e && wfS Γ k
  | Γ, .writeln (some e) k => boundE Γ e && wfS Γ k
  | Γ, .writeln none k => wfS Γ k
  | Γ, .putc _ k => wfS Γ k
  | Γ, .block b k => wfS Γ b && wfS Γ k
  | Γ, .ifb c t e k => boundB Γ c && wfS Γ t && wfS Γ e && wfS Γ k
  | Γ, .loop c body cont k => boundB Γ c && wfS Γ body && wfS Γ cont && wfS Γ k
  | Γ, .defeat k => wfS Γ k
  | Γ, .defeatIf c k => boundB Γ c && isD c && wfS Γ k
  | Γ, .tryUndo body handler k => wfS Γ body && wfS Γ handler && wfS Γ k

/-- no `try` inside (the body of a `try` is a defeat context, where `try` is not allowed) -/
def noTry : S → Bool
  | .nil => true | .ret => true
  | .decl _ _ k => noTry k | .assign _ _ k => noTry k | .write _ k => noTry k | .writeln _ k => noTry k
  | .putc _ k => noTry k
  | .block b k => noTry b && noTry k
  | .ifb _ t e k => noTry t && noTry e && noTry k
  | .loop _ body cont k => noTry body && noTry cont && noTry k
  | .defeat k => noTry k | .defeatIf _ k => noTry k
  | .tryUndo _ _ _ => false

/-- neither `try` nor defeat calls -/
def plain : S → Bool
  | .nil => true | .ret => true
  | .decl _ _ k => plain k | .assign _ _ k => plain k | .write _ k => plain k | .writeln _ k => plain k
  | .putc _ k => plain k
  | .block b k => plain b && plain k
  | .ifb _ t e k => plain t && plain e && plain k
  | .loop _ body cont k => plain body && plain cont && plain k
  | .defeat _ => false | .defeatIf _ _ => false
  | .tryUndo _ _ _ => false

/-- the flavour rules on core programs (guaranteed by the parser, C06): at the level of the you
function defeat calls occur only inside `try` bodies, `try` is not nested, handlers are plain -/
def youLevel : S → Bool
  | .nil => true | .ret => true
  | .decl _ _ k => youLevel k | .assign _ _ k => youLevel k | .write _ k => youLevel k | .writeln _ k => youLevel k
  | .putc _ k => youLevel k
  | .block b k => youLevel b && youLevel k
  | .ifb _ t e k => youLevel t && youLevel e && youLevel k
  | .loop _ body cont k => youLevel body && youLevel cont && youLevel k
  | .defeat _ => false | .defeatIf _ _ => false
  | .tryUndo body handler k => noTry body && plain handler && youLevel k

end HidVerif.Core
