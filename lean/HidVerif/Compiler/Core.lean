import HidVerif.Sphinx.Isa
import HidVerif.Gen.Stdlib
import HidVerif.Hid.Ast
import HidVerif.Proofs.WriteLib
/-!
# Core: a hand-written model of `hidc/codegen/generator.py` on the sequential integer core

The sub-language: one function `@is_you()`, `int` locals, `+ - * / %`, unary `+ -`,
comparisons, `and or not`, declarations, assignments, `write(int)`, `writeln`, character
output, blocks, `if`, `while`/`for`, `return`.  For these programs `coreProg` is meant to be
*exactly* the program `hidc` emits (same instructions at the same addresses, same initial
state section); `hidmodel` compares the two on every run (`core` correspondence suite), and
`Proofs/Core*.lean` prove that `coreProg` computes what `exec` (the source semantics below)
says.  Jump targets are absolute code addresses, so every compile function takes the address
`pc` its output is placed at; the `len*` functions give the output sizes needed for forward
targets (`len_*` lemmas: they are the lengths).
-/
namespace HidVerif.Core
open HidVerif HidVerif.Sphinx HidVerif.Gen

inductive AOp | add | sub | mul | div | mod
  deriving DecidableEq, Repr, Inhabited
inductive COp | lt | gt | le | ge | eq | ne
  deriving DecidableEq, Repr, Inhabited

inductive E
  | lit (v : Int)
  | var (x : String)
  | bin (op : AOp) (l r : E)
  | neg (e : E)
  | pos (e : E)
  deriving Repr, Inhabited

inductive B
  | lit (b : Bool)
  | cmp (op : COp) (l r : E)
  | not (b : B)
  | and (l r : B)
  | or (l r : B)
  deriving Repr, Inhabited

/-- statement *lists*: every constructor carries the rest of its list (`k`) -/
inductive S
  | nil
  | ret
  | decl (x : String) (e : E) (k : S)
  | assign (x : String) (e : E) (k : S)
  | write (e : E) (k : S)
  | writeln (e : Option E) (k : S)
  | putc (c : Nat) (k : S)
  | block (b : S) (k : S)
  | ifb (c : B) (t e : S) (k : S)
  | loop (c : B) (body cont : S) (k : S)
  /-- `!is_defeat();` -/
  | defeat (k : S)
  /-- `!truth_is_defeat(c);` for a condition of the directly lowered shape (`isD`) -/
  | defeatIf (c : B) (k : S)
  /-- `try { body } undo { handler }` -/
  | tryUndo (body handler : S) (k : S)
  /-- `return e;` in an `int` function -/
  | retE (e : E)
  /-- `g(args);` — a call of a user function as a statement (any result is dropped) -/
  | callS (g : String) (args : List E) (k : S)
  /-- `int x = g(args);` -/
  | declCall (x : String) (g : String) (args : List E) (k : S)
  /-- `x = g(args);` -/
  | assignCall (x : String) (g : String) (args : List E) (k : S)
  /-- `break;` / `continue;` (what follows in the block is unreachable and dropped by the front end) -/
  | brk
  | cnt
  /-- `try { body } stop { handler }`: the body runs up to the point of defeat, then the handler -/
  | tryStop (body handler : S) (k : S)
  deriving Repr, Inhabited

/-- a user function: `int` parameters, result `int` or `empty` -/
structure FDecl where
  name : String
  params : List String
  body : S
  /-- a defeat function (`!name`): its defeat calls go through the word `defeat`, because it may be
  called from the body of a `try/stop` -/
  dfn : Bool := false
  deriving Repr, Inhabited

/-- code addresses of the functions of the program -/
abbrev FAddr := List (String × Nat)
def faddr (fa : FAddr) (g : String) : Nat := (fa.lookup g).getD 0

/-! ## compile-time context -/
structure Cx where
  w : Nat
  checked : Bool
  /-- code address of the runtime library (= length of the function's code) -/
  B : Nat
  /-- address of the state word `defeat` (`try_fp` is the word before it; both exist only in programs with a `try/stop`) -/
  dA : Nat
  deriving Repr

def Cx.M (cx : Cx) : Nat := 256 ^ cx.w
def Cx.fp (cx : Cx) : Nat := cx.w
def Cx.r0 (cx : Cx) : Nat := 2 * cx.w
def Cx.r1 (cx : Cx) : Nat := 3 * cx.w
def Cx.r2 (cx : Cx) : Nat := 4 * cx.w
/-- the immediate `-o` -/
def Cx.negImm (cx : Cx) (o : Nat) : Arg := .imm (wrapI cx.M (-(o : Int)))

/-- `Accessor`s that occur in the core: immediates, registers (`State(r)`), frame slots
(`Indirect(STATE, [fp], -o)`) -/
inductive Opd | imm (v : Int) | reg (a : Nat) | slot (o : Nat)
  deriving DecidableEq, Repr, Inhabited

/-- operand form of a non-slot accessor -/
def Opd.arg (cx : Cx) : Opd → Arg
  | .imm v => .imm (wrapI cx.M v)
  | .reg a => .st a
  | .slot _ => .imm 0

def ldSlot (cx : Cx) (r o : Nat) : Instr := .load true .state r (.st cx.fp) (some (cx.negImm o))
def stSlot (cx : Cx) (o : Nat) (v : Arg) : Instr := .store true (.st cx.fp) (some (cx.negImm o)) v

/-- `value.get(r)` -/
def getOp (cx : Cx) (r : Nat) : Opd → List Instr × Opd
  | .slot o => ([ldSlot cx r o], .reg r)
  | v => ([], v)

abbrev Gam := List (String × Nat)
def look (Γ : Gam) (x : String) : Nat := (Γ.lookup x).getD 0

def isSafe : E → Bool
  | .lit _ => true | .var _ => true | _ => false

def aluOf : AOp → AluOp
  | .add => .add | .sub => .sub | .mul => .mul | .div => .div | .mod => .mod
def needsGuard : AOp → Bool
  | .div => true | .mod => true | _ => false
def cmpHalt : COp → HaltOp
  | .lt => .hlt | .gt => .hgt | .le => .hle | .ge => .hge | .eq => .heq | .ne => .hne
def invHalt : COp → HaltOp
  | .lt => .hge | .gt => .hle | .le => .hgt | .ge => .hlt | .eq => .hne | .ne => .heq

/-- `arith_op_reg_arg` placed at `pc` -/
def arith (cx : Cx) (pc : Nat) (op : AOp) (rout : Nat) (a b : Arg) : List Instr :=
  if needsGuard op && cx.checked then
    [.j (.imm (pc + 4)), .hcond .hne b (.imm 0), .j (.imm (cx.B + off_division_by_zero)), .halt,
     .alu (aluOf op) rout a b]
  else [.alu (aluOf op) rout a b]

/-- the tail of `eval_expr`: the result is in `[rout]`; with `keep` it is pushed -/
def finish (cx : Cx) (o rout : Nat) (keep : Bool) (c : List Instr) : List Instr × Opd × Bool :=
  if keep then (c ++ [stSlot cx (o + cx.w) (.st rout)], .slot (o + cx.w), true)
  else (c, .reg rout, false)

/-- `eval_expr(r_out, e, keep)` with the stack at offset `o`, output placed at `pc`;
returns the code, the accessor of the value and whether a word was pushed -/
def cE (cx : Cx) (Γ : Gam) : (pc o rout : Nat) → E → Bool → List Instr × Opd × Bool
  | _, _, _, .lit v, _ => ([], .imm v, false)
  | _, _, _, .var x, _ => ([], .slot (look Γ x), false)
  | pc, o, rout, .bin op l r, keep =>
    let (c1, vl, p1) := cE cx Γ pc o cx.r0 l (!isSafe r)
    let o1 := if p1 then o + cx.w else o
    let (c2, vr0, _) := cE cx Γ (pc + c1.length) o1 cx.r1 r false
    let (c2', vr) := getOp cx cx.r1 vr0
    let (c3, vl') := getOp cx cx.r0 vl
    let pre := c1 ++ c2 ++ c2' ++ c3
    finish cx o rout keep (pre ++ arith cx (pc + pre.length) op rout (vl'.arg cx) (vr.arg cx))
  | pc, o, rout, .neg e, keep =>
    let (c, v0, _) := cE cx Γ pc o rout e false
    let (c', v) := getOp cx rout v0
    finish cx o rout keep (c ++ c' ++ [.alu .sub rout (.imm 0) (v.arg cx)])
  | pc, o, rout, .pos e, keep =>
    let (c, v0, _) := cE cx Γ pc o rout e false
    let (c', v) := getOp cx rout v0
    finish cx o rout keep (c ++ c' ++ (if v = .reg rout then [] else [.mov rout (v.arg cx)]))

/-- `get_expr_value(r, e)` -/
def gV (cx : Cx) (Γ : Gam) (pc o r : Nat) (e : E) : List Instr × Opd :=
  let (c, v0, _) := cE cx Γ pc o r e false
  let (c', v) := getOp cx r v0
  (c ++ c', v)

/-- `push_expr(r1, e)`: afterwards the value is in the slot at `o + w` -/
def pushE (cx : Cx) (Γ : Gam) (pc o : Nat) (e : E) : List Instr :=
  let (c, v0, pushed) := cE cx Γ pc o cx.r1 e true
  if pushed then c else
    let (c', v) := getOp cx cx.r1 v0
    c ++ c' ++ [stSlot cx (o + cx.w) (v.arg cx)]

def goto (t : Nat) : List Instr := [.j (.imm t), .halt]

/-- `is_goto(instrs[-2:])` -/
def endsGoto (l : List Instr) : Bool :=
  match l.reverse with
  | .halt :: .j _ :: _ => true
  | _ => false

def lenE : E → Bool → Bool → Nat   -- checked, keep
  | .lit _, _, _ => 0
  | .var _, _, _ => 0
  | .bin op l r, ck, keep =>
    lenE l ck (!isSafe r) + (lenE r ck false + (match r with | .var _ => 1 | _ => 0))
      + (match l with | .var _ => 1 | .lit _ => 0 | _ => if isSafe r then 0 else 1)
      + (if needsGuard op && ck then 5 else 1) + (if keep then 1 else 0)
  | .neg e, ck, keep => lenE e ck false + (match e with | .var _ => 1 | _ => 0) + 1 + (if keep then 1 else 0)
  | .pos e, ck, keep => lenE e ck false + (match e with | .var _ => 1 | .lit _ => 1 | _ => 0) + (if keep then 1 else 0)

/-- `bool_expr_branch(b, ifT, ifF)` placed at `pc` -/
def lenB (ck : Bool) : B → (nT nF : Nat) → (tG fG : Bool) → Nat
  | .lit true, nT, _, _, _ => nT
  | .lit false, _, nF, _, _ => nF
  | .cmp _ l r, nT, nF, _, fG =>
    lenE l ck (!isSafe r) + (lenE r ck false + (match r with | .var _ => 1 | _ => 0))
      + (match l with | .var _ => 1 | .lit _ => 0 | _ => if isSafe r then 0 else 1)
      + 2 + nF + (if fG then 0 else 2) + 1 + nT
  | .not b, nT, nF, tG, fG => lenB ck b nF nT fG tG
  | .and l r, nT, nF, tG, fG =>
    lenB ck l 2 (if fG then nF else nF + 2) true true + lenB ck r nT nF tG fG
  | .or l r, nT, nF, tG, fG =>
    lenB ck l (if tG then nT else nT + 2) 2 true true + lenB ck r nT nF tG fG

def cB (cx : Cx) (Γ : Gam) : (pc o : Nat) → B → (ifT ifF : List Instr) → List Instr
  | _, _, .lit true, ifT, _ => ifT
  | _, _, .lit false, _, ifF => ifF
  | pc, o, .cmp op l r, ifT, ifF =>
    let (c1, vl, p1) := cE cx Γ pc o cx.r0 l (!isSafe r)
    let o1 := if p1 then o + cx.w else o
    let (c2, vr0, _) := cE cx Γ (pc + c1.length) o1 cx.r1 r false
    let (c2', vr) := getOp cx cx.r1 vr0
    let (c3, vl') := getOp cx cx.r0 vl
    let pre := c1 ++ c2 ++ c2' ++ c3
    let a := pc + pre.length
    let fG := endsGoto ifF
    let tAddr := a + 2 + ifF.length + (if fG then 0 else 2)
    let eAddr := tAddr + 1 + ifT.length
    pre ++ [.j (.imm tAddr), .hcond (cmpHalt op) (vl'.arg cx) (vr.arg cx)] ++ ifF
      ++ (if fG then [] else goto eAddr)
      ++ [.hcond (invHalt op) (vl'.arg cx) (vr.arg cx)] ++ ifT
  | pc, o, .not b, ifT, ifF => cB cx Γ pc o b ifF ifT
  | pc, o, .and l r, ifT, ifF =>
    let tG := endsGoto ifT
    let fG := endsGoto ifF
    let nL := lenB cx.checked l 2 (if fG then ifF.length else ifF.length + 2) true true
    let nR := lenB cx.checked r ifT.length ifF.length tG fG
    let lit := pc + nL
    let aend := lit + nR
    cB cx Γ pc o l (goto lit) (if fG then ifF else ifF ++ goto aend) ++ cB cx Γ lit o r ifT ifF
  | pc, o, .or l r, ifT, ifF =>
    let tG := endsGoto ifT
    let fG := endsGoto ifF
    let nL := lenB cx.checked l (if tG then ifT.length else ifT.length + 2) 2 true true
    let nR := lenB cx.checked r ifT.length ifF.length tG fG
    let lif := pc + nL
    let oend := lif + nR
    cB cx Γ pc o l (if tG then ifT else ifT ++ goto oend) (goto lif) ++ cB cx Γ lif o r ifT ifF

/-! ## `!truth_is_defeat(c)`: conditions lowered directly to conditional halts -/
def isD : B → Bool
  | .lit _ => true
  | .cmp _ _ _ => true
  | .or l r => isD l && isD r
  | _ => false

def lenD (ck vd : Bool) : B → Nat
  | .lit true => if vd then 2 else 1
  | .lit false => 0
  | .cmp _ l r =>
    lenE l ck (!isSafe r) + (lenE r ck false + (match r with | .var _ => 1 | _ => 0))
      + (match l with | .var _ => 1 | .lit _ => 0 | _ => if isSafe r then 0 else 1) + (if vd then 2 else 1)
  | .or l r => lenD ck vd l + lenD ck vd r
  | _ => 0

/-- `truth_is_defeat(c)`: conditional halts; when the effective defeat is the word `defeat` (`vd`: inside the
body of a `try/stop`) each of them is preceded by `j [defeat]`, which is taken exactly when the halt would fire -/
def cD (cx : Cx) (vd : Bool) (Γ : Gam) : (pc o : Nat) → B → List Instr
  | _, _, .lit true => if vd then [.j (.st cx.dA), .halt] else [.halt]
  | _, _, .lit false => []
  | pc, o, .cmp op l r =>
    let (c1, vl, p1) := cE cx Γ pc o cx.r0 l (!isSafe r)
    let o1 := if p1 then o + cx.w else o
    let (c2, vr0, _) := cE cx Γ (pc + c1.length) o1 cx.r1 r false
    let (c2', vr) := getOp cx cx.r1 vr0
    let (c3, vl') := getOp cx cx.r0 vl
    c1 ++ c2 ++ c2' ++ c3 ++ (if vd then [.j (.st cx.dA)] else []) ++ [.hcond (cmpHalt op) (vl'.arg cx) (vr.arg cx)]
  | pc, o, .or l r =>
    let c := cD cx vd Γ pc o l
    c ++ cD cx vd Γ (pc + c.length) o r
  | _, _, _ => []

/-! ## statements -/
def lenPush (ck : Bool) (e : E) : Nat :=
  match e with
  | .lit _ => 1
  | .var _ => 2
  | e => lenE e ck true

def lenGV (ck : Bool) (e : E) : Nat := lenE e ck false + (match e with | .var _ => 1 | _ => 0)

def lenWrite (ck : Bool) (e : E) : Nat := 1 + lenPush ck e + 3 + 1

def lenArgs (ck : Bool) : List E → Nat
  | [] => 0
  | e :: es => lenPush ck e + lenArgs ck es

/-- jump targets and defeat mode of the code being compiled -/
structure Jt where
  /-- `continue` label of the innermost loop -/
  cont : Nat
  /-- `break` label of the innermost loop -/
  brk : Nat
  /-- inside the body of a `try/stop`: a defeat is `j [defeat]` instead of `halt` -/
  vd : Bool
  deriving Repr, Inhabited

/-- offset of the label `halt` in the runtime library -/
def off_halt : Nat := off_all_is_win + 3

/-- a call of a user function: return address, arguments, frame switch, jump, frame restore -/
def lenCall (ck : Bool) (args : List E) : Nat := 1 + lenArgs ck args + 3 + 1

def lenS (ck : Bool) : (vd : Bool) → S → Nat
  | _, .nil => 0
  | _, .ret => 3
  | vd, .decl _ e k => lenPush ck e + lenS ck vd k
  | vd, .assign _ e k => lenGV ck e + 1 + lenS ck vd k
  | vd, .write e k => lenWrite ck e + lenS ck vd k
  | vd, .writeln (some e) k => lenWrite ck e + 1 + lenS ck vd k
  | vd, .writeln none k => 1 + lenS ck vd k
  | vd, .putc _ k => 1 + lenS ck vd k
  | vd, .block b k => lenS ck vd b + lenS ck vd k
  | vd, .ifb c t e k => lenB ck c 0 2 false true + lenS ck vd t + 2 + lenS ck vd e + lenS ck vd k
  | vd, .loop c body cont k => lenB ck c 0 2 false true + lenS ck vd body + lenS ck vd cont + 2 + lenS ck vd k
  | vd, .defeat k => (if vd then 2 else 1) + lenS ck vd k
  | vd, .defeatIf c k => lenD ck vd c + lenS ck vd k
  | vd, .tryUndo body handler k => 1 + lenS ck vd body + 2 + lenS ck vd handler + lenS ck vd k
  | _, .retE e => lenGV ck e + 4
  | vd, .callS _ args k => lenCall ck args + lenS ck vd k
  | vd, .declCall _ _ args k => lenCall ck args + lenS ck vd k
  | vd, .assignCall _ _ args k => lenCall ck args + 2 + lenS ck vd k
  | _, .brk => 2
  | _, .cnt => 2
  | vd, .tryStop body handler k => 5 + lenS ck true body + 2 + 3 + lenS ck vd handler + lenS ck vd k

/-- the call `write(e)` for an `int` argument (`eval_func_call`, general path, callee `write_int`) -/
def cWrite (cx : Cx) (Γ : Gam) (pc o : Nat) (e : E) : List Instr :=
  let push := pushE cx Γ (pc + 1) (o + cx.w) e
  let endCall := pc + 1 + push.length + 3
  [stSlot cx (o + cx.w) (.imm endCall)] ++ push ++
    [.alu .add cx.fp (.st cx.fp) (cx.negImm o), .j (.imm (cx.B + off_write_int)), .halt,
     .alu .add cx.fp (.st cx.fp) (.imm (wrapI cx.M o))]

/-- push the arguments of a call, left to right, each into the next word of the frame -/
def cArgs (cx : Cx) (Γ : Gam) : (pc o : Nat) → List E → List Instr
  | _, _, [] => []
  | pc, o, e :: es =>
    let c := pushE cx Γ pc o e
    c ++ cArgs cx Γ (pc + c.length) (o + cx.w) es

/-- the call `g(args)` (`eval_func_call`, general path): afterwards an `int` result is in the slot at `o + w` -/
def cCall (cx : Cx) (fa : FAddr) (Γ : Gam) (pc o : Nat) (g : String) (args : List E) : List Instr :=
  let push := cArgs cx Γ (pc + 1) (o + cx.w) args
  let endCall := pc + 1 + push.length + 3
  [stSlot cx (o + cx.w) (.imm endCall)] ++ push ++
    [.alu .add cx.fp (.st cx.fp) (cx.negImm o), .j (.imm (faddr fa g)), .halt,
     .alu .add cx.fp (.st cx.fp) (.imm (wrapI cx.M o))]

def cS (cx : Cx) (fa : FAddr) : (lp : Jt) → (Γ : Gam) → (pc o : Nat) → S → List Instr
  | _, _, _, _, .nil => []
  | _, _, _, _, .ret => [ldSlot cx cx.r1 cx.w, .j (.st cx.r1), .halt]
  | lp, Γ, pc, o, .decl x e k =>
    let c := pushE cx Γ pc o e
    c ++ cS cx fa lp ((x, o + cx.w) :: Γ) (pc + c.length) (o + cx.w) k
  | lp, Γ, pc, o, .assign x e k =>
    let (c, v) := gV cx Γ pc o cx.r1 e
    let c := c ++ [stSlot cx (look Γ x) (v.arg cx)]
    c ++ cS cx fa lp Γ (pc + c.length) o k
  | lp, Γ, pc, o, .write e k =>
    let c := cWrite cx Γ pc o e
    c ++ cS cx fa lp Γ (pc + c.length) o k
  | lp, Γ, pc, o, .writeln (some e) k =>
    let c := cWrite cx Γ pc o e ++ [.yld (.imm 10)]
    c ++ cS cx fa lp Γ (pc + c.length) o k
  | lp, Γ, pc, o, .writeln none k => .yld (.imm 10) :: cS cx fa lp Γ (pc + 1) o k
  | lp, Γ, pc, o, .putc ch k => .yld (.imm (ch % cx.M)) :: cS cx fa lp Γ (pc + 1) o k
  | lp, Γ, pc, o, .block b k =>
    let c := cS cx fa lp Γ pc o b
    c ++ cS cx fa lp Γ (pc + c.length) o k
  | lp, Γ, pc, o, .ifb c t e k =>
    let nC := lenB cx.checked c 0 2 false true
    let elseA := pc + nC + lenS cx.checked lp.vd t + 2
    let endA := elseA + lenS cx.checked lp.vd e
    cB cx Γ pc o c [] (goto elseA) ++ cS cx fa lp Γ (pc + nC) o t ++ goto endA ++ cS cx fa lp Γ elseA o e
      ++ cS cx fa lp Γ endA o k
  | lp, Γ, pc, o, .loop c body cont k =>
    let nC := lenB cx.checked c 0 2 false true
    let contA := pc + nC + lenS cx.checked lp.vd body
    let brkA := contA + lenS cx.checked lp.vd cont + 2
    cB cx Γ pc o c [] (goto brkA) ++ cS cx fa { lp with cont := contA, brk := brkA } Γ (pc + nC) o body ++ cS cx fa lp Γ contA o cont ++ goto pc
      ++ cS cx fa lp Γ brkA o k
  | lp, Γ, pc, o, .defeat k =>
    if lp.vd then [.j (.st cx.dA), .halt] ++ cS cx fa lp Γ (pc + 2) o k else .halt :: cS cx fa lp Γ (pc + 1) o k
  | lp, Γ, pc, o, .defeatIf c k =>
    let d := cD cx lp.vd Γ pc o c
    d ++ cS cx fa lp Γ (pc + d.length) o k
  | lp, Γ, pc, o, .tryUndo body handler k =>
    let hA := pc + 1 + lenS cx.checked lp.vd body + 2
    let endA := hA + lenS cx.checked lp.vd handler
    [.j (.imm hA)] ++ cS cx fa lp Γ (pc + 1) o body ++ goto endA ++ cS cx fa lp Γ hA o handler ++ cS cx fa lp Γ endA o k
  | lp, Γ, pc, o, .retE e =>
    let (c, v) := gV cx Γ pc o cx.r0 e
    c ++ [ldSlot cx cx.r1 cx.w, stSlot cx cx.w (v.arg cx), .j (.st cx.r1), .halt]
  | lp, Γ, pc, o, .callS g args k =>
    let c := cCall cx fa Γ pc o g args
    c ++ cS cx fa lp Γ (pc + c.length) o k
  | lp, Γ, pc, o, .declCall x g args k =>
    let c := cCall cx fa Γ pc o g args
    c ++ cS cx fa lp ((x, o + cx.w) :: Γ) (pc + c.length) (o + cx.w) k
  | lp, Γ, pc, o, .assignCall x g args k =>
    let c := cCall cx fa Γ pc o g args ++ [ldSlot cx cx.r1 (o + cx.w), stSlot cx (look Γ x) (.st cx.r1)]
    c ++ cS cx fa lp Γ (pc + c.length) o k
  | lp, _, _, _, .brk => goto lp.brk
  | lp, _, _, _, .cnt => goto lp.cont
  | lp, Γ, pc, o, .tryStop body handler k =>
    -- `ap` is saved in the next frame slot (bound here to the pseudo-variable `%ap`), `fp` in `try_fp`
    let bodyA := pc + 5
    let hA := bodyA + lenS cx.checked true body + 2
    let hbA := hA + 3
    let endA := hbA + lenS cx.checked lp.vd handler
    [stSlot cx (o + cx.w) (.st 0), .mov (cx.dA - cx.w) (.st cx.fp), .mov cx.dA (.imm hA), .j (.imm bodyA),
     .mov cx.dA (.imm (cx.B + off_halt))] ++
    cS cx fa { lp with vd := true } (("%ap", o + cx.w) :: Γ) bodyA (o + cx.w) body ++ goto endA ++
    [.mov cx.dA (.imm (cx.B + off_halt)), .mov cx.fp (.st (cx.dA - cx.w)), ldSlot cx 0 (o + cx.w)] ++
    cS cx fa lp Γ hbA o handler ++ cS cx fa lp Γ endA o k


/-! ## the stack-check constant (`Tracker`): the peak of `stack.static_size` over the function -/
def pkE (w : Nat) : (o : Nat) → E → Bool → Nat
  | o, .lit _, _ => o
  | o, .var _, _ => o
  | o, .bin _ l r, keep =>
    let p1 := pkE w o l (!isSafe r)
    let o1 := if (!isSafe r) && !isSafe l then o + w else o
    max (max p1 (pkE w o1 r false)) (if keep then o + w else o)
  | o, .neg e, keep => max (pkE w o e false) (if keep then o + w else o)
  | o, .pos e, keep => max (pkE w o e false) (if keep then o + w else o)

def pkB (w : Nat) (o : Nat) : B → Nat
  | .lit _ => o
  | .cmp _ l r =>
    let o1 := if (!isSafe r) && !isSafe l then o + w else o
    max (pkE w o l (!isSafe r)) (pkE w o1 r false)
  | .not b => pkB w o b
  | .and l r => max (pkB w o l) (pkB w o r)
  | .or l r => max (pkB w o l) (pkB w o r)

/-- digits of the longest `write(int)` output minus one word: what `write_int` writes below its frame -/
def wiExcess (w : Nat) : Nat := ((8 * w - 1) * 30103 / 100000 + 1) - w

def pkPush (w o : Nat) (e : E) : Nat := max (pkE w o e true) (o + w)
def pkWrite (w o : Nat) (e : E) : Nat := max (pkPush w (o + w) e) (o + 2 * w + wiExcess w)

def pkArgs (w : Nat) : (o : Nat) → List E → Nat
  | o, [] => o
  | o, e :: es => max (pkPush w o e) (pkArgs w (o + w) es)

def pkCall (w o : Nat) (args : List E) : Nat := max (o + w) (pkArgs w (o + w) args)

def pkS (w : Nat) : (o : Nat) → S → Nat
  | o, .nil => o
  | o, .ret => o
  | o, .decl _ e k => max (pkPush w o e) (pkS w (o + w) k)
  | o, .assign _ e k => max (pkE w o e false) (pkS w o k)
  | o, .write e k => max (pkWrite w o e) (pkS w o k)
  | o, .writeln (some e) k => max (pkWrite w o e) (pkS w o k)
  | o, .writeln none k => pkS w o k
  | o, .putc _ k => pkS w o k
  | o, .block b k => max (pkS w o b) (pkS w o k)
  | o, .ifb c t e k => max (max (pkB w o c) (pkS w o t)) (max (pkS w o e) (pkS w o k))
  | o, .loop c body cont k => max (max (pkB w o c) (pkS w o body)) (max (pkS w o cont) (pkS w o k))
  | o, .defeat k => pkS w o k
  | o, .defeatIf c k => max (pkB w o c) (pkS w o k)
  | o, .tryUndo body handler k => max (max (pkS w o body) (pkS w o handler)) (pkS w o k)
  | o, .retE e => pkE w o e false
  | o, .callS _ args k => max (pkCall w o args) (pkS w o k)
  | o, .declCall _ _ args k => max (pkCall w o args) (pkS w (o + w) k)
  | o, .assignCall _ _ args k => max (pkCall w o args) (pkS w o k)
  | o, .brk => o
  | o, .cnt => o
  | o, .tryStop body handler k => max (o + w) (max (pkS w (o + w) body) (max (pkS w o handler) (pkS w o k)))

/-! ## the whole program -/
structure Config where
  w : Nat
  stackWords : Nat
  checked : Bool
  deriving Repr

/-- a core program: the entry point `@is_you(params)` and the other functions in the order in
which `hidc` emits them (first reference, breadth first) -/
structure CProg where
  params : List String
  body : S
  funs : List FDecl
  deriving Repr, Inhabited

def prologueLen (ck : Bool) : Nat := if ck then 5 else 0

def funcLen (ck vd : Bool) (body : S) : Nat := prologueLen ck + lenS ck vd body

/-- code addresses: each function right behind the previous one -/
def layout (ck : Bool) : Nat → List FDecl → FAddr
  | _, [] => []
  | a, fd :: fds => (fd.name, a) :: layout ck (a + funcLen ck fd.dfn fd.body) fds

def funsLen (ck : Bool) : List FDecl → Nat
  | [] => 0
  | fd :: fds => funcLen ck fd.dfn fd.body + funsLen ck fds

/-- length of all function code = address of the runtime library -/
def progLen (ck : Bool) (pr : CProg) : Nat := funcLen ck false pr.body + funsLen ck pr.funs

def progFA (ck : Bool) (pr : CProg) : FAddr := layout ck (funcLen ck false pr.body) pr.funs

/-- address of the state word `defeat`: the words `try_fp` and `defeat` follow the entry frame -/
def defeatAddr (cf : Config) (pr : CProg) : Nat := 5 * cf.w + cf.stackWords * cf.w + pr.params.length * cf.w + cf.w + cf.w

def mkCx (cf : Config) (pr : CProg) : Cx :=
  { w := cf.w, checked := cf.checked, B := progLen cf.checked pr, dA := defeatAddr cf pr }

/-- frame offsets of the `int` parameters of a function, starting at offset `o` (the return
address is at `w`, so the first parameter is at `2w`), in order -/
def paramGam (w : Nat) : (o : Nat) → List String → Gam
  | _, [] => []
  | o, x :: xs => (x, o) :: paramGam w (o + w) xs

/-- stack offset at the start of a function body: return address and parameters are reserved -/
def entryOff (w : Nat) (params : List String) : Nat := (params.length + 1) * w

/-- one function placed at `base`: the stack check (checked builds), then the body -/
def funcCode (cx : Cx) (fa : FAddr) (base : Nat) (vd : Bool) (params : List String) (body : S) : List Instr :=
  (if cx.checked then
    [.j (.imm (base + 5)), .alu .sub cx.r1 (.st cx.fp) (.st 0),
     .hcond .hgeu (.st cx.r1) (.imm (pkS cx.w (entryOff cx.w params) body % cx.M)),
     .j (.imm (cx.B + off_stack_overflow)), .halt]
   else []) ++ cS cx fa ⟨0, 0, vd⟩ (paramGam cx.w (2 * cx.w) params) (base + prologueLen cx.checked) (entryOff cx.w params) body

def funsCode (cx : Cx) (fa : FAddr) : Nat → List FDecl → List Instr
  | _, [] => []
  | a, fd :: fds => funcCode cx fa a fd.dfn fd.params fd.body ++ funsCode cx fa (a + funcLen cx.checked fd.dfn fd.body) fds

def progCode (cf : Config) (pr : CProg) : List Instr :=
  let cx := mkCx cf pr
  let fa := progFA cf.checked pr
  funcCode cx fa 0 false pr.params pr.body ++ funsCode cx fa (funcLen cf.checked false pr.body) pr.funs

/-- the program has a `try/stop` (then the state section has the words `try_fp` and `defeat`) -/
def hasStop : S → Bool
  | .nil => false | .ret => false | .retE _ => false | .brk => false | .cnt => false
  | .decl _ _ k => hasStop k | .assign _ _ k => hasStop k | .write _ k => hasStop k
  | .writeln _ k => hasStop k | .putc _ k => hasStop k
  | .block b k => hasStop b || hasStop k
  | .ifb _ t e k => hasStop t || hasStop e || hasStop k
  | .loop _ body cont k => hasStop body || hasStop cont || hasStop k
  | .defeat k => hasStop k | .defeatIf _ k => hasStop k
  | .tryUndo b h k => hasStop b || hasStop h || hasStop k
  | .tryStop _ _ _ => true
  | .callS _ _ k => hasStop k | .declCall _ _ _ k => hasStop k | .assignCall _ _ _ k => hasStop k

/-- store the (already parsed) command-line arguments into the entry frame -/
def writeArgs (w F : Nat) : Mem → Nat → List Int → Mem
  | m, _, [] => m
  | m, i, a :: rest => writeArgs w F (m.writeLE (F - (i + 2) * w) w (wrapI (256 ^ w) a)) (i + 1) rest

/-- does the state section have the words `try_fp` and `defeat`?  (`needs_variable_defeat`: a `try/stop`, or a
defeat function among the emitted functions) -/
def needsVD (pr : CProg) : Bool := hasStop pr.body || pr.funs.any (·.dfn)

/-- the state section `gen_lines` emits, before the arguments are stored: `ap fp r0 r1 r2`, the stack, the
entry frame (room for the arguments, then the return address of `@is_you`, which is `all_is_win`), and in
programs with a `try/stop` or a defeat function two more words behind the entry frame, `try_fp` (0) and `defeat` (`halt`);
everything else is zero -/
def initBase (cf : Config) (nargs : Nat) (pr : CProg) : Mem :=
  let w := cf.w
  let stackEnd := 5 * w + cf.stackWords * w + nargs * w + w
  let m0 : Mem := ((((⟨Array.replicate (stackEnd + (if needsVD pr then 2 * w else 0)) 0⟩ : Mem).writeLE 0 w (5 * w)).writeLE w w stackEnd).writeLE
      (stackEnd - w) w (progLen cf.checked pr + off_all_is_win))
  if needsVD pr then m0.writeLE (stackEnd + w) w (progLen cf.checked pr + off_halt) else m0

/-- the initial state: the (already parsed) command-line arguments stored in the entry frame -/
def initMem (cf : Config) (args : List Int) (pr : CProg) : Mem :=
  writeArgs cf.w (5 * cf.w + cf.stackWords * cf.w + args.length * cf.w + cf.w) (initBase cf args.length pr) 0 args

def coreProg (cf : Config) (pr : CProg) : Prog :=
  { w := cf.w, code := (progCode cf pr ++ stdlibCode cf.w (progLen cf.checked pr)).toArray, const := ⟨#[]⟩ }

def coreInit (cf : Config) (args : List Int) (pr : CProg) : St := ⟨0, initMem cf args pr⟩

/-! ## source semantics (word values are the machine representation `0 ≤ v < 256^w`) -/
abbrev Env := String → Nat

def evalE (M n : Nat) (env : Env) : E → Option Nat
  | .lit v => some (wrapI M v)
  | .var x => some (env x)
  | .bin op l r => do
    let a ← evalE M n env l
    let b ← evalE M n env r
    aluOp M n (aluOf op) a b
  | .neg e => do let a ← evalE M n env e; aluOp M n .sub 0 a
  | .pos e => evalE M n env e

def evalB (M n : Nat) (env : Env) : B → Option Bool
  | .lit b => some b
  | .cmp op l r => do
    let a ← evalE M n env l
    let b ← evalE M n env r
    pure (haltCond M (cmpHalt op) a b)
  | .not b => do let v ← evalB M n env b; pure (!v)
  | .and l r => do
    let a ← evalB M n env l
    if a then evalB M n env r else pure false
  | .or l r => do
    let a ← evalB M n env l
    if a then pure true else evalB M n env r

inductive Res | norm | returned | div0 | defeat | retv (v : Nat) | ovf | brk | cnt
  deriving DecidableEq, Repr, Inhabited

def upd (env : Env) (x : String) (v : Nat) : Env := fun y => if y = x then v else env y

def evalArgs (M n : Nat) (env : Env) : List E → Option (List Nat)
  | [] => some []
  | e :: es => do
    let v ← evalE M n env e
    let vs ← evalArgs M n env es
    pure (v :: vs)

/-- the environment a function starts in: its parameters bound to the (word) values passed -/
def bindEnv : List String → List Nat → Env
  | x :: xs, v :: vs => upd (bindEnv xs vs) x v
  | _, _ => fun _ => 0

/-- what a call does, given the executor `ex` for the callee's body (one unit of fuel less):
`none` = no conclusion (unknown function, arity mismatch, the callee does not return, out of fuel);
otherwise the events of the call, the fault that ended the run if any (`div0`; or `ovf`: the
callee's frame does not fit — `room` is the number of bytes between the bottom of the stack and the
caller's frame pointer, `o` the caller's stack offset at the call, and the callee's stack check
compares what is left with its frame peak; only checked builds define either), and the value
returned. -/
def callWith (M n : Nat) (fns : List FDecl) (w : Nat)
    (ex : (room o : Nat) → Env → S → Option (Env × List Ev × Res))
    (room o : Nat) (env : Env) (g : String) (args : List E) : Option (List Ev × Option Res × Option Nat) :=
  match evalArgs M n env args with
  | none => some ([], some .div0, none)
  | some vs =>
    match fns.find? (fun fd => fd.name == g) with
    | none => none
    | some fd =>
      if vs.length ≠ fd.params.length ∨ room < o then none else
      if room - o < pkS w (entryOff w fd.params) fd.body then some ([], some .ovf, none) else
      match ex (room - o) (entryOff w fd.params) (bindEnv fd.params vs) fd.body with
      | some (_, tr, .returned) => some (tr, none, none)
      | some (_, tr, .retv v) => some (tr, none, some v)
      | some (_, tr, .div0) => some (tr, some .div0, none)
      | some (_, tr, .ovf) => some (tr, some .ovf, none)
      | some (_, tr, .defeat) => if fd.dfn then some (tr, some .defeat, none) else none
      | _ => none

/-- `none` = no conclusion: out of fuel (see also `callWith`).  Output events only; the
terminal flags are added by `runCore`.  `room` and `o` mirror the compiler's stack accounting
(they only matter for calls). -/
def exec (M n : Nat) (fns : List FDecl) (w : Nat) :
    (fuel : Nat) → (room o : Nat) → Env → S → Option (Env × List Ev × Res)
  | 0, _, _, _, _ => none
  | _ + 1, _, _, env, .nil => some (env, [], .norm)
  | _ + 1, _, _, env, .ret => some (env, [], .returned)
  | f + 1, room, o, env, .decl x e k =>
    match evalE M n env e with
    | none => some (env, [], .div0)
    | some v => exec M n fns w f room (o + w) (upd env x v) k
  | f + 1, room, o, env, .assign x e k =>
    match evalE M n env e with
    | none => some (env, [], .div0)
    | some v => exec M n fns w f room o (upd env x v) k
  | f + 1, room, o, env, .write e k =>
    match evalE M n env e with
    | none => some (env, [], .div0)
    | some v => do
      let (env', tr, r) ← exec M n fns w f room o env k
      pure (env', outs (decimalW M v) ++ tr, r)
  | f + 1, room, o, env, .writeln (some e) k =>
    match evalE M n env e with
    | none => some (env, [], .div0)
    | some v => do
      let (env', tr, r) ← exec M n fns w f room o env k
      pure (env', outs (decimalW M v) ++ [Ev.out 10] ++ tr, r)
  | f + 1, room, o, env, .writeln none k => do
    let (env', tr, r) ← exec M n fns w f room o env k
    pure (env', Ev.out 10 :: tr, r)
  | f + 1, room, o, env, .putc c k => do
    let (env', tr, r) ← exec M n fns w f room o env k
    pure (env', Ev.out (c % M % 256) :: tr, r)
  | f + 1, room, o, env, .block b k => do
    let (env1, tr1, r1) ← exec M n fns w f room o env b
    if r1 = .norm then
      let (env2, tr2, r2) ← exec M n fns w f room o env1 k
      pure (env2, tr1 ++ tr2, r2)
    else pure (env1, tr1, r1)
  | f + 1, room, o, env, .ifb c t e k =>
    match evalB M n env c with
    | none => some (env, [], .div0)
    | some cv => do
      let (env1, tr1, r1) ← exec M n fns w f room o env (if cv then t else e)
      if r1 = .norm then
        let (env2, tr2, r2) ← exec M n fns w f room o env1 k
        pure (env2, tr1 ++ tr2, r2)
      else pure (env1, tr1, r1)
  | f + 1, room, o, env, .loop c body cont k =>
    match evalB M n env c with
    | none => some (env, [], .div0)
    | some false => exec M n fns w f room o env k
    | some true => do
      let (env1, tr1, r1) ← exec M n fns w f room o env body
      if r1 = .norm ∨ r1 = .cnt then
        let (env2, tr2, r2) ← exec M n fns w f room o env1 cont
        if r2 = .norm then
          let (env3, tr3, r3) ← exec M n fns w f room o env2 (.loop c body cont k)
          pure (env3, tr1 ++ tr2 ++ tr3, r3)
        else pure (env2, tr1 ++ tr2, r2)
      else if r1 = .brk then
        let (env3, tr3, r3) ← exec M n fns w f room o env1 k
        pure (env3, tr1 ++ tr3, r3)
      else pure (env1, tr1, r1)
  | _ + 1, _, _, env, .defeat _ => some (env, [], .defeat)
  | f + 1, room, o, env, .defeatIf c k =>
    match evalB M n env c with
    | none => some (env, [], .div0)
    | some true => some (env, [], .defeat)
    | some false => exec M n fns w f room o env k
  | f + 1, room, o, env, .tryUndo body handler k => do
    let (env1, tr1, r1) ← exec M n fns w f room o env body
    if r1 = .defeat then
      -- the try body is never run: the handler starts from the state before the try
      let (env2, tr2, r2) ← exec M n fns w f room o env handler
      if r2 = .norm then
        let (env3, tr3, r3) ← exec M n fns w f room o env2 k
        pure (env3, tr2 ++ tr3, r3)
      else pure (env2, tr2, r2)
    else if r1 = .norm then
      let (env3, tr3, r3) ← exec M n fns w f room o env1 k
      pure (env3, tr1 ++ tr3, r3)
    else pure (env1, tr1, r1)
  | _ + 1, _, _, env, .retE e =>
    match evalE M n env e with
    | none => some (env, [], .div0)
    | some v => some (env, [], .retv v)
  | f + 1, room, o, env, .callS g args k =>
    match callWith M n fns w (exec M n fns w f) room o env g args with
    | none => none
    | some (trc, some r, _) => some (env, trc, r)
    | some (trc, none, _) => do
      let (env', tr, r) ← exec M n fns w f room o env k
      pure (env', trc ++ tr, r)
  | f + 1, room, o, env, .declCall x g args k =>
    match callWith M n fns w (exec M n fns w f) room o env g args with
    | none => none
    | some (trc, some r, _) => some (env, trc, r)
    | some (_, none, none) => none
    | some (trc, none, some v) => do
      let (env', tr, r) ← exec M n fns w f room (o + w) (upd env x v) k
      pure (env', trc ++ tr, r)
  | f + 1, room, o, env, .assignCall x g args k =>
    match callWith M n fns w (exec M n fns w f) room o env g args with
    | none => none
    | some (trc, some r, _) => some (env, trc, r)
    | some (_, none, none) => none
    | some (trc, none, some v) => do
      let (env', tr, r) ← exec M n fns w f room o (upd env x v) k
      pure (env', trc ++ tr, r)

  | _ + 1, _, _, env, .brk => some (env, [], .brk)
  | _ + 1, _, _, env, .cnt => some (env, [], .cnt)
  | f + 1, room, o, env, .tryStop body handler k => do
    -- the frame slot that keeps `ap` for the handler is the pseudo-variable `%ap`
    let (env1, tr1, r1) ← exec M n fns w f room (o + w) (upd env "%ap" (5 * w)) body
    if r1 = .defeat then
      -- the body ran up to the point of defeat; what it did stays; the handler goes on from there.
      -- (`%ap` is the compiler's own slot: no source program can name it, and a tree that assigns to it has no meaning here)
      if env1 "%ap" ≠ 5 * w then none else
      let (env2, tr2, r2) ← exec M n fns w f room o env1 handler
      if r2 = .norm then
        let (env3, tr3, r3) ← exec M n fns w f room o env2 k
        pure (env3, tr1 ++ tr2 ++ tr3, r3)
      else pure (env2, tr1 ++ tr2, r2)
    else if r1 = .norm then
      let (env3, tr3, r3) ← exec M n fns w f room o env1 k
      pure (env3, tr1 ++ tr3, r3)
    else pure (env1, tr1, r1)

/-- the environment the entry point starts in: its parameters bound to the arguments -/
def argEnv (M : Nat) (params : List String) (args : List Int) : Env := bindEnv params (args.map (wrapI M))

/-- observable behaviour of a core program: output events followed by the terminal flags -/
def runCore (cf : Config) (fuel : Nat) (args : List Int) (pr : CProg) : Option (List Ev) :=
  let room := cf.stackWords * cf.w + args.length * cf.w + cf.w
  if room < pkS cf.w (entryOff cf.w pr.params) pr.body then
    (if cf.checked then some [Ev.flag "stack_overflow", Ev.flag "error"] else none) else
  match exec (256 ^ cf.w) (8 * cf.w) pr.funs cf.w fuel room (entryOff cf.w pr.params)
      (argEnv (256 ^ cf.w) pr.params args) pr.body with
  | none => none
  | some (_, tr, .div0) => if cf.checked then some (tr ++ [Ev.flag "division_by_zero", Ev.flag "error"]) else none
  | some (_, tr, .ovf) => if cf.checked then some (tr ++ [Ev.flag "stack_overflow", Ev.flag "error"]) else none
  | some (_, tr, .defeat) => some tr
  | some (_, tr, _) => some (tr ++ [Ev.flag "win"])

/-! ## recognising core programs in the typed tree dumped by the real front end -/
open HidVerif.Hid in
partial def toE : Hid.Expr → Option E
  | .lit .int v => some (.lit v)
  | .var x => some (.var x)
  | .bin op l r => do
    let op ← match op with
      | .add => some AOp.add | .sub => some .sub | .mul => some .mul | .div => some .div | .mod => some .mod
      | _ => none
    pure (.bin op (← toE l) (← toE r))
  | .un .neg e => do pure (.neg (← toE e))
  | .un .pos e => do pure (.pos (← toE e))
  | _ => none

open HidVerif.Hid in
partial def toB : Hid.Expr → Option B
  | .lit .bool v => some (.lit (v != 0))
  | .bin op l r =>
    match op with
    | .and => do pure (.and (← toB l) (← toB r))
    | .or => do pure (.or (← toB l) (← toB r))
    | .lt => do pure (.cmp .lt (← toE l) (← toE r))
    | .gt => do pure (.cmp .gt (← toE l) (← toE r))
    | .le => do pure (.cmp .le (← toE l) (← toE r))
    | .ge => do pure (.cmp .ge (← toE l) (← toE r))
    | .eq => do pure (.cmp .eq (← toE l) (← toE r))
    | .ne => do pure (.cmp .ne (← toE l) (← toE r))
    | _ => none
  | .un .not e => do pure (.not (← toB e))
  | _ => none

open HidVerif.Hid in
/-- statement lists of the core (only `int` locals are admitted); `fns` are the user functions that may be called -/
partial def toS (fns : List String) : List Hid.Stmt → Option S
  | [] => some .nil
  | .ret none :: _ => some .ret
  | .ret (some e) :: _ => do pure (.retE (← toE e))
  | .decl x .int (.call g ptys args) :: k =>
    if fns.contains g && ptys.all (· == .int) then do pure (.declCall x g (← args.mapM toE) (← toS fns k)) else none
  | .decl x .int init :: k => do pure (.decl x (← toE init) (← toS fns k))
  | .assign (.var x) (.call g ptys args) :: k =>
    if fns.contains g && ptys.all (· == .int) then do pure (.assignCall x g (← args.mapM toE) (← toS fns k)) else none
  | .assign (.var x) rhs :: k => do pure (.assign x (← toE rhs) (← toS fns k))
  | .incassign (.var x) rhs op .int :: k => do
    let op ← match op with
      | .add => some AOp.add | .sub => some .sub | .mul => some .mul | .div => some .div | .mod => some .mod
      | _ => none
    pure (.assign x (.bin op (.var x) (← toE rhs)) (← toS fns k))
  | .expr (.call "write" [.int] [e]) :: k => do pure (.write (← toE e) (← toS fns k))
  | .expr (.call "write" [.byte] [.lit .byte c]) :: k => do pure (.putc c.toNat (← toS fns k))
  | .expr (.call "writeln" [.int] [e]) :: k => do pure (.writeln (some (← toE e)) (← toS fns k))
  | .expr (.call "writeln" [] []) :: k => do pure (.writeln none (← toS fns k))
  | .expr (.call "writeln" [.byte] [.lit .byte c]) :: k => do pure (.putc c.toNat (.writeln none (← toS fns k)))
  | .expr (.call "!is_defeat" [] []) :: k => do pure (.defeat (← toS fns k))
  | .expr (.call "!truth_is_defeat" [.bool] [c]) :: k => do
    let c ← toB c
    if isD c then pure (.defeatIf c (← toS fns k)) else none
  | .expr (.call g ptys args) :: k =>
    if fns.contains g && ptys.all (· == .int) then do pure (.callS g (← args.mapM toE) (← toS fns k)) else none
  | .brk :: _ => some .brk
  | .cont :: _ => some .cnt
  | .block ss :: k => do pure (.block (← toS fns ss) (← toS fns k))
  | .ifb c (.block t) (.block e) :: k => do pure (.ifb (← toB c) (← toS fns t) (← toS fns e) (← toS fns k))
  | .loop c (.block body) (.block cont) :: k => do pure (.loop (← toB c) (← toS fns body) (← toS fns cont) (← toS fns k))
  | .tryb (.block body) .undo (.block handler) :: k => do
    pure (.tryUndo (← toS fns body) (← toS fns handler) (← toS fns k))
  | .tryb (.block body) .stop (.block handler) :: k => do
    pure (.tryStop (← toS fns body) (← toS fns handler) (← toS fns k))
  | _ => none

/-- the functions called in a statement list, in the order in which code generation meets the calls -/
def callsOf : S → List String
  | .nil => [] | .ret => [] | .retE _ => [] | .brk => [] | .cnt => []
  | .decl _ _ k => callsOf k | .assign _ _ k => callsOf k | .write _ k => callsOf k | .writeln _ k => callsOf k
  | .putc _ k => callsOf k
  | .block b k => callsOf b ++ callsOf k
  | .ifb _ t e k => callsOf t ++ callsOf e ++ callsOf k
  | .loop _ body cont k => callsOf body ++ callsOf cont ++ callsOf k
  | .defeat k => callsOf k | .defeatIf _ k => callsOf k
  | .tryUndo b h k => callsOf b ++ callsOf h ++ callsOf k
  | .tryStop b h k => callsOf b ++ callsOf h ++ callsOf k
  | .callS g _ k => g :: callsOf k | .declCall _ g _ k => g :: callsOf k | .assignCall _ g _ k => g :: callsOf k

/-- `hidc` emits a function when it is first referenced (a FIFO work list starting at `@is_you`) -/
partial def emitOrder (all : List FDecl) (queue seen : List String) (acc : List FDecl) : List FDecl :=
  match queue with
  | [] => acc.reverse
  | g :: rest =>
    match all.find? (fun fd => fd.name == g) with
    | none => emitOrder all rest seen acc
    | some fd =>
      let new := (callsOf fd.body).foldl (fun l h => if seen.contains h || l.contains h then l else l ++ [h]) []
      emitOrder all (rest ++ new) (seen ++ new) (fd :: acc)

def fromAst (p : Hid.Program) : Option CProg :=
  if !p.globals.isEmpty then none else
  let names := (p.funcs.filter (fun f => f.name != "@is_you")).map (·.name)
  let conv (f : Hid.Func) : Option FDecl :=
    if (f.ret == .empty || f.ret == .int) && f.params.all (fun q => q.2 == .int) && !f.preemptive
        && !(f.name.startsWith "@") then
      match f.body with
      | .block ss => (toS names ss).map (fun b => { name := f.name, params := f.params.map (·.1), body := b, dfn := f.name.startsWith "!" })
      | _ => none
    else none
  match p.funcs.find? (fun f => f.name == "@is_you") with
  | none => none
  | some e =>
    if e.ret == .empty && e.params.all (fun q => q.2 == .int) && !e.preemptive then
      match e.body with
      | .block ss => do
        let body ← toS names ss
        -- only functions reachable from the entry point are emitted (and need to be in the core)
        let others := p.funcs.filter (fun f => f.name != "@is_you")
        let reach := (emitOrder (others.filterMap (fun f => conv f <|> some { name := f.name, params := [], body := .nil }))
                        (callsOf body |>.foldl (fun l h => if l.contains h then l else l ++ [h]) [])
                        (callsOf body) []).map (·.name)
        let funs ← reach.mapM (fun g => (others.find? (fun f => f.name == g)).bind conv)
        pure { params := e.params.map (·.1), body := body, funs := funs }
      | _ => none
    else none

/-! ## well-formedness assumed by the theorems (decidable; guaranteed by the front end, and
re-checked by `hidmodel` on every program of the correspondence suite) -/
def boundE (Γ : List String) : E → Bool
  | .lit _ => true
  | .var x => Γ.contains x
  | .bin _ l r => boundE Γ l && boundE Γ r
  | .neg e => boundE Γ e
  | .pos e => boundE Γ e

def boundB (Γ : List String) : B → Bool
  | .lit _ => true
  | .cmp _ l r => boundE Γ l && boundE Γ r
  | .not b => boundB Γ b
  | .and l r => boundB Γ l && boundB Γ r
  | .or l r => boundB Γ l && boundB Γ r

/-- is `g` a defeat function of the program? -/
def isDfn (fns : List FDecl) (g : String) : Bool :=
  match fns.find? (fun fd => fd.name == g) with
  | some fd => fd.dfn
  | none => false

/-- variables are declared before use and never shadowed; defeat functions are called only in defeat contexts
(`vd`: the list is inside the body of a `try` or of a defeat function) -/
def wfS (fns : List FDecl) : Bool → List String → S → Bool
  | _, _, .nil => true
  | _, _, .ret => true
  | vd, Γ, .decl x e k => boundE Γ e && !Γ.contains x && wfS fns vd (x :: Γ) k
  | vd, Γ, .assign x e k => Γ.contains x && boundE Γ e && wfS fns vd Γ k
  | vd, Γ, .write e k => boundE Γ e && wfS fns vd Γ k
  | vd, Γ, .writeln (some e) k => boundE Γ e && wfS fns vd Γ k
  | vd, Γ, .writeln none k => wfS fns vd Γ k
  | vd, Γ, .putc _ k => wfS fns vd Γ k
  | vd, Γ, .block b k => wfS fns vd Γ b && wfS fns vd Γ k
  | vd, Γ, .ifb c t e k => boundB Γ c && wfS fns vd Γ t && wfS fns vd Γ e && wfS fns vd Γ k
  | vd, Γ, .loop c body cont k => boundB Γ c && wfS fns vd Γ body && wfS fns vd Γ cont && wfS fns vd Γ k
  | vd, Γ, .defeat k => wfS fns vd Γ k
  | vd, Γ, .defeatIf c k => boundB Γ c && isD c && wfS fns vd Γ k
  | vd, Γ, .tryUndo body handler k => wfS fns true Γ body && wfS fns vd Γ handler && wfS fns vd Γ k
  | _, Γ, .retE e => boundE Γ e
  | vd, Γ, .callS g args k => args.all (boundE Γ) && wfS fns vd Γ k && (vd || !isDfn fns g)
  | vd, Γ, .declCall x g args k => args.all (boundE Γ) && !Γ.contains x && wfS fns vd (x :: Γ) k && (vd || !isDfn fns g)
  | vd, Γ, .assignCall x g args k => Γ.contains x && args.all (boundE Γ) && wfS fns vd Γ k && (vd || !isDfn fns g)
  | _, _, .brk => true
  | _, _, .cnt => true
  | vd, Γ, .tryStop body handler k => !Γ.contains "%ap" && wfS fns true ("%ap" :: Γ) body && wfS fns vd Γ handler && wfS fns vd Γ k

/-- no `try` inside (the body of a `try` is a defeat context, where `try` is not allowed) -/
def noTry : S → Bool
  | .nil => true | .ret => true
  | .decl _ _ k => noTry k | .assign _ _ k => noTry k | .write _ k => noTry k | .writeln _ k => noTry k
  | .putc _ k => noTry k
  | .block b k => noTry b && noTry k
  | .ifb _ t e k => noTry t && noTry e && noTry k
  | .loop _ body cont k => noTry body && noTry cont && noTry k
  | .defeat k => noTry k | .defeatIf _ k => noTry k
  | .tryUndo _ _ _ => false
  | .retE _ => true
  | .callS _ _ k => noTry k | .declCall _ _ _ k => noTry k | .assignCall _ _ _ k => noTry k
  | .brk => true | .cnt => true
  | .tryStop _ _ _ => false

/-- neither `try` nor defeat calls -/
def plain (fns : List FDecl) : S → Bool
  | .nil => true | .ret => true
  | .decl _ _ k => plain fns k | .assign _ _ k => plain fns k | .write _ k => plain fns k | .writeln _ k => plain fns k
  | .putc _ k => plain fns k
  | .block b k => plain fns b && plain fns k
  | .ifb _ t e k => plain fns t && plain fns e && plain fns k
  | .loop _ body cont k => plain fns body && plain fns cont && plain fns k
  | .defeat _ => false | .defeatIf _ _ => false
  | .tryUndo _ _ _ => false
  | .retE _ => true
  | .callS g _ k => !isDfn fns g && plain fns k | .declCall _ g _ k => !isDfn fns g && plain fns k
  | .assignCall _ g _ k => !isDfn fns g && plain fns k
  | .brk => true | .cnt => true
  | .tryStop _ _ _ => false

/-- the flavour rules on core programs (guaranteed by the parser, C06): at the level of the you
function defeat calls occur only inside `try` bodies, `try` is not nested, handlers are plain;
`st` says whether `try/stop` may occur (the state section then has the words `try_fp` and `defeat`) -/
def youLevel (st : Bool) (fns : List FDecl) : S → Bool
  | .nil => true | .ret => true
  | .decl _ _ k => youLevel st fns k | .assign _ _ k => youLevel st fns k | .write _ k => youLevel st fns k | .writeln _ k => youLevel st fns k
  | .putc _ k => youLevel st fns k
  | .block b k => youLevel st fns b && youLevel st fns k
  | .ifb _ t e k => youLevel st fns t && youLevel st fns e && youLevel st fns k
  | .loop _ body cont k => youLevel st fns body && youLevel st fns cont && youLevel st fns k
  | .defeat _ => false | .defeatIf _ _ => false
  | .tryUndo body handler k => noTry body && plain fns handler && youLevel st fns k
  | .retE _ => true
  | .callS g _ k => !isDfn fns g && youLevel st fns k | .declCall _ g _ k => !isDfn fns g && youLevel st fns k
  | .assignCall _ g _ k => !isDfn fns g && youLevel st fns k
  | .brk => true | .cnt => true
  | .tryStop body handler k => st && noTry body && plain fns handler && youLevel st fns k

/-- control never falls off the end of the list (the front end appends `return;` to every `void`
function that could, and rejects the others: `FuncDefinition.evaluate`) -/
def noFall : S → Bool
  | .nil => false | .ret => true | .retE _ => true
  | .decl _ _ k => noFall k | .assign _ _ k => noFall k | .write _ k => noFall k
  | .writeln _ k => noFall k | .putc _ k => noFall k
  | .block b k => noFall b || noFall k
  | .ifb _ t e k => (noFall t && noFall e) || noFall k
  | .loop _ _ _ k => noFall k
  | .defeat _ => true | .defeatIf _ k => noFall k
  | .tryUndo b h k => (noFall b && noFall h) || noFall k
  | .callS _ _ k => noFall k | .declCall _ _ _ k => noFall k | .assignCall _ _ _ k => noFall k
  | .brk => true | .cnt => true
  | .tryStop b h k => (noFall b && noFall h) || noFall k

/-- `break` and `continue` occur only inside loop bodies (`inLoop`; guaranteed by the parser, C06) -/
def escFree : Bool → S → Bool
  | _, .nil => true | _, .ret => true | _, .retE _ => true
  | b, .brk => b | b, .cnt => b
  | b, .decl _ _ k => escFree b k | b, .assign _ _ k => escFree b k | b, .write _ k => escFree b k
  | b, .writeln _ k => escFree b k | b, .putc _ k => escFree b k
  | b, .block s k => escFree b s && escFree b k
  | b, .ifb _ t e k => escFree b t && escFree b e && escFree b k
  | b, .loop _ body cont k => escFree true body && escFree b cont && escFree b k
  | b, .defeat k => escFree b k | b, .defeatIf _ k => escFree b k
  | b, .tryUndo s h k => escFree b s && escFree b h && escFree b k
  | b, .callS _ _ k => escFree b k | b, .declCall _ _ _ k => escFree b k | b, .assignCall _ _ _ k => escFree b k
  | b, .tryStop s h k => escFree b s && escFree b h && escFree b k

/-- every call names a function of the table with the right number of arguments -/
def callsOK (fns : List FDecl) : S → Bool
  | .nil => true | .ret => true | .retE _ => true | .brk => true | .cnt => true
  | .decl _ _ k => callsOK fns k | .assign _ _ k => callsOK fns k | .write _ k => callsOK fns k
  | .writeln _ k => callsOK fns k | .putc _ k => callsOK fns k
  | .block b k => callsOK fns b && callsOK fns k
  | .ifb _ t e k => callsOK fns t && callsOK fns e && callsOK fns k
  | .loop _ body cont k => callsOK fns body && callsOK fns cont && callsOK fns k
  | .defeat k => callsOK fns k | .defeatIf _ k => callsOK fns k
  | .tryUndo b h k => callsOK fns b && callsOK fns h && callsOK fns k
  | .tryStop b h k => callsOK fns b && callsOK fns h && callsOK fns k
  | .callS g args k =>
    (match fns.find? (fun fd => fd.name == g) with | some fd => fd.params.length == args.length | none => false) && callsOK fns k
  | .declCall _ g args k =>
    (match fns.find? (fun fd => fd.name == g) with | some fd => fd.params.length == args.length | none => false) && callsOK fns k
  | .assignCall _ g args k =>
    (match fns.find? (fun fd => fd.name == g) with | some fd => fd.params.length == args.length | none => false) && callsOK fns k

/-- no `return` -/
def noRet : S → Bool
  | .nil => true | .ret => false | .retE _ => false | .brk => true | .cnt => true
  | .decl _ _ k => noRet k | .assign _ _ k => noRet k | .write _ k => noRet k
  | .writeln _ k => noRet k | .putc _ k => noRet k
  | .block b k => noRet b && noRet k
  | .ifb _ t e k => noRet t && noRet e && noRet k
  | .loop _ body cont k => noRet body && noRet cont && noRet k
  | .defeat k => noRet k | .defeatIf _ k => noRet k
  | .tryUndo b h k => noRet b && noRet h && noRet k
  | .tryStop b h k => noRet b && noRet h && noRet k
  | .callS _ _ k => noRet k | .declCall _ _ _ k => noRet k | .assignCall _ _ _ k => noRet k

/-- the bodies of `try/stop` blocks are within what the proofs cover: no `return`, no `break`/`continue`
leaving the body (and no `!truth_is_defeat`: `wfS`) -/
def stopOK : S → Bool
  | .nil => true | .ret => true | .retE _ => true | .brk => true | .cnt => true
  | .decl _ _ k => stopOK k | .assign _ _ k => stopOK k | .write _ k => stopOK k
  | .writeln _ k => stopOK k | .putc _ k => stopOK k
  | .block b k => stopOK b && stopOK k
  | .ifb _ t e k => stopOK t && stopOK e && stopOK k
  | .loop _ body cont k => stopOK body && stopOK cont && stopOK k
  | .defeat k => stopOK k | .defeatIf _ k => stopOK k
  | .tryUndo b h k => stopOK b && stopOK h && stopOK k
  | .tryStop b h k => noRet b && escFree false b && stopOK h && stopOK k
  | .callS _ _ k => stopOK k | .declCall _ _ _ k => stopOK k | .assignCall _ _ _ k => stopOK k

/-- the static conditions the theorems assume of a program (all guaranteed by the front end) -/
def wfProg (pr : CProg) : Bool :=
  pr.params.Nodup && wfS pr.funs false pr.params pr.body && youLevel (needsVD pr) pr.funs pr.body && noFall pr.body && escFree false pr.body &&
  stopOK pr.body && callsOK pr.funs pr.body &&
  (pr.funs.map (·.name)).Nodup &&
  pr.funs.all (fun fd => fd.params.Nodup && wfS pr.funs fd.dfn fd.params fd.body && (if fd.dfn then noTry fd.body else plain pr.funs fd.body) && callsOK pr.funs fd.body)

end HidVerif.Core
