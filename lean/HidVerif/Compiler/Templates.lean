import HidVerif.Sphinx.Asm
import HidVerif.Gen.Stdlib
import HidVerif.Gen.Tables
/-!
# Code templates of the generator, anchored at the labels it emits

`hidc` names the label that ends each guard / branch idiom (`div_allowed_k`, `index_in_bounds_k`,
`no_overflow_k`, `safe_length_k`, `compare_is_true_k`, `is_true_k`, `bool_normalized_k`, …).
The definitions below say what instruction sequence must surround such a label; `conform`
checks an assembled program against them (run by the harness on every program it compiles:
the correspondence between these hand-written templates and the real generator), and
`Proofs/Templates.lean` proves what the templates do for all operand values and word sizes.
-/
namespace HidVerif.Compiler
open HidVerif.Sphinx

/-- one-sided guard: `j ok; h<c> a b; j stub; halt; ok:` — falls into the stub iff the halt
does not fire -/
def guardT (ok : Nat) (c : HaltOp) (a b : Arg) (stub : Nat) : List Instr :=
  [.j (.imm ok), .hcond c a b, .j (.imm stub), .halt]

def divGuard (ok : Nat) (b : Arg) (stub : Nat) : List Instr := guardT ok .hne b (.imm 0) stub
def indexGuard (ok : Nat) (idx len : Arg) (stub : Nat) : List Instr := guardT ok .hltu idx len stub
def lengthGuard (ok : Nat) (len : Arg) (maxLen : Nat) (stub : Nat) : List Instr :=
  guardT ok .hleu len (.imm maxLen) stub

/-- function-entry stack guard: free space `fp - ap` must be at least the static frame size -/
def entryGuard (w ok k stub : Nat) : List Instr :=
  [.j (.imm ok), .alu .sub (3 * w) (.st w) (.st 0), .hcond .hgeu (.st (3 * w)) (.imm k), .j (.imm stub), .halt]

/-- dynamic-array stack guard: `fp - ap - k ≥ size` -/
def vlaGuard (w ok k : Nat) (size : Arg) (stub : Nat) : List Instr :=
  [.j (.imm ok), .alu .sub (3 * w) (.st w) (.st 0), .alu .sub (3 * w) (.st (3 * w)) (.imm k),
   .hcond .hgeu (.st (3 * w)) size, .j (.imm stub), .halt]

/-- strict 0/1 normalisation of a word in register `r` -/
def boolNorm (ok r : Nat) : List Instr :=
  [.j (.imm ok), .hcond .hleu (.st r) (.imm 1), .mov r (.imm 1), .hcond .hgtu (.st r) (.imm 1)]

/-! ## conformance of an assembled program -/

def slice (code : Array Instr) (lo n : Nat) : List Instr :=
  (List.range n).filterMap (fun i => code[lo + i]?)

def stubOf (l : Asm.Loaded) (name : String) : Nat := (l.label? name).getD 0

/-- problems found; empty = every anchored template is as specified -/
def conform (l : Asm.Loaded) : List String := Id.run do
  let code := l.prog.code
  let w := l.prog.w
  let H := 256 ^ w / 2
  let mut bad : List String := []
  for (name, pc) in l.labels do
    if name.startsWith "div_allowed_" then
      match code[pc - 3]?, code[pc]? with
      | some (.hcond .hne b (.imm 0)), some (.alu op _ _ b') =>
        if !(pc ≥ 4 && slice code (pc - 4) 4 == divGuard pc b (stubOf l "division_by_zero")
             && (op == .div || op == .mod) && b == b') then bad := s!"{name}: shape" :: bad
      | _, _ => bad := s!"{name}: shape" :: bad
    else if name.startsWith "index_in_bounds_" then
      match code[pc - 3]? with
      | some (.hcond .hltu idx len) =>
        if !(pc ≥ 4 && slice code (pc - 4) 4 == indexGuard pc idx len (stubOf l "out_of_bounds")) then
          bad := s!"{name}: shape" :: bad
      | _ => bad := s!"{name}: shape" :: bad
    else if name.startsWith "safe_length_" then
      match code[pc - 3]? with
      | some (.hcond .hleu len (.imm mx)) =>
        if !(pc ≥ 4 && slice code (pc - 4) 4 == lengthGuard pc len mx (stubOf l "stack_overflow")
             && (mx == H - 1 || mx == (H - 1) / w)) then bad := s!"{name}: shape" :: bad
      | _ => bad := s!"{name}: shape" :: bad
    else if name.startsWith "no_overflow_" then
      let so := stubOf l "stack_overflow"
      match code[pc - 3]?, code[pc - 4]? with
      | some (.hcond .hgeu _ (.imm k)), some (.alu .sub _ _ _) =>
        if !(pc ≥ 5 && slice code (pc - 5) 5 == entryGuard w pc k so) then
          -- may be the dynamic-array form with an immediate size
          match code[pc - 4]? with
          | some (.alu .sub _ _ (.imm k')) =>
            if !(pc ≥ 6 && slice code (pc - 6) 6 == vlaGuard w pc k' (.imm k) so) then bad := s!"{name}: shape" :: bad
          | _ => bad := s!"{name}: shape" :: bad
      | some (.hcond .hgeu _ size), some (.alu .sub _ _ (.imm k')) =>
        if !(pc ≥ 6 && slice code (pc - 6) 6 == vlaGuard w pc k' size so) then bad := s!"{name}: shape" :: bad
      | _, _ => bad := s!"{name}: shape" :: bad
    else if name.startsWith "bool_normalized_" then
      match code[pc]? with
      | some (.hcond .hgtu (.st r) (.imm 1)) =>
        if !(pc ≥ 3 && slice code (pc - 3) 4 == boolNorm pc r) then bad := s!"{name}: shape" :: bad
      | _ => bad := s!"{name}: shape" :: bad
    else if name.startsWith "compare_is_true_" || name.startsWith "is_true_" then
      -- the branch target re-tests the inverse of the halt that follows the jump to it
      match code[pc]? with
      | some (.hcond c' a' b') =>
        let js := (List.range code.size).filter (fun j => code[j]? == some (.j (.imm pc)))
        match js with
        | [j] =>
          match code[j + 1]? with
          | some (.hcond c a b) =>
            if !(a == a' && b == b' && Gen.haltInversion.contains (c, c')) then bad := s!"{name}: not the inverse" :: bad
          | _ => bad := s!"{name}: no halt after the jump" :: bad
        | _ => bad := s!"{name}: expected exactly one jump to it" :: bad
      | _ => bad := s!"{name}: target does not start with a conditional halt" :: bad
  return bad.reverse

end HidVerif.Compiler
