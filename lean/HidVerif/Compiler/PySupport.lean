/-!
# Lean counterparts of the few Python primitives used by transcribed functions
-/
namespace HidVerif.Compiler

def hexDigitLower (k : Nat) : Nat := if k < 10 then 48 + k else 87 + k

/-- `f'{b:02x}'.encode()` for `0 ≤ b < 256` -/
def fmt02x (b : Nat) : List Nat := [hexDigitLower (b / 16 % 16), hexDigitLower (b % 16)]

end HidVerif.Compiler
