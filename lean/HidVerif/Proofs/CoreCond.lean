import HidVerif.Proofs.CoreExpr
/-!
# Core compiler proofs: conditions (`bool_expr_branch`)

Control reaches the "true" continuation exactly when the source semantics evaluates the
condition to `true`, the "false" continuation when it is `false`, and (checked builds) the
`division_by_zero` stub when an operand faults.  The continuations of the core are the two
shapes `bool_expr_branch` is ever called with there: fall through (`[]`) or `goto t`.
-/
namespace HidVerif.Core
open HidVerif HidVerif.PSys HidVerif.Sphinx HidVerif.Gen

/-- a continuation: fall through, or `goto t` -/
def brCode : Option Nat → List Instr
  | none => []
  | some t => goto t

@[simp] theorem endsGoto_brCode (t : Option Nat) : endsGoto (brCode t) = t.isSome := by
  cases t <;> rfl

theorem inv_halt (M : Nat) (op : COp) (x y : Nat) :
    haltCond M (invHalt op) x y = !haltCond M (cmpHalt op) x y := by
  cases op <;> simp only [haltCond, cmpHalt, invHalt]
  · generalize Sphinx.toS M x = a; generalize Sphinx.toS M y = b
    by_cases h : a < b <;> simp [h] <;> omega
  · generalize Sphinx.toS M x = a; generalize Sphinx.toS M y = b
    by_cases h : a > b <;> simp [h] <;> omega
  · generalize Sphinx.toS M x = a; generalize Sphinx.toS M y = b
    by_cases h : a ≤ b <;> simp [h] <;> omega
  · generalize Sphinx.toS M x = a; generalize Sphinx.toS M y = b
    by_cases h : a ≥ b <;> simp [h] <;> omega
  · simp [bne]
  · simp [bne]

theorem pkB_ge (w : Nat) (b : B) : ∀ (o : Nat), o ≤ pkB w o b := by
  induction b with
  | lit v => intro o; simp [pkB]
  | cmp op l r => intro o; have := pkE_ge w l o (!isSafe r); simp only [pkB]; omega
  | not b ih => intro o; simpa [pkB] using ih o
  | and l r ihl _ => intro o; have := ihl o; simp only [pkB]; omega
  | or l r ihl _ => intro o; have := ihl o; simp only [pkB]; omega

section
variable {p : Prog} {ck : Bool} {B : Nat} {dA : Nat}

theorem br_reach (lib : Placed p B) (a : Nat) (m : Mem) (t : Option Nat) (h : PlacedAt p a (brCode t))
    (ht : ∀ x, t = some x → x < 256 ^ p.w) :
    Reach (sphinx p) ⟨a, m⟩ [] ⟨t.getD (a + (brCode t).length), m⟩ := by
  cases t with
  | none => simpa [brCode] using Reach.refl
  | some x =>
    have c0 := h 0 (by simp [brCode, goto]); have c1 := h 1 (by simp [brCode, goto])
    simp only [brCode, goto, List.getElem_cons_succ, List.getElem_cons_zero, Nat.add_zero] at c0 c1
    have s0 := step_j (m := m) c0 (ev_imm x)
    rw [show x % p.M = x from Nat.mod_eq_of_lt (by unfold Prog.M; exact ht x rfl)] at s0
    have s1 := step_halt (m := m) c1
    simpa using Reach.jump_taken (sys := sphinx p) s0 s1


/-- both operands of a comparison, evaluated as `bool_expr_branch` does (left possibly kept on the
stack, right into `r1`, then the left fetched into `r0`) -/
theorem operands_ok (lib : Placed p B) (Γ : Gam) (env : Env) (F D : Nat) (l r : E) (pc o : Nat) (m : Mem)
    (c1 : List Instr) (vl : Opd) (p1 : Bool)
    (hcl : cE (cxOf p ck B dA) Γ pc o (cxOf p ck B dA).r0 l (!isSafe r) = (c1, vl, p1))
    (c2 : List Instr) (vr0 : Opd) (p2 : Bool)
    (hcr : cE (cxOf p ck B dA) Γ (pc + c1.length) (if p1 = true then o + (cxOf p ck B dA).w else o) (cxOf p ck B dA).r1 r false = (c2, vr0, p2))
    (c2' : List Instr) (vr : Opd) (hg2 : getOp (cxOf p ck B dA) (cxOf p ck B dA).r1 vr0 = (c2', vr))
    (c3 : List Instr) (vl' : Opd) (hg3 : getOp (cxOf p ck B dA) (cxOf p ck B dA).r0 vl = (c3, vl'))
    (hpl : PlacedAt p pc (c1 ++ c2 ++ c2' ++ c3)) (hB : pc + (c1 ++ c2 ++ c2' ++ c3).length ≤ B)
    (fr : Fr p m F D) (hvars : VarsOK p.w Γ env m F o)
    (hbl : boundE (Γ.map Prod.fst) l = true) (hbr : boundE (Γ.map Prod.fst) r = true)
    (hpkl : pkE p.w o l (!isSafe r) ≤ D)
    (hpkr : pkE p.w (if ((!isSafe r) && !isSafe l) = true then o + p.w else o) r false ≤ D) (ho : p.w ≤ o) :
    (∀ a b, evalE (256 ^ p.w) (8 * p.w) env l = some a → evalE (256 ^ p.w) (8 * p.w) env r = some b →
      ∃ m4, Reach (sphinx p) ⟨pc, m⟩ [] ⟨pc + (c1 ++ c2 ++ c2' ++ c3).length, m4⟩ ∧ Keep p.w m m4 (F - o) ∧
        IsArg p.w vl' ∧ IsArg p.w vr ∧ valOf p.w m4 F vl' = a ∧ valOf p.w m4 F vr = b) ∧
    ((evalE (256 ^ p.w) (8 * p.w) env l = none ∨
      (∃ a, evalE (256 ^ p.w) (8 * p.w) env l = some a ∧ evalE (256 ^ p.w) (8 * p.w) env r = none)) → ck = true →
      ∃ m', Reach (sphinx p) ⟨pc, m⟩ [] ⟨B + off_division_by_zero, m'⟩) := by
  have hw := lib.hw
  have h64 := mul_w_lt_pow p.w hw
  have hroom := fr.room; have htop := fr.top
  have hoD : o ≤ D := by have := pkE_ge p.w l o (!isSafe r); omega
  have hlocL := cE_loc (cxOf p ck B dA) Γ env m F D l pc o (cxOf p ck B dA).r0 (!isSafe r) hvars hbl hpkl ho
  rw [hcl] at hlocL
  obtain ⟨hp1, hlocl, hnoreg⟩ := hlocL
  simp only at hp1 hlocl hnoreg
  obtain ⟨hp123, hp3⟩ := hpl.append
  obtain ⟨hp12, hp2'⟩ := hp123.append
  obtain ⟨hp1_, hp2⟩ := hp12.append
  have hlen4 : (c1 ++ c2 ++ c2' ++ c3).length = c1.length + c2.length + c2'.length + c3.length := by
    simp only [List.length_append]
  have hlen3 : (c1 ++ c2 ++ c2').length = c1.length + c2.length + c2'.length := by simp only [List.length_append]
  have hlen2 : (c1 ++ c2).length = c1.length + c2.length := by simp only [List.length_append]
  have ihl' := cE_ok (ck := ck) (dA := dA) lib Γ env F D l pc o (cxOf p ck B dA).r0 (!isSafe r) m (by rw [hcl]; exact hp1_)
    (by rw [hcl]; show pc + c1.length ≤ B; omega) (Or.inl rfl) fr hvars hbl hpkl ho
  rw [hcl] at ihl'
  simp only at ihl'
  have ho1 : o ≤ (if p1 = true then o + p.w else o) := by split <;> omega
  have hpkr' : pkE p.w (if p1 = true then o + p.w else o) r false ≤ D := by rw [hp1]; exact hpkr
  refine ⟨fun a b hea heb => ?_, fun hn hck => ?_⟩
  · obtain ⟨m1, r1_, k1, hv1, _⟩ := ihl'.1 a hea
    have fr1 := fr.keep k1
    have hvars1 : VarsOK p.w Γ env m1 F (if p1 = true then o + p.w else o) := hvars.keep k1 (Nat.le_refl _) ho1
    have ihr' := cE_ok (ck := ck) (dA := dA) lib Γ env F D r (pc + c1.length) (if p1 = true then o + p.w else o) (cxOf p ck B dA).r1 false m1
      (by rw [hcr]; exact hp2) (by rw [hcr]; show pc + c1.length + c2.length ≤ B; omega) (Or.inr rfl) fr1 hvars1 hbr hpkr' (by omega)
    have hlocR := cE_loc (cxOf p ck B dA) Γ env m1 F D r (pc + c1.length) (if p1 = true then o + p.w else o)
      (cxOf p ck B dA).r1 false hvars1 hbr hpkr' (by show p.w ≤ _; omega)
    rw [hcr] at ihr' hlocR
    simp only at ihr' hlocR
    obtain ⟨hp2f, hlocr, _⟩ := hlocR
    simp only [Bool.false_and] at hp2f
    subst hp2f
    simp only [Bool.false_eq_true, if_false] at hlocr
    obtain ⟨m2, r2_, k2, hv2, hsafe⟩ := ihr'.1 b heb
    have fr2 := fr1.keep k2
    have hvl2 : valOf p.w m2 F vl = a := by
      cases hsr : isSafe r with
      | true => rw [hsafe hsr]; exact hv1
      | false =>
        have hnr := hnoreg (by simp [hsr])
        cases vl with
        | imm i => simpa [valOf] using hv1
        | reg x => exact absurd rfl (hnr x)
        | slot s =>
          simp only [Loc] at hlocl
          simp only [valOf] at hv1 ⊢
          rw [k2.read _ _ (by omega)]; exact hv1
    have hgo2 := getOp_ok (ck := ck) (dA := dA) (B := B) (pc := pc + (c1 ++ c2).length) hw fr2 (cxOf p ck B dA).r1 vr0
      (by show 2 * p.w ≤ 3 * p.w ∧ 3 * p.w + p.w ≤ 5 * p.w; omega)
      (hlocr.gettable (by show 3 * p.w + p.w ≤ 5 * p.w; omega)) (by rw [hg2]; exact hp2')
    have hres2 := getOp_res (cxOf p ck B dA) hlocr
    rw [hg2] at hgo2 hres2
    obtain ⟨m3, r3_, k3, hv3, haway3, hargr⟩ := hgo2
    simp only at r3_ hv3 hargr hres2
    rw [hv2] at hv3
    have fr3 := fr2.keep k3
    have hvl3 : valOf p.w m3 F vl = a := by
      rw [haway3 vl (hlocl.away (d := 3 * p.w) (by show 2 * p.w + p.w ≤ 3 * p.w ∨ _; omega) (Nat.le_of_eq hroom) (by omega))]; exact hvl2
    have hgo3 := getOp_ok (ck := ck) (dA := dA) (B := B) (pc := pc + (c1 ++ c2 ++ c2').length) hw fr3 (cxOf p ck B dA).r0 vl
      (by show 2 * p.w ≤ 2 * p.w ∧ 2 * p.w + p.w ≤ 5 * p.w; omega)
      (hlocl.gettable (by show 2 * p.w + p.w ≤ 5 * p.w; omega)) (by rw [hg3]; exact hp3)
    rw [hg3] at hgo3
    obtain ⟨m4, r4_, k4, hv4, haway4, hargl⟩ := hgo3
    simp only at r4_ hv4 hargl
    rw [hvl3] at hv4
    have hvr4 : valOf p.w m4 F vr = b := by
      rw [haway4 vr (by
        rcases hres2 with ⟨i, hi⟩ | hi
        · rw [hi]; trivial
        · rw [hi]; show 3 * p.w + p.w ≤ 2 * p.w ∨ 2 * p.w + p.w ≤ 3 * p.w; omega)]
      exact hv3
    refine ⟨m4, ?_, ?_, hargl, hargr, hv4, hvr4⟩
    · have r2' : Reach (sphinx p) ⟨pc + c1.length, m1⟩ [] ⟨pc + (c1 ++ c2).length, m2⟩ := by
        rw [hlen2, ← Nat.add_assoc]; exact r2_
      have r3' : Reach (sphinx p) ⟨pc + (c1 ++ c2).length, m2⟩ [] ⟨pc + (c1 ++ c2 ++ c2').length, m3⟩ := by
        rw [hlen3, hlen2] at *; rw [← Nat.add_assoc] at r3_ ⊢; simpa [Nat.add_assoc] using r3_
      have r4' : Reach (sphinx p) ⟨pc + (c1 ++ c2 ++ c2').length, m3⟩ [] ⟨pc + (c1 ++ c2 ++ c2' ++ c3).length, m4⟩ := by
        rw [hlen4]; rw [hlen3] at r4_ ⊢; simpa [Nat.add_assoc] using r4_
      simpa using r1_.trans (r2'.trans (r3'.trans r4'))
    · exact ((k1.trans' (k2.mono (by omega))).trans' (k3.mono (by omega))).trans' (k4.mono (by omega))
  · rcases hn with hea | ⟨a, hea, heb⟩
    · exact ihl'.2 hea hck
    · obtain ⟨m1, r1_, k1, hv1, _⟩ := ihl'.1 a hea
      have fr1 := fr.keep k1
      have hvars1 : VarsOK p.w Γ env m1 F (if p1 = true then o + p.w else o) := hvars.keep k1 (Nat.le_refl _) ho1
      have ihr' := cE_ok (ck := ck) (dA := dA) lib Γ env F D r (pc + c1.length) (if p1 = true then o + p.w else o) (cxOf p ck B dA).r1 false m1
        (by rw [hcr]; exact hp2) (by rw [hcr]; show pc + c1.length + c2.length ≤ B; omega) (Or.inr rfl) fr1 hvars1 hbr hpkr' (by omega)
      obtain ⟨m', rd⟩ := ihr'.2 heb hck
      exact ⟨m', by simpa using r1_.trans rd⟩


theorem ev_arg_any (hw : 2 ≤ p.w) {m : Mem} {F D : Nat} (fr : Fr p m F D) (pc : Nat) (v : Opd) (h : IsArg p.w v) :
    evalArg p ⟨pc, m⟩ (v.arg (cxOf p ck B dA)) = some (valOf p.w m F v) := by
  cases v with
  | imm i => exact ev_opd ck B hw fr _ trivial
  | reg a => exact ev_opd ck B hw fr _ (by simpa [IsArg] using h)
  | slot s => exact absurd h (by simp [IsArg])

theorem cB_ok (lib : Placed p B) (Γ : Gam) (env : Env) (F D : Nat) :
    ∀ (b : Core.B) (pc o : Nat) (tT tF : Option Nat) (m : Mem),
      PlacedAt p pc (cB (cxOf p ck B dA) Γ pc o b (brCode tT) (brCode tF)) →
      pc + (cB (cxOf p ck B dA) Γ pc o b (brCode tT) (brCode tF)).length ≤ B →
      (∀ x, tT = some x → x < 256 ^ p.w) → (∀ x, tF = some x → x < 256 ^ p.w) →
      Fr p m F D → VarsOK p.w Γ env m F o → boundB (Γ.map Prod.fst) b = true → pkB p.w o b ≤ D → p.w ≤ o →
      (∀ bv, evalB (256 ^ p.w) (8 * p.w) env b = some bv →
        ∃ m', Reach (sphinx p) ⟨pc, m⟩ []
            ⟨(if bv then tT else tF).getD (pc + (cB (cxOf p ck B dA) Γ pc o b (brCode tT) (brCode tF)).length), m'⟩ ∧
          Keep p.w m m' (F - o)) ∧
      (evalB (256 ^ p.w) (8 * p.w) env b = none → ck = true →
        ∃ m', Reach (sphinx p) ⟨pc, m⟩ [] ⟨B + off_division_by_zero, m'⟩) := by
  have hw := lib.hw
  have h64 := mul_w_lt_pow p.w hw
  have hBM := lib.hB
  intro b
  induction b with
  | lit v =>
    intro pc o tT tF m hpl hB htT htF fr _ _ _ _
    refine ⟨fun bv hbv => ?_, fun h => by simp [evalB] at h⟩
    simp only [evalB, Option.some.injEq] at hbv
    subst hbv
    cases v with
    | true => exact ⟨m, by simpa [cB] using br_reach lib pc m tT (by simpa [cB] using hpl) htT, Keep.refl _ _ _⟩
    | false => exact ⟨m, by simpa [cB] using br_reach lib pc m tF (by simpa [cB] using hpl) htF, Keep.refl _ _ _⟩
  | not b ih =>
    intro pc o tT tF m hpl hB htT htF fr hvars hb hpk ho
    simp only [cB] at hpl hB ⊢
    simp only [boundB] at hb
    simp only [pkB] at hpk
    have ih' := ih pc o tF tT m hpl hB htF htT fr hvars hb hpk ho
    refine ⟨fun bv hbv => ?_, fun hn hck => ?_⟩
    · simp only [evalB, Option.bind_eq_bind] at hbv
      cases hv : evalB (256 ^ p.w) (8 * p.w) env b with
      | none => simp [hv] at hbv
      | some v =>
        simp only [hv, Option.bind_some, Option.pure_def, Option.some.injEq] at hbv
        subst hbv
        obtain ⟨m', r, k⟩ := ih'.1 v hv
        exact ⟨m', by cases v <;> simpa using r, k⟩
    · simp only [evalB, Option.bind_eq_bind] at hn
      cases hv : evalB (256 ^ p.w) (8 * p.w) env b with
      | none => exact ih'.2 hv hck
      | some v => simp [hv] at hn
  | and l r ihl ihr =>
    intro pc o tT tF m hpl hB htT htF fr hvars hb hpk ho
    simp only [boundB, Bool.and_eq_true] at hb
    simp only [pkB] at hpk
    simp only [cB, endsGoto_brCode] at hpl hB ⊢
    -- the left branch's false continuation
    have hF' : (if tF.isSome = true then brCode tF else brCode tF ++
        goto (pc + lenB ck l 2 (if tF.isSome = true then (brCode tF).length else (brCode tF).length + 2) true true +
          lenB ck r (brCode tT).length (brCode tF).length tT.isSome tF.isSome))
        = brCode (some (tF.getD (pc + lenB ck l 2 (if tF.isSome = true then (brCode tF).length else (brCode tF).length + 2) true true +
          lenB ck r (brCode tT).length (brCode tF).length tT.isSome tF.isSome))) := by
      cases tF <;> simp [brCode]
    rw [hF'] at hpl hB ⊢
    generalize hnL : lenB ck l 2 (if tF.isSome = true then (brCode tF).length else (brCode tF).length + 2) true true = nL at *
    generalize hnR : lenB ck r (brCode tT).length (brCode tF).length tT.isSome tF.isSome = nR at *
    rw [show goto (pc + nL) = brCode (some (pc + nL)) from rfl] at hpl hB ⊢
    have hlenL : (cB (cxOf p ck B dA) Γ pc o l (brCode (some (pc + nL))) (brCode (some (tF.getD (pc + nL + nR))))).length = nL := by
      rw [cB_len]; rw [← hnL]; cases tF <;> simp [brCode]
    have hlenR : (cB (cxOf p ck B dA) Γ (pc + nL) o r (brCode tT) (brCode tF)).length = nR := by
      rw [cB_len]; rw [← hnR]; simp
    obtain ⟨hplL, hplR⟩ := hpl.append
    rw [hlenL] at hplR
    rw [List.length_append, hlenL, hlenR] at hB ⊢
    have hend : pc + nL + nR < 256 ^ p.w := by simp [stdlibLength] at hBM; omega
    have ihl' := ihl pc o (some (pc + nL)) (some (tF.getD (pc + nL + nR))) m hplL (by rw [hlenL]; omega)
      (fun x hx => by simp at hx; omega)
      (fun x hx => by
        simp at hx; subst hx
        cases tF with
        | none => simpa using hend
        | some t => simpa using htF t rfl)
      fr hvars hb.1 (by omega) ho
    rw [hlenL] at ihl'
    refine ⟨fun bv hbv => ?_, fun hn hck => ?_⟩
    · simp only [evalB, Option.bind_eq_bind] at hbv
      cases hv : evalB (256 ^ p.w) (8 * p.w) env l with
      | none => simp [hv] at hbv
      | some v =>
        simp only [hv, Option.bind_some] at hbv
        obtain ⟨m1, r1, k1⟩ := ihl'.1 v hv
        cases v with
        | false =>
          simp only [Bool.false_eq_true, if_false, Option.pure_def, Option.some.injEq] at hbv
          subst hbv
          refine ⟨m1, ?_, k1⟩
          simpa [Nat.add_assoc] using r1
        | true =>
          simp only [if_true] at hbv
          simp only [if_true, Option.getD_some] at r1
          have ihr' := ihr (pc + nL) o tT tF m1 hplR (by rw [hlenR]; omega) htT htF (fr.keep k1)
            (hvars.keep k1 (Nat.le_refl _) (Nat.le_refl _)) hb.2 (by omega) ho
          rw [hlenR] at ihr'
          obtain ⟨m2, r2, k2⟩ := ihr'.1 bv hbv
          exact ⟨m2, by simpa [Nat.add_assoc] using r1.trans r2, k1.trans' k2⟩
    · simp only [evalB, Option.bind_eq_bind] at hn
      cases hv : evalB (256 ^ p.w) (8 * p.w) env l with
      | none => exact ihl'.2 hv hck
      | some v =>
        simp only [hv, Option.bind_some] at hn
        cases v with
        | false => simp at hn
        | true =>
          simp only [if_true] at hn
          obtain ⟨m1, r1, k1⟩ := ihl'.1 true hv
          simp only [if_true, Option.getD_some] at r1
          have ihr' := ihr (pc + nL) o tT tF m1 hplR (by rw [hlenR]; omega) htT htF (fr.keep k1)
            (hvars.keep k1 (Nat.le_refl _) (Nat.le_refl _)) hb.2 (by omega) ho
          obtain ⟨m2, r2⟩ := ihr'.2 hn hck
          exact ⟨m2, by simpa using r1.trans r2⟩
  | or l r ihl ihr =>
    intro pc o tT tF m hpl hB htT htF fr hvars hb hpk ho
    simp only [boundB, Bool.and_eq_true] at hb
    simp only [pkB] at hpk
    simp only [cB, endsGoto_brCode] at hpl hB ⊢
    have hT' : (if tT.isSome = true then brCode tT else brCode tT ++
        goto (pc + lenB ck l (if tT.isSome = true then (brCode tT).length else (brCode tT).length + 2) 2 true true +
          lenB ck r (brCode tT).length (brCode tF).length tT.isSome tF.isSome))
        = brCode (some (tT.getD (pc + lenB ck l (if tT.isSome = true then (brCode tT).length else (brCode tT).length + 2) 2 true true +
          lenB ck r (brCode tT).length (brCode tF).length tT.isSome tF.isSome))) := by
      cases tT <;> simp [brCode]
    rw [hT'] at hpl hB ⊢
    generalize hnL : lenB ck l (if tT.isSome = true then (brCode tT).length else (brCode tT).length + 2) 2 true true = nL at *
    generalize hnR : lenB ck r (brCode tT).length (brCode tF).length tT.isSome tF.isSome = nR at *
    rw [show goto (pc + nL) = brCode (some (pc + nL)) from rfl] at hpl hB ⊢
    have hlenL : (cB (cxOf p ck B dA) Γ pc o l (brCode (some (tT.getD (pc + nL + nR)))) (brCode (some (pc + nL)))).length = nL := by
      rw [cB_len]; rw [← hnL]; cases tT <;> simp [brCode]
    have hlenR : (cB (cxOf p ck B dA) Γ (pc + nL) o r (brCode tT) (brCode tF)).length = nR := by
      rw [cB_len]; rw [← hnR]; simp
    obtain ⟨hplL, hplR⟩ := hpl.append
    rw [hlenL] at hplR
    rw [List.length_append, hlenL, hlenR] at hB ⊢
    have hend : pc + nL + nR < 256 ^ p.w := by simp [stdlibLength] at hBM; omega
    have ihl' := ihl pc o (some (tT.getD (pc + nL + nR))) (some (pc + nL)) m hplL (by rw [hlenL]; omega)
      (fun x hx => by
        simp at hx; subst hx
        cases tT with
        | none => simpa using hend
        | some t => simpa using htT t rfl)
      (fun x hx => by simp at hx; omega)
      fr hvars hb.1 (by omega) ho
    rw [hlenL] at ihl'
    refine ⟨fun bv hbv => ?_, fun hn hck => ?_⟩
    · simp only [evalB, Option.bind_eq_bind] at hbv
      cases hv : evalB (256 ^ p.w) (8 * p.w) env l with
      | none => simp [hv] at hbv
      | some v =>
        simp only [hv, Option.bind_some] at hbv
        obtain ⟨m1, r1, k1⟩ := ihl'.1 v hv
        cases v with
        | true =>
          simp only [if_true, Option.pure_def, Option.some.injEq] at hbv
          subst hbv
          refine ⟨m1, ?_, k1⟩
          simpa [Nat.add_assoc] using r1
        | false =>
          simp only [Bool.false_eq_true, if_false] at hbv
          simp only [Bool.false_eq_true, if_false, Option.getD_some] at r1
          have ihr' := ihr (pc + nL) o tT tF m1 hplR (by rw [hlenR]; omega) htT htF (fr.keep k1)
            (hvars.keep k1 (Nat.le_refl _) (Nat.le_refl _)) hb.2 (by omega) ho
          rw [hlenR] at ihr'
          obtain ⟨m2, r2, k2⟩ := ihr'.1 bv hbv
          exact ⟨m2, by simpa [Nat.add_assoc] using r1.trans r2, k1.trans' k2⟩
    · simp only [evalB, Option.bind_eq_bind] at hn
      cases hv : evalB (256 ^ p.w) (8 * p.w) env l with
      | none => exact ihl'.2 hv hck
      | some v =>
        simp only [hv, Option.bind_some] at hn
        cases v with
        | true => simp at hn
        | false =>
          simp only [Bool.false_eq_true, if_false] at hn
          obtain ⟨m1, r1, k1⟩ := ihl'.1 false hv
          simp only [Bool.false_eq_true, if_false, Option.getD_some] at r1
          have ihr' := ihr (pc + nL) o tT tF m1 hplR (by rw [hlenR]; omega) htT htF (fr.keep k1)
            (hvars.keep k1 (Nat.le_refl _) (Nat.le_refl _)) hb.2 (by omega) ho
          obtain ⟨m2, r2⟩ := ihr'.2 hn hck
          exact ⟨m2, by simpa using r1.trans r2⟩
  | cmp op l r =>
    intro pc o tT tF m hpl hB htT htF fr hvars hb hpk ho
    simp only [boundB, Bool.and_eq_true] at hb
    simp only [pkB] at hpk
    rcases hcl : cE (cxOf p ck B dA) Γ pc o (cxOf p ck B dA).r0 l (!isSafe r) with ⟨c1, vl, p1⟩
    rcases hcr : cE (cxOf p ck B dA) Γ (pc + c1.length) (if p1 = true then o + (cxOf p ck B dA).w else o) (cxOf p ck B dA).r1 r false
      with ⟨c2, vr0, p2⟩
    rcases hg2 : getOp (cxOf p ck B dA) (cxOf p ck B dA).r1 vr0 with ⟨c2', vr⟩
    rcases hg3 : getOp (cxOf p ck B dA) (cxOf p ck B dA).r0 vl with ⟨c3, vl'⟩
    have hcode : cB (cxOf p ck B dA) Γ pc o (.cmp op l r) (brCode tT) (brCode tF)
        = (c1 ++ c2 ++ c2' ++ c3) ++
          [.j (.imm (pc + (c1 ++ c2 ++ c2' ++ c3).length + 4)),
           .hcond (cmpHalt op) (vl'.arg (cxOf p ck B dA)) (vr.arg (cxOf p ck B dA)),
           .j (.imm (tF.getD (pc + (c1 ++ c2 ++ c2' ++ c3).length + 5 + (brCode tT).length))), .halt,
           .hcond (invHalt op) (vl'.arg (cxOf p ck B dA)) (vr.arg (cxOf p ck B dA))] ++ brCode tT := by
      simp only [cB, hcl, hcr, hg2, hg3, endsGoto_brCode]
      cases tF <;> simp [brCode, goto, Nat.add_assoc]
    rw [hcode] at hpl hB ⊢
    generalize hpre : c1 ++ c2 ++ c2' ++ c3 = pre at *
    obtain ⟨hpl12, hplT⟩ := hpl.append
    obtain ⟨hplP, hplJ⟩ := hpl12.append
    have hlen : (pre ++ [Instr.j (.imm (pc + pre.length + 4)),
           .hcond (cmpHalt op) (vl'.arg (cxOf p ck B dA)) (vr.arg (cxOf p ck B dA)),
           .j (.imm (tF.getD (pc + pre.length + 5 + (brCode tT).length))), .halt,
           .hcond (invHalt op) (vl'.arg (cxOf p ck B dA)) (vr.arg (cxOf p ck B dA))] ++ brCode tT).length
        = pre.length + 5 + (brCode tT).length := by simp [List.length_append]; omega
    rw [hlen] at hB ⊢
    have hops := operands_ok (ck := ck) (dA := dA) lib Γ env F D l r pc o m c1 vl p1 hcl c2 vr0 p2 hcr c2' vr hg2 c3 vl' hg3
      (by rw [hpre]; exact hplP) (by rw [hpre]; omega) fr hvars hb.1 hb.2 (by omega) (by omega) ho
    rw [hpre] at hops
    refine ⟨fun bv hbv => ?_, fun hn hck => ?_⟩
    · simp only [evalB, Option.bind_eq_bind] at hbv
      cases hea : evalE (256 ^ p.w) (8 * p.w) env l with
      | none => simp [hea] at hbv
      | some a =>
      cases heb : evalE (256 ^ p.w) (8 * p.w) env r with
      | none => simp [hea, heb] at hbv
      | some b =>
      simp only [hea, heb, Option.bind_some, Option.pure_def, Option.some.injEq] at hbv
      obtain ⟨m4, r4, k4, hargl, hargr, hvl, hvr⟩ := hops.1 a b hea heb
      have fr4 := fr.keep k4
      have c0 := hplJ 0 (by simp); have c1_ := hplJ 1 (by simp); have c2_ := hplJ 2 (by simp)
      have c3_ := hplJ 3 (by simp); have c4_ := hplJ 4 (by simp)
      simp only [List.getElem_cons_succ, List.getElem_cons_zero, Nat.add_zero] at c0 c1_ c2_ c3_ c4_
      have hend : pc + pre.length + 5 + (brCode tT).length < 256 ^ p.w := by simp [stdlibLength] at hBM; omega
      have s0 := step_j (m := m4) c0 (ev_imm (pc + pre.length + 4))
      rw [show (pc + pre.length + 4) % p.M = pc + pre.length + 4 from Nat.mod_eq_of_lt (by unfold Prog.M; omega)] at s0
      have s1 := step_hcond (m := m4) c1_ (ev_arg_any hw fr4 _ vl' hargl) (ev_arg_any hw fr4 _ vr hargr)
      have s4 := step_hcond (m := m4) c4_ (ev_arg_any hw fr4 _ vl' hargl) (ev_arg_any hw fr4 _ vr hargr)
      rw [hvl, hvr] at s1 s4
      simp only [Prog.M, inv_halt, hbv] at s1 s4
      cases bv with
      | true =>
        simp only [if_true] at s1
        simp only [Bool.not_true, Bool.false_eq_true, if_false] at s4
        have j := Reach.jump_taken (sys := sphinx p) s0 s1
        have n4 := Reach.of_next (sys := sphinx p) s4
        have br := br_reach lib (pc + pre.length + 4 + 1) m4 tT
          (by have := hplT; simp only [List.length_append, List.length_cons, List.length_nil] at this; simpa [Nat.add_assoc] using this) htT
        refine ⟨m4, ?_, k4⟩
        have := r4.trans (j.trans (n4.trans br))
        simpa [evl, Nat.add_assoc] using this
      | false =>
        simp only [Bool.false_eq_true, if_false] at s1
        simp only [Bool.not_false, if_true] at s4
        have fall := Reach.jump_fallthrough (sys := sphinx p) s0 s1 (fun _ => Halts.halt (sys := sphinx p) s4)
        have hX : tF.getD (pc + pre.length + 5 + (brCode tT).length) < 256 ^ p.w := by
          cases tF with
          | none => simpa using hend
          | some t => simpa using htF t rfl
        have s2 := step_j (m := m4) c2_ (ev_imm (tF.getD (pc + pre.length + 5 + (brCode tT).length)))
        rw [show (tF.getD (pc + pre.length + 5 + (brCode tT).length)) % p.M = tF.getD (pc + pre.length + 5 + (brCode tT).length)
          from Nat.mod_eq_of_lt (by unfold Prog.M; exact hX)] at s2
        have s3 := step_halt (m := m4) c3_
        have j2 := Reach.jump_taken (sys := sphinx p) s2 s3
        refine ⟨m4, ?_, k4⟩
        have := r4.trans (fall.trans j2)
        simpa [Nat.add_assoc] using this
    · simp only [evalB, Option.bind_eq_bind] at hn
      apply hops.2 _ hck
      cases hea : evalE (256 ^ p.w) (8 * p.w) env l with
      | none => exact Or.inl rfl
      | some a =>
        cases heb : evalE (256 ^ p.w) (8 * p.w) env r with
        | none => exact Or.inr ⟨a, rfl, rfl⟩
        | some b => simp [hea, heb] at hn


/-- `!truth_is_defeat(c)` where the effective defeat is `halt`: the machine halts (on this
timeline) exactly when the condition is true, and falls through when it is false -/
theorem cD_ok (lib : Placed p B) (Γ : Gam) (env : Env) (F D : Nat) :
    ∀ (b : Core.B) (pc o : Nat) (m : Mem),
      isD b = true →
      PlacedAt p pc (cD (cxOf p ck B dA) false Γ pc o b) →
      pc + (cD (cxOf p ck B dA) false Γ pc o b).length ≤ B →
      Fr p m F D → VarsOK p.w Γ env m F o → boundB (Γ.map Prod.fst) b = true → pkB p.w o b ≤ D → p.w ≤ o →
      (evalB (256 ^ p.w) (8 * p.w) env b = some false →
        ∃ m', Reach (sphinx p) ⟨pc, m⟩ [] ⟨pc + (cD (cxOf p ck B dA) false Γ pc o b).length, m'⟩ ∧ Keep p.w m m' (F - o)) ∧
      (evalB (256 ^ p.w) (8 * p.w) env b = some true → Halts (sphinx p) ⟨pc, m⟩) ∧
      (evalB (256 ^ p.w) (8 * p.w) env b = none → ck = true →
        ∃ m', Reach (sphinx p) ⟨pc, m⟩ [] ⟨B + off_division_by_zero, m'⟩) := by
  have hw := lib.hw
  intro b
  induction b with
  | lit v =>
    intro pc o m _ hpl hB fr _ _ _ _
    cases v with
    | true =>
      refine ⟨fun h => by simp [evalB] at h, fun _ => ?_, fun h => by simp [evalB] at h⟩
      exact Halts.halt (sys := sphinx p) (step_halt (m := m) (placed_one (by simpa [cD] using hpl)))
    | false =>
      refine ⟨fun _ => ⟨m, by simpa [cD] using Reach.refl, Keep.refl _ _ _⟩, fun h => by simp [evalB] at h,
        fun h => by simp [evalB] at h⟩
  | not b _ => intro pc o m hd; simp [isD] at hd
  | and l r _ _ => intro pc o m hd; simp [isD] at hd
  | or l r ihl ihr =>
    intro pc o m hd hpl hB fr hvars hb hpk ho
    simp only [isD, Bool.and_eq_true] at hd
    simp only [boundB, Bool.and_eq_true] at hb
    simp only [pkB] at hpk
    simp only [cD] at hpl hB ⊢
    obtain ⟨hpl1, hpl2⟩ := hpl.append
    rw [List.length_append] at hB ⊢
    have h1 := ihl pc o m hd.1 hpl1 (by omega) fr hvars hb.1 (by omega) ho
    refine ⟨fun hf => ?_, fun ht => ?_, fun hn hck => ?_⟩
    · simp only [evalB, Option.bind_eq_bind] at hf
      cases hv : evalB (256 ^ p.w) (8 * p.w) env l with
      | none => simp [hv] at hf
      | some v =>
        cases v with
        | true => simp [hv] at hf
        | false =>
          simp only [hv, Option.bind_some, Bool.false_eq_true, if_false] at hf
          obtain ⟨m1, r1, k1⟩ := h1.1 hv
          have h2 := ihr (pc + (cD (cxOf p ck B dA) false Γ pc o l).length) o m1 hd.2 hpl2 (by omega) (fr.keep k1)
            (hvars.keep k1 (Nat.le_refl _) (Nat.le_refl _)) hb.2 (by omega) ho
          obtain ⟨m2, r2, k2⟩ := h2.1 hf
          exact ⟨m2, by simpa [Nat.add_assoc] using r1.trans r2, k1.trans' k2⟩
    · simp only [evalB, Option.bind_eq_bind] at ht
      cases hv : evalB (256 ^ p.w) (8 * p.w) env l with
      | none => simp [hv] at ht
      | some v =>
        cases v with
        | true => exact h1.2.1 hv
        | false =>
          simp only [hv, Option.bind_some, Bool.false_eq_true, if_false] at ht
          obtain ⟨m1, r1, k1⟩ := h1.1 hv
          have h2 := ihr (pc + (cD (cxOf p ck B dA) false Γ pc o l).length) o m1 hd.2 hpl2 (by omega) (fr.keep k1)
            (hvars.keep k1 (Nat.le_refl _) (Nat.le_refl _)) hb.2 (by omega) ho
          exact r1.1 (h2.2.1 ht)
    · simp only [evalB, Option.bind_eq_bind] at hn
      cases hv : evalB (256 ^ p.w) (8 * p.w) env l with
      | none => exact h1.2.2 hv hck
      | some v =>
        cases v with
        | true => simp [hv] at hn
        | false =>
          simp only [hv, Option.bind_some, Bool.false_eq_true, if_false] at hn
          obtain ⟨m1, r1, k1⟩ := h1.1 hv
          have h2 := ihr (pc + (cD (cxOf p ck B dA) false Γ pc o l).length) o m1 hd.2 hpl2 (by omega) (fr.keep k1)
            (hvars.keep k1 (Nat.le_refl _) (Nat.le_refl _)) hb.2 (by omega) ho
          obtain ⟨m2, r2⟩ := h2.2.2 hn hck
          exact ⟨m2, by simpa using r1.trans r2⟩
  | cmp op l r =>
    intro pc o m _ hpl hB fr hvars hb hpk ho
    simp only [boundB, Bool.and_eq_true] at hb
    simp only [pkB] at hpk
    rcases hcl : cE (cxOf p ck B dA) Γ pc o (cxOf p ck B dA).r0 l (!isSafe r) with ⟨c1, vl, p1⟩
    rcases hcr : cE (cxOf p ck B dA) Γ (pc + c1.length) (if p1 = true then o + (cxOf p ck B dA).w else o) (cxOf p ck B dA).r1 r false
      with ⟨c2, vr0, p2⟩
    rcases hg2 : getOp (cxOf p ck B dA) (cxOf p ck B dA).r1 vr0 with ⟨c2', vr⟩
    rcases hg3 : getOp (cxOf p ck B dA) (cxOf p ck B dA).r0 vl with ⟨c3, vl'⟩
    have hcode : cD (cxOf p ck B dA) false Γ pc o (.cmp op l r)
        = (c1 ++ c2 ++ c2' ++ c3) ++ [.hcond (cmpHalt op) (vl'.arg (cxOf p ck B dA)) (vr.arg (cxOf p ck B dA))] := by
      simp only [cD, hcl, hcr, hg2, hg3, Bool.false_eq_true, if_false, List.append_nil]
    rw [hcode] at hpl hB ⊢
    generalize hpre : c1 ++ c2 ++ c2' ++ c3 = pre at *
    obtain ⟨hplP, hplH⟩ := hpl.append
    simp only [List.length_append, List.length_cons, List.length_nil] at hB ⊢
    have hops := operands_ok (ck := ck) (dA := dA) lib Γ env F D l r pc o m c1 vl p1 hcl c2 vr0 p2 hcr c2' vr hg2 c3 vl' hg3
      (by rw [hpre]; exact hplP) (by rw [hpre]; omega) fr hvars hb.1 hb.2 (by omega) (by omega) ho
    rw [hpre] at hops
    have key : ∀ a b, evalE (256 ^ p.w) (8 * p.w) env l = some a → evalE (256 ^ p.w) (8 * p.w) env r = some b →
        ∃ m4, Reach (sphinx p) ⟨pc, m⟩ [] ⟨pc + pre.length, m4⟩ ∧ Keep p.w m m4 (F - o) ∧
          Sphinx.step p ⟨pc + pre.length, m4⟩ =
            if haltCond (256 ^ p.w) (cmpHalt op) a b then .halt else .next ⟨pc + pre.length + 1, m4⟩ none := by
      intro a b hea heb
      obtain ⟨m4, r4, k4, hargl, hargr, hvl, hvr⟩ := hops.1 a b hea heb
      have fr4 := fr.keep k4
      have s := step_hcond (m := m4) (placed_one hplH) (ev_arg_any hw fr4 _ vl' hargl) (ev_arg_any hw fr4 _ vr hargr)
      rw [hvl, hvr] at s
      unfold Prog.M at s
      exact ⟨m4, r4, k4, s⟩
    refine ⟨fun hf => ?_, fun ht => ?_, fun hn hck => ?_⟩
    · simp only [evalB, Option.bind_eq_bind] at hf
      cases hea : evalE (256 ^ p.w) (8 * p.w) env l with
      | none => simp [hea] at hf
      | some a =>
      cases heb : evalE (256 ^ p.w) (8 * p.w) env r with
      | none => simp [hea, heb] at hf
      | some b =>
      simp only [hea, heb, Option.bind_some, Option.pure_def, Option.some.injEq] at hf
      obtain ⟨m4, r4, k4, s⟩ := key a b hea heb
      rw [hf] at s
      simp only [Bool.false_eq_true, if_false] at s
      exact ⟨m4, by simpa [evl, Nat.add_assoc] using r4.trans (Reach.of_next (sys := sphinx p) s), k4⟩
    · simp only [evalB, Option.bind_eq_bind] at ht
      cases hea : evalE (256 ^ p.w) (8 * p.w) env l with
      | none => simp [hea] at ht
      | some a =>
      cases heb : evalE (256 ^ p.w) (8 * p.w) env r with
      | none => simp [hea, heb] at ht
      | some b =>
      simp only [hea, heb, Option.bind_some, Option.pure_def, Option.some.injEq] at ht
      obtain ⟨m4, r4, k4, s⟩ := key a b hea heb
      rw [ht] at s
      simp only [if_true] at s
      exact r4.1 (Halts.halt (sys := sphinx p) s)
    · simp only [evalB, Option.bind_eq_bind] at hn
      apply hops.2 _ hck
      cases hea : evalE (256 ^ p.w) (8 * p.w) env l with
      | none => exact Or.inl rfl
      | some a =>
        cases heb : evalE (256 ^ p.w) (8 * p.w) env r with
        | none => exact Or.inr ⟨a, rfl, rfl⟩
        | some b => simp [hea, heb] at hn


/-- what is known about the word `defeat` inside the body of a `try/stop` -/
def DWord (p : Prog) (dA v : Nat) (m : Mem) (F : Nat) : Prop :=
  F ≤ dA ∧ dA + p.w ≤ m.size ∧ dA + p.w < 256 ^ p.w ∧ m.readLE dA p.w = v ∧ v < 256 ^ p.w

theorem DWord.keep {v : Nat} {m m' : Mem} {F a : Nat} (h : DWord p dA v m F) (k : Keep p.w m m' a) (ha : a ≤ F) : DWord p dA v m' F := by
  obtain ⟨h1, h2, h3, h4, h5⟩ := h
  exact ⟨h1, by rw [k.size]; exact h2, h3, by rw [k.read _ _ (by omega)]; exact h4, h5⟩

/-- `!truth_is_defeat(c)` where the effective defeat is the word `defeat`: every conditional halt is
preceded by `j [defeat]`, which is taken exactly when the halt would fire.  That a jump over a halt that
does *not* fire is not taken needs to know the future: either the handler address is a `halt` (the world in
which a `try/stop` asks whether its body would be defeated), or neither way out of this code halts. -/
theorem cD_ok_vd (lib : Placed p B) (Γ : Gam) (env : Env) (F D v : Nat) :
    ∀ (b : Core.B) (pc o : Nat) (m : Mem),
      isD b = true →
      PlacedAt p pc (cD (cxOf p ck B dA) true Γ pc o b) →
      pc + (cD (cxOf p ck B dA) true Γ pc o b).length ≤ B →
      Fr p m F D → VarsOK p.w Γ env m F o → boundB (Γ.map Prod.fst) b = true → pkB p.w o b ≤ D → p.w ≤ o →
      DWord p dA v m F →
      ((∀ m', Halts (sphinx p) ⟨v, m'⟩) ∨
        ∀ m', Keep p.w m m' (F - o) →
          (evalB (256 ^ p.w) (8 * p.w) env b = some false → ¬ Halts (sphinx p) ⟨pc + (cD (cxOf p ck B dA) true Γ pc o b).length, m'⟩) ∧
          (evalB (256 ^ p.w) (8 * p.w) env b = some true → ¬ Halts (sphinx p) ⟨v, m'⟩)) →
      (evalB (256 ^ p.w) (8 * p.w) env b = some false →
        ∃ m', Reach (sphinx p) ⟨pc, m⟩ [] ⟨pc + (cD (cxOf p ck B dA) true Γ pc o b).length, m'⟩ ∧ Keep p.w m m' (F - o)) ∧
      (evalB (256 ^ p.w) (8 * p.w) env b = some true →
        ∃ m', Reach (sphinx p) ⟨pc, m⟩ [] ⟨v, m'⟩ ∧ Keep p.w m m' (F - o)) ∧
      (evalB (256 ^ p.w) (8 * p.w) env b = none → ck = true →
        ∃ m', Reach (sphinx p) ⟨pc, m⟩ [] ⟨B + off_division_by_zero, m'⟩) := by
  have hw := lib.hw
  intro b
  induction b with
  | lit x =>
    intro pc o m _ hpl hB fr _ _ _ _ hdw _
    obtain ⟨h1, h2, h3, h4, h5⟩ := hdw
    have hroom := fr.room
    cases x with
    | true =>
      refine ⟨fun h => by simp [evalB] at h, fun _ => ?_, fun h => by simp [evalB] at h⟩
      simp only [cD, if_true] at hpl
      have c0 := hpl 0 (by simp); have c1 := hpl 1 (by simp)
      simp only [List.getElem_cons_succ, List.getElem_cons_zero, Nat.add_zero] at c0 c1
      have s0 := step_j (m := m) c0 (ev_st (by unfold Prog.M; omega) (by omega))
      rw [h4] at s0
      exact ⟨m, Reach.jump_taken (sys := sphinx p) s0 (step_halt (m := m) c1), Keep.refl _ _ _⟩
    | false =>
      refine ⟨fun _ => ⟨m, by simpa [cD] using Reach.refl, Keep.refl _ _ _⟩, fun h => by simp [evalB] at h,
        fun h => by simp [evalB] at h⟩
  | not b _ => intro pc o m hd; simp [isD] at hd
  | and l r _ _ => intro pc o m hd; simp [isD] at hd
  | or l r ihl ihr =>
    intro pc o m hd hpl hB fr hvars hb hpk ho hdw hfut
    simp only [isD, Bool.and_eq_true] at hd
    simp only [boundB, Bool.and_eq_true] at hb
    simp only [pkB] at hpk
    simp only [cD] at hpl hB hfut ⊢
    obtain ⟨hpl1, hpl2⟩ := hpl.append
    rw [List.length_append] at hB hfut ⊢
    rw [← Nat.add_assoc] at hfut
    have hroom := fr.room
    -- the second disjunct, from any state reachable at its start
    have runR : ∀ m1, Keep p.w m m1 (F - o) →
        ((∀ m', Halts (sphinx p) ⟨v, m'⟩) ∨
          ∀ m', Keep p.w m1 m' (F - o) →
            (evalB (256 ^ p.w) (8 * p.w) env r = some false → ¬ Halts (sphinx p)
              ⟨pc + (cD (cxOf p ck B dA) true Γ pc o l).length + (cD (cxOf p ck B dA) true Γ (pc + (cD (cxOf p ck B dA) true Γ pc o l).length) o r).length, m'⟩) ∧
            (evalB (256 ^ p.w) (8 * p.w) env r = some true → ¬ Halts (sphinx p) ⟨v, m'⟩)) → _ :=
      fun m1 k1 hf => ihr (pc + (cD (cxOf p ck B dA) true Γ pc o l).length) o m1 hd.2 hpl2 (by omega) (fr.keep k1)
        (hvars.keep k1 (Nat.le_refl _) (Nat.le_refl _)) hb.2 (by omega) ho (hdw.keep k1 (by omega)) hf
    -- the future of the second disjunct, when the first is false
    have futR : evalB (256 ^ p.w) (8 * p.w) env l = some false → ∀ m1, Keep p.w m m1 (F - o) →
        ((∀ m', Halts (sphinx p) ⟨v, m'⟩) ∨
          ∀ m', Keep p.w m1 m' (F - o) →
            (evalB (256 ^ p.w) (8 * p.w) env r = some false → ¬ Halts (sphinx p)
              ⟨pc + (cD (cxOf p ck B dA) true Γ pc o l).length + (cD (cxOf p ck B dA) true Γ (pc + (cD (cxOf p ck B dA) true Γ pc o l).length) o r).length, m'⟩) ∧
            (evalB (256 ^ p.w) (8 * p.w) env r = some true → ¬ Halts (sphinx p) ⟨v, m'⟩)) := by
      intro hl m1 k1
      rcases hfut with h | h
      · exact Or.inl h
      · right
        intro m' k'
        have := h m' (k1.trans' k')
        refine ⟨fun hr => this.1 (by simp [evalB, hl, hr]), fun hr => this.2 (by simp [evalB, hl, hr])⟩
    -- the future of the first disjunct
    have futL : (evalB (256 ^ p.w) (8 * p.w) env l = some false →
          evalB (256 ^ p.w) (8 * p.w) env r = none → ck = true) →
        ((∀ m', Halts (sphinx p) ⟨v, m'⟩) ∨
          ∀ m', Keep p.w m m' (F - o) →
            (evalB (256 ^ p.w) (8 * p.w) env l = some false → ¬ Halts (sphinx p) ⟨pc + (cD (cxOf p ck B dA) true Γ pc o l).length, m'⟩) ∧
            (evalB (256 ^ p.w) (8 * p.w) env l = some true → ¬ Halts (sphinx p) ⟨v, m'⟩)) := by
      intro hnone
      rcases hfut with h | h
      · exact Or.inl h
      · right
        intro m1 k1
        refine ⟨fun hl => ?_, fun hl => (h m1 k1).2 (by simp [evalB, hl])⟩
        have h2 := runR m1 k1 (futR hl m1 k1)
        cases hr : evalB (256 ^ p.w) (8 * p.w) env r with
        | none =>
          obtain ⟨m2, r2⟩ := h2.2.2 hr (hnone hl hr)
          exact (r2.exec (terminal_never_halts lib m2).2.2.2.1).2
        | some x =>
          cases x with
          | false =>
            obtain ⟨m2, r2, k2⟩ := h2.1 hr
            exact (r2.exec ((h m2 (k1.trans' k2)).1 (by simp [evalB, hl, hr]))).2
          | true =>
            obtain ⟨m2, r2, k2⟩ := h2.2.1 hr
            exact (r2.exec ((h m2 (k1.trans' k2)).2 (by simp [evalB, hl, hr]))).2
    refine ⟨fun hf => ?_, fun ht => ?_, fun hn hck => ?_⟩
    · simp only [evalB, Option.bind_eq_bind] at hf
      cases hv : evalB (256 ^ p.w) (8 * p.w) env l with
      | none => simp [hv] at hf
      | some x =>
        cases x with
        | true => simp [hv] at hf
        | false =>
          simp only [hv, Option.bind_some, Bool.false_eq_true, if_false] at hf
          have h1 := ihl pc o m hd.1 hpl1 (by omega) fr hvars hb.1 (by omega) ho hdw (futL (fun _ hr => by rw [hr] at hf; cases hf))
          obtain ⟨m1, r1, k1⟩ := h1.1 hv
          obtain ⟨m2, r2, k2⟩ := (runR m1 k1 (futR hv m1 k1)).1 hf
          exact ⟨m2, by simpa [Nat.add_assoc] using r1.trans r2, k1.trans' k2⟩
    · simp only [evalB, Option.bind_eq_bind] at ht
      cases hv : evalB (256 ^ p.w) (8 * p.w) env l with
      | none => simp [hv] at ht
      | some x =>
        cases x with
        | true =>
          exact (ihl pc o m hd.1 hpl1 (by omega) fr hvars hb.1 (by omega) ho hdw (futL (fun hl => by rw [hv] at hl; cases hl))).2.1 hv
        | false =>
          simp only [hv, Option.bind_some, Bool.false_eq_true, if_false] at ht
          have h1 := ihl pc o m hd.1 hpl1 (by omega) fr hvars hb.1 (by omega) ho hdw (futL (fun _ hr => by rw [hr] at ht; cases ht))
          obtain ⟨m1, r1, k1⟩ := h1.1 hv
          obtain ⟨m2, r2, k2⟩ := (runR m1 k1 (futR hv m1 k1)).2.1 ht
          exact ⟨m2, by simpa using r1.trans r2, k1.trans' k2⟩
    · simp only [evalB, Option.bind_eq_bind] at hn
      cases hv : evalB (256 ^ p.w) (8 * p.w) env l with
      | none => exact (ihl pc o m hd.1 hpl1 (by omega) fr hvars hb.1 (by omega) ho hdw (futL (fun hl => by rw [hv] at hl; cases hl))).2.2 hv hck
      | some x =>
        cases x with
        | true => simp [hv] at hn
        | false =>
          simp only [hv, Option.bind_some, Bool.false_eq_true, if_false] at hn
          have h1 := ihl pc o m hd.1 hpl1 (by omega) fr hvars hb.1 (by omega) ho hdw (futL (fun _ _ => hck))
          obtain ⟨m1, r1, k1⟩ := h1.1 hv
          obtain ⟨m2, r2⟩ := (runR m1 k1 (futR hv m1 k1)).2.2 hn hck
          exact ⟨m2, by simpa using r1.trans r2⟩
  | cmp op l r =>
    intro pc o m _ hpl hB fr hvars hb hpk ho hdw hfut
    simp only [boundB, Bool.and_eq_true] at hb
    simp only [pkB] at hpk
    have hroom := fr.room
    rcases hcl : cE (cxOf p ck B dA) Γ pc o (cxOf p ck B dA).r0 l (!isSafe r) with ⟨c1, vl, p1⟩
    rcases hcr : cE (cxOf p ck B dA) Γ (pc + c1.length) (if p1 = true then o + (cxOf p ck B dA).w else o) (cxOf p ck B dA).r1 r false
      with ⟨c2, vr0, p2⟩
    rcases hg2 : getOp (cxOf p ck B dA) (cxOf p ck B dA).r1 vr0 with ⟨c2', vr⟩
    rcases hg3 : getOp (cxOf p ck B dA) (cxOf p ck B dA).r0 vl with ⟨c3, vl'⟩
    have hcode : cD (cxOf p ck B dA) true Γ pc o (.cmp op l r)
        = (c1 ++ c2 ++ c2' ++ c3) ++ [.j (.st dA), .hcond (cmpHalt op) (vl'.arg (cxOf p ck B dA)) (vr.arg (cxOf p ck B dA))] := by
      simp only [cD, hcl, hcr, hg2, hg3, if_true, List.append_assoc, List.cons_append, List.nil_append]
    rw [hcode] at hpl hB hfut ⊢
    generalize hpre : c1 ++ c2 ++ c2' ++ c3 = pre at *
    obtain ⟨hplP, hplH⟩ := hpl.append
    have cj := hplH 0 (by simp); have ch := hplH 1 (by simp)
    simp only [List.getElem_cons_succ, List.getElem_cons_zero, Nat.add_zero] at cj ch
    simp only [List.length_append, List.length_cons, List.length_nil] at hB hfut ⊢
    have hops := operands_ok (ck := ck) (dA := dA) lib Γ env F D l r pc o m c1 vl p1 hcl c2 vr0 p2 hcr c2' vr hg2 c3 vl' hg3
      (by rw [hpre]; exact hplP) (by rw [hpre]; omega) fr hvars hb.1 hb.2 (by omega) (by omega) ho
    rw [hpre] at hops
    have key : ∀ a b, evalE (256 ^ p.w) (8 * p.w) env l = some a → evalE (256 ^ p.w) (8 * p.w) env r = some b →
        ∃ m4, Reach (sphinx p) ⟨pc, m⟩ [] ⟨pc + pre.length, m4⟩ ∧ Keep p.w m m4 (F - o) ∧
          Sphinx.step p ⟨pc + pre.length, m4⟩ = .jump ⟨pc + pre.length + 1, m4⟩ ⟨v, m4⟩ ∧
          Sphinx.step p ⟨pc + pre.length + 1, m4⟩ =
            if haltCond (256 ^ p.w) (cmpHalt op) a b then .halt else .next ⟨pc + pre.length + 1 + 1, m4⟩ none := by
      intro a b hea heb
      obtain ⟨m4, r4, k4, hargl, hargr, hvl, hvr⟩ := hops.1 a b hea heb
      have fr4 := fr.keep k4
      obtain ⟨h1, h2, h3, h4, h5⟩ := hdw.keep k4 (by omega)
      have sj := step_j (m := m4) cj (ev_st (by unfold Prog.M; omega) (by omega))
      rw [h4] at sj
      have s := step_hcond (m := m4) ch (ev_arg_any hw fr4 _ vl' hargl) (ev_arg_any hw fr4 _ vr hargr)
      rw [hvl, hvr] at s
      unfold Prog.M at s
      exact ⟨m4, r4, k4, sj, s⟩
    refine ⟨fun hf => ?_, fun ht => ?_, fun hn hck => ?_⟩
    · simp only [evalB, Option.bind_eq_bind] at hf
      cases hea : evalE (256 ^ p.w) (8 * p.w) env l with
      | none => simp [hea] at hf
      | some a =>
      cases heb : evalE (256 ^ p.w) (8 * p.w) env r with
      | none => simp [hea, heb] at hf
      | some b =>
      have hfb : evalB (256 ^ p.w) (8 * p.w) env (.cmp op l r) = some false := by
        simpa [evalB, hea, heb] using hf
      simp only [hea, heb, Option.bind_some, Option.pure_def, Option.some.injEq] at hf
      obtain ⟨m4, r4, k4, sj, s⟩ := key a b hea heb
      rw [hf] at s
      simp only [Bool.false_eq_true, if_false] at s
      have rn := Reach.of_next (sys := sphinx p) s
      have jn : Reach (sphinx p) ⟨pc + pre.length, m4⟩ [] ⟨pc + pre.length + 1, m4⟩ := by
        refine Reach.jump_not_taken (sys := sphinx p) sj (fun hh => ?_)
        rcases hfut with h | h
        · exact h m4
        · exact absurd hh (rn.exec (by have := (h m4 k4).1 hfb; simpa [Nat.add_assoc] using this)).2
      exact ⟨m4, by simpa [evl, Nat.add_assoc] using r4.trans (jn.trans rn), k4⟩
    · simp only [evalB, Option.bind_eq_bind] at ht
      cases hea : evalE (256 ^ p.w) (8 * p.w) env l with
      | none => simp [hea] at ht
      | some a =>
      cases heb : evalE (256 ^ p.w) (8 * p.w) env r with
      | none => simp [hea, heb] at ht
      | some b =>
      simp only [hea, heb, Option.bind_some, Option.pure_def, Option.some.injEq] at ht
      obtain ⟨m4, r4, k4, sj, s⟩ := key a b hea heb
      rw [ht] at s
      simp only [if_true] at s
      exact ⟨m4, by simpa using r4.trans (Reach.jump_taken (sys := sphinx p) sj s), k4⟩
    · simp only [evalB, Option.bind_eq_bind] at hn
      apply hops.2 _ hck
      cases hea : evalE (256 ^ p.w) (8 * p.w) env l with
      | none => exact Or.inl rfl
      | some a =>
        cases heb : evalE (256 ^ p.w) (8 * p.w) env r with
        | none => exact Or.inr ⟨a, rfl, rfl⟩
        | some b => simp [hea, heb] at hn

end

end HidVerif.Core
