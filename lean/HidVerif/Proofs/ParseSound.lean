import HidVerif.Hid.Parser
/-!
# Soundness of the parser model with respect to the flavour and context rules (C06)

`OkE ctx e` / `OkS ctx s`: every node of the tree that the grammar guards by a context test sits
in a context that passes the test, where the context of a sub-tree is the one the grammar
computes for it (`ctxTryBody`, `ctxSpec`, …, regenerated from grammar.py).
`psExpr_sound` … `parse_sound`: whatever tree the parser model returns satisfies them — for every
token list and every fuel, by induction on the fuel.
-/
namespace HidVerif.Hid.Parse
open HidVerif.Hid.Lex HidVerif.Gen

/-- the class names a binary operator node can carry (levels 4 to 8 of the regenerated table) -/
def binClasses : List String := ["Mul", "Div", "Mod", "Add", "Sub", "Lt", "Le", "Gt", "Ge", "Eq", "Ne", "And", "Or"]
/-- the class names of the compound assignment operators -/
def incClasses : List String := incOps.map Prod.snd

inductive OkE : Nat → PExpr → Prop
  | int {ctx v} : OkE ctx (.int v)
  | char {ctx b} : OkE ctx (.char b)
  | str {ctx bs} : OkE ctx (.str bs)
  | bool {ctx b} : OkE ctx (.bool b)
  | var {ctx n} : OkE ctx (.var n)
  | arrlit {ctx items} : (∀ a ∈ items, OkE ctx a) → OkE ctx (.arrlit items)
  | call {ctx n fl args} : has ctx "FUNC" = true → flavorAllowed ctx fl = true → (∀ a ∈ args, OkE ctx a) → OkE ctx (.call n fl args)
  | len {ctx e} : OkE ctx e → OkE ctx (.len e)
  | index {ctx e i} : OkE ctx e → OkE ctx i → OkE ctx (.index e i)
  | un {ctx op e} : OkE ctx e → OkE ctx (.un op e)
  | is_ {ctx e t} : OkE ctx e → tgtOK t = true → OkE ctx (.is_ e t)
  | bin {ctx op l r} : OkE ctx l → OkE ctx r → op ∈ binClasses → OkE ctx (.bin op l r)
  | spec {ctx l r} : has ctx "YOU" = true → OkE (ctxSpec ctx) l → OkE (ctxSpec ctx) r → OkE ctx (.spec l r)

/-! ## inversion of the parser combinators -/
theorem bind_val {α β : Type} {p : P α} {f : α → P β} {ts : List Lexeme} {b : β} {rest : List Lexeme}
    (h : (p >>= f) ts = .val b rest) : ∃ a mid, p ts = .val a mid ∧ f a mid = .val b rest := by
  have h : P.bind p f ts = .val b rest := h
  unfold P.bind at h
  cases hp : p ts with
  | val a mid => rw [hp] at h; exact ⟨a, mid, rfl, h⟩
  | fail => rw [hp] at h; cases h
  | err e => rw [hp] at h; cases h

theorem opt_val {α : Type} {p : P α} {ts : List Lexeme} {o : Option α} {rest : List Lexeme}
    (h : opt p ts = .val o rest) : (o = none ∧ rest = ts) ∨ (∃ a, o = some a ∧ p ts = .val a rest) := by
  unfold opt at h
  cases hp : p ts with
  | val a mid => rw [hp] at h; injection h with h1 h2; exact Or.inr ⟨a, h1.symm, by rw [h2]⟩
  | fail => rw [hp] at h; injection h with h1 h2; exact Or.inl ⟨h1.symm, h2.symm⟩
  | err e => rw [hp] at h; cases h

theorem expect_val {α : Type} {en : Ending} {p : P α} {ts : List Lexeme} {a : α} {rest : List Lexeme}
    (h : expect en p ts = .val a rest) : p ts = .val a rest := by
  unfold expect at h
  cases hp : p ts with
  | val a' mid => rw [hp] at h; exact h
  | fail => rw [hp] at h; cases h
  | err e => rw [hp] at h; cases h

theorem pure_val {α : Type} {a b : α} {ts rest : List Lexeme} (h : (pure a : P α) ts = .val b rest) : b = a ∧ rest = ts := by
  injection h with h1 h2; exact ⟨h1.symm, h2.symm⟩

theorem throw_val {α : Type} {e : PErr} {ts rest : List Lexeme} {b : α} (h : (throw e : P α) ts = .val b rest) : False := by
  cases h

theorem fail_val {α : Type} {ts rest : List Lexeme} {b : α} (h : (fail : P α) ts = .val b rest) : False := by
  cases h


/-! ## expressions -/
/-! ## the types the grammar can write -/
theorem tyOfName_ok {n : String} {t : Ty} (h : tyOfName n = some t) : scalarTy t = true ∨ t = .empty := by
  unfold tyOfName at h
  split at h <;> first | (injection h with h; subst h; simp [scalarTy]) | cases h

theorem tokenIf_val {α : Type} {en : Ending} {f : Lexeme → Option α} {ts rest : List Lexeme} {a : α}
    (h : tokenIf en f ts = .val a rest) : ∃ l, f l = some a := by
  unfold tokenIf at h
  split at h
  · rename_i l rest'
    split at h
    · rename_i a' ha
      split at h
      · cases h
      · injection h with h1 _
        subst h1; exact ⟨l, ha⟩
    · cases h
  · cases h

theorem lookup_mem_snd {k : String} {v : String} : ∀ {l : List (String × String)}, l.lookup k = some v → v ∈ l.map Prod.snd
  | [], h => by simp [List.lookup] at h
  | (a, b) :: l, h => by
    simp only [List.lookup] at h
    split at h
    · injection h with h; subst h; simp
    · simp only [List.map_cons, List.mem_cons]; exact Or.inr (lookup_mem_snd h)

theorem opTok_val {en : Ending} {ops : List (String × String)} {ts rest : List Lexeme} {cls : String} {l : Lexeme}
    (h : opTok en ops ts = .val (cls, l) rest) : cls ∈ ops.map Prod.snd := by
  unfold opTok at h
  obtain ⟨l', hl'⟩ := tokenIf_val h
  split at hl'
  · rename_i n _
    cases hf : ops.find? (fun (t, _) => "OpToken." ++ t == n) with
    | none => simp [hf] at hl'
    | some pr =>
      simp [hf] at hl'
      obtain ⟨rfl, _⟩ := hl'
      exact List.mem_map.2 ⟨pr, List.mem_of_find?_eq_some hf, rfl⟩
  · cases hl'

theorem binOps_classes : ∀ L, 3 < L → ∀ cls ∈ (binOps L).map Prod.snd, cls ∈ binClasses
  | 0, h | 1, h | 2, h | 3, h => by omega
  | 4, _ => by decide
  | 5, _ => by decide
  | 6, _ => by decide
  | 7, _ => by decide
  | 8, _ => by decide
  | L + 9, _ => by
    intro cls h
    have : binOps (L + 9) = [] := by
      simp [binOps, HidVerif.Gen.exprLevels, List.lookup]
    rw [this] at h; cases h

theorem dataTypeTok_val {en : Ending} {ts rest : List Lexeme} {t : Ty} {l : Lexeme}
    (h : dataTypeTok en ts = .val (t, l) rest) : scalarTy t = true ∨ t = .empty := by
  unfold dataTypeTok at h
  obtain ⟨l', hl⟩ := tokenIf_val h
  split at hl
  · rename_i n _
    cases hn : tyOfName n with
    | none => simp [hn] at hl
    | some t' =>
      simp [hn] at hl
      obtain ⟨rfl, _⟩ := hl
      exact tyOfName_ok hn
  · cases hl

theorem psDataTypeOpt_val {en : Ending} {ts rest : List Lexeme} {t : Ty}
    (h : psDataTypeOpt en ts = .val (some t) rest) : scalarTy t = true := by
  unfold psDataTypeOpt at h
  split at h
  · rename_i t' l rest' hd
    split at h
    · cases h
    · rename_i hne
      injection h with h1 _
      injection h1 with h1
      subst h1
      rcases dataTypeTok_val hd with h2 | h2
      · exact h2
      · subst h2; simp at hne
  · cases h
  · cases h

theorem scalar_tyOK {t : Ty} (h : scalarTy t = true) : tyOK t = true := by
  cases t <;> simp_all [tyOK, scalarTy]

theorem scalar_tgtOK {t : Ty} (h : scalarTy t = true) : tgtOK t = true := by
  cases t <;> simp_all [tgtOK, scalarTy]

theorem psDecl_val {en : Ending} {ts rest : List Lexeme} {n : List CP} {t : Ty} {c : Bool}
    (h : psDecl en ts = .val (n, t, c) rest) : tyOK t = true := by
  unfold psDecl at h
  obtain ⟨c', m1, _, h2⟩ := bind_val h
  obtain ⟨dt, m2, hdt, h3⟩ := bind_val h2
  cases dt with
  | some t' =>
    have hs := psDataTypeOpt_val hdt
    obtain ⟨br, m3, _, h4⟩ := bind_val h3
    cases br with
    | some _ =>
      obtain ⟨_, m4, _, h5⟩ := bind_val h4
      obtain ⟨⟨n', _, _⟩, m5, _, h6⟩ := bind_val h5
      obtain ⟨h7, _⟩ := pure_val h6
      injection h7 with _ h7
      injection h7 with h7 _
      subst h7
      simpa [tyOK] using hs
    | none =>
      obtain ⟨⟨n', _, _⟩, m4, _, h5⟩ := bind_val h4
      obtain ⟨h7, _⟩ := pure_val h5
      injection h7 with _ h7
      injection h7 with h7 _
      subst h7
      exact scalar_tyOK hs
  | none =>
    dsimp only at h3
    split at h3
    · cases h3
    · exact (fail_val h3).elim

section expr
variable (en : Ending)

/-- what the induction on the fuel carries for the expression parsers -/
structure ExprIH (n : Nat) : Prop where
  cList : ∀ ctx ts es rest, commaList en n ctx ts = .val es rest → ∀ a ∈ es, OkE ctx a
  cRest : ∀ ctx acc ts es rest, (∀ a ∈ acc, OkE ctx a) → commaRest en n ctx acc ts = .val es rest → ∀ a ∈ es, OkE ctx a
  fCall : ∀ ctx ts e rest, psFuncCall en n ctx ts = .val e rest → OkE ctx e
  x0 : ∀ ctx ts e rest, psExpr0 en n ctx ts = .val e rest → OkE ctx e
  post : ∀ ctx e0 ts e rest, OkE ctx e0 → psPostfix en n ctx e0 ts = .val e rest → OkE ctx e
  x1 : ∀ ctx ts e rest, psExpr1 en n ctx ts = .val e rest → OkE ctx e
  x2 : ∀ ctx ts e rest, psExpr2 en n ctx ts = .val e rest → OkE ctx e
  x3 : ∀ ctx ts e rest, psExpr3 en n ctx ts = .val e rest → OkE ctx e
  bLevel : ∀ ctx L ts e rest, psBinLevel en n ctx L ts = .val e rest → OkE ctx e
  bRest : ∀ ctx L e0 ts e rest, 3 < L → OkE ctx e0 → psBinRest en n ctx L e0 ts = .val e rest → OkE ctx e
  xTop : ∀ ctx ts e rest, psExpr en n ctx ts = .val e rest → OkE ctx e

theorem exprIH_zero : ExprIH en 0 := by
  refine ⟨?_, ?_, ?_, ?_, ?_, ?_, ?_, ?_, ?_, ?_, ?_⟩
  · intro ctx ts es rest h; rw [commaList] at h; cases h
  · intro ctx acc ts es rest _ h; rw [commaRest] at h; cases h
  · intro ctx ts e rest h; rw [psFuncCall] at h; cases h
  · intro ctx ts e rest h; rw [psExpr0] at h; cases h
  · intro ctx e0 ts e rest _ h; rw [psPostfix] at h; cases h
  · intro ctx ts e rest h; rw [psExpr1] at h; cases h
  · intro ctx ts e rest h; rw [psExpr2] at h; cases h
  · intro ctx ts e rest h; rw [psExpr3] at h; cases h
  · intro ctx L ts e rest h; rw [psBinLevel] at h; cases h
  · intro ctx L e0 ts e rest _ _ h; rw [psBinRest] at h; cases h
  · intro ctx ts e rest h; rw [psExpr] at h; cases h

theorem commaList_succ {n : Nat} (ih : ExprIH en n) :
    ∀ ctx ts es rest, commaList en (n + 1) ctx ts = .val es rest → ∀ a ∈ es, OkE ctx a := by
  intro ctx ts es rest h
  rw [commaList] at h
  obtain ⟨first, mid, h1, h2⟩ := bind_val h
  cases first with
  | none =>
    obtain ⟨rfl, _⟩ := pure_val h2
    intro a ha; cases ha
  | some e =>
    rcases opt_val h1 with ⟨h0, _⟩ | ⟨e', he', hp⟩
    · cases h0
    · cases he'
      exact ih.cRest ctx [e] mid es rest (fun a ha => by
        simp only [List.mem_singleton] at ha; subst ha; exact ih.xTop ctx ts _ mid hp) h2

theorem commaRest_succ {n : Nat} (ih : ExprIH en n) :
    ∀ ctx acc ts es rest, (∀ a ∈ acc, OkE ctx a) → commaRest en (n + 1) ctx acc ts = .val es rest → ∀ a ∈ es, OkE ctx a := by
  intro ctx acc ts es rest hacc h
  rw [commaRest] at h
  obtain ⟨c, mid, h1, h2⟩ := bind_val h
  cases c with
  | none =>
    obtain ⟨rfl, _⟩ := pure_val h2
    intro a ha; exact hacc a (List.mem_reverse.1 ha)
  | some l =>
    obtain ⟨e, mid2, h3, h4⟩ := bind_val h2
    have he := ih.xTop ctx mid e mid2 (expect_val h3)
    exact ih.cRest ctx (e :: acc) mid2 es rest (fun a ha => by
      rcases List.mem_cons.1 ha with rfl | ha
      · exact he
      · exact hacc a ha) h4

theorem psIdent_val {allowed : Flavor → Bool} {ts rest : List Lexeme} {n : List CP} {fl : Flavor} {l : Lexeme}
    (h : psIdent en allowed ts = .val (n, fl, l) rest) : allowed fl = true := by
  unfold psIdent at h
  obtain ⟨⟨n', fl', l'⟩, mid, _, h2⟩ := bind_val h
  by_cases ha : allowed fl' = true
  · simp only [ha, if_true] at h2
    obtain ⟨h3, _⟩ := pure_val h2
    injection h3 with _ h4; injection h4 with h5 _
    rw [h5]; exact ha
  · simp only [ha, Bool.false_eq_true, if_false] at h2
    exact (throw_val h2).elim

theorem funcCall_succ {n : Nat} (ih : ExprIH en n) :
    ∀ ctx ts e rest, psFuncCall en (n + 1) ctx ts = .val e rest → OkE ctx e := by
  intro ctx ts e rest h
  rw [psFuncCall] at h
  by_cases hf : has ctx "FUNC" = true
  · simp only [hf, Bool.not_true, Bool.false_eq_true, if_false] at h
    obtain ⟨⟨nm, fl, l⟩, m1, h1, h2⟩ := bind_val h
    obtain ⟨_, m2, _, h3⟩ := bind_val h2
    obtain ⟨args, m3, h4, h5⟩ := bind_val h3
    obtain ⟨_, m4, _, h6⟩ := bind_val h5
    obtain ⟨rfl, _⟩ := pure_val h6
    exact .call hf (psIdent_val en h1) (ih.cList ctx m2 args m3 h4)
  · simp only [Bool.not_eq_true] at hf
    simp only [hf, Bool.not_false, if_true] at h
    exact (fail_val h).elim

theorem postfix_succ {n : Nat} (ih : ExprIH en n) :
    ∀ ctx e0 ts e rest, OkE ctx e0 → psPostfix en (n + 1) ctx e0 ts = .val e rest → OkE ctx e := by
  intro ctx e0 ts e rest h0 h
  rw [psPostfix] at h
  obtain ⟨d, m1, _, h2⟩ := bind_val h
  cases d with
  | some _ =>
    obtain ⟨_, m2, _, h3⟩ := bind_val h2
    exact ih.post ctx _ m2 e rest (.len h0) h3
  | none =>
    obtain ⟨b, m2, _, h3⟩ := bind_val h2
    cases b with
    | some _ =>
      obtain ⟨i, m3, h4, h5⟩ := bind_val h3
      obtain ⟨_, m4, _, h6⟩ := bind_val h5
      exact ih.post ctx _ m4 e rest (.index h0 (ih.xTop ctx m2 i m3 (expect_val h4))) h6
    | none =>
      obtain ⟨rfl, _⟩ := pure_val h3
      exact h0

theorem expr1_succ {n : Nat} (ih : ExprIH en n) :
    ∀ ctx ts e rest, psExpr1 en (n + 1) ctx ts = .val e rest → OkE ctx e := by
  intro ctx ts e rest h
  rw [psExpr1] at h
  obtain ⟨e0, m1, h1, h2⟩ := bind_val h
  exact ih.post ctx e0 m1 e rest (ih.x0 ctx ts e0 m1 h1) h2

theorem expr2_succ {n : Nat} (ih : ExprIH en n) :
    ∀ ctx ts e rest, psExpr2 en (n + 1) ctx ts = .val e rest → OkE ctx e := by
  intro ctx ts e rest h
  rw [psExpr2] at h
  obtain ⟨op, m1, _, h2⟩ := bind_val h
  cases op with
  | some o =>
    obtain ⟨cls, l⟩ := o
    obtain ⟨e1, m2, h3, h4⟩ := bind_val h2
    obtain ⟨rfl, _⟩ := pure_val h4
    exact .un (ih.x2 ctx m1 e1 m2 (expect_val h3))
  | none => exact ih.x1 ctx m1 e rest h2

theorem expr3_succ {n : Nat} (ih : ExprIH en n) :
    ∀ ctx ts e rest, psExpr3 en (n + 1) ctx ts = .val e rest → OkE ctx e := by
  intro ctx ts e rest h
  rw [psExpr3] at h
  obtain ⟨e2, m1, h1, h2⟩ := bind_val h
  have he2 := ih.x2 ctx ts e2 m1 h1
  obtain ⟨i, m2, _, h3⟩ := bind_val h2
  cases i with
  | none => obtain ⟨rfl, _⟩ := pure_val h3; exact he2
  | some _ =>
    obtain ⟨t?, m3, ht, h4⟩ := bind_val h3
    cases t? with
    | none => cases h4
    | some t =>
      have hs := psDataTypeOpt_val ht
      obtain ⟨br, m4, _, h5⟩ := bind_val h4
      cases br with
      | some _ =>
        obtain ⟨_, m5, _, h6⟩ := bind_val h5
        obtain ⟨rfl, _⟩ := pure_val h6
        exact .is_ he2 (by simpa [tgtOK] using hs)
      | none =>
        obtain ⟨rfl, _⟩ := pure_val h5
        exact .is_ he2 (scalar_tgtOK hs)

theorem binLevel_succ {n : Nat} (ih : ExprIH en n) :
    ∀ ctx L ts e rest, psBinLevel en (n + 1) ctx L ts = .val e rest → OkE ctx e := by
  intro ctx L ts e rest h
  rw [psBinLevel] at h
  by_cases h3 : L ≤ 3
  · rw [if_pos h3] at h; exact ih.x3 ctx ts e rest h
  · rw [if_neg h3] at h
    obtain ⟨e0, m1, h1, h2⟩ := bind_val h
    exact ih.bRest ctx L e0 m1 e rest (by omega) (ih.bLevel ctx (L - 1) ts e0 m1 h1) h2

theorem binRest_succ {n : Nat} (ih : ExprIH en n) :
    ∀ ctx L e0 ts e rest, 3 < L → OkE ctx e0 → psBinRest en (n + 1) ctx L e0 ts = .val e rest → OkE ctx e := by
  intro ctx L e0 ts e rest hL h0 h
  rw [psBinRest] at h
  obtain ⟨op, m1, hop, h2⟩ := bind_val h
  cases op with
  | none => obtain ⟨rfl, _⟩ := pure_val h2; exact h0
  | some o =>
    obtain ⟨cls, l⟩ := o
    obtain ⟨r, m2, h3, h4⟩ := bind_val h2
    have hcls : cls ∈ binClasses := by
      rcases opt_val hop with ⟨h0', _⟩ | ⟨a, ha, hp⟩
      · cases h0'
      · cases ha; exact binOps_classes L hL _ (opTok_val hp)
    exact ih.bRest ctx L _ m2 e rest hL (.bin h0 (ih.bLevel ctx (L - 1) m1 r m2 (expect_val h3)) hcls) h4

theorem expr0_succ {n : Nat} (ih : ExprIH en n) :
    ∀ ctx ts e rest, psExpr0 en (n + 1) ctx ts = .val e rest → OkE ctx e := by
  intro ctx ts e rest h
  rw [psExpr0] at h
  dsimp only at h
  split at h
  · cases h
  · cases h
  · -- parenthesised
    rename_i rest1 _
    obtain ⟨e1, m1, h1, h2⟩ := bind_val h
    obtain ⟨_, m2, _, h3⟩ := bind_val h2
    obtain ⟨rfl, _⟩ := pure_val h3
    exact ih.xTop ctx rest1 _ m1 (expect_val h1)
  · split at h
    · cases h
    · cases h
    · -- literal
      rename_i lit rest1 hl
      injection h with h1 h2
      subst h1
      rcases opt_val hl with ⟨h0, _⟩ | ⟨a, ha, hp⟩
      · cases h0
      · cases ha
        unfold tokenIf at hp
        split at hp
        · rename_i l r
          split at hp
          · rename_i a' hf
            have : a' = lit := by
              split at hp
              · cases hp
              · injection hp with h3 _
            subst this
            dsimp only at hf
            split at hf <;> first | (injection hf with hf; subst hf; constructor) | cases hf
          · cases hp
        · cases hp
    · split at h
      · cases h
      · cases h
      · -- array literal
        rename_i rest1 _
        obtain ⟨items, m1, h1, h2⟩ := bind_val h
        obtain ⟨_, m2, _, h3⟩ := bind_val h2
        obtain ⟨rfl, _⟩ := pure_val h3
        exact .arrlit (ih.cList ctx rest1 items m1 h1)
      · split at h
        · cases h
        · cases h
        · -- call
          rename_i cexp rest1 hc
          injection h with h1 h2
          subst h1
          rcases opt_val hc with ⟨h0, _⟩ | ⟨a, ha, hp⟩
          · cases h0
          · cases ha; exact ih.fCall ctx ts _ _ hp
        · -- variable
          obtain ⟨⟨nm, fl, l⟩, m1, _, h2⟩ := bind_val h
          obtain ⟨rfl, _⟩ := pure_val h2
          exact .var

theorem expr_succ {n : Nat} (ih : ExprIH en n) :
    ∀ ctx ts e rest, psExpr en (n + 1) ctx ts = .val e rest → OkE ctx e := by
  intro ctx ts e rest h
  rw [psExpr] at h
  dsimp only at h
  split at h
  · cases h
  · cases h
  · rename_i left rest1 hl
    have hleft := ih.bLevel ctx 8 ts left rest1 hl
    split at h
    · cases h
    · cases h
    · injection h with h1 h2; subst h1; exact hleft
    · rename_i lxm _ _
      by_cases hy : has ctx "YOU" = true
      · simp only [hy, Bool.not_true, Bool.false_eq_true, if_false] at h
        obtain ⟨l, m1, h1, h2⟩ := bind_val h
        obtain ⟨_, m2, _, h3⟩ := bind_val h2
        obtain ⟨r, m3, h4, h5⟩ := bind_val h3
        obtain ⟨rfl, _⟩ := pure_val h5
        exact .spec hy (ih.bLevel _ 8 ts l m1 (expect_val h1)) (ih.bLevel _ 8 m2 r m3 (expect_val h4))
      · simp only [Bool.not_eq_true] at hy
        simp only [hy, Bool.not_false, if_true] at h
        cases h

theorem exprIH : ∀ n, ExprIH en n := by
  intro n
  induction n with
  | zero => exact exprIH_zero en
  | succ n ih =>
    exact ⟨commaList_succ en ih, commaRest_succ en ih, funcCall_succ en ih, expr0_succ en ih, postfix_succ en ih,
      expr1_succ en ih, expr2_succ en ih, expr3_succ en ih, binLevel_succ en ih, binRest_succ en ih, expr_succ en ih⟩

end expr


/-! ## statements and blocks -/
/-- a statement of block form: what `ps_block` returns, and what the parts of control statements are -/
def blockishP : PStmt → Bool
  | .block _ _ => true | .ifb _ _ _ => true | .loop _ _ _ => true | .tryb _ _ _ => true | .preempt _ => true
  | _ => false

inductive OkS : Nat → PStmt → Prop
  | expr {ctx e} : OkE ctx e → OkS ctx (.expr e)
  | decl {ctx n t c init} : OkE ctx init → tyOK t = true → OkS ctx (.decl n t c init)
  | vla {ctx n t c len} : OkE ctx len → scalarTy t = true → OkS ctx (.vla n t c len)
  | assign {ctx l r} : OkE ctx l → OkE ctx r → OkS ctx (.assign l r)
  | incassign {ctx l r op} : OkE ctx l → OkE ctx r → op ∈ incClasses → OkS ctx (.incassign l r op)
  | ret {ctx eo} : (∀ e, eo = some e → OkE ctx e) → OkS ctx (.ret eo)
  | brk {ctx} : has ctx "LOOP" = true → OkS ctx .brk
  | cont {ctx} : has ctx "LOOP" = true → OkS ctx .cont
  | block {ctx ss p} : (∀ s ∈ ss, OkS ctx s) → OkS ctx (.block ss p)
  | ifb {ctx c t e} : OkE ctx c → OkS (ctxIfBody ctx) t → OkS (ctxElse ctx) e → blockishP t = true → blockishP e = true → OkS ctx (.ifb c t e)
  | loop {ctx c b k} : OkE ctx c → OkS (ctxWhileBody ctx) b → OkS ctx k → blockishP b = true → blockishP k = true → OkS ctx (.loop c b k)
  | tryb {ctx b k h} : has ctx "YOU" = true → OkS (ctxTryBody ctx) b → OkS (ctxHandler ctx) h → blockishP b = true → blockishP h = true → OkS ctx (.tryb b k h)
  | preempt {ctx b} : has ctx "DEFEAT" = true → OkS (ctxPreemptBody ctx) b → blockishP b = true → OkS ctx (.preempt b)

section stmt
variable (en : Ending)

theorem psVdecl_sound (fuel ctx : Nat) (ts : List Lexeme) (s : PStmt) (rest : List Lexeme)
    (h : psVdecl en fuel ctx ts = .val s rest) : OkS ctx s := by
  unfold psVdecl at h
  obtain ⟨⟨n, t, c⟩, m1, hd, h2⟩ := bind_val h
  have hty := psDecl_val hd
  obtain ⟨br, m2, _, h3⟩ := bind_val h2
  cases br with
  | some l =>
    cases t with
    | arr el cst => exact (throw_val h3).elim
    | _ =>
      all_goals
        obtain ⟨len, m3, h4, h5⟩ := bind_val h3
        obtain ⟨_, m4, _, h6⟩ := bind_val h5
        obtain ⟨rfl, _⟩ := pure_val h6
        first
        | exact .vla ((exprIH en fuel).xTop ctx m2 len m3 (expect_val h4)) (by simpa [tyOK] using hty)
        | (simp [tyOK, scalarTy] at hty)
  | none =>
    obtain ⟨_, m3, _, h4⟩ := bind_val h3
    obtain ⟨init, m4, h5, h6⟩ := bind_val h4
    obtain ⟨rfl, _⟩ := pure_val h6
    exact .decl ((exprIH en fuel).xTop ctx m3 init m4 (expect_val h5)) hty

theorem psAssignment_sound (fuel ctx : Nat) (ts : List Lexeme) (s : PStmt) (rest : List Lexeme)
    (h : psAssignment en fuel ctx ts = .val s rest) : OkS ctx s := by
  unfold psAssignment at h
  obtain ⟨a, m1, h1, h2⟩ := bind_val h
  have ha := (exprIH en fuel).xTop ctx ts a m1 h1
  by_cases hasg : isAssignable a = true
  · simp only [hasg, Bool.not_true, Bool.false_eq_true, if_false] at h2
    obtain ⟨eq, m2, _, h3⟩ := bind_val h2
    cases eq with
    | some _ =>
      obtain ⟨r, m3, h4, h5⟩ := bind_val h3
      obtain ⟨rfl, _⟩ := pure_val h5
      exact .assign ha ((exprIH en fuel).xTop ctx m2 r m3 (expect_val h4))
    | none =>
      obtain ⟨⟨cls, l⟩, m3, hcl, h4⟩ := bind_val h3
      obtain ⟨r, m4, h5, h6⟩ := bind_val h4
      obtain ⟨rfl, _⟩ := pure_val h6
      have hcls : cls ∈ incClasses := by
        obtain ⟨l', hl'⟩ := tokenIf_val hcl
        split at hl'
        · rename_i n _
          cases hn : incOps.lookup n with
          | none => simp [hn] at hl'
          | some c =>
            simp [hn] at hl'
            obtain ⟨rfl, _⟩ := hl'
            exact lookup_mem_snd hn
        · cases hl'
      exact .incassign ha ((exprIH en fuel).xTop ctx m3 r m4 (expect_val h5)) hcls
  · simp only [Bool.not_eq_true] at hasg
    simp only [hasg, Bool.not_false, if_true] at h2
    exact (fail_val h2).elim

theorem psPlainStmt_sound (fuel ctx : Nat) (allowDecl : Bool) (ts : List Lexeme) (s : PStmt) (rest : List Lexeme)
    (h : psPlainStmt en fuel ctx allowDecl ts = .val s rest) : OkS ctx s := by
  unfold psPlainStmt at h
  split at h
  · cases h
  · cases h
  · rename_i s1 rest1 hs
    injection h with h1 h2; subst h1
    rcases opt_val hs with ⟨h0, _⟩ | ⟨a, ha, hp⟩
    · cases h0
    · cases ha; exact psAssignment_sound en fuel ctx ts _ _ hp
  · split at h
    · cases h
    · cases h
    · rename_i e1 rest1 he
      injection h with h1 h2; subst h1
      rcases opt_val he with ⟨h0, _⟩ | ⟨a, ha, hp⟩
      · cases h0
      · cases ha; exact .expr ((exprIH en fuel).xTop ctx ts _ _ hp)
    · by_cases hd : allowDecl = true
      · simp only [hd, if_true] at h; exact psVdecl_sound en fuel ctx ts s rest h
      · simp only [hd] at h; cases h

theorem psStmt_sound (fuel ctx : Nat) (ts : List Lexeme) (s : PStmt) (rest : List Lexeme)
    (h : psStmt en fuel ctx ts = .val s rest) : OkS ctx s := by
  unfold psStmt at h
  split at h
  · cases h
  · cases h
  · by_cases hl : has ctx "LOOP" = true
    · simp only [hl, Bool.not_true, Bool.false_eq_true, if_false] at h
      injection h with h1 _; subst h1; exact .brk hl
    · simp only [Bool.not_eq_true] at hl
      simp only [hl, Bool.not_false, if_true] at h; cases h
  · split at h
    · cases h
    · cases h
    · by_cases hl : has ctx "LOOP" = true
      · simp only [hl, Bool.not_true, Bool.false_eq_true, if_false] at h
        injection h with h1 _; subst h1; exact .cont hl
      · simp only [Bool.not_eq_true] at hl
        simp only [hl, Bool.not_false, if_true] at h; cases h
    · split at h
      · cases h
      · cases h
      · rename_i rest1 _
        obtain ⟨eo, m1, h1, h2⟩ := bind_val h
        obtain ⟨rfl, _⟩ := pure_val h2
        refine .ret (fun e he => ?_)
        subst he
        rcases opt_val h1 with ⟨h0, _⟩ | ⟨a, ha, hp⟩
        · cases h0
        · cases ha; exact (exprIH en fuel).xTop ctx rest1 _ _ hp
      · exact psPlainStmt_sound en fuel ctx true ts s rest h

structure BlockIH (n : Nat) : Prop where
  codeBlock : ∀ ctx ts s rest, psCodeBlock en n ctx ts = .val s rest → OkS ctx s ∧ blockishP s = true
  items : ∀ ctx acc pre ts s rest, (∀ a ∈ acc, OkS ctx a) → psBlockItems en n ctx acc pre ts = .val s rest → OkS ctx s ∧ blockishP s = true
  blk : ∀ ctx ts s rest, psBlock en n ctx ts = .val s rest → OkS ctx s ∧ blockishP s = true

theorem blockIH_zero : BlockIH en 0 := by
  refine ⟨?_, ?_, ?_⟩
  · intro ctx ts s rest h; rw [psCodeBlock] at h; cases h
  · intro ctx acc pre ts s rest _ h; rw [psBlockItems] at h; cases h
  · intro ctx ts s rest h; rw [psBlock] at h; cases h

theorem codeBlock_succ {n : Nat} (ih : BlockIH en n) :
    ∀ ctx ts s rest, psCodeBlock en (n + 1) ctx ts = .val s rest → OkS ctx s ∧ blockishP s = true := by
  intro ctx ts s rest h
  rw [psCodeBlock] at h
  obtain ⟨_, m1, _, h2⟩ := bind_val h
  exact ih.items ctx [] false m1 s rest (fun a ha => by cases ha) h2

theorem items_succ {n : Nat} (ih : BlockIH en n) :
    ∀ ctx acc pre ts s rest, (∀ a ∈ acc, OkS ctx a) → psBlockItems en (n + 1) ctx acc pre ts = .val s rest → OkS ctx s ∧ blockishP s = true := by
  intro ctx acc pre ts s rest hacc h
  rw [psBlockItems] at h
  obtain ⟨close, m1, _, h2⟩ := bind_val h
  cases close with
  | some _ =>
    obtain ⟨rfl, _⟩ := pure_val h2
    exact ⟨.block (fun a ha => hacc a (List.mem_reverse.1 ha)), rfl⟩
  | none =>
    obtain ⟨st, m2, h3, h4⟩ := bind_val h2
    cases st with
    | some s1 =>
      obtain ⟨_, m3, _, h5⟩ := bind_val h4
      rcases opt_val h3 with ⟨h0, _⟩ | ⟨a, ha, hp⟩
      · cases h0
      · cases ha
        exact ih.items ctx (s1 :: acc) pre m3 s rest (fun a ha => by
          rcases List.mem_cons.1 ha with rfl | ha
          · exact psStmt_sound en n ctx m1 _ m2 hp
          · exact hacc a ha) h5
    | none =>
      obtain ⟨semi, m3, _, h5⟩ := bind_val h4
      cases semi with
      | some _ => exact ih.items ctx acc pre m3 s rest hacc h5
      | none =>
        obtain ⟨b, m4, h6, h7⟩ := bind_val h5
        exact ih.items ctx (b :: acc) _ m4 s rest (fun a ha => by
          rcases List.mem_cons.1 ha with rfl | ha
          · exact (ih.blk ctx m3 _ m4 (expect_val h6)).1
          · exact hacc a ha) h7

theorem block_succ {n : Nat} (ih : BlockIH en n) :
    ∀ ctx ts s rest, psBlock en (n + 1) ctx ts = .val s rest → OkS ctx s ∧ blockishP s = true := by
  intro ctx ts s rest h
  rw [psBlock] at h
  dsimp only at h
  split at h
  · cases h
  · cases h
  · exact ih.codeBlock ctx ts s rest h
  · -- if
    rename_i rest1 _
    obtain ⟨_, m1, _, h2⟩ := bind_val h
    obtain ⟨c, m2, h3, h4⟩ := bind_val h2
    obtain ⟨_, m3, _, h5⟩ := bind_val h4
    obtain ⟨body, m4, h6, h7⟩ := bind_val h5
    obtain ⟨el, m5, _, h8⟩ := bind_val h7
    have hc := (exprIH en n).xTop ctx m1 c m2 (expect_val h3)
    have hb := ih.blk _ m3 body m4 (expect_val h6)
    cases el with
    | some _ =>
      obtain ⟨e, m6, h9, h10⟩ := bind_val h8
      obtain ⟨rfl, _⟩ := pure_val h10
      have he := ih.blk _ m5 e m6 (expect_val h9)
      exact ⟨.ifb hc hb.1 he.1 hb.2 he.2, rfl⟩
    | none =>
      obtain ⟨rfl, _⟩ := pure_val h8
      exact ⟨.ifb hc hb.1 (.block (fun a ha => by cases ha)) hb.2 rfl, rfl⟩
  · -- while
    rename_i rest1 _
    obtain ⟨_, m1, _, h2⟩ := bind_val h
    obtain ⟨c, m2, h3, h4⟩ := bind_val h2
    obtain ⟨_, m3, _, h5⟩ := bind_val h4
    obtain ⟨body, m4, h6, h7⟩ := bind_val h5
    obtain ⟨rfl, _⟩ := pure_val h7
    have hb := ih.blk _ m3 body m4 (expect_val h6)
    exact ⟨.loop ((exprIH en n).xTop ctx m1 c m2 (expect_val h3)) hb.1
      (.block (fun a ha => by cases ha)) hb.2 rfl, rfl⟩
  · -- for
    rename_i rest1 _
    obtain ⟨_, m1, _, h2⟩ := bind_val h
    obtain ⟨init, m2, h3, h4⟩ := bind_val h2
    obtain ⟨_, m3, _, h5⟩ := bind_val h4
    obtain ⟨c, m4, h6, h7⟩ := bind_val h5
    obtain ⟨_, m5, _, h8⟩ := bind_val h7
    obtain ⟨cont, m6, h9, h10⟩ := bind_val h8
    obtain ⟨_, m7, _, h11⟩ := bind_val h10
    obtain ⟨body, m8, h12, h13⟩ := bind_val h11
    obtain ⟨rfl, _⟩ := pure_val h13
    have hbody0 := ih.blk _ m7 body m8 (expect_val h12)
    have hbody : OkS (ctxWhileBody ctx) body := hbody0.1
    have hcond : OkE ctx (c.getD (.bool true)) := by
      cases c with
      | none => exact .bool
      | some c' =>
        rcases opt_val h6 with ⟨h0, _⟩ | ⟨a, ha, hp⟩
        · cases h0
        · cases ha; exact (exprIH en n).xTop ctx m3 _ _ hp
    have hcontK : ∀ k, cont = some k → OkS ctx k := by
      intro k hk
      subst hk
      rcases opt_val h9 with ⟨h0, _⟩ | ⟨a, ha, hp⟩
      · cases h0
      · cases ha; exact psPlainStmt_sound en n ctx false m5 _ _ hp
    refine ⟨.block (fun a ha => ?_), rfl⟩
    rcases List.mem_append.1 ha with ha | ha
    · cases init with
      | none => cases ha
      | some i =>
        simp only [List.mem_singleton] at ha; subst ha
        rcases opt_val h3 with ⟨h0, _⟩ | ⟨a', ha', hp⟩
        · cases h0
        · cases ha'; exact psPlainStmt_sound en n ctx true m1 _ _ hp
    · simp only [List.mem_singleton] at ha; subst ha
      cases cont with
      | none => exact .loop hcond hbody (.block (fun a ha => by cases ha)) hbody0.2 rfl
      | some k =>
        exact .loop hcond hbody (.block (fun a ha => by
          simp only [List.mem_singleton] at ha; subst ha
          exact hcontK _ rfl)) hbody0.2 rfl
  · -- try
    rename_i rest1 _
    by_cases hy : has ctx "YOU" = true
    · simp only [hy, Bool.not_true, Bool.false_eq_true, if_false] at h
      obtain ⟨body, m1, h1, h2⟩ := bind_val h
      obtain ⟨k, m2, _, h3⟩ := bind_val h2
      obtain ⟨hd, m3, h4, h5⟩ := bind_val h3
      obtain ⟨rfl, _⟩ := pure_val h5
      have hb1 := ih.blk _ rest1 body m1 (expect_val h1)
      have hb2 := ih.blk _ m2 hd m3 (expect_val h4)
      exact ⟨.tryb hy hb1.1 hb2.1 hb1.2 hb2.2, rfl⟩
    · simp only [Bool.not_eq_true] at hy
      simp only [hy, Bool.not_false, if_true] at h; cases h
  · -- preempt
    rename_i rest1 _ _ _ _ _
    by_cases hd : has ctx "DEFEAT" = true
    · simp only [hd, Bool.not_true, Bool.false_eq_true, if_false] at h
      obtain ⟨body, m1, h1, h2⟩ := bind_val h
      obtain ⟨rfl, _⟩ := pure_val h2
      have hb1 := ih.blk _ _ body m1 (expect_val h1)
      exact ⟨.preempt hd hb1.1 hb1.2, rfl⟩
    · simp only [Bool.not_eq_true] at hd
      simp only [hd, Bool.not_false, if_true] at h; cases h

theorem blockIH : ∀ n, BlockIH en n := by
  intro n
  induction n with
  | zero => exact blockIH_zero en
  | succ n ih => exact ⟨codeBlock_succ en ih, items_succ en ih, block_succ en ih⟩

/-- the context a function body is parsed in -/
def funcCtx : Flavor → Nat
  | .you => funcContexts.getD 0 0 | .defeat => funcContexts.getD 1 0 | .none => funcContexts.getD 2 0

theorem psParams_more_val : ∀ (fuel : Nat) (acc : List (List CP × Ty × Bool)) (ts : List Lexeme) (ps : List (List CP × Ty × Bool))
    (rest : List Lexeme), (∀ q ∈ acc, tyOK q.2.1 = true) → psParams.more en fuel acc ts = .val ps rest → ∀ q ∈ ps, tyOK q.2.1 = true
  | 0, acc, ts, ps, rest, _, h => by rw [psParams.more] at h; cases h
  | fuel + 1, acc, ts, ps, rest, hacc, h => by
    rw [psParams.more] at h
    obtain ⟨c, m1, _, h2⟩ := bind_val h
    cases c with
    | none =>
      obtain ⟨rfl, _⟩ := pure_val h2
      intro q hq; exact hacc q (List.mem_reverse.1 hq)
    | some _ =>
      obtain ⟨⟨n, t, c'⟩, m2, h3, h4⟩ := bind_val h2
      have := psDecl_val (expect_val h3)
      exact psParams_more_val fuel _ m2 ps rest (fun q hq => by
        rcases List.mem_cons.1 hq with rfl | hq
        · exact this
        · exact hacc q hq) h4

theorem psParams_val (fuel : Nat) (ts : List Lexeme) (ps : List (List CP × Ty × Bool)) (rest : List Lexeme)
    (h : psParams en fuel ts = .val ps rest) : ∀ q ∈ ps, tyOK q.2.1 = true := by
  cases fuel with
  | zero => rw [psParams] at h; cases h
  | succ fuel =>
    rw [psParams] at h
    obtain ⟨first, m1, h1, h2⟩ := bind_val h
    cases first with
    | none => obtain ⟨rfl, _⟩ := pure_val h2; intro q hq; cases hq
    | some p0 =>
      obtain ⟨n, t, c⟩ := p0
      rcases opt_val h1 with ⟨h0, _⟩ | ⟨a, ha, hp⟩
      · cases h0
      · cases ha
        have := psDecl_val hp
        exact psParams_more_val en fuel _ m1 ps rest (fun q hq => by
          rcases List.mem_cons.1 hq with rfl | hq
          · exact this
          · cases hq) h2

/-- the types in a function's signature -/
def SigOK (f : PFunc) : Prop := (tyOK f.ret = true ∨ f.ret = .empty) ∧ ∀ q ∈ f.params, tyOK q.2.1 = true

theorem psFunc_sound (fuel : Nat) (ts : List Lexeme) (f : PFunc) (rest : List Lexeme)
    (h : psFunc en fuel ts = .val f rest) : OkS (funcCtx f.fl) f.body ∧ SigOK f := by
  unfold psFunc at h
  obtain ⟨⟨rt, _⟩, m1, hrt, h2⟩ := bind_val h
  obtain ⟨⟨n, fl⟩, m2, _, h3⟩ := bind_val h2
  obtain ⟨_, m3, _, h4⟩ := bind_val h3
  obtain ⟨ps, m4, hps, h5⟩ := bind_val h4
  obtain ⟨_, m5, _, h6⟩ := bind_val h5
  obtain ⟨body, m6, h7, h8⟩ := bind_val h6
  obtain ⟨rfl, _⟩ := pure_val h8
  have := ((blockIH en fuel).codeBlock _ m5 body m6 (expect_val h7)).1
  refine ⟨by cases fl <;> exact this, ?_, psParams_val en fuel _ ps _ hps⟩
  rcases dataTypeTok_val hrt with h1 | h1
  · exact Or.inl (scalar_tyOK h1)
  · exact Or.inr h1

/-- every function body and every global initialiser of the program obeys the context rules, and every type written
in it is a scalar or an array of scalars -/
structure ProgOK (p : PProgram) : Prop where
  funcs : ∀ f ∈ p.funcs, OkS (funcCtx f.fl) f.body
  vars : ∀ v ∈ p.vars, OkS 0 v
  sigs : ∀ f ∈ p.funcs, SigOK f

theorem psProgram_sound (fuel : Nat) : ∀ (k : Nat) (vs : List PStmt) (fs : List PFunc) (ts : List Lexeme) (p : PProgram)
    (rest : List Lexeme), (∀ f ∈ fs, OkS (funcCtx f.fl) f.body ∧ SigOK f) → (∀ v ∈ vs, OkS 0 v) →
    psProgram en fuel k vs fs ts = .val p rest → ProgOK p := by
  intro k
  induction k with
  | zero => intro vs fs ts p rest _ _ h; rw [psProgram] at h; cases h
  | succ k ih =>
    intro vs fs ts p rest hfs hvs h
    rw [psProgram] at h
    dsimp only at h
    split at h
    · injection h with h1 _
      subst h1
      exact ⟨fun f hf => (hfs f (List.mem_reverse.1 hf)).1, fun v hv => hvs v (List.mem_reverse.1 hv), fun f hf => (hfs f (List.mem_reverse.1 hf)).2⟩
    · split at h
      · cases h
      · cases h
      · rename_i f1 rest1 hf1
        rcases opt_val hf1 with ⟨h0, _⟩ | ⟨a, ha, hp⟩
        · cases h0
        · cases ha
          exact ih vs (f1 :: fs) rest1 p rest (fun f hf => by
            rcases List.mem_cons.1 hf with rfl | hf
            · exact psFunc_sound en fuel _ _ _ hp
            · exact hfs f hf) hvs h
      · split at h
        · cases h
        · cases h
        · rename_i rest1 _
          exact ih vs fs rest1 p rest hfs hvs h
        · split at h
          · rename_i v rest1 hv
            obtain ⟨v', m1, h1, h2⟩ := bind_val hv
            obtain ⟨_, m2, _, h3⟩ := bind_val h2
            obtain ⟨rfl, _⟩ := pure_val h3
            exact ih (v :: vs) fs rest1 p rest hfs (fun x hx => by
              rcases List.mem_cons.1 hx with rfl | hx
              · exact psVdecl_sound en fuel 0 _ _ _ (expect_val h1)
              · exact hvs x hx) h
          · cases h
          · cases h

/-- **Soundness of parsing w.r.t. the context rules**: every program the parser model accepts obeys them -/
theorem parse_sound (src : List Line) (p : PProgram) (h : parse src = .ok p) : ProgOK p := by
  unfold parse at h
  dsimp only at h
  split at h
  · cases h
  · split at h
    · rename_i p' rest hp
      injection h with h1; subst h1
      exact psProgram_sound _ _ _ [] [] _ _ _ (fun f hf => by cases hf) (fun v hv => by cases hv) hp
    · cases h
    · cases h

end stmt


/-! ## the documented rules, and why the context numbers enforce them -/

inductive Kind | you | defeat | ordinary | global
  deriving DecidableEq, Repr

/-- where a piece of code sits, in the words of the documentation -/
structure Pos where
  kind : Kind          -- flavour of the enclosing function (`global`: an initialiser outside any function)
  inTry : Bool         -- inside the body of a `try`
  inLoop : Bool        -- inside the body of a loop
  inSpec : Bool        -- inside an operand of `??`
  deriving DecidableEq, Repr

/-- which calls the documentation allows where -/
def mayCall (p : Pos) : Flavor → Bool
  | .none => p.kind != .global
  | .you => p.kind == .you && !p.inTry && !p.inSpec
  | .defeat => (p.inTry || p.kind == .defeat) && !p.inSpec
/-- `try` and `??`: only in you-functions, never inside a try body (or an operand of `??`) -/
def mayTry (p : Pos) : Bool := p.kind == .you && !p.inTry && !p.inSpec
/-- `preempt`: only inside try bodies or defeat functions -/
def mayPreempt (p : Pos) : Bool := (p.inTry || p.kind == .defeat) && !p.inSpec

inductive RulesE : Pos → PExpr → Prop
  | int {p v} : RulesE p (.int v)
  | char {p b} : RulesE p (.char b)
  | str {p bs} : RulesE p (.str bs)
  | bool {p b} : RulesE p (.bool b)
  | var {p n} : RulesE p (.var n)
  | arrlit {p items} : (∀ a ∈ items, RulesE p a) → RulesE p (.arrlit items)
  | call {p n fl args} : mayCall p fl = true → (∀ a ∈ args, RulesE p a) → RulesE p (.call n fl args)
  | len {p e} : RulesE p e → RulesE p (.len e)
  | index {p e i} : RulesE p e → RulesE p i → RulesE p (.index e i)
  | un {p op e} : RulesE p e → RulesE p (.un op e)
  | is_ {p e t} : RulesE p e → RulesE p (.is_ e t)
  | bin {p op l r} : RulesE p l → RulesE p r → RulesE p (.bin op l r)
  | spec {p l r} : mayTry p = true → RulesE { p with inSpec := true } l → RulesE { p with inSpec := true } r → RulesE p (.spec l r)

inductive RulesS : Pos → PStmt → Prop
  | expr {p e} : RulesE p e → RulesS p (.expr e)
  | decl {p n t c init} : RulesE p init → RulesS p (.decl n t c init)
  | vla {p n t c len} : RulesE p len → RulesS p (.vla n t c len)
  | assign {p l r} : RulesE p l → RulesE p r → RulesS p (.assign l r)
  | incassign {p l r op} : RulesE p l → RulesE p r → RulesS p (.incassign l r op)
  | ret {p eo} : (∀ e, eo = some e → RulesE p e) → RulesS p (.ret eo)
  | brk {p} : p.inLoop = true → RulesS p .brk
  | cont {p} : p.inLoop = true → RulesS p .cont
  | block {p ss pre} : (∀ s ∈ ss, RulesS p s) → RulesS p (.block ss pre)
  | ifb {p c t e} : RulesE p c → RulesS p t → RulesS p e → RulesS p (.ifb c t e)
  | loop {p c b k} : RulesE p c → RulesS { p with inLoop := true } b → RulesS p k → RulesS p (.loop c b k)
  | tryb {p b k h} : mayTry p = true → RulesS { p with inTry := true } b → RulesS p h → RulesS p (.tryb b k h)
  | preempt {p b} : mayPreempt p = true → RulesS p b → RulesS p (.preempt b)

/-- contexts that can occur (closed under the context expressions of the grammar: `C06.reachable_closed`) -/
def reachableCtx : List Nat := [0, 1, 3, 5, 13, 16, 17, 19, 21, 29]

/-- the context number `c` grants exactly what the documentation grants at position `p` -/
def Rel (c : Nat) (p : Pos) : Bool :=
  reachableCtx.contains c &&
  (has c "FUNC" == (p.kind != .global)) &&
  (flavorAllowed c .none == mayCall p .none) && (flavorAllowed c .you == mayCall p .you) &&
  (flavorAllowed c .defeat == mayCall p .defeat) &&
  (has c "YOU" == mayTry p) && (has c "DEFEAT" == mayPreempt p) && (has c "LOOP" == p.inLoop)

def allPos : List Pos :=
  [Kind.you, .defeat, .ordinary, .global].flatMap fun k => [false, true].flatMap fun a => [false, true].flatMap fun b =>
    [false, true].map fun c => ⟨k, a, b, c⟩

theorem mem_allPos (p : Pos) : p ∈ allPos := by
  obtain ⟨k, a, b, c⟩ := p
  cases k <;> cases a <;> cases b <;> cases c <;> decide

/-- the transitions of the grammar's context expressions are the transitions of the documentation -/
theorem rel_steps : ∀ c ∈ reachableCtx, ∀ p ∈ allPos, Rel c p = true →
    Rel (ctxIfBody c) p = true ∧ Rel (ctxElse c) p = true ∧
    Rel (ctxWhileBody c) { p with inLoop := true } = true ∧ Rel (ctxForBody c) { p with inLoop := true } = true ∧
    (has c "YOU" = true → Rel (ctxTryBody c) { p with inTry := true } = true ∧ Rel (ctxHandler c) p = true ∧
      Rel (ctxSpec c) { p with inSpec := true } = true) ∧
    (has c "DEFEAT" = true → Rel (ctxPreemptBody c) p = true) := by decide

theorem rel_start : Rel (funcCtx .you) ⟨.you, false, false, false⟩ = true ∧ Rel (funcCtx .defeat) ⟨.defeat, false, false, false⟩ = true ∧
    Rel (funcCtx .none) ⟨.ordinary, false, false, false⟩ = true ∧ Rel 0 ⟨.global, false, false, false⟩ = true := by decide


theorem rel_facts {c : Nat} {p : Pos} (h : Rel c p = true) :
    c ∈ reachableCtx ∧ (∀ fl, flavorAllowed c fl = mayCall p fl) ∧ has c "YOU" = mayTry p ∧
    has c "DEFEAT" = mayPreempt p ∧ has c "LOOP" = p.inLoop := by
  simp only [Rel, Bool.and_eq_true, beq_iff_eq, List.contains_iff_mem] at h
  obtain ⟨⟨⟨⟨⟨⟨⟨h1, _⟩, h3⟩, h4⟩, h5⟩, h6⟩, h7⟩, h8⟩ := h
  exact ⟨h1, fun fl => by cases fl <;> assumption, h6, h7, h8⟩

theorem rulesE_of_ok {c : Nat} {e : PExpr} (h : OkE c e) : ∀ p, Rel c p = true → RulesE p e := by
  induction h with
  | int => intro p _; exact .int
  | char => intro p _; exact .char
  | str => intro p _; exact .str
  | bool => intro p _; exact .bool
  | var => intro p _; exact .var
  | arrlit _ ih => intro p hr; exact .arrlit (fun a ha => ih a ha p hr)
  | call _ hfl _ ih =>
    intro p hr
    exact .call (by rw [← (rel_facts hr).2.1]; exact hfl) (fun a ha => ih a ha p hr)
  | len _ ih => intro p hr; exact .len (ih p hr)
  | index _ _ ih1 ih2 => intro p hr; exact .index (ih1 p hr) (ih2 p hr)
  | un _ ih => intro p hr; exact .un (ih p hr)
  | is_ _ _ ih => intro p hr; exact .is_ (ih p hr)
  | bin _ _ _ ih1 ih2 => intro p hr; exact .bin (ih1 p hr) (ih2 p hr)
  | spec hy _ _ ih1 ih2 =>
    intro p hr
    have hf := rel_facts hr
    have hs := ((rel_steps _ hf.1 p (mem_allPos p) hr).2.2.2.2.1 hy).2.2
    exact .spec (by rw [← hf.2.2.1]; exact hy) (ih1 _ hs) (ih2 _ hs)

theorem rulesS_of_ok {c : Nat} {s : PStmt} (h : OkS c s) : ∀ p, Rel c p = true → RulesS p s := by
  induction h with
  | expr he => intro p hr; exact .expr (rulesE_of_ok he p hr)
  | decl he _ => intro p hr; exact .decl (rulesE_of_ok he p hr)
  | vla he _ => intro p hr; exact .vla (rulesE_of_ok he p hr)
  | assign h1 h2 => intro p hr; exact .assign (rulesE_of_ok h1 p hr) (rulesE_of_ok h2 p hr)
  | incassign h1 h2 _ => intro p hr; exact .incassign (rulesE_of_ok h1 p hr) (rulesE_of_ok h2 p hr)
  | ret he => intro p hr; exact .ret (fun e h => rulesE_of_ok (he e h) p hr)
  | brk hl => intro p hr; exact .brk (by rw [← (rel_facts hr).2.2.2.2]; exact hl)
  | cont hl => intro p hr; exact .cont (by rw [← (rel_facts hr).2.2.2.2]; exact hl)
  | block _ ih => intro p hr; exact .block (fun a ha => ih a ha p hr)
  | ifb hc _ _ _ _ ih1 ih2 =>
    intro p hr
    have hst := rel_steps _ (rel_facts hr).1 p (mem_allPos p) hr
    exact .ifb (rulesE_of_ok hc p hr) (ih1 p hst.1) (ih2 p hst.2.1)
  | loop hc _ _ _ _ ih1 ih2 =>
    intro p hr
    have hst := rel_steps _ (rel_facts hr).1 p (mem_allPos p) hr
    exact .loop (rulesE_of_ok hc p hr) (ih1 _ hst.2.2.1) (ih2 p hr)
  | tryb hy _ _ _ _ ih1 ih2 =>
    intro p hr
    have hf := rel_facts hr
    have hst := (rel_steps _ hf.1 p (mem_allPos p) hr).2.2.2.2.1 hy
    exact .tryb (by rw [← hf.2.2.1]; exact hy) (ih1 _ hst.1) (ih2 p hst.2.1)
  | preempt hd _ _ ih =>
    intro p hr
    have hf := rel_facts hr
    have hst := (rel_steps _ hf.1 p (mem_allPos p) hr).2.2.2.2.2 hd
    exact .preempt (by rw [← hf.2.2.2.1]; exact hd) (ih p hst)

/-- the position a function body starts in -/
def startPos : Flavor → Pos
  | .you => ⟨.you, false, false, false⟩ | .defeat => ⟨.defeat, false, false, false⟩ | .none => ⟨.ordinary, false, false, false⟩

/-- **C06, soundness**: every program the parser accepts respects the documented flavour and context
rules — in every function body, and in every global initialiser (which may contain no call at all) -/
theorem accepted_respects_rules (src : List Line) (p : PProgram) (h : parse src = .ok p) :
    (∀ f ∈ p.funcs, RulesS (startPos f.fl) f.body) ∧ (∀ v ∈ p.vars, RulesS ⟨.global, false, false, false⟩ v) := by
  have ok := parse_sound src p h
  refine ⟨fun f hf => ?_, fun v hv => rulesS_of_ok (ok.vars v hv) _ rel_start.2.2.2⟩
  have := ok.funcs f hf
  cases hfl : f.fl <;> rw [hfl] at this
  · exact rulesS_of_ok this _ rel_start.2.2.1
  · exact rulesS_of_ok this _ rel_start.1
  · exact rulesS_of_ok this _ rel_start.2.1

end HidVerif.Hid.Parse
