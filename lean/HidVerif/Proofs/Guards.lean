import HidVerif.Proofs.Templates
/-!
# The runtime checks are exact (C05), pure observers (C15) and safe (C04) — template level
-/
namespace HidVerif.Sphinx
open HidVerif HidVerif.PSys HidVerif.Gen HidVerif.Compiler

section
variable {p : Prog} {B pc ok : Nat} {m : Mem}

theorem stub_lt {p : Prog} {B : Nat} (hp : Placed p B) (k : Nat) (hk : k ≤ stdlibLength) : B + k < 256 ^ p.w :=
  hp.lt k hk

/-- **division guard**: passes (memory untouched) iff the divisor is non-zero; otherwise
exactly `division_by_zero`, `error`, and nothing else ever -/
theorem div_guard_exact (hp : Placed p B) {b : Arg} {y : Nat}
    (h : PlacedAt p pc (divGuard ok b (B + off_division_by_zero))) (hok : ok < 256 ^ p.w)
    (hb : ∀ pc', evalArg p ⟨pc', m⟩ b = some y) :
    (y ≠ 0 → Reach (sphinx p) ⟨pc, m⟩ [] ⟨ok, m⟩) ∧
    (y = 0 → Exec (sphinx p) ⟨pc, m⟩ [Ev.flag "division_by_zero", Ev.flag "error"] ⟨tntPc B, m⟩ ∧
              ¬ Halts (sphinx p) ⟨pc, m⟩) := by
  have hz : ∀ pc', evalArg p ⟨pc', m⟩ (.imm 0) = some 0 := fun _ => by simp [evalArg]
  constructor
  · intro hy
    exact guard_pass h hok hb hz (by simp [haltCond, hy])
  · intro hy
    have hst := stub_lt hp off_division_by_zero (by simp [off_division_by_zero, stdlibLength])
    have hnh := (terminal_never_halts hp m).2.2.2.1
    obtain ⟨e, hn⟩ := guard_fail h hok hst hb hz (by simp [haltCond, hy]) hnh
    have r := (error_stub_reach hp m).2.1
    have t := tnt_never_halts hp m
    exact ⟨by simpa using exec_trans e (r.exec t).1, hn⟩

/-- **index guard**: passes iff `0 ≤ idx < len` (signed reading, `len` non-negative); otherwise
exactly `out_of_bounds`, `error`; in both cases no load or store has been executed -/
theorem index_guard_exact (hp : Placed p B) {ia la : Arg} {idx len : Nat}
    (h : PlacedAt p pc (indexGuard ok ia la (B + off_out_of_bounds))) (hok : ok < 256 ^ p.w)
    (hi : ∀ pc', evalArg p ⟨pc', m⟩ ia = some idx) (hl : ∀ pc', evalArg p ⟨pc', m⟩ la = some len)
    (hlen : len < 256 ^ p.w / 2) (hidx : idx < 256 ^ p.w) :
    ((0 ≤ toS (256 ^ p.w) idx ∧ toS (256 ^ p.w) idx < (len : Int)) → Reach (sphinx p) ⟨pc, m⟩ [] ⟨ok, m⟩) ∧
    (¬ (0 ≤ toS (256 ^ p.w) idx ∧ toS (256 ^ p.w) idx < (len : Int)) →
        Exec (sphinx p) ⟨pc, m⟩ [Ev.flag "out_of_bounds", Ev.flag "error"] ⟨tntPc B, m⟩ ∧
        ¬ Halts (sphinx p) ⟨pc, m⟩) := by
  have ar := index_guard_arith hlen hidx
  constructor
  · intro hin
    exact guard_pass h hok hi hl (by simp [haltCond, ar.2 hin])
  · intro hout
    have hst := stub_lt hp off_out_of_bounds (by simp [off_out_of_bounds, stdlibLength])
    have hnh := (terminal_never_halts hp m).2.2.2.2.1
    have : ¬ idx < len := fun hh => hout (ar.1 hh)
    obtain ⟨e, hn⟩ := guard_fail h hok hst hi hl (by simp [haltCond, this]) hnh
    have r := (error_stub_reach hp m).2.2.1
    have t := tnt_never_halts hp m
    exact ⟨by simpa using exec_trans e (r.exec t).1, hn⟩

/-- **length guard** of a dynamic array: passes iff the length is at most `maxLen`; otherwise
exactly `stack_overflow`, `error` -/
theorem length_guard_exact (hp : Placed p B) {la : Arg} {len maxLen : Nat}
    (h : PlacedAt p pc (lengthGuard ok la maxLen (B + off_stack_overflow))) (hok : ok < 256 ^ p.w)
    (hl : ∀ pc', evalArg p ⟨pc', m⟩ la = some len) (hmx : maxLen < 256 ^ p.w) :
    (len ≤ maxLen → Reach (sphinx p) ⟨pc, m⟩ [] ⟨ok, m⟩) ∧
    (¬ len ≤ maxLen → Exec (sphinx p) ⟨pc, m⟩ [Ev.flag "stack_overflow", Ev.flag "error"] ⟨tntPc B, m⟩ ∧
        ¬ Halts (sphinx p) ⟨pc, m⟩) := by
  have hmxe : ∀ pc', evalArg p ⟨pc', m⟩ (.imm maxLen) = some maxLen := fun _ => by
    simp [evalArg, Prog.M, Nat.mod_eq_of_lt hmx]
  constructor
  · intro hle
    exact guard_pass h hok hl hmxe (by simp [haltCond, hle])
  · intro hgt
    have hst := stub_lt hp off_stack_overflow (by simp [off_stack_overflow, stdlibLength])
    have hnh := (terminal_never_halts hp m).2.2.1
    obtain ⟨e, hn⟩ := guard_fail h hok hst hl hmxe (by simp [haltCond, hgt]) hnh
    have r := (error_stub_reach hp m).1
    have t := tnt_never_halts hp m
    exact ⟨by simpa using exec_trans e (r.exec t).1, hn⟩
end

/-! ## the stack guards -/

/-- free space computed by `sub [r1], [fp], [ap]` -/
theorem gap_arith {M fp ap : Nat} (h : ap ≤ fp) (hfp : fp < M) : (fp + M - ap % M) % M = fp - ap := by
  rw [Nat.mod_eq_of_lt (by omega : ap < M)]
  have : fp + M - ap = (fp - ap) + M := by omega
  rw [this, Nat.add_mod_right]; exact Nat.mod_eq_of_lt (by omega)

/-- **function-entry guard**: with `ap ≤ fp` it passes iff `k` more bytes fit below `fp`
(`ap + k ≤ fp`); when it passes memory is untouched — the scratch subtraction into `r1` sits on
the path not taken and is never committed -/
theorem entry_guard_exact {p : Prog} {B pc ok k : Nat} {m : Mem} (hp : Placed p B)
    (h : PlacedAt p pc (entryGuard p.w ok k (B + off_stack_overflow))) (hok : ok < 256 ^ p.w)
    (hsz : 5 * p.w ≤ m.size) (hk : k < 256 ^ p.w)
    {fp ap : Nat} (hfp : m.readLE p.w p.w = fp) (hap : m.readLE 0 p.w = ap) (hle : ap ≤ fp) :
    (ap + k ≤ fp → Reach (sphinx p) ⟨pc, m⟩ [] ⟨ok, m⟩) ∧
    (¬ ap + k ≤ fp → ∃ m', Exec (sphinx p) ⟨pc, m⟩ [Ev.flag "stack_overflow", Ev.flag "error"] ⟨tntPc B, m'⟩ ∧
        ¬ Halts (sphinx p) ⟨pc, m⟩) := by
  have hw := hp.hw
  have hM := pow_ge2 p.w hw
  have h64 := mul_w_lt_pow p.w hw
  have c0 := h 0 (by simp [entryGuard]); have c1 := h 1 (by simp [entryGuard])
  have c2 := h 2 (by simp [entryGuard]); have c3 := h 3 (by simp [entryGuard])
  have c4 := h 4 (by simp [entryGuard])
  simp only [entryGuard, List.getElem_cons_succ, List.getElem_cons_zero, Nat.add_zero] at c0 c1 c2 c3 c4
  have hfpM : fp < 256 ^ p.w := by rw [← hfp]; exact Mem.readLE_lt _ _ _
  have s0 := step_j (m := m) c0 (ev_imm ok)
  rw [show ok % p.M = ok from Nat.mod_eq_of_lt (by unfold Prog.M; exact hok)] at s0
  have e_fp : evalArg p ⟨pc + 1, m⟩ (.st p.w) = some fp := by
    rw [ev_st (by unfold Prog.M; omega) (by omega), hfp]
  have e_ap : evalArg p ⟨pc + 1, m⟩ (.st 0) = some ap := by
    rw [ev_st (by unfold Prog.M; omega) (by omega), hap]
  have s1 := step_alu (m := m) c1 e_fp e_ap (r := (fp + p.M - ap % p.M) % p.M) rfl (by unfold Prog.M; omega) (by omega)
  rw [show (fp + p.M - ap % p.M) % p.M = fp - ap from by unfold Prog.M; exact gap_arith hle hfpM] at s1
  generalize hm1 : m.writeLE (3 * p.w) p.w (fp - ap) = m1 at *
  have hr1 : m1.readLE (3 * p.w) p.w = fp - ap := by
    rw [← hm1, Mem.readLE_writeLE_same _ _ _ _ (by omega)]; exact Nat.mod_eq_of_lt (by omega)
  have e_r1 : evalArg p ⟨pc + 2, m1⟩ (.st (3 * p.w)) = some (fp - ap) := by
    rw [ev_st (by unfold Prog.M; omega) (by rw [← hm1]; simp; omega), hr1]
  have s2 := step_hcond (m := m1) c2 e_r1 (ev_imm k)
  simp only [haltCond, Prog.M, Nat.mod_eq_of_lt hk] at s2
  constructor
  · intro hfit
    have : fp - ap ≥ k := by omega
    simp only [this, decide_true, if_true] at s2
    have ha : Halts (sphinx p) ⟨pc + 1, m⟩ :=
      Halts.next (sys := sphinx p) s1 (Halts.halt (sys := sphinx p) s2)
    exact Reach.jump_taken' (sys := sphinx p) s0 ha
  · intro hno
    have : ¬ fp - ap ≥ k := by omega
    simp only [this, decide_false, Bool.false_eq_true, if_false] at s2
    have hst := stub_lt hp off_stack_overflow (by simp [off_stack_overflow, stdlibLength])
    have s3 := step_j (m := m1) c3 (ev_imm (B + off_stack_overflow))
    rw [show (B + off_stack_overflow) % p.M = B + off_stack_overflow from
      Nat.mod_eq_of_lt (by unfold Prog.M; exact hst)] at s3
    have s4 := step_halt (m := m1) c4
    have hnh := (terminal_never_halts hp m1).2.2.1
    have r := (error_stub_reach hp m1).1
    have t := tnt_never_halts hp m1
    have r14 : Reach (sphinx p) ⟨pc + 1, m⟩ [] ⟨B + off_stack_overflow, m1⟩ := by
      have := (Reach.of_next (sys := sphinx p) s1).trans ((Reach.of_next (sys := sphinx p) s2).trans
        (Reach.jump_taken (sys := sphinx p) s3 s4))
      simpa [evl] using this
    have hn1 : ¬ Halts (sphinx p) ⟨pc + 1, m⟩ := (r14.exec hnh).2
    have r0 : Reach (sphinx p) ⟨pc, m⟩ [] ⟨pc + 1, m⟩ :=
      Reach.jump_not_taken (sys := sphinx p) s0 (fun hh => absurd hh hn1)
    have all := ((r0.trans r14).trans r).exec t
    exact ⟨m1, by simpa using all.1, all.2⟩

end HidVerif.Sphinx
