import HidVerif.Gen.Tables
import HidVerif.Hid.Machine
/-!
# The generator's operator tables mean what the source semantics says (for all `w`, all values)
-/
namespace HidVerif.Sphinx
open HidVerif HidVerif.Gen HidVerif.Hid

/-- the logical negation of each conditional halt -/
def invOf : HaltOp → HaltOp
  | .heq => .hne | .hne => .heq | .hlt => .hge | .hge => .hlt | .hgt => .hle | .hle => .hgt
  | .hltu => .hgeu | .hgeu => .hltu | .hgtu => .hleu | .hleu => .hgtu

theorem invOf_correct (M : Nat) (c : HaltOp) (a b : Nat) :
    haltCond M (invOf c) a b = !haltCond M c a b := by
  cases c
  case heq => simp [invOf, haltCond, bne]
  case hne => simp [invOf, haltCond, bne]
  all_goals simp [invOf, haltCond, ← decide_not, Int.not_lt, Int.not_le, Nat.not_lt, Nat.not_le]

/-- `halt_inversion` in the source is exactly logical negation, on all ten conditional halts -/
theorem haltInversion_is_invOf : ∀ pr ∈ haltInversion, pr.2 = invOf pr.1 := by decide

theorem haltInversion_total : ∀ c : HaltOp, ∃ c', (c, c') ∈ haltInversion := by
  intro c; cases c <;> simp [haltInversion]

/-- for every entry of the regenerated table, the halt at the branch target fires exactly when
the halt after the jump does not — for every word size and all operand values -/
theorem halt_inversion_sound (M : Nat) (a b : Nat) :
    ∀ pr ∈ haltInversion, haltCond M pr.2 a b = !haltCond M pr.1 a b := by
  intro pr hpr
  rw [haltInversion_is_invOf pr hpr]; exact invOf_correct M pr.1 a b

theorem env_toS (E : Env) (x : Nat) : E.toS x = toS E.M x := by
  unfold Env.toS toS Env.H; rfl

/-- `compare_map`: the conditional halt chosen for a comparison fires iff the comparison holds
in the reference semantics (signed reading) -/
theorem compare_map_sound (E : Env) (a b : Nat) :
    ∀ pr ∈ compareMap, (Hid.binArith E pr.1 a b = some 1 ↔ haltCond E.M pr.2 a b = true) ∧
      (Hid.binArith E pr.1 a b = some 1 ∨ Hid.binArith E pr.1 a b = some 0) := by
  intro pr hpr
  simp only [compareMap, List.mem_cons, List.mem_nil_iff, or_false] at hpr
  rcases hpr with rfl | rfl | rfl | rfl | rfl | rfl <;>
    simp only [Hid.binArith, haltCond, env_toS] <;>
    (constructor
     · split <;> simp_all
     · split <;> simp_all)

/-- `arith_map`: the ALU instruction chosen for an arithmetic operator computes what the
reference semantics says, including the division-by-zero case -/
theorem arith_map_sound (E : Env) (a b : Nat) :
    ∀ pr ∈ arithMap, Hid.binArith E pr.1 a b = aluOp E.M (8 * E.w) pr.2 a b := by
  intro pr hpr
  simp only [arithMap, List.mem_cons, List.mem_nil_iff, or_false] at hpr
  rcases hpr with rfl | rfl | rfl | rfl | rfl <;>
    simp [Hid.binArith, aluOp, env_toS, Env.wrap, wrapI]

end HidVerif.Sphinx
