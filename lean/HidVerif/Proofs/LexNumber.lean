import HidVerif.Proofs.LexInt
import HidVerif.Proofs.LexLayout
/-!
# C12 (v, vi) continued: integer literals are layout pieces

`selfDelim_decimal`: an ASCII digit followed by ASCII digits, each optionally preceded by a single
underscore, read in front of white space or the end of the line, is exactly one `int` token with the
positional value of its digits and covers exactly its text.  `selfDelim_prefixed`: the same for
`0x…`, `0o…`, `0b…` literals.
-/
namespace HidVerif.Hid.Lex
open HidVerif.Gen

def asciiDigit (c : CP) : Prop := 48 ≤ c ∧ c ≤ 57

instance (c : CP) : Decidable (asciiDigit c) := by unfold asciiDigit; infer_instance

theorem digitVal_ascii (c : CP) (h : asciiDigit c) : digitVal c = some (c - 48) := by
  obtain ⟨h1, h2⟩ := h
  unfold digitVal digitRanges
  rw [List.find?_cons_of_pos (by simp [h1, h2])]
  simp

theorem space_digit_disjoint : ∀ a ∈ spaceRanges, ∀ b ∈ digitRanges, a.2 < b.1 ∨ b.2.1 < a.1 := by decide +kernel

theorem digitVal_space (c : CP) (h : isSpace c = true) : digitVal c = none := by
  unfold digitVal
  have : digitRanges.find? (fun (lo, hi, _) => lo ≤ c && c ≤ hi) = none := by
    rw [List.find?_eq_none]
    intro b hb hp
    unfold isSpace inRanges at h
    simp only [List.any_eq_true, Bool.and_eq_true, decide_eq_true_eq] at h
    obtain ⟨a, ha, h1, h2⟩ := h
    have hd := space_digit_disjoint a ha b hb
    simp only [Bool.and_eq_true, decide_eq_true_eq] at hp
    have h1' : @LE.le Nat _ a.1 c := h1
    have h2' : @LE.le Nat _ c a.2 := h2
    have h3' : @LE.le Nat _ b.1 c := hp.1
    have h4' : @LE.le Nat _ c b.2.1 := hp.2
    omega
  rw [this]; rfl

theorem space_low (c : CP) (h : isSpace c = true) : @LT.lt Nat _ c 65 ∨ @LT.lt Nat _ 122 c := by
  unfold isSpace inRanges at h
  simp only [List.any_eq_true, Bool.and_eq_true, decide_eq_true_eq] at h
  obtain ⟨a, ha, h1, h2⟩ := h
  have := space_ranges_low a ha
  have h1' : @LE.le Nat _ a.1 c := h1
  have h2' : @LE.le Nat _ c a.2 := h2
  omega

theorem digit_not_space (c : CP) (h : asciiDigit c) : isSpace c = false := by
  cases hs : isSpace c with
  | false => rfl
  | true => have := digitVal_space c hs; rw [digitVal_ascii c h] at this; cases this

theorem stops_digit (rest : Line) (h : StartsSpace rest) : Stops digitVal rest := by
  rcases h with rfl | ⟨c, r, rfl, hc⟩
  · trivial
  · refine ⟨digitVal_space c hc, fun h95 => ?_⟩
    have := space_low c hc
    have h' : @Eq Nat c 95 := h95
    omega

theorem symbols_head_not_digit : ∀ s ∈ symbolTokens, ∀ c ∈ (cps s).head?, c < 48 ∨ 57 < c := by decide

theorem readSymbol_digit (c : CP) (l : Line) (hc : asciiDigit c) : readSymbol (c :: l) = none := by
  unfold readSymbol
  have : symbolTokens.find? (fun s => isPrefix (cps s) (c :: l)) = none := by
    rw [List.find?_eq_none]
    intro s hs hp
    unfold isPrefix at hp
    have heq := eq_of_beq hp
    cases hcs : cps s with
    | nil => exact absurd hcs (symbols_shape s hs).1
    | cons d r =>
      have hd := symbols_head_not_digit s hs d (by rw [hcs]; rfl)
      rw [hcs] at heq
      simp only [List.length_cons, List.take_succ_cons] at heq
      injection heq with h1 _
      obtain ⟨h2, h3⟩ := hc
      have h2' : @LE.le Nat _ 48 d := by rw [← h1]; exact h2
      have h3' : @LE.le Nat _ d 57 := by rw [← h1]; exact h3
      have hd' : @LT.lt Nat _ d 48 ∨ @LT.lt Nat _ 57 d := hd
      omega
  rw [this]; rfl

theorem idstart_digit (c : CP) (hc : asciiDigit c) : isIdStart c = false := by
  obtain ⟨h1, h2⟩ := hc
  unfold isIdStart
  have h1' : @LE.le Nat _ 48 c := h1
  have h2' : @LE.le Nat _ c 57 := h2
  simp only [Bool.or_eq_false_iff, Bool.and_eq_false_iff, decide_eq_false_iff_not, beq_eq_false_iff_ne]
  refine ⟨⟨Or.inl (fun h => ?_), Or.inl (fun h => ?_)⟩, fun h => ?_⟩
  · have : @LE.le Nat _ 97 c := h; omega
  · have : @LE.le Nat _ 65 c := h; omega
  · have : @Eq Nat c 95 := h; omega

theorem readIdent_digit (c : CP) (l : Line) (hc : asciiDigit c) : readIdent (c :: l) = .none := by
  have h64 : c ≠ 64 := fun h => by rw [h] at hc; exact absurd hc.2 (by decide)
  have h33 : c ≠ 33 := fun h => by rw [h] at hc; exact absurd hc.1 (by decide)
  unfold readIdent
  split
  · rename_i r' h; injection h with h1 _; exact absurd h1 h64
  · rename_i r' h; injection h with h1 _; exact absurd h1 h33
  · simp only [matchIdent, idstart_digit c hc]; rfl

/-- no base prefix: the reader falls through to the decimal class -/
theorem readInt_decimal (l : Line) (h : ∀ q r, l = 48 :: q :: r → q ≠ 120 ∧ q ≠ 111 ∧ q ≠ 98) :
    readInt l = (let (ds, n) := digitsSep digitVal l; if n == 0 then none else some (ofDigits 10 ds, n)) := by
  unfold readInt
  match l, h with
  | [], _ => rfl
  | [a], _ => (by_cases ha : a = 48 <;> simp [ha])
  | a :: q :: r, h =>
    by_cases ha : a = 48
    · subst ha
      obtain ⟨h1, h2, h3⟩ := h q r rfl
      simp [h1, h2, h3]
    · simp [ha]

theorem tail_head (tl : List (Bool × CP)) (htl : ∀ x ∈ tl, asciiDigit x.2) (rest : Line) (hrest : StartsSpace rest) :
    ∀ q r, renderTail tl ++ rest = q :: r → q ≠ 120 ∧ q ≠ 111 ∧ q ≠ 98 := by
  intro q r h
  have key : @LT.lt Nat _ q 98 ∨ @LT.lt Nat _ 122 q := by
    cases tl with
    | nil =>
      simp only [renderTail, List.nil_append] at h
      rcases hrest with rfl | ⟨c, r', rfl, hc⟩
      · cases h
      · injection h with h1 _
        have := space_low c hc
        rw [← h1]; omega
    | cons x tl =>
      obtain ⟨sep, c⟩ := x
      have hc := htl (sep, c) (by simp)
      cases sep with
      | true =>
        simp only [renderTail, if_true, List.cons_append] at h
        injection h with h1 _
        have : @Eq Nat 95 q := h1
        omega
      | false =>
        simp only [renderTail, Bool.false_eq_true, if_false, List.cons_append] at h
        injection h with h1 _
        have h2 : @LE.le Nat _ c 57 := hc.2
        have : @Eq Nat c q := h1
        omega
  refine ⟨fun h => ?_, fun h => ?_, fun h => ?_⟩ <;> (have : @Eq Nat q _ := h; omega)

/-- **decimal literals are pieces**: an ASCII digit, then ASCII digits each optionally preceded by one
underscore, is exactly one `int` token with the positional value of the digits -/
theorem selfDelim_decimal (c0 : CP) (tl : List (Bool × CP)) (h0 : asciiDigit c0) (htl : ∀ x ∈ tl, asciiDigit x.2) :
    SelfDelim (c0 :: renderTail tl) (.int (ofDigits 10 ((c0 - 48) :: tl.map (fun x => x.2 - 48)))) := by
  refine ⟨by simp, fun c r h => by injection h with h1 _; rw [← h1]; exact digit_not_space c0 h0,
    fun r h => by
      injection h with h1 _
      rw [h1] at h0; exact absurd h0.1 (by decide), fun rest hrest => ?_⟩
  unfold readToken
  rw [List.cons_append, readSymbol_digit c0 _ h0]
  simp only [readIdent_digit c0 _ h0]
  have hq : ∀ q r, c0 :: (renderTail tl ++ rest) = 48 :: q :: r → q ≠ 120 ∧ q ≠ 111 ∧ q ≠ 98 := by
    intro q r h
    injection h with _ h2
    exact tail_head tl htl rest hrest q r h2
  rw [readInt_decimal _ hq]
  have hspec := digitsSep_spec digitVal (by decide +kernel) c0 (c0 - 48) (digitVal_ascii c0 h0) tl (fun c => c - 48)
    (fun x hx => digitVal_ascii x.2 (htl x hx)) rest (stops_digit rest hrest)
  rw [← List.cons_append, hspec]
  simp [Nat.add_comm]

/-! ## literals with a base prefix -/

theorem readInt_hex (r : Line) (ds : List Nat) (n : Nat) (h : digitsSep hexVal r = (ds, n)) (hn : n ≠ 0) :
    readInt (48 :: 120 :: r) = some (ofDigits 16 ds, n + 2) := by
  unfold readInt
  simp [h, hn]

theorem readInt_oct (r : Line) (ds : List Nat) (n : Nat) (h : digitsSep (asciiIn 48 55) r = (ds, n)) (hn : n ≠ 0) :
    readInt (48 :: 111 :: r) = some (ofDigits 8 ds, n + 2) := by
  unfold readInt
  simp [h, hn]

theorem readInt_bin (r : Line) (ds : List Nat) (n : Nat) (h : digitsSep (asciiIn 48 49) r = (ds, n)) (hn : n ≠ 0) :
    readInt (48 :: 98 :: r) = some (ofDigits 2 ds, n + 2) := by
  unfold readInt
  simp [h, hn]

theorem hexVal_space (c : CP) (h : isSpace c = true) : hexVal c = none := by
  unfold hexVal
  rw [digitVal_space c h]
  have := space_low c h
  have h1 : ¬ (@LE.le Nat _ 97 c ∧ @LE.le Nat _ c 102) := by omega
  have h2 : ¬ (@LE.le Nat _ 65 c ∧ @LE.le Nat _ c 70) := by omega
  simp only [Bool.and_eq_true, decide_eq_true_eq]
  rw [if_neg h1, if_neg h2]

theorem asciiIn_space (hi : Nat) (hhi : hi ≤ 57) (c : CP) (h : isSpace c = true) : asciiIn 48 hi c = none := by
  unfold asciiIn
  have : ¬ (@LE.le Nat _ 48 c ∧ @LE.le Nat _ c hi) := by
    intro ⟨h1, h2⟩
    have := digit_not_space c ⟨h1, by have : @LE.le Nat _ c 57 := Nat.le_trans h2 hhi; exact this⟩
    rw [h] at this; cases this
  simp only [Bool.and_eq_true, decide_eq_true_eq]
  rw [if_neg this]

theorem stops_of_space (isD : CP → Option Nat) (hsp : ∀ c, isSpace c = true → isD c = none) (rest : Line) (h : StartsSpace rest) :
    Stops isD rest := by
  rcases h with rfl | ⟨c, r, rfl, hc⟩
  · trivial
  · refine ⟨hsp c hc, fun h95 => ?_⟩
    have := space_low c hc
    have h' : @Eq Nat c 95 := h95
    omega

/-- the common part: `0`, a base letter, a digit of the class, then digits with optional single underscores -/
theorem selfDelim_prefixed (p : CP) (isD : CP → Option Nat) (base : Nat) (hus : isD 95 = none)
    (hsp : ∀ c, isSpace c = true → isD c = none)
    (hread : ∀ r ds n, digitsSep isD r = (ds, n) → n ≠ 0 → readInt (48 :: p :: r) = some (ofDigits base ds, n + 2))
    (d0 : CP) (v0 : Nat) (h0 : isD d0 = some v0) (tl : List (Bool × CP)) (val : CP → Nat)
    (hv : ∀ x ∈ tl, isD x.2 = some (val x.2)) :
    SelfDelim (48 :: p :: d0 :: renderTail tl) (.int (ofDigits base (v0 :: tl.map (fun x => val x.2)))) := by
  have h48 : asciiDigit 48 := ⟨Nat.le_refl _, by decide⟩
  refine ⟨by simp, fun c r h => by injection h with h1 _; rw [← h1]; exact digit_not_space 48 h48,
    fun r h => (by injection h with h1 _; exact absurd h1 (by decide)), fun rest hrest => ?_⟩
  unfold readToken
  rw [List.cons_append, readSymbol_digit 48 _ h48]
  simp only [readIdent_digit 48 _ h48]
  have hspec := digitsSep_spec isD hus d0 v0 h0 tl val hv rest (stops_of_space isD hsp rest hrest)
  rw [List.cons_append, List.cons_append, ← List.cons_append, hread _ _ _ hspec (by omega)]
  simp only [List.length_cons]
  congr 1
  omega

theorem selfDelim_hex (d0 : CP) (v0 : Nat) (h0 : hexVal d0 = some v0) (tl : List (Bool × CP)) (val : CP → Nat)
    (hv : ∀ x ∈ tl, hexVal x.2 = some (val x.2)) :
    SelfDelim (48 :: 120 :: d0 :: renderTail tl) (.int (ofDigits 16 (v0 :: tl.map (fun x => val x.2)))) :=
  selfDelim_prefixed 120 hexVal 16 (by decide +kernel) hexVal_space readInt_hex d0 v0 h0 tl val hv

theorem selfDelim_oct (d0 : CP) (v0 : Nat) (h0 : asciiIn 48 55 d0 = some v0) (tl : List (Bool × CP)) (val : CP → Nat)
    (hv : ∀ x ∈ tl, asciiIn 48 55 x.2 = some (val x.2)) :
    SelfDelim (48 :: 111 :: d0 :: renderTail tl) (.int (ofDigits 8 (v0 :: tl.map (fun x => val x.2)))) :=
  selfDelim_prefixed 111 (asciiIn 48 55) 8 (by decide) (asciiIn_space 55 (by decide)) readInt_oct d0 v0 h0 tl val hv

theorem selfDelim_bin (d0 : CP) (v0 : Nat) (h0 : asciiIn 48 49 d0 = some v0) (tl : List (Bool × CP)) (val : CP → Nat)
    (hv : ∀ x ∈ tl, asciiIn 48 49 x.2 = some (val x.2)) :
    SelfDelim (48 :: 98 :: d0 :: renderTail tl) (.int (ofDigits 2 (v0 :: tl.map (fun x => val x.2)))) :=
  selfDelim_prefixed 98 (asciiIn 48 49) 2 (by decide) (asciiIn_space 49 (by decide)) readInt_bin d0 v0 h0 tl val hv

end HidVerif.Hid.Lex
