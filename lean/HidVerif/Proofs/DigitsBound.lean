import HidVerif.Proofs.WriteIntFull
/-!
# How many decimal digits a word needs

`hidc` reserves `(8w-1)·30103/100000 + 1` bytes for the digits of `write(int)`.  This is enough
for every `w`: `2^k < 10^(k·30103/100000 + 1)` because `2^100000 < 10^30103`.
-/
namespace HidVerif.Sphinx

theorem digits_len_pow (d : Nat) : ∀ n, n < 10 ^ (d + 1) → (digits n).length ≤ d + 1 := by
  induction d with
  | zero => intro n h; rw [digits_lt n (by simpa using h)]; simp
  | succ d ih =>
    intro n h
    by_cases h10 : n < 10
    · rw [digits_lt n h10]; simp
    · rw [digits_ge n h10]
      have : n / 10 < 10 ^ (d + 1) := by
        rw [Nat.pow_succ] at h; omega
      have := ih (n / 10) this
      simp; omega

theorem two_pow_100000 : (2 : Nat) ^ 100000 < 10 ^ 30103 := by decide +kernel

theorem pow2_lt_pow10 (k : Nat) : 2 ^ k < 10 ^ (k * 30103 / 100000 + 1) := by
  have h1 : (2 ^ k) ^ 100000 < (10 ^ (k * 30103 / 100000 + 1)) ^ 100000 := by
    calc (2 ^ k) ^ 100000 = (2 ^ 100000) ^ k := by rw [← Nat.pow_mul, ← Nat.pow_mul, Nat.mul_comm]
      _ ≤ (10 ^ 30103) ^ k := Nat.pow_le_pow_left (Nat.le_of_lt two_pow_100000) k
      _ = 10 ^ (30103 * k) := by rw [← Nat.pow_mul]
      _ < 10 ^ ((k * 30103 / 100000 + 1) * 100000) := Nat.pow_lt_pow_right (by decide) (by omega)
      _ = (10 ^ (k * 30103 / 100000 + 1)) ^ 100000 := by rw [Nat.pow_mul]
  exact (Nat.pow_lt_pow_iff_left (by decide)).1 h1

/-- the digit buffer `hidc` accounts for is long enough for every word value -/
theorem digits_absW_le (w : Nat) (hw : 1 ≤ w) (v : Nat) (hv : v < 256 ^ w) :
    (digits (absW (256 ^ w) v)).length ≤ (8 * w - 1) * 30103 / 100000 + 1 := by
  have hM : 256 ^ w = 2 * 2 ^ (8 * w - 1) := by
    have : 256 ^ w = 2 ^ (8 * w) := by rw [show (256 : Nat) = 2 ^ 8 from rfl, ← Nat.pow_mul]
    rw [this, show 8 * w = (8 * w - 1) + 1 by omega, Nat.pow_succ]; simp; omega
  have habs : absW (256 ^ w) v ≤ 2 ^ (8 * w - 1) := by
    unfold absW; split <;> omega
  have hlt := pow2_lt_pow10 (8 * w - 1)
  by_cases he : absW (256 ^ w) v = 2 ^ (8 * w - 1)
  · rw [he]; exact digits_len_pow _ _ hlt
  · exact digits_len_pow _ _ (by omega)

end HidVerif.Sphinx
