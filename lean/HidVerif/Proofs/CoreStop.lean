import HidVerif.Proofs.CoreExecDefs
/-!
# Core compiler proofs: `try { … } stop { … }`

The block saves `ap` in a frame slot and `fp` in the word `try_fp`, stores the address of the
handler in the word `defeat`, and asks the machine with one Turing jump whether the body, run with
`defeat = halt`, would halt.  Inside the body `!is_defeat()` is `j [defeat]; halt`.  If the body would
be defeated the jump is taken, the body runs with `defeat = handler`, and the defeat call lands in the
handler with everything the body did still in place; otherwise the body runs in the world in which
every defeat call halts, and none is reached.
-/
namespace HidVerif.Core
open HidVerif HidVerif.PSys HidVerif.Sphinx HidVerif.Gen

section
variable {p : Prog} {ck : Bool} {B : Nat} {dA : Nat} {fa : FAddr} {fns : List FDecl}

theorem halt_at (lib : Placed p B) : p.code[B + off_halt]? = some .halt := by
  have h := lib.win 3 (by simp [code_all_is_win])
  simpa [code_all_is_win, off_halt, Nat.add_assoc] using h

/-- rewriting `fp` or `ap` with the value it has changes nothing that `Keep` looks at -/
theorem keep_reg (m : Mem) (r v a : Nat) (hw : 1 ≤ p.w) (hr : r = 0 ∨ r = p.w) (hv : m.readLE r p.w = v) (hv' : v < 256 ^ p.w)
    (hsz : 2 * p.w ≤ m.size) (ha : 2 * p.w ≤ a) : Keep p.w m (m.writeLE r p.w v) a := by
  have hsame : (m.writeLE r p.w v).readLE r p.w = v := by
    rw [Mem.readLE_writeLE_same _ _ _ _ (by rcases hr with h | h <;> omega)]; exact Nat.mod_eq_of_lt hv'
  refine ⟨by simp, ?_, ?_, fun x hx => Mem.rd_writeLE_other _ _ _ _ _ (by rcases hr with h | h <;> omega)⟩
  · rcases hr with h | h
    · rw [Mem.readLE_writeLE_disj _ _ _ _ _ _ (by omega)]
    · subst h; rw [hsame, hv]
  · rcases hr with h | h
    · subst h; rw [hsame, hv]
    · rw [Mem.readLE_writeLE_disj _ _ _ _ _ _ (by omega)]

theorem tryStop_ok (lib : Placed p B) (fok : FnsOK p ck B dA fa fns) (f : Nat) (ih : StmtOK p ck B dA fa fns f)
    (F D ra : Nat) (hra : ra < 256 ^ p.w) (lp : Jt) (hlp : lp.cont < 256 ^ p.w ∧ lp.brk < 256 ^ p.w) (md : Md) (sb dc : Bool)
    (body handler k : S) (Γ : Gam) (env : Env) (pc o : Nat) (m : Mem) (env' : Env) (tr : List Ev) (res : Res)
    (hpl : PlacedAt p pc (cS (cxOf p ck B dA) fa lp Γ pc o (.tryStop body handler k)))
    (hB : pc + (cS (cxOf p ck B dA) fa lp Γ pc o (.tryStop body handler k)).length ≤ B)
    (hinv : SInv p md Γ env m F D o ra) (hd : Disj p.w Γ) (hwf : wfS fns dc (Γ.map Prod.fst) (.tryStop body handler k) = true)
    (hpk : pkS p.w o (.tryStop body handler k) ≤ D) (ho : p.w ≤ o)
    (hex : exec (256 ^ p.w) (8 * p.w) fns p.w (f + 1) D o env (.tryStop body handler k) = some (env', tr, res))
    (hck : FaultOK ck fns p.w res)
    (hs : Safe p B dA ra lp md sb dc fns Γ env' F D o (pc + (cS (cxOf p ck B dA) fa lp Γ pc o (.tryStop body handler k)).length) m res
      (.tryStop body handler k)) :
    Concl p B ra lp md Γ env' F D o pc (pc + (cS (cxOf p ck B dA) fa lp Γ pc o (.tryStop body handler k)).length) m tr res := by
  have hw := lib.hw
  have h64 := mul_w_lt_pow p.w hw
  have hM := pow_ge2 p.w hw
  have hBM := lib.hB
  have hroom := hinv.fr.room; have htop := hinv.fr.top; have hFM := hinv.fr.lt
  rcases hs with ⟨_, _, h, _⟩ | ⟨hmd, hvd, h1, hst, h2⟩
  · simp [noTry] at h
  · simp only [youLevel, Bool.and_eq_true] at h1
    obtain ⟨⟨⟨hsbT, hntb⟩, hplh⟩, hyk⟩ := h1
    obtain ⟨hdA, hsz, hFM2, hmdw⟩ := hst hsbT
    obtain ⟨_, hdc0, hsf⟩ := hmd
    subst hmdw
    subst hdc0
    simp only [wfS, Bool.and_eq_true, Bool.not_eq_true'] at hwf
    obtain ⟨⟨⟨hapn, hwb⟩, hwh⟩, hwk⟩ := hwf
    simp only [pkS] at hpk
    subst hdA
    simp only [cS, Nat.add_sub_cancel] at hpl hB h2 ⊢
    have hlenB : (cS (cxOf p ck B (F + p.w)) fa { cont := lp.cont, brk := lp.brk, vd := true } (("%ap", o + p.w) :: Γ) (pc + 5)
        (o + p.w) body).length = lenS ck true body := cS_len _ _ _ _ _ _ _
    have hlenH : (cS (cxOf p ck B (F + p.w)) fa lp Γ (pc + 5 + lenS ck true body + 2 + 3) o handler).length = lenS ck lp.vd handler :=
      cS_len _ _ _ _ _ _ _
    generalize hnB : lenS ck true body = nB at *
    generalize hnH : lenS ck lp.vd handler = nH at *
    obtain ⟨hpl12345, hplK⟩ := hpl.append
    obtain ⟨hpl1234, hplH⟩ := hpl12345.append
    obtain ⟨hpl123, hplP⟩ := hpl1234.append
    obtain ⟨hpl12, hplG⟩ := hpl123.append
    obtain ⟨hplA, hplB⟩ := hpl12.append
    simp only [List.length_append, List.length_cons, List.length_nil, hlenB, hlenH, goto_len, ← Nat.add_assoc, Nat.zero_add]
      at hB hplK hplH hplP hplG hplB h2 ⊢
    have c0 := hplA 0 (by simp); have c1 := hplA 1 (by simp); have c2 := hplA 2 (by simp)
    have c3 := hplA 3 (by simp); have c4 := hplA 4 (by simp)
    have d0 := hplP 0 (by simp); have d1 := hplP 1 (by simp); have d2 := hplP 2 (by simp)
    simp only [List.getElem_cons_succ, List.getElem_cons_zero, Nat.add_zero] at c0 c1 c2 c3 c4 d0 d1 d2
    rw [show (cxOf p ck B (F + p.w)).fp = p.w from rfl] at c1 d1
    have hoW : o + p.w ≤ D := by omega
    have hpkB : pkS p.w (o + p.w) body ≤ D := by omega
    have hpkH : pkS p.w o handler ≤ D := by omega
    have hpkK : pkS p.w o k ≤ D := by omega
    have hendM : pc + 5 + nB + 2 + 3 + nH < 256 ^ p.w := by simp [stdlibLength] at hBM; omega
    have hhaltM : B + off_halt < 256 ^ p.w := by simp [stdlibLength, off_halt, off_all_is_win] at hBM ⊢; omega
    have fr := hinv.fr
    -- 0: `ap` goes to the next frame slot
    have e0 : evalArg p ⟨pc, m⟩ (.st 0) = some (5 * p.w) := by
      rw [ev_st (by unfold Prog.M; omega) (by omega), fr.ap]
    have s0 := step_stSlot ck B (o + p.w) (.st 0) (5 * p.w) hw fr c0 e0 (by omega) hoW
    generalize hm1 : m.writeLE (F - (o + p.w)) p.w (5 * p.w) = m1 at s0
    have k1 : Keep p.w m m1 (F - o) := by rw [← hm1]; exact Keep.write _ _ _ _ _ _ (by omega) (by omega)
    have hval1 : m1.readLE (F - (o + p.w)) p.w = 5 * p.w := by
      rw [← hm1, Mem.readLE_writeLE_same _ _ _ _ (by omega)]; exact Nat.mod_eq_of_lt (by omega)
    obtain ⟨hinv1, hd1⟩ := decl_inv hinv hd "%ap" (5 * p.w) k1 hval1 hapn ho
    have fr1 := hinv1.fr
    have hsz1 : m1.size = m.size := k1.size
    -- 1: `fp` goes to `try_fp`
    have e1 : evalArg p ⟨pc + 1, m1⟩ (.st p.w) = some F := by
      rw [ev_st (by unfold Prog.M; omega) (by omega), fr1.fp]
    have s1 := step_mov (m := m1) c1 e1 (by unfold Prog.M; omega) (by omega)
    generalize hm2 : m1.writeLE F p.w F = m2 at s1
    -- 2: the handler address goes to `defeat`
    have s2 := step_mov (m := m2) c2 (ev_imm (pc + 5 + nB + 2)) (by unfold Prog.M; omega) (by rw [← hm2]; simp; omega)
    rw [show (pc + 5 + nB + 2) % p.M = pc + 5 + nB + 2 from Nat.mod_eq_of_lt (by unfold Prog.M; omega)] at s2
    generalize hm3 : m2.writeLE (F + p.w) p.w (pc + 5 + nB + 2) = m3 at s2
    have hsz3 : m3.size = m.size := by rw [← hm3, ← hm2]; simp [hsz1]
    -- 3: the Turing jump over 4: `defeat := halt`
    have s3 := step_j (m := m3) c3 (ev_imm (pc + 5))
    rw [show (pc + 5) % p.M = pc + 5 from Nat.mod_eq_of_lt (by unfold Prog.M; omega)] at s3
    have s4 := step_mov (m := m3) c4 (ev_imm (B + off_halt)) (by unfold Prog.M; omega) (by omega)
    rw [show (B + off_halt) % p.M = B + off_halt from Nat.mod_eq_of_lt (by unfold Prog.M; omega)] at s4
    generalize hm4 : m3.writeLE (F + p.w) p.w (B + off_halt) = m4 at s4
    have r03 : Reach (sphinx p) ⟨pc, m⟩ [] ⟨pc + 3, m3⟩ := by
      have := (Reach.of_next (sys := sphinx p) s0).trans ((Reach.of_next (sys := sphinx p) s1).trans (Reach.of_next (sys := sphinx p) s2))
      simpa [evl] using this
    have r45 : Reach (sphinx p) ⟨pc + 3 + 1, m3⟩ [] ⟨pc + 5, m4⟩ := by
      simpa [evl] using Reach.of_next (sys := sphinx p) s4
    have km3 : Keep p.w m m3 (F + 2 * p.w) := by
      have ka : Keep p.w m m1 (F + 2 * p.w) := k1.mono (by omega)
      have kb : Keep p.w m1 m2 (F + 2 * p.w) := by rw [← hm2]; exact Keep.write _ _ _ _ _ _ (by omega) (by omega)
      have kc : Keep p.w m2 m3 (F + 2 * p.w) := by rw [← hm3]; exact Keep.write _ _ _ _ _ _ (by omega) (by omega)
      exact (ka.trans' kb).trans' kc
    have km4 : Keep p.w m m4 (F + 2 * p.w) := by
      have kd : Keep p.w m3 m4 (F + 2 * p.w) := by rw [← hm4]; exact Keep.write _ _ _ _ _ _ (by omega) (by omega)
      exact km3.trans' kd
    -- the state at the start of the body, whatever `defeat` holds
    have mk : ∀ (mm : Mem) (v : Nat), mm.size = m1.size → (∀ x, x < F → mm.rd x = m1.rd x) → mm.readLE F p.w = F →
        mm.readLE (F + p.w) p.w = v → v < 256 ^ p.w →
        SInv p (.stop (F + p.w) v) (("%ap", o + p.w) :: Γ) (upd env "%ap" (5 * p.w)) mm F D (o + p.w) ra := by
      intro mm v hs hlo ht hv hvM
      refine hinv1.same (by omega) hoW hs ?_ ?_ (fun x _ hx => hlo x hx) ?_
      · rw [← fr1.fp]; exact Mem.readLE_congr _ _ _ _ (fun x h1 h2 => hlo x (by omega))
      · rw [← fr1.ap]; exact Mem.readLE_congr _ _ _ _ (fun x h1 h2 => hlo x (by omega))
      · intro a v' e
        cases e
        exact ⟨Nat.le_refl _, by rw [hs, hsz1]; omega, by omega, hv, hvM⟩
    have hlo3 : ∀ x, x < F → m3.rd x = m1.rd x := by
      intro x hx
      rw [← hm3, Mem.rd_writeLE_other _ _ _ _ _ (by omega), ← hm2, Mem.rd_writeLE_other _ _ _ _ _ (by omega)]
    have ht3 : m3.readLE F p.w = F := by
      rw [← hm3, Mem.readLE_writeLE_disj _ _ _ _ _ _ (by omega), ← hm2, Mem.readLE_writeLE_same _ _ _ _ (by omega)]
      exact Nat.mod_eq_of_lt hFM
    have hv3 : m3.readLE (F + p.w) p.w = pc + 5 + nB + 2 := by
      rw [← hm3, Mem.readLE_writeLE_same _ _ _ _ (by rw [← hm2]; simp; omega)]
      exact Nat.mod_eq_of_lt (by omega)
    have hi3 := mk m3 (pc + 5 + nB + 2) (by rw [hsz3, hsz1]) hlo3 ht3 hv3 (by omega)
    have hi4 := mk m4 (B + off_halt) (by rw [← hm4]; simp [hsz3, hsz1])
      (fun x hx => by rw [← hm4, Mem.rd_writeLE_other _ _ _ _ _ (by omega)]; exact hlo3 x hx)
      (by rw [← hm4, Mem.readLE_writeLE_disj _ _ _ _ _ _ (by omega)]; exact ht3)
      (by rw [← hm4, Mem.readLE_writeLE_same _ _ _ _ (by omega)]; exact Nat.mod_eq_of_lt hhaltM) hhaltM
    -- the body, from either of the two states
    have hbody : ∀ (mm : Mem) (v : Nat),
        SInv p (.stop (F + p.w) v) (("%ap", o + p.w) :: Γ) (upd env "%ap" (5 * p.w)) mm F D (o + p.w) ra →
        ∀ (env1 : Env) (tr1 : List Ev) (res1 : Res),
          exec (256 ^ p.w) (8 * p.w) fns p.w f D (o + p.w) (upd env "%ap" (5 * p.w)) body = some (env1, tr1, res1) →
          FaultOK ck fns p.w res1 →
          (HaltW p (.stop (F + p.w) v) ∨
            ∀ st', Post p B ra { cont := lp.cont, brk := lp.brk, vd := true } (.stop (F + p.w) v) (("%ap", o + p.w) :: Γ) env1 F D (o + p.w)
              (pc + 5 + nB) mm res1 st' → ¬ Halts (sphinx p) st') →
          Concl p B ra { cont := lp.cont, brk := lp.brk, vd := true } (.stop (F + p.w) v) (("%ap", o + p.w) :: Γ) env1 F D (o + p.w)
            (pc + 5) (pc + 5 + nB) mm tr1 res1 := by
      intro mm v hi env1 tr1 res1 hb1 hfo hwld
      have := ih F D ra hra { cont := lp.cont, brk := lp.brk, vd := true } hlp (.stop (F + p.w) v) sb true body (("%ap", o + p.w) :: Γ)
        (upd env "%ap" (5 * p.w)) (pc + 5) (o + p.w) mm env1 tr1 res1 hplB (by rw [hlenB]; omega) hi hd1 (by simpa using hwb)
        hpkB (by omega) hb1 hfo (Or.inl ⟨rfl, ⟨(fun _ => ⟨v, rfl⟩), (fun _ => Or.inl ⟨v, rfl⟩)⟩, hntb,
          hwld.imp id (fun h => ⟨rfl, by rw [hlenB]; exact h⟩)⟩)
      rwa [hlenB] at this
    -- in the world in which `defeat` holds the address of a `halt`, every handler halts
    have hW4 : HaltW p (.stop (F + p.w) (B + off_halt)) := by
      intro a v e m'
      cases e
      exact Halts.halt (sys := sphinx p) (step_halt (m := m') (halt_at lib))
    have hoD : o ≤ D := by omega
    -- leaving the body: the slot of `%ap` is given back
    have back : ∀ (env1 : Env) (mm : Mem),
        SInv p (.stop (F + p.w) (B + off_halt)) (("%ap", o + p.w) :: Γ) env1 mm F D (o + p.w) ra →
        SInv p (.you (some (F + p.w, B + off_halt))) Γ env1 mm F D o ra :=
      fun env1 mm h => decl_back hinv "%ap" (h.reMd rfl) hapn
    have backD : ∀ (v : Nat) (env1 : Env) (mm : Mem),
        SInvD p (.stop (F + p.w) v) (("%ap", o + p.w) :: Γ) env1 mm F D (o + p.w) ra → SInvD p .plain Γ env1 mm F D o ra :=
      fun v env1 mm h => decl_backD (hinv.toMd rfl) "%ap" ⟨h.ap, h.top, h.lt, h.room, h.vars, h.ra, DReg.none rfl⟩ hapn
    -- results of the body that leave the whole block
    have convS : ∀ (env1 : Env) (res1 : Res), res1 ≠ .norm → res1 ≠ .defeat → ∀ (e1 e2 : Nat) (mm : Mem) st',
        Post p B ra { cont := lp.cont, brk := lp.brk, vd := true } (.stop (F + p.w) (B + off_halt)) (("%ap", o + p.w) :: Γ) env1 F D (o + p.w) e1 mm res1 st' →
        Post p B ra lp (.you (some (F + p.w, B + off_halt))) Γ env1 F D o e2 mm res1 st' := by
      intro env1 res1 hn hdf e1 e2 mm st' h
      have hk : ∀ {m' : Mem}, Keep p.w mm m' (Md.kb (.stop (F + p.w) (B + off_halt)) F p.w) → Keep p.w mm m' ((Md.you (some (F + p.w, B + off_halt))).kb F p.w) :=
        fun k => k.mono (by simp [Md.kb])
      cases res1 with
      | norm => exact absurd rfl hn
      | defeat => exact absurd rfl hdf
      | returned => exact ⟨h.1, hk h.2⟩
      | retv x => exact ⟨h.1, hk h.2.1, h.2.2⟩
      | div0 => exact h
      | ovf => exact h
      | brk => exact ⟨h.1, back _ _ h.2.1, hk h.2.2⟩
      | cnt => exact ⟨h.1, back _ _ h.2.1, hk h.2.2⟩
    have convN : ∀ (envx : Env) (resx : Res), resx ≠ .norm → ∀ (e1 e2 : Nat) st',
        Post p B ra lp (.you (some (F + p.w, B + off_halt))) Γ envx F D o e1 m resx st' → Post p B ra lp (.you (some (F + p.w, B + off_halt))) Γ envx F D o e2 m resx st' := by
      intro envx resx hx e1 e2 st' h
      cases resx with
      | norm => exact absurd rfl hx
      | returned => simpa [Post] using h
      | div0 => simpa [Post] using h
      | ovf => simpa [Post] using h
      | defeat => simpa [Post] using h
      | retv v => simpa [Post] using h
      | brk => simpa [Post] using h
      | cnt => simpa [Post] using h
    -- the rest of the list, from any state at the end of the block reachable from `m`
    have contK : ∀ (env1 : Env) (m1 : Mem) (env3 : Env) (tr3 : List Ev) (res3 : Res),
        SInv p (.you (some (F + p.w, B + off_halt))) Γ env1 m1 F D o ra → Keep p.w m m1 ((Md.you (some (F + p.w, B + off_halt))).kb F p.w) →
        exec (256 ^ p.w) (8 * p.w) fns p.w f D o env1 k = some (env3, tr3, res3) → FaultOK ck fns p.w res3 →
        (∀ st', Post p B ra lp (.you (some (F + p.w, B + off_halt))) Γ env3 F D o (pc + 5 + nB + 2 + 3 + nH + (cS (cxOf p ck B (F + p.w)) fa lp Γ (pc + 5 + nB + 2 + 3 + nH) o k).length) m res3 st' →
          ¬ Halts (sphinx p) st') →
        Concl p B ra lp (.you (some (F + p.w, B + off_halt))) Γ env3 F D o (pc + 5 + nB + 2 + 3 + nH)
          (pc + 5 + nB + 2 + 3 + nH + (cS (cxOf p ck B (F + p.w)) fa lp Γ (pc + 5 + nB + 2 + 3 + nH) o k).length) m1 tr3 res3 :=
      fun env1 m1 env3 tr3 res3 hi1 km1 hk hck3 hfin =>
        ih F D ra hra lp hlp (.you (some (F + p.w, B + off_halt))) sb false k Γ env1 (pc + 5 + nB + 2 + 3 + nH) o m1 env3 tr3 res3 hplK (by omega) hi1 hd hwk hpkK ho hk hck3
          (Or.inr ⟨⟨rfl, rfl, hsf⟩, hvd, hyk, fun _ => ⟨rfl, by rw [km1.size]; exact hsz, hFM2, rfl⟩, fun st' hp => hfin st' (hp.rebase km1)⟩)
    simp only [exec] at hex
    cases hb1 : exec (256 ^ p.w) (8 * p.w) fns p.w f D (o + p.w) (upd env "%ap" (5 * p.w)) body with
    | none => simp [hb1] at hex
    | some rb =>
      obtain ⟨env1, tr1, res1⟩ := rb
      simp only [hb1, Option.bind_eq_bind, Option.bind_some] at hex
      by_cases hdft : res1 = .defeat
      · subst hdft
        simp only [if_true] at hex
        by_cases hap : env1 "%ap" = 5 * p.w
        case neg => simp [hap] at hex
        simp only [hap, ne_eq, not_true_eq_false, if_false] at hex
        -- the handler prologue, from any state in which the body can be defeated:
        -- `defeat := halt`, `fp := try_fp`, `ap :=` the saved value
        have pro : ∀ m5, SInvD p (.stop (F + p.w) (pc + 5 + nB + 2)) (("%ap", o + p.w) :: Γ) env1 m5 F D (o + p.w) ra → KeepD p.w m3 m5 F →
            ∃ m8, Reach (sphinx p) ⟨pc + 5 + nB + 2, m5⟩ [] ⟨pc + 5 + nB + 2 + 3, m8⟩ ∧ SInv p .plain Γ env1 m8 F D o ra ∧
              Keep p.w m m8 ((Md.you (some (F + p.w, B + off_halt))).kb F p.w) ∧ DReg p (.you (some (F + p.w, B + off_halt))) m8 F := by
          intro m5 hi5 k35
          have hsz5 : m5.size = m.size := by rw [k35.size, hsz3]
          -- `try_fp` still holds the frame pointer of the `try`: nothing above the frame was touched
          have ht5 : m5.readLE F p.w = F := by rw [k35.read _ _ (Nat.le_refl _)]; exact ht3
          have t0 := step_mov (m := m5) d0 (ev_imm (B + off_halt)) (by unfold Prog.M; omega) (by omega)
          rw [show (B + off_halt) % p.M = B + off_halt from Nat.mod_eq_of_lt (by unfold Prog.M; omega)] at t0
          generalize hm6 : m5.writeLE (F + p.w) p.w (B + off_halt) = m6 at t0
          have hsz6 : m6.size = m.size := by rw [← hm6]; simp [hsz5]
          have e1' : evalArg p ⟨pc + 5 + nB + 2 + 1, m6⟩ (.st F) = some F := by
            rw [ev_st (by unfold Prog.M; omega) (by omega), ← hm6, Mem.readLE_writeLE_disj _ _ _ _ _ _ (by omega), ht5]
          -- `fp` comes back from `try_fp` (the defeat may have happened in a callee), then `ap` from the frame slot
          have t1 := step_mov (m := m6) d1 e1' (by unfold Prog.M; omega) (by omega)
          generalize hm7 : m6.writeLE p.w p.w F = m7 at t1
          have hsz7 : m7.size = m.size := by rw [← hm7]; simp [hsz6]
          have fr7 : Fr p m7 F D := by
            refine ⟨?_, ?_, by omega, hFM, hroom⟩
            · rw [← hm7, Mem.readLE_writeLE_same _ _ _ _ (by omega)]; exact Nat.mod_eq_of_lt hFM
            · rw [← hm7, Mem.readLE_writeLE_disj _ _ _ _ _ _ (by omega), ← hm6, Mem.readLE_writeLE_disj _ _ _ _ _ _ (by omega)]; exact hi5.ap
          have d2' : p.code[pc + 5 + nB + 2 + 1 + 1]? = some (ldSlot (cxOf p ck B (F + p.w)) 0 (o + p.w)) := by
            rw [show pc + 5 + nB + 2 + 1 + 1 = pc + 5 + nB + 2 + 2 by omega]; exact d2
          have t2 := step_ldSlot ck B 0 (o + p.w) hw fr7 d2' (by omega) hoW (by omega)
          have hlo7 : ∀ x, 2 * p.w ≤ x → x < F + p.w → m7.rd x = m5.rd x := by
            intro x h1 h2
            rw [← hm7, Mem.rd_writeLE_other _ _ _ _ _ (by omega), ← hm6, Mem.rd_writeLE_other _ _ _ _ _ (by omega)]
          have hslot : m7.readLE (F - (o + p.w)) p.w = 5 * p.w := by
            have e7 : m7.readLE (F - (o + p.w)) p.w = m5.readLE (F - (o + p.w)) p.w :=
              Mem.readLE_congr _ _ _ _ (fun y h1 h2 => hlo7 y (by omega) (by omega))
            have := (hi5.vars "%ap" (by simp)).2.2
            rw [look_cons_same] at this; rw [e7, this, hap]
          rw [hslot] at t2
          generalize hm8 : m7.writeLE 0 p.w (5 * p.w) = m8 at t2
          have k78 : Keep p.w m7 m8 (2 * p.w) := by
            rw [← hm8]; exact keep_reg m7 0 (5 * p.w) _ (by omega) (Or.inl rfl) fr7.ap (by omega) (by omega) (Nat.le_refl _)
          have fr8 := fr7.keep k78
          have hi8 : SInv p .plain Γ env1 m8 F D o ra := by
            refine (backD _ _ _ hi5).same ho hoD (by rw [k78.size, hsz7, hsz5]) fr8.fp fr8.ap (fun x h5 hx => ?_) (fun a v e => by cases e)
            rw [k78.hi x (by omega), hlo7 x (by omega) (by omega)]
          have km8 : Keep p.w m m8 ((Md.you (some (F + p.w, B + off_halt))).kb F p.w) := by
            refine ⟨by rw [k78.size, hsz7], by rw [fr8.fp, fr.fp], by rw [fr8.ap, fr.ap], fun x hx => ?_⟩
            have hx' : F + 2 * p.w ≤ x := hx
            rw [k78.hi x (by omega), ← hm7, Mem.rd_writeLE_other _ _ _ _ _ (by omega), ← hm6, Mem.rd_writeLE_other _ _ _ _ _ (by omega),
              k35.hi x (by omega), km3.hi x hx']
          have rp := (Reach.of_next (sys := sphinx p) t0).trans ((Reach.of_next (sys := sphinx p) t1).trans (Reach.of_next (sys := sphinx p) t2))
          have hd8 : DReg p (.you (some (F + p.w, B + off_halt))) m8 F := by
            intro a v e
            cases e
            refine ⟨Nat.le_refl _, by rw [k78.size, hsz7]; omega, by omega, ?_, hhaltM⟩
            rw [k78.read _ _ (by omega), ← hm7, Mem.readLE_writeLE_disj _ _ _ _ _ _ (by omega), ← hm6,
              Mem.readLE_writeLE_same _ _ _ _ (by omega)]
            exact Nat.mod_eq_of_lt hhaltM
          exact ⟨m8, by simpa [evl, Nat.add_assoc] using rp, hi8, km8, hd8⟩
        -- given what happens from the handler on, in any such state: the two runs of the body
        have close : ∀ (trA : List Ev) (envF : Env) (resF : Res), resF ≠ .defeat →
            (∀ st', Post p B ra lp (.you (some (F + p.w, B + off_halt))) Γ envF F D o (pc + 5 + nB + 2 + 3 + nH + (cS (cxOf p ck B (F + p.w)) fa lp Γ (pc + 5 + nB + 2 + 3 + nH) o k).length) m resF st' →
              ¬ Halts (sphinx p) st') →
            (∀ m5, SInvD p (.stop (F + p.w) (pc + 5 + nB + 2)) (("%ap", o + p.w) :: Γ) env1 m5 F D (o + p.w) ra → KeepD p.w m3 m5 F →
              ∃ stE, Reach (sphinx p) ⟨pc + 5 + nB + 2, m5⟩ trA stE ∧
                Post p B ra lp (.you (some (F + p.w, B + off_halt))) Γ envF F D o (pc + 5 + nB + 2 + 3 + nH + (cS (cxOf p ck B (F + p.w)) fa lp Γ (pc + 5 + nB + 2 + 3 + nH) o k).length) m resF stE) →
            Concl p B ra lp (.you (some (F + p.w, B + off_halt))) Γ envF F D o pc
              (pc + 5 + nB + 2 + 3 + nH + (cS (cxOf p ck B (F + p.w)) fa lp Γ (pc + 5 + nB + 2 + 3 + nH) o k).length) m (tr1 ++ trA) resF := by
          intro trA envF resF hndF hfinF after
          -- in the world in which every defeat call halts the body halts: the jump is taken
          obtain ⟨st4, rb4, hp4⟩ := (hbody m4 (B + off_halt) hi4 env1 tr1 .defeat hb1 trivial (Or.inl hW4)).2 (fun _ => rfl)
          obtain ⟨a4, v4, e4, hpc4, _, _⟩ := hp4
          cases e4
          have hh4 : Halts (sphinx p) st4 := by
            obtain ⟨pc4, mm4⟩ := st4
            simp only at hpc4; subst hpc4
            exact Halts.halt (sys := sphinx p) (step_halt (m := mm4) (halt_at lib))
          have jt : Reach (sphinx p) ⟨pc + 3, m3⟩ [] ⟨pc + 5, m3⟩ := Reach.jump_taken' (sys := sphinx p) s3 (r45.1 (rb4.1 hh4))
          -- the real run: no state in which the body is defeated halts, because the handler and the rest never do
          have fin3 : ∀ st', Post p B ra { cont := lp.cont, brk := lp.brk, vd := true } (.stop (F + p.w) (pc + 5 + nB + 2)) (("%ap", o + p.w) :: Γ) env1 F D (o + p.w)
              (pc + 5 + nB) m3 .defeat st' → ¬ Halts (sphinx p) st' := by
            intro st' hp
            obtain ⟨a5, v5, e5, hpc5, hi5, k35⟩ := hp
            cases e5
            obtain ⟨pc5, m5⟩ := st'
            simp only at hpc5 hi5 k35; subst hpc5
            obtain ⟨stE, rE, hpE⟩ := after m5 hi5 k35
            exact (rE.exec (hfinF stE hpE)).2
          obtain ⟨st5, rb5, hp5⟩ := (hbody m3 (pc + 5 + nB + 2) hi3 env1 tr1 .defeat hb1 trivial (Or.inr fin3)).2 (fun _ => rfl)
          obtain ⟨a5, v5, e5, hpc5, hi5, k35⟩ := hp5
          cases e5
          obtain ⟨pc5, m5⟩ := st5
          simp only at hpc5 hi5 k35; subst hpc5
          obtain ⟨stE, rE, hpE⟩ := after m5 hi5 k35
          exact ⟨fun hd' => absurd hd' hndF, fun _ => ⟨stE, by simpa using r03.trans (jt.trans (rb5.trans rE)), hpE⟩⟩
        cases hh2 : exec (256 ^ p.w) (8 * p.w) fns p.w f D o env1 handler with
        | none => simp [hh2] at hex
        | some rh =>
          obtain ⟨env2, tr2, res2⟩ := rh
          simp only [hh2, Option.bind_some] at hex
          have hnd2 : res2 ≠ .defeat := exec_no_defeat _ _ _ _ false _ _ _ _ _ _ _ _ (plain_youLevel _ _ _ hplh) hh2
          by_cases hn2 : res2 = .norm
          · subst hn2
            simp only [if_true] at hex
            cases hk : exec (256 ^ p.w) (8 * p.w) fns p.w f D o env2 k with
            | none => simp [hk] at hex
            | some rk =>
              obtain ⟨env3, tr3, res3⟩ := rk
              simp only [hk, Option.bind_some, Option.pure_def, Option.some.injEq, Prod.mk.injEq] at hex
              obtain ⟨rfl, rfl, rfl⟩ := hex
              have hnd3 : res3 ≠ .defeat := exec_no_defeat _ _ _ _ _ _ _ _ _ _ _ _ _ hyk hk
              rw [List.append_assoc]
              refine close (tr2 ++ tr3) env3 res3 hnd3 h2 (fun m5 hi5 k35 => ?_)
              obtain ⟨m8, rp, hi8, km8, hd8⟩ := pro m5 hi5 k35
              have hhh := ih F D ra hra lp hlp .plain sb false handler Γ env1 (pc + 5 + nB + 2 + 3) o m8 env2 tr2 .norm hplH (by rw [hlenH]; omega)
                hi8 hd hwh hpkH ho hh2 trivial
                (Or.inl ⟨rfl, ⟨(by intro h; rw [hvd] at h; cases h), (by intro h; cases h)⟩, plain_noTry _ _ hplh, Or.inl HaltW.plain⟩)
              rw [hlenH] at hhh
              obtain ⟨st9, r9, hp9⟩ := hhh.2 (nd (by decide))
              have hp9 := hp9.toYou rfl hd8 (by decide)
              obtain ⟨pc9, m9⟩ := st9
              simp only [Post] at hp9
              obtain ⟨hpc9, hi9, k89⟩ := hp9
              subst hpc9
              have km9 : Keep p.w m m9 ((Md.you (some (F + p.w, B + off_halt))).kb F p.w) := km8.trans' k89
              obtain ⟨stE, rE, hpE⟩ := (contK env2 m9 env3 tr3 res3 hi9 km9 hk hck h2).2 (nd hnd3)
              exact ⟨stE, by simpa using rp.trans (r9.trans rE), hpE.rebase km9⟩
          · simp only [hn2, if_false, Option.pure_def, Option.some.injEq, Prod.mk.injEq] at hex
            obtain ⟨rfl, rfl, rfl⟩ := hex
            refine close tr2 env2 res2 hnd2 h2 (fun m5 hi5 k35 => ?_)
            obtain ⟨m8, rp, hi8, km8, hd8⟩ := pro m5 hi5 k35
            have hhh := ih F D ra hra lp hlp .plain sb false handler Γ env1 (pc + 5 + nB + 2 + 3) o m8 env2 tr2 res2 hplH (by rw [hlenH]; omega)
              hi8 hd hwh hpkH ho hh2 hck
              (Or.inl ⟨rfl, ⟨(by intro h; rw [hvd] at h; cases h), (by intro h; cases h)⟩, plain_noTry _ _ hplh, Or.inl HaltW.plain⟩)
            rw [hlenH] at hhh
            obtain ⟨stE, rE, hpE⟩ := (hhh.toYou rfl hd8 hnd2).2 (nd hnd2)
            exact ⟨stE, by simpa using rp.trans rE, convN env2 res2 hn2 _ _ stE (hpE.rebase km8)⟩
      · simp only [hdft, if_false] at hex
        by_cases hn : res1 = .norm
        · subst hn
          simp only [if_true] at hex
          cases hk : exec (256 ^ p.w) (8 * p.w) fns p.w f D o env1 k with
          | none => simp [hk] at hex
          | some rk =>
            obtain ⟨env3, tr3, res3⟩ := rk
            simp only [hk, Option.bind_some, Option.pure_def, Option.some.injEq, Prod.mk.injEq] at hex
            obtain ⟨rfl, rfl, rfl⟩ := hex
            -- the body is not defeated: it runs in the world in which every defeat call halts
            obtain ⟨st5, rb, hp⟩ := (hbody m4 (B + off_halt) hi4 env1 tr1 .norm hb1 trivial (Or.inl hW4)).2 (nd (by decide))
            obtain ⟨pc5, m5⟩ := st5
            simp only [Post] at hp
            obtain ⟨hpc5, hi5, k45⟩ := hp
            subst hpc5
            have g := goto_reach lib (pc + 5 + nB) (pc + 5 + nB + 2 + 3 + nH) m5 hplG hendM
            have km5 : Keep p.w m m5 ((Md.you (some (F + p.w, B + off_halt))).kb F p.w) := km4.trans' ((show Keep p.w m4 m5 F from k45).mono (by omega))
            have hkk := contK env1 m5 env3 tr3 res3 (back _ _ hi5) km5 hk hck h2
            have hnd3 : res3 ≠ .defeat := exec_no_defeat _ _ _ _ _ _ _ _ _ _ _ _ _ hyk hk
            obtain ⟨st', r3, hp3⟩ := hkk.2 (nd hnd3)
            have rbody : Reach (sphinx p) ⟨pc + 3 + 1, m3⟩ (tr1 ++ tr3) st' := by simpa using r45.trans (rb.trans (g.trans r3))
            have nh1 : ¬ Halts (sphinx p) ⟨pc + 3 + 1, m3⟩ := (rbody.exec (h2 st' (hp3.rebase km5))).2
            have jn := Reach.jump_not_taken (sys := sphinx p) s3 (fun hh => absurd hh nh1)
            exact ⟨fun hd' => absurd hd' hnd3, fun _ => ⟨st', by simpa using r03.trans (jn.trans rbody), hp3.rebase km5⟩⟩
        · simp only [hn, if_false, Option.pure_def, Option.some.injEq, Prod.mk.injEq] at hex
          obtain ⟨rfl, rfl, rfl⟩ := hex
          obtain ⟨st1, r1, hp1⟩ := (hbody m4 (B + off_halt) hi4 env1 tr1 res1 hb1 hck (Or.inl hW4)).2 (nd hdft)
          have hp1' : Post p B ra lp (.you (some (F + p.w, B + off_halt))) Γ env1 F D o
              (pc + 5 + nB + 2 + 3 + nH + (cS (cxOf p ck B (F + p.w)) fa lp Γ (pc + 5 + nB + 2 + 3 + nH) o k).length) m res1 st1 :=
            (convS env1 res1 hn hdft _ _ m4 st1 hp1).rebase km4
          have r1' : Reach (sphinx p) ⟨pc + 3 + 1, m3⟩ tr1 st1 := by simpa using r45.trans r1
          have nh1 : ¬ Halts (sphinx p) ⟨pc + 3 + 1, m3⟩ := (r1'.exec (h2 st1 hp1')).2
          have jn := Reach.jump_not_taken (sys := sphinx p) s3 (fun hh => absurd hh nh1)
          exact ⟨fun hd' => absurd hd' hdft, fun _ => ⟨st1, by simpa using r03.trans (jn.trans r1'), hp1'⟩⟩
end

end HidVerif.Core
