import HidVerif.Proofs.WriteIntFull
/-!
# `write_int`: entry to return, all three paths (non-negative, negative, minimum integer)
-/
namespace HidVerif.Sphinx
open HidVerif HidVerif.PSys HidVerif.Gen

theorem pow256_even (w : Nat) (hw : 1 ≤ w) : 256 ^ w % 2 = 0 := by
  obtain ⟨k, rfl⟩ : ∃ k, w = k + 1 := ⟨w - 1, by omega⟩
  rw [Nat.pow_succ]; omega

theorem write_int_spec (p : Prog) (B : Nat) (hp : Placed p B)
    (m : Mem) (F v ra r0 r1 r2 : Nat)
    (hv : v < 256 ^ p.w) (hFM : F < 256 ^ p.w) (hFsz : F ≤ m.size)
    (hroom : 5 * p.w + (digits (absW (256 ^ p.w) v)).length + p.w ≤ F) (h7 : 7 * p.w ≤ F)
    (hr : Regs p.w m F r0 r1 r2)
    (harg : m.readLE (F - 2 * p.w) p.w = v) (hra : m.readLE (F - p.w) p.w = ra) :
    ∃ m', Reach (sphinx p) ⟨B + off_write_int, m⟩ (outs (decimalW (256 ^ p.w) v)) ⟨ra, m'⟩ ∧
      Same p.w m m' (F - p.w - (digits (absW (256 ^ p.w) v)).length) (F - p.w) := by
  have hw := hp.hw
  have hM := pow_ge2 p.w hw
  have heven := pow256_even p.w (by omega)
  have h64 := mul_w_lt_pow p.w hw
  have hwi := hp.wi
  have hend := hp.wi_end
  have pos := wi_pos p B hp
  have push := push_loop p B hp
  have fin := wi_finish p B hp
  have c0 := hwi 0 (by simp [code_write_int]); have c1 := hwi 1 (by simp [code_write_int])
  have c2 := hwi 2 (by simp [code_write_int]); have c3 := hwi 3 (by simp [code_write_int])
  have c4 := hwi 4 (by simp [code_write_int]); have c5 := hwi 5 (by simp [code_write_int])
  have c6 := hwi 6 (by simp [code_write_int]); have c7 := hwi 7 (by simp [code_write_int])
  have c8 := hwi 8 (by simp [code_write_int]); have c9 := hwi 9 (by simp [code_write_int])
  have c10 := hwi 10 (by simp [code_write_int]); have c11 := hwi 11 (by simp [code_write_int])
  have c12 := hwi 12 (by simp [code_write_int]); have c13 := hwi 13 (by simp [code_write_int])
  have c14 := hwi 14 (by simp [code_write_int])
  simp only [code_write_int, List.getElem_cons_succ, List.getElem_cons_zero, Nat.add_zero] at c0 c1 c2 c3 c4 c5 c6 c7 c8 c9 c10 c11 c12 c13 c14
  generalize hWI : B + off_write_int = WI at *
  have h5M : 5 * p.w < 256 ^ p.w := by omega
  have hsz := hr.sz
  have t0 : toS (256 ^ p.w) 0 = 0 := by simpa using toS_small (M := 256 ^ p.w) (x := 0) (by omega)
  -- 0: r0 := fp - w
  have s0 := step_alu (m := m) c0 (hr.ev_fp h5M) (ev_imm (256 ^ p.w - p.w)) alu_add
    (by unfold Prog.M; omega) (by omega)
  have e0 : (F + (256 ^ p.w - p.w) % p.M) % p.M = F - p.w := by
    unfold Prog.M; exact add_neg_mod (by omega) (by omega) hFM
  rw [e0] at s0
  have hr0 := hr.set0 (F - p.w) (by omega)
  -- 1: r2 := [fp - 2w]
  have e1 : (F + (256 ^ p.w - 2 * p.w) % p.M) % p.M = F - 2 * p.w := by
    unfold Prog.M; exact add_neg_mod (by omega) (by omega) hFM
  have s1 := step_lwso (m := m.writeLE (2 * p.w) p.w (F - p.w)) c1 (hr0.ev_fp h5M)
    (ev_imm (256 ^ p.w - 2 * p.w)) (by rw [e1]; simp; omega) (by unfold Prog.M; omega) (by simp; omega)
  rw [e1, Mem.readLE_writeLE_disj _ _ _ _ _ _ (by omega), harg] at s1
  have hr1 := hr0.set2 v hv
  generalize hm1 : ((m.writeLE (2 * p.w) p.w (F - p.w)).writeLE (4 * p.w) p.w v) = m1 at *
  have hsame1 : Same p.w m m1 0 0 := by
    refine ⟨by rw [← hm1]; simp, fun x hx _ => ?_⟩
    rw [← hm1, Mem.rd_writeLE_other _ _ _ _ _ (by omega), Mem.rd_writeLE_other _ _ _ _ _ (by omega)]
  have hra1 : m1.readLE (F - p.w) p.w = ra := by
    rw [← hra]; apply Mem.readLE_congr; intro x h1 _
    exact hsame1.2 x (by omega) (Or.inr (by omega))
  have hFsz1 : F ≤ m1.size := by rw [hsame1.1]; exact hFsz
  have pre : Reach (sphinx p) ⟨WI, m⟩ [] ⟨WI + 2, m1⟩ := by
    have := (Reach.of_next (sys := sphinx p) s0).trans (Reach.of_next (sys := sphinx p) s1)
    simpa [evl] using this
  -- 2/3: j pos ; hge r2, 0
  have s2 := step_j (m := m1) c2 (ev_imm (WI + 14))
  rw [show (WI + 14) % p.M = WI + 14 from Nat.mod_eq_of_lt (by unfold Prog.M; omega)] at s2
  have s3 := step_hcond (m := m1) c3 (hr1.ev_r2 h5M) (ev_imm 0)
  simp only [haltCond, Nat.zero_mod, Prog.M, t0] at s3
  by_cases hpos : v < 256 ^ p.w / 2
  · -- non-negative
    simp only [toS_small hpos] at s3
    have : ((v : Int) ≥ 0) := by omega
    simp only [this, decide_true, if_true] at s3
    have j2 : Reach (sphinx p) ⟨WI + 2, m1⟩ [] ⟨WI + 14, m1⟩ := Reach.jump_taken (sys := sphinx p) s2 s3
    have habs : absW (256 ^ p.w) v = v := by simp [absW, hpos]
    rw [habs] at hroom ⊢
    obtain ⟨m', hreach, hsame⟩ := pos m1 F v ra r1 hpos hroom h7 hFM hFsz1 hr1 hra1
    refine ⟨m', ?_, ?_⟩
    · have := pre.trans (j2.trans hreach)
      simpa [decimalW, hpos] using this
    · exact ⟨hsame.1.trans hsame1.1, fun x hx hxr => by
        rw [hsame.2 x hx hxr]; exact hsame1.2 x hx (Or.inr (by omega))⟩
  · -- negative
    have habs : absW (256 ^ p.w) v = 256 ^ p.w - v := by simp [absW, hpos]
    rw [habs] at hroom ⊢
    simp only [toS_big hpos] at s3
    have : ¬ ((v : Int) - ((256 ^ p.w : Nat) : Int) ≥ 0) := by omega
    simp only [this, decide_false, Bool.false_eq_true, if_false] at s3
    -- at +14 the `hlt r2, 0` fires for a negative r2, whatever else memory holds
    have halts14 : ∀ (mm : Mem) (f a b x : Nat), Regs p.w mm f a b x → ¬ x < 256 ^ p.w / 2 → x < 256 ^ p.w →
        Halts (sphinx p) ⟨WI + 14, mm⟩ := by
      intro mm f a b x hrr hx hxM
      have s14 := step_hcond (m := mm) c14 (hrr.ev_r2 h5M) (ev_imm 0)
      simp only [haltCond, Nat.zero_mod, Prog.M, t0, toS_big hx] at s14
      have : ((x : Int) - ((256 ^ p.w : Nat) : Int) < 0) := by omega
      simp only [this, decide_true, if_true] at s14
      exact Halts.halt (sys := sphinx p) s14
    have f2 : Reach (sphinx p) ⟨WI + 2, m1⟩ [] ⟨WI + 4, m1⟩ :=
      Reach.jump_fallthrough (sys := sphinx p) s2 s3 (fun _ => halts14 m1 _ _ _ v hr1 hpos hv)
    -- 4: yield '-'
    have s4 := step_yld (m := m1) c4 (ev_imm 45)
    rw [show 45 % p.M % 256 = 45 from by
      unfold Prog.M; rw [Nat.mod_eq_of_lt (by omega : 45 < 256 ^ p.w)]] at s4
    -- 5: r2 := 0 - r2
    have s5 := step_alu (m := m1) c5 (ev_imm 0) (hr1.ev_r2 h5M) alu_sub (by unfold Prog.M; omega)
      (by have := hr1.sz; omega)
    have e5 : (0 % p.M + p.M - v % p.M) % p.M = 256 ^ p.w - v := by
      unfold Prog.M
      rw [Nat.zero_mod, Nat.mod_eq_of_lt hv, Nat.zero_add]; exact Nat.mod_eq_of_lt (by omega)
    rw [e5] at s5
    have hr5 := hr1.set2 (256 ^ p.w - v) (by omega)
    generalize hm5 : (m1.writeLE (4 * p.w) p.w (256 ^ p.w - v)) = m5 at *
    have hsame5 : Same p.w m1 m5 0 0 := by
      refine ⟨by rw [← hm5]; simp, fun x hx _ => ?_⟩
      rw [← hm5, Mem.rd_writeLE_other _ _ _ _ _ (by omega)]
    have hra5 : m5.readLE (F - p.w) p.w = ra := by
      rw [← hra1]; apply Mem.readLE_congr; intro x h1 _
      exact hsame5.2 x (by omega) (Or.inr (by omega))
    have hFsz5 : F ≤ m5.size := by rw [hsame5.1]; exact hFsz1
    have neg : Reach (sphinx p) ⟨WI, m⟩ [Ev.out 45] ⟨WI + 6, m5⟩ := by
      have := pre.trans (f2.trans ((Reach.of_next (sys := sphinx p) s4).trans (Reach.of_next (sys := sphinx p) s5)))
      simpa [evl] using this
    -- 6/7: j pos ; hge r2, 0
    have s6 := step_j (m := m5) c6 (ev_imm (WI + 14))
    rw [show (WI + 14) % p.M = WI + 14 from Nat.mod_eq_of_lt (by unfold Prog.M; omega)] at s6
    have s7 := step_hcond (m := m5) c7 (hr5.ev_r2 h5M) (ev_imm 0)
    simp only [haltCond, Nat.zero_mod, Prog.M, t0] at s7
    by_cases hmin : 256 ^ p.w - v < 256 ^ p.w / 2
    · -- ordinary negative number: its magnitude is representable
      simp only [toS_small hmin] at s7
      have : (((256 ^ p.w - v : Nat) : Int) ≥ 0) := by omega
      simp only [this, decide_true, if_true] at s7
      have j6 : Reach (sphinx p) ⟨WI + 6, m5⟩ [] ⟨WI + 14, m5⟩ := Reach.jump_taken (sys := sphinx p) s6 s7
      obtain ⟨m', hreach, hsame⟩ := pos m5 F (256 ^ p.w - v) ra r1 hmin hroom h7 hFM hFsz5 hr5 hra5
      refine ⟨m', ?_, ?_⟩
      · have := neg.trans (j6.trans hreach)
        simpa [decimalW, hpos, outs] using this
      · exact ⟨(hsame.1.trans hsame5.1).trans hsame1.1, fun x hx hxr => by
          rw [hsame.2 x hx hxr, hsame5.2 x hx (Or.inr (by omega))]
          exact hsame1.2 x hx (Or.inr (by omega))⟩
    · -- the minimum integer: v = M / 2, and 0 - v = v
      have hvH : v = 256 ^ p.w / 2 := by omega
      have hHH : 256 ^ p.w - v = 256 ^ p.w / 2 := by omega
      rw [hHH] at hr5 hroom s7 ⊢
      generalize hHdef : 256 ^ p.w / 2 = H at *
      have hH10 : 32768 ≤ H := by omega
      simp only [toS_big (by omega : ¬ H < 256 ^ p.w / 2)] at s7
      have : ¬ ((H : Int) - ((256 ^ p.w : Nat) : Int) ≥ 0) := by omega
      simp only [this, decide_false, Bool.false_eq_true, if_false] at s7
      have f6 : Reach (sphinx p) ⟨WI + 6, m5⟩ [] ⟨WI + 8, m5⟩ :=
        Reach.jump_fallthrough (sys := sphinx p) s6 s7
          (fun _ => halts14 m5 _ _ _ H hr5 (by omega) (by omega))
      -- 8: r2 := r2 - 10
      have s8 := step_alu (m := m5) c8 (hr5.ev_r2 h5M) (ev_imm 10) alu_sub (by unfold Prog.M; omega)
        (by have := hr5.sz; omega)
      have e8 : (H + p.M - 10 % p.M % p.M) % p.M = H - 10 := by
        unfold Prog.M; rw [Nat.mod_mod]; exact sub_mod_small (by omega) (by omega)
      rw [e8] at s8
      have hr8 := hr5.set2 (H - 10) (by omega)
      -- 9: r1 := r2 % 10
      have s9 := step_alu (m := m5.writeLE (4 * p.w) p.w (H - 10)) c9 (hr8.ev_r2 h5M) (ev_imm 10)
        (alu_mod10 (by unfold Prog.M; omega) (by unfold Prog.M; omega)) (by unfold Prog.M; omega)
        (by have := hr8.sz; omega)
      have hr9 := hr8.set1 ((H - 10) % 10) (by omega)
      -- 10: r2 := r2 / 10
      have s10 := step_alu (m := (m5.writeLE (4 * p.w) p.w (H - 10)).writeLE (3 * p.w) p.w ((H - 10) % 10)) c10
        (hr9.ev_r2 h5M) (ev_imm 10)
        (alu_div10 (by unfold Prog.M; omega) (by unfold Prog.M; omega)) (by unfold Prog.M; omega)
        (by have := hr9.sz; omega)
      have hr10 := hr9.set2 ((H - 10) / 10) (by omega)
      -- 11: r2 := r2 + 1
      have s11 := step_alu (m := ((m5.writeLE (4 * p.w) p.w (H - 10)).writeLE (3 * p.w) p.w ((H - 10) % 10)).writeLE (4 * p.w) p.w ((H - 10) / 10)) c11
        (hr10.ev_r2 h5M) (ev_imm 1) alu_add (by unfold Prog.M; omega) (by have := hr10.sz; omega)
      have e11 : ((H - 10) / 10 + 1 % p.M) % p.M = H / 10 := by
        unfold Prog.M
        rw [Nat.mod_eq_of_lt (by omega : 1 < 256 ^ p.w)]
        have : (H - 10) / 10 + 1 = H / 10 := by omega
        rw [this]; exact Nat.mod_eq_of_lt (by omega)
      rw [e11] at s11
      have hr11 := hr10.set2 (H / 10) (by omega)
      have e9 : (H - 10) % 10 = H % 10 := by omega
      rw [e9] at hr11 s9 s10 s11
      generalize hm11 : ((((m5.writeLE (4 * p.w) p.w (H - 10)).writeLE (3 * p.w) p.w (H % 10)).writeLE (4 * p.w) p.w ((H - 10) / 10)).writeLE (4 * p.w) p.w (H / 10)) = m11 at *
      have hsame11 : Same p.w m5 m11 0 0 := by
        refine ⟨by rw [← hm11]; simp, fun x hx _ => ?_⟩
        rw [← hm11, Mem.rd_writeLE_other _ _ _ _ _ (by omega), Mem.rd_writeLE_other _ _ _ _ _ (by omega),
            Mem.rd_writeLE_other _ _ _ _ _ (by omega), Mem.rd_writeLE_other _ _ _ _ _ (by omega)]
      -- 12/13: goto push
      have s12 := step_j (m := m11) c12 (ev_imm (WI + 20))
      rw [show (WI + 20) % p.M = WI + 20 from Nat.mod_eq_of_lt (by unfold Prog.M; omega)] at s12
      have s13 := step_halt (m := m11) c13
      have j12 : Reach (sphinx p) ⟨WI + 12, m11⟩ [] ⟨WI + 20, m11⟩ := Reach.jump_taken (sys := sphinx p) s12 s13
      have hFsz11 : F ≤ m11.size := by rw [hsame11.1]; exact hFsz5
      obtain ⟨m12, r1', hpush, hr12, hbytes, hsame12⟩ :=
        push H m11 F (F - p.w) (by omega) (by omega) (by omega) (by omega) hr11
      have hra12 : m12.readLE (F - p.w) p.w = ra := by
        rw [← hra5]; apply Mem.readLE_congr; intro x h1 _
        rw [hsame12.2 x (by omega) (Or.inr (by omega))]
        exact hsame11.2 x (by omega) (Or.inr (by omega))
      have hklt : (digits H).length < H := by
        have := digits_len_lt_half (M := 256 ^ p.w) hM (by omega : H ≤ 256 ^ p.w / 2)
        omega
      obtain ⟨m', hfin, hsame'⟩ := fin m12 F ra r1' (digits H).length (digits H) (digits_pos H)
        (by omega) hroom h7 hFM (by rw [hsame12.1]; exact hFsz11) hr12 hbytes hra12
      refine ⟨m', ?_, ?_⟩
      · have := neg.trans (f6.trans ((Reach.of_next (sys := sphinx p) s8).trans ((Reach.of_next (sys := sphinx p) s9).trans
          ((Reach.of_next (sys := sphinx p) s10).trans ((Reach.of_next (sys := sphinx p) s11).trans
          (j12.trans (hpush.trans hfin)))))))
        have hd : decimalW (256 ^ p.w) v = 45 :: digits H := by
          simp only [decimalW]; rw [if_neg (by omega)]
          have : 256 ^ p.w - v = H := by omega
          rw [this]
        rw [hd]
        simpa [evl, outs] using this
      · refine ⟨?_, fun x hx hxr => ?_⟩
        · rw [hsame'.1, hsame12.1, hsame11.1, hsame5.1, hsame1.1]
        · rw [hsame'.2 x hx (Or.inr (by omega)), hsame12.2 x hx hxr,
              hsame11.2 x hx (Or.inr (by omega)), hsame5.2 x hx (Or.inr (by omega))]
          exact hsame1.2 x hx (Or.inr (by omega))

end HidVerif.Sphinx
