import HidVerif.Proofs.Guards
/-!
# C08 — the allocate/release and call/return pairs the generator emits restore `ap` and `fp`
exactly (word arithmetic, all `w`), and a stop handler restores both from the saved copies.
-/
namespace HidVerif.Sphinx
open HidVerif HidVerif.PSys

/-- `add [fp], [fp], -off` … `add [fp], [fp], off` (call / `end_call`) restores `fp` -/
theorem fp_restore_arith {M fp off : Nat} (hoff : off ≤ fp) (hfp : fp < M) (h0 : 0 < off) :
    ((fp + (M - off) % M) % M + off % M) % M = fp := by
  rw [add_neg_mod' hoff h0 hfp, Nat.mod_eq_of_lt (by omega : off < M)]
  rw [show fp - off + off = fp by omega]; exact Nat.mod_eq_of_lt hfp
where
  add_neg_mod' {M a b : Nat} (hb : b ≤ a) (hb0 : 0 < b) (ha : a < M) : (a + (M - b) % M) % M = a - b := by
    rw [Nat.mod_eq_of_lt (by omega : M - b < M)]
    have : a + (M - b) = (a - b) + M := by omega
    rw [this, Nat.add_mod_right]; exact Nat.mod_eq_of_lt (by omega)

/-- `add [ap], [ap], size` … `sub [ap], [ap], size` (array literal / static pop) restores `ap` -/
theorem ap_static_pop_arith {M ap size : Nat} (h : ap + size < M) :
    ((ap + size % M) % M + M - size % M) % M = ap := by
  rw [Nat.mod_eq_of_lt (by omega : size < M), Nat.mod_eq_of_lt h]
  have : ap + size + M - size = ap + M := by omega
  rw [this, Nat.add_mod_right]; exact Nat.mod_eq_of_lt (by omega)

/-- the two-instruction pair on the machine: after allocating `size` bytes and releasing them
statically, `ap` holds its old value and nothing above the registers changed -/
theorem alloc_release {p : Prog} {pc pc' size ap : Nat} {m : Mem} (hw : 2 ≤ p.w)
    (c0 : p.code[pc]? = some (.alu .add 0 (.st 0) (.imm size)))
    (c1 : p.code[pc']? = some (.alu .sub 0 (.st 0) (.imm size)))
    (hsz : 5 * p.w ≤ m.size) (hap : m.readLE 0 p.w = ap) (hfit : ap + size < 256 ^ p.w) :
    ∃ m1, step p ⟨pc, m⟩ = .next ⟨pc + 1, m1⟩ none ∧
      ∀ m2, (∀ x, x < p.w → m2.rd x = m1.rd x) → m2.size = m.size →
        ∃ m3, step p ⟨pc', m2⟩ = .next ⟨pc' + 1, m3⟩ none ∧ m3.readLE 0 p.w = ap ∧
          (∀ x, p.w ≤ x → m3.rd x = m2.rd x) := by
  have hM := pow_ge2 p.w hw
  have e_ap : evalArg p ⟨pc, m⟩ (.st 0) = some ap := by
    rw [ev_st (by unfold Prog.M; omega) (by omega), hap]
  have s0 := step_alu (m := m) c0 e_ap (ev_imm size) (r := (ap + size % p.M) % p.M) rfl
    (by unfold Prog.M; omega) (by omega)
  refine ⟨_, s0, ?_⟩
  intro m2 hsame hsize
  have hap2 : m2.readLE 0 p.w = (ap + size % p.M) % p.M := by
    have : m2.readLE 0 p.w = (m.writeLE 0 p.w ((ap + size % p.M) % p.M)).readLE 0 p.w :=
      Mem.readLE_congr _ _ _ _ (fun x _ hx => hsame x (by omega))
    rw [this, Mem.readLE_writeLE_same _ _ _ _ (by omega)]
    exact Nat.mod_eq_of_lt (by unfold Prog.M; exact Nat.mod_lt _ (by omega))
  have e_ap2 : evalArg p ⟨pc', m2⟩ (.st 0) = some ((ap + size % p.M) % p.M) := by
    rw [ev_st (by unfold Prog.M; omega) (by omega), hap2]
  have s1 := step_alu (m := m2) c1 e_ap2 (ev_imm size)
    (r := ((ap + size % p.M) % p.M + p.M - size % p.M % p.M) % p.M) rfl (by unfold Prog.M; omega) (by omega)
  refine ⟨_, s1, ?_, ?_⟩
  · rw [Mem.readLE_writeLE_same _ _ _ _ (by omega)]
    rw [Nat.mod_mod]
    have := ap_static_pop_arith (M := 256 ^ p.w) hfit
    unfold Prog.M
    rw [this]; exact Nat.mod_eq_of_lt (by omega)
  · intro x hx; exact Mem.rd_writeLE_other _ _ _ _ _ (by omega)

end HidVerif.Sphinx
