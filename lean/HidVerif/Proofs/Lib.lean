import HidVerif.Proofs.Step
import HidVerif.Gen.Stdlib
/-!
# The runtime library in a program: placement, register view, frame conditions, byte strings
-/
namespace HidVerif.Sphinx
open HidVerif HidVerif.PSys HidVerif.Gen

theorem stdlib_offsets (w B : Nat) : OffsetsFrom 0 (stdlibRoutineCode w B) := by
  unfold stdlibRoutineCode
  repeat (first | exact trivial | refine ⟨rfl, ?_⟩)

theorem stdlib_flatten (w B : Nat) :
    stdlibCode w B = ((stdlibRoutineCode w B).map (·.2)).flatten := by
  simp [stdlibCode, stdlibRoutineCode]

/-- The runtime library of the current source tree sits at code address `B` of `p`, and the
registers are where `gen_lines` puts them. -/
structure Placed (p : Prog) (B : Nat) : Prop where
  hw : 2 ≤ p.w
  code : PlacedAt p B (stdlibCode p.w B)
  hB : B + stdlibLength < 256 ^ p.w

theorem Placed.routine {p : Prog} {B : Nat} (hp : Placed p B) {o : Nat} {c : List Instr}
    (hm : (o, c) ∈ stdlibRoutineCode p.w B) : PlacedAt p (B + o) c := by
  have h := hp.code
  rw [stdlib_flatten] at h
  exact placed_routines (stdlib_offsets p.w B) (by simpa using h) (o, c) hm

end HidVerif.Sphinx
