import HidVerif.Compiler.Templates
import HidVerif.Proofs.Terminal
/-!
# What the generator's guard templates do — for every word size and all operand values

A guard is `j ok; h<c> a b; j stub; halt; ok:`.  If the condition holds the committed run is at
`ok` with memory *unchanged* (the guard is a pure observer: whatever sits between the jump and
the halt is on the path not taken); if it fails the run is in the error stub.
-/
namespace HidVerif.Sphinx
open HidVerif HidVerif.PSys HidVerif.Gen HidVerif.Compiler

section guard
variable {p : Prog} {pc ok stub : Nat} {c : HaltOp} {a b : Arg} {m : Mem} {x y : Nat}

theorem guard_code (h : PlacedAt p pc (guardT ok c a b stub)) :
    p.code[pc]? = some (.j (.imm ok)) ∧ p.code[pc + 1]? = some (.hcond c a b) ∧
    p.code[pc + 1 + 1]? = some (.j (.imm stub)) ∧ p.code[pc + 1 + 1 + 1]? = some .halt := by
  have c0 := h 0 (by simp [guardT]); have c1 := h 1 (by simp [guardT])
  have c2 := h 2 (by simp [guardT]); have c3 := h 3 (by simp [guardT])
  simp only [guardT, List.getElem_cons_succ, List.getElem_cons_zero, Nat.add_zero] at c0 c1 c2 c3
  exact ⟨c0, c1, by simpa [Nat.add_assoc] using c2, by simpa [Nat.add_assoc] using c3⟩

/-- the guard passes: control is at `ok`, nothing was written, nothing emitted -/
theorem guard_pass (h : PlacedAt p pc (guardT ok c a b stub)) (hok : ok < 256 ^ p.w)
    (ha : ∀ pc', evalArg p ⟨pc', m⟩ a = some x) (hb : ∀ pc', evalArg p ⟨pc', m⟩ b = some y)
    (hc : haltCond p.M c x y = true) : Reach (sphinx p) ⟨pc, m⟩ [] ⟨ok, m⟩ := by
  obtain ⟨c0, c1, _, _⟩ := guard_code h
  have s0 := step_j (m := m) c0 (ev_imm ok)
  rw [show ok % p.M = ok from Nat.mod_eq_of_lt (by unfold Prog.M; exact hok)] at s0
  have s1 := step_hcond (m := m) c1 (ha _) (hb _)
  rw [hc] at s1
  have s1h : step p ⟨pc + 1, m⟩ = .halt := by simpa using s1
  exact Reach.jump_taken (sys := sphinx p) s0 s1h

/-- the guard fails: the committed run goes to the stub (which never halts), memory unchanged -/
theorem guard_fail (h : PlacedAt p pc (guardT ok c a b stub)) (hok : ok < 256 ^ p.w) (hst : stub < 256 ^ p.w)
    (ha : ∀ pc', evalArg p ⟨pc', m⟩ a = some x) (hb : ∀ pc', evalArg p ⟨pc', m⟩ b = some y)
    (hc : haltCond p.M c x y = false) (hstub : ¬ Halts (sphinx p) ⟨stub, m⟩) :
    Exec (sphinx p) ⟨pc, m⟩ [] ⟨stub, m⟩ ∧ ¬ Halts (sphinx p) ⟨pc, m⟩ := by
  obtain ⟨c0, c1, c2, c3⟩ := guard_code h
  have s0 := step_j (m := m) c0 (ev_imm ok)
  rw [show ok % p.M = ok from Nat.mod_eq_of_lt (by unfold Prog.M; exact hok)] at s0
  have s1 := step_hcond (m := m) c1 (ha _) (hb _)
  rw [hc] at s1
  have s2 := step_j (m := m) c2 (ev_imm stub)
  rw [show stub % p.M = stub from Nat.mod_eq_of_lt (by unfold Prog.M; exact hst)] at s2
  have s3 := step_halt (m := m) c3
  have r12 : Reach (sphinx p) ⟨pc + 1, m⟩ [] ⟨stub, m⟩ := by
    have s1n : step p ⟨pc + 1, m⟩ = .next ⟨pc + 1 + 1, m⟩ none := by simpa using s1
    have := (Reach.of_next (sys := sphinx p) s1n).trans (Reach.jump_taken (sys := sphinx p) s2 s3)
    simpa [evl] using this
  have hn1 : ¬ Halts (sphinx p) ⟨pc + 1, m⟩ := (r12.exec hstub).2
  have r0 : Reach (sphinx p) ⟨pc, m⟩ [] ⟨pc + 1, m⟩ :=
    Reach.jump_not_taken (sys := sphinx p) s0 (fun hh => absurd hh hn1)
  have := (r0.trans r12).exec hstub
  simpa using this
end guard

/-! ## the arithmetic the guards rely on (modulus symbolic) -/

/-- unsigned `idx < len` is the two-sided bounds check, because lengths are non-negative -/
theorem index_guard_arith {M idx len : Nat} (hlen : len < M / 2) (hidx : idx < M) :
    idx < len ↔ (0 ≤ toS M idx ∧ toS M idx < (len : Int)) := by
  unfold toS; split <;> omega

/-- `len ≤ max_length` excludes negative lengths and sizes that wrap -/
theorem length_guard_arith {M w len : Nat} (hw : 0 < w) (hH : 0 < M / 2) (hlen : len ≤ (M / 2 - 1) / w) :
    len * w < M / 2 ∧ toS M len = (len : Int) := by
  have h1 : len * w ≤ M / 2 - 1 :=
    Nat.le_trans (Nat.mul_le_mul_right w hlen) (Nat.div_mul_le_self _ _)
  have h2 : len ≤ len * w := Nat.le_mul_of_pos_right _ hw
  refine ⟨by omega, ?_⟩
  unfold toS; split <;> omega

end HidVerif.Sphinx
