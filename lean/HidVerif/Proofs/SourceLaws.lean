import HidVerif.Hid.Machine
import HidVerif.Proofs.Driver
/-!
# Laws of the reference semantics (C02): what try/undo, try/stop, preempt and `??` mean

`Defeats E c` is `Halts (machine E) c`: continuing from `c` leads to (real) defeat whatever
the later Turing jumps do.  Each construct is a Turing jump, so the generic `jump_law` gives the
"iff would reach defeat" reading directly.
-/
namespace HidVerif.Hid
open HidVerif HidVerif.PSys

abbrev Defeats (E : Env) (c : Cfg) : Prop := Halts (machine E) c

/-- the absorbing end state (win or error) never defeats -/
theorem done_never_defeats (E : Env) (c : Cfg) (h : isDone c = true) : ¬ Defeats E c := by
  apply safe_not_halts (sys := machine E) (fun c => isDone c = true) _ c h
  intro c hc
  have : c.ctl = .done := by
    unfold isDone at hc; split at hc <;> simp_all
  simp [machine, step, this, hc]

/-- **S5 for the reference machine** -/
theorem interp_sound (E : Env) (fuel : Nat) (c₀ : Cfg) :
    Sound (machine E) isDone c₀ ((machine E).run isDone (fun _ => #[]) fuel c₀) :=
  run_sound isDone (done_never_defeats E) fuel c₀

section laws
variable (E : Env) (c : Cfg)

/-- try/undo: the configuration that runs the try body / the undo block -/
def undoBody (body : Stmt) : Cfg := { c with ctl := .exec body, kont := .tryK :: c.kont }
def undoHandler (h : Stmt) : Cfg := { c with ctl := .exec h }

theorem undo_step (body h : Stmt) (hc : c.ctl = .exec (.tryb body .undo h)) :
    (machine E).step c = .jump (undoBody c body) (undoHandler c h) := by
  simp [machine, step, hc, undoBody, undoHandler]

/-- **undo law**: exactly one of the two blocks is entered on the committed timeline — the undo
block iff running the try body (with its preempts resolved in its favour, which is what
`Defeats` means) would reach defeat; nothing of the other block is observable (`none`). -/
theorem undo_law (body h : Stmt) (hc : c.ctl = .exec (.tryb body .undo h)) :
    (Defeats E (undoBody c body) → CStep (machine E) c none (undoHandler c h)) ∧
    (¬ Defeats E (undoBody c body) → CStep (machine E) c none (undoBody c body)) :=
  jump_law (undo_step E c body h hc)

/-- preempt while defeat is real: runs iff skipping it would reach defeat -/
theorem preempt_law (body : Stmt) (hc : c.ctl = .exec (.preempt body)) (hm : c.mode = none) :
    (Defeats E { c with ctl := .ret .unit } → CStep (machine E) c none { c with ctl := .exec body }) ∧
    (¬ Defeats E { c with ctl := .ret .unit } → CStep (machine E) c none { c with ctl := .ret .unit }) := by
  have : (machine E).step c = .jump { c with ctl := .ret .unit } { c with ctl := .exec body } := by
    simp [machine, step, hc, hm]
  exact jump_law this

/-- preempt while defeat is caught by a stop handler (defeat was inevitable): always runs -/
theorem preempt_forced (body : Stmt) (sn : Snap) (hc : c.ctl = .exec (.preempt body)) (hm : c.mode = some sn) :
    CStep (machine E) c none { c with ctl := .exec body } := by
  apply CStep.next; simp [machine, step, hc, hm]

/-- try/stop: the body runs with defeat real, or — iff that would reach defeat — with defeat
caught by the handler, which remembers the environment and continuation of the `try` -/
def stopReal (body : Stmt) : Cfg := { c with ctl := .exec body, kont := .tryK :: c.kont, mode := none }
def stopCaught (body h : Stmt) : Cfg :=
  { c with ctl := .exec body, kont := .tryK :: c.kont, mode := some ⟨c.env, c.kont, h⟩ }

theorem stop_law (body h : Stmt) (hc : c.ctl = .exec (.tryb body .stop h)) :
    (Defeats E (stopReal c body) → CStep (machine E) c none (stopCaught c body h)) ∧
    (¬ Defeats E (stopReal c body) → CStep (machine E) c none (stopReal c body)) := by
  have : (machine E).step c = .jump (stopReal c body) (stopCaught c body h) := by
    simp [machine, step, hc, stopReal, stopCaught]
  exact jump_law this

/-- a caught defeat enters the handler with the environment and continuation (hence frame and
array stack) of the `try` statement, and with defeat real again -/
theorem defeat_caught (sn : Snap) (hm : c.mode = some sn) :
    doDefeat c = .next { c with ctl := .exec sn.handler, env := sn.env, kont := sn.kont, mode := none } none := by
  simp [doDefeat, hm]

theorem defeat_real (hm : c.mode = none) : doDefeat c = .halt := by
  simp [doDefeat, hm]

/-- `a ?? b` after `b` has been evaluated to `v`: a Turing jump between evaluating `a` and
yielding `v` -/
theorem spec_law (l : Expr) (v : Val) (k : List Frame) (hc : c.ctl = .ret v) (hk : c.kont = .specR l :: k) :
    (Defeats E { c with ctl := .eval l, kont := .specL v :: k } →
        CStep (machine E) c none { c with ctl := .ret v, kont := k }) ∧
    (¬ Defeats E { c with ctl := .eval l, kont := .specL v :: k } →
        CStep (machine E) c none { c with ctl := .eval l, kont := .specL v :: k }) := by
  have : (machine E).step c = .jump { c with ctl := .eval l, kont := .specL v :: k } { c with ctl := .ret v, kont := k } := by
    simp [machine, step, hc, hk]
  exact jump_law this

/-- … and once `a` has a value: equal to `b`'s means defeat of the speculative branch (so the
jump is taken and `a`'s evaluation is never observed); different means the result is `a`'s -/
theorem spec_compare (a b : Nat) (k : List Frame) (hc : c.ctl = .ret (.num a)) (hk : c.kont = .specL (.num b) :: k) :
    (machine E).step c = if a = b then .halt else .next { c with ctl := .ret (.num a), kont := k } none := by
  by_cases h : a = b <;> simp [machine, step, hc, hk, h]

end laws
end HidVerif.Hid
