import HidVerif.Proofs.CoreMem
import HidVerif.Proofs.Terminal
/-!
# Core compiler proofs: expressions

`cE_ok`: the code `eval_expr` emits for an integer expression computes the value the source
semantics `evalE` gives (for every word size, every placement, every frame), leaves the
frame above the current offset untouched, and — in checked builds — reaches the
`division_by_zero` stub exactly when the source semantics faults.
-/
namespace HidVerif.Core
open HidVerif HidVerif.PSys HidVerif.Sphinx HidVerif.Gen

/-- variables of `Γ` live between the return address and the current offset and hold their values -/
def VarsOK (w : Nat) (Γ : Gam) (env : Env) (m : Mem) (F o : Nat) : Prop :=
  ∀ x, (Γ.map Prod.fst).contains x = true →
    2 * w ≤ look Γ x ∧ look Γ x ≤ o ∧ m.readLE (F - look Γ x) w = env x

theorem VarsOK.keep {w : Nat} {Γ : Gam} {env : Env} {m m' : Mem} {F o o' a : Nat}
    (h : VarsOK w Γ env m F o) (k : Keep w m m' a) (ha : a ≤ F - o) (hoo : o ≤ o') :
    VarsOK w Γ env m' F o' := by
  intro x hx
  obtain ⟨h1, h2, h3⟩ := h x hx
  exact ⟨h1, by omega, by rw [k.read _ _ (by omega)]; exact h3⟩

theorem pkE_ge (w : Nat) (e : E) : ∀ (o : Nat) (keep : Bool), o ≤ pkE w o e keep := by
  induction e with
  | lit v => intros; simp [pkE]
  | var x => intros; simp [pkE]
  | bin op l r ihl _ => intro o keep; have := ihl o (!isSafe r); simp only [pkE]; omega
  | neg e ih => intro o keep; have := ih o false; simp only [pkE]; omega
  | pos e ih => intro o keep; have := ih o false; simp only [pkE]; omega

/-! ### effect of a register write on what accessors denote -/
theorem valOf_wreg_same (w : Nat) (m : Mem) (F r x : Nat) (hx : x < 256 ^ w) (hr : r + w ≤ m.size) :
    valOf w (m.writeLE r w x) F (.reg r) = x := by
  simp only [valOf]; rw [Mem.readLE_writeLE_same _ _ _ _ hr, Nat.mod_eq_of_lt hx]

/-- accessor `u` does not live in `[d, d+w)` -/
def Away (w F d : Nat) : Opd → Prop
  | .imm _ => True
  | .reg a => a + w ≤ d ∨ d + w ≤ a
  | .slot s => (F - s) + w ≤ d ∨ d + w ≤ F - s

theorem valOf_write_away (w : Nat) (m : Mem) (F d x : Nat) (u : Opd) (h : Away w F d u) :
    valOf w (m.writeLE d w x) F u = valOf w m F u := by
  cases u with
  | imm i => rfl
  | reg a => simp only [Away] at h; simp only [valOf]; exact Mem.readLE_writeLE_disj _ _ _ _ _ _ (by omega)
  | slot s => simp only [Away] at h; simp only [valOf]; exact Mem.readLE_writeLE_disj _ _ _ _ _ _ (by omega)

section
variable {p : Prog} {ck : Bool} {B : Nat} {dA : Nat} {pc : Nat} {m : Mem} {F D : Nat}

theorem placed_one {i : Instr} (h : PlacedAt p pc [i]) : p.code[pc]? = some i := by
  simpa using h 0 (by simp)

theorem ld_reach (hw : 2 ≤ p.w) (fr : Fr p m F D) (r s : Nat) (h : PlacedAt p pc [ldSlot (cxOf p ck B dA) r s])
    (hs0 : p.w ≤ s) (hsD : s ≤ D) (hr : r + p.w ≤ 5 * p.w) :
    Reach (sphinx p) ⟨pc, m⟩ [] ⟨pc + 1, m.writeLE r p.w (m.readLE (F - s) p.w)⟩ := by
  have := Reach.of_next (sys := sphinx p) (step_ldSlot ck B r s hw fr (placed_one h) hs0 hsD hr)
  simpa [evl] using this

theorem st_reach (hw : 2 ≤ p.w) (fr : Fr p m F D) (s : Nat) (v : Arg) (x : Nat)
    (h : PlacedAt p pc [stSlot (cxOf p ck B dA) s v]) (hv : evalArg p ⟨pc, m⟩ v = some x)
    (hs0 : p.w ≤ s) (hsD : s ≤ D) :
    Reach (sphinx p) ⟨pc, m⟩ [] ⟨pc + 1, m.writeLE (F - s) p.w x⟩ := by
  have := Reach.of_next (sys := sphinx p) (step_stSlot ck B s v x hw fr (placed_one h) hv hs0 hsD)
  simpa [evl] using this
end

/-- accessors that can be used as instruction operands -/
def IsArg (w : Nat) : Opd → Prop
  | .imm _ => True
  | .reg a => a + w ≤ 5 * w
  | .slot _ => False

/-- accessors `getOp` accepts -/
def Gettable (w D : Nat) : Opd → Prop
  | .imm _ => True
  | .reg a => a + w ≤ 5 * w
  | .slot s => w ≤ s ∧ s ≤ D

section
variable {p : Prog} {ck : Bool} {B : Nat} {dA : Nat} {pc : Nat} {m : Mem} {F D : Nat}

/-- `value.get(r)`: at most one load; afterwards the result is an operand denoting the same value -/
theorem getOp_ok (hw : 2 ≤ p.w) (fr : Fr p m F D) (r : Nat) (v : Opd)
    (hr : 2 * p.w ≤ r ∧ r + p.w ≤ 5 * p.w) (hv : Gettable p.w D v)
    (h : PlacedAt p pc (getOp (cxOf p ck B dA) r v).1) :
    ∃ m', Reach (sphinx p) ⟨pc, m⟩ [] ⟨pc + (getOp (cxOf p ck B dA) r v).1.length, m'⟩ ∧
      Keep p.w m m' (5 * p.w) ∧
      valOf p.w m' F (getOp (cxOf p ck B dA) r v).2 = valOf p.w m F v ∧
      (∀ u, Away p.w F r u → valOf p.w m' F u = valOf p.w m F u) ∧
      IsArg p.w (getOp (cxOf p ck B dA) r v).2 := by
  cases v with
  | imm i => exact ⟨m, by simpa [getOp] using Reach.refl, Keep.refl _ _ _, rfl, fun _ _ => rfl, trivial⟩
  | reg a => exact ⟨m, by simpa [getOp] using Reach.refl, Keep.refl _ _ _, rfl, fun _ _ => rfl, hv⟩
  | slot s =>
    obtain ⟨hs0, hsD⟩ := hv
    have hroom := fr.room; have htop := fr.top
    refine ⟨m.writeLE r p.w (m.readLE (F - s) p.w), ?_, ?_, ?_, ?_, ?_⟩
    · simpa [getOp] using ld_reach (ck := ck) (dA := dA) (B := B) hw fr r s (by simpa [getOp] using h) hs0 hsD hr.2
    · exact Keep.write _ _ _ _ _ _ hr.1 hr.2
    · simp only [getOp]
      exact valOf_wreg_same _ _ _ _ _ (Mem.readLE_lt _ _ _) (by omega)
    · intro u hu; exact valOf_write_away _ _ _ _ _ _ hu
    · simp only [getOp, IsArg]; omega

theorem aluOp_none {M n : Nat} {op : AOp} {x y : Nat} (h : aluOp M n (aluOf op) x y = none) :
    needsGuard op = true ∧ y % M = 0 := by
  cases op <;> simp [aluOf, aluOp, needsGuard] at h ⊢ <;> exact h

theorem aluOp_guard {M n : Nat} {op : AOp} {x y z : Nat} (h : aluOp M n (aluOf op) x y = some z)
    (hg : needsGuard op = true) : y % M ≠ 0 := by
  cases op <;> simp [aluOf, aluOp, needsGuard] at h hg ⊢ <;> exact h.1

/-- `arith_op_reg_arg`: the operation, behind the division guard in checked builds -/
theorem arith_ok (lib : Placed p B) (fr : Fr p m F D) (op : AOp) (rout : Nat) (va vb : Opd) (x y : Nat)
    (hrout : 2 * p.w ≤ rout ∧ rout + p.w ≤ 5 * p.w)
    (ha : IsArg p.w va) (hb : IsArg p.w vb) (hx : valOf p.w m F va = x) (hy : valOf p.w m F vb = y)
    (h : PlacedAt p pc (arith (cxOf p ck B dA) pc op rout (va.arg (cxOf p ck B dA)) (vb.arg (cxOf p ck B dA))))
    (hB : pc + (arith (cxOf p ck B dA) pc op rout (va.arg (cxOf p ck B dA)) (vb.arg (cxOf p ck B dA))).length ≤ B) :
    (∀ z, aluOp (256 ^ p.w) (8 * p.w) (aluOf op) x y = some z →
      Reach (sphinx p) ⟨pc, m⟩ []
        ⟨pc + (arith (cxOf p ck B dA) pc op rout (va.arg (cxOf p ck B dA)) (vb.arg (cxOf p ck B dA))).length,
         m.writeLE rout p.w z⟩) ∧
    (aluOp (256 ^ p.w) (8 * p.w) (aluOf op) x y = none → ck = true →
      Reach (sphinx p) ⟨pc, m⟩ [] ⟨B + off_division_by_zero, m⟩) := by
  have hw := lib.hw
  have h64 := mul_w_lt_pow p.w hw
  have hM := pow_ge2 p.w hw
  have hroom := fr.room; have htop := fr.top
  have ea : evalArg p ⟨pc, m⟩ (va.arg (cxOf p ck B dA)) = some x := by
    rw [← hx]; cases va <;> first | exact ev_opd ck B hw fr _ (by simpa [IsArg] using ha) | exact absurd ha (by simp [IsArg])
  have hBlt := lib.hB
  by_cases hg : (needsGuard op && ck) = true
  · -- guarded
    simp only [arith, hg, if_true] at h hB ⊢
    have c0 := h 0 (by simp); have c1 := h 1 (by simp); have c2 := h 2 (by simp)
    have c3 := h 3 (by simp); have c4 := h 4 (by simp)
    simp only [List.getElem_cons_succ, List.getElem_cons_zero, Nat.add_zero, List.length_cons, List.length_nil] at c0 c1 c2 c3 c4 hB
    have eb1 : evalArg p ⟨pc + 1, m⟩ (vb.arg (cxOf p ck B dA)) = some y := by
      rw [← hy]; cases vb <;> first | exact ev_opd ck B hw fr _ (by simpa [IsArg] using hb) | exact absurd hb (by simp [IsArg])
    have eb4 : evalArg p ⟨pc + 4, m⟩ (vb.arg (cxOf p ck B dA)) = some y := by
      rw [← hy]; cases vb <;> first | exact ev_opd ck B hw fr _ (by simpa [IsArg] using hb) | exact absurd hb (by simp [IsArg])
    have ea4 : evalArg p ⟨pc + 4, m⟩ (va.arg (cxOf p ck B dA)) = some x := by
      rw [← hx]; cases va <;> first | exact ev_opd ck B hw fr _ (by simpa [IsArg] using ha) | exact absurd ha (by simp [IsArg])
    have s0 := step_j (m := m) c0 (ev_imm (pc + 4))
    rw [show (pc + 4) % p.M = pc + 4 from Nat.mod_eq_of_lt (by unfold Prog.M; omega)] at s0
    have s1 := step_hcond (m := m) c1 eb1 (ev_imm 0)
    simp only [haltCond, Nat.zero_mod] at s1
    have hyM : y < 256 ^ p.w := by
      rw [← hy]; cases vb with
      | imm i => exact wrapI_lt (by omega) i
      | reg a => exact Mem.readLE_lt _ _ _
      | slot s => exact absurd hb (by simp [IsArg])
    refine ⟨fun z hz => ?_, fun hn hck => ?_⟩
    · have hy0 : y % 256 ^ p.w ≠ 0 := aluOp_guard hz (by simpa using (Bool.and_eq_true _ _ ▸ hg).1)
      have hyne : y ≠ 0 := by intro h0; rw [h0] at hy0; simp at hy0
      simp [hyne] at s1
      have j := Reach.jump_taken (sys := sphinx p) s0 s1
      have s4 := step_alu (m := m) c4 ea4 eb4 hz (by unfold Prog.M; omega) (by omega)
      have := j.trans (Reach.of_next (sys := sphinx p) s4)
      simpa [evl, Nat.add_assoc] using this
    · have hy0 := (aluOp_none hn).2
      have hy00 : y = 0 := by rwa [Nat.mod_eq_of_lt hyM] at hy0
      simp [hy00] at s1
      have s2 := step_j (m := m) c2 (ev_imm (B + off_division_by_zero))
      rw [show (B + off_division_by_zero) % p.M = B + off_division_by_zero from
        Nat.mod_eq_of_lt (by unfold Prog.M; simp [off_division_by_zero, stdlibLength] at *; omega)] at s2
      have s3 := step_halt (m := m) c3
      have j2 : Reach (sphinx p) ⟨pc + 1 + 1, m⟩ [] ⟨B + off_division_by_zero, m⟩ :=
        Reach.jump_taken (sys := sphinx p) s2 s3
      have nh : ¬ Halts (sphinx p) ⟨pc + 1 + 1, m⟩ := (j2.exec (terminal_never_halts lib m).2.2.2.1).2
      have fall : Reach (sphinx p) ⟨pc, m⟩ [] ⟨pc + 1 + 1, m⟩ :=
        Reach.jump_fallthrough (sys := sphinx p) s0 s1 (fun hh => absurd hh nh)
      simpa using fall.trans j2
  · -- unguarded
    simp only [arith, hg] at h hB ⊢
    have c0 := placed_one h
    have eb : evalArg p ⟨pc, m⟩ (vb.arg (cxOf p ck B dA)) = some y := by
      rw [← hy]; cases vb <;> first | exact ev_opd ck B hw fr _ (by simpa [IsArg] using hb) | exact absurd hb (by simp [IsArg])
    refine ⟨fun z hz => ?_, fun hn hck => ?_⟩
    · have s := step_alu (m := m) c0 ea eb hz (by unfold Prog.M; omega) (by omega)
      simpa [evl] using Reach.of_next (sys := sphinx p) s
    · exfalso
      have := (aluOp_none hn).1
      simp [this, hck] at hg
end

/-! ### where the result of `cE` lives -/
def Loc (w D o1 rout : Nat) : Opd → Prop
  | .imm _ => True
  | .reg a => a = rout
  | .slot s => w ≤ s ∧ s ≤ D ∧ s ≤ o1

theorem pkE_keep_ge (w : Nat) (e : E) (o : Nat) (h : isSafe e = false) : o + w ≤ pkE w o e true := by
  cases e <;> simp [isSafe] at h <;> simp [pkE] <;> omega

theorem cE_loc (cx : Cx) (Γ : Gam) (env : Env) (m : Mem) (F D : Nat) (e : E) (pc o rout : Nat) (keep : Bool)
    (hvars : VarsOK cx.w Γ env m F o) (hb : boundE (Γ.map Prod.fst) e = true)
    (hpk : pkE cx.w o e keep ≤ D) (ho : cx.w ≤ o) :
    (cE cx Γ pc o rout e keep).2.2 = (keep && !isSafe e) ∧
    Loc cx.w D (if (cE cx Γ pc o rout e keep).2.2 then o + cx.w else o) rout (cE cx Γ pc o rout e keep).2.1 ∧
    (keep = true → ∀ a, (cE cx Γ pc o rout e keep).2.1 ≠ .reg a) := by
  have hs := cE_shape cx Γ e pc o rout keep
  have e1 : (cE cx Γ pc o rout e keep).2.1 = (shape cx Γ o rout e keep).1 := by rw [← hs]
  have e2 : (cE cx Γ pc o rout e keep).2.2 = (shape cx Γ o rout e keep).2 := by rw [← hs]
  rw [e1, e2]
  have hge := pkE_ge cx.w e o keep
  cases e with
  | lit v => simp [shape, isSafe, Loc]
  | var x =>
    simp only [boundE] at hb
    obtain ⟨h1, h2, _⟩ := hvars x hb
    simp [shape, isSafe, Loc]; omega
  | bin op l r =>
    cases keep
    · simp [shape, isSafe, Loc]
    · have := pkE_keep_ge cx.w (.bin op l r) o rfl
      refine ⟨by simp [shape, isSafe], ?_, by simp [shape]⟩
      simp only [shape, Loc, if_true]; omega
  | neg e =>
    cases keep
    · simp [shape, isSafe, Loc]
    · have := pkE_keep_ge cx.w (.neg e) o rfl
      refine ⟨by simp [shape, isSafe], ?_, by simp [shape]⟩
      simp only [shape, Loc, if_true]; omega
  | pos e =>
    cases keep
    · simp [shape, isSafe, Loc]
    · have := pkE_keep_ge cx.w (.pos e) o rfl
      refine ⟨by simp [shape, isSafe], ?_, by simp [shape]⟩
      simp only [shape, Loc, if_true]; omega

section
variable {p : Prog} {ck : Bool} {B : Nat} {dA : Nat} {pc : Nat} {m : Mem} {F D : Nat}

theorem ev_reg (hw : 2 ≤ p.w) (fr : Fr p m F D) (a : Nat) (ha : a + p.w ≤ 5 * p.w) :
    evalArg p ⟨pc, m⟩ (.st a) = some (m.readLE a p.w) := by
  have h64 := mul_w_lt_pow p.w hw
  have := fr.top; have := fr.room
  exact ev_st (by unfold Prog.M; omega) (by omega)

/-- the tail of `eval_expr`: push the register result when `keep` -/
theorem finish_ok (hw : 2 ≤ p.w) (fr : Fr p m F D) (o rout : Nat) (keep : Bool) (c : List Instr) (m5 : Mem) (v : Nat)
    (hrout : rout = 2 * p.w ∨ rout = 3 * p.w)
    (hpl : PlacedAt p pc (finish (cxOf p ck B dA) o rout keep c).1)
    (hreach : Reach (sphinx p) ⟨pc, m⟩ [] ⟨pc + c.length, m5⟩) (hk : Keep p.w m m5 (F - o))
    (hv : m5.readLE rout p.w = v) (ho : p.w ≤ o) (hD : keep = true → o + p.w ≤ D) (hoD : o ≤ D) :
    ∃ m', Reach (sphinx p) ⟨pc, m⟩ [] ⟨pc + (finish (cxOf p ck B dA) o rout keep c).1.length, m'⟩ ∧
      Keep p.w m m' (F - o) ∧ valOf p.w m' F (finish (cxOf p ck B dA) o rout keep c).2.1 = v := by
  cases keep with
  | false => exact ⟨m5, by simpa [finish] using hreach, hk, by simpa [finish, valOf] using hv⟩
  | true =>
    have hoD' := hD rfl
    have fr5 := fr.keep hk
    have hroom := fr.room; have htop := fr.top
    simp only [finish, if_true] at hpl ⊢
    obtain ⟨_, h2⟩ := hpl.append
    have e := ev_reg (pc := pc + c.length) hw fr5 rout (by omega)
    rw [hv] at e
    have st := st_reach (ck := ck) (dA := dA) (B := B) hw fr5 (o + p.w) (.st rout) v h2 e (by omega) hoD'
    refine ⟨m5.writeLE (F - (o + p.w)) p.w v, ?_, ?_, ?_⟩
    · have := hreach.trans st
      simpa [List.length_append, Nat.add_assoc] using this
    · exact hk.trans' (Keep.write _ _ _ _ _ _ (by omega) (by omega))
    · simp only [valOf]
      rw [Mem.readLE_writeLE_same _ _ _ _ (by rw [hk.size]; omega)]
      exact Nat.mod_eq_of_lt (by rw [← hv]; exact Mem.readLE_lt _ _ _)
end

theorem finish_prefix {p : Prog} {pc : Nat} (cx : Cx) (o rout : Nat) (keep : Bool) (c : List Instr)
    (h : PlacedAt p pc (finish cx o rout keep c).1) :
    PlacedAt p pc c ∧ c.length ≤ (finish cx o rout keep c).1.length := by
  cases keep
  · exact ⟨by simpa [finish] using h, by simp [finish]⟩
  · simp only [finish, if_true] at h ⊢
    exact ⟨h.append.1, by simp⟩

theorem Loc.gettable {w D o1 rout : Nat} {v : Opd} (h : Loc w D o1 rout v) (hr : rout + w ≤ 5 * w) :
    Gettable w D v := by
  cases v <;> simp_all [Loc, Gettable]

/-- an accessor located by `Loc … r0` is not disturbed by a write to `r1` -/
theorem Loc.away {w D o1 rout d F : Nat} {v : Opd} (h : Loc w D o1 rout v)
    (hd : rout + w ≤ d ∨ d + w ≤ rout) (hF : 5 * w + D ≤ F) (hd5 : d + w ≤ 5 * w) : Away w F d v := by
  cases v with
  | imm i => trivial
  | reg a => simp only [Loc] at h; simp only [Away]; omega
  | slot s => simp only [Loc] at h; simp only [Away]; omega

/-- after `getOp r`, an accessor located by `Loc … r` is an immediate or the register `r` -/
theorem getOp_res (cx : Cx) {w D o1 r : Nat} {v : Opd} (h : Loc w D o1 r v) :
    (∃ i, (getOp cx r v).2 = .imm i) ∨ (getOp cx r v).2 = .reg r := by
  cases v with
  | imm i => exact Or.inl ⟨i, rfl⟩
  | reg a => simp only [Loc] at h; subst h; exact Or.inr rfl
  | slot s => exact Or.inr rfl

section
variable {p : Prog} {ck : Bool} {B : Nat} {dA : Nat}

theorem cE_ok (lib : Placed p B) (Γ : Gam) (env : Env) (F D : Nat) :
    ∀ (e : E) (pc o rout : Nat) (keep : Bool) (m : Mem),
      PlacedAt p pc (cE (cxOf p ck B dA) Γ pc o rout e keep).1 →
      pc + (cE (cxOf p ck B dA) Γ pc o rout e keep).1.length ≤ B →
      (rout = 2 * p.w ∨ rout = 3 * p.w) →
      Fr p m F D → VarsOK p.w Γ env m F o → boundE (Γ.map Prod.fst) e = true →
      pkE p.w o e keep ≤ D → p.w ≤ o →
      (∀ v, evalE (256 ^ p.w) (8 * p.w) env e = some v →
        ∃ m', Reach (sphinx p) ⟨pc, m⟩ [] ⟨pc + (cE (cxOf p ck B dA) Γ pc o rout e keep).1.length, m'⟩ ∧
          Keep p.w m m' (F - o) ∧ valOf p.w m' F (cE (cxOf p ck B dA) Γ pc o rout e keep).2.1 = v ∧
          (isSafe e = true → m' = m)) ∧
      (evalE (256 ^ p.w) (8 * p.w) env e = none → ck = true →
        ∃ m', Reach (sphinx p) ⟨pc, m⟩ [] ⟨B + off_division_by_zero, m'⟩) := by
  have hw := lib.hw
  have h64 := mul_w_lt_pow p.w hw
  have hM := pow_ge2 p.w hw
  intro e
  induction e with
  | lit v =>
    intro pc o rout keep m _ _ _ _ _ _ _ _
    refine ⟨fun v' hv' => ⟨m, by simpa [cE] using Reach.refl, Keep.refl _ _ _, ?_, fun _ => rfl⟩, fun h => by simp [evalE] at h⟩
    simp only [evalE, Option.some.injEq] at hv'
    simpa [cE, valOf] using hv'
  | var x =>
    intro pc o rout keep m _ _ _ _ hvars hb _ _
    refine ⟨fun v' hv' => ⟨m, by simpa [cE] using Reach.refl, Keep.refl _ _ _, ?_, fun _ => rfl⟩, fun h => by simp [evalE] at h⟩
    simp only [evalE, Option.some.injEq] at hv'
    simp only [boundE] at hb
    simpa [cE, valOf, hv'] using (hvars x hb).2.2
  | neg e ih =>
    intro pc o rout keep m hpl hB hrout fr hvars hb hpk ho
    simp only [boundE] at hb
    have hroom := fr.room; have htop := fr.top
    have hpk0 : pkE p.w o e false ≤ D := by simp only [pkE] at hpk; omega
    have hkD : keep = true → o + p.w ≤ D := by intro hk; subst hk; simp [pkE] at hpk; omega
    have hoD : o ≤ D := by have := pkE_ge p.w e o false; omega
    rcases hce : cE (cxOf p ck B dA) Γ pc o rout e false with ⟨c, v0, p0⟩
    rcases hg : getOp (cxOf p ck B dA) rout v0 with ⟨c', v'⟩
    have hcode : cE (cxOf p ck B dA) Γ pc o rout (.neg e) keep
        = finish (cxOf p ck B dA) o rout keep (c ++ c' ++ [.alu .sub rout (.imm 0) (v'.arg (cxOf p ck B dA))]) := by
      simp only [cE, hce, hg]
    rw [hcode] at hpl hB ⊢
    obtain ⟨hplc, hlen⟩ := finish_prefix _ _ _ _ _ hpl
    obtain ⟨hpl12, hpl3⟩ := hplc.append
    obtain ⟨hpl1, hpl2⟩ := hpl12.append
    have hloc := cE_loc (cxOf p ck B dA) Γ env m F D e pc o rout false hvars hb hpk0 ho
    rw [hce] at hloc
    have h3 : (c ++ c' ++ [Instr.alu .sub rout (.imm 0) (v'.arg (cxOf p ck B dA))]).length = c.length + c'.length + 1 := by
      simp only [List.length_append, List.length_cons, List.length_nil]
    have ih' := ih pc o rout false m (by rw [hce]; exact hpl1) (by rw [hce]; show pc + c.length ≤ B; omega) hrout fr hvars hb hpk0 ho
    rw [hce] at ih'
    simp only at ih' hloc
    obtain ⟨hp0, hloc0, _⟩ := hloc
    simp only [Bool.false_and] at hp0
    subst hp0
    simp only [Bool.false_eq_true, if_false] at hloc0
    refine ⟨fun v hv => ?_, fun hn hck => ?_⟩
    · -- value
      simp only [evalE, Option.bind_eq_bind] at hv
      cases hea : evalE (256 ^ p.w) (8 * p.w) env e with
      | none => simp [hea] at hv
      | some a =>
        simp only [hea, Option.bind_some, aluOp, Option.some.injEq] at hv
        obtain ⟨m1, r1, k1, hv1, _⟩ := ih'.1 a hea
        have fr1 := fr.keep k1
        have hgo := getOp_ok (ck := ck) (dA := dA) (B := B) (pc := pc + c.length) hw fr1 rout v0 (by omega)
          (hloc0.gettable (by omega)) (by rw [hg]; exact hpl2)
        rw [hg] at hgo
        obtain ⟨m2, r2, k2, hv2, _, harg⟩ := hgo
        simp only at r2 hv2 harg
        have fr2 := fr1.keep k2
        have eb := ev_opd (dA := dA) (pc := pc + (c ++ c').length) ck B hw fr2 v' (by cases v' <;> simp_all [IsArg])
        rw [hv2, hv1] at eb
        have s := step_alu (m := m2) (placed_one hpl3) (ev_imm 0) eb (r := v)
          (by simp only [aluOp, Prog.M, Nat.zero_mod]; rw [hv])
          (by unfold Prog.M; omega) (by have := fr2.top; omega)
        have r3 := Reach.of_next (sys := sphinx p) s
        have hreach : Reach (sphinx p) ⟨pc, m⟩ []
            ⟨pc + (c ++ c' ++ [Instr.alu .sub rout (.imm 0) (v'.arg (cxOf p ck B dA))]).length, m2.writeLE rout p.w v⟩ := by
          have := r1.trans (r2.trans (by simpa [List.length_append, Nat.add_assoc] using r3))
          simpa [evl, List.length_append, Nat.add_assoc] using this
        have hvM : v < 256 ^ p.w := by rw [← hv]; exact Nat.mod_lt _ (by omega)
        obtain ⟨m', rf, kf, hvf⟩ := finish_ok (ck := ck) (dA := dA) (B := B) hw fr o rout keep _ (m2.writeLE rout p.w v) v hrout hpl hreach
          ((k1.trans' (k2.mono (by omega))).trans' (Keep.write _ _ _ _ _ _ (by omega) (by omega)))
          (by rw [Mem.readLE_writeLE_same _ _ _ _ (by rw [k2.size, k1.size]; omega)]; exact Nat.mod_eq_of_lt hvM)
          ho hkD hoD
        exact ⟨m', rf, kf, hvf, fun hs => by simp [isSafe] at hs⟩
    · -- fault
      simp only [evalE, Option.bind_eq_bind] at hn
      cases hea : evalE (256 ^ p.w) (8 * p.w) env e with
      | none => exact ih'.2 hea hck
      | some a => simp [hea, aluOp] at hn
  | pos e ih =>
    intro pc o rout keep m hpl hB hrout fr hvars hb hpk ho
    simp only [boundE] at hb
    have hroom := fr.room; have htop := fr.top
    have hpk0 : pkE p.w o e false ≤ D := by simp only [pkE] at hpk; omega
    have hkD : keep = true → o + p.w ≤ D := by intro hk; subst hk; simp [pkE] at hpk; omega
    have hoD : o ≤ D := by have := pkE_ge p.w e o false; omega
    rcases hce : cE (cxOf p ck B dA) Γ pc o rout e false with ⟨c, v0, p0⟩
    rcases hg : getOp (cxOf p ck B dA) rout v0 with ⟨c', v'⟩
    have hcode : cE (cxOf p ck B dA) Γ pc o rout (.pos e) keep
        = finish (cxOf p ck B dA) o rout keep
            (c ++ c' ++ (if v' = .reg rout then [] else [.mov rout (v'.arg (cxOf p ck B dA))])) := by
      simp only [cE, hce, hg]
    rw [hcode] at hpl hB ⊢
    obtain ⟨hplc, hlen⟩ := finish_prefix _ _ _ _ _ hpl
    obtain ⟨hpl12, hpl3⟩ := hplc.append
    obtain ⟨hpl1, hpl2⟩ := hpl12.append
    have h3 : c.length ≤ (c ++ c' ++ (if v' = .reg rout then [] else [Instr.mov rout (v'.arg (cxOf p ck B dA))])).length := by
      simp only [List.length_append]; omega
    have hloc := cE_loc (cxOf p ck B dA) Γ env m F D e pc o rout false hvars hb hpk0 ho
    rw [hce] at hloc
    have ih' := ih pc o rout false m (by rw [hce]; exact hpl1) (by rw [hce]; show pc + c.length ≤ B; omega) hrout fr hvars hb hpk0 ho
    rw [hce] at ih'
    simp only at ih' hloc
    obtain ⟨hp0, hloc0, _⟩ := hloc
    simp only [Bool.false_and] at hp0
    subst hp0
    simp only [Bool.false_eq_true, if_false] at hloc0
    refine ⟨fun v hv => ?_, fun hn hck => ?_⟩
    · simp only [evalE] at hv
      obtain ⟨m1, r1, k1, hv1, _⟩ := ih'.1 v hv
      have fr1 := fr.keep k1
      have hgo := getOp_ok (ck := ck) (dA := dA) (B := B) (pc := pc + c.length) hw fr1 rout v0 (by omega)
        (hloc0.gettable (by omega)) (by rw [hg]; exact hpl2)
      rw [hg] at hgo
      obtain ⟨m2, r2, k2, hv2, _, harg⟩ := hgo
      simp only at r2 hv2 harg
      rw [hv1] at hv2
      have fr2 := fr1.keep k2
      have hvM : v < 256 ^ p.w := by
        rw [← hv2]; cases v' with
        | imm i => exact wrapI_lt (by omega) i
        | reg a => exact Mem.readLE_lt _ _ _
        | slot s => exact absurd harg (by simp [IsArg])
      have hk12 : Keep p.w m m2 (F - o) := k1.trans' (k2.mono (by omega))
      by_cases hvr : v' = .reg rout
      · -- value already in the output register
        simp only [hvr, if_true, List.append_nil] at hpl hB ⊢
        have hreach : Reach (sphinx p) ⟨pc, m⟩ [] ⟨pc + (c ++ c').length, m2⟩ := by
          have := r1.trans r2
          simpa [List.length_append, Nat.add_assoc] using this
        obtain ⟨m', rf, kf, hvf⟩ := finish_ok (ck := ck) (dA := dA) (B := B) hw fr o rout keep _ m2 v hrout hpl hreach hk12
          (by rw [hvr] at hv2; simpa [valOf] using hv2) ho hkD hoD
        exact ⟨m', rf, kf, hvf, fun hs => by simp [isSafe] at hs⟩
      · simp only [hvr, if_false] at hpl hB hpl3 ⊢
        have eb := ev_opd (dA := dA) (pc := pc + (c ++ c').length) ck B hw fr2 v' (by cases v' <;> simp_all [IsArg])
        rw [hv2] at eb
        have s := step_mov (m := m2) (placed_one hpl3) eb (by unfold Prog.M; omega) (by have := fr2.top; omega)
        have r3 := Reach.of_next (sys := sphinx p) s
        have hreach : Reach (sphinx p) ⟨pc, m⟩ []
            ⟨pc + (c ++ c' ++ [Instr.mov rout (v'.arg (cxOf p ck B dA))]).length, m2.writeLE rout p.w v⟩ := by
          have := r1.trans (r2.trans (by simpa [List.length_append, Nat.add_assoc] using r3))
          simpa [evl, List.length_append, Nat.add_assoc] using this
        obtain ⟨m', rf, kf, hvf⟩ := finish_ok (ck := ck) (dA := dA) (B := B) hw fr o rout keep _ (m2.writeLE rout p.w v) v hrout hpl hreach
          (hk12.trans' (Keep.write _ _ _ _ _ _ (by omega) (by omega)))
          (by rw [Mem.readLE_writeLE_same _ _ _ _ (by rw [k2.size, k1.size]; omega)]; exact Nat.mod_eq_of_lt hvM)
          ho hkD hoD
        exact ⟨m', rf, kf, hvf, fun hs => by simp [isSafe] at hs⟩
    · simp only [evalE] at hn
      exact ih'.2 hn hck
  | bin op l r ihl ihr =>
    intro pc o rout keep m hpl hB hrout fr hvars hb hpk ho
    simp only [boundE, Bool.and_eq_true] at hb
    obtain ⟨hbl, hbr⟩ := hb
    have hroom := fr.room; have htop := fr.top
    have hpkl : pkE p.w o l (!isSafe r) ≤ D := by simp only [pkE] at hpk; omega
    have hpkr : pkE p.w (if ((!isSafe r) && !isSafe l) = true then o + p.w else o) r false ≤ D := by
      simp only [pkE] at hpk; omega
    have hkD : keep = true → o + p.w ≤ D := by intro hk; subst hk; simp [pkE] at hpk; omega
    have hoD : o ≤ D := by have := pkE_ge p.w l o (!isSafe r); omega
    rcases hcl : cE (cxOf p ck B dA) Γ pc o (cxOf p ck B dA).r0 l (!isSafe r) with ⟨c1, vl, p1⟩
    have hlocL := cE_loc (cxOf p ck B dA) Γ env m F D l pc o (cxOf p ck B dA).r0 (!isSafe r) hvars hbl hpkl ho
    rw [hcl] at hlocL
    obtain ⟨hp1, hlocl, hnoreg⟩ := hlocL
    simp only at hp1 hlocl hnoreg
    rcases hcr : cE (cxOf p ck B dA) Γ (pc + c1.length) (if p1 = true then o + (cxOf p ck B dA).w else o) (cxOf p ck B dA).r1 r false
      with ⟨c2, vr0, p2⟩
    rcases hg2 : getOp (cxOf p ck B dA) (cxOf p ck B dA).r1 vr0 with ⟨c2', vr⟩
    rcases hg3 : getOp (cxOf p ck B dA) (cxOf p ck B dA).r0 vl with ⟨c3, vl'⟩
    have hcode : cE (cxOf p ck B dA) Γ pc o rout (.bin op l r) keep
        = finish (cxOf p ck B dA) o rout keep (c1 ++ c2 ++ c2' ++ c3 ++
            arith (cxOf p ck B dA) (pc + (c1 ++ c2 ++ c2' ++ c3).length) op rout (vl'.arg (cxOf p ck B dA)) (vr.arg (cxOf p ck B dA))) := by
      simp only [cE, hcl, hcr, hg2, hg3]
    rw [hcode] at hpl hB ⊢
    obtain ⟨hplc, hlen⟩ := finish_prefix _ _ _ _ _ hpl
    obtain ⟨hp1234, hpA⟩ := hplc.append
    obtain ⟨hp123, hp3⟩ := hp1234.append
    obtain ⟨hp12, hp2'⟩ := hp123.append
    obtain ⟨hp1_, hp2⟩ := hp12.append
    generalize hAdef : arith (cxOf p ck B dA) (pc + (c1 ++ c2 ++ c2' ++ c3).length) op rout (vl'.arg (cxOf p ck B dA)) (vr.arg (cxOf p ck B dA)) = A at *
    have hlen5 : (c1 ++ c2 ++ c2' ++ c3 ++ A).length = c1.length + c2.length + c2'.length + c3.length + A.length := by
      simp only [List.length_append]
    have hlen4 : (c1 ++ c2 ++ c2' ++ c3).length = c1.length + c2.length + c2'.length + c3.length := by
      simp only [List.length_append]
    have hlen3 : (c1 ++ c2 ++ c2').length = c1.length + c2.length + c2'.length := by simp only [List.length_append]
    have hlen2 : (c1 ++ c2).length = c1.length + c2.length := by simp only [List.length_append]
    -- left operand
    have ihl' := ihl pc o (cxOf p ck B dA).r0 (!isSafe r) m (by rw [hcl]; exact hp1_)
      (by rw [hcl]; show pc + c1.length ≤ B; omega) (Or.inl rfl) fr hvars hbl hpkl ho
    rw [hcl] at ihl'
    simp only at ihl'
    -- right operand is evaluated at offset o1
    have ho1 : o ≤ (if p1 = true then o + p.w else o) := by split <;> omega
    have hpkr' : pkE p.w (if p1 = true then o + p.w else o) r false ≤ D := by rw [hp1]; exact hpkr
    refine ⟨fun v hv => ?_, fun hn hck => ?_⟩
    · -- value
      simp only [evalE, Option.bind_eq_bind] at hv
      cases hea : evalE (256 ^ p.w) (8 * p.w) env l with
      | none => simp [hea] at hv
      | some a =>
      cases heb : evalE (256 ^ p.w) (8 * p.w) env r with
      | none => simp [hea, heb] at hv
      | some b =>
      simp only [hea, heb, Option.bind_some] at hv
      obtain ⟨m1, r1_, k1, hv1, _⟩ := ihl'.1 a hea
      have fr1 := fr.keep k1
      have hvars1 : VarsOK p.w Γ env m1 F (if p1 = true then o + p.w else o) := hvars.keep k1 (Nat.le_refl _) ho1
      have ihr' := ihr (pc + c1.length) (if p1 = true then o + p.w else o) (cxOf p ck B dA).r1 false m1
        (by rw [hcr]; exact hp2) (by rw [hcr]; show pc + c1.length + c2.length ≤ B; omega) (Or.inr rfl) fr1 hvars1 hbr hpkr' (by omega)
      have hlocR := cE_loc (cxOf p ck B dA) Γ env m1 F D r (pc + c1.length) (if p1 = true then o + p.w else o)
        (cxOf p ck B dA).r1 false hvars1 hbr hpkr' (by show p.w ≤ _; omega)
      rw [hcr] at ihr' hlocR
      simp only at ihr' hlocR
      obtain ⟨hp2f, hlocr, _⟩ := hlocR
      simp only [Bool.false_and] at hp2f
      subst hp2f
      simp only [Bool.false_eq_true, if_false] at hlocr
      obtain ⟨m2, r2_, k2, hv2, hsafe⟩ := ihr'.1 b heb
      have fr2 := fr1.keep k2
      have hvl2 : valOf p.w m2 F vl = a := by
        cases hsr : isSafe r with
        | true => rw [hsafe hsr]; exact hv1
        | false =>
          have hnr := hnoreg (by simp [hsr])
          cases vl with
          | imm i => simpa [valOf] using hv1
          | reg x => exact absurd rfl (hnr x)
          | slot s =>
            simp only [Loc] at hlocl
            simp only [valOf] at hv1 ⊢
            rw [k2.read _ _ (by omega)]; exact hv1
      -- load the right operand
      have hgo2 := getOp_ok (ck := ck) (dA := dA) (B := B) (pc := pc + (c1 ++ c2).length) hw fr2 (cxOf p ck B dA).r1 vr0
        (by show 2 * p.w ≤ 3 * p.w ∧ 3 * p.w + p.w ≤ 5 * p.w; omega)
        (hlocr.gettable (by show 3 * p.w + p.w ≤ 5 * p.w; omega)) (by rw [hg2]; exact hp2')
      have hres2 := getOp_res (cxOf p ck B dA) hlocr
      rw [hg2] at hgo2 hres2
      obtain ⟨m3, r3_, k3, hv3, haway3, hargr⟩ := hgo2
      simp only at r3_ hv3 hargr hres2
      rw [hv2] at hv3
      have fr3 := fr2.keep k3
      have hvl3 : valOf p.w m3 F vl = a := by
        rw [haway3 vl (hlocl.away (d := 3 * p.w) (by show 2 * p.w + p.w ≤ 3 * p.w ∨ _; omega) (Nat.le_of_eq hroom) (by omega))]; exact hvl2
      -- load the left operand
      have hgo3 := getOp_ok (ck := ck) (dA := dA) (B := B) (pc := pc + (c1 ++ c2 ++ c2').length) hw fr3 (cxOf p ck B dA).r0 vl
        (by show 2 * p.w ≤ 2 * p.w ∧ 2 * p.w + p.w ≤ 5 * p.w; omega)
        (hlocl.gettable (by show 2 * p.w + p.w ≤ 5 * p.w; omega)) (by rw [hg3]; exact hp3)
      rw [hg3] at hgo3
      obtain ⟨m4, r4_, k4, hv4, haway4, hargl⟩ := hgo3
      simp only at r4_ hv4 hargl
      rw [hvl3] at hv4
      have fr4 := fr3.keep k4
      have hvr4 : valOf p.w m4 F vr = b := by
        rw [haway4 vr (by
          rcases hres2 with ⟨i, hi⟩ | hi
          · rw [hi]; trivial
          · rw [hi]; show 3 * p.w + p.w ≤ 2 * p.w ∨ 2 * p.w + p.w ≤ 3 * p.w; omega)]
        exact hv3
      -- the operation
      have harith := arith_ok (ck := ck) (dA := dA) (pc := pc + (c1 ++ c2 ++ c2' ++ c3).length) lib fr4 op rout vl' vr a b
        (by omega) hargl hargr hv4 hvr4 (by rw [hAdef]; exact hpA) (by rw [hAdef]; omega)
      rw [hAdef] at harith
      have r5_ := harith.1 v hv
      have hreach : Reach (sphinx p) ⟨pc, m⟩ [] ⟨pc + (c1 ++ c2 ++ c2' ++ c3 ++ A).length, m4.writeLE rout p.w v⟩ := by
        have r2' : Reach (sphinx p) ⟨pc + c1.length, m1⟩ [] ⟨pc + (c1 ++ c2).length, m2⟩ := by
          rw [hlen2, ← Nat.add_assoc]; exact r2_
        have r3' : Reach (sphinx p) ⟨pc + (c1 ++ c2).length, m2⟩ [] ⟨pc + (c1 ++ c2 ++ c2').length, m3⟩ := by
          rw [hlen3, hlen2] at *; rw [← Nat.add_assoc] at r3_ ⊢; simpa [Nat.add_assoc] using r3_
        have r4' : Reach (sphinx p) ⟨pc + (c1 ++ c2 ++ c2').length, m3⟩ [] ⟨pc + (c1 ++ c2 ++ c2' ++ c3).length, m4⟩ := by
          rw [hlen4]; rw [hlen3] at r4_ ⊢; simpa [Nat.add_assoc] using r4_
        have r5' : Reach (sphinx p) ⟨pc + (c1 ++ c2 ++ c2' ++ c3).length, m4⟩ [] ⟨pc + (c1 ++ c2 ++ c2' ++ c3 ++ A).length, m4.writeLE rout p.w v⟩ := by
          rw [hlen5]; rw [hlen4] at r5_ ⊢; simpa [Nat.add_assoc] using r5_
        simpa using r1_.trans (r2'.trans (r3'.trans (r4'.trans r5')))
      have hvM : v < 256 ^ p.w := by
        cases op <;> simp [aluOf, aluOp] at hv
        all_goals first
          | (rw [← hv]; exact Nat.mod_lt _ (by omega))
          | (rw [← hv.2]; exact wrapI_lt (by omega) _)
      have hk : Keep p.w m (m4.writeLE rout p.w v) (F - o) :=
        (((k1.trans' (k2.mono (by omega))).trans' (k3.mono (by omega))).trans' (k4.mono (by omega))).trans'
          (Keep.write _ _ _ _ _ _ (by omega) (by omega))
      obtain ⟨m', rf, kf, hvf⟩ := finish_ok (ck := ck) (dA := dA) (B := B) hw fr o rout keep _ (m4.writeLE rout p.w v) v hrout hpl hreach hk
        (by rw [Mem.readLE_writeLE_same _ _ _ _ (by rw [k4.size, k3.size, k2.size, k1.size]; omega)]; exact Nat.mod_eq_of_lt hvM)
        ho hkD hoD
      exact ⟨m', rf, kf, hvf, fun hs => by simp [isSafe] at hs⟩
    · -- fault
      simp only [evalE, Option.bind_eq_bind] at hn
      cases hea : evalE (256 ^ p.w) (8 * p.w) env l with
      | none => exact ihl'.2 hea hck
      | some a =>
      obtain ⟨m1, r1_, k1, hv1, _⟩ := ihl'.1 a hea
      have fr1 := fr.keep k1
      have hvars1 : VarsOK p.w Γ env m1 F (if p1 = true then o + p.w else o) := hvars.keep k1 (Nat.le_refl _) ho1
      have ihr' := ihr (pc + c1.length) (if p1 = true then o + p.w else o) (cxOf p ck B dA).r1 false m1
        (by rw [hcr]; exact hp2) (by rw [hcr]; show pc + c1.length + c2.length ≤ B; omega) (Or.inr rfl) fr1 hvars1 hbr hpkr' (by omega)
      have hlocR := cE_loc (cxOf p ck B dA) Γ env m1 F D r (pc + c1.length) (if p1 = true then o + p.w else o)
        (cxOf p ck B dA).r1 false hvars1 hbr hpkr' (by show p.w ≤ _; omega)
      rw [hcr] at ihr' hlocR
      simp only at ihr' hlocR
      cases heb : evalE (256 ^ p.w) (8 * p.w) env r with
      | none =>
        obtain ⟨m', rd⟩ := ihr'.2 heb hck
        exact ⟨m', by simpa using r1_.trans rd⟩
      | some b =>
      simp only [hea, heb, Option.bind_some] at hn
      obtain ⟨hp2f, hlocr, _⟩ := hlocR
      simp only [Bool.false_and] at hp2f
      subst hp2f
      simp only [Bool.false_eq_true, if_false] at hlocr
      obtain ⟨m2, r2_, k2, hv2, hsafe⟩ := ihr'.1 b heb
      have fr2 := fr1.keep k2
      have hvl2 : valOf p.w m2 F vl = a := by
        cases hsr : isSafe r with
        | true => rw [hsafe hsr]; exact hv1
        | false =>
          have hnr := hnoreg (by simp [hsr])
          cases vl with
          | imm i => simpa [valOf] using hv1
          | reg x => exact absurd rfl (hnr x)
          | slot s =>
            simp only [Loc] at hlocl
            simp only [valOf] at hv1 ⊢
            rw [k2.read _ _ (by omega)]; exact hv1
      have hgo2 := getOp_ok (ck := ck) (dA := dA) (B := B) (pc := pc + (c1 ++ c2).length) hw fr2 (cxOf p ck B dA).r1 vr0
        (by show 2 * p.w ≤ 3 * p.w ∧ 3 * p.w + p.w ≤ 5 * p.w; omega)
        (hlocr.gettable (by show 3 * p.w + p.w ≤ 5 * p.w; omega)) (by rw [hg2]; exact hp2')
      have hres2 := getOp_res (cxOf p ck B dA) hlocr
      rw [hg2] at hgo2 hres2
      obtain ⟨m3, r3_, k3, hv3, haway3, hargr⟩ := hgo2
      simp only at r3_ hv3 hargr hres2
      rw [hv2] at hv3
      have fr3 := fr2.keep k3
      have hvl3 : valOf p.w m3 F vl = a := by
        rw [haway3 vl (hlocl.away (d := 3 * p.w) (by show 2 * p.w + p.w ≤ 3 * p.w ∨ _; omega) (Nat.le_of_eq hroom) (by omega))]; exact hvl2
      have hgo3 := getOp_ok (ck := ck) (dA := dA) (B := B) (pc := pc + (c1 ++ c2 ++ c2').length) hw fr3 (cxOf p ck B dA).r0 vl
        (by show 2 * p.w ≤ 2 * p.w ∧ 2 * p.w + p.w ≤ 5 * p.w; omega)
        (hlocl.gettable (by show 2 * p.w + p.w ≤ 5 * p.w; omega)) (by rw [hg3]; exact hp3)
      rw [hg3] at hgo3
      obtain ⟨m4, r4_, k4, hv4, haway4, hargl⟩ := hgo3
      simp only at r4_ hv4 hargl
      rw [hvl3] at hv4
      have fr4 := fr3.keep k4
      have hvr4 : valOf p.w m4 F vr = b := by
        rw [haway4 vr (by
          rcases hres2 with ⟨i, hi⟩ | hi
          · rw [hi]; trivial
          · rw [hi]; show 3 * p.w + p.w ≤ 2 * p.w ∨ 2 * p.w + p.w ≤ 3 * p.w; omega)]
        exact hv3
      have harith := arith_ok (ck := ck) (dA := dA) (pc := pc + (c1 ++ c2 ++ c2' ++ c3).length) lib fr4 op rout vl' vr a b
        (by omega) hargl hargr hv4 hvr4 (by rw [hAdef]; exact hpA) (by rw [hAdef]; omega)
      have r5_ := harith.2 hn hck
      refine ⟨m4, ?_⟩
      have r2' : Reach (sphinx p) ⟨pc + c1.length, m1⟩ [] ⟨pc + (c1 ++ c2).length, m2⟩ := by
        rw [hlen2, ← Nat.add_assoc]; exact r2_
      have r3' : Reach (sphinx p) ⟨pc + (c1 ++ c2).length, m2⟩ [] ⟨pc + (c1 ++ c2 ++ c2').length, m3⟩ := by
        rw [hlen3, hlen2] at *; rw [← Nat.add_assoc] at r3_ ⊢; simpa [Nat.add_assoc] using r3_
      have r4' : Reach (sphinx p) ⟨pc + (c1 ++ c2 ++ c2').length, m3⟩ [] ⟨pc + (c1 ++ c2 ++ c2' ++ c3).length, m4⟩ := by
        rw [hlen4]; rw [hlen3] at r4_ ⊢; simpa [Nat.add_assoc] using r4_
      simpa using r1_.trans (r2'.trans (r3'.trans (r4'.trans r5_)))
end

end HidVerif.Core
