import HidVerif.Hid.Parser
/-!
# The expression parser groups by the documented table: print → parse round trip, proved

`OE` is the type of operator expressions (literals, variables, prefix operators, the five
binary levels); `pr L e` prints `e` as a token sequence with the *minimal* parentheses the
documented precedence/associativity table requires in a position of level `L`; `toP e` is the
parse tree.  `parse_pr`: for every expression, the model of `hidc.parser` (`psExpr`, the
function the `parse` suite ties to the implementation) returns exactly `toP e` on `pr 8 e`,
whatever follows, provided what follows cannot continue an expression.

Fuel: all parser functions recurse on explicit fuel; `Evn g r` says `g fuel = r` for all
sufficiently large fuel, which composes without a separate monotonicity proof.
-/
namespace HidVerif.Hid.Parse
open HidVerif.Hid.Lex HidVerif.Gen

/-- operator expressions; `un t cls`: prefix operator with token `OpToken.t` and node class `cls`;
`bin L t cls`: binary operator of level `L` -/
inductive OE
  | lit (v : Nat)
  | var (n : List CP)
  | un (t cls : String) (e : OE)
  | bin (L : Nat) (t cls : String) (l r : OE)
  | paren (e : OE)          -- parentheses the programmer wrote although the table does not require them
  | cast (e : OE) (tn : String) (ty : Ty)   -- `e is T`; `tn` is the token name of the scalar type `ty`
  | index (e i : OE)        -- `e[i]`
  | len (e : OE)            -- `e.length`
  deriving Repr

namespace OE
def toP : OE → PExpr
  | .lit v => .int v
  | .var n => .var n
  | .un _ cls e => .un cls e.toP
  | .bin _ _ cls l r => .bin cls l.toP r.toP
  | .paren e => e.toP
  | .cast e _ ty => .is_ e.toP ty
  | .index e i => .index e.toP i.toP
  | .len e => .len e.toP

/-- level of the outermost operator (0 for atoms) -/
def prec : OE → Nat
  | .lit _ => 0 | .var _ => 0 | .un _ _ _ => 2 | .bin L _ _ _ _ => L | .paren _ => 0
  | .cast _ _ _ => 3 | .index _ _ => 1 | .len _ => 1

/-- operators come from the (regenerated) tables -/
def WF : OE → Prop
  | .lit _ => True
  | .var _ => True
  | .un t cls e => (t, cls) ∈ unaryOps ∧ e.WF
  | .bin L t cls l r => 4 ≤ L ∧ L ≤ 8 ∧ (t, cls) ∈ binOps L ∧ l.WF ∧ r.WF
  | .paren e => e.WF ∧ e.prec ≤ 8
  | .cast e tn ty => tyOfName tn = some ty ∧ ty ≠ .empty ∧ e.WF
  | .index e i => e.WF ∧ i.WF ∧ i.prec ≤ 8
  | .len e => e.WF

end OE

def tkOp (t : String) : Tok := .enum ("OpToken." ++ t)
def tkL : Tok := .enum "BracToken.LPAREN"
def tkR : Tok := .enum "BracToken.RPAREN"
def tkLS : Tok := .enum "BracToken.LSQUARE"
def tkRS : Tok := .enum "BracToken.RSQUARE"
def tkDot : Tok := .enum "SepToken.DOT"
def tkIS : Tok := .enum "OpToken.IS"
def tkLength : Tok := .ident (cps "length") .none

/-- parenthesise exactly when the operator of `e` binds weaker than the position allows -/
def wrap (L : Nat) (e : OE) (b : List Tok) : List Tok := if e.prec ≤ L then b else tkL :: (b ++ [tkR])

/-- tokens of `e` without outer parentheses: operands of a level-`L` operator are printed at level
`L` on the left (left associativity) and `L - 1` on the right -/
def body : OE → List Tok
  | .lit v => [.int v]
  | .var n => [.ident n .none]
  | .un t _ e => tkOp t :: wrap 2 e (body e)
  | .bin L t _ l r => wrap L l (body l) ++ tkOp t :: wrap (L - 1) r (body r)
  | .paren e => tkL :: (body e ++ [tkR])
  | .cast e tn _ => wrap 2 e (body e) ++ [tkIS, .enum tn]
  | .index e i => wrap 1 e (body e) ++ tkLS :: (body i ++ [tkRS])
  | .len e => wrap 1 e (body e) ++ [tkDot, tkLength]

/-- tokens of `e` in a position of level `L` -/
def pr (L : Nat) (e : OE) : List Tok := wrap L e (body e)

/-- class an operator table assigns to a token name -/
def opMatch (ops : List (String × String)) (n : String) : Option String :=
  (ops.find? (fun (t, _) => "OpToken." ++ t == n)).map (·.2)

/-- tokens that continue an expression parsed at level `L` (1: postfix, 2: prefix operators, 3: `is`,
4–8: the binary levels, 9: a whole expression) -/
def isCont (L : Nat) : Tok → Bool
  | .enum n => n == "BracToken.LPAREN" ||
      (n == "SepToken.DOT" || n == "BracToken.LSQUARE") && decide (2 ≤ L) ||
      n == "OpToken.IS" && decide (3 ≤ L) ||
      n == "OpToken.SPECULATION" && decide (8 ≤ L) ||
      (List.range L).any (fun l => 4 ≤ l && (opMatch (binOps l) n).isSome)
  | _ => false

def headCont (L : Nat) : List Lexeme → Bool
  | [] => false
  | l :: _ => isCont L l.tok

/-- eventually (in the fuel) equal -/
def Evn {α : Type} (g : Nat → Res α) (r : Res α) : Prop := ∃ n, ∀ f, n ≤ f → g f = r


theorem Evn.of_eq {α : Type} {g : Nat → Res α} {r : Res α} (n : Nat) (h : ∀ f, g (f + n) = r) : Evn g r :=
  ⟨n, fun f hf => by have := h (f - n); rwa [Nat.sub_add_cancel hf] at this⟩

/-- `h (f + k) = g f` and `g` eventually `r`: so is `h` -/
theorem Evn.shift {α : Type} {g h : Nat → Res α} {r : Res α} (k : Nat) (hs : ∀ f, h (f + k) = g f) (hg : Evn g r) : Evn h r := by
  obtain ⟨n, hn⟩ := hg
  exact ⟨n + k, fun f hf => by
    have := hs (f - k); rw [Nat.sub_add_cancel (by omega)] at this; rw [this]; exact hn _ (by omega)⟩

theorem Evn.and {α β : Type} {g : Nat → Res α} {r : Res α} {g' : Nat → Res β} {r' : Res β} (h : Evn g r) (h' : Evn g' r') :
    ∃ n, ∀ f, n ≤ f → g f = r ∧ g' f = r' := by
  obtain ⟨n, hn⟩ := h; obtain ⟨n', hn'⟩ := h'
  exact ⟨max n n', fun f hf => ⟨hn f (by omega), hn' f (by omega)⟩⟩

/-! ## the primitive parsers on a token list that ends normally -/
section prim
variable (c : Cursor)

@[simp] theorem tokenIf_nil {α : Type} (en : Ending) (f : Lexeme → Option α) : tokenIf en f [] = .fail := rfl

@[simp] theorem tokenIf_cons {α : Type} (f : Lexeme → Option α) (l : Lexeme) (rest : List Lexeme) :
    tokenIf (.eof c) f (l :: rest) = (match f l with | some a => Res.val a rest | none => Res.fail) := by
  unfold tokenIf
  cases h : f l with
  | none => simp [h]
  | some a => cases rest <;> simp [h]

theorem exact_cons (name : String) (l : Lexeme) (rest : List Lexeme) :
    exact (.eof c) name (l :: rest) = if l.tok == .enum name then Res.val l rest else Res.fail := by
  unfold exact; rw [tokenIf_cons]; by_cases h : (l.tok == .enum name) = true <;> simp [h]

theorem opt_exact_cons (name : String) (l : Lexeme) (rest : List Lexeme) :
    opt (exact (.eof c) name) (l :: rest) = if l.tok == .enum name then Res.val (some l) rest else Res.val none (l :: rest) := by
  unfold opt; rw [exact_cons]; by_cases h : (l.tok == .enum name) = true <;> simp [h]

theorem opt_exact_nil (en : Ending) (name : String) : opt (exact en name) [] = Res.val none [] := rfl

theorem opTok_cons (ops : List (String × String)) (l : Lexeme) (rest : List Lexeme) :
    opTok (.eof c) ops (l :: rest) =
      (match l.tok with
       | .enum n => (match opMatch ops n with | some cls => Res.val (cls, l) rest | none => Res.fail)
       | _ => Res.fail) := by
  unfold opTok; rw [tokenIf_cons]
  cases h : l.tok <;> simp only [opMatch]
  rename_i n
  cases ops.find? (fun x => "OpToken." ++ x.1 == n) <;> rfl
end prim


/-! ## facts about the regenerated tables (finite, kernel-evaluated) -/
theorem tbl_bin_self : ∀ L ∈ [4, 5, 6, 7, 8], ∀ p ∈ binOps L, opMatch (binOps L) ("OpToken." ++ p.1) = some p.2 := by decide
theorem tbl_bin_notcont : ∀ L ∈ [4, 5, 6, 7, 8], ∀ p ∈ binOps L, isCont L (tkOp p.1) = false := by decide
theorem tbl_un_self : ∀ p ∈ unaryOps, opMatch unaryOps ("OpToken." ++ p.1) = some p.2 := by decide
theorem tbl_un_lparen : opMatch unaryOps "BracToken.LPAREN" = none := by decide
theorem isCont_rparen : isCont 9 tkR = false := by decide

theorem isCont_false_iff (L : Nat) (n : String) : isCont L (.enum n) = false ↔
    n ≠ "BracToken.LPAREN" ∧ (2 ≤ L → n ≠ "SepToken.DOT" ∧ n ≠ "BracToken.LSQUARE") ∧ (3 ≤ L → n ≠ "OpToken.IS") ∧
    (8 ≤ L → n ≠ "OpToken.SPECULATION") ∧ ∀ l, l < L → 4 ≤ l → opMatch (binOps l) n = none := by
  simp only [isCont, Bool.or_eq_false_iff, Bool.and_eq_false_iff, List.any_eq_false, List.mem_range, decide_eq_false_iff_not,
    beq_eq_false_iff_ne, ne_eq, Bool.and_eq_true, decide_eq_true_eq, not_and, Bool.not_eq_true, Option.isSome_eq_false_iff,
    Option.isNone_iff_eq_none]
  constructor
  · rintro ⟨⟨⟨⟨h1, h2⟩, h3⟩, h4⟩, h5⟩
    refine ⟨h1, fun h => ?_, fun h => ?_, fun h => ?_, h5⟩
    · rcases h2 with h2 | h2
      · exact h2
      · exact absurd h h2
    · rcases h3 with h3 | h3
      · exact h3
      · exact absurd h h3
    · rcases h4 with h4 | h4
      · exact h4
      · exact absurd h h4
  · rintro ⟨h1, h2, h3, h4, h5⟩
    refine ⟨⟨⟨⟨h1, ?_⟩, ?_⟩, ?_⟩, h5⟩
    · by_cases h : 2 ≤ L
      · exact Or.inl (h2 h)
      · exact Or.inr h
    · by_cases h : 3 ≤ L
      · exact Or.inl (h3 h)
      · exact Or.inr h
    · by_cases h : 8 ≤ L
      · exact Or.inl (h4 h)
      · exact Or.inr h

theorem isCont_mono {L L' : Nat} (h : L ≤ L') (t : Tok) (hc : isCont L' t = false) : isCont L t = false := by
  cases t with
  | enum n =>
    rw [isCont_false_iff] at hc ⊢
    obtain ⟨h1, h2, h3, h4, h5⟩ := hc
    exact ⟨h1, fun h' => h2 (by omega), fun h' => h3 (by omega), fun h' => h4 (by omega), fun l hl => h5 l (by omega)⟩
  | _ => rfl

theorem headCont_mono {L L' : Nat} (h : L ≤ L') (rest : List Lexeme) (hc : headCont L' rest = false) : headCont L rest = false := by
  cases rest with
  | nil => rfl
  | cons l r => exact isCont_mono h _ hc


/-! ## what a non-continuation head means for the individual parser steps -/
section steps
variable (c : Cursor)

theorem opt_exact_stop {L : Nat} {rest : List Lexeme} (hc : headCont L rest = false) (name : String)
    (hn : name = "BracToken.LPAREN" ∨ ((name = "SepToken.DOT" ∨ name = "BracToken.LSQUARE") ∧ 2 ≤ L) ∨
      (name = "OpToken.IS" ∧ 3 ≤ L) ∨ (name = "OpToken.SPECULATION" ∧ 8 ≤ L)) :
    opt (exact (.eof c) name) rest = .val none rest := by
  cases rest with
  | nil => rfl
  | cons l r =>
    rw [opt_exact_cons]
    have : (l.tok == Tok.enum name) = false := by
      cases ht : l.tok with
      | enum n =>
        simp only [headCont, ht] at hc
        rw [isCont_false_iff] at hc
        obtain ⟨h1, h2, h3, h4, _⟩ := hc
        simp only [beq_eq_false_iff_ne, ne_eq, Tok.enum.injEq]
        rcases hn with rfl | ⟨rfl | rfl, hL⟩ | ⟨rfl, hL⟩ | ⟨rfl, hL⟩
        · exact h1
        · exact (h2 hL).1
        · exact (h2 hL).2
        · exact h3 hL
        · exact h4 hL
      | _ => rfl
    simp [this]

theorem opt_opTok_stop {L : Nat} {rest : List Lexeme} (hc : headCont L rest = false) (l : Nat) (h4 : 4 ≤ l) (hl : l < L) :
    opt (opTok (.eof c) (binOps l)) rest = .val none rest := by
  cases rest with
  | nil => rfl
  | cons x r =>
    unfold opt; rw [opTok_cons]
    cases ht : x.tok with
    | enum n =>
      simp only [headCont, ht] at hc
      rw [isCont_false_iff] at hc
      simp [hc.2.2.2.2 l hl h4]
    | _ => rfl

end steps


/-! ## the parser functions on one step -/
section funcs
variable (c : Cursor) (ctx : Nat)

theorem psPostfix_stop {L : Nat} {rest : List Lexeme} (hc : headCont L rest = false) (h2 : 2 ≤ L) (f : Nat) (e : PExpr) :
    psPostfix (.eof c) (f + 1) ctx e rest = .val e rest := by
  rw [psPostfix]
  show P.bind _ _ rest = _
  unfold P.bind
  rw [opt_exact_stop c hc _ (Or.inr (Or.inl ⟨Or.inl rfl, h2⟩))]
  show P.bind _ _ rest = _
  unfold P.bind
  rw [opt_exact_stop c hc _ (Or.inr (Or.inl ⟨Or.inr rfl, h2⟩))]
  rfl

theorem psBinRest_stop {L : Nat} {rest : List Lexeme} (hc : headCont L rest = false) (l : Nat) (h4 : 4 ≤ l) (hl : l < L)
    (f : Nat) (e : PExpr) : psBinRest (.eof c) (f + 1) ctx l e rest = .val e rest := by
  rw [psBinRest]
  show P.bind _ _ rest = _
  unfold P.bind
  rw [opt_opTok_stop c hc l h4 hl]
  rfl

/-- an operator of the level: parse the right operand one level lower, then go on -/
theorem psBinRest_op (l : Nat) (f : Nat) (e : PExpr) (x : Lexeme) (rest : List Lexeme) (t cls : String)
    (hx : x.tok = tkOp t) (hm : opMatch (binOps l) ("OpToken." ++ t) = some cls) :
    psBinRest (.eof c) (f + 1) ctx l e (x :: rest) =
      (match psBinLevel (.eof c) f ctx (l - 1) rest with
       | .val r rest' => psBinRest (.eof c) f ctx l (.bin cls e r) rest'
       | .fail => .err (.parser (herePos (.eof c) rest))
       | .err er => .err er) := by
  rw [psBinRest]
  show P.bind _ _ (x :: rest) = _
  unfold P.bind
  have : opt (opTok (.eof c) (binOps l)) (x :: rest) = .val (some (cls, x)) rest := by
    unfold opt; rw [opTok_cons, hx]; simp [tkOp, hm]
  rw [this]
  show P.bind (expect (.eof c) (psBinLevel (.eof c) f ctx (l - 1))) _ rest = _
  unfold P.bind expect
  cases psBinLevel (.eof c) f ctx (l - 1) rest <;> rfl

theorem psBinLevel_succ (L : Nat) (h4 : 4 ≤ L) (f : Nat) (ts : List Lexeme) :
    psBinLevel (.eof c) (f + 1) ctx L ts =
      (match psBinLevel (.eof c) f ctx (L - 1) ts with
       | .val e rest => psBinRest (.eof c) f ctx L e rest
       | .fail => .fail
       | .err er => .err er) := by
  rw [psBinLevel, if_neg (by omega)]
  show P.bind _ _ ts = _
  unfold P.bind
  cases psBinLevel (.eof c) f ctx (L - 1) ts <;> rfl

theorem psBinLevel_three (L : Nat) (h3 : L ≤ 3) (f : Nat) : psBinLevel (.eof c) (f + 1) ctx L = psExpr3 (.eof c) f ctx := by
  rw [psBinLevel, if_pos h3]

theorem psExpr3_stop {L : Nat} (f : Nat) (ts rest : List Lexeme) (e : PExpr)
    (h : psExpr2 (.eof c) f ctx ts = .val e rest) (hc : headCont L rest = false) (h3 : 3 ≤ L) :
    psExpr3 (.eof c) (f + 1) ctx ts = .val e rest := by
  rw [psExpr3]
  show P.bind _ _ ts = _
  unfold P.bind
  rw [h]
  show P.bind _ _ rest = _
  unfold P.bind
  rw [opt_exact_stop c hc _ (Or.inr (Or.inr (Or.inl ⟨rfl, h3⟩)))]
  rfl

theorem psExpr2_un (f : Nat) (x : Lexeme) (rest : List Lexeme) (t cls : String)
    (hx : x.tok = tkOp t) (hm : opMatch unaryOps ("OpToken." ++ t) = some cls) :
    psExpr2 (.eof c) (f + 1) ctx (x :: rest) =
      (match psExpr2 (.eof c) f ctx rest with
       | .val e r => .val (.un cls e) r
       | .fail => .err (.parser (herePos (.eof c) rest))
       | .err er => .err er) := by
  rw [psExpr2]
  show P.bind _ _ (x :: rest) = _
  unfold P.bind
  have : opt (opTok (.eof c) unaryOps) (x :: rest) = .val (some (cls, x)) rest := by
    unfold opt; rw [opTok_cons, hx]; simp [tkOp, hm]
  rw [this]
  show P.bind (expect (.eof c) (psExpr2 (.eof c) f ctx)) _ rest = _
  unfold P.bind expect
  cases psExpr2 (.eof c) f ctx rest <;> rfl

/-- the first token is not a prefix operator -/
def atomStart : Tok → Bool
  | .int _ => true | .ident _ _ => true | .enum n => n == "BracToken.LPAREN" | _ => false

theorem psExpr2_atom (f : Nat) (x : Lexeme) (rest : List Lexeme) (hx : atomStart x.tok = true) :
    psExpr2 (.eof c) (f + 1) ctx (x :: rest) = psExpr1 (.eof c) f ctx (x :: rest) := by
  rw [psExpr2]
  show P.bind _ _ (x :: rest) = _
  unfold P.bind
  have : opt (opTok (.eof c) unaryOps) (x :: rest) = .val none (x :: rest) := by
    unfold opt; rw [opTok_cons]
    cases ht : x.tok with
    | enum n =>
      simp only [ht, atomStart, beq_iff_eq] at hx
      subst hx
      simp [tbl_un_lparen]
    | _ => rfl
  rw [this]

theorem psExpr1_of {L : Nat} (f : Nat) (ts rest : List Lexeme) (e : PExpr)
    (h : psExpr0 (.eof c) (f + 1) ctx ts = .val e rest) (hc : headCont L rest = false) (h2 : 2 ≤ L) :
    psExpr1 (.eof c) (f + 2) ctx ts = .val e rest := by
  rw [psExpr1]
  show P.bind _ _ ts = _
  unfold P.bind
  rw [h]
  exact psPostfix_stop c ctx hc h2 f e

theorem psExpr_stop (f : Nat) (ts rest : List Lexeme) (e : PExpr)
    (h : psBinLevel (.eof c) f ctx 8 ts = .val e rest)
    (hs : opt (exact (.eof c) "OpToken.SPECULATION") rest = .val none rest) :
    psExpr (.eof c) (f + 1) ctx ts = .val e rest := by
  rw [psExpr]
  simp only [h, hs]

theorem psExpr0_lit (f : Nat) (x : Lexeme) (rest : List Lexeme) (v : Nat) (hx : x.tok = .int v) :
    psExpr0 (.eof c) (f + 1) ctx (x :: rest) = .val (.int v) rest := by
  rw [psExpr0]
  simp only [opt_exact_cons, hx]
  simp [opt, tokenIf_cons, hx]

theorem psExpr0_paren (f : Nat) (x y : Lexeme) (inner rest : List Lexeme) (e : PExpr)
    (hx : x.tok = tkL) (hy : y.tok = tkR) (h : psExpr (.eof c) f ctx inner = .val e (y :: rest)) :
    psExpr0 (.eof c) (f + 1) ctx (x :: inner) = .val e rest := by
  rw [psExpr0]
  simp only [opt_exact_cons, hx, tkL]
  simp only [beq_self_eq_true, if_true]
  show P.bind (expect (.eof c) (psExpr (.eof c) f ctx)) _ inner = _
  unfold P.bind expect
  simp only [h]
  show P.bind (expect (.eof c) (exact (.eof c) "BracToken.RPAREN")) _ (y :: rest) = _
  unfold P.bind expect
  rw [exact_cons, hy]
  simp [tkR]
  rfl

/-- the context lets a plain identifier through `ps_func_call`'s flavour test (all contexts the
grammar can reach do) -/
def CtxOK (ctx : Nat) : Prop := has ctx "FUNC" = false ∨ flavorAllowed ctx .none = true

theorem psIdent_cons (allowed : Flavor → Bool) (x : Lexeme) (rest : List Lexeme) (n : List CP) (fl : Flavor)
    (hx : x.tok = .ident n fl) :
    psIdent (.eof c) allowed (x :: rest) = if allowed fl then .val (n, fl, x) rest else .err (.parser x.start) := by
  simp only [psIdent, bind, P.bind, tokenIf_cons, hx]
  split <;> rfl

theorem exact_stop_fail {L : Nat} {rest : List Lexeme} (hc : headCont L rest = false) :
    exact (.eof c) "BracToken.LPAREN" rest = .fail := by
  cases rest with
  | nil => rfl
  | cons y r =>
    have := opt_exact_stop c hc "BracToken.LPAREN" (Or.inl rfl)
    rw [opt_exact_cons] at this
    rw [exact_cons]
    split at this
    · injection this with h1 h2; cases h1
    · rename_i h; simp [h]

theorem psFuncCall_ident {L : Nat} (hctx : CtxOK ctx) (f : Nat) (x : Lexeme) (rest : List Lexeme) (n : List CP)
    (hx : x.tok = .ident n .none) (hc : headCont L rest = false) :
    psFuncCall (.eof c) (f + 1) ctx (x :: rest) = .fail := by
  rw [psFuncCall]
  by_cases hf : has ctx "FUNC" = true
  · have hfl : flavorAllowed ctx .none = true := by
      rcases hctx with h | h
      · rw [h] at hf; cases hf
      · exact h
    simp only [hf, Bool.not_true, Bool.false_eq_true, if_false, bind, P.bind, psIdent_cons c _ x rest n .none hx, hfl, if_true,
      exact_stop_fail c hc]
  · simp only [Bool.not_eq_true] at hf
    simp [hf, fail]

theorem ident_ne_enum (n : List CP) (fl : Flavor) (s : String) : (Tok.ident n fl == Tok.enum s) = false := by simp

theorem psExpr0_var {L : Nat} (hctx : CtxOK ctx) (f : Nat) (x : Lexeme) (rest : List Lexeme) (n : List CP)
    (hx : x.tok = .ident n .none) (hc : headCont L rest = false) :
    psExpr0 (.eof c) (f + 2) ctx (x :: rest) = .val (.var n) rest := by
  rw [psExpr0]
  simp only [opt_exact_cons, hx, ident_ne_enum, Bool.false_eq_true, if_false]
  simp only [opt, tokenIf_cons, hx, psFuncCall_ident c ctx hctx f x rest n hx hc, bind, P.bind,
    psIdent_cons c _ x rest n .none hx, onlyPlain]
  rfl

theorem psExpr1_succ (f : Nat) (ts : List Lexeme) :
    psExpr1 (.eof c) (f + 1) ctx ts =
      (match psExpr0 (.eof c) f ctx ts with
       | .val e rest => psPostfix (.eof c) f ctx e rest
       | .fail => .fail
       | .err er => .err er) := by
  rw [psExpr1]
  show P.bind _ _ ts = _
  unfold P.bind
  cases psExpr0 (.eof c) f ctx ts <;> rfl

theorem psPostfix_dot (f : Nat) (e : PExpr) (x y : Lexeme) (rest : List Lexeme) (hx : x.tok = tkDot) (hy : y.tok = tkLength) :
    psPostfix (.eof c) (f + 1) ctx e (x :: y :: rest) = psPostfix (.eof c) f ctx (.len e) rest := by
  rw [psPostfix]
  simp only [bind, P.bind, opt_exact_cons, hx, tkDot, beq_self_eq_true, if_true, expect, tokenIf_cons, hy, tkLength]

theorem psPostfix_index (f : Nat) (e i : PExpr) (x y : Lexeme) (inner rest : List Lexeme) (hx : x.tok = tkLS) (hy : y.tok = tkRS)
    (h : psExpr (.eof c) f ctx inner = .val i (y :: rest)) :
    psPostfix (.eof c) (f + 1) ctx e (x :: inner) = psPostfix (.eof c) f ctx (.index e i) rest := by
  rw [psPostfix]
  have hd : (Tok.enum "BracToken.LSQUARE" == Tok.enum "SepToken.DOT") = false := by decide
  simp only [bind, P.bind, opt_exact_cons, hx, tkLS, hd, Bool.false_eq_true, if_false, beq_self_eq_true, if_true, expect, h,
    exact_cons, hy, tkRS]

theorem psExpr3_cast {L : Nat} (f : Nat) (ts rest : List Lexeme) (e : PExpr) (x y : Lexeme) (tn : String) (ty : Ty)
    (h : psExpr2 (.eof c) f ctx ts = .val e (x :: y :: rest)) (hx : x.tok = tkIS) (hy : y.tok = .enum tn)
    (hty : tyOfName tn = some ty) (hne : ty ≠ .empty) (hc : headCont L rest = false) (h2 : 2 ≤ L) :
    psExpr3 (.eof c) (f + 1) ctx ts = .val (.is_ e ty) rest := by
  rw [psExpr3]
  have hls : opt (exact (.eof c) "BracToken.LSQUARE") rest = .val none rest :=
    opt_exact_stop c hc _ (Or.inr (Or.inl ⟨Or.inr rfl, h2⟩))
  have hne' : (ty == Ty.empty) = false := by cases ty <;> first | rfl | exact absurd rfl hne
  simp only [bind, P.bind, h, opt_exact_cons, hx, tkIS, beq_self_eq_true, if_true, psDataTypeOpt, dataTypeTok, tokenIf_cons, hy,
    hty, Option.map_some, hne', Bool.false_eq_true, if_false, hls]
  rfl

end funcs


/-! ## the round trip -/
section main
variable (c : Cursor) (ctx : Nat)

abbrev lexOf (ls : List Lexeme) : List Tok := ls.map (·.tok)

/-- what remains to be done at level `L` once the operand `x` has been parsed -/
def kont (f L : Nat) (x : PExpr) (rest : List Lexeme) : Res PExpr :=
  if L ≤ 3 then .val x rest else psBinRest (.eof c) f ctx L x rest

theorem Evn.const_eq {α : Type} {a r : Res α} (h : Evn (fun _ => a) r) : r = a := by
  obtain ⟨n, hn⟩ := h; exact (hn n (Nat.le_refl _)).symm

theorem Evn.const {α : Type} (a : Res α) : Evn (fun _ => a) a := ⟨0, fun _ _ => rfl⟩

/-- `kont` at a level whose operators cannot follow is the identity -/
theorem kont_stop {L : Nat} {rest : List Lexeme} (hc : headCont (L + 1) rest = false) (x : PExpr) :
    Evn (fun f => kont c ctx f L x rest) (.val x rest) := by
  unfold kont
  by_cases h3 : L ≤ 3
  · simp only [h3, if_true]; exact Evn.const _
  · simp only [h3, if_false]
    exact Evn.of_eq 1 (fun f => psBinRest_stop c ctx hc L (by omega) (by omega) f x)

/-- from level `L0` up to level `L` -/
theorem lift {L0 : Nat} (h3 : 3 ≤ L0) (ts rest : List Lexeme) (x : PExpr)
    (h0 : ∀ r, Evn (fun f => kont c ctx f L0 x rest) r → Evn (fun f => psBinLevel (.eof c) f ctx L0 ts) r) :
    ∀ (d : Nat), headCont (L0 + d) rest = false →
      ∀ r, Evn (fun f => kont c ctx f (L0 + d) x rest) r → Evn (fun f => psBinLevel (.eof c) f ctx (L0 + d) ts) r := by
  intro d
  induction d with
  | zero => intro _ r hr; exact h0 r hr
  | succ d ih =>
    intro hc r hr
    have hc' : headCont (L0 + d) rest = false := headCont_mono (by omega) rest hc
    have hlow := ih hc' (.val x rest) (kont_stop c ctx (by rw [Nat.add_assoc]; exact hc) x)
    obtain ⟨n1, hn1⟩ := hlow
    obtain ⟨n2, hn2⟩ := hr
    refine ⟨max n1 n2 + 1, fun f hf => ?_⟩
    obtain ⟨f', rfl⟩ : ∃ f', f = f' + 1 := ⟨f - 1, by omega⟩
    dsimp only at hn1 hn2 ⊢
    rw [show L0 + (d + 1) = (L0 + d) + 1 from rfl, psBinLevel_succ c ctx (L0 + d + 1) (by omega), Nat.add_sub_cancel, hn1 f' (by omega)]
    have := hn2 f' (by omega)
    unfold kont at this
    rw [if_neg (by omega)] at this
    exact this

/-- a value of `ps_expr2` as an operand at level 3 -/
theorem base3 (ts rest : List Lexeme) (x : PExpr) (hc : headCont 3 rest = false)
    (h : Evn (fun f => psExpr2 (.eof c) f ctx ts) (.val x rest)) :
    ∀ r, Evn (fun f => kont c ctx f 3 x rest) r → Evn (fun f => psBinLevel (.eof c) f ctx 3 ts) r := by
  intro r hr
  have hr' : r = .val x rest := by unfold kont at hr; simp only [Nat.le_refl, if_true] at hr; exact hr.const_eq
  subst hr'
  obtain ⟨n, hn⟩ := h
  refine ⟨n + 2, fun f hf => ?_⟩
  obtain ⟨f', rfl⟩ : ∃ f', f = f' + 2 := ⟨f - 2, by omega⟩
  dsimp only at hn ⊢
  rw [show f' + 2 = (f' + 1) + 1 from rfl, psBinLevel_three c ctx 3 (Nat.le_refl _)]
  exact psExpr3_stop c ctx f' ts rest x (hn f' (by omega)) hc (Nat.le_refl _)

/-- a value of `ps_expr2` as an operand at any level `3 ≤ L` -/
theorem lift2 (ts rest : List Lexeme) (x : PExpr) (L : Nat) (h3 : 3 ≤ L) (hc : headCont L rest = false)
    (h : Evn (fun f => psExpr2 (.eof c) f ctx ts) (.val x rest)) :
    ∀ r, Evn (fun f => kont c ctx f L x rest) r → Evn (fun f => psBinLevel (.eof c) f ctx L ts) r := by
  have := lift c ctx (L0 := 3) (Nat.le_refl _) ts rest x (base3 c ctx ts rest x (headCont_mono h3 rest hc) h) (L - 3)
  rw [show 3 + (L - 3) = L by omega] at this
  exact this hc

theorem mem_levels {L : Nat} (h4 : 4 ≤ L) (h8 : L ≤ 8) : L ∈ [4, 5, 6, 7, 8] := by
  simp only [List.mem_cons, List.not_mem_nil, or_false]; omega

theorem headCont_cons (L : Nat) (x : Lexeme) (rest : List Lexeme) : headCont L (x :: rest) = isCont L x.tok := rfl

/-- an atom, then the postfix loop -/
theorem atom_post (k : Nat) (ts rest : List Lexeme) (x : PExpr) (h : ∀ f, psExpr0 (.eof c) (f + k) ctx ts = .val x rest) :
    ∀ r, Evn (fun f => psPostfix (.eof c) f ctx x rest) r → Evn (fun f => psExpr1 (.eof c) f ctx ts) r := by
  intro r hr
  obtain ⟨n, hn⟩ := hr
  refine ⟨n + k + 1, fun f hf => ?_⟩
  obtain ⟨f', rfl⟩ : ∃ f', f = f' + 1 := ⟨f - 1, by omega⟩
  dsimp only at hn ⊢
  rw [psExpr1_succ]
  have := h (f' - k)
  rw [Nat.sub_add_cancel (by omega)] at this
  rw [this]
  exact hn f' (by omega)

/-- a parenthesised expression is an atom (then the postfix loop) -/
theorem paren_post (e : OE)
    (hB : ∀ ls rest r, lexOf ls = body e → headCont 8 rest = false →
      Evn (fun f => kont c ctx f 8 e.toP rest) r → Evn (fun f => psBinLevel (.eof c) f ctx 8 (ls ++ rest)) r)
    (ls rest : List Lexeme) (hls : lexOf ls = tkL :: (body e ++ [tkR])) :
    ∀ r, Evn (fun f => psPostfix (.eof c) f ctx e.toP rest) r → Evn (fun f => psExpr1 (.eof c) f ctx (ls ++ rest)) r := by
  obtain ⟨x, ls', rfl, hx, hls'⟩ := List.map_eq_cons_iff.1 hls
  obtain ⟨lb, ly, rfl, hlb, hly⟩ := List.map_eq_append_iff.1 hls'
  obtain ⟨y, ly', rfl, hy, hnil⟩ := List.map_eq_cons_iff.1 hly
  have : ly' = [] := by simpa using hnil
  subst this
  have hc9 : headCont 9 (y :: rest) = false := by rw [headCont_cons, hy]; exact isCont_rparen
  have h8 := hB lb (y :: rest) (.val e.toP (y :: rest)) hlb (headCont_mono (by omega) _ hc9)
    (kont_stop c ctx hc9 _)
  obtain ⟨n, hn⟩ := h8
  have hatom : ∀ f, psExpr0 (.eof c) (f + (n + 2)) ctx (x :: (lb ++ y :: rest)) = .val e.toP rest := by
    intro f
    have e1 : psExpr (.eof c) (f + n + 1) ctx (lb ++ y :: rest) = .val e.toP (y :: rest) :=
      psExpr_stop c ctx (f + n) _ _ _ (hn (f + n) (by omega))
        (opt_exact_stop c hc9 _ (Or.inr (Or.inr (Or.inr ⟨rfl, by omega⟩))))
    exact psExpr0_paren c ctx (f + n + 1) x y (lb ++ y :: rest) rest e.toP hx hy e1
  have := atom_post c ctx (n + 2) (x :: (lb ++ y :: rest)) rest e.toP hatom
  simpa [List.append_assoc] using this

/-- a binary operator at its own level -/
theorem bin_level (Lb : Nat) (t cls : String) (l r : OE) (h4 : 4 ≤ Lb) (h8 : Lb ≤ 8) (hmem : (t, cls) ∈ binOps Lb)
    (hBl : ∀ ls rest r', lexOf ls = pr Lb l → headCont Lb rest = false →
      Evn (fun f => kont c ctx f Lb l.toP rest) r' → Evn (fun f => psBinLevel (.eof c) f ctx Lb (ls ++ rest)) r')
    (hBr : ∀ ls rest r', lexOf ls = pr (Lb - 1) r → headCont (Lb - 1) rest = false →
      Evn (fun f => kont c ctx f (Lb - 1) r.toP rest) r' → Evn (fun f => psBinLevel (.eof c) f ctx (Lb - 1) (ls ++ rest)) r')
    (ls rest : List Lexeme) (res : Res PExpr) (hls : lexOf ls = pr Lb l ++ tkOp t :: pr (Lb - 1) r)
    (hc : headCont Lb rest = false)
    (hk : Evn (fun f => kont c ctx f Lb (.bin cls l.toP r.toP) rest) res) :
    Evn (fun f => psBinLevel (.eof c) f ctx Lb (ls ++ rest)) res := by
  obtain ⟨ll, lxr, rfl, hll, hlxr⟩ := List.map_eq_append_iff.1 hls
  obtain ⟨x, lr, rfl, hx, hlr⟩ := List.map_eq_cons_iff.1 hlxr
  have hself := tbl_bin_self Lb (mem_levels h4 h8) (t, cls) hmem
  have hnc := tbl_bin_notcont Lb (mem_levels h4 h8) (t, cls) hmem
  simp only at hself hnc
  -- the right operand, then the rest of the level
  have hr := hBr lr rest (.val r.toP rest) hlr (headCont_mono (by omega) rest hc)
    (kont_stop c ctx (by rw [Nat.sub_add_cancel (by omega)]; exact hc) _)
  obtain ⟨n1, hn1⟩ := hr
  obtain ⟨n2, hn2⟩ := hk
  have hkl : Evn (fun f => kont c ctx f Lb l.toP (x :: (lr ++ rest))) res := by
    refine ⟨max n1 n2 + 1, fun f hf => ?_⟩
    obtain ⟨f', rfl⟩ : ∃ f', f = f' + 1 := ⟨f - 1, by omega⟩
    dsimp only at hn1 hn2 ⊢
    unfold kont
    rw [if_neg (by omega), psBinRest_op c ctx Lb f' _ x _ t cls hx hself, hn1 f' (by omega)]
    have := hn2 f' (by omega)
    unfold kont at this
    rw [if_neg (by omega)] at this
    exact this
  have := hBl ll (x :: (lr ++ rest)) res hll (by rw [headCont_cons, hx]; exact hnc) hkl
  simpa [List.append_assoc] using this

theorem pr_low (e : OE) (L : Nat) (hp : e.prec ≤ L) : pr L e = body e := by
  unfold pr wrap; rw [if_pos hp]

theorem pr_high (e : OE) (L : Nat) (hp : L < e.prec) : pr L e = tkL :: (body e ++ [tkR]) := by
  unfold pr wrap; rw [if_neg (by omega)]

/-- printed at the postfix level an expression starts with an atom token -/
theorem pr1_start : ∀ (e : OE), e.WF → ∃ t ts, pr 1 e = t :: ts ∧ atomStart t = true := by
  intro e
  induction e with
  | lit v => intro _; exact ⟨_, _, rfl, rfl⟩
  | var n => intro _; exact ⟨_, _, rfl, rfl⟩
  | un t cls e ih => intro _; exact ⟨tkL, _, pr_high _ 1 (by simp [OE.prec]), rfl⟩
  | bin L t cls l r _ _ => intro hwf; exact ⟨tkL, _, pr_high _ 1 (by have := hwf.1; simp only [OE.prec]; omega), rfl⟩
  | paren e ih => intro _; exact ⟨tkL, _, rfl, rfl⟩
  | cast e tn ty ih => intro _; exact ⟨tkL, _, pr_high _ 1 (by simp [OE.prec]), rfl⟩
  | index e i ihe _ =>
    intro hwf
    obtain ⟨t0, ts0, h0, ha⟩ := ihe hwf.1
    refine ⟨t0, ts0 ++ tkLS :: (body i ++ [tkRS]), ?_, ha⟩
    rw [pr_low _ 1 (by simp [OE.prec])]
    show pr 1 e ++ _ = _
    rw [h0]; rfl
  | len e ihe =>
    intro hwf
    obtain ⟨t0, ts0, h0, ha⟩ := ihe hwf
    refine ⟨t0, ts0 ++ [tkDot, tkLength], ?_, ha⟩
    rw [pr_low _ 1 (by simp [OE.prec])]
    show pr 1 e ++ _ = _
    rw [h0]; rfl

/-- statement at the postfix level: parse `e` printed as a postfix operand, then run the postfix loop -/
def StP (e : OE) : Prop :=
  ∀ ls rest r, lexOf ls = pr 1 e → headCont 1 rest = false →
    Evn (fun f => psPostfix (.eof c) f ctx e.toP rest) r → Evn (fun f => psExpr1 (.eof c) f ctx (ls ++ rest)) r

/-- statement at the level of prefix operators -/
def StA (e : OE) : Prop :=
  ∀ ls rest, lexOf ls = pr 2 e → headCont 2 rest = false →
    Evn (fun f => psExpr2 (.eof c) f ctx (ls ++ rest)) (.val e.toP rest)

/-- statement at the binary levels: parse `e` printed for level `L`, then continue the level -/
def StB (e : OE) : Prop :=
  ∀ L, 3 ≤ L → L ≤ 8 → ∀ ls rest r, lexOf ls = pr L e → headCont L rest = false →
    Evn (fun f => kont c ctx f L e.toP rest) r → Evn (fun f => psBinLevel (.eof c) f ctx L (ls ++ rest)) r

/-- whatever is printed the same at levels 1 and 2 (everything but a prefix operator application) -/
theorem stA_of_P (e : OE) (hwf : e.WF) (h12 : pr 2 e = pr 1 e) (hP : StP c ctx e) : StA c ctx e := by
  intro ls rest hls hc
  rw [h12] at hls
  obtain ⟨t0, ts0, h0, ha⟩ := pr1_start e hwf
  obtain ⟨x, ls', rfl, hx, _⟩ := List.map_eq_cons_iff.1 (hls.trans h0)
  obtain ⟨n, hn⟩ := hP (x :: ls') rest (.val e.toP rest) hls (headCont_mono (by omega) rest hc)
    (Evn.of_eq 1 (fun f => psPostfix_stop c ctx hc (Nat.le_refl _) f _))
  refine ⟨n + 1, fun f hf => ?_⟩
  obtain ⟨f', rfl⟩ : ∃ f', f = f' + 1 := ⟨f - 1, by omega⟩
  dsimp only at hn ⊢
  rw [List.cons_append, psExpr2_atom c ctx f' x _ (by rw [hx]; exact ha)]
  exact hn f' (by omega)

theorem stB_of_low (e : OE) (hp : e.prec ≤ 2) (hA : StA c ctx e) : StB c ctx e := by
  intro L h3 _ ls rest r hls hc hk
  rw [pr_low e L (by omega)] at hls
  exact lift2 c ctx (ls ++ rest) rest e.toP L h3 hc
    (hA ls rest (by rw [pr_low e 2 hp]; exact hls) (headCont_mono (by omega) rest hc)) r hk

/-- expressions whose operator is weaker than the postfix level: as a postfix operand they are parenthesised -/
theorem stP_of_B (e : OE) (hp : 1 < e.prec) (hp8 : e.prec ≤ 8) (hB : StB c ctx e) : StP c ctx e := by
  intro ls rest r hls _ hr
  rw [pr_high e 1 hp] at hls
  exact paren_post c ctx e
    (fun ls' rest' r' h1 h2 h3 => hB 8 (by omega) (Nat.le_refl _) ls' rest' r' (by rw [pr_low e 8 hp8]; exact h1) h2 h3)
    ls rest hls r hr

theorem round_trip (hctx : CtxOK ctx) : ∀ (e : OE), e.WF → StP c ctx e ∧ StA c ctx e ∧ StB c ctx e := by
  intro e
  induction e with
  | lit v =>
    intro hwf
    have hP : StP c ctx (.lit v) := by
      intro ls rest r hls _ hr
      rw [pr_low _ 1 (by simp [OE.prec])] at hls
      obtain ⟨x, ls', rfl, hx, hnil⟩ := List.map_eq_cons_iff.1 hls
      have : ls' = [] := by simpa using hnil
      subst this
      exact atom_post c ctx 1 _ rest _ (fun f => psExpr0_lit c ctx f x rest v hx) r hr
    have hA := stA_of_P c ctx _ hwf (by rw [pr_low _ 2 (by simp [OE.prec]), pr_low _ 1 (by simp [OE.prec])]) hP
    exact ⟨hP, hA, stB_of_low c ctx _ (by simp [OE.prec]) hA⟩
  | var n =>
    intro hwf
    have hP : StP c ctx (.var n) := by
      intro ls rest r hls hc hr
      rw [pr_low _ 1 (by simp [OE.prec])] at hls
      obtain ⟨x, ls', rfl, hx, hnil⟩ := List.map_eq_cons_iff.1 hls
      have : ls' = [] := by simpa using hnil
      subst this
      exact atom_post c ctx 2 _ rest _ (fun f => psExpr0_var c ctx hctx f x rest n hx hc) r hr
    have hA := stA_of_P c ctx _ hwf (by rw [pr_low _ 2 (by simp [OE.prec]), pr_low _ 1 (by simp [OE.prec])]) hP
    exact ⟨hP, hA, stB_of_low c ctx _ (by simp [OE.prec]) hA⟩
  | un t cls e1 ih =>
    intro hwf
    obtain ⟨hmem, hwf1⟩ := hwf
    obtain ⟨_, hA1, _⟩ := ih hwf1
    have hA : StA c ctx (.un t cls e1) := by
      intro ls rest hls hc
      rw [pr_low _ 2 (by simp [OE.prec])] at hls
      obtain ⟨x, ls1, rfl, hx, hls1⟩ := List.map_eq_cons_iff.1 hls
      obtain ⟨n, hn⟩ := hA1 ls1 rest hls1 hc
      refine ⟨n + 1, fun f hf => ?_⟩
      obtain ⟨f', rfl⟩ : ∃ f', f = f' + 1 := ⟨f - 1, by omega⟩
      dsimp only at hn ⊢
      have hm := tbl_un_self (t, cls) hmem
      simp only at hm
      rw [List.cons_append, psExpr2_un c ctx f' x _ t cls hx hm, hn f' (by omega)]
      rfl
    have hB := stB_of_low c ctx _ (by simp [OE.prec]) hA
    exact ⟨stP_of_B c ctx _ (by simp [OE.prec]) (by simp [OE.prec]) hB, hA, hB⟩
  | paren e1 ih =>
    intro hwf
    obtain ⟨hwf1, hp8⟩ := hwf
    obtain ⟨_, _, hB1⟩ := ih hwf1
    have hP : StP c ctx (.paren e1) := by
      intro ls rest r hls _ hr
      rw [pr_low _ 1 (by simp [OE.prec])] at hls
      exact paren_post c ctx e1
        (fun ls' rest' r' h1 h2 h3 => hB1 8 (by omega) (Nat.le_refl _) ls' rest' r' (by rw [pr_low e1 8 hp8]; exact h1) h2 h3)
        ls rest hls r hr
    have hA := stA_of_P c ctx (.paren e1) ⟨hwf1, hp8⟩ (by rw [pr_low _ 2 (by simp [OE.prec]), pr_low _ 1 (by simp [OE.prec])]) hP
    exact ⟨hP, hA, stB_of_low c ctx _ (by simp [OE.prec]) hA⟩
  | bin Lb t cls l r ihl ihr =>
    intro hwf
    obtain ⟨h4, h8, hmem, hwl, hwr⟩ := hwf
    obtain ⟨_, _, hBl⟩ := ihl hwl
    obtain ⟨_, _, hBr⟩ := ihr hwr
    -- at its own level
    have own : ∀ ls rest res, lexOf ls = body (.bin Lb t cls l r) → headCont Lb rest = false →
        Evn (fun f => kont c ctx f Lb (OE.bin Lb t cls l r).toP rest) res →
        Evn (fun f => psBinLevel (.eof c) f ctx Lb (ls ++ rest)) res :=
      fun ls rest res hls hc hk =>
        bin_level c ctx Lb t cls l r h4 h8 hmem (hBl Lb (by omega) h8) (hBr (Lb - 1) (by omega) (by omega))
          ls rest res hls hc hk
    -- at every level above
    have up : ∀ L, Lb ≤ L → L ≤ 8 → ∀ ls rest res, lexOf ls = body (.bin Lb t cls l r) → headCont L rest = false →
        Evn (fun f => kont c ctx f L (OE.bin Lb t cls l r).toP rest) res →
        Evn (fun f => psBinLevel (.eof c) f ctx L (ls ++ rest)) res := by
      intro L hL _ ls rest res hls hc hk
      have := lift c ctx (L0 := Lb) (by omega) (ls ++ rest) rest _
        (fun r' hr' => own ls rest r' hls (headCont_mono hL rest hc) hr') (L - Lb)
      rw [show Lb + (L - Lb) = L by omega] at this
      exact this hc res hk
    have hP : StP c ctx (.bin Lb t cls l r) := by
      intro ls rest res hls _ hr
      rw [pr_high _ 1 (by simp only [OE.prec]; omega)] at hls
      exact paren_post c ctx _ (fun ls' rest' r' h1 h2 h3 => up 8 h8 (Nat.le_refl _) ls' rest' r' h1 h2 h3) ls rest hls res hr
    have hA := stA_of_P c ctx (.bin Lb t cls l r) ⟨h4, h8, hmem, hwl, hwr⟩
      (by rw [pr_high _ 2 (by simp only [OE.prec]; omega), pr_high _ 1 (by simp only [OE.prec]; omega)]) hP
    refine ⟨hP, hA, ?_⟩
    intro L h3 hL8 ls rest res hls hc hk
    by_cases hL : Lb ≤ L
    · rw [pr_low _ L (by simpa [OE.prec] using hL)] at hls
      exact up L hL hL8 ls rest res hls hc hk
    · have hp2 : pr L (.bin Lb t cls l r) = pr 2 (.bin Lb t cls l r) := by
        rw [pr_high _ L (by simp only [OE.prec]; omega), pr_high _ 2 (by simp only [OE.prec]; omega)]
      exact lift2 c ctx (ls ++ rest) rest _ L h3 hc
        (hA ls rest (by rw [← hp2]; exact hls) (headCont_mono (by omega) rest hc)) res hk
  | cast e1 tn ty ih =>
    intro hwf
    obtain ⟨hty, hne, hwf1⟩ := hwf
    obtain ⟨_, hA1, _⟩ := ih hwf1
    -- at level 3
    have own : ∀ ls rest, lexOf ls = body (.cast e1 tn ty) → headCont 3 rest = false →
        Evn (fun f => psExpr3 (.eof c) f ctx (ls ++ rest)) (.val (OE.cast e1 tn ty).toP rest) := by
      intro ls rest hls hc
      obtain ⟨l1, lxy, rfl, hl1, hlxy⟩ := List.map_eq_append_iff.1 hls
      obtain ⟨x, ly, rfl, hx, hly⟩ := List.map_eq_cons_iff.1 hlxy
      obtain ⟨y, ln, rfl, hy, hnil⟩ := List.map_eq_cons_iff.1 hly
      have : ln = [] := by simpa using hnil
      subst this
      obtain ⟨n, hn⟩ := hA1 l1 (x :: y :: rest) hl1 (by rw [headCont_cons, hx]; decide)
      refine ⟨n + 1, fun f hf => ?_⟩
      obtain ⟨f', rfl⟩ : ∃ f', f = f' + 1 := ⟨f - 1, by omega⟩
      dsimp only at hn ⊢
      have := psExpr3_cast c ctx f' (l1 ++ x :: y :: rest) rest e1.toP x y tn ty (hn f' (by omega)) hx hy hty hne hc (by omega)
      simpa [List.append_assoc, OE.toP] using this
    have hB : StB c ctx (.cast e1 tn ty) := by
      intro L h3 _ ls rest res hls hc hk
      rw [pr_low _ L (by simpa [OE.prec] using h3)] at hls
      have base : ∀ r', Evn (fun f => kont c ctx f 3 (OE.cast e1 tn ty).toP rest) r' →
          Evn (fun f => psBinLevel (.eof c) f ctx 3 (ls ++ rest)) r' := by
        intro r' hr'
        have hr'' : r' = .val (OE.cast e1 tn ty).toP rest := by
          unfold kont at hr'; simp only [Nat.le_refl, if_true] at hr'; exact hr'.const_eq
        subst hr''
        obtain ⟨n, hn⟩ := own ls rest hls (headCont_mono h3 rest hc)
        refine ⟨n + 1, fun f hf => ?_⟩
        obtain ⟨f', rfl⟩ : ∃ f', f = f' + 1 := ⟨f - 1, by omega⟩
        dsimp only at hn ⊢
        rw [psBinLevel_three c ctx 3 (Nat.le_refl _)]
        exact hn f' (by omega)
      have := lift c ctx (L0 := 3) (Nat.le_refl _) (ls ++ rest) rest _ base (L - 3)
      rw [show 3 + (L - 3) = L by omega] at this
      exact this hc res hk
    have hP := stP_of_B c ctx _ (by simp [OE.prec]) (by simp [OE.prec]) hB
    have hA := stA_of_P c ctx (.cast e1 tn ty) ⟨hty, hne, hwf1⟩
      (by rw [pr_high _ 2 (by simp [OE.prec]), pr_high _ 1 (by simp [OE.prec])]) hP
    exact ⟨hP, hA, hB⟩
  | index e1 i ihe ihi =>
    intro hwf
    obtain ⟨hwf1, hwfi, hpi⟩ := hwf
    obtain ⟨hP1, _, _⟩ := ihe hwf1
    obtain ⟨_, _, hBi⟩ := ihi hwfi
    have hP : StP c ctx (.index e1 i) := by
      intro ls rest r hls _ hr
      rw [pr_low _ 1 (by simp [OE.prec])] at hls
      obtain ⟨l1, lxi, rfl, hl1, hlxi⟩ := List.map_eq_append_iff.1 hls
      obtain ⟨x, liy, rfl, hx, hliy⟩ := List.map_eq_cons_iff.1 hlxi
      obtain ⟨li, ly, rfl, hli, hly⟩ := List.map_eq_append_iff.1 hliy
      obtain ⟨y, ln, rfl, hy, hnil⟩ := List.map_eq_cons_iff.1 hly
      have : ln = [] := by simpa using hnil
      subst this
      -- the index expression, up to the closing bracket
      have hc9 : headCont 9 (y :: rest) = false := by rw [headCont_cons, hy]; decide
      obtain ⟨n1, hn1⟩ := hBi 8 (by omega) (Nat.le_refl _) li (y :: rest) (.val i.toP (y :: rest))
        (by rw [pr_low i 8 hpi]; exact hli) (headCont_mono (by omega) _ hc9) (kont_stop c ctx hc9 _)
      obtain ⟨n2, hn2⟩ := hr
      have hk : Evn (fun f => psPostfix (.eof c) f ctx e1.toP (x :: (li ++ y :: rest))) r := by
        refine ⟨max n1 n2 + 2, fun f hf => ?_⟩
        obtain ⟨f', rfl⟩ : ∃ f', f = f' + 2 := ⟨f - 2, by omega⟩
        dsimp only at hn1 hn2 ⊢
        have e1' : psExpr (.eof c) (f' + 1) ctx (li ++ y :: rest) = .val i.toP (y :: rest) :=
          psExpr_stop c ctx f' _ _ _ (hn1 f' (by omega))
            (opt_exact_stop c hc9 _ (Or.inr (Or.inr (Or.inr ⟨rfl, by omega⟩))))
        rw [psPostfix_index c ctx (f' + 1) e1.toP i.toP x y _ rest hx hy e1']
        exact hn2 (f' + 1) (by omega)
      have := hP1 l1 (x :: (li ++ y :: rest)) r hl1 (by rw [headCont_cons, hx]; decide) hk
      simpa [List.append_assoc] using this
    have hA := stA_of_P c ctx (.index e1 i) ⟨hwf1, hwfi, hpi⟩ (by rw [pr_low _ 2 (by simp [OE.prec]), pr_low _ 1 (by simp [OE.prec])]) hP
    exact ⟨hP, hA, stB_of_low c ctx _ (by simp [OE.prec]) hA⟩
  | len e1 ihe =>
    intro hwf
    obtain ⟨hP1, _, _⟩ := ihe hwf
    have hP : StP c ctx (.len e1) := by
      intro ls rest r hls _ hr
      rw [pr_low _ 1 (by simp [OE.prec])] at hls
      obtain ⟨l1, lxy, rfl, hl1, hlxy⟩ := List.map_eq_append_iff.1 hls
      obtain ⟨x, ly, rfl, hx, hly⟩ := List.map_eq_cons_iff.1 hlxy
      obtain ⟨y, ln, rfl, hy, hnil⟩ := List.map_eq_cons_iff.1 hly
      have : ln = [] := by simpa using hnil
      subst this
      obtain ⟨n2, hn2⟩ := hr
      have hk : Evn (fun f => psPostfix (.eof c) f ctx e1.toP (x :: y :: rest)) r := by
        refine ⟨n2 + 1, fun f hf => ?_⟩
        obtain ⟨f', rfl⟩ : ∃ f', f = f' + 1 := ⟨f - 1, by omega⟩
        dsimp only at hn2 ⊢
        rw [psPostfix_dot c ctx f' e1.toP x y rest hx hy]
        exact hn2 f' (by omega)
      have := hP1 l1 (x :: y :: rest) r hl1 (by rw [headCont_cons, hx]; decide) hk
      simpa [List.append_assoc] using this
    have hA := stA_of_P c ctx _ hwf (by rw [pr_low _ 2 (by simp [OE.prec]), pr_low _ 1 (by simp [OE.prec])]) hP
    exact ⟨hP, hA, stB_of_low c ctx _ (by simp [OE.prec]) hA⟩

/-- **The documented table is what the parser implements**: for every operator expression `e`
(any nesting of postfix indexing and `.length`, prefix operators, `is` casts and the five binary
levels over literals and variables, with any additional parentheses), any tokens `ls` spelling `e`
with the minimal parentheses of the documented precedence and left-associativity, and any
continuation `rest` that cannot extend an expression, `ps_expr` returns exactly the tree of `e`
and leaves `rest` — for all sufficiently large fuel. -/
theorem parse_pr (hctx : CtxOK ctx) (e : OE) (hwf : e.WF) (ls rest : List Lexeme)
    (hls : lexOf ls = pr 8 e) (hc : headCont 9 rest = false) :
    Evn (fun f => psExpr (.eof c) f ctx (ls ++ rest)) (.val e.toP rest) := by
  obtain ⟨_, _, hB⟩ := round_trip c ctx hctx e hwf
  obtain ⟨n, hn⟩ := hB 8 (by omega) (Nat.le_refl _) ls rest (.val e.toP rest) hls (headCont_mono (by omega) rest hc)
    (kont_stop c ctx hc _)
  refine ⟨n + 1, fun f hf => ?_⟩
  obtain ⟨f', rfl⟩ : ∃ f', f = f' + 1 := ⟨f - 1, by omega⟩
  exact psExpr_stop c ctx f' _ _ _ (hn f' (by omega))
    (opt_exact_stop c hc _ (Or.inr (Or.inr (Or.inr ⟨rfl, by omega⟩))))

/-- well-formed expressions have an operator level of at most 8 -/
theorem prec_le_8 : ∀ (e : OE), e.WF → e.prec ≤ 8 := by
  intro e hwf
  cases e with
  | bin L t cls l r => exact hwf.2.1
  | _ => simp [OE.prec]

end main

end HidVerif.Hid.Parse
