import HidVerif.Compiler.Core
/-!
# Core compiler model: output sizes

`len*` are the sizes the compile functions use to compute forward jump targets; here they are
shown to be the lengths of the emitted code (independently of the placement address).
-/
namespace HidVerif.Core
open HidVerif HidVerif.Sphinx

theorem arith_len (cx : Cx) (pc : Nat) (op : AOp) (rout : Nat) (a b : Arg) :
    (arith cx pc op rout a b).length = if needsGuard op && cx.checked then 5 else 1 := by
  unfold arith; split <;> simp

/-- the accessor `cE` returns, by the shape of the expression -/
def shape (cx : Cx) (Γ : Gam) (o rout : Nat) (e : E) (keep : Bool) : Opd × Bool :=
  match e with
  | .lit v => (.imm v, false)
  | .var x => (.slot (look Γ x), false)
  | _ => if keep then (.slot (o + cx.w), true) else (.reg rout, false)

theorem cE_shape (cx : Cx) (Γ : Gam) (e : E) (pc o rout : Nat) (keep : Bool) :
    (cE cx Γ pc o rout e keep).2 = shape cx Γ o rout e keep := by
  cases e <;> simp only [cE, finish, shape] <;> split <;> rfl

theorem cE_len (cx : Cx) (Γ : Gam) (e : E) : ∀ (pc o rout : Nat) (keep : Bool),
    (cE cx Γ pc o rout e keep).1.length = lenE e cx.checked keep := by
  induction e with
  | lit v => intros; rfl
  | var x => intros; rfl
  | bin op l r ihl ihr =>
    intro pc o rout keep
    rcases hcl : cE cx Γ pc o cx.r0 l (!isSafe r) with ⟨c1, vl, p1⟩
    have sl : (vl, p1) = shape cx Γ o cx.r0 l (!isSafe r) := by
      have := cE_shape cx Γ l pc o cx.r0 (!isSafe r); rw [hcl] at this; exact this
    have hl : c1.length = lenE l cx.checked (!isSafe r) := by
      have := ihl pc o cx.r0 (!isSafe r); rw [hcl] at this; exact this
    rcases hcr : cE cx Γ (pc + c1.length) (if p1 then o + cx.w else o) cx.r1 r false with ⟨c2, vr0, p2⟩
    have sr : (vr0, p2) = shape cx Γ (if p1 then o + cx.w else o) cx.r1 r false := by
      have := cE_shape cx Γ r (pc + c1.length) (if p1 then o + cx.w else o) cx.r1 false; rw [hcr] at this; exact this
    have hr : c2.length = lenE r cx.checked false := by
      have := ihr (pc + c1.length) (if p1 then o + cx.w else o) cx.r1 false; rw [hcr] at this; exact this
    simp only [cE, hcl, hcr, finish, lenE]
    cases l <;> cases r <;> cases keep <;>
      simp_all [shape, isSafe, getOp, arith_len, List.length_append] <;> omega
  | neg e ih =>
    intro pc o rout keep
    rcases hce : cE cx Γ pc o rout e false with ⟨c, v0, p0⟩
    have s : (v0, p0) = shape cx Γ o rout e false := by
      have := cE_shape cx Γ e pc o rout false; rw [hce] at this; exact this
    have h : c.length = lenE e cx.checked false := by
      have := ih pc o rout false; rw [hce] at this; exact this
    simp only [cE, hce, finish, lenE]
    cases e <;> cases keep <;> simp_all [shape, getOp, List.length_append] <;> omega
  | pos e ih =>
    intro pc o rout keep
    rcases hce : cE cx Γ pc o rout e false with ⟨c, v0, p0⟩
    have s : (v0, p0) = shape cx Γ o rout e false := by
      have := cE_shape cx Γ e pc o rout false; rw [hce] at this; exact this
    have h : c.length = lenE e cx.checked false := by
      have := ih pc o rout false; rw [hce] at this; exact this
    simp only [cE, hce, finish, lenE]
    cases e <;> cases keep <;> simp_all [shape, getOp, List.length_append] <;> omega

/-! ## conditions -/
@[simp] theorem endsGoto_nil : endsGoto [] = false := rfl
@[simp] theorem endsGoto_goto (t : Nat) : endsGoto (goto t) = true := rfl
@[simp] theorem endsGoto_append_goto (l : List Instr) (t : Nat) : endsGoto (l ++ goto t) = true := by
  simp [endsGoto, goto]
@[simp] theorem goto_len (t : Nat) : (goto t).length = 2 := rfl

theorem cB_len (cx : Cx) (Γ : Gam) (b : B) : ∀ (pc o : Nat) (ifT ifF : List Instr),
    (cB cx Γ pc o b ifT ifF).length
      = lenB cx.checked b ifT.length ifF.length (endsGoto ifT) (endsGoto ifF) := by
  induction b with
  | lit v => intro pc o ifT ifF; cases v <;> simp [cB, lenB]
  | cmp op l r =>
    intro pc o ifT ifF
    rcases hcl : cE cx Γ pc o cx.r0 l (!isSafe r) with ⟨c1, vl, p1⟩
    have sl : (vl, p1) = shape cx Γ o cx.r0 l (!isSafe r) := by
      have := cE_shape cx Γ l pc o cx.r0 (!isSafe r); rw [hcl] at this; exact this
    have hl : c1.length = lenE l cx.checked (!isSafe r) := by
      have := cE_len cx Γ l pc o cx.r0 (!isSafe r); rw [hcl] at this; exact this
    rcases hcr : cE cx Γ (pc + c1.length) (if p1 then o + cx.w else o) cx.r1 r false with ⟨c2, vr0, p2⟩
    have sr : (vr0, p2) = shape cx Γ (if p1 then o + cx.w else o) cx.r1 r false := by
      have := cE_shape cx Γ r (pc + c1.length) (if p1 then o + cx.w else o) cx.r1 false; rw [hcr] at this; exact this
    have hr : c2.length = lenE r cx.checked false := by
      have := cE_len cx Γ r (pc + c1.length) (if p1 then o + cx.w else o) cx.r1 false; rw [hcr] at this; exact this
    simp only [cB, hcl, hcr, lenB]
    cases l <;> cases r <;> cases hg : endsGoto ifF <;>
      simp_all [shape, isSafe, getOp, List.length_append] <;> omega
  | not b ih => intro pc o ifT ifF; simp only [cB, lenB]; exact ih pc o ifF ifT
  | and l r ihl ihr =>
    intro pc o ifT ifF
    simp only [cB, lenB, List.length_append, ihl, ihr]
    cases hg : endsGoto ifF <;> simp [hg]
  | or l r ihl ihr =>
    intro pc o ifT ifF
    simp only [cB, lenB, List.length_append, ihl, ihr]
    cases hg : endsGoto ifT <;> simp [hg]

theorem cD_len (cx : Cx) (vd : Bool) (Γ : Gam) (b : B) : ∀ (pc o : Nat), (cD cx vd Γ pc o b).length = lenD cx.checked vd b := by
  induction b with
  | lit v => intro pc o; cases v <;> cases vd <;> rfl
  | cmp op l r =>
    intro pc o
    rcases hcl : cE cx Γ pc o cx.r0 l (!isSafe r) with ⟨c1, vl, p1⟩
    have sl : (vl, p1) = shape cx Γ o cx.r0 l (!isSafe r) := by
      have := cE_shape cx Γ l pc o cx.r0 (!isSafe r); rw [hcl] at this; exact this
    have hl : c1.length = lenE l cx.checked (!isSafe r) := by
      have := cE_len cx Γ l pc o cx.r0 (!isSafe r); rw [hcl] at this; exact this
    rcases hcr : cE cx Γ (pc + c1.length) (if p1 then o + cx.w else o) cx.r1 r false with ⟨c2, vr0, p2⟩
    have sr : (vr0, p2) = shape cx Γ (if p1 then o + cx.w else o) cx.r1 r false := by
      have := cE_shape cx Γ r (pc + c1.length) (if p1 then o + cx.w else o) cx.r1 false; rw [hcr] at this; exact this
    have hr : c2.length = lenE r cx.checked false := by
      have := cE_len cx Γ r (pc + c1.length) (if p1 then o + cx.w else o) cx.r1 false; rw [hcr] at this; exact this
    simp only [cD, hcl, hcr, lenD]
    cases vd <;> cases l <;> cases r <;> simp_all [shape, isSafe, getOp, List.length_append] <;> omega
  | not b _ => intro pc o; rfl
  | and l r _ _ => intro pc o; rfl
  | or l r ihl ihr => intro pc o; simp only [cD, lenD, List.length_append, ihl, ihr]

/-! ## statements -/
theorem pushE_len (cx : Cx) (Γ : Gam) (pc o : Nat) (e : E) :
    (pushE cx Γ pc o e).length = lenPush cx.checked e := by
  rcases hce : cE cx Γ pc o cx.r1 e true with ⟨c, v0, p0⟩
  have s : (v0, p0) = shape cx Γ o cx.r1 e true := by
    have := cE_shape cx Γ e pc o cx.r1 true; rw [hce] at this; exact this
  have h : c.length = lenE e cx.checked true := by
    have := cE_len cx Γ e pc o cx.r1 true; rw [hce] at this; exact this
  simp only [pushE, hce, lenPush]
  cases e <;> simp_all [shape, getOp, List.length_append, lenE]

theorem gV_len (cx : Cx) (Γ : Gam) (pc o r : Nat) (e : E) :
    (gV cx Γ pc o r e).1.length = lenGV cx.checked e := by
  rcases hce : cE cx Γ pc o r e false with ⟨c, v0, p0⟩
  have s : (v0, p0) = shape cx Γ o r e false := by
    have := cE_shape cx Γ e pc o r false; rw [hce] at this; exact this
  have h : c.length = lenE e cx.checked false := by
    have := cE_len cx Γ e pc o r false; rw [hce] at this; exact this
  simp only [gV, hce, lenGV]
  cases e <;> simp_all [shape, getOp, List.length_append, lenE]

theorem cWrite_len (cx : Cx) (Γ : Gam) (pc o : Nat) (e : E) :
    (cWrite cx Γ pc o e).length = lenWrite cx.checked e := by
  simp [cWrite, lenWrite, pushE_len]; omega

theorem cArgs_len (cx : Cx) (Γ : Gam) (args : List E) : ∀ (pc o : Nat), (cArgs cx Γ pc o args).length = lenArgs cx.checked args := by
  induction args with
  | nil => intros; rfl
  | cons e es ih => intro pc o; simp [cArgs, lenArgs, pushE_len, ih]

theorem cCall_len (cx : Cx) (fa : FAddr) (Γ : Gam) (pc o : Nat) (g : String) (args : List E) :
    (cCall cx fa Γ pc o g args).length = lenCall cx.checked args := by
  simp [cCall, lenCall, cArgs_len]; omega

theorem cS_len (cx : Cx) (fa : FAddr) (s : S) : ∀ (lp : Jt) (Γ : Gam) (pc o : Nat),
    (cS cx fa lp Γ pc o s).length = lenS cx.checked lp.vd s := by
  induction s with
  | nil => intros; rfl
  | ret => intros; rfl
  | decl x e k ih => intro lp Γ pc o; simp [cS, lenS, pushE_len, ih]
  | assign x e k ih =>
    intro lp Γ pc o
    have := gV_len cx Γ pc o cx.r1 e
    rcases hg : gV cx Γ pc o cx.r1 e with ⟨c, v⟩
    rw [hg] at this
    simp [cS, hg, lenS, ih] at this ⊢; omega
  | write e k ih => intro lp Γ pc o; simp [cS, lenS, cWrite_len, ih]
  | writeln e k ih =>
    intro lp Γ pc o
    cases e <;> simp [cS, lenS, cWrite_len, ih] <;> omega
  | putc c k ih => intro lp Γ pc o; simp [cS, lenS, ih]; omega
  | block b k ihb ihk => intro lp Γ pc o; simp [cS, lenS, ihb, ihk]
  | ifb c t e k iht ihe ihk =>
    intro lp Γ pc o
    simp [cS, lenS, cB_len, iht, ihe, ihk]; omega
  | loop c body cont k ihb ihc ihk =>
    intro lp Γ pc o
    simp [cS, lenS, cB_len, ihb, ihc, ihk]; omega
  | defeat k ih => intro lp Γ pc o; cases hv : lp.vd <;> simp [cS, lenS, hv, ih] <;> omega
  | defeatIf c k ih => intro lp Γ pc o; simp [cS, lenS, cD_len, ih]
  | tryUndo body handler k ihb ihh ihk =>
    intro lp Γ pc o
    simp [cS, lenS, ihb, ihh, ihk]; omega
  | retE e =>
    intro lp Γ pc o
    have := gV_len cx Γ pc o cx.r0 e
    rcases hg : gV cx Γ pc o cx.r0 e with ⟨c, v⟩
    rw [hg] at this
    simp [cS, hg, lenS] at this ⊢; omega
  | callS g args k ih => intro lp Γ pc o; simp [cS, lenS, cCall_len, ih]
  | declCall x g args k ih => intro lp Γ pc o; simp [cS, lenS, cCall_len, ih]
  | assignCall x g args k ih => intro lp Γ pc o; simp [cS, lenS, cCall_len, ih]; omega
  | brk => intros; rfl
  | cnt => intros; rfl
  | tryStop body handler k ihb ihh ihk =>
    intro lp Γ pc o
    simp [cS, lenS, ihb, ihh, ihk]; omega

end HidVerif.Core
