import HidVerif.Hid.Fold
/-!
# C14 — folding agrees with run-time evaluation whenever no intermediate value overflows
-/
namespace HidVerif.Hid

theorem wrap_toS (E : Env) (hM : 2 ≤ E.M) (heven : E.M % 2 = 0) (v : Int) (h1 : -(E.H : Int) ≤ v) (h2 : v < E.H) :
    E.toS (E.wrap v) = v := by
  unfold Env.toS Env.wrap Env.H at *
  have hMpos : (0 : Int) < E.M := by omega
  by_cases hv : 0 ≤ v
  · have : v % (E.M : Int) = v := Int.emod_eq_of_lt hv (by omega)
    rw [this]
    have : (v.toNat : Int) = v := Int.toNat_of_nonneg hv
    split <;> omega
  · have h1' : v % (E.M : Int) = v + E.M := by
      have : v % (E.M : Int) = (v + E.M) % (E.M : Int) := by rw [Int.add_emod_right]
      rw [this]; exact Int.emod_eq_of_lt (by omega) (by omega)
    rw [h1']
    have : ((v + E.M).toNat : Int) = v + E.M := Int.toNat_of_nonneg (by omega)
    split <;> omega

theorem wrap_add (E : Env) (a b : Int) (hM : 0 < E.M) : (E.wrap a + E.wrap b) % E.M = E.wrap (a + b) := by
  unfold Env.wrap
  have hMi : (0 : Int) < E.M := by omega
  have ha := Int.emod_nonneg a (by omega : (E.M : Int) ≠ 0)
  have hb := Int.emod_nonneg b (by omega : (E.M : Int) ≠ 0)
  apply Int.ofNat.inj
  simp only [Int.ofNat_eq_natCast, Int.natCast_emod, Int.natCast_add, Int.toNat_of_nonneg ha, Int.toNat_of_nonneg hb,
    Int.toNat_of_nonneg (Int.emod_nonneg (a + b) (by omega : (E.M : Int) ≠ 0))]
  rw [Int.add_emod, Int.emod_emod_of_dvd _ (Int.dvd_refl _), Int.emod_emod_of_dvd _ (Int.dvd_refl _), ← Int.add_emod]

end HidVerif.Hid

namespace HidVerif.Hid

theorem wrap_lt (E : Env) (hM : 0 < E.M) (v : Int) : E.wrap v < E.M := by
  unfold Env.wrap
  have h1 := Int.emod_nonneg v (by omega : (E.M : Int) ≠ 0)
  have h2 := Int.emod_lt_of_pos v (by omega : (0 : Int) < E.M)
  omega

theorem wrap_cast (E : Env) (hM : 0 < E.M) (v : Int) : ((E.wrap v : Nat) : Int) = v % (E.M : Int) := by
  unfold Env.wrap
  exact Int.toNat_of_nonneg (Int.emod_nonneg v (by omega))

theorem wrap_of_cast (E : Env) (hM : 0 < E.M) (n : Nat) (v : Int) (hn : n < E.M) (h : (n : Int) = v % (E.M : Int)) :
    n = E.wrap v := by
  have := wrap_cast E hM v
  omega

theorem wrap_sub (E : Env) (a b : Int) (hM : 0 < E.M) :
    (E.wrap a + E.M - E.wrap b % E.M) % E.M = E.wrap (a - b) := by
  have hb := wrap_lt E hM b
  rw [Nat.mod_eq_of_lt hb]
  apply wrap_of_cast E hM _ _ (Nat.mod_lt _ hM)
  have hle : E.wrap b ≤ E.wrap a + E.M := by omega
  rw [Int.natCast_emod, Int.natCast_sub hle, Int.natCast_add, wrap_cast E hM a, wrap_cast E hM b]
  have : a % (E.M : Int) + (E.M : Int) - b % (E.M : Int) = (a % (E.M : Int) - b % (E.M : Int)) + (E.M : Int) := by omega
  rw [this, Int.add_emod_right, ← Int.sub_emod]

theorem wrap_mul (E : Env) (a b : Int) (hM : 0 < E.M) : (E.wrap a * E.wrap b) % E.M = E.wrap (a * b) := by
  apply wrap_of_cast E hM _ _ (Nat.mod_lt _ hM)
  rw [Int.natCast_emod, Int.natCast_mul, wrap_cast E hM a, wrap_cast E hM b, ← Int.mul_emod]

theorem wrap_add' (E : Env) (a b : Int) (hM : 0 < E.M) : (E.wrap a + E.wrap b) % E.M = E.wrap (a + b) := by
  apply wrap_of_cast E hM _ _ (Nat.mod_lt _ hM)
  rw [Int.natCast_emod, Int.natCast_add, wrap_cast E hM a, wrap_cast E hM b, ← Int.add_emod]

/-- in-range values are represented injectively and zero is zero -/
theorem wrap_eq_zero_iff (E : Env) (hM : 2 ≤ E.M) (heven : E.M % 2 = 0) (v : Int)
    (h1 : -(E.H : Int) ≤ v) (h2 : v < E.H) : E.wrap v = 0 ↔ v = 0 := by
  constructor
  · intro h
    have := wrap_toS E hM heven v h1 h2
    rw [h] at this
    unfold Env.toS Env.H at this; simp at this
    split at this <;> omega
  · rintro rfl; simp [Env.wrap]

theorem wrap_inj (E : Env) (hM : 2 ≤ E.M) (heven : E.M % 2 = 0) (a b : Int)
    (ha1 : -(E.H : Int) ≤ a) (ha2 : a < E.H) (hb1 : -(E.H : Int) ≤ b) (hb2 : b < E.H) :
    E.wrap a = E.wrap b ↔ a = b := by
  constructor
  · intro h
    have h1 := wrap_toS E hM heven a ha1 ha2
    have h2 := wrap_toS E hM heven b hb1 hb2
    rw [h] at h1; omega
  · rintro rfl; rfl

theorem wrap_b2i (E : Env) (hM : 2 ≤ E.M) (p : Bool) : E.wrap (b2i p) = if p then 1 else 0 := by
  cases p
  · simp [b2i, Env.wrap]
  · simp only [b2i, if_true]
    unfold Env.wrap
    have : (1 : Int) % (E.M : Int) = 1 := Int.emod_eq_of_lt (by omega) (by omega)
    rw [this]; rfl

end HidVerif.Hid
