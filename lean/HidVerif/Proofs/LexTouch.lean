import HidVerif.Proofs.LexEscaped
/-!
# C12 (v, vi) continued: tokens that touch

`ReadsAs t tok rest` does not ask for white space after `t`.  Here the token classes are shown to read
correctly in front of *any* continuation that does not extend them:
* a symbol, when no longer symbol is a prefix of text-plus-continuation (maximal munch) - in particular
  when the next character is none of `=`, `?` (and not `/` after `/`);
* a name or keyword, when the next character is not a word character;
* an integer literal, when the continuation does not go on with a digit or `_digit` (and a lone `0`
  is not followed by a base letter);
* a string or character literal, always.
With `lex_layout` this gives layout independence and exact spans for sources such as `f(x1)+=0x1F;//c`.
-/
namespace HidVerif.Hid.Lex
open HidVerif.Gen

/-! ## symbols: maximal munch -/

theorem isPrefix_short (p t rest : Line) (h : p.length ≤ t.length) : isPrefix p (t ++ rest) = isPrefix p t := by
  unfold isPrefix
  rw [List.take_append_of_le_length h]

theorem readSymbol_maximal (s : String) (hs : s ∈ symbolTokens) (rest : Line)
    (hmax : ∀ s' ∈ symbolTokens, (cps s).length < (cps s').length → isPrefix (cps s') (cps s ++ rest) = false) :
    readSymbol (cps s ++ rest) = some (.enum (enumName s), (cps s).length) := by
  unfold readSymbol
  rw [find?_congr' symbolTokens _ (fun s' => decide ((cps s').length ≤ (cps s).length) && isPrefix (cps s') (cps s))
    (fun s' hm => by
      by_cases hl : (cps s').length ≤ (cps s).length
      · simp only [hl, decide_true, Bool.true_and]; exact isPrefix_short _ _ _ hl
      · simp only [hl, decide_false, Bool.false_and]; exact hmax s' hm (by omega)), symbols_self s hs]
  simp only [Option.map_some, (symbols_shape s hs).2.2]

/-- a symbol in front of anything that does not make a longer symbol (or a comment) of it -/
theorem readsAs_symbol (s : String) (hs : s ∈ symbolTokens) (rest : Line)
    (hmax : ∀ s' ∈ symbolTokens, (cps s).length < (cps s').length → isPrefix (cps s') (cps s ++ rest) = false)
    (hnc : ∀ r, cps s ++ rest ≠ 47 :: 47 :: r) : ReadsAs (cps s) (.enum (enumName s)) rest := by
  refine ⟨(symbols_shape s hs).1, fun c r h => symbols_no_space s hs c (by rw [h]; exact List.mem_cons_self), hnc, ?_⟩
  unfold readToken
  rw [readSymbol_maximal s hs rest hmax]

theorem symbols_len : ∀ s ∈ symbolTokens, (cps s).length = 1 ∨ (cps s).length = 2 := by decide
theorem symbols_second' : ∀ s ∈ symbolTokens, ∀ b ∈ (cps s)[1]?, b = 61 ∨ b = 63 := by decide
theorem symbols_second (s : String) (hs : s ∈ symbolTokens) (a b : CP) (h : cps s = [a, b]) : b = 61 ∨ b = 63 :=
  symbols_second' s hs b (by rw [h]; rfl)

/-- in particular: the next character is neither `=` nor `?`, and a `/` is not followed by `/` -/
theorem readsAs_symbol_next (s : String) (hs : s ∈ symbolTokens) (c : CP) (r : Line) (h1 : c ≠ 61) (h2 : c ≠ 63)
    (h3 : cps s = [47] → c ≠ 47) : ReadsAs (cps s) (.enum (enumName s)) (c :: r) := by
  refine readsAs_symbol s hs _ (fun s' hs' hlt => ?_) (fun r' heq => ?_)
  · rcases symbols_len s hs with h | h <;> rcases symbols_len s' hs' with h' | h' <;> try omega
    -- |s| = 1, |s'| = 2
    obtain ⟨a, ha⟩ : ∃ a, cps s = [a] := by
      cases hc : cps s with
      | nil => rw [hc] at h; cases h
      | cons a t => cases t with
        | nil => exact ⟨a, rfl⟩
        | cons _ _ => rw [hc] at h; simp at h
    obtain ⟨x, y, hxy⟩ : ∃ x y, cps s' = [x, y] := by
      cases hc : cps s' with
      | nil => rw [hc] at h'; cases h'
      | cons x t => cases t with
        | nil => rw [hc] at h'; simp at h'
        | cons y t' => cases t' with
          | nil => exact ⟨x, y, rfl⟩
          | cons _ _ => rw [hc] at h'; simp at h'
    rw [ha, hxy]
    unfold isPrefix
    simp only [List.cons_append, List.nil_append, List.length_cons, List.length_nil, List.take_succ_cons, List.take_zero]
    refine beq_false_of_ne (fun heq => ?_)
    injection heq with _ h4; injection h4 with h5 _
    rcases symbols_second s' hs' x y hxy with hy | hy
    · exact h1 (by rw [h5, hy])
    · exact h2 (by rw [h5, hy])
  · rcases symbols_len s hs with h | h
    · obtain ⟨a, ha⟩ : ∃ a, cps s = [a] := by
        cases hc : cps s with
        | nil => rw [hc] at h; cases h
        | cons a t => cases t with
          | nil => exact ⟨a, rfl⟩
          | cons _ _ => rw [hc] at h; simp at h
      rw [ha] at heq
      simp only [List.cons_append, List.nil_append] at heq
      injection heq with h4 h5; injection h5 with h6 _
      exact h3 (by rw [ha, h4]) h6
    · cases hc : cps s with
      | nil => rw [hc] at h; cases h
      | cons a t => cases t with
        | nil => rw [hc] at h; simp at h
        | cons b t' =>
          rw [hc] at heq
          simp only [List.cons_append] at heq
          injection heq with h4 h5; injection h5 with h6 _
          exact (symbols_shape s hs).2.1 t' (by rw [hc, h4, h6])

/-! ## names and keywords: the next character is not a word character -/

def NotWordNext (rest : Line) : Prop := rest = [] ∨ ∃ d r, rest = d :: r ∧ isWord d = false

theorem takeWhile_word_append' (r rest : Line) (hr : ∀ d ∈ r, isWord d = true) (hrest : NotWordNext rest) :
    (r ++ rest).takeWhile isWord = r := by
  induction r with
  | nil =>
    rcases hrest with rfl | ⟨d, r', rfl, hd⟩
    · rfl
    · simp [hd]
  | cons a r ih =>
    simp only [List.cons_append, List.takeWhile_cons, hr a List.mem_cons_self, if_true]
    rw [ih (fun d hd => hr d (List.mem_cons_of_mem _ hd))]

theorem readsAs_word (c : CP) (r : Line) (hc : isIdStart c = true) (hr : ∀ d ∈ r, isWord d = true) (rest : Line)
    (hrest : NotWordNext rest) :
    ReadsAs (c :: r) (match keywordOf (c :: r) with | some k => .enum k | none => .ident (c :: r) .none) rest := by
  have h64 : c ≠ 64 := fun h => by rw [h] at hc; exact absurd hc (by decide)
  have h33 : c ≠ 33 := fun h => by rw [h] at hc; exact absurd hc (by decide)
  refine ⟨by simp, fun c' r' h => (by injection h with h1 _; rw [← h1]; exact idstart_not_space c hc),
    fun r' h => (by
      simp only [List.cons_append] at h
      injection h with h1 _
      rw [h1] at hc; exact absurd hc (by decide)), ?_⟩
  have htw := takeWhile_word_append' r rest hr hrest
  unfold readToken
  rw [List.cons_append, readSymbol_idstart c _ hc]
  have hri : readIdent (c :: (r ++ rest)) =
      .ok (match keywordOf (c :: r) with | some k => .enum k | none => .ident (c :: r) .none) (c :: r).length := by
    unfold readIdent
    split
    · rename_i r' h; injection h with h1 _; exact absurd h1 h64
    · rename_i r' h; injection h with h1 _; exact absurd h1 h33
    · simp only [matchIdent, hc, if_true, htw]
      cases keywordOf (c :: r) <;> rfl
  simp only [hri]

theorem readsAs_flavoured (p : CP) (fl : Flavor) (hp : (p = 64 ∧ fl = .you) ∨ (p = 33 ∧ fl = .defeat))
    (c : CP) (r : Line) (hc : isIdStart c = true) (hr : ∀ d ∈ r, isWord d = true)
    (hk : keywordOf (c :: r) = none) (rest : Line) (hrest : NotWordNext rest) :
    ReadsAs (p :: c :: r) (.ident (c :: r) fl) rest := by
  have hp' : p = 64 ∨ p = 33 := by rcases hp with ⟨h, _⟩ | ⟨h, _⟩ <;> simp [h]
  refine ⟨by simp, fun c' r' h => (by injection h with h1 _; rw [← h1]; rcases hp' with rfl | rfl <;> decide +kernel),
    fun r' h => (by simp only [List.cons_append] at h; injection h with h1 _; rcases hp' with rfl | rfl <;> cases h1), ?_⟩
  have htw := takeWhile_word_append' r rest hr hrest
  unfold readToken
  rw [List.cons_append, List.cons_append, symbols_head_not_flavour _ c hc p hp']
  have hri : readIdent (p :: c :: (r ++ rest)) = .ok (.ident (c :: r) fl) (p :: c :: r).length := by
    rcases hp with ⟨rfl, rfl⟩ | ⟨rfl, rfl⟩
    · simp [readIdent, matchIdent, hc, htw, hk, Nat.add_comm]
    · simp [readIdent, matchIdent, hc, htw, hk, Nat.add_comm]
  simp only [hri]

/-! ## integer literals: the continuation does not go on with a digit -/

theorem readsAs_decimal (c0 : CP) (tl : List (Bool × CP)) (h0 : asciiDigit c0) (htl : ∀ x ∈ tl, asciiDigit x.2) (rest : Line)
    (hstop : Stops digitVal rest)
    (hzero : tl = [] → c0 = 48 → ∀ q r, rest = q :: r → q ≠ 120 ∧ q ≠ 111 ∧ q ≠ 98) :
    ReadsAs (c0 :: renderTail tl) (.int (ofDigits 10 ((c0 - 48) :: tl.map (fun x => x.2 - 48)))) rest := by
  refine ⟨by simp, fun c r h => (by injection h with h1 _; rw [← h1]; exact digit_not_space c0 h0),
    fun r h => (by
      simp only [List.cons_append] at h
      injection h with h1 _
      rw [h1] at h0; exact absurd h0.1 (by decide)), ?_⟩
  unfold readToken
  rw [List.cons_append, readSymbol_digit c0 _ h0]
  simp only [readIdent_digit c0 _ h0]
  have hq : ∀ q r, c0 :: (renderTail tl ++ rest) = 48 :: q :: r → q ≠ 120 ∧ q ≠ 111 ∧ q ≠ 98 := by
    intro q r h
    injection h with h1 h2
    cases tl with
    | nil => exact hzero rfl h1 q r (by simpa [renderTail] using h2)
    | cons x tl' =>
      have key : @LT.lt Nat _ q 98 ∨ @LT.lt Nat _ 122 q := by
        obtain ⟨sep, c⟩ := x
        have hc := htl (sep, c) (by simp)
        cases sep with
        | true =>
          simp only [renderTail, if_true, List.cons_append] at h2
          injection h2 with h3 _
          have : @Eq Nat 95 q := h3
          omega
        | false =>
          simp only [renderTail, Bool.false_eq_true, if_false, List.cons_append] at h2
          injection h2 with h3 _
          have h4 : @LE.le Nat _ c 57 := hc.2
          have : @Eq Nat c q := h3
          omega
      refine ⟨fun h => ?_, fun h => ?_, fun h => ?_⟩ <;> (have : @Eq Nat q _ := h; omega)
  rw [readInt_decimal _ hq]
  have hspec := digitsSep_spec digitVal (by decide +kernel) c0 (c0 - 48) (digitVal_ascii c0 h0) tl (fun c => c - 48)
    (fun x hx => digitVal_ascii x.2 (htl x hx)) rest hstop
  rw [← List.cons_append, hspec]
  simp [Nat.add_comm]

theorem readsAs_prefixed (p : CP) (isD : CP → Option Nat) (base : Nat) (hus : isD 95 = none)
    (hread : ∀ r ds n, digitsSep isD r = (ds, n) → n ≠ 0 → readInt (48 :: p :: r) = some (ofDigits base ds, n + 2))
    (d0 : CP) (v0 : Nat) (h0 : isD d0 = some v0) (tl : List (Bool × CP)) (val : CP → Nat)
    (hv : ∀ x ∈ tl, isD x.2 = some (val x.2)) (rest : Line) (hstop : Stops isD rest) :
    ReadsAs (48 :: p :: d0 :: renderTail tl) (.int (ofDigits base (v0 :: tl.map (fun x => val x.2)))) rest := by
  have h48 : asciiDigit 48 := ⟨Nat.le_refl _, by decide⟩
  refine ⟨by simp, fun c r h => (by injection h with h1 _; rw [← h1]; exact digit_not_space 48 h48),
    fun r h => (by simp only [List.cons_append] at h; injection h with h1 _; exact absurd h1 (by decide)), ?_⟩
  unfold readToken
  rw [List.cons_append, readSymbol_digit 48 _ h48]
  simp only [readIdent_digit 48 _ h48]
  have hspec := digitsSep_spec isD hus d0 v0 h0 tl val hv rest hstop
  rw [List.cons_append, List.cons_append, ← List.cons_append, hread _ _ _ hspec (by omega)]
  simp only [List.length_cons]
  congr 1
  omega

/-! ## character literals, in front of anything -/

theorem readsAs_char (c : CP) (h1 : c ≠ 39) (h2 : c ≠ 92) (h3 : c < 128) (rest : Line) : ReadsAs [39, c, 39] (.chr c) rest := by
  refine ⟨by simp, fun c' r h => (by injection h with h1 _; rw [← h1]; decide +kernel),
    fun r h => (by simp only [List.cons_append] at h; injection h with h1 _; exact absurd h1 (by decide)), ?_⟩
  have ht : [39, c, 39] ++ rest = 39 :: c :: 39 :: rest := rfl
  unfold readToken
  rw [ht, readSymbol_quote 39 _ (Or.inr rfl)]
  simp only [readIdent_quote 39 _ (Or.inr rfl), readInt_quote 39 _ (Or.inr rfl)]
  have hstr : readString (39 :: c :: 39 :: rest) = .none := rfl
  have hu : utf8 c = some [c] := by unfold utf8; rw [if_pos h3]
  have hesc : readEscape (c :: 39 :: rest) = .none := by
    unfold readEscape
    split <;> first | rfl | (rename_i h; injection h with h _; exact absurd h h2)
  have hch : readChar (39 :: c :: 39 :: rest) = .ok (.chr c) 3 := by
    unfold readChar
    simp only [hesc, hu]
    split
    · rename_i h; injection h with h _; exact absurd h h1
    · simp
  simp only [hstr, hch]
  rfl

/-! ## escaped character literals and `\u{…}` -/

/-- a character literal written with a complete one-byte escape sequence, in front of anything -/
theorem readsAs_char_esc (e : Line) (b : Nat) (he : IsEsc e [b]) (rest : Line) : ReadsAs (39 :: (e ++ [39])) (.chr b) rest := by
  obtain ⟨⟨r, hr⟩, hesc⟩ := he
  refine ⟨by simp, fun c' r' h => (by injection h with h1 _; rw [← h1]; decide +kernel),
    fun r' h => (by simp only [List.cons_append] at h; injection h with h1 _; exact absurd h1 (by decide)), ?_⟩
  have ht : (39 :: (e ++ [39])) ++ rest = 39 :: (e ++ 39 :: rest) := by simp
  unfold readToken
  rw [ht, readSymbol_quote 39 _ (Or.inr rfl)]
  simp only [readIdent_quote 39 _ (Or.inr rfl), readInt_quote 39 _ (Or.inr rfl)]
  have hstr : readString (39 :: (e ++ 39 :: rest)) = .none := rfl
  have hch : readChar (39 :: (e ++ 39 :: rest)) = .ok (.chr b) (39 :: (e ++ [39])).length := by
    unfold readChar
    subst hr
    have h1 := hesc (39 :: rest)
    simp only [List.cons_append] at h1 ⊢
    simp only [h1]
    have hd : (92 :: (r ++ 39 :: rest)).drop (92 :: r).length = 39 :: rest := by
      have := List.drop_left' (l₁ := 92 :: r) (l₂ := 39 :: rest) rfl
      simpa using this
    simp only [List.length_cons] at hd
    simp only [List.length_cons, List.length_append, List.length_nil, hd]
  simp only [hstr, hch]

theorem takeWhile_hex (hs rest : Line) (hh : ∀ c ∈ hs, (hexVal c).isSome = true) :
    (hs ++ 125 :: rest).takeWhile (fun c => (hexVal c).isSome) = hs := by
  induction hs with
  | nil =>
    have : (hexVal 125).isSome = false := by decide +kernel
    simp [this]
  | cons a hs ih =>
    simp only [List.cons_append, List.takeWhile_cons, hh a List.mem_cons_self, if_true]
    rw [ih (fun c hc => hh c (List.mem_cons_of_mem _ hc))]

/-- `\u{h…}`: at least one hex digit, a scalar value, encoded as UTF-8 -/
theorem isEsc_unicode (hs : Line) (bs : List Nat) (hne : hs ≠ []) (hh : ∀ c ∈ hs, (hexVal c).isSome = true)
    (hcp : ofDigits 16 (hs.filterMap hexVal) ≤ 0x10FFFF) (hu : utf8 (ofDigits 16 (hs.filterMap hexVal)) = some bs) :
    IsEsc (92 :: 117 :: 123 :: (hs ++ [125])) bs := by
  refine ⟨⟨_, rfl⟩, fun rest => ?_⟩
  have ht : (92 :: 117 :: 123 :: (hs ++ [125])) ++ rest = 92 :: 117 :: 123 :: (hs ++ 125 :: rest) := by simp
  rw [ht]
  unfold readEscape
  simp only [takeWhile_hex hs rest hh, List.drop_left' rfl]
  have hemp : hs.isEmpty = false := by cases hs with | nil => exact absurd rfl hne | cons _ _ => rfl
  have hle : ¬ ofDigits 16 (hs.filterMap hexVal) > 0x10FFFF := by omega
  simp only [hemp, Bool.false_eq_true, if_false, hle, hu]
  simp only [List.length_cons, List.length_append, List.length_nil]
  congr 1
  omega

/-! ## decimal literals over every digit the lexer accepts (`\d`: Unicode `Nd`) -/

theorem symbols_head_not_udigit : ∀ s ∈ symbolTokens, ∀ c ∈ (cps s).head?, digitVal c = none := by decide +kernel

theorem digit_ranges_not_letters : ∀ r ∈ digitRanges, r.2.1 < 64 ∨ 122 < r.1 := by decide +kernel

theorem udigit_range (c v : Nat) (h : digitVal c = some v) : @LT.lt Nat _ c 64 ∨ @LT.lt Nat _ 122 c := by
  unfold digitVal at h
  cases hf : digitRanges.find? (fun (lo, hi, _) => lo ≤ c && c ≤ hi) with
  | none => rw [hf] at h; cases h
  | some r =>
    have hm := List.mem_of_find?_eq_some hf
    have hp := List.find?_some hf
    obtain ⟨lo, hi, x⟩ := r
    simp only [Bool.and_eq_true, decide_eq_true_eq] at hp
    have := digit_ranges_not_letters (lo, hi, x) hm
    have h1 : @LE.le Nat _ lo c := hp.1
    have h2 : @LE.le Nat _ c hi := hp.2
    have h3 : @LT.lt Nat _ hi 64 ∨ @LT.lt Nat _ 122 lo := this
    omega

theorem readSymbol_udigit (c v : Nat) (l : Line) (hc : digitVal c = some v) : readSymbol (c :: l) = none := by
  unfold readSymbol
  have : symbolTokens.find? (fun s => isPrefix (cps s) (c :: l)) = none := by
    rw [List.find?_eq_none]
    intro s hs hp
    unfold isPrefix at hp
    have heq := eq_of_beq hp
    cases hcs : cps s with
    | nil => exact absurd hcs (symbols_shape s hs).1
    | cons d r =>
      have hd := symbols_head_not_udigit s hs d (by rw [hcs]; rfl)
      rw [hcs] at heq
      simp only [List.length_cons, List.take_succ_cons] at heq
      injection heq with h1 _
      rw [← h1, hc] at hd; cases hd
  rw [this]; rfl

theorem readIdent_udigit (c v : Nat) (l : Line) (hc : digitVal c = some v) : readIdent (c :: l) = .none := by
  have hr := udigit_range c v hc
  have h64 : c ≠ 64 := fun h => by have : @Eq Nat c 64 := h; omega
  have h33 : c ≠ 33 := fun h => by
    have hn : digitVal 33 = none := by decide +kernel
    rw [h, hn] at hc; cases hc
  have hid : isIdStart c = false := by
    unfold isIdStart
    simp only [Bool.or_eq_false_iff, Bool.and_eq_false_iff, decide_eq_false_iff_not, beq_eq_false_iff_ne]
    refine ⟨⟨?_, ?_⟩, fun h => ?_⟩
    · by_cases h97 : @LE.le Nat _ 97 c
      · exact Or.inr (fun h => by have : @LE.le Nat _ c 122 := h; omega)
      · exact Or.inl h97
    · by_cases h65 : @LE.le Nat _ 65 c
      · exact Or.inr (fun h => by have : @LE.le Nat _ c 90 := h; omega)
      · exact Or.inl h65
    · have : @Eq Nat c 95 := h; omega
  unfold readIdent
  split
  · rename_i r' h; injection h with h1 _; exact absurd h1 h64
  · rename_i r' h; injection h with h1 _; exact absurd h1 h33
  · simp only [matchIdent, hid]; rfl

theorem udigit_not_space (c v : Nat) (hc : digitVal c = some v) : isSpace c = false := by
  cases hs : isSpace c with
  | false => rfl
  | true => have := digitVal_space c hs; rw [hc] at this; cases this

/-- a decimal literal written with any digits of class `\d` (optionally separated by single underscores), in front of anything
that does not continue it -/
theorem readsAs_decimal_unicode (c0 v0 : Nat) (h0 : digitVal c0 = some v0) (tl : List (Bool × CP)) (val : CP → Nat)
    (hv : ∀ x ∈ tl, digitVal x.2 = some (val x.2)) (rest : Line) (hstop : Stops digitVal rest)
    (hzero : tl = [] → c0 = 48 → ∀ q r, rest = q :: r → q ≠ 120 ∧ q ≠ 111 ∧ q ≠ 98) :
    ReadsAs (c0 :: renderTail tl) (.int (ofDigits 10 (v0 :: tl.map (fun x => val x.2)))) rest := by
  refine ⟨by simp, fun c r h => (by injection h with h1 _; rw [← h1]; exact udigit_not_space c0 v0 h0),
    fun r h => (by
      simp only [List.cons_append] at h
      injection h with h1 _
      have hn : digitVal 47 = none := by decide +kernel
      rw [h1, hn] at h0; cases h0), ?_⟩
  unfold readToken
  rw [List.cons_append, readSymbol_udigit c0 v0 _ h0]
  simp only [readIdent_udigit c0 v0 _ h0]
  have hq : ∀ q r, c0 :: (renderTail tl ++ rest) = 48 :: q :: r → q ≠ 120 ∧ q ≠ 111 ∧ q ≠ 98 := by
    intro q r h
    injection h with h1 h2
    cases tl with
    | nil => exact hzero rfl h1 q r (by simpa [renderTail] using h2)
    | cons x tl' =>
      have key : @LT.lt Nat _ q 98 ∨ @LT.lt Nat _ 122 q := by
        obtain ⟨sep, c⟩ := x
        have hc := hv (sep, c) (by simp)
        cases sep with
        | true =>
          simp only [renderTail, if_true, List.cons_append] at h2
          injection h2 with h3 _
          have : @Eq Nat 95 q := h3
          omega
        | false =>
          simp only [renderTail, Bool.false_eq_true, if_false, List.cons_append] at h2
          injection h2 with h3 _
          have := udigit_range c _ hc
          have h4 : @Eq Nat c q := h3
          omega
      refine ⟨fun h => ?_, fun h => ?_, fun h => ?_⟩ <;> (have : @Eq Nat q _ := h; omega)
  rw [readInt_decimal _ hq]
  have hspec := digitsSep_spec digitVal (by decide +kernel) c0 v0 h0 tl val hv rest hstop
  rw [← List.cons_append, hspec]
  simp [Nat.add_comm]

end HidVerif.Hid.Lex
