import HidVerif.Proofs.LexNumber
/-!
# C12 (v, vi) continued: plain string and character literals are layout pieces

A string literal without escapes (`"…"`, any code points except `"` and `\`, white space and `//`
included) is exactly one `str` token holding the UTF-8 bytes of its characters; a character literal
`'c'` of one ASCII character other than `'` and `\` is exactly one `chr` token.
-/
namespace HidVerif.Hid.Lex
open HidVerif.Gen

theorem symbols_head_not_quote : ∀ s ∈ symbolTokens, ∀ c ∈ (cps s).head?, c ≠ 34 ∧ c ≠ 39 := by decide

theorem readSymbol_quote (c : CP) (l : Line) (hc : c = 34 ∨ c = 39) : readSymbol (c :: l) = none := by
  unfold readSymbol
  have : symbolTokens.find? (fun s => isPrefix (cps s) (c :: l)) = none := by
    rw [List.find?_eq_none]
    intro s hs hp
    unfold isPrefix at hp
    have heq := eq_of_beq hp
    cases hcs : cps s with
    | nil => exact absurd hcs (symbols_shape s hs).1
    | cons d r =>
      have hd := symbols_head_not_quote s hs d (by rw [hcs]; rfl)
      rw [hcs] at heq
      simp only [List.length_cons, List.take_succ_cons] at heq
      injection heq with h1 _
      rcases hc with rfl | rfl
      · exact hd.1 h1.symm
      · exact hd.2 h1.symm
  rw [this]; rfl

theorem readIdent_quote (c : CP) (l : Line) (hc : c = 34 ∨ c = 39) : readIdent (c :: l) = .none := by
  rcases hc with rfl | rfl <;> rfl

theorem readInt_quote (c : CP) (l : Line) (hc : c = 34 ∨ c = 39) : readInt (c :: l) = none := by
  rcases hc with rfl | rfl
  · have : digitsSep digitVal (34 :: l) = ([], 0) := by
      have hd : digitVal 34 = none := by decide +kernel
      simp only [digitsSep, hd]
    rw [readInt_decimal _ (fun q r h => by injection h with h1 _; cases h1), this]; rfl
  · have : digitsSep digitVal (39 :: l) = ([], 0) := by
      have hd : digitVal 39 = none := by decide +kernel
      simp only [digitsSep, hd]
    rw [readInt_decimal _ (fun q r h => by injection h with h1 _; cases h1), this]; rfl

theorem takeWhile_plain (body rest : Line) (hb : ∀ c ∈ body, c ≠ 92 ∧ c ≠ 34) :
    (body ++ 34 :: rest).takeWhile (fun c => c != 92 && c != 34) = body := by
  induction body with
  | nil => simp
  | cons a body ih =>
    have ha := hb a List.mem_cons_self
    have hp : (a != 92 && a != 34) = true := by simp [ha.1, ha.2]
    simp only [List.cons_append, List.takeWhile_cons, hp, if_true]
    rw [ih (fun c hc => hb c (List.mem_cons_of_mem _ hc))]

/-- **plain string literals are pieces** -/
theorem selfDelim_string (body : Line) (enc : List (List Nat)) (hb : ∀ c ∈ body, c ≠ 92 ∧ c ≠ 34)
    (henc : body.mapM utf8 = some enc) :
    SelfDelim (34 :: (body ++ [34])) (.str enc.flatten) := by
  refine ⟨by simp, fun c r h => (by injection h with h1 _; rw [← h1]; decide +kernel),
    fun r h => (by injection h with h1 _; exact absurd h1 (by decide)), fun rest _ => ?_⟩
  have ht : (34 :: (body ++ [34])) ++ rest = 34 :: (body ++ 34 :: rest) := by simp
  unfold readToken
  rw [ht, readSymbol_quote 34 _ (Or.inl rfl)]
  simp only [readIdent_quote 34 _ (Or.inl rfl), readInt_quote 34 _ (Or.inl rfl)]
  have hs : readString (34 :: (body ++ 34 :: rest)) = .ok (.str enc.flatten) (34 :: (body ++ [34])).length := by
    simp only [readString, List.length_append, List.length_cons]
    unfold readString.loop
    simp only [takeWhile_plain body rest hb, henc, List.nil_append, List.drop_left', readEscape]
    simp [Nat.add_comm]
  simp only [hs]

/-- **plain character literals are pieces**: one ASCII character other than `'` and `\` between quotes -/
theorem selfDelim_char (c : CP) (h1 : c ≠ 39) (h2 : c ≠ 92) (h3 : c < 128) :
    SelfDelim [39, c, 39] (.chr c) := by
  refine ⟨by simp, fun c' r h => (by injection h with h1 _; rw [← h1]; decide +kernel),
    fun r h => (by injection h with h1 _; exact absurd h1 (by decide)), fun rest _ => ?_⟩
  have ht : [39, c, 39] ++ rest = 39 :: c :: 39 :: rest := rfl
  unfold readToken
  rw [ht, readSymbol_quote 39 _ (Or.inr rfl)]
  simp only [readIdent_quote 39 _ (Or.inr rfl), readInt_quote 39 _ (Or.inr rfl)]
  have hstr : readString (39 :: c :: 39 :: rest) = .none := rfl
  have hu : utf8 c = some [c] := by unfold utf8; rw [if_pos h3]
  have hesc : readEscape (c :: 39 :: rest) = .none := by
    unfold readEscape
    split <;> first | rfl | (rename_i h; injection h with h _; exact absurd h h2)
  have hch : readChar (39 :: c :: 39 :: rest) = .ok (.chr c) 3 := by
    unfold readChar
    simp only [hesc, hu]
    split
    · rename_i h; injection h with h _; exact absurd h h1
    · simp
  simp only [hstr, hch]
  rfl

/-! ## keywords and flavoured names -/

/-- a keyword of the table, as a word on its own -/
theorem selfDelim_keyword (c : CP) (r : Line) (k : String) (hc : isIdStart c = true) (hr : ∀ d ∈ r, isWord d = true)
    (hk : keywordOf (c :: r) = some k) : SelfDelim (c :: r) (.enum k) := by
  have h64 : c ≠ 64 := fun h => by rw [h] at hc; exact absurd hc (by decide)
  have h33 : c ≠ 33 := fun h => by rw [h] at hc; exact absurd hc (by decide)
  refine ⟨by simp, fun c' r' h => (by injection h with h1 _; rw [← h1]; exact idstart_not_space c hc),
    fun r' h => (by
      injection h with h1 _
      rw [h1] at hc; exact absurd hc (by decide)), fun rest hrest => ?_⟩
  have htw := takeWhile_word_append r rest hr hrest
  unfold readToken
  rw [List.cons_append, readSymbol_idstart c _ hc]
  have hri : readIdent (c :: (r ++ rest)) = .ok (.enum k) (c :: r).length := by
    unfold readIdent
    split
    · rename_i r' h; injection h with h1 _; exact absurd h1 h64
    · rename_i r' h; injection h with h1 _; exact absurd h1 h33
    · simp only [matchIdent, hc, if_true, htw, hk]
  simp only [hri]

theorem symbols_head_not_flavour (l : Line) (c : CP) (hc : isIdStart c = true) (p : CP) (hp : p = 64 ∨ p = 33) :
    readSymbol (p :: c :: l) = none := by
  unfold readSymbol
  have : symbolTokens.find? (fun s => isPrefix (cps s) (p :: c :: l)) = none := by
    rw [List.find?_eq_none]
    intro s hs hpre
    unfold isPrefix at hpre
    have heq := eq_of_beq hpre
    have hc61 : c ≠ 61 := fun h => by rw [h] at hc; exact absurd hc (by decide)
    have key : ∀ s ∈ symbolTokens, ∀ d ∈ (cps s).head?, d ≠ 64 ∧ (d = 33 → cps s = [33, 61]) := by decide
    cases hcs : cps s with
    | nil => exact absurd hcs (symbols_shape s hs).1
    | cons d r =>
      have hd := key s hs d (by rw [hcs]; rfl)
      rw [hcs] at heq hd
      simp only [List.length_cons, List.take_succ_cons] at heq
      injection heq with h1 h2
      rcases hp with rfl | rfl
      · exact hd.1 h1.symm
      · have := hd.2 h1.symm
        injection this with _ h3
        rw [h3] at h2
        simp only [List.length_cons, List.length_nil, List.take_succ_cons, List.take_zero] at h2
        injection h2 with h4 _
        exact hc61 h4
  rw [this]; rfl

/-- `@name` and `!name`: a flavoured identifier that is not a keyword -/
theorem selfDelim_flavoured (p : CP) (fl : Flavor) (hp : (p = 64 ∧ fl = .you) ∨ (p = 33 ∧ fl = .defeat))
    (c : CP) (r : Line) (hc : isIdStart c = true) (hr : ∀ d ∈ r, isWord d = true)
    (hk : keywordOf (c :: r) = none) : SelfDelim (p :: c :: r) (.ident (c :: r) fl) := by
  have hp' : p = 64 ∨ p = 33 := by rcases hp with ⟨h, _⟩ | ⟨h, _⟩ <;> simp [h]
  refine ⟨by simp, fun c' r' h => (by injection h with h1 _; rw [← h1]; rcases hp' with rfl | rfl <;> decide +kernel),
    fun r' h => (by injection h with h1 _; rcases hp' with rfl | rfl <;> cases h1), fun rest hrest => ?_⟩
  have htw := takeWhile_word_append r rest hr hrest
  unfold readToken
  rw [List.cons_append, List.cons_append, symbols_head_not_flavour _ c hc p hp']
  have hri : readIdent (p :: c :: (r ++ rest)) = .ok (.ident (c :: r) fl) (p :: c :: r).length := by
    rcases hp with ⟨rfl, rfl⟩ | ⟨rfl, rfl⟩
    · simp [readIdent, matchIdent, hc, htw, hk, Nat.add_comm]
    · simp [readIdent, matchIdent, hc, htw, hk, Nat.add_comm]
  simp only [hri]

end HidVerif.Hid.Lex
