import HidVerif.Hid.Lexer
/-!
# Lexing is independent of layout, and spans are exact (C12 v, vi) — for the lexer model

A *piece* is the text of one token together with the token it denotes, `SelfDelim`: read at the
start of any rest of line that begins with white space (or is empty), `readToken` returns
exactly that token and consumes exactly that text.  A line is laid out as
`sep₁ t₁ sep₂ t₂ … sepₙ tₙ trail` with white-space separators (non-empty between tokens) and a
trailing part that is white space optionally followed by a `//` comment.  `lex_line`: whatever the
separators and the trailing part, `lex` returns exactly the tokens of the pieces, in order, each
with the span that covers exactly its text.
-/
namespace HidVerif.Hid.Lex
open HidVerif.Gen

/-- the text `t` denotes `tok` wherever white space (or the end of the line) follows it -/
structure SelfDelim (t : Line) (tok : Tok) : Prop where
  nonempty : t ≠ []
  noSpace : ∀ c r, t = c :: r → isSpace c = false
  noComment : ∀ r, t ≠ 47 :: 47 :: r
  read : ∀ rest, (rest = [] ∨ ∃ c r, rest = c :: r ∧ isSpace c = true) → readToken (t ++ rest) = .ok tok t.length

/-- the text `t` denotes `tok` in front of this particular rest of the line (which need not begin with white space):
the reader returns the token and consumes exactly the text, and text and rest together do not begin a comment -/
structure ReadsAs (t : Line) (tok : Tok) (rest : Line) : Prop where
  nonempty : t ≠ []
  noSpace : ∀ c r, t = c :: r → isSpace c = false
  noComment : ∀ r, t ++ rest ≠ 47 :: 47 :: r
  read : readToken (t ++ rest) = .ok tok t.length

def allSpace (s : Line) : Prop := ∀ c ∈ s, isSpace c = true

instance (s : Line) : Decidable (allSpace s) := by unfold allSpace; infer_instance

/-- white space, optionally followed by a comment to the end of the line -/
def Trail (s : Line) : Prop := allSpace s ∨ ∃ sp r, s = sp ++ 47 :: 47 :: r ∧ allSpace sp

theorem takeWhile_space_append (sp rest : Line) (hs : allSpace sp) (hr : rest = [] ∨ ∃ c r, rest = c :: r ∧ isSpace c = false) :
    (sp ++ rest).takeWhile isSpace = sp := by
  induction sp with
  | nil =>
    rcases hr with rfl | ⟨c, r, rfl, hc⟩
    · rfl
    · simp [List.takeWhile, hc]
  | cons a sp ih =>
    have ha : isSpace a = true := hs a (List.mem_cons_self)
    simp only [List.cons_append, List.takeWhile, ha]
    rw [ih (fun c hc => hs c (List.mem_cons_of_mem _ hc))]

/-- separators are skipped exactly -/
theorem matchIgnore_sep (sp t rest : Line) (tok : Tok) (hs : allSpace sp) (ht : ReadsAs t tok rest) :
    matchIgnore (sp ++ (t ++ rest)) = sp.length := by
  obtain ⟨c, r, rfl⟩ : ∃ c r, t = c :: r := by
    cases t with
    | nil => exact absurd rfl ht.nonempty
    | cons c r => exact ⟨c, r, rfl⟩
  unfold matchIgnore
  have htw : (sp ++ (c :: r ++ rest)).takeWhile isSpace = sp :=
    takeWhile_space_append sp _ hs (Or.inr ⟨c, r ++ rest, rfl, ht.noSpace c r rfl⟩)
  simp only [htw, List.drop_left]
  split
  · rename_i x h1
    exact absurd h1 (ht.noComment x)
  · rfl

/-- the trailing part of a line is skipped entirely -/
theorem matchIgnore_trail (s : Line) (h : Trail s) : matchIgnore s = s.length := by
  unfold matchIgnore
  rcases h with h | ⟨sp, r, rfl, hsp⟩
  · have : s.takeWhile isSpace = s := by simpa using takeWhile_space_append s [] h (Or.inl rfl)
    simp only [this, List.drop_length]
  · have htw : (sp ++ 47 :: 47 :: r).takeWhile isSpace = sp :=
      takeWhile_space_append sp _ hsp (Or.inr ⟨47, 47 :: r, rfl, by decide⟩)
    simp only [htw, List.drop_left]


/-! ## laid-out lines -/

/-- a token text with the separator in front of it and the token it denotes -/
abbrev Piece := Line × Line × Tok

def StartsSpace (rest : Line) : Prop := rest = [] ∨ ∃ c r, rest = c :: r ∧ isSpace c = true

/-- a self-delimiting text in front of white space (or the end of the line) -/
theorem SelfDelim.readsAs {t : Line} {tok : Tok} (h : SelfDelim t tok) {rest : Line} (hr : StartsSpace rest) : ReadsAs t tok rest := by
  refine ⟨h.nonempty, h.noSpace, fun r heq => ?_, h.read rest hr⟩
  cases t with
  | nil => exact h.nonempty rfl
  | cons c t' =>
    cases t' with
    | nil =>
      rcases hr with rfl | ⟨d, rest', rfl, hd⟩
      · cases heq
      · simp only [List.cons_append, List.nil_append] at heq
        injection heq with _ h3; injection h3 with h4 _
        subst h4
        exact absurd hd (by decide)
    | cons d t'' =>
      simp only [List.cons_append] at heq
      injection heq with h2 h3; injection h3 with h4 _
      subst h2; subst h4
      exact h.noComment t'' rfl

/-- one line: separated pieces, then the trailing part -/
def renderLine : List Piece → Line → Line
  | [], trail => trail
  | (sep, t, _) :: ps, trail => sep ++ (t ++ renderLine ps trail)

/-- well-formed line: separators are white space (possibly empty); every text reads as its token in front of the
rest of the line -/
def WFLine : List Piece → Line → Prop
  | [], trail => Trail trail
  | (sep, t, tok) :: ps, trail =>
    allSpace sep ∧ ReadsAs t tok (renderLine ps trail) ∧ WFLine ps trail

/-- the lexemes of the pieces of a line, the first separator starting at column `col` -/
def lexemesAt (line : Nat) : Nat → List Piece → List Lexeme
  | _, [] => []
  | col, (sep, t, tok) :: ps =>
    ⟨tok, ⟨line, col + sep.length⟩, ⟨line, col + sep.length + t.length⟩⟩ :: lexemesAt line (col + sep.length + t.length) ps

def lexemesFrom : Nat → List (List Piece × Line) → List Lexeme
  | _, [] => []
  | i, (ps, _) :: rest => lexemesAt i 0 ps ++ lexemesFrom (i + 1) rest

def render (l : List Piece × Line) : Line := renderLine l.1 l.2

/-- the cursor `lex` reports at the end: the end of the last token -/
def lastOf (init : Cursor) (ls : List Lexeme) : Cursor := (ls.getLast?.map (·.stop)).getD init

theorem renderLine_length_pos (p : Piece) (ps : List Piece) (trail : Line) (h : WFLine (p :: ps) trail) :
    p.1.length < (renderLine (p :: ps) trail).length := by
  obtain ⟨sep, t, tok⟩ := p
  obtain ⟨_, hd, _⟩ := h
  have : 0 < t.length := List.length_pos_iff.2 hd.nonempty
  simp only [renderLine, List.length_append]
  omega

/-! ## `skipWs` -/

/-- enough fuel is enough -/
theorem skipWs_fuel (src : List Line) : ∀ (k line col f f' : Nat), src.length - line ≤ k → k < f → k < f' →
    skipWs src f line col = skipWs src f' line col := by
  intro k
  induction k with
  | zero =>
    intro line col f f' hk hf hf'
    obtain ⟨g, rfl⟩ : ∃ g, f = g + 1 := ⟨f - 1, by omega⟩
    obtain ⟨g', rfl⟩ : ∃ g', f' = g' + 1 := ⟨f' - 1, by omega⟩
    simp only [skipWs]
    have : ¬ (line + 1 < src.length) := by omega
    simp only [this, if_false]
  | succ k ih =>
    intro line col f f' hk hf hf'
    obtain ⟨g, rfl⟩ : ∃ g, f = g + 1 := ⟨f - 1, by omega⟩
    obtain ⟨g', rfl⟩ : ∃ g', f' = g' + 1 := ⟨f' - 1, by omega⟩
    simp only [skipWs]
    split
    · split
      · exact ih (line + 1) 0 g g' (by omega) (by omega) (by omega)
      · rfl
    · rfl


theorem lastOf_cons (init : Cursor) (x : Lexeme) (xs : List Lexeme) : lastOf init (x :: xs) = lastOf x.stop xs := by
  unfold lastOf
  cases xs with
  | nil => rfl
  | cons y ys =>
    rw [List.getLast?_cons_cons]
    cases h : (y :: ys).getLast? with
    | none => simp at h
    | some z => rfl

theorem lineAt_mid (pre rem : List (List Piece × Line)) (cur : List Piece × Line) :
    lineAt ((pre ++ cur :: rem).map render) pre.length = render cur := by
  unfold lineAt
  simp [List.getD, List.getElem?_append_right]

def countPieces : List (List Piece × Line) → Nat
  | [] => 0
  | (ps, _) :: rest => ps.length + countPieces rest

/-- one step of `skipWs` inside a line that still has a piece -/
theorem skipWs_piece (src : List Line) (i col f : Nat) (sep t rest : Line) (tok : Tok)
    (hl : (lineAt src i).drop col = sep ++ (t ++ rest)) (hcol : col ≤ (lineAt src i).length)
    (hs : allSpace sep) (ht : ReadsAs t tok rest) :
    skipWs src (f + 1) i col = some (i, col + sep.length) := by
  simp only [skipWs]
  rw [hl, matchIgnore_sep sep t rest tok hs ht]
  have hlen : (lineAt src i).length - col = (sep ++ (t ++ rest)).length := by rw [← hl]; simp
  have htpos : 0 < t.length := List.length_pos_iff.2 ht.nonempty
  simp only [List.length_append] at hlen
  rw [if_neg (by omega)]

/-- one step of `skipWs` at the trailing part of a line -/
theorem skipWs_trail (src : List Line) (i col f : Nat) (trail : Line)
    (hl : (lineAt src i).drop col = trail) (hcol : col ≤ (lineAt src i).length) (ht : Trail trail) :
    skipWs src (f + 1) i col = if i + 1 < src.length then skipWs src f (i + 1) 0 else none := by
  simp only [skipWs]
  rw [hl, matchIgnore_trail trail ht]
  have hlen : (lineAt src i).length - col = trail.length := by rw [← hl]; simp
  rw [if_pos (by omega)]


/-! ## the main loop -/

theorem go_lines (lines : List (List Piece × Line)) (hwf : ∀ l ∈ lines, WFLine l.1 l.2) :
    ∀ (rem pre : List (List Piece × Line)) (psAll : List Piece) (trail : Line) (ps : List Piece) (col : Nat)
      (last : Cursor) (acc : List Lexeme) (fuel : Nat),
      lines = pre ++ (psAll, trail) :: rem →
      (render (psAll, trail)).drop col = renderLine ps trail → col ≤ (render (psAll, trail)).length →
      WFLine ps trail → ps.length + countPieces rem < fuel →
      lex.go (lines.map render) fuel pre.length col last acc =
        (acc.reverse ++ (lexemesAt pre.length col ps ++ lexemesFrom (pre.length + 1) rem),
         .eof (lastOf last (lexemesAt pre.length col ps ++ lexemesFrom (pre.length + 1) rem))) := by
  intro rem
  induction rem with
  | nil =>
    intro pre psAll trail ps
    induction ps with
    | nil =>
      intro col last acc fuel hlines hdrop hcol hw hfuel
      obtain ⟨f, rfl⟩ : ∃ f, fuel = f + 1 := ⟨fuel - 1, by omega⟩
      have hline := lineAt_mid pre [] (psAll, trail)
      rw [← hlines] at hline
      rw [lex.go, skipWs_trail _ _ _ _ trail (by rw [hline]; exact hdrop) (by rw [hline]; exact hcol) hw]
      have hn : (lines.map render).length = pre.length + 1 := by rw [hlines]; simp
      rw [if_neg (by omega)]
      simp [lexemesAt, lexemesFrom, lastOf]
    | cons p ps' ih =>
      intro col last acc fuel hlines hdrop hcol hw hfuel
      obtain ⟨sep, t, tok⟩ := p
      obtain ⟨hs, hd, hw'⟩ := hw
      obtain ⟨f, rfl⟩ : ∃ f, fuel = f + 1 := ⟨fuel - 1, by omega⟩
      have hline := lineAt_mid pre [] (psAll, trail)
      rw [← hlines] at hline
      simp only [renderLine] at hdrop
      rw [lex.go, skipWs_piece _ _ _ _ sep t _ tok (by rw [hline]; exact hdrop) (by rw [hline]; exact hcol) hs hd]
      have hdrop2 : (lineAt (lines.map render) pre.length).drop (col + sep.length) = t ++ renderLine ps' trail := by
        rw [hline, ← List.drop_drop, hdrop, List.drop_left]
      simp only [hdrop2, hd.read]
      have hlen : (render (psAll, trail)).length - col = (sep ++ (t ++ renderLine ps' trail)).length := by rw [← hdrop]; simp
      simp only [List.length_append] at hlen
      rw [ih (col + sep.length + t.length) _ _ f hlines
        (by rw [show col + sep.length + t.length = col + (sep.length + t.length) by omega, ← List.drop_drop, hdrop,
              ← List.append_assoc, show sep.length + t.length = (sep ++ t).length by simp, List.drop_left])
        (by omega) hw' (by simp only [List.length_cons] at hfuel; omega)]
      simp [lexemesAt, lastOf_cons, Nat.add_assoc]
  | cons next rem' ihrem =>
    intro pre psAll trail ps
    induction ps with
    | nil =>
      intro col last acc fuel hlines hdrop hcol hw hfuel
      obtain ⟨f, rfl⟩ : ∃ f, fuel = f + 1 := ⟨fuel - 1, by omega⟩
      have hline := lineAt_mid pre (next :: rem') (psAll, trail)
      rw [← hlines] at hline
      have hn : (lines.map render).length = pre.length + 1 + (rem'.length + 1) := by rw [hlines]; simp; omega
      -- the next token, if any, is on a later line: the loop behaves as if started there
      have hskip : skipWs (lines.map render) ((lines.map render).length + 1) pre.length col =
          skipWs (lines.map render) ((lines.map render).length + 1) (pre.length + 1) 0 := by
        rw [skipWs_trail _ _ _ _ trail (by rw [hline]; exact hdrop) (by rw [hline]; exact hcol) hw, if_pos (by omega)]
        exact skipWs_fuel _ ((lines.map render).length - (pre.length + 1)) _ _ _ _ (Nat.le_refl _) (by omega) (by omega)
      have hgo : lex.go (lines.map render) (f + 1) pre.length col last acc =
          lex.go (lines.map render) (f + 1) (pre.length + 1) 0 last acc := by
        rw [lex.go, lex.go, hskip]
      rw [hgo]
      obtain ⟨nps, ntrail⟩ := next
      have := ihrem (pre ++ [(psAll, trail)]) nps ntrail nps 0 last acc (f + 1)
        (by rw [hlines]; simp) rfl (Nat.zero_le _)
        (hwf (nps, ntrail) (by rw [hlines]; simp))
        (by simp only [countPieces, List.length_nil] at hfuel; omega)
      simp only [List.length_append, List.length_cons, List.length_nil, Nat.zero_add] at this
      rw [this]
      simp [lexemesAt, lexemesFrom]
    | cons p ps' ih =>
      intro col last acc fuel hlines hdrop hcol hw hfuel
      obtain ⟨sep, t, tok⟩ := p
      obtain ⟨hs, hd, hw'⟩ := hw
      obtain ⟨f, rfl⟩ : ∃ f, fuel = f + 1 := ⟨fuel - 1, by omega⟩
      have hline := lineAt_mid pre (next :: rem') (psAll, trail)
      rw [← hlines] at hline
      simp only [renderLine] at hdrop
      rw [lex.go, skipWs_piece _ _ _ _ sep t _ tok (by rw [hline]; exact hdrop) (by rw [hline]; exact hcol) hs hd]
      have hdrop2 : (lineAt (lines.map render) pre.length).drop (col + sep.length) = t ++ renderLine ps' trail := by
        rw [hline, ← List.drop_drop, hdrop, List.drop_left]
      simp only [hdrop2, hd.read]
      have hlen : (render (psAll, trail)).length - col = (sep ++ (t ++ renderLine ps' trail)).length := by rw [← hdrop]; simp
      simp only [List.length_append] at hlen
      rw [ih (col + sep.length + t.length) _ _ f hlines
        (by rw [show col + sep.length + t.length = col + (sep.length + t.length) by omega, ← List.drop_drop, hdrop,
              ← List.append_assoc, show sep.length + t.length = (sep ++ t).length by simp, List.drop_left])
        (by omega) hw' (by simp only [List.length_cons] at hfuel; omega)]
      simp [lexemesAt, lastOf_cons, Nat.add_assoc]


/-! ## the theorems -/

theorem pieces_le_len : ∀ (ps : List Piece) (trail : Line), WFLine ps trail → ps.length ≤ (renderLine ps trail).length := by
  intro ps
  induction ps with
  | nil => intro trail _; exact Nat.zero_le _
  | cons p ps ih =>
    intro trail hw
    obtain ⟨sep, t, tok⟩ := p
    obtain ⟨_, hd, hw'⟩ := hw
    have := ih trail hw'
    have : 0 < t.length := List.length_pos_iff.2 hd.nonempty
    simp only [renderLine, List.length_append, List.length_cons]
    omega

theorem foldl_total (src : List Line) : ∀ init, src.foldl (fun a l => a + l.length + 1) init = init + (src.map (fun l => l.length + 1)).sum := by
  induction src with
  | nil => intro init; simp
  | cons l src ih => intro init; simp only [List.foldl_cons, ih, List.map_cons, List.sum_cons]; omega

theorem count_lt_total (lines : List (List Piece × Line)) (hwf : ∀ l ∈ lines, WFLine l.1 l.2) :
    countPieces lines < (lines.map render).foldl (fun a l => a + l.length + 1) 1 := by
  rw [foldl_total]
  suffices countPieces lines ≤ ((lines.map render).map (fun l => l.length + 1)).sum by omega
  induction lines with
  | nil => simp [countPieces]
  | cons l ls ih =>
    obtain ⟨ps, trail⟩ := l
    have h1 := pieces_le_len ps trail (hwf (ps, trail) (List.mem_cons_self))
    have h2 := ih (fun l hl => hwf l (List.mem_cons_of_mem _ hl))
    simp only [countPieces, List.map_cons, List.sum_cons, render]
    omega

/-- **C12 (v), (vi) for the lexer model**: for every source whose lines are laid out as
white-space-separated self-delimiting token texts with optional trailing comments, `lex` returns
exactly the tokens of the pieces in order, each with the span of exactly its text, and ends
normally at the end of the last token — whatever the separators, comments and line breaks are -/
theorem lex_layout (lines : List (List Piece × Line)) (hwf : ∀ l ∈ lines, WFLine l.1 l.2) :
    lex (lines.map render) = (lexemesFrom 0 lines, .eof (lastOf ⟨0, 0⟩ (lexemesFrom 0 lines))) := by
  cases lines with
  | nil => rfl
  | cons first rest =>
    obtain ⟨ps, trail⟩ := first
    have := go_lines ((ps, trail) :: rest) hwf rest [] ps trail ps 0 ⟨0, 0⟩ []
      (((ps, trail) :: rest).map render |>.foldl (fun a l => a + l.length + 1) 1) rfl rfl (Nat.zero_le _)
      (hwf (ps, trail) (List.mem_cons_self)) (by have := count_lt_total _ hwf; simpa [countPieces] using this)
    simp only [List.length_nil, List.reverse_nil, List.nil_append, Nat.zero_add] at this
    unfold lex
    rw [this]
    rfl

/-- the tokens, without positions -/
def tokensOf (lines : List (List Piece × Line)) : List Tok := lines.flatMap (fun l => l.1.map (fun p => p.2.2))

theorem lexemesAt_toks (i : Nat) : ∀ (ps : List Piece) (col : Nat), (lexemesAt i col ps).map (·.tok) = ps.map (fun p => p.2.2) := by
  intro ps
  induction ps with
  | nil => intro col; rfl
  | cons p ps ih => intro col; obtain ⟨sep, t, tok⟩ := p; simp [lexemesAt, ih]

theorem lexemesFrom_toks : ∀ (lines : List (List Piece × Line)) (i : Nat), (lexemesFrom i lines).map (·.tok) = tokensOf lines := by
  intro lines
  induction lines with
  | nil => intro i; rfl
  | cons l ls ih => intro i; obtain ⟨ps, trail⟩ := l; simp [lexemesFrom, tokensOf, lexemesAt_toks, ih, List.flatMap_cons]

/-- **layout independence**: two layouts of the same token texts (different separators, comments, line
breaks — anything that keeps the texts and their order) lex to the same token sequence, and
neither ends in an error -/
theorem layout_independent (lines lines' : List (List Piece × Line))
    (hwf : ∀ l ∈ lines, WFLine l.1 l.2) (hwf' : ∀ l ∈ lines', WFLine l.1 l.2) (hsame : tokensOf lines = tokensOf lines') :
    (lex (lines.map render)).1.map (·.tok) = (lex (lines'.map render)).1.map (·.tok) ∧
    (∃ c, (lex (lines.map render)).2 = .eof c) ∧ (∃ c, (lex (lines'.map render)).2 = .eof c) := by
  rw [lex_layout lines hwf, lex_layout lines' hwf']
  exact ⟨by simp only [lexemesFrom_toks, hsame], ⟨_, rfl⟩, ⟨_, rfl⟩⟩

/-- **span exactness**: within a line, the span of every lexeme covers exactly the text of its piece -/
theorem spans_exact (i : Nat) : ∀ (ps : List Piece) (trail L : Line) (col : Nat), L.drop col = renderLine ps trail →
    ∀ lx ∈ lexemesAt i col ps, ∃ p ∈ ps, lx.tok = p.2.2 ∧ lx.start.line = i ∧ lx.stop.line = i ∧
      (L.drop lx.start.col).take (lx.stop.col - lx.start.col) = p.2.1 := by
  intro ps
  induction ps with
  | nil => intro trail L col _ lx hlx; cases hlx
  | cons p ps ih =>
    intro trail L col hdrop lx hlx
    obtain ⟨sep, t, tok⟩ := p
    simp only [lexemesAt, List.mem_cons] at hlx
    simp only [renderLine] at hdrop
    rcases hlx with rfl | hlx
    · refine ⟨(sep, t, tok), List.mem_cons_self, rfl, rfl, rfl, ?_⟩
      show (L.drop (col + sep.length)).take (col + sep.length + t.length - (col + sep.length)) = t
      rw [← List.drop_drop, hdrop, List.drop_left, Nat.add_sub_cancel_left, List.take_left]
    · obtain ⟨q, hq, h⟩ := ih trail L (col + sep.length + t.length)
        (by rw [show col + sep.length + t.length = col + (sep.length + t.length) by omega, ← List.drop_drop, hdrop,
              ← List.append_assoc, show sep.length + t.length = (sep ++ t).length by simp, List.drop_left]) lx hlx
      exact ⟨q, List.mem_cons_of_mem _ hq, h⟩


/-! ## the pieces exist: every symbol of the table is self-delimiting -/

theorem isPrefix_before_space (pfx t rest : Line) (hp : ∀ c ∈ pfx, isSpace c = false) (hr : StartsSpace rest) :
    isPrefix pfx (t ++ rest) = (decide (pfx.length ≤ t.length) && isPrefix pfx t) := by
  unfold isPrefix
  by_cases hle : pfx.length ≤ t.length
  · simp only [hle, decide_true, Bool.true_and]
    rw [List.take_append_of_le_length hle]
  · simp only [hle, decide_false, Bool.false_and]
    rcases hr with rfl | ⟨c, r, rfl, hc⟩
    · simp only [List.append_nil]
      have : (t.take pfx.length).length < pfx.length := by simp; omega
      exact beq_false_of_ne (fun h => by rw [h] at this; omega)
    · -- the white-space character would have to be part of the symbol
      refine beq_false_of_ne (fun h => ?_)
      have hmem : c ∈ (t ++ c :: r).take pfx.length := by
        rw [List.take_append, List.mem_append]
        right
        have : 0 < pfx.length - t.length := by omega
        obtain ⟨k, hk⟩ : ∃ k, pfx.length - t.length = k + 1 := ⟨pfx.length - t.length - 1, by omega⟩
        rw [hk]; simp
      rw [h] at hmem
      exact absurd hc (by rw [hp c hmem]; decide)

theorem symbols_no_space : ∀ s ∈ symbolTokens, ∀ c ∈ cps s, isSpace c = false := by decide

theorem symbols_self : ∀ s ∈ symbolTokens,
    symbolTokens.find? (fun s' => decide ((cps s').length ≤ (cps s).length) && isPrefix (cps s') (cps s)) = some s := by decide

theorem symbols_shape' : ∀ s ∈ symbolTokens, cps s ≠ [] ∧ (cps s).take 2 ≠ [47, 47] ∧ s.length = (cps s).length := by
  decide

theorem symbols_shape (s : String) (hs : s ∈ symbolTokens) : cps s ≠ [] ∧ (∀ r, cps s ≠ 47 :: 47 :: r) ∧ s.length = (cps s).length := by
  obtain ⟨h1, h2, h3⟩ := symbols_shape' s hs
  exact ⟨h1, fun r h => h2 (by rw [h]; rfl), h3⟩

theorem find?_congr' {α : Type} (l : List α) (p q : α → Bool) (h : ∀ x ∈ l, p x = q x) : l.find? p = l.find? q := by
  induction l with
  | nil => rfl
  | cons a l ih =>
    simp only [List.find?_cons, h a List.mem_cons_self]
    rw [ih (fun x hx => h x (List.mem_cons_of_mem _ hx))]

theorem readSymbol_before_space (s : String) (hs : s ∈ symbolTokens) (rest : Line) (hr : StartsSpace rest) :
    readSymbol (cps s ++ rest) = some (.enum (enumName s), (cps s).length) := by
  unfold readSymbol
  rw [find?_congr' symbolTokens _ (fun s' => decide ((cps s').length ≤ (cps s).length) && isPrefix (cps s') (cps s))
    (fun s' hm => isPrefix_before_space (cps s') (cps s) rest (symbols_no_space s' hm) hr), symbols_self s hs]
  simp only [Option.map_some, (symbols_shape s hs).2.2]

/-- every symbol token of the language is a piece -/
theorem selfDelim_symbol (s : String) (hs : s ∈ symbolTokens) : SelfDelim (cps s) (.enum (enumName s)) := by
  refine ⟨(symbols_shape s hs).1, fun c r h => symbols_no_space s hs c (by rw [h]; exact List.mem_cons_self),
    (symbols_shape s hs).2.1, fun rest hr => ?_⟩
  unfold readToken
  rw [readSymbol_before_space s hs rest hr]

/-- non-vacuity of `lex_layout`: `( <= )`, laid out over two lines with a comment, is a well-formed
layout whose pieces are the three symbols -/
example : ∀ l ∈ ([([([32], cps "(", .enum (enumName "(")), ([32, 9], cps "<=", .enum (enumName "<="))], [32, 47, 47, 120]),
                   ([([], cps ")", .enum (enumName ")"))], [])] : List (List Piece × Line)), WFLine l.1 l.2 := by
  intro l hl
  simp only [List.mem_cons, List.mem_singleton, List.not_mem_nil, or_false] at hl
  rcases hl with rfl | rfl
  · refine ⟨by decide, (selfDelim_symbol "(" (by decide)).readsAs (Or.inr ⟨32, _, rfl, by decide⟩),
      by decide, (selfDelim_symbol "<=" (by decide)).readsAs (Or.inr ⟨32, _, rfl, by decide⟩), Or.inr ⟨[32], [120], rfl, by decide⟩⟩
  · exact ⟨by decide, (selfDelim_symbol ")" (by decide)).readsAs (Or.inl rfl), Or.inl (by decide)⟩

/-! ## … and so is every plain identifier that is not a keyword -/

theorem ranges_disjoint : ∀ a ∈ spaceRanges, ∀ b ∈ wordRanges, a.2 < b.1 ∨ b.2 < a.1 := by decide +kernel

theorem space_not_word (c : CP) (h : isSpace c = true) : isWord c = false := by
  unfold isSpace inRanges at h
  unfold isWord inRanges
  simp only [List.any_eq_true, Bool.and_eq_true, decide_eq_true_eq] at h
  obtain ⟨a, ha, h1, h2⟩ := h
  simp only [List.any_eq_false, Bool.and_eq_true, decide_eq_true_eq, not_and]
  intro b hb h3 h4
  have := ranges_disjoint a ha b hb
  have h1' : @LE.le Nat _ a.1 c := h1
  have h2' : @LE.le Nat _ c a.2 := h2
  have h3' : @LE.le Nat _ b.1 c := h3
  have h4' : @LE.le Nat _ c b.2 := h4
  omega

theorem symbols_not_idstart : ∀ s ∈ symbolTokens, ∀ c ∈ (cps s).head?, isIdStart c = false := by decide

theorem space_ranges_low : ∀ a ∈ spaceRanges, a.2 < 65 ∨ 122 < a.1 := by decide

theorem idstart_not_space (c : CP) (h : isIdStart c = true) : isSpace c = false := by
  unfold isIdStart at h
  simp only [Bool.or_eq_true, Bool.and_eq_true, decide_eq_true_eq, beq_iff_eq] at h
  cases hs : isSpace c with
  | false => rfl
  | true =>
    unfold isSpace inRanges at hs
    simp only [List.any_eq_true, Bool.and_eq_true, decide_eq_true_eq] at hs
    obtain ⟨a, ha, h1, h2⟩ := hs
    have := space_ranges_low a ha
    have h1' : @LE.le Nat _ a.1 c := h1
    have h2' : @LE.le Nat _ c a.2 := h2
    have hc : (@LE.le Nat _ 97 c ∧ @LE.le Nat _ c 122 ∨ @LE.le Nat _ 65 c ∧ @LE.le Nat _ c 90) ∨ @Eq Nat c 95 := h
    rcases hc with (⟨h5, h6⟩ | ⟨h5, h6⟩) | h5 <;> omega

theorem readSymbol_idstart (c : CP) (l : Line) (hc : isIdStart c = true) : readSymbol (c :: l) = none := by
  unfold readSymbol
  have : symbolTokens.find? (fun s => isPrefix (cps s) (c :: l)) = none := by
    rw [List.find?_eq_none]
    intro s hs hp
    unfold isPrefix at hp
    have heq := eq_of_beq hp
    cases hcs : cps s with
    | nil => exact absurd hcs (symbols_shape s hs).1
    | cons d r =>
      have hd := symbols_not_idstart s hs d (by rw [hcs]; rfl)
      rw [hcs] at heq
      simp only [List.length_cons, List.take_succ_cons] at heq
      injection heq with h1 _
      rw [h1] at hc; rw [hc] at hd; cases hd
  rw [this]; rfl

theorem takeWhile_word_append (r rest : Line) (hr : ∀ d ∈ r, isWord d = true) (hrest : StartsSpace rest) :
    (r ++ rest).takeWhile isWord = r := by
  induction r with
  | nil =>
    rcases hrest with rfl | ⟨d, r', rfl, hd⟩
    · rfl
    · simp [List.takeWhile, space_not_word d hd]
  | cons a r ih =>
    simp only [List.cons_append, List.takeWhile, hr a List.mem_cons_self]
    rw [ih (fun d hd => hr d (List.mem_cons_of_mem _ hd))]

/-- a plain identifier: a letter or `_`, then word characters; not a keyword -/
theorem selfDelim_ident (c : CP) (r : Line) (hc : isIdStart c = true) (hr : ∀ d ∈ r, isWord d = true)
    (hk : keywordOf (c :: r) = none) : SelfDelim (c :: r) (.ident (c :: r) .none) := by
  have h64 : c ≠ 64 := fun h => by rw [h] at hc; exact absurd hc (by decide)
  have h33 : c ≠ 33 := fun h => by rw [h] at hc; exact absurd hc (by decide)
  refine ⟨by simp, fun c' r' h => by injection h with h1 _; rw [← h1]; exact idstart_not_space c hc,
    fun r' h => by
      injection h with h1 _
      rw [h1] at hc; exact absurd hc (by decide), fun rest hrest => ?_⟩
  have htw := takeWhile_word_append r rest hr hrest
  unfold readToken
  rw [List.cons_append, readSymbol_idstart c _ hc]
  have hri : readIdent (c :: (r ++ rest)) = .ok (.ident (c :: r) .none) (c :: r).length := by
    unfold readIdent
    split
    · rename_i r' h; injection h with h1 _; exact absurd h1 h64
    · rename_i r' h; injection h with h1 _; exact absurd h1 h33
    · simp only [matchIdent, hc, if_true, htw, hk]
  simp only [hri]

end HidVerif.Hid.Lex
