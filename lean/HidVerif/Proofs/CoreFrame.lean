import HidVerif.Proofs.CoreStmt
/-!
# Core compiler proofs: function frames — parameters, pushed arguments, the stack check
-/
namespace HidVerif.Core
open HidVerif HidVerif.PSys HidVerif.Sphinx HidVerif.Gen

/-! ## parameters -/
theorem map_fst_paramGam (w : Nat) : ∀ (params : List String) (o : Nat), (paramGam w o params).map Prod.fst = params := by
  intro params
  induction params with
  | nil => intro o; rfl
  | cons x xs ih => intro o; simp [paramGam, ih]

theorem contains_paramGam (w : Nat) (params : List String) (o : Nat) (y : String) :
    ((paramGam w o params).map Prod.fst).contains y = params.contains y := by
  rw [map_fst_paramGam]

theorem look_paramGam_bounds (w : Nat) : ∀ (params : List String) (o : Nat) (y : String),
    params.contains y = true → o ≤ look (paramGam w o params) y ∧ look (paramGam w o params) y + w ≤ o + params.length * w := by
  intro params
  induction params with
  | nil => intro o y h; simp at h
  | cons x xs ih =>
    intro o y h
    simp only [paramGam, List.length_cons, Nat.add_mul, Nat.one_mul]
    by_cases hyx : y = x
    · subst hyx
      rw [look_cons_same]; omega
    · rw [look_cons_other _ _ _ _ hyx]
      have hy : xs.contains y = true := by
        simp only [List.contains_cons] at h
        have : (y == x) = false := by simpa using hyx
        simpa [this] using h
      have := ih (o + w) y hy
      omega

theorem disj_paramGam (w : Nat) : ∀ (params : List String) (o : Nat), params.Nodup → Disj w (paramGam w o params) := by
  intro params
  induction params with
  | nil => intro o _ x y hx; simp [paramGam] at hx
  | cons x xs ih =>
    intro o hnd y z hy hz hyz
    rw [contains_paramGam] at hy hz
    have hxs : xs.Nodup := (List.nodup_cons.1 hnd).2
    simp only [paramGam]
    by_cases hyx : y = x
    · subst hyx
      have hzy : z ≠ y := fun e => hyz e.symm
      have hz' : xs.contains z = true := by
        simp only [List.contains_cons] at hz
        have : (z == y) = false := by simpa using hzy
        simpa [this] using hz
      rw [look_cons_same, look_cons_other _ _ _ _ hzy]
      have := (look_paramGam_bounds w xs (o + w) z hz').1
      left; omega
    · have hy' : xs.contains y = true := by
        simp only [List.contains_cons] at hy
        have : (y == x) = false := by simpa using hyx
        simpa [this] using hy
      rw [look_cons_other _ _ _ _ hyx]
      by_cases hzx : z = x
      · subst hzx
        rw [look_cons_same]
        have := (look_paramGam_bounds w xs (o + w) y hy').1
        right; omega
      · have hz' : xs.contains z = true := by
          simp only [List.contains_cons] at hz
          have : (z == x) = false := by simpa using hzx
          simpa [this] using hz
        rw [look_cons_other _ _ _ _ hzx]
        exact ih (o + w) hxs y z (by rw [contains_paramGam]; exact hy') (by rw [contains_paramGam]; exact hz') hyz

/-- consecutive frame words, the first at offset `o`, hold the values `vs` -/
def SlotsAt (w : Nat) (m : Mem) (F : Nat) : Nat → List Nat → Prop
  | _, [] => True
  | o, v :: vs => m.readLE (F - o) w = v ∧ SlotsAt w m F (o + w) vs

theorem SlotsAt.keep {w : Nat} {m m' : Mem} {F a : Nat} (k : Keep w m m' a) :
    ∀ (vs : List Nat) (o : Nat), a + (o + vs.length * w) ≤ F + w → SlotsAt w m F o vs → SlotsAt w m' F o vs := by
  intro vs
  induction vs with
  | nil => intro o _ _; trivial
  | cons v vs ih =>
    intro o ha h
    simp only [List.length_cons, Nat.add_mul, Nat.one_mul] at ha
    exact ⟨by rw [k.read _ _ (by omega)]; exact h.1, ih (o + w) (by omega) h.2⟩

/-- the frame of a function whose parameters were passed in consecutive words matches the
environment that binds the parameters to those values -/
theorem vars_slots (w : Nat) (m : Mem) (F : Nat) : ∀ (params : List String) (vs : List Nat) (o : Nat),
    params.Nodup → vs.length = params.length → 2 * w ≤ o → SlotsAt w m F o vs →
    VarsOK w (paramGam w o params) (bindEnv params vs) m F (o + params.length * w - w) := by
  intro params
  induction params with
  | nil => intro vs o _ _ _ _ x hx; simp [paramGam] at hx
  | cons x xs ih =>
    intro vs o hnd hlen ho hs y hy
    cases vs with
    | nil => simp at hlen
    | cons v vs =>
      rw [contains_paramGam] at hy
      have hb := look_paramGam_bounds w (x :: xs) o y hy
      refine ⟨by omega, by omega, ?_⟩
      simp only [paramGam, bindEnv]
      by_cases hyx : y = x
      · subst hyx
        rw [look_cons_same, upd_same]; exact hs.1
      · rw [look_cons_other _ _ _ _ hyx, upd_other _ _ _ _ hyx]
        have hy' : xs.contains y = true := by
          simp only [List.contains_cons] at hy
          have : (y == x) = false := by simpa using hyx
          simpa [this] using hy
        exact (ih vs (o + w) (List.nodup_cons.1 hnd).2 (by simpa using hlen) (by omega) hs.2 y
          (by rw [contains_paramGam]; exact hy')).2.2

section
variable {p : Prog} {ck : Bool} {B : Nat} {dA : Nat}

/-! ## pushing the arguments of a call -/
theorem cArgs_ok (lib : Placed p B) (Γ : Gam) (env : Env) (F D : Nat) : ∀ (args : List E) (pc o : Nat) (m : Mem),
    PlacedAt p pc (cArgs (cxOf p ck B dA) Γ pc o args) →
    pc + (cArgs (cxOf p ck B dA) Γ pc o args).length ≤ B →
    Fr p m F D → VarsOK p.w Γ env m F o → args.all (boundE (Γ.map Prod.fst)) = true →
    pkArgs p.w o args ≤ D → p.w ≤ o →
    (∀ vs, evalArgs (256 ^ p.w) (8 * p.w) env args = some vs →
      ∃ m', Reach (sphinx p) ⟨pc, m⟩ [] ⟨pc + (cArgs (cxOf p ck B dA) Γ pc o args).length, m'⟩ ∧
        Keep p.w m m' (F - o) ∧ SlotsAt p.w m' F (o + p.w) vs) ∧
    (evalArgs (256 ^ p.w) (8 * p.w) env args = none → ck = true →
      ∃ m', Reach (sphinx p) ⟨pc, m⟩ [] ⟨B + off_division_by_zero, m'⟩) := by
  intro args
  induction args with
  | nil =>
    intro pc o m _ _ _ _ _ _ _
    refine ⟨fun vs hvs => ?_, fun h => by simp [evalArgs] at h⟩
    simp only [evalArgs, Option.some.injEq] at hvs
    subst hvs
    exact ⟨m, by simpa [cArgs] using Reach.refl, Keep.refl _ _ _, trivial⟩
  | cons e es ih =>
    intro pc o m hpl hB fr hvars hb hpk ho
    simp only [List.all_cons, Bool.and_eq_true] at hb
    simp only [pkArgs] at hpk
    simp only [cArgs] at hpl hB ⊢
    obtain ⟨hpl1, hpl2⟩ := hpl.append
    rw [List.length_append] at hB ⊢
    have hp := pushE_ok (ck := ck) (dA := dA) lib Γ env F D e pc o m hpl1 (by omega) fr hvars hb.1 (by omega) ho
    have hoD : o + p.w ≤ D := by unfold pkPush at hpk; omega
    have hroom := fr.room
    refine ⟨fun vs hvs => ?_, fun hn hck => ?_⟩
    · simp only [evalArgs, Option.bind_eq_bind] at hvs
      cases hev : evalE (256 ^ p.w) (8 * p.w) env e with
      | none => simp [hev] at hvs
      | some v =>
        cases hes : evalArgs (256 ^ p.w) (8 * p.w) env es with
        | none => simp [hev, hes] at hvs
        | some vs' =>
          simp only [hev, hes, Option.bind_some, Option.pure_def, Option.some.injEq] at hvs
          subst hvs
          obtain ⟨m1, r1, k1, hval⟩ := hp.1 v hev
          obtain ⟨m2, r2, k2, hsl⟩ := (ih (pc + (pushE (cxOf p ck B dA) Γ pc o e).length) (o + p.w) m1 hpl2 (by omega) (fr.keep k1)
            (hvars.keep k1 (Nat.le_refl _) (by omega)) hb.2 (by omega) (by omega)).1 vs' hes
          refine ⟨m2, by simpa [Nat.add_assoc] using r1.trans r2, k1.trans' (k2.mono (by omega)), ?_, hsl⟩
          rw [k2.read _ _ (Nat.le_refl _)]; exact hval
    · simp only [evalArgs, Option.bind_eq_bind] at hn
      cases hev : evalE (256 ^ p.w) (8 * p.w) env e with
      | none => exact hp.2 hev hck
      | some v =>
        obtain ⟨m1, r1, k1, hval⟩ := hp.1 v hev
        cases hes : evalArgs (256 ^ p.w) (8 * p.w) env es with
        | some vs' => simp [hev, hes] at hn
        | none =>
          obtain ⟨m2, r2⟩ := (ih (pc + (pushE (cxOf p ck B dA) Γ pc o e).length) (o + p.w) m1 hpl2 (by omega) (fr.keep k1)
            (hvars.keep k1 (Nat.le_refl _) (by omega)) hb.2 (by omega) (by omega)).2 hes hck
          exact ⟨m2, by simpa using r1.trans r2⟩

theorem evalArgs_length {M n : Nat} {env : Env} : ∀ {args : List E} {vs : List Nat},
    evalArgs M n env args = some vs → vs.length = args.length := by
  intro args
  induction args with
  | nil => intro vs h; simp only [evalArgs, Option.some.injEq] at h; subst h; rfl
  | cons e es ih =>
    intro vs h
    simp only [evalArgs, Option.bind_eq_bind] at h
    cases hev : evalE M n env e with
    | none => simp [hev] at h
    | some v =>
      cases hes : evalArgs M n env es with
      | none => simp [hev, hes] at h
      | some vs' =>
        simp only [hev, hes, Option.bind_some, Option.pure_def, Option.some.injEq] at h
        subst h; simp [ih hes]

/-- the operand `get_expr_value(r, e)` returns is an immediate or the register `r` -/
theorem gV_reg (Γ : Gam) (env : Env) (m : Mem) (F D : Nat) (e : E) (pc o r : Nat)
    (hvars : VarsOK p.w Γ env m F o) (hb : boundE (Γ.map Prod.fst) e = true) (hpk : pkE p.w o e false ≤ D) (ho : p.w ≤ o) :
    (∃ i, (gV (cxOf p ck B dA) Γ pc o r e).2 = .imm i) ∨ (gV (cxOf p ck B dA) Γ pc o r e).2 = .reg r := by
  rcases hce : cE (cxOf p ck B dA) Γ pc o r e false with ⟨c, v0, p0⟩
  have hloc := cE_loc (cxOf p ck B dA) Γ env m F D e pc o r false hvars hb hpk ho
  rw [hce] at hloc
  obtain ⟨hp0, hloc0, _⟩ := hloc
  simp only [Bool.false_and] at hp0
  subst hp0
  simp only [Bool.false_eq_true, if_false] at hloc0
  have := getOp_res (cxOf p ck B dA) hloc0
  simpa [gV, hce] using this

theorem SlotsAt_shift (w : Nat) (m : Mem) (F o : Nat) : ∀ (vs : List Nat) (a : Nat),
    SlotsAt w m F (o + a) vs → SlotsAt w m (F - o) a vs := by
  intro vs
  induction vs with
  | nil => intro a _; trivial
  | cons v vs ih =>
    intro a h
    refine ⟨by rw [Nat.sub_sub]; exact h.1, ih (a + w) (by rw [← Nat.add_assoc]; exact h.2)⟩

theorem SlotsAt_congr (w : Nat) (m m' : Mem) (F lo : Nat) (h : ∀ x, lo ≤ x → m'.rd x = m.rd x) :
    ∀ (vs : List Nat) (o : Nat), lo + (o + vs.length * w) ≤ F + w → SlotsAt w m F o vs → SlotsAt w m' F o vs := by
  intro vs
  induction vs with
  | nil => intro o _ _; trivial
  | cons v vs ih =>
    intro o ha hs
    simp only [List.length_cons, Nat.add_mul, Nat.one_mul] at ha
    refine ⟨?_, ih (o + w) (by omega) hs.2⟩
    rw [← hs.1]; exact Mem.readLE_congr _ _ _ _ (fun x h1 _ => h x (by omega))

theorem pkArgs_ge (w : Nat) : ∀ (args : List E) (o : Nat), o + args.length * w ≤ pkArgs w o args := by
  intro args
  induction args with
  | nil => intro o; simp [pkArgs]
  | cons e es ih =>
    intro o
    have := ih (o + w)
    simp only [pkArgs, List.length_cons, Nat.add_mul, Nat.one_mul]
    omega

/-! ## the stack check at the start of a function -/
theorem prologue_ok (lib : Placed p B) (fa : FAddr) (base : Nat) (vd : Bool) (params : List String) (body : S)
    (m : Mem) (F D : Nat) (fr : Fr p m F D)
    (hpl : PlacedAt p base (funcCode (cxOf p ck B dA) fa base vd params body))
    (hB : base + (funcCode (cxOf p ck B dA) fa base vd params body).length ≤ B)
    (hpkM : pkS p.w (entryOff p.w params) body < 256 ^ p.w) :
    (pkS p.w (entryOff p.w params) body ≤ F - 5 * p.w →
      Reach (sphinx p) ⟨base, m⟩ [] ⟨base + prologueLen ck, m⟩) ∧
    (ck = true → F - 5 * p.w < pkS p.w (entryOff p.w params) body →
      ∃ m', Reach (sphinx p) ⟨base, m⟩ [] ⟨B + off_stack_overflow, m'⟩) := by
  have hw := lib.hw
  have h64 := mul_w_lt_pow p.w hw
  have hM := pow_ge2 p.w hw
  have hBM := lib.hB
  have hroom := fr.room; have htop := fr.top; have hFM := fr.lt
  cases hck : ck with
  | false =>
    exact ⟨fun _ => by simpa [prologueLen] using Reach.refl, fun h => by simp at h⟩
  | true =>
    subst hck
    unfold funcCode at hpl hB
    simp only [if_true] at hpl hB
    have hpro1 := hpl.append.1
    have c0 := hpro1 0 (by simp); have c1 := hpro1 1 (by simp); have c2 := hpro1 2 (by simp)
    have c3 := hpro1 3 (by simp); have c4 := hpro1 4 (by simp)
    simp only [List.getElem_cons_succ, List.getElem_cons_zero, Nat.add_zero] at c0 c1 c2 c3 c4
    simp only [List.length_append, List.length_cons, List.length_nil] at hB
    have s0 := step_j (m := m) c0 (ev_imm (base + 5))
    rw [show (base + 5) % p.M = base + 5 from Nat.mod_eq_of_lt (by unfold Prog.M; simp [stdlibLength] at hBM; omega)] at s0
    have hfp : evalArg p ⟨base + 1, m⟩ (.st (cxOf p true B dA).fp) = some F := by
      show evalArg p _ (.st p.w) = _
      rw [ev_st (by unfold Prog.M; omega) (by omega), fr.fp]
    have hap : evalArg p ⟨base + 1, m⟩ (.st 0) = some (5 * p.w) := by
      rw [ev_st (by unfold Prog.M; omega) (by omega), fr.ap]
    have s1 := step_alu (m := m) c1 hfp hap alu_sub
      (by show 3 * p.w < p.M; unfold Prog.M; omega) (by show 3 * p.w + p.w ≤ _; omega)
    rw [show (F + p.M - 5 * p.w % p.M) % p.M = F - 5 * p.w from by
      unfold Prog.M; exact sub_mod_small (by omega) hFM] at s1
    generalize hm1 : m.writeLE (cxOf p true B dA).r1 p.w (F - 5 * p.w) = m1 at *
    have hr1 : evalArg p ⟨base + 1 + 1, m1⟩ (.st (cxOf p true B dA).r1) = some (F - 5 * p.w) := by
      show evalArg p _ (.st (3 * p.w)) = _
      rw [ev_st (by unfold Prog.M; omega) (by rw [← hm1]; simp; omega), ← hm1]
      show some ((m.writeLE (3 * p.w) p.w _).readLE (3 * p.w) p.w) = _
      rw [Mem.readLE_writeLE_same _ _ _ _ (by omega)]
      rw [Nat.mod_eq_of_lt (by omega)]
    have s2 := step_hcond (m := m1) c2 hr1 (ev_imm _)
    have hmax : pkS p.w (entryOff p.w params) body % (cxOf p true B dA).M % p.M = pkS p.w (entryOff p.w params) body := by
      show pkS p.w (entryOff p.w params) body % 256 ^ p.w % p.M = _
      unfold Prog.M; rw [Nat.mod_mod]; exact Nat.mod_eq_of_lt hpkM
    rw [hmax] at s2
    refine ⟨fun hfit => ?_, fun _ hsmall => ?_⟩
    · simp only [haltCond, ge_iff_le, hfit, decide_true, if_true] at s2
      have hh : Halts (sphinx p) ⟨base + 1, m⟩ := Halts.next (sys := sphinx p) s1 (Halts.halt (sys := sphinx p) s2)
      simpa [prologueLen] using Reach.jump_taken' (sys := sphinx p) s0 hh
    · have hnot : ¬ (pkS p.w (entryOff p.w params) body ≤ F - 5 * p.w) := by omega
      simp only [haltCond, ge_iff_le, hnot, decide_false, Bool.false_eq_true, if_false] at s2
      have s3 := step_j (m := m1) c3 (ev_imm (B + off_stack_overflow))
      rw [show (B + off_stack_overflow) % p.M = B + off_stack_overflow from
        Nat.mod_eq_of_lt (by unfold Prog.M; simp [off_stack_overflow, stdlibLength] at *; omega)] at s3
      have s4 := step_halt (m := m1) c4
      have j3 := Reach.jump_taken (sys := sphinx p) s3 s4
      have r1 : Reach (sphinx p) ⟨base + 1, m⟩ [] ⟨B + off_stack_overflow, m1⟩ := by
        have := (Reach.of_next (sys := sphinx p) s1).trans ((Reach.of_next (sys := sphinx p) s2).trans j3)
        simpa [evl] using this
      have nh1 : ¬ Halts (sphinx p) ⟨base + 1, m⟩ := (r1.exec (terminal_never_halts lib m1).2.2.1).2
      have r0 := Reach.jump_not_taken (sys := sphinx p) s0 (fun hh => absurd hh nh1)
      exact ⟨m1, by simpa using r0.trans r1⟩
end

end HidVerif.Core
