import HidVerif.Sphinx.Isa
/-!
# Memory lemmas: little-endian words over a bounds-checked byte array
-/
namespace HidVerif.Sphinx.Mem

@[simp] theorem size_wr (m : Mem) (a v : Nat) : (m.wr a v).size = m.size := by
  simp [wr, size]

theorem rd_lt (m : Mem) (a : Nat) : m.rd a < 256 := by
  unfold rd; exact UInt8.toNat_lt _

theorem rd_wr_same (m : Mem) (a v : Nat) (h : a < m.size) : (m.wr a v).rd a = v % 256 := by
  unfold rd wr size at *
  simp [Array.getD, h, UInt8.toNat_ofNat']

theorem rd_wr_other (m : Mem) (a b v : Nat) (h : a ≠ b) : (m.wr a v).rd b = m.rd b := by
  unfold rd wr
  simp only [Array.getD_eq_getD_getElem?]
  rw [Array.getElem?_setIfInBounds_ne h]

@[simp] theorem size_writeLE (m : Mem) (a k v : Nat) : (m.writeLE a k v).size = m.size := by
  induction k generalizing m a v with
  | zero => rfl
  | succ k ih => simp [writeLE, ih]

theorem rd_writeLE_other (m : Mem) (a k v x : Nat) (h : x < a ∨ a + k ≤ x) :
    (m.writeLE a k v).rd x = m.rd x := by
  induction k generalizing m a v with
  | zero => rfl
  | succ k ih =>
    simp only [writeLE]
    rw [ih _ _ _ (by omega), rd_wr_other _ _ _ _ (by omega)]

theorem readLE_congr (m m' : Mem) (a k : Nat) (h : ∀ x, a ≤ x → x < a + k → m.rd x = m'.rd x) :
    m.readLE a k = m'.readLE a k := by
  induction k generalizing a with
  | zero => rfl
  | succ k ih =>
    simp only [readLE]
    rw [h a (by omega) (by omega), ih (a+1) (fun x h1 h2 => h x (by omega) (by omega))]

theorem readLE_writeLE_same (m : Mem) (a k v : Nat) (hb : a + k ≤ m.size) :
    (m.writeLE a k v).readLE a k = v % 256 ^ k := by
  induction k generalizing a v m with
  | zero => simp [readLE, Nat.mod_one]
  | succ k ih =>
    simp only [readLE, writeLE]
    rw [rd_writeLE_other _ _ _ _ _ (by omega), rd_wr_same _ _ _ (by omega)]
    rw [ih _ _ _ (by simp; omega)]
    rw [Nat.mod_mod, Nat.pow_succ, Nat.mul_comm (256^k) 256, Nat.mod_mul]

theorem readLE_writeLE_disj (m : Mem) (a k v b j : Nat) (h : b + j ≤ a ∨ a + k ≤ b) :
    (m.writeLE a k v).readLE b j = m.readLE b j := by
  apply readLE_congr; intro x h1 h2; apply rd_writeLE_other; omega

theorem readLE_lt (m : Mem) (a k : Nat) : m.readLE a k < 256 ^ k := by
  induction k generalizing a with
  | zero => simp [readLE]
  | succ k ih =>
    simp only [readLE, Nat.pow_succ]
    have := ih (a+1); have := rd_lt m a
    omega

theorem readLE_one (m : Mem) (a : Nat) : m.readLE a 1 = m.rd a := by
  simp [readLE]

theorem writeLE_one (m : Mem) (a v : Nat) : m.writeLE a 1 v = m.wr a (v % 256) := by
  simp [writeLE]

theorem rd_writeLE_one_same (m : Mem) (a v : Nat) (h : a < m.size) :
    (m.writeLE a 1 v).rd a = v % 256 := by
  rw [writeLE_one, rd_wr_same _ _ _ h, Nat.mod_mod]

end HidVerif.Sphinx.Mem
