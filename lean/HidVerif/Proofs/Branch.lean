import HidVerif.Proofs.Templates
import HidVerif.Proofs.Tables
/-!
# Branch, normalisation and unary-operator lowerings (C09), for all `w` and all values
-/
namespace HidVerif.Sphinx
open HidVerif HidVerif.PSys HidVerif.Gen HidVerif.Compiler

/-- two-sided branch `J: j T; J+1: h<c> a b; … ; T: h<c'> a b` with `(c, c')` an entry of the
regenerated `halt_inversion` table: control goes to `T+1` iff the condition `c` holds and to
`J+2` otherwise, nothing is written or emitted — whatever code follows -/
theorem branch_exact {p : Prog} {J T : Nat} {c c' : HaltOp} {a b : Arg} {m : Mem} {x y : Nat}
    (hinv : (c, c') ∈ haltInversion)
    (c0 : p.code[J]? = some (.j (.imm T))) (c1 : p.code[J + 1]? = some (.hcond c a b))
    (cT : p.code[T]? = some (.hcond c' a b)) (hT : T < 256 ^ p.w)
    (ha : ∀ pc', evalArg p ⟨pc', m⟩ a = some x) (hb : ∀ pc', evalArg p ⟨pc', m⟩ b = some y) :
    (haltCond p.M c x y = true → Reach (sphinx p) ⟨J, m⟩ [] ⟨T + 1, m⟩) ∧
    (haltCond p.M c x y = false → Reach (sphinx p) ⟨J, m⟩ [] ⟨J + 1 + 1, m⟩) := by
  have hneg := halt_inversion_sound p.M x y (c, c') hinv
  simp only at hneg
  have s0 := step_j (m := m) c0 (ev_imm T)
  rw [show T % p.M = T from Nat.mod_eq_of_lt (by unfold Prog.M; exact hT)] at s0
  have s1 := step_hcond (m := m) c1 (ha _) (hb _)
  have sT := step_hcond (m := m) cT (ha _) (hb _)
  rw [hneg] at sT
  constructor
  · intro hc
    rw [hc] at s1 sT
    have s1h : step p ⟨J + 1, m⟩ = .halt := by simpa using s1
    have sTn : step p ⟨T, m⟩ = .next ⟨T + 1, m⟩ none := by simpa using sT
    have := (Reach.jump_taken (sys := sphinx p) s0 s1h).trans (Reach.of_next (sys := sphinx p) sTn)
    simpa [evl] using this
  · intro hc
    rw [hc] at s1 sT
    have s1n : step p ⟨J + 1, m⟩ = .next ⟨J + 1 + 1, m⟩ none := by simpa using s1
    have sTh : step p ⟨T, m⟩ = .halt := by simpa using sT
    exact Reach.jump_fallthrough (sys := sphinx p) s0 s1n (fun _ => Halts.halt (sys := sphinx p) sTh)

/-- `IntToBool`: the normalisation fragment leaves `0` for `0` and `1` for every other word -/
theorem bool_norm_exact {p : Prog} {pc r v : Nat} {m : Mem}
    (h : PlacedAt p pc (boolNorm (pc + 3) r)) (hpc : pc + 3 < 256 ^ p.w) (hw : 2 ≤ p.w)
    (hr : r < 256 ^ p.w) (hrsz : r + p.w ≤ m.size) (hv : m.readLE r p.w = v) :
    ∃ m', Reach (sphinx p) ⟨pc, m⟩ [] ⟨pc + 4, m'⟩ ∧ m'.readLE r p.w = (if v = 0 then 0 else 1) ∧
      (∀ x, (x < r ∨ r + p.w ≤ x) → m'.rd x = m.rd x) := by
  have hM := pow_ge2 p.w hw
  have c0 := h 0 (by simp [boolNorm]); have c1 := h 1 (by simp [boolNorm])
  have c2 := h 2 (by simp [boolNorm]); have c3 := h 3 (by simp [boolNorm])
  simp only [boolNorm, List.getElem_cons_succ, List.getElem_cons_zero, Nat.add_zero] at c0 c1 c2 c3
  have s0 := step_j (m := m) c0 (ev_imm (pc + 3))
  rw [show (pc + 3) % p.M = pc + 3 from Nat.mod_eq_of_lt (by unfold Prog.M; exact hpc)] at s0
  have er : ∀ pc', evalArg p ⟨pc', m⟩ (.st r) = some v := fun _ => by
    rw [ev_st (by unfold Prog.M; exact hr) hrsz, hv]
  have one : (1 : Nat) % p.M = 1 := Nat.mod_eq_of_lt (by unfold Prog.M; omega)
  have s1 := step_hcond (m := m) c1 (er _) (ev_imm 1)
  have s3 := step_hcond (m := m) c3 (er _) (ev_imm 1)
  simp only [haltCond, one] at s1 s3
  by_cases hle : v ≤ 1
  · -- already 0/1: the jump is taken, the value is left alone
    simp only [hle, decide_true, if_true] at s1
    have : ¬ v > 1 := by omega
    simp only [this, decide_false, Bool.false_eq_true, if_false] at s3
    refine ⟨m, ?_, ?_, fun _ _ => rfl⟩
    · have := (Reach.jump_taken (sys := sphinx p) s0 s1).trans (Reach.of_next (sys := sphinx p) s3)
      simpa [evl] using this
    · rw [hv]; split <;> omega
  · -- anything else becomes 1
    simp only [hle, decide_false, Bool.false_eq_true, if_false] at s1
    have hgt : v > 1 := by omega
    simp only [hgt, decide_true, if_true] at s3
    have s2 := step_mov (m := m) c2 (ev_imm 1) (by unfold Prog.M; exact hr) hrsz
    rw [one] at s2
    generalize hm' : m.writeLE r p.w 1 = m' at *
    have hr' : m'.readLE r p.w = 1 := by
      rw [← hm', Mem.readLE_writeLE_same _ _ _ _ hrsz]; exact Nat.mod_eq_of_lt (by omega)
    have er' : evalArg p ⟨pc + 3, m'⟩ (.st r) = some 1 := by
      rw [ev_st (by unfold Prog.M; exact hr) (by rw [← hm']; simpa using hrsz), hr']
    have s3' := step_hcond (m := m') c3 er' (ev_imm 1)
    simp only [haltCond, one] at s3'
    have : ¬ (1 : Nat) > 1 := by omega
    simp only [this, decide_false, Bool.false_eq_true, if_false] at s3'
    refine ⟨m', ?_, ?_, ?_⟩
    · -- not jumping is the committed choice exactly when the continuation does not halt; the
      -- jump target halts at once (`hgtu v 1` fires), so `Reach` holds either way
      have fall : Reach (sphinx p) ⟨pc, m⟩ [] ⟨pc + 1 + 1, m⟩ :=
        Reach.jump_fallthrough (sys := sphinx p) s0 s1 (fun _ => Halts.halt (sys := sphinx p) s3)
      have := fall.trans ((Reach.of_next (sys := sphinx p) s2).trans (Reach.of_next (sys := sphinx p) s3'))
      simpa [evl] using this
    · rw [hr']; split <;> omega
    · intro x hx; rw [← hm', Mem.rd_writeLE_other _ _ _ _ _ hx]

/-- unary minus is `sub r, 0, x` -/
theorem neg_lowering (M n x : Nat) (hx : x < M) : aluOp M n .sub 0 x = some ((M - x) % M) := by
  simp [aluOp, Nat.mod_eq_of_lt hx]

/-- `not` is `sub r, 1, x`, correct because booleans are strictly 0/1 (`bool_norm_exact`) -/
theorem not_lowering (M n x : Nat) (hM : 2 ≤ M) (hx : x ≤ 1) :
    aluOp M n .sub 1 x = some (if x = 0 then 1 else 0) := by
  have : x = 0 ∨ x = 1 := by omega
  rcases this with rfl | rfl
  · simp [aluOp, Nat.mod_eq_of_lt (by omega : 1 < M)]
  · simp [aluOp, Nat.mod_eq_of_lt (by omega : 1 < M)]

/-- a byte access reads the low byte of a little-endian word: `x is byte` is truncation -/
theorem low_byte (m : Mem) (a w : Nat) (hw : 1 ≤ w) : m.rd a = m.readLE a w % 256 := by
  obtain ⟨k, rfl⟩ : ∃ k, w = k + 1 := ⟨w - 1, by omega⟩
  have := Mem.rd_lt m a
  simp only [Mem.readLE]; omega

end HidVerif.Sphinx
