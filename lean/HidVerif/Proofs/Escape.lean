import HidVerif.Gen.Funcs
import HidVerif.Sphinx.Asm
/-!
# C13 — `_escape_bytes` and the assembler's unescaping are inverse, for every byte string

`Gen.escapeByte` is the transcription of `hidc.codegen.asm._escape_bytes` regenerated on every
run; `Asm.unescape` is what the (assumed, A8) Sphinx assembler accepts inside string and
character literals.
-/
namespace HidVerif.Sphinx
open HidVerif.Gen HidVerif.Sphinx.Asm

def chars (l : List Nat) : Line := l.map Char.ofNat

/-- decoding the escaped form of one byte yields that byte and consumes exactly its escape -/
def unitOk (q b : Nat) : Bool :=
  match unescapeStep (Char.ofNat q) (chars (escapeByte [q] b)) with
  | .ok (v, rest) => v == b && rest.isEmpty
  | .error _ => false

/-- all 256 byte values, both quote characters: a complete enumeration (kernel-evaluated) -/
theorem unit_table : ∀ q ∈ [34, 39], ∀ b < 256, unitOk q b = true := by decide +kernel

/-- a successful step on a complete unit is unaffected by what follows it -/
theorem unescapeStep_append (quote : Char) (u rest : Line) (v : Nat)
    (h : unescapeStep quote u = .ok (v, [])) : unescapeStep quote (u ++ rest) = .ok (v, rest) := by
  unfold unescapeStep at h ⊢
  match u with
  | [] => simp at h
  | c :: t =>
    simp only [List.cons_append] at h ⊢
    by_cases hc : (c == '\\') = true
    · simp only [hc, if_true] at h ⊢
      match t with
      | [] => simp at h
      | d :: t' =>
        simp only [List.cons_append] at h ⊢
        by_cases hd : (d == 'x') = true
        · simp only [hd, if_true] at h ⊢
          match t' with
          | [] => simp at h
          | [a] => simp at h
          | a :: b :: t'' =>
            simp only [List.cons_append] at h ⊢
            cases e1 : hexVal a <;> cases e2 : hexVal b <;> simp_all
        · simp only [hd, Bool.false_eq_true, if_false] at h ⊢
          cases e : simpleEscape d <;> simp_all
    · simp only [hc, Bool.false_eq_true, if_false] at h ⊢
      by_cases hq : (c == quote) = true
      · simp [hq] at h
      · simp only [hq, Bool.false_eq_true, if_false] at h ⊢
        by_cases hp : (decide (c.toNat < 0x20) || decide (c.toNat > 0x7e)) = true
        · simp [hp] at h
        · simp only [hp, Bool.false_eq_true, if_false] at h ⊢
          simp_all

theorem unit_step (q b : Nat) (hq : q ∈ [34, 39]) (hb : b < 256) (rest : Line) :
    unescapeStep (Char.ofNat q) (chars (escapeByte [q] b) ++ rest) = .ok (b, rest) := by
  have h := unit_table q hq b hb
  unfold unitOk at h
  split at h
  · rename_i v r heq
    simp only [Bool.and_eq_true, beq_iff_eq, List.isEmpty_iff] at h
    obtain ⟨rfl, rfl⟩ := h
    exact unescapeStep_append _ _ _ _ heq
  · simp at h

theorem escapeByte_ne_nil (q b : Nat) (hq : q ∈ [34, 39]) (hb : b < 256) : escapeByte [q] b ≠ [] := by
  intro hnil
  have h := unit_table q hq b hb
  simp [unitOk, hnil, chars, unescapeStep] at h

/-- **round trip**: unescaping the escaped form of any byte string gives the string back -/
theorem unescapeFuel_escapeBytes (q : Nat) (hq : q ∈ [34, 39]) (bs : List Nat) (hbs : ∀ b ∈ bs, b < 256) :
    ∀ n, (chars (escapeBytes bs [q])).length ≤ n →
      unescapeFuel (Char.ofNat q) n (chars (escapeBytes bs [q])) = .ok bs := by
  induction bs with
  | nil => intro n _; cases n <;> simp [escapeBytes, chars, unescapeFuel]
  | cons b bs ih =>
    intro n hn
    have hb : b < 256 := hbs b (by simp)
    have hne := escapeByte_ne_nil q b hq hb
    have hsplit : chars (escapeBytes (b :: bs) [q]) = chars (escapeByte [q] b) ++ chars (escapeBytes bs [q]) := by
      simp [escapeBytes, chars]
    rw [hsplit] at hn ⊢
    have hlen : 0 < (chars (escapeByte [q] b)).length := by
      cases h : escapeByte [q] b with
      | nil => exact absurd h hne
      | cons _ _ => simp [chars]
    match n, hn with
    | 0, hn => rw [List.length_append] at hn; omega
    | n + 1, hn =>
      have hnonempty : chars (escapeByte [q] b) ++ chars (escapeBytes bs [q]) ≠ [] := by
        intro h; simp at h; have := h.1; simp [chars] at this; exact hne this
      have step := unit_step q b hq hb (chars (escapeBytes bs [q]))
      have hrec := ih (fun x hx => hbs x (by simp [hx])) n (by rw [List.length_append] at hn; omega)
      cases hl : chars (escapeByte [q] b) ++ chars (escapeBytes bs [q]) with
      | nil => exact absurd hl hnonempty
      | cons c t =>
        rw [hl] at step
        simp only [unescapeFuel, step]
        show (do let r ← unescapeFuel (Char.ofNat q) n (chars (escapeBytes bs [q])); pure (b :: r)) = _
        rw [hrec]; rfl

theorem escape_roundtrip (q : Nat) (hq : q ∈ [34, 39]) (bs : List Nat) (hbs : ∀ b ∈ bs, b < 256) :
    unescape (Char.ofNat q) (chars (escapeBytes bs [q])) = .ok bs :=
  unescapeFuel_escapeBytes q hq bs hbs _ (Nat.le_refl _)

end HidVerif.Sphinx
