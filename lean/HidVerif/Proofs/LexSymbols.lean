import HidVerif.Hid.Lexer
/-!
# C12 (iv): the symbol reader returns the longest symbol, whatever the order among symbols
of equal length (the source sorts a `set`, whose iteration order depends on the hash seed)
-/
namespace HidVerif.Hid.Lex
open HidVerif.Gen

theorem isPrefix_eq_of_length_eq {a b l : List CP} (ha : isPrefix a l = true) (hb : isPrefix b l = true)
    (hlen : a.length = b.length) : a = b := by
  simp only [isPrefix, beq_iff_eq] at ha hb
  rw [← ha, ← hb, hlen]

/-- in a list sorted by decreasing length, the first match is a longest match -/
theorem find_longest {α : Type} (len : α → Nat) (p : α → Bool) :
    ∀ (l : List α), l.Pairwise (fun a b => len a ≥ len b) → ∀ s, l.find? p = some s →
      s ∈ l ∧ p s = true ∧ ∀ t ∈ l, p t = true → len t ≤ len s := by
  intro l
  induction l with
  | nil => intro _ s h; simp at h
  | cons a l ih =>
    intro hs s h
    rw [List.pairwise_cons] at hs
    by_cases hp : p a = true
    · simp [List.find?, hp] at h; subst h
      refine ⟨by simp, hp, ?_⟩
      intro t ht _
      rcases List.mem_cons.1 ht with rfl | ht'
      · exact Nat.le_refl _
      · exact hs.1 t ht'
    · simp only [List.find?, hp] at h
      obtain ⟨hm, hps, hmax⟩ := ih hs.2 s h
      refine ⟨List.mem_cons_of_mem _ hm, hps, ?_⟩
      intro t ht hpt
      rcases List.mem_cons.1 ht with rfl | ht'
      · exact absurd hpt hp
      · exact hmax t ht' hpt

/-- **order independence**: any two lists with the same elements, both sorted by decreasing
length, give the same answer for every input -/
theorem find_prefix_order_irrelevant (l₁ l₂ : List (List CP)) (rest : List CP)
    (hmem : ∀ s, s ∈ l₁ ↔ s ∈ l₂)
    (h₁ : l₁.Pairwise (fun a b => a.length ≥ b.length)) (h₂ : l₂.Pairwise (fun a b => a.length ≥ b.length)) :
    l₁.find? (fun s => isPrefix s rest) = l₂.find? (fun s => isPrefix s rest) := by
  cases e₁ : l₁.find? (fun s => isPrefix s rest) with
  | none =>
    cases e₂ : l₂.find? (fun s => isPrefix s rest) with
    | none => rfl
    | some t =>
      obtain ⟨hm, hp, _⟩ := find_longest List.length _ l₂ h₂ t e₂
      have := List.find?_eq_none.1 e₁ t ((hmem t).2 hm)
      simp [hp] at this
  | some s =>
    obtain ⟨hm, hp, hmax⟩ := find_longest List.length _ l₁ h₁ s e₁
    cases e₂ : l₂.find? (fun s => isPrefix s rest) with
    | none =>
      have := List.find?_eq_none.1 e₂ s ((hmem s).1 hm)
      simp [hp] at this
    | some t =>
      obtain ⟨hm', hp', hmax'⟩ := find_longest List.length _ l₂ h₂ t e₂
      have h1 := hmax t ((hmem t).2 hm') hp'
      have h2 := hmax' s ((hmem s).1 hm) hp
      have : s = t := isPrefix_eq_of_length_eq hp hp' (by omega)
      rw [this]

/-- the regenerated symbol table is sorted longest first -/
theorem symbolTokens_sorted : (symbolTokens.map cps).Pairwise (fun a b => a.length ≥ b.length) := by
  decide

/-- what `read_symbol_token` computes: the longest symbol that is a prefix of the input -/
theorem readSymbol_longest (rest : List CP) (s : List CP)
    (h : (symbolTokens.map cps).find? (fun s => isPrefix s rest) = some s) :
    s ∈ symbolTokens.map cps ∧ isPrefix s rest = true ∧
    ∀ t ∈ symbolTokens.map cps, isPrefix t rest = true → t.length ≤ s.length :=
  find_longest List.length _ _ symbolTokens_sorted s h

end HidVerif.Hid.Lex
