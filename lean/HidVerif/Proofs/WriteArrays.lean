import HidVerif.Proofs.WriteConst
/-!
# Entry-to-return specifications of `write_state_byte_array`, `write_const_byte_array`,
`write_string` and `write_bool` — every length (including 0), every `w ≥ 2`
-/
namespace HidVerif.Sphinx
open HidVerif HidVerif.PSys HidVerif.Gen

/-- the `done` tail of `write_state_byte_array` (+13): load the return address and jump to it -/
theorem wsba_done (p : Prog) (B : Nat) (hp : Placed p B) (m : Mem) (F ra r0 r1 r2 : Nat)
    (hF : 6 * p.w ≤ F) (hFM : F < 256 ^ p.w) (hFsz : F ≤ m.size)
    (hra : m.readLE (F - p.w) p.w = ra) (hr : Regs p.w m F r0 r1 r2) :
    Reach (sphinx p) ⟨B + off_write_state_byte_array + 13, m⟩ [] ⟨ra, m.writeLE (2 * p.w) p.w ra⟩ := by
  have hw := hp.hw
  have hM := pow_ge2 p.w hw
  have h64 := mul_w_lt_pow p.w hw
  have hpl := hp.wsba
  have hend := hp.wsba_end
  have c13 := hpl 13 (by simp [code_write_state_byte_array]); have c14 := hpl 14 (by simp [code_write_state_byte_array])
  have c15 := hpl 15 (by simp [code_write_state_byte_array])
  simp only [code_write_state_byte_array, List.getElem_cons_succ, List.getElem_cons_zero] at c13 c14 c15
  generalize hPL : B + off_write_state_byte_array = PL at *
  have h5M : 5 * p.w < 256 ^ p.w := by omega
  have hsz := hr.sz
  have e13 : (F + (256 ^ p.w - p.w) % p.M) % p.M = F - p.w := by
    unfold Prog.M; exact add_neg_mod (by omega) (by omega) hFM
  have s13 := step_lwso (m := m) c13 (hr.ev_fp h5M) (ev_imm (256 ^ p.w - p.w))
    (by rw [e13]; omega) (by unfold Prog.M; omega) (by omega)
  rw [e13, hra] at s13
  have hraM : ra < 256 ^ p.w := by rw [← hra]; exact Mem.readLE_lt _ _ _
  have hr7 := hr.set0 ra hraM
  have s14 := step_j (m := m.writeLE (2 * p.w) p.w ra) c14 (hr7.ev_r0 h5M)
  have s15 := step_halt (m := m.writeLE (2 * p.w) p.w ra) c15
  have ret : Reach (sphinx p) ⟨PL + 14, m.writeLE (2 * p.w) p.w ra⟩ [] ⟨ra, m.writeLE (2 * p.w) p.w ra⟩ :=
    Reach.jump_taken (sys := sphinx p) s14 s15
  have := (Reach.of_next (sys := sphinx p) s13).trans ret
  simpa [evl] using this

/-- `write(byte[])` for an array in the state section: address in `[fp-3w]`, length in `[fp-2w]`. -/
theorem write_state_byte_array_spec (p : Prog) (B : Nat) (hp : Placed p B)
    (m : Mem) (F a k ra r0 r1 r2 : Nat)
    (hk : k < 256 ^ p.w / 2) (ha : a + k < 256 ^ p.w) (h5 : 5 * p.w ≤ a) (hasz : a + k ≤ m.size)
    (hF : 6 * p.w ≤ F) (hFM : F < 256 ^ p.w) (hFsz : F ≤ m.size)
    (hr : Regs p.w m F r0 r1 r2)
    (haddr : m.readLE (F - 3 * p.w) p.w = a) (hlen : m.readLE (F - 2 * p.w) p.w = k)
    (hra : m.readLE (F - p.w) p.w = ra) :
    ∃ m', Reach (sphinx p) ⟨B + off_write_state_byte_array, m⟩ (outs (bytesAt m a k)) ⟨ra, m'⟩ ∧
      Same p.w m m' 0 0 := by
  have hw := hp.hw
  have hM := pow_ge2 p.w hw
  have h64 := mul_w_lt_pow p.w hw
  have hpl := hp.wsba
  have hend := hp.wsba_end
  have loop := print_loop p B hp
  have done := wsba_done p B hp
  have c0 := hpl 0 (by simp [code_write_state_byte_array]); have c1 := hpl 1 (by simp [code_write_state_byte_array])
  have c2 := hpl 2 (by simp [code_write_state_byte_array]); have c3 := hpl 3 (by simp [code_write_state_byte_array])
  have c4 := hpl 4 (by simp [code_write_state_byte_array]); have c5 := hpl 5 (by simp [code_write_state_byte_array])
  have c6 := hpl 6 (by simp [code_write_state_byte_array])
  simp only [code_write_state_byte_array, List.getElem_cons_succ, List.getElem_cons_zero, Nat.add_zero] at c0 c1 c2 c3 c4 c5 c6
  generalize hPL : B + off_write_state_byte_array = PL at *
  have h5M : 5 * p.w < 256 ^ p.w := by omega
  have hsz := hr.sz
  have t0 : toS (256 ^ p.w) 0 = 0 := by simpa using toS_small (M := 256 ^ p.w) (x := 0) (by omega)
  have haM : a < 256 ^ p.w := by omega
  have hkM : k < 256 ^ p.w := by omega
  -- 0: r0 := [fp - 3w]
  have e0 : (F + (256 ^ p.w - 3 * p.w) % p.M) % p.M = F - 3 * p.w := by
    unfold Prog.M; exact add_neg_mod (by omega) (by omega) hFM
  have s0 := step_lwso (m := m) c0 (hr.ev_fp h5M) (ev_imm (256 ^ p.w - 3 * p.w))
    (by rw [e0]; omega) (by unfold Prog.M; omega) (by omega)
  rw [e0, haddr] at s0
  have hr0 := hr.set0 a haM
  -- 1: r1 := [fp - 2w]
  have e1 : (F + (256 ^ p.w - 2 * p.w) % p.M) % p.M = F - 2 * p.w := by
    unfold Prog.M; exact add_neg_mod (by omega) (by omega) hFM
  have s1 := step_lwso (m := m.writeLE (2 * p.w) p.w a) c1 (hr0.ev_fp h5M)
    (ev_imm (256 ^ p.w - 2 * p.w)) (by rw [e1]; simp; omega) (by unfold Prog.M; omega) (by simp; omega)
  rw [e1, Mem.readLE_writeLE_disj _ _ _ _ _ _ (by omega), hlen] at s1
  have hr1 := hr0.set1 k hkM
  generalize hm1 : ((m.writeLE (2 * p.w) p.w a).writeLE (3 * p.w) p.w k) = m1 at *
  have hsame1 : Same p.w m m1 0 0 := by
    refine ⟨by rw [← hm1]; simp, fun x hx _ => ?_⟩
    rw [← hm1, Mem.rd_writeLE_other _ _ _ _ _ (by omega), Mem.rd_writeLE_other _ _ _ _ _ (by omega)]
  have hra1 : m1.readLE (F - p.w) p.w = ra := by
    rw [← hra]; apply Mem.readLE_congr; intro x h1 _
    exact hsame1.2 x (by omega) (Or.inr (by omega))
  have hFsz1 : F ≤ m1.size := by rw [hsame1.1]; exact hFsz
  have pre : Reach (sphinx p) ⟨PL, m⟩ [] ⟨PL + 2, m1⟩ := by
    have := (Reach.of_next (sys := sphinx p) s0).trans (Reach.of_next (sys := sphinx p) s1)
    simpa [evl] using this
  -- 2/3: j loop ; hgt r1, 0
  have s2 := step_j (m := m1) c2 (ev_imm (PL + 6))
  rw [show (PL + 6) % p.M = PL + 6 from Nat.mod_eq_of_lt (by unfold Prog.M; omega)] at s2
  have s3 := step_hcond (m := m1) c3 (hr1.ev_r1 h5M) (ev_imm 0)
  simp only [haltCond, Nat.zero_mod, Prog.M, toS_small hk, t0] at s3
  by_cases hk0 : k = 0
  · -- empty array: fall through to `j done`
    subst hk0
    simp at s3
    have s6 := step_hcond (m := m1) c6 (hr1.ev_r1 h5M) (ev_imm 0)
    simp only [haltCond, Nat.zero_mod, Prog.M, t0] at s6
    simp at s6
    have fall : Reach (sphinx p) ⟨PL + 2, m1⟩ [] ⟨PL + 4, m1⟩ :=
      Reach.jump_fallthrough (sys := sphinx p) s2 s3 (fun _ => Halts.halt (sys := sphinx p) s6)
    have s4 := step_j (m := m1) c4 (ev_imm (PL + 13))
    rw [show (PL + 13) % p.M = PL + 13 from Nat.mod_eq_of_lt (by unfold Prog.M; omega)] at s4
    have s5 := step_halt (m := m1) c5
    have j4 : Reach (sphinx p) ⟨PL + 4, m1⟩ [] ⟨PL + 13, m1⟩ := Reach.jump_taken (sys := sphinx p) s4 s5
    have d := done m1 F ra a 0 r2 hF hFM hFsz1 hra1 hr1
    refine ⟨m1.writeLE (2 * p.w) p.w ra, ?_, ?_⟩
    · have := pre.trans (fall.trans (j4.trans d))
      simpa [outs, bytesAt] using this
    · exact hsame1.reg _ _ (by omega)
  · have : ((k : Int) > 0) := by omega
    simp only [this, decide_true, if_true] at s3
    have j2 : Reach (sphinx p) ⟨PL + 2, m1⟩ [] ⟨PL + 6, m1⟩ := Reach.jump_taken (sys := sphinx p) s2 s3
    obtain ⟨m', hreach, hsame⟩ := loop k m1 F a r2 ra (by omega) hk ha h5 (by rw [hsame1.1]; exact hasz)
      hF hFM hFsz1 hra1 hr1
    refine ⟨m', ?_, ?_⟩
    · have hb : bytesAt m1 a k = bytesAt m a k :=
        bytesAt_congr m m1 a k (fun x h1 _ => hsame1.2 x (by omega) (Or.inr (by omega)))
      have := pre.trans (j2.trans hreach)
      rw [hb] at this
      simpa using this
    · exact ⟨hsame.1.trans hsame1.1, fun x hx hxr => by rw [hsame.2 x hx hxr]; exact hsame1.2 x hx hxr⟩

/-! ## routines reading the const section -/
theorem Placed.wcba {p : Prog} {B : Nat} (hp : Placed p B) :
    PlacedAt p (B + off_write_const_byte_array) (code_write_const_byte_array p.w B) :=
  hp.routine (by simp [stdlibRoutineCode])

/-- the `done` tail of `write_string` (+14): load the return address and jump to it -/
theorem wstr_done (p : Prog) (B : Nat) (hp : Placed p B) (m : Mem) (F ra r0 r1 r2 : Nat)
    (hF : 6 * p.w ≤ F) (hFM : F < 256 ^ p.w) (hFsz : F ≤ m.size)
    (hra : m.readLE (F - p.w) p.w = ra) (hr : Regs p.w m F r0 r1 r2) :
    Reach (sphinx p) ⟨B + off_write_string + 14, m⟩ [] ⟨ra, m.writeLE (2 * p.w) p.w ra⟩ := by
  have hw := hp.hw
  have hM := pow_ge2 p.w hw
  have h64 := mul_w_lt_pow p.w hw
  have hpl := hp.wstr
  have hend := hp.wstr_end
  have c14 := hpl 14 (by simp [code_write_string]); have c15 := hpl 15 (by simp [code_write_string])
  have c16 := hpl 16 (by simp [code_write_string])
  simp only [code_write_string, List.getElem_cons_succ, List.getElem_cons_zero] at c14 c15 c16
  generalize hPL : B + off_write_string = PL at *
  have h5M : 5 * p.w < 256 ^ p.w := by omega
  have hsz := hr.sz
  have e14 : (F + (256 ^ p.w - p.w) % p.M) % p.M = F - p.w := by
    unfold Prog.M; exact add_neg_mod (by omega) (by omega) hFM
  have s14 := step_lwso (m := m) c14 (hr.ev_fp h5M) (ev_imm (256 ^ p.w - p.w))
    (by rw [e14]; omega) (by unfold Prog.M; omega) (by omega)
  rw [e14, hra] at s14
  have hraM : ra < 256 ^ p.w := by rw [← hra]; exact Mem.readLE_lt _ _ _
  have hr7 := hr.set0 ra hraM
  have s15 := step_j (m := m.writeLE (2 * p.w) p.w ra) c15 (hr7.ev_r0 h5M)
  have s16 := step_halt (m := m.writeLE (2 * p.w) p.w ra) c16
  have ret : Reach (sphinx p) ⟨PL + 15, m.writeLE (2 * p.w) p.w ra⟩ [] ⟨ra, m.writeLE (2 * p.w) p.w ra⟩ :=
    Reach.jump_taken (sys := sphinx p) s15 s16
  have := (Reach.of_next (sys := sphinx p) s14).trans ret
  simpa [evl] using this

/-- `write(string)`: pointer to the length-prefixed constant in `[fp-2w]`. -/
theorem write_string_spec (p : Prog) (B : Nat) (hp : Placed p B)
    (m : Mem) (F s k ra r0 r1 r2 : Nat)
    (hk : k < 256 ^ p.w / 2) (hs : s + p.w + k < 256 ^ p.w) (hssz : s + p.w + k ≤ p.const.size)
    (hF : 6 * p.w ≤ F) (hFM : F < 256 ^ p.w) (hFsz : F ≤ m.size)
    (hr : Regs p.w m F r0 r1 r2)
    (hptr : m.readLE (F - 2 * p.w) p.w = s) (hlen : p.const.readLE s p.w = k)
    (hra : m.readLE (F - p.w) p.w = ra) :
    ∃ m', Reach (sphinx p) ⟨B + off_write_string, m⟩ (outs (bytesAt p.const (s + p.w) k)) ⟨ra, m'⟩ ∧
      Same p.w m m' 0 0 := by
  have hw := hp.hw
  have hM := pow_ge2 p.w hw
  have h64 := mul_w_lt_pow p.w hw
  have hpl := hp.wstr
  have hend := hp.wstr_end
  have loop := print_loop_const p B hp
  have done := wstr_done p B hp
  have c0 := hpl 0 (by simp [code_write_string]); have c1 := hpl 1 (by simp [code_write_string])
  have c2 := hpl 2 (by simp [code_write_string]); have c3 := hpl 3 (by simp [code_write_string])
  have c4 := hpl 4 (by simp [code_write_string]); have c5 := hpl 5 (by simp [code_write_string])
  have c6 := hpl 6 (by simp [code_write_string]); have c7 := hpl 7 (by simp [code_write_string])
  simp only [code_write_string, List.getElem_cons_succ, List.getElem_cons_zero, Nat.add_zero] at c0 c1 c2 c3 c4 c5 c6 c7
  generalize hPL : B + off_write_string = PL at *
  have h5M : 5 * p.w < 256 ^ p.w := by omega
  have hsz := hr.sz
  have t0 : toS (256 ^ p.w) 0 = 0 := by simpa using toS_small (M := 256 ^ p.w) (x := 0) (by omega)
  have hsM : s < 256 ^ p.w := by omega
  have hkM : k < 256 ^ p.w := by omega
  -- 0: r0 := [fp - 2w]
  have e0 : (F + (256 ^ p.w - 2 * p.w) % p.M) % p.M = F - 2 * p.w := by
    unfold Prog.M; exact add_neg_mod (by omega) (by omega) hFM
  have s0 := step_lwso (m := m) c0 (hr.ev_fp h5M) (ev_imm (256 ^ p.w - 2 * p.w))
    (by rw [e0]; omega) (by unfold Prog.M; omega) (by omega)
  rw [e0, hptr] at s0
  have hr0 := hr.set0 s hsM
  -- 1: r1 := {r0}
  have s1 := step_lwc (m := m.writeLE (2 * p.w) p.w s) c1 (hr0.ev_r0 h5M) (by unfold Prog.M; omega) (by omega)
    (by unfold Prog.M; omega) (by simp; omega)
  rw [hlen] at s1
  have hr1 := hr0.set1 k hkM
  -- 2: r0 += w
  have s2 := step_alu (m := (m.writeLE (2 * p.w) p.w s).writeLE (3 * p.w) p.w k) c2 (hr1.ev_r0 h5M) (ev_imm p.w) alu_add
    (by unfold Prog.M; omega) (by simp; omega)
  have e2 : (s + p.w % p.M) % p.M = s + p.w := by
    unfold Prog.M
    rw [Nat.mod_eq_of_lt (by omega : p.w < 256 ^ p.w)]; exact Nat.mod_eq_of_lt (by omega)
  rw [e2] at s2
  have hr2 := hr1.set0 (s + p.w) (by omega)
  generalize hm1 : (((m.writeLE (2 * p.w) p.w s).writeLE (3 * p.w) p.w k).writeLE (2 * p.w) p.w (s + p.w)) = m1 at *
  have hsame1 : Same p.w m m1 0 0 := by
    refine ⟨by rw [← hm1]; simp, fun x hx _ => ?_⟩
    rw [← hm1, Mem.rd_writeLE_other _ _ _ _ _ (by omega), Mem.rd_writeLE_other _ _ _ _ _ (by omega),
      Mem.rd_writeLE_other _ _ _ _ _ (by omega)]
  have hra1 : m1.readLE (F - p.w) p.w = ra := by
    rw [← hra]; apply Mem.readLE_congr; intro x h1 _
    exact hsame1.2 x (by omega) (Or.inr (by omega))
  have hFsz1 : F ≤ m1.size := by rw [hsame1.1]; exact hFsz
  have pre : Reach (sphinx p) ⟨PL, m⟩ [] ⟨PL + 3, m1⟩ := by
    have := (Reach.of_next (sys := sphinx p) s0).trans ((Reach.of_next (sys := sphinx p) s1).trans
      (Reach.of_next (sys := sphinx p) s2))
    simpa [evl] using this
  -- 3/4: j loop ; hgt r1, 0
  have s3 := step_j (m := m1) c3 (ev_imm (PL + 7))
  rw [show (PL + 7) % p.M = PL + 7 from Nat.mod_eq_of_lt (by unfold Prog.M; omega)] at s3
  have s4 := step_hcond (m := m1) c4 (hr2.ev_r1 h5M) (ev_imm 0)
  simp only [haltCond, Nat.zero_mod, Prog.M, toS_small hk, t0] at s4
  by_cases hk0 : k = 0
  · subst hk0
    simp at s4
    have s7 := step_hcond (m := m1) c7 (hr2.ev_r1 h5M) (ev_imm 0)
    simp only [haltCond, Nat.zero_mod, Prog.M, t0] at s7
    simp at s7
    have fall : Reach (sphinx p) ⟨PL + 3, m1⟩ [] ⟨PL + 5, m1⟩ :=
      Reach.jump_fallthrough (sys := sphinx p) s3 s4 (fun _ => Halts.halt (sys := sphinx p) s7)
    have s5 := step_j (m := m1) c5 (ev_imm (PL + 14))
    rw [show (PL + 14) % p.M = PL + 14 from Nat.mod_eq_of_lt (by unfold Prog.M; omega)] at s5
    have s6 := step_halt (m := m1) c6
    have j5 : Reach (sphinx p) ⟨PL + 5, m1⟩ [] ⟨PL + 14, m1⟩ := Reach.jump_taken (sys := sphinx p) s5 s6
    have d := done m1 F ra (s + p.w) 0 r2 hF hFM hFsz1 hra1 hr2
    refine ⟨m1.writeLE (2 * p.w) p.w ra, ?_, ?_⟩
    · have := pre.trans (fall.trans (j5.trans d))
      simpa [outs, bytesAt] using this
    · exact hsame1.reg _ _ (by omega)
  · have : ((k : Int) > 0) := by omega
    simp only [this, decide_true, if_true] at s4
    have j3 : Reach (sphinx p) ⟨PL + 3, m1⟩ [] ⟨PL + 7, m1⟩ := Reach.jump_taken (sys := sphinx p) s3 s4
    obtain ⟨m', hreach, hsame⟩ := loop k m1 F (s + p.w) r2 ra (by omega) hk (by omega) (by omega)
      hF hFM hFsz1 hra1 hr2
    refine ⟨m', ?_, ?_⟩
    · have := pre.trans (j3.trans hreach)
      simpa using this
    · exact ⟨hsame.1.trans hsame1.1, fun x hx hxr => by rw [hsame.2 x hx hxr]; exact hsame1.2 x hx hxr⟩

/-- `write(const byte[])`: address (into the const section) in `[fp-3w]`, length in `[fp-2w]`. -/
theorem write_const_byte_array_spec (p : Prog) (B : Nat) (hp : Placed p B)
    (m : Mem) (F a k ra r0 r1 r2 : Nat)
    (hk : k < 256 ^ p.w / 2) (ha : a + k < 256 ^ p.w) (hasz : a + k ≤ p.const.size)
    (hF : 6 * p.w ≤ F) (hFM : F < 256 ^ p.w) (hFsz : F ≤ m.size)
    (hr : Regs p.w m F r0 r1 r2)
    (haddr : m.readLE (F - 3 * p.w) p.w = a) (hlen : m.readLE (F - 2 * p.w) p.w = k)
    (hra : m.readLE (F - p.w) p.w = ra) :
    ∃ m', Reach (sphinx p) ⟨B + off_write_const_byte_array, m⟩ (outs (bytesAt p.const a k)) ⟨ra, m'⟩ ∧
      Same p.w m m' 0 0 := by
  have hw := hp.hw
  have hM := pow_ge2 p.w hw
  have h64 := mul_w_lt_pow p.w hw
  have hpl := hp.wcba
  have hps := hp.wstr
  have hend := hp.wstr_end
  have loop := print_loop_const p B hp
  have done := wstr_done p B hp
  have c0 := hpl 0 (by simp [code_write_const_byte_array]); have c1 := hpl 1 (by simp [code_write_const_byte_array])
  have c2 := hpl 2 (by simp [code_write_const_byte_array]); have c3 := hpl 3 (by simp [code_write_const_byte_array])
  have c4 := hpl 4 (by simp [code_write_const_byte_array]); have c5 := hpl 5 (by simp [code_write_const_byte_array])
  have d7 := hps 7 (by simp [code_write_string])
  simp only [code_write_const_byte_array, code_write_string, List.getElem_cons_succ, List.getElem_cons_zero, Nat.add_zero] at c0 c1 c2 c3 c4 c5 d7
  have hoff : off_write_const_byte_array + 6 = off_write_string := by decide
  generalize hPC : B + off_write_const_byte_array = PC at *
  generalize hPL : B + off_write_string = PL at *
  have hPCL : PC + 6 = PL := by omega
  have h5M : 5 * p.w < 256 ^ p.w := by omega
  have hsz := hr.sz
  have t0 : toS (256 ^ p.w) 0 = 0 := by simpa using toS_small (M := 256 ^ p.w) (x := 0) (by omega)
  have haM : a < 256 ^ p.w := by omega
  have hkM : k < 256 ^ p.w := by omega
  have e0 : (F + (256 ^ p.w - 3 * p.w) % p.M) % p.M = F - 3 * p.w := by
    unfold Prog.M; exact add_neg_mod (by omega) (by omega) hFM
  have s0 := step_lwso (m := m) c0 (hr.ev_fp h5M) (ev_imm (256 ^ p.w - 3 * p.w))
    (by rw [e0]; omega) (by unfold Prog.M; omega) (by omega)
  rw [e0, haddr] at s0
  have hr0 := hr.set0 a haM
  have e1 : (F + (256 ^ p.w - 2 * p.w) % p.M) % p.M = F - 2 * p.w := by
    unfold Prog.M; exact add_neg_mod (by omega) (by omega) hFM
  have s1 := step_lwso (m := m.writeLE (2 * p.w) p.w a) c1 (hr0.ev_fp h5M)
    (ev_imm (256 ^ p.w - 2 * p.w)) (by rw [e1]; simp; omega) (by unfold Prog.M; omega) (by simp; omega)
  rw [e1, Mem.readLE_writeLE_disj _ _ _ _ _ _ (by omega), hlen] at s1
  have hr1 := hr0.set1 k hkM
  generalize hm1 : ((m.writeLE (2 * p.w) p.w a).writeLE (3 * p.w) p.w k) = m1 at *
  have hsame1 : Same p.w m m1 0 0 := by
    refine ⟨by rw [← hm1]; simp, fun x hx _ => ?_⟩
    rw [← hm1, Mem.rd_writeLE_other _ _ _ _ _ (by omega), Mem.rd_writeLE_other _ _ _ _ _ (by omega)]
  have hra1 : m1.readLE (F - p.w) p.w = ra := by
    rw [← hra]; apply Mem.readLE_congr; intro x h1 _
    exact hsame1.2 x (by omega) (Or.inr (by omega))
  have hFsz1 : F ≤ m1.size := by rw [hsame1.1]; exact hFsz
  have pre : Reach (sphinx p) ⟨PC, m⟩ [] ⟨PC + 2, m1⟩ := by
    have := (Reach.of_next (sys := sphinx p) s0).trans (Reach.of_next (sys := sphinx p) s1)
    simpa [evl] using this
  have s2 := step_j (m := m1) c2 (ev_imm (PL + 7))
  rw [show (PL + 7) % p.M = PL + 7 from Nat.mod_eq_of_lt (by unfold Prog.M; omega)] at s2
  have s3 := step_hcond (m := m1) c3 (hr1.ev_r1 h5M) (ev_imm 0)
  simp only [haltCond, Nat.zero_mod, Prog.M, toS_small hk, t0] at s3
  by_cases hk0 : k = 0
  · subst hk0
    simp at s3
    have s7 := step_hcond (m := m1) d7 (hr1.ev_r1 h5M) (ev_imm 0)
    simp only [haltCond, Nat.zero_mod, Prog.M, t0] at s7
    simp at s7
    have fall : Reach (sphinx p) ⟨PC + 2, m1⟩ [] ⟨PC + 4, m1⟩ :=
      Reach.jump_fallthrough (sys := sphinx p) s2 s3 (fun _ => Halts.halt (sys := sphinx p) s7)
    have s4 := step_j (m := m1) c4 (ev_imm (PL + 14))
    rw [show (PL + 14) % p.M = PL + 14 from Nat.mod_eq_of_lt (by unfold Prog.M; omega)] at s4
    have s5 := step_halt (m := m1) c5
    have j4 : Reach (sphinx p) ⟨PC + 4, m1⟩ [] ⟨PL + 14, m1⟩ := Reach.jump_taken (sys := sphinx p) s4 s5
    have d := done m1 F ra a 0 r2 hF hFM hFsz1 hra1 hr1
    refine ⟨m1.writeLE (2 * p.w) p.w ra, ?_, ?_⟩
    · have := pre.trans (fall.trans (j4.trans d))
      simpa [outs, bytesAt] using this
    · exact hsame1.reg _ _ (by omega)
  · have : ((k : Int) > 0) := by omega
    simp only [this, decide_true, if_true] at s3
    have j2 : Reach (sphinx p) ⟨PC + 2, m1⟩ [] ⟨PL + 7, m1⟩ := Reach.jump_taken (sys := sphinx p) s2 s3
    obtain ⟨m', hreach, hsame⟩ := loop k m1 F a r2 ra (by omega) hk ha hasz hF hFM hFsz1 hra1 hr1
    refine ⟨m', ?_, ?_⟩
    · have := pre.trans (j2.trans hreach)
      simpa using this
    · exact ⟨hsame.1.trans hsame1.1, fun x hx hxr => by rw [hsame.2 x hx hxr]; exact hsame1.2 x hx hxr⟩

/-! ## `write(bool)` -/
theorem Placed.wb {p : Prog} {B : Nat} (hp : Placed p B) :
    PlacedAt p (B + off_write_bool) (code_write_bool p.w B) := hp.routine (by simp [stdlibRoutineCode])
theorem Placed.wb_end {p : Prog} {B : Nat} (hp : Placed p B) : B + off_write_bool + 19 < 256 ^ p.w := by
  have := hp.hB; simp [off_write_bool, stdlibLength] at *; omega

/-- the text `write(bool)` prints -/
def boolText (b : Nat) : List Nat := if b = 0 then [102, 97, 108, 115, 101] else [116, 114, 117, 101]

/-- `write(bool)`: the one-byte argument sits directly below the return address.  Any non-zero
byte prints `true` (the compiler only ever passes 0 or 1, see `bool_norm_exact`). -/
theorem write_bool_spec (p : Prog) (B : Nat) (hp : Placed p B)
    (m : Mem) (F ra r0 r1 r2 : Nat)
    (hF : 6 * p.w ≤ F) (hFM : F < 256 ^ p.w) (hFsz : F ≤ m.size)
    (hr : Regs p.w m F r0 r1 r2) (hra : m.readLE (F - p.w) p.w = ra) :
    ∃ m', Reach (sphinx p) ⟨B + off_write_bool, m⟩ (outs (boolText (m.rd (F - p.w - 1)))) ⟨ra, m'⟩ ∧
      Same p.w m m' 0 0 := by
  have hw := hp.hw
  have hM := pow_ge2 p.w hw
  have h64 := mul_w_lt_pow p.w hw
  have hpl := hp.wb
  have hend := hp.wb_end
  have c0 := hpl 0 (by simp [code_write_bool]); have c1 := hpl 1 (by simp [code_write_bool])
  have c2 := hpl 2 (by simp [code_write_bool]); have c3 := hpl 3 (by simp [code_write_bool])
  have c4 := hpl 4 (by simp [code_write_bool]); have c5 := hpl 5 (by simp [code_write_bool])
  have c6 := hpl 6 (by simp [code_write_bool]); have c7 := hpl 7 (by simp [code_write_bool])
  have c8 := hpl 8 (by simp [code_write_bool]); have c9 := hpl 9 (by simp [code_write_bool])
  have c10 := hpl 10 (by simp [code_write_bool]); have c11 := hpl 11 (by simp [code_write_bool])
  have c12 := hpl 12 (by simp [code_write_bool]); have c13 := hpl 13 (by simp [code_write_bool])
  have c14 := hpl 14 (by simp [code_write_bool]); have c15 := hpl 15 (by simp [code_write_bool])
  have c16 := hpl 16 (by simp [code_write_bool]); have c17 := hpl 17 (by simp [code_write_bool])
  have c18 := hpl 18 (by simp [code_write_bool])
  simp only [code_write_bool, List.getElem_cons_succ, List.getElem_cons_zero, Nat.add_zero] at c0 c1 c2 c3 c4 c5 c6 c7 c8 c9 c10 c11 c12 c13 c14 c15 c16 c17 c18
  generalize hPL : B + off_write_bool = PL at *
  have h5M : 5 * p.w < 256 ^ p.w := by omega
  have hsz := hr.sz
  have t0 : toS (256 ^ p.w) 0 = 0 := by simpa using toS_small (M := 256 ^ p.w) (x := 0) (by omega)
  generalize hb : m.rd (F - p.w - 1) = b
  have hb256 : b < 256 := by rw [← hb]; exact Mem.rd_lt m _
  -- 0: r0 := byte [fp - (w+1)]
  have e0 : (F + (256 ^ p.w - (p.w + 1)) % p.M) % p.M = F - p.w - 1 := by
    unfold Prog.M
    have := add_neg_mod (M := 256 ^ p.w) (a := F) (b := p.w + 1) (by omega) (by omega) hFM
    omega
  have s0 := step_lbso (m := m) c0 (hr.ev_fp h5M) (ev_imm (256 ^ p.w - (p.w + 1)))
    (by rw [e0]; omega) (by unfold Prog.M; omega) (by omega)
  rw [e0, hb] at s0
  have hr0 := hr.set0 b (by omega)
  generalize hm1 : (m.writeLE (2 * p.w) p.w b) = m1 at *
  have hsame1 : Same p.w m m1 0 0 := by
    refine ⟨by rw [← hm1]; simp, fun x hx _ => ?_⟩
    rw [← hm1, Mem.rd_writeLE_other _ _ _ _ _ (by omega)]
  have hra1 : m1.readLE (F - p.w) p.w = ra := by
    rw [← hra]; apply Mem.readLE_congr; intro x h1 _
    exact hsame1.2 x (by omega) (Or.inr (by omega))
  have hFsz1 : F ≤ m1.size := by rw [hsame1.1]; exact hFsz
  have hraM : ra < 256 ^ p.w := by rw [← hra]; exact Mem.readLE_lt _ _ _
  have eRA : (F + (256 ^ p.w - p.w) % p.M) % p.M = F - p.w := by
    unfold Prog.M; exact add_neg_mod (by omega) (by omega) hFM
  have hr7 := hr0.set0 ra hraM
  -- 1/2: j is_true ; hne r0, 0
  have s1 := step_j (m := m1) c1 (ev_imm (PL + 11))
  rw [show (PL + 11) % p.M = PL + 11 from Nat.mod_eq_of_lt (by unfold Prog.M; omega)] at s1
  have s2 := step_hcond (m := m1) c2 (hr0.ev_r0 h5M) (ev_imm 0)
  simp only [haltCond, Nat.zero_mod] at s2
  have s11 := step_hcond (m := m1) c11 (hr0.ev_r0 h5M) (ev_imm 0)
  simp only [haltCond, Nat.zero_mod] at s11
  have y : ∀ (pc v : Nat), v < 256 → p.code[pc]? = some (.yld (.imm v)) →
      Reach (sphinx p) ⟨pc, m1⟩ [Ev.out v] ⟨pc + 1, m1⟩ := by
    intro pc v hv hc
    have s := step_yld (m := m1) hc (ev_imm v)
    have e : v % p.M % 256 = v := by
      unfold Prog.M; rw [Nat.mod_eq_of_lt (by omega : v < 256 ^ p.w)]; exact Nat.mod_eq_of_lt hv
    rw [e] at s
    simpa [evl] using Reach.of_next (sys := sphinx p) s
  by_cases hb0 : b = 0
  · -- false
    subst hb0
    simp at s2 s11
    have fall : Reach (sphinx p) ⟨PL + 1, m1⟩ [] ⟨PL + 3, m1⟩ :=
      Reach.jump_fallthrough (sys := sphinx p) s1 s2 (fun _ => Halts.halt (sys := sphinx p) s11)
    have txt := (y (PL + 3) 102 (by omega) c3).trans ((y (PL + 4) 97 (by omega) c4).trans
      ((y (PL + 5) 108 (by omega) c5).trans ((y (PL + 6) 115 (by omega) c6).trans (y (PL + 7) 101 (by omega) c7))))
    have s8 := step_lwso (m := m1) c8 (hr0.ev_fp h5M) (ev_imm (256 ^ p.w - p.w))
      (by rw [eRA]; omega) (by unfold Prog.M; omega) (by rw [hsame1.1]; omega)
    rw [eRA, hra1] at s8
    have s9 := step_j (m := m1.writeLE (2 * p.w) p.w ra) c9 (hr7.ev_r0 h5M)
    have s10 := step_halt (m := m1.writeLE (2 * p.w) p.w ra) c10
    have ret : Reach (sphinx p) ⟨PL + 9, m1.writeLE (2 * p.w) p.w ra⟩ [] ⟨ra, m1.writeLE (2 * p.w) p.w ra⟩ :=
      Reach.jump_taken (sys := sphinx p) s9 s10
    refine ⟨m1.writeLE (2 * p.w) p.w ra, ?_, hsame1.reg _ _ (by omega)⟩
    have := (Reach.of_next (sys := sphinx p) s0).trans (fall.trans (txt.trans ((Reach.of_next (sys := sphinx p) s8).trans ret)))
    simpa [evl, outs, boolText] using this
  · -- true
    simp [hb0] at s2 s11
    have j1 : Reach (sphinx p) ⟨PL + 1, m1⟩ [] ⟨PL + 11, m1⟩ := Reach.jump_taken (sys := sphinx p) s1 s2
    have txt := (y (PL + 12) 116 (by omega) c12).trans ((y (PL + 13) 114 (by omega) c13).trans
      ((y (PL + 14) 117 (by omega) c14).trans (y (PL + 15) 101 (by omega) c15)))
    have s16 := step_lwso (m := m1) c16 (hr0.ev_fp h5M) (ev_imm (256 ^ p.w - p.w))
      (by rw [eRA]; omega) (by unfold Prog.M; omega) (by rw [hsame1.1]; omega)
    rw [eRA, hra1] at s16
    have s17 := step_j (m := m1.writeLE (2 * p.w) p.w ra) c17 (hr7.ev_r0 h5M)
    have s18 := step_halt (m := m1.writeLE (2 * p.w) p.w ra) c18
    have ret : Reach (sphinx p) ⟨PL + 17, m1.writeLE (2 * p.w) p.w ra⟩ [] ⟨ra, m1.writeLE (2 * p.w) p.w ra⟩ :=
      Reach.jump_taken (sys := sphinx p) s17 s18
    refine ⟨m1.writeLE (2 * p.w) p.w ra, ?_, hsame1.reg _ _ (by omega)⟩
    have := (Reach.of_next (sys := sphinx p) s0).trans (j1.trans ((Reach.of_next (sys := sphinx p) s11).trans
      (txt.trans ((Reach.of_next (sys := sphinx p) s16).trans ret))))
    simpa [evl, outs, boolText, hb0] using this

end HidVerif.Sphinx
