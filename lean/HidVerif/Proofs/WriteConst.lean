import HidVerif.Proofs.WriteIntSpec
/-!
# The remaining routines of the write family: strings and const byte arrays (const section),
state byte arrays, booleans — every length, every `w ≥ 2`
-/
namespace HidVerif.Sphinx
open HidVerif HidVerif.PSys HidVerif.Gen

theorem Placed.wstr {p : Prog} {B : Nat} (hp : Placed p B) :
    PlacedAt p (B + off_write_string) (code_write_string p.w B) := hp.routine (by simp [stdlibRoutineCode])
theorem Placed.wstr_end {p : Prog} {B : Nat} (hp : Placed p B) : B + off_write_string + 17 < 256 ^ p.w := by
  have := hp.hB; simp [off_write_string, stdlibLength] at *; omega

/-! ### the const-section print loop: from `write_string_loop` (+7) to the return address -/
theorem print_loop_const (p : Prog) (B : Nat) (hp : Placed p B) :
    ∀ (k : Nat) (m : Mem) (F a r2 ra : Nat),
      0 < k → k < 256 ^ p.w / 2 → a + k < 256 ^ p.w → a + k ≤ p.const.size →
      6 * p.w ≤ F → F < 256 ^ p.w → F ≤ m.size → m.readLE (F - p.w) p.w = ra →
      Regs p.w m F a k r2 →
      ∃ m', Reach (sphinx p) ⟨B + off_write_string + 7, m⟩ (outs (bytesAt p.const a k)) ⟨ra, m'⟩ ∧
        Same p.w m m' 0 0 := by
  have hw := hp.hw
  have hM := pow_ge2 p.w hw
  have h64 := mul_w_lt_pow p.w hw
  have hpl := hp.wstr
  have hend := hp.wstr_end
  intro k
  induction k with
  | zero => intro m F a r2 ra h0; omega
  | succ k ih =>
    intro m F a r2 ra _ hk ha hasz hF hFM hFsz hra hr
    have c7 := hpl 7 (by simp [code_write_string]); have c8 := hpl 8 (by simp [code_write_string])
    have c9 := hpl 9 (by simp [code_write_string]); have c10 := hpl 10 (by simp [code_write_string])
    have c11 := hpl 11 (by simp [code_write_string]); have c12 := hpl 12 (by simp [code_write_string])
    have c13 := hpl 13 (by simp [code_write_string]); have c14 := hpl 14 (by simp [code_write_string])
    have c15 := hpl 15 (by simp [code_write_string]); have c16 := hpl 16 (by simp [code_write_string])
    simp only [code_write_string, List.getElem_cons_succ, List.getElem_cons_zero] at c7 c8 c9 c10 c11 c12 c13 c14 c15 c16
    generalize hPL : B + off_write_string = PL at *
    have h5M : 5 * p.w < 256 ^ p.w := by omega
    have hsz := hr.sz
    have t0 : toS (256 ^ p.w) 0 = 0 := by simpa using toS_small (M := 256 ^ p.w) (x := 0) (by omega)
    -- +6: hle r1, 0 does not fire
    have s7 := step_hcond (m := m) c7 (hr.ev_r1 h5M) (ev_imm 0)
    simp only [haltCond, Nat.zero_mod, Prog.M, toS_small hk, t0] at s7
    have : ¬ (((k + 1 : Nat) : Int) ≤ 0) := by omega
    simp only [this, decide_false, Bool.false_eq_true, if_false] at s7
    -- +7: r2 := byte at r0
    have s8 := step_lbc (m := m) c8 (hr.ev_r0 h5M) (by unfold Prog.M; omega) (by omega)
      (by unfold Prog.M; omega) (by omega)
    have hr1 := hr.set2 (p.const.rd a) (by have := Mem.rd_lt p.const a; omega)
    -- +8: yield r2
    have s9 := step_yld (m := m.writeLE (4 * p.w) p.w (p.const.rd a)) c9 (hr1.ev_r2 h5M)
    -- +9: r0 += 1
    have s10 := step_alu (m := m.writeLE (4 * p.w) p.w (p.const.rd a)) c10 (hr1.ev_r0 h5M) (ev_imm 1) alu_add
      (by unfold Prog.M; omega) (by simp; omega)
    have e10 : (a + 1 % p.M) % p.M = a + 1 := by
      unfold Prog.M
      rw [Nat.mod_eq_of_lt (by omega : 1 < 256 ^ p.w)]; exact Nat.mod_eq_of_lt (by omega)
    rw [e10] at s10
    have hr3 := hr1.set0 (a + 1) (by omega)
    -- +10: r1 -= 1
    have s11 := step_alu (m := (m.writeLE (4 * p.w) p.w (p.const.rd a)).writeLE (2 * p.w) p.w (a + 1)) c11
      (hr3.ev_r1 h5M) (ev_imm 1) alu_sub (by unfold Prog.M; omega) (by simp; omega)
    have e11 : (k + 1 + p.M - 1 % p.M % p.M) % p.M = k := by
      unfold Prog.M
      rw [Nat.mod_mod]
      have := sub_mod_small (M := 256 ^ p.w) (a := k + 1) (b := 1) (by omega) (by omega)
      simpa using this
    rw [e11] at s11
    have hr4 := hr3.set1 k (by omega)
    generalize hm4 : (((m.writeLE (4 * p.w) p.w (p.const.rd a)).writeLE (2 * p.w) p.w (a + 1)).writeLE (3 * p.w) p.w k) = m4 at *
    have hsame4 : Same p.w m m4 0 0 := by
      refine ⟨by rw [← hm4]; simp, fun x hx _ => ?_⟩
      rw [← hm4, Mem.rd_writeLE_other _ _ _ _ _ (by omega), Mem.rd_writeLE_other _ _ _ _ _ (by omega),
          Mem.rd_writeLE_other _ _ _ _ _ (by omega)]
    have hra4 : m4.readLE (F - p.w) p.w = ra := by
      rw [← hra]; apply Mem.readLE_congr; intro x h1 _; exact hsame4.2 x (by omega) (Or.inr (by omega))
    have body : Reach (sphinx p) ⟨PL + 7, m⟩ [Ev.out (p.const.rd a % 256)] ⟨PL + 12, m4⟩ := by
      have := (Reach.of_next (sys := sphinx p) s7).trans ((Reach.of_next (sys := sphinx p) s8).trans
        ((Reach.of_next (sys := sphinx p) s9).trans ((Reach.of_next (sys := sphinx p) s10).trans
        (Reach.of_next (sys := sphinx p) s11))))
      simpa [evl] using this
    -- +11: j loop ; +12: hgt r1, 0
    have s12 := step_j (m := m4) c12 (ev_imm (PL + 7))
    rw [show (PL + 7) % p.M = PL + 7 from Nat.mod_eq_of_lt (by unfold Prog.M; omega)] at s12
    have s13 := step_hcond (m := m4) c13 (hr4.ev_r1 h5M) (ev_imm 0)
    simp only [haltCond, Nat.zero_mod, Prog.M, toS_small (by omega : k < 256 ^ p.w / 2), t0] at s13
    by_cases hk0 : k = 0
    · -- last byte: fall through to done (+13), load RA, jump to it
      subst hk0
      simp at s13
      have s7' := step_hcond (m := m4) c7 (hr4.ev_r1 h5M) (ev_imm 0)
      simp only [haltCond, Nat.zero_mod, Prog.M, t0] at s7'
      simp at s7'
      have fall : Reach (sphinx p) ⟨PL + 12, m4⟩ [] ⟨PL + 14, m4⟩ :=
        Reach.jump_fallthrough (sys := sphinx p) s12 s13 (fun _ => Halts.halt (sys := sphinx p) s7')
      have hsz4 : m4.size = m.size := hsame4.1
      have e14 : (F + (256 ^ p.w - p.w) % p.M) % p.M = F - p.w := by
        unfold Prog.M; exact add_neg_mod (by omega) (by omega) hFM
      have s14 := step_lwso (m := m4) c14 (hr4.ev_fp h5M) (ev_imm (256 ^ p.w - p.w))
        (by rw [e14, hsz4]; omega) (by unfold Prog.M; omega) (by rw [hsz4]; omega)
      rw [e14, hra4] at s14
      have hraM : ra < 256 ^ p.w := by rw [← hra]; exact Mem.readLE_lt _ _ _
      have hr7 := hr4.set0 ra hraM
      have s15 := step_j (m := m4.writeLE (2 * p.w) p.w ra) c15 (hr7.ev_r0 h5M)
      have s16 := step_halt (m := m4.writeLE (2 * p.w) p.w ra) c16
      have ret : Reach (sphinx p) ⟨PL + 15, m4.writeLE (2 * p.w) p.w ra⟩ [] ⟨ra, m4.writeLE (2 * p.w) p.w ra⟩ :=
        Reach.jump_taken (sys := sphinx p) s15 s16
      refine ⟨m4.writeLE (2 * p.w) p.w ra, ?_, ?_⟩
      · have := body.trans (fall.trans ((Reach.of_next (sys := sphinx p) s14).trans ret))
        simpa [evl, outs, bytesAt] using this
      · exact hsame4.reg _ _ (by omega)
    · -- more bytes
      have : ((k : Int) > 0) := by omega
      simp only [this, decide_true, if_true] at s13
      have back : Reach (sphinx p) ⟨PL + 12, m4⟩ [] ⟨PL + 7, m4⟩ :=
        Reach.jump_taken (sys := sphinx p) s12 s13
      obtain ⟨m', hreach, hsame⟩ := ih m4 F (a + 1) (p.const.rd a) ra (by omega) (by omega) (by omega)
        (by omega) hF hFM (by rw [hsame4.1]; exact hFsz) hra4 hr4
      refine ⟨m', ?_, ?_⟩
      · have := body.trans (back.trans hreach)
        simpa [outs, bytesAt] using this
      · exact ⟨hsame.1.trans hsame4.1, fun x hx hxr => by rw [hsame.2 x hx hxr]; exact hsame4.2 x hx hxr⟩


end HidVerif.Sphinx
