import HidVerif.Hid.Parser
/-!
# The parser model never runs out of fuel (C10)

`Parse.parse` gives the recursive-descent functions `16 · (tokens + 4)` units of fuel, and every function
spends one unit per call.  Proved here, for every token list: that is enough — no function ever reports
`PErr.fuel`, so the result of `parse` is a tree or a located lexer/parser error, and it is the result for
every larger amount of fuel as well.  The argument is a potential function: a call on `n` remaining
tokens needs at most `16·n + c` units, where `c` depends on the function only; every call chain that does
not consume a token is shorter than 16, and every loop iteration consumes a token.

`NF F c p`: run on `ts` with `16·|ts| + c ≤ F`, the parser `p` does not fail for lack of fuel, and what
it leaves is no longer than `ts` (`NF1`: strictly shorter).
-/
namespace HidVerif.Hid.Parse
open HidVerif.Hid.Lex HidVerif.Gen

def NF {α : Type} (F c : Nat) (p : P α) : Prop :=
  ∀ ts, 16 * ts.length + c ≤ F → p ts ≠ .err .fuel ∧ ∀ a rest, p ts = .val a rest → rest.length ≤ ts.length

def NF1 {α : Type} (F c : Nat) (p : P α) : Prop :=
  ∀ ts, 16 * ts.length + c ≤ F → p ts ≠ .err .fuel ∧ ∀ a rest, p ts = .val a rest → rest.length < ts.length

variable {α β : Type} {F c : Nat}

theorem NF1.nf {p : P α} (h : NF1 F c p) : NF F c p :=
  fun ts hf => ⟨(h ts hf).1, fun a rest e => Nat.le_of_lt ((h ts hf).2 a rest e)⟩

theorem NF.mono {p : P α} {c' : Nat} (h : NF F c p) (hc : c ≤ c') : NF F c' p :=
  fun ts hf => h ts (by omega)

theorem NF1.mono {p : P α} {c' : Nat} (h : NF1 F c p) (hc : c ≤ c') : NF1 F c' p :=
  fun ts hf => h ts (by omega)

/-- a parser that got its fuel from a caller who spent one unit -/
theorem NF.succ {p : P α} (h : NF F c p) : NF (F + 1) (c + 1) p := fun ts hf => h ts (by omega)
theorem NF1.succ {p : P α} (h : NF1 F c p) : NF1 (F + 1) (c + 1) p := fun ts hf => h ts (by omega)

theorem nf_pure (a : α) : NF F c (pure a : P α) :=
  fun ts _ => ⟨(by intro h; cases h), fun b rest e => by injection e with _ h2; rw [← h2]; exact Nat.le_refl _⟩

theorem nf_fail : NF F c (fail : P α) := fun ts _ => ⟨(by intro h; cases h), fun b rest e => by cases e⟩

theorem nf_throw {e : PErr} (he : e ≠ .fuel) : NF F c (throw e : P α) :=
  fun ts _ => ⟨(by intro h; injection h with h; exact he h), fun b rest e => by cases e⟩

theorem nf_expected (en : Ending) : NF F c (expected en : P α) :=
  fun ts _ => ⟨(by intro h; injection h with h; cases h), fun b rest e => by cases e⟩

theorem nf1_tokenIf (en : Ending) (f : Lexeme → Option α) : NF1 F c (tokenIf en f) := by
  intro ts _
  unfold tokenIf
  cases ts with
  | nil => exact ⟨(by intro h; cases h), fun a rest e => by cases e⟩
  | cons l rest =>
    cases hf : f l with
    | none => exact ⟨(by simp [hf]), fun a r e => by simp [hf] at e⟩
    | some a =>
      simp only [hf]
      cases rest with
      | nil =>
        cases en with
        | error c => exact ⟨(by intro h; injection h with h; cases h), fun a r e => by cases e⟩
        | eof c => exact ⟨(by intro h; cases h), fun a r e => by injection e with _ h2; rw [← h2]; simp⟩
      | cons l2 r2 => exact ⟨(by intro h; cases h), fun a r e => by injection e with _ h2; rw [← h2]; simp⟩

theorem nf1_exact (en : Ending) (name : String) : NF1 F c (exact en name) := nf1_tokenIf en _

theorem bind_eq (p : P α) (g : α → P β) (ts : List Lexeme) :
    (p >>= g) ts = match p ts with | .val a mid => g a mid | .fail => .fail | .err e => .err e := rfl

theorem opt_eq (p : P α) (ts : List Lexeme) :
    opt p ts = match p ts with | .val a rest => .val (some a) rest | .fail => .val none ts | .err e => .err e := rfl

theorem nf_bind {p : P α} {g : α → P β} (hp : NF F c p) (hg : ∀ a, NF F c (g a)) : NF F c (p >>= g) := by
  intro ts hf
  have h := hp ts hf
  rw [bind_eq]
  cases hpt : p ts with
  | fail => exact ⟨(by intro h; cases h), fun b rest e => by cases e⟩
  | err e => exact ⟨(by intro h'; dsimp only at h'; injection h' with h'; exact h.1 (by rw [hpt, h'])), fun b rest e => by cases e⟩
  | val a mid =>
    have hl := h.2 a mid hpt
    have h2 := hg a mid (by omega)
    exact ⟨h2.1, fun b rest e => Nat.le_trans (h2.2 b rest e) hl⟩

/-- after a parser that consumes a token the rest may need 16 units more than the whole is given -/
theorem nf1_bind {p : P α} {g : α → P β} {c' : Nat} (hp : NF1 F c p) (hc : c' ≤ c + 16) (hg : ∀ a, NF F c' (g a)) :
    NF1 F c (p >>= g) := by
  intro ts hf
  have h := hp ts hf
  rw [bind_eq]
  cases hpt : p ts with
  | fail => exact ⟨(by intro h; cases h), fun b rest e => by cases e⟩
  | err e => exact ⟨(by intro h'; dsimp only at h'; injection h' with h'; exact h.1 (by rw [hpt, h'])), fun b rest e => by cases e⟩
  | val a mid =>
    have hl := h.2 a mid hpt
    have h2 := hg a mid (by omega)
    exact ⟨h2.1, fun b rest e => Nat.lt_of_le_of_lt (h2.2 b rest e) hl⟩

theorem nf_bind1 {p : P α} {g : α → P β} (hp : NF F c p) (hg : ∀ a, NF1 F c (g a)) : NF1 F c (p >>= g) := by
  intro ts hf
  have h := hp ts hf
  rw [bind_eq]
  cases hpt : p ts with
  | fail => exact ⟨(by intro h; cases h), fun b rest e => by cases e⟩
  | err e => exact ⟨(by intro h'; dsimp only at h'; injection h' with h'; exact h.1 (by rw [hpt, h'])), fun b rest e => by cases e⟩
  | val a mid =>
    have hl := h.2 a mid hpt
    have h2 := hg a mid (by omega)
    exact ⟨h2.1, fun b rest e => Nat.lt_of_lt_of_le (h2.2 b rest e) hl⟩

theorem nf_opt {p : P α} (hp : NF F c p) : NF F c (opt p) := by
  intro ts hf
  have h := hp ts hf
  unfold opt
  cases hpt : p ts with
  | fail => exact ⟨(by intro h; cases h), fun b rest e => by injection e with _ h2; rw [← h2]; exact Nat.le_refl _⟩
  | err e => exact ⟨(by intro h'; dsimp only at h'; injection h' with h'; exact h.1 (by rw [hpt, h'])), fun b rest e => by cases e⟩
  | val a mid => exact ⟨(by intro h; cases h), fun b rest e => by injection e with _ h2; rw [← h2]; exact h.2 a mid hpt⟩

theorem nf_expect (en : Ending) {p : P α} (hp : NF F c p) : NF F c (expect en p) := by
  intro ts hf
  have h := hp ts hf
  unfold expect
  cases hpt : p ts with
  | fail => exact ⟨(by intro h; injection h with h; cases h), fun b rest e => by cases e⟩
  | err e => exact ⟨(by intro h'; dsimp only at h'; injection h' with h'; exact h.1 (by rw [hpt, h'])), fun b rest e => by cases e⟩
  | val a mid => exact ⟨(by intro h; cases h), fun b rest e => by injection e with h1 h2; rw [← h2]; exact h.2 a mid hpt⟩

theorem nf1_expect (en : Ending) {p : P α} (hp : NF1 F c p) : NF1 F c (expect en p) := by
  intro ts hf
  have h := hp ts hf
  unfold expect
  cases hpt : p ts with
  | fail => exact ⟨(by intro h; injection h with h; cases h), fun b rest e => by cases e⟩
  | err e => exact ⟨(by intro h'; dsimp only at h'; injection h' with h'; exact h.1 (by rw [hpt, h'])), fun b rest e => by cases e⟩
  | val a mid => exact ⟨(by intro h; cases h), fun b rest e => by injection e with h1 h2; rw [← h2]; exact h.2 a mid hpt⟩

/-- an optional consuming parser followed by a continuation that, in the consumed case, may use 16 units more -/
theorem nf_opt_bind {p : P α} {g : Option α → P β} {c' : Nat} (hp : NF1 F c p) (hc : c' ≤ c + 16)
    (hs : ∀ a, NF F c' (g (some a))) (hn : NF F c (g none)) : NF F c (opt p >>= g) := by
  intro ts hf
  have h := hp ts hf
  rw [bind_eq, opt_eq]
  cases hpt : p ts with
  | fail => exact hn ts hf
  | err e => exact ⟨(by intro h'; dsimp only at h'; injection h' with h'; exact h.1 (by rw [hpt, h'])), fun b rest e => by cases e⟩
  | val a mid =>
    have hl := h.2 a mid hpt
    have h2 := hs a mid (by omega)
    exact ⟨h2.1, fun b rest e => Nat.le_trans (h2.2 b rest e) (Nat.le_of_lt hl)⟩

theorem nf_ite {b : Bool} {p q : P α} (hp : NF F c p) (hq : NF F c q) : NF F c (if b then p else q) := by
  cases b <;> simp <;> assumption

theorem nf_psDataTypeOpt (en : Ending) : NF F c (psDataTypeOpt en) := by
  intro ts hf
  have h := nf1_tokenIf (F := F) (c := c) en (fun l => match l.tok with
    | .enum n => (tyOfName n).map (fun t => (t, l))
    | _ => none) ts hf
  have e : psDataTypeOpt en ts = match dataTypeTok en ts with
      | .val (t, _) rest => if t == .empty then .val none rest else .val (some t) rest
      | .fail => .val none ts
      | .err e => .err e := rfl
  rw [e]
  have hd : dataTypeTok en ts = tokenIf en (fun l => match l.tok with
    | .enum n => (tyOfName n).map (fun t => (t, l))
    | _ => none) ts := rfl
  rw [hd]
  cases heq : tokenIf en (fun l => match l.tok with
    | .enum n => (tyOfName n).map (fun t => (t, l))
    | _ => none) ts with
  | val a rest =>
    obtain ⟨t, l⟩ := a
    have := h.2 _ _ heq
    dsimp only
    split
    · exact ⟨(by intro h; cases h), fun b r e => by injection e with _ h2; rw [← h2]; omega⟩
    · exact ⟨(by intro h; cases h), fun b r e => by injection e with _ h2; rw [← h2]; omega⟩
  | fail => exact ⟨(by intro h; cases h), fun b r e => by injection e with _ h2; rw [← h2]; exact Nat.le_refl _⟩
  | err e => exact ⟨(by intro h'; dsimp only at h'; injection h' with h'; exact h.1 (by rw [heq, h'])), fun b r e => by cases e⟩

theorem nf1_psIdent (en : Ending) (allowed : Flavor → Bool) : NF1 F c (psIdent en allowed) := by
  unfold psIdent
  refine nf1_bind (nf1_tokenIf en _) (Nat.le_add_right _ _) (fun a => ?_)
  obtain ⟨n, fl, l⟩ := a
  simp only
  split
  · exact nf_pure _
  · exact nf_throw (by intro h; cases h)

/-- "try `p`; on success continue with `k`, on failure go on with `q` from the same place" — the shape of the
alternatives the functions written with explicit matches go through -/
def alt (p : P α) (k : α → P β) (q : P β) : P β := fun ts =>
  match (opt p) ts with
  | .err e => .err e
  | .fail => .fail
  | .val (some a) rest => k a rest
  | .val none _ => q ts

theorem nf_alt {p : P α} {k : α → P β} {q : P β} {c' : Nat} (hp : NF1 F c p) (hc : c' ≤ c + 16)
    (hk : ∀ a, NF F c' (k a)) (hq : NF F c q) : NF F c (alt p k q) := by
  intro ts hf
  have h := hp ts hf
  unfold alt
  rw [opt_eq]
  cases hpt : p ts with
  | fail => exact hq ts hf
  | err e => exact ⟨(by intro h'; dsimp only at h'; injection h' with h'; exact h.1 (by rw [hpt, h'])), fun b rest e => by cases e⟩
  | val a mid =>
    have hl := h.2 a mid hpt
    have h2 := hk a mid (by omega)
    exact ⟨h2.1, fun b rest e => Nat.le_trans (h2.2 b rest e) (Nat.le_of_lt hl)⟩

/-- the same when `p` need not consume anything -/
theorem nf_alt0 {p : P α} {k : α → P β} {q : P β} (hp : NF F c p)
    (hk : ∀ a, NF F c (k a)) (hq : NF F c q) : NF F c (alt p k q) := by
  intro ts hf
  have h := hp ts hf
  unfold alt
  rw [opt_eq]
  cases hpt : p ts with
  | fail => exact hq ts hf
  | err e => exact ⟨(by intro h'; dsimp only at h'; injection h' with h'; exact h.1 (by rw [hpt, h'])), fun b rest e => by cases e⟩
  | val a mid =>
    have hl := h.2 a mid hpt
    have h2 := hk a mid (by omega)
    exact ⟨h2.1, fun b rest e => Nat.le_trans (h2.2 b rest e) hl⟩

/-! ## functions written with explicit matches: results instead of parsers -/
/-- a result that is not a fuel error and leaves at most `n` tokens -/
def Rok (n : Nat) (r : Res β) : Prop := r ≠ .err .fuel ∧ ∀ a rest, r = .val a rest → rest.length ≤ n

theorem NF.rok {p : P α} (h : NF F c p) (ts : List Lexeme) (hf : 16 * ts.length + c ≤ F) : Rok ts.length (p ts) := h ts hf
theorem Rok.mono {n n' : Nat} {r : Res β} (h : Rok n r) (hn : n ≤ n') : Rok n' r :=
  ⟨h.1, fun a rest e => Nat.le_trans (h.2 a rest e) hn⟩
theorem rok_err {n : Nat} {e : PErr} (he : e ≠ .fuel) : Rok n (.err e : Res β) :=
  ⟨(by intro h; injection h with h; exact he h), fun a rest h => by cases h⟩
theorem rok_fail {n : Nat} : Rok n (.fail : Res β) := ⟨(by intro h; cases h), fun a rest h => by cases h⟩
theorem rok_val {n : Nat} {a : β} {rest : List Lexeme} (h : rest.length ≤ n) : Rok n (.val a rest) :=
  ⟨(by intro h; cases h), fun b r e => by injection e with _ h2; rw [← h2]; exact h⟩

/-- one `match (opt p) ts with` stage: what the branches know -/
theorem opt_stage {p : P α} (hp : NF1 F c p) {ts : List Lexeme} (hf : 16 * ts.length + c ≤ F) :
    (∀ e, opt p ts = .err e → e ≠ .fuel) ∧ (∀ a rest, opt p ts = .val (some a) rest → rest.length < ts.length) := by
  have h := hp ts hf
  rw [opt_eq]
  cases hpt : p ts with
  | fail => exact ⟨fun e h => (by cases h), fun a rest h => (by cases h)⟩
  | err e => exact ⟨fun e' h' => (by injection h' with h'; subst h'; intro he; exact h.1 (by rw [hpt, he])), fun a rest h => (by cases h)⟩
  | val a mid => exact ⟨fun e h => (by cases h), fun b rest h' => (by injection h' with h1 h2; injection h1 with h1; rw [← h2]; exact h.2 a mid hpt)⟩

theorem opt_stage0 {p : P α} (hp : NF F c p) {ts : List Lexeme} (hf : 16 * ts.length + c ≤ F) :
    (∀ e, opt p ts = .err e → e ≠ .fuel) ∧ (∀ a rest, opt p ts = .val (some a) rest → rest.length ≤ ts.length) := by
  have h := hp ts hf
  rw [opt_eq]
  cases hpt : p ts with
  | fail => exact ⟨fun e h => (by cases h), fun a rest h => (by cases h)⟩
  | err e => exact ⟨fun e' h' => (by injection h' with h'; subst h'; intro he; exact h.1 (by rw [hpt, he])), fun a rest h => (by cases h)⟩
  | val a mid => exact ⟨fun e h => (by cases h), fun b rest h' => (by injection h' with h1 h2; injection h1 with h1; rw [← h2]; exact h.2 a mid hpt)⟩

/-! ## expressions -/
section expr
variable (en : Ending)

/-- what the induction on the fuel carries for the expression parsers: the constants are the lengths of the
longest call chains that consume no token -/
structure EIH (f : Nat) : Prop where
  cList : ∀ ctx, NF f 25 (commaList en f ctx)
  cRest : ∀ ctx acc, NF f 10 (commaRest en f ctx acc)
  fCall : ∀ ctx, NF f 13 (psFuncCall en f ctx)
  x0 : ∀ ctx, NF f 14 (psExpr0 en f ctx)
  post : ∀ ctx e, NF f 9 (psPostfix en f ctx e)
  x1 : ∀ ctx, NF f 15 (psExpr1 en f ctx)
  x2 : ∀ ctx, NF f 16 (psExpr2 en f ctx)
  x3 : ∀ ctx, NF f 17 (psExpr3 en f ctx)
  bLevel : ∀ ctx L, L ≤ 8 → NF f (18 + (L - 3)) (psBinLevel en f ctx L)
  bRest : ∀ ctx L e, L ≤ 8 → NF f 10 (psBinRest en f ctx L e)
  x : ∀ ctx, NF f 24 (psExpr en f ctx)

theorem nf_zero {p : P α} {c : Nat} (hc : 1 ≤ c) : NF 0 c p := fun ts h => by omega

theorem eih_zero : EIH en 0 :=
  ⟨fun _ => nf_zero (by omega), fun _ _ => nf_zero (by omega), fun _ => nf_zero (by omega), fun _ => nf_zero (by omega),
   fun _ _ => nf_zero (by omega), fun _ => nf_zero (by omega), fun _ => nf_zero (by omega), fun _ => nf_zero (by omega),
   fun _ _ _ => nf_zero (by omega), fun _ _ _ _ => nf_zero (by omega), fun _ => nf_zero (by omega)⟩

theorem eih_succ (f : Nat) (ih : EIH en f) : EIH en (f + 1) := by
  have hx : ∀ ctx, NF (f + 1) 25 (psExpr en f ctx) := fun ctx => (ih.x ctx).succ
  have hbl : ∀ ctx L, L ≤ 8 → NF (f + 1) (19 + (L - 3)) (psBinLevel en f ctx L) := fun ctx L hL => ((ih.bLevel ctx L hL).succ).mono (by omega)
  refine ⟨?_, ?_, ?_, ?_, ?_, ?_, ?_, ?_, ?_, ?_, ?_⟩
  · -- commaList
    intro ctx
    rw [commaList]
    refine nf_bind (nf_opt (hx ctx)) (fun first => ?_)
    cases first with
    | none => exact nf_pure _
    | some e => exact ((ih.cRest ctx [e]).succ).mono (by omega)
  · -- commaRest
    intro ctx acc
    rw [commaRest]
    refine nf_opt_bind (c' := 25) (nf1_exact en _) (by omega) (fun a => ?_) (nf_pure _)
    exact nf_bind (nf_expect en (hx ctx)) (fun e => ((ih.cRest ctx (e :: acc)).succ).mono (by omega))
  · -- psFuncCall
    intro ctx
    rw [psFuncCall]
    split
    · exact nf_fail
    · refine (nf1_bind (c' := 29) (nf1_psIdent en _) (by omega) (fun a => ?_)).nf
      obtain ⟨n, fl, l⟩ := a
      dsimp only
      refine (nf1_bind (c' := 45) (nf1_exact en _) (by omega) (fun _ => ?_)).nf
      refine nf_bind (((ih.cList ctx).succ).mono (by omega)) (fun args => ?_)
      exact nf_bind (nf_expect en (nf1_exact en _).nf) (fun _ => nf_pure _)
  · -- psExpr0
    intro ctx ts hf
    have hf' : 16 * ts.length + 14 ≤ f + 1 := hf
    show Rok ts.length (psExpr0 en (f + 1) ctx ts)
    rw [psExpr0]
    dsimp only
    split
    · rename_i e heq; exact rok_err ((opt_stage (c := 14) (nf1_exact en _) hf').1 e heq)
    · exact rok_fail
    · rename_i a rest heq
      have hl := (opt_stage (c := 14) (nf1_exact en _) hf').2 a rest heq
      refine Rok.mono (n := rest.length) ?_ (by omega)
      refine NF.rok (F := f + 1) (c := 30) ?_ rest (by omega)
      exact nf_bind (nf_expect en ((hx ctx).mono (by omega))) (fun e => nf_bind (nf_expect en (nf1_exact en _).nf) (fun _ => nf_pure _))
    · split
      · rename_i e heq; exact rok_err ((opt_stage (c := 14) (nf1_tokenIf en _) hf').1 e heq)
      · exact rok_fail
      · rename_i lit rest heq
        exact rok_val (Nat.le_of_lt ((opt_stage (c := 14) (nf1_tokenIf en _) hf').2 lit rest heq))
      · split
        · rename_i e heq; exact rok_err ((opt_stage (c := 14) (nf1_exact en _) hf').1 e heq)
        · exact rok_fail
        · rename_i a rest heq
          have hl := (opt_stage (c := 14) (nf1_exact en _) hf').2 a rest heq
          refine Rok.mono (n := rest.length) ?_ (by omega)
          refine NF.rok (F := f + 1) (c := 30) ?_ rest (by omega)
          exact nf_bind (((ih.cList ctx).succ).mono (by omega)) (fun items => nf_bind (nf_expect en (nf1_exact en _).nf) (fun _ => nf_pure _))
        · split
          · rename_i e heq; exact rok_err ((opt_stage0 (c := 14) ((ih.fCall ctx).succ) hf').1 e heq)
          · exact rok_fail
          · rename_i cc rest heq
            exact rok_val ((opt_stage0 (c := 14) ((ih.fCall ctx).succ) hf').2 cc rest heq)
          · refine NF.rok (F := f + 1) (c := 14) ?_ ts hf'
            refine (nf1_bind (c' := 14) (nf1_psIdent en _) (by omega) (fun a => ?_)).nf
            obtain ⟨n, fl, l⟩ := a
            exact nf_pure _
  · -- psPostfix
    intro ctx e
    rw [psPostfix]
    refine nf_opt_bind (c' := 25) (nf1_exact en _) (by omega) (fun _ => ?_) ?_
    · exact nf_bind (nf_expect en (nf1_tokenIf en _).nf) (fun _ => ((ih.post ctx _).succ).mono (by omega))
    · refine nf_opt_bind (c' := 25) (nf1_exact en _) (by omega) (fun _ => ?_) (nf_pure _)
      exact nf_bind (nf_expect en (hx ctx)) (fun i => nf_bind (nf_expect en (nf1_exact en _).nf) (fun _ => ((ih.post ctx _).succ).mono (by omega)))
  · -- psExpr1
    intro ctx
    rw [psExpr1]
    exact nf_bind ((ih.x0 ctx).succ) (fun e => ((ih.post ctx e).succ).mono (by omega))
  · -- psExpr2
    intro ctx
    rw [psExpr2]
    refine nf_opt_bind (c' := 32) (nf1_tokenIf en _) (by omega) (fun a => ?_) ((ih.x1 ctx).succ)
    obtain ⟨cls, l⟩ := a
    exact nf_bind (nf_expect en (((ih.x2 ctx).succ).mono (by omega))) (fun e => nf_pure _)
  · -- psExpr3
    intro ctx
    rw [psExpr3]
    refine nf_bind ((ih.x2 ctx).succ) (fun e => ?_)
    refine nf_opt_bind (c' := 17) (nf1_exact en _) (by omega) (fun _ => ?_) (nf_pure _)
    refine nf_bind (nf_psDataTypeOpt en) (fun t? => ?_)
    cases t? with
    | none => exact nf_expected en
    | some t =>
      refine nf_opt_bind (c' := 17) (nf1_exact en _) (by omega) (fun _ => ?_) (nf_pure _)
      exact nf_bind (nf_expect en (nf1_exact en _).nf) (fun _ => nf_pure _)
  · -- psBinLevel
    intro ctx L hL
    rw [psBinLevel]
    split
    · exact ((ih.x3 ctx).succ).mono (by omega)
    · rename_i hL3
      refine nf_bind (((ih.bLevel ctx (L - 1) (by omega)).succ).mono (by omega)) (fun e => ?_)
      exact ((ih.bRest ctx L e hL).succ).mono (by omega)
  · -- psBinRest
    intro ctx L e hL
    rw [psBinRest]
    refine nf_opt_bind (c' := 26) (nf1_tokenIf en _) (by omega) (fun a => ?_) (nf_pure _)
    obtain ⟨cls, l⟩ := a
    exact nf_bind (nf_expect en ((hbl ctx (L - 1) (by omega)).mono (by omega))) (fun r => ((ih.bRest ctx L _ hL).succ).mono (by omega))
  · -- psExpr
    intro ctx ts hf
    have hf' : 16 * ts.length + 24 ≤ f + 1 := hf
    have h8 := (hbl ctx 8 (by omega)).mono (c' := 24) (by omega) ts hf'
    show Rok ts.length (psExpr en (f + 1) ctx ts)
    rw [psExpr]
    dsimp only
    split
    · rename_i e heq; exact rok_err (fun he => h8.1 (by rw [heq, he]))
    · exact rok_fail
    · rename_i left rest heq
      have hl := h8.2 left rest heq
      have hfr : 16 * rest.length + 24 ≤ f + 1 := by omega
      split
      · rename_i e heq2; exact rok_err ((opt_stage (c := 24) (nf1_exact en _) hfr).1 e heq2)
      · exact rok_fail
      · exact rok_val hl
      · split
        · exact rok_err (by intro h; cases h)
        · refine NF.rok (F := f + 1) (c := 24) ?_ ts hf'
          have hn := (hbl (ctxSpec ctx) 8 (by omega)).mono (c' := 24) (by omega)
          exact nf_bind (nf_expect en hn) (fun l => nf_bind (nf_expect en (nf1_exact en _).nf) (fun _ => nf_bind (nf_expect en hn) (fun r => nf_pure _)))

theorem eih : ∀ f, EIH en f
  | 0 => eih_zero en
  | f + 1 => eih_succ en f (eih f)

theorem nf_psExpr (f ctx : Nat) : NF f 24 (psExpr en f ctx) := (eih en f).x ctx

/-! ## statements (they pass their fuel on unchanged) -/
theorem nf_psDecl : NF F c (psDecl en) := by
  unfold psDecl
  refine nf_bind (nf_opt (nf1_exact en _).nf) (fun cst => ?_)
  refine nf_bind (nf_psDataTypeOpt en) (fun dt => ?_)
  cases dt with
  | none => dsimp only; split; exact nf_expected en; exact nf_fail
  | some t =>
    dsimp only
    refine nf_bind (nf_opt (nf1_exact en _).nf) (fun br => ?_)
    cases br with
    | some _ =>
      dsimp only
      refine nf_bind (nf_expect en (nf1_exact en _).nf) (fun _ => ?_)
      refine nf_bind (nf_expect en (nf1_psIdent en _).nf) (fun a => ?_)
      obtain ⟨n, fl, l⟩ := a
      exact nf_pure _
    | none =>
      dsimp only
      refine nf_bind (nf_expect en (nf1_psIdent en _).nf) (fun a => ?_)
      obtain ⟨n, fl, l⟩ := a
      exact nf_pure _

theorem nf_psVdecl (f ctx : Nat) : NF f 24 (psVdecl en f ctx) := by
  unfold psVdecl
  refine nf_bind (nf_psDecl en) (fun a => ?_)
  obtain ⟨n, t, cc⟩ := a
  dsimp only
  refine nf_bind (nf_opt (nf1_exact en _).nf) (fun br => ?_)
  cases br with
  | some l =>
    dsimp only
    split
    · exact nf_throw (by intro h; cases h)
    · exact nf_bind (nf_expect en (nf_psExpr en f ctx)) (fun len => nf_bind (nf_expect en (nf1_exact en _).nf) (fun _ => nf_pure _))
  | none =>
    dsimp only
    exact nf_bind (nf_expect en (nf1_exact en _).nf) (fun _ => nf_bind (nf_expect en (nf_psExpr en f ctx)) (fun init => nf_pure _))

theorem nf_psAssignment (f ctx : Nat) : NF f 24 (psAssignment en f ctx) := by
  unfold psAssignment
  refine nf_bind (nf_psExpr en f ctx) (fun a => ?_)
  split
  · exact nf_fail
  · refine nf_bind (nf_opt (nf1_exact en _).nf) (fun eq => ?_)
    cases eq with
    | some _ => exact nf_bind (nf_expect en (nf_psExpr en f ctx)) (fun r => nf_pure _)
    | none =>
      dsimp only
      refine nf_bind (nf1_tokenIf en _).nf (fun x => ?_)
      obtain ⟨cls, l⟩ := x
      exact nf_bind (nf_expect en (nf_psExpr en f ctx)) (fun r => nf_pure _)

theorem nf_psPlainStmt (f ctx : Nat) (allowDecl : Bool) : NF f 24 (psPlainStmt en f ctx allowDecl) := by
  intro ts hf
  have hf' : 16 * ts.length + 24 ≤ f := hf
  show Rok ts.length (psPlainStmt en f ctx allowDecl ts)
  unfold psPlainStmt
  split
  · rename_i e heq; exact rok_err ((opt_stage0 (c := 24) (nf_psAssignment en f ctx) hf').1 e heq)
  · exact rok_fail
  · rename_i st rest heq; exact rok_val ((opt_stage0 (c := 24) (nf_psAssignment en f ctx) hf').2 st rest heq)
  · split
    · rename_i e heq; exact rok_err ((opt_stage0 (c := 24) (nf_psExpr en f ctx) hf').1 e heq)
    · exact rok_fail
    · rename_i ex rest heq; exact rok_val ((opt_stage0 (c := 24) (nf_psExpr en f ctx) hf').2 ex rest heq)
    · split
      · exact (nf_psVdecl en f ctx).rok ts hf'
      · exact rok_fail

theorem nf_psStmt (f ctx : Nat) : NF f 24 (psStmt en f ctx) := by
  intro ts hf
  have hf' : 16 * ts.length + 24 ≤ f := hf
  show Rok ts.length (psStmt en f ctx ts)
  unfold psStmt
  split
  · rename_i e heq; exact rok_err ((opt_stage (c := 24) (nf1_exact en _) hf').1 e heq)
  · exact rok_fail
  · rename_i l rest heq
    have hl := (opt_stage (c := 24) (nf1_exact en _) hf').2 l rest heq
    split
    · exact rok_err (by intro h; cases h)
    · exact rok_val (Nat.le_of_lt hl)
  · split
    · rename_i e heq; exact rok_err ((opt_stage (c := 24) (nf1_exact en _) hf').1 e heq)
    · exact rok_fail
    · rename_i l rest heq
      have hl := (opt_stage (c := 24) (nf1_exact en _) hf').2 l rest heq
      split
      · exact rok_err (by intro h; cases h)
      · exact rok_val (Nat.le_of_lt hl)
    · split
      · rename_i e heq; exact rok_err ((opt_stage (c := 24) (nf1_exact en _) hf').1 e heq)
      · exact rok_fail
      · rename_i l rest heq
        have hl := (opt_stage (c := 24) (nf1_exact en _) hf').2 l rest heq
        refine Rok.mono (n := rest.length) ?_ (by omega)
        refine NF.rok (F := f) (c := 24) ?_ rest (by omega)
        exact nf_bind (nf_opt (nf_psExpr en f ctx)) (fun e => nf_pure _)
      · exact (nf_psPlainStmt en f ctx true).rok ts hf'

/-! ## blocks -/
def Rok1 (n : Nat) (r : Res β) : Prop := r ≠ .err .fuel ∧ ∀ a rest, r = .val a rest → rest.length < n

theorem NF1.rok {p : P α} (h : NF1 F c p) (ts : List Lexeme) (hf : 16 * ts.length + c ≤ F) : Rok1 ts.length (p ts) := h ts hf
theorem Rok.lt {n n' : Nat} {r : Res β} (h : Rok n r) (hn : n < n') : Rok1 n' r :=
  ⟨h.1, fun a rest e => Nat.lt_of_le_of_lt (h.2 a rest e) hn⟩
theorem rok1_err {n : Nat} {e : PErr} (he : e ≠ .fuel) : Rok1 n (.err e : Res β) :=
  ⟨(by intro h; injection h with h; exact he h), fun a rest h => by cases h⟩
theorem rok1_fail {n : Nat} : Rok1 n (.fail : Res β) := ⟨(by intro h; cases h), fun a rest h => by cases h⟩

structure BIH (f : Nat) : Prop where
  cb : ∀ ctx, NF1 f 12 (psCodeBlock en f ctx)
  bi : ∀ ctx acc pre, NF f 26 (psBlockItems en f ctx acc pre)
  bl : ∀ ctx, NF1 f 13 (psBlock en f ctx)

theorem nf1_zero {p : P α} {c : Nat} (hc : 1 ≤ c) : NF1 0 c p := fun ts h => by omega

theorem bih_zero : BIH en 0 := ⟨fun _ => nf1_zero (by omega), fun _ _ _ => nf_zero (by omega), fun _ => nf1_zero (by omega)⟩

theorem bih_succ (f : Nat) (ih : BIH en f) : BIH en (f + 1) := by
  have hx : ∀ ctx, NF (f + 1) 25 (psExpr en f ctx) := fun ctx => (nf_psExpr en f ctx).succ
  have hbl : ∀ ctx, NF1 (f + 1) 14 (psBlock en f ctx) := fun ctx => (ih.bl ctx).succ
  have hloop : ∀ ctx acc pre, NF (f + 1) 42 (psBlockItems en f ctx acc pre) := fun ctx acc pre => ((ih.bi ctx acc pre).succ).mono (by omega)
  refine ⟨?_, ?_, ?_⟩
  · intro ctx
    rw [psCodeBlock]
    exact nf1_bind (c' := 28) (nf1_exact en _) (by omega) (fun _ => ((ih.bi ctx [] false).succ).mono (by omega))
  · intro ctx acc pre
    rw [psBlockItems]
    refine nf_bind (nf_opt (nf1_exact en _).nf) (fun close => ?_)
    cases close with
    | some _ => exact nf_pure _
    | none =>
      dsimp only
      refine nf_bind (nf_opt (((nf_psStmt en f ctx).succ).mono (by omega))) (fun st => ?_)
      cases st with
      | some s =>
        dsimp only
        exact (nf1_bind (c' := 42) (nf1_expect en (nf1_exact en _)) (by omega) (fun _ => hloop ctx _ _)).nf
      | none =>
        dsimp only
        refine nf_opt_bind (c' := 42) (nf1_exact en _) (by omega) (fun _ => hloop ctx _ _) ?_
        exact (nf1_bind (c' := 42) (nf1_expect en ((hbl ctx).mono (by omega))) (by omega) (fun b => hloop ctx _ _)).nf
  · intro ctx ts hf
    have hf' : 16 * ts.length + 13 ≤ f + 1 := hf
    show Rok1 ts.length (psBlock en (f + 1) ctx ts)
    rw [psBlock]
    dsimp only
    have hkw := opt_stage (F := f + 1) (c := 13) (nf1_tokenIf en (fun l => match l.tok with
        | .enum "BlockToken.IF" => some "if" | .enum "BlockToken.WHILE" => some "while" | .enum "BlockToken.FOR" => some "for"
        | .enum "BlockToken.TRY" => some "try" | .enum "BlockToken.PREEMPT" => some "preempt" | _ => none)) hf'
    have hb : ∀ c', NF (f + 1) 29 (expect en (psBlock en f c')) := fun c' => nf_expect en (((hbl c').nf).mono (by omega))
    have hxe : ∀ c', NF (f + 1) 29 (expect en (psExpr en f c')) := fun c' => nf_expect en ((hx c').mono (by omega))
    have htk : ∀ nm, NF (f + 1) 29 (expect en (exact en nm)) := fun nm => nf_expect en (nf1_exact en nm).nf
    split
    · rename_i e heq; exact rok1_err (hkw.1 e heq)
    · exact rok1_fail
    · exact ((ih.cb ctx).succ).rok ts hf'
    all_goals
      first
        | (rename_i rest heq
           have hl := hkw.2 _ rest heq
           refine Rok.lt (n := rest.length) ?_ hl)
        | (rename_i rest _ _ _ _ heq
           have hl := hkw.2 _ rest heq
           refine Rok.lt (n := rest.length) ?_ hl)
    · refine NF.rok (F := f + 1) (c := 29) ?_ rest (by omega)
      refine nf_bind (htk _) (fun _ => nf_bind (hxe ctx) (fun c => nf_bind (htk _) (fun _ => nf_bind (hb _) (fun body => ?_))))
      refine nf_bind (nf_opt (nf1_exact en _).nf) (fun el => ?_)
      cases el with
      | some _ => exact nf_bind (hb _) (fun e => nf_pure _)
      | none => exact nf_pure _
    · refine NF.rok (F := f + 1) (c := 29) ?_ rest (by omega)
      exact nf_bind (htk _) (fun _ => nf_bind (hxe ctx) (fun c => nf_bind (htk _) (fun _ => nf_bind (hb _) (fun body => nf_pure _))))
    · refine NF.rok (F := f + 1) (c := 29) ?_ rest (by omega)
      have hps : ∀ b, NF (f + 1) 29 (opt (psPlainStmt en f ctx b)) := fun b => nf_opt (((nf_psPlainStmt en f ctx b).succ).mono (by omega))
      refine nf_bind (htk _) (fun _ => nf_bind (hps true) (fun init => nf_bind (htk _) (fun _ => ?_)))
      refine nf_bind (nf_opt ((hx ctx).mono (by omega))) (fun c => nf_bind (htk _) (fun _ => nf_bind (hps false) (fun cont => ?_)))
      exact nf_bind (htk _) (fun _ => nf_bind (hb _) (fun body => nf_pure _))
    · split
      · exact rok_err (by intro h; cases h)
      · refine NF.rok (F := f + 1) (c := 29) ?_ rest (by omega)
        exact nf_bind (hb _) (fun body => nf_bind (nf_expect en (nf1_tokenIf en _).nf) (fun k => nf_bind (hb _) (fun h => nf_pure _)))
    · split
      · exact rok_err (by intro h; cases h)
      · refine NF.rok (F := f + 1) (c := 29) ?_ rest (by omega)
        exact nf_bind (hb _) (fun body => nf_pure _)

theorem bih : ∀ f, BIH en f
  | 0 => bih_zero en
  | f + 1 => bih_succ en f (bih f)

/-! ## functions and programs -/
theorem nf_more : ∀ (f : Nat) (acc : List (List CP × Ty × Bool)), NF f 1 (psParams.more en f acc)
  | 0, _ => nf_zero (by omega)
  | f + 1, acc => by
    rw [psParams.more]
    refine nf_opt_bind (c' := 17) (nf1_exact en _) (by omega) (fun _ => ?_) (nf_pure _)
    exact nf_bind (nf_expect en (nf_psDecl en)) (fun q => ((nf_more f (q :: acc)).succ).mono (by omega))

theorem nf_psParams : ∀ (f : Nat), NF f 2 (psParams en f)
  | 0 => nf_zero (by omega)
  | f + 1 => by
    rw [psParams]
    refine nf_bind (nf_opt (nf_psDecl en)) (fun first => ?_)
    cases first with
    | none => exact nf_pure _
    | some p => exact (nf_more en f [p]).succ

theorem nf1_psFunc (f : Nat) : NF1 f 12 (psFunc en f) := by
  unfold psFunc
  refine nf1_bind (c' := 12) (nf1_tokenIf en _) (by omega) (fun a => ?_)
  obtain ⟨rt, l⟩ := a
  dsimp only
  refine nf_bind (nf1_tokenIf en _).nf (fun a => ?_)
  obtain ⟨n, fl⟩ := a
  dsimp only
  refine nf_bind (nf1_exact en _).nf (fun _ => ?_)
  refine nf_bind ((nf_psParams en f).mono (by omega)) (fun ps => ?_)
  refine nf_bind (nf_expect en (nf1_exact en _).nf) (fun _ => ?_)
  exact nf_bind (nf_expect en ((bih en f).cb _).nf) (fun body => nf_pure _)

def NoFail (p : P α) : Prop := ∀ ts, p ts ≠ .fail

theorem nofail_expect {p : P α} : NoFail (expect en p) := by
  intro ts h
  unfold expect at h
  split at h
  · cases h
  · rename_i r hr
    rw [h] at hr
    exact hr rfl

theorem nofail_pure (a : α) : NoFail (pure a : P α) := fun ts h => by cases h

theorem nofail_bind {p : P α} {g : α → P β} (hp : NoFail p) (hg : ∀ a, NoFail (g a)) : NoFail (p >>= g) := by
  intro ts h
  rw [bind_eq] at h
  cases hpt : p ts with
  | val a mid => rw [hpt] at h; exact hg a mid h
  | fail => exact hp ts hpt
  | err e => rw [hpt] at h; cases h

/-- the program loop: `k` bounds the number of top-level items, each of which consumes a token -/
theorem psProgram_ok (fuel : Nat) : ∀ (k : Nat) (vs : List PStmt) (fs : List PFunc) (ts : List Lexeme),
    ts.length < k → 16 * ts.length + 24 ≤ fuel →
    psProgram en fuel k vs fs ts ≠ .err .fuel ∧ psProgram en fuel k vs fs ts ≠ .fail := by
  intro k
  induction k with
  | zero => intro vs fs ts h; omega
  | succ k ih =>
    intro vs fs ts hk hf
    rw [psProgram]
    cases ts with
    | nil => exact ⟨(by intro h; cases h), (by intro h; cases h)⟩
    | cons t rest0 =>
      dsimp only
      have hfunc := opt_stage (F := fuel) (c := 24) ((nf1_psFunc en fuel).mono (by omega)) hf
      split
      · rename_i e heq; exact ⟨(by intro h; injection h with h; exact hfunc.1 e heq h), (by intro h; cases h)⟩
      · rename_i heq
        exfalso
        rw [opt_eq] at heq
        split at heq <;> cases heq
      · rename_i fn rest heq
        have hl := hfunc.2 fn rest heq
        exact ih vs (fn :: fs) rest (by omega) (by omega)
      · have hsemi := opt_stage (F := fuel) (c := 24) (nf1_exact en "SepToken.SEMICOLON") hf
        split
        · rename_i e heq; exact ⟨(by intro h; injection h with h; exact hsemi.1 e heq h), (by intro h; cases h)⟩
        · rename_i heq
          exfalso
          rw [opt_eq] at heq
          split at heq <;> cases heq
        · rename_i l rest heq
          have hl := hsemi.2 l rest heq
          exact ih vs fs rest (by omega) (by omega)
        · have hv : NF1 fuel 24 (do let v ← expect en (psVdecl en fuel 0)
                                     let _ ← expect en (exact en "SepToken.SEMICOLON")
                                     pure v) :=
            nf_bind1 (nf_expect en (nf_psVdecl en fuel 0)) (fun v => nf1_bind (c' := 24) (nf1_expect en (nf1_exact en _)) (by omega) (fun _ => nf_pure _))
          have hvr := hv (t :: rest0) hf
          split
          · rename_i v rest heq
            have hl := hvr.2 v rest heq
            exact ih (v :: vs) fs rest (by omega) (by omega)
          · rename_i heq
            exact absurd heq (nofail_bind (nofail_expect en) (fun v => nofail_bind (nofail_expect en) (fun _ => nofail_pure _)) _)
          · rename_i e heq; exact ⟨(by intro h; injection h with h; exact hvr.1 (by rw [heq, h])), (by intro h; cases h)⟩

/-- **the parser model never runs out of fuel**: whatever the source, `parse` returns a tree or a located
lexer/parser error -/
theorem parse_never_out_of_fuel (src : List Line) : parse src ≠ .error .fuel := by
  unfold parse
  rcases hl : lex src with ⟨toks, ending⟩
  dsimp only
  split
  · intro h; cases h
  · have h := psProgram_ok ending (16 * (toks.length + 4)) (toks.length + 2) [] [] toks (by omega) (by omega)
    split
    · intro h'; cases h'
    · rename_i heq; exact absurd heq h.2
    · rename_i e heq; intro h'; injection h' with h'; exact h.1 (by rw [heq, h'])

end expr

end HidVerif.Hid.Parse
