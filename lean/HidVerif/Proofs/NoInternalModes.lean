import HidVerif.Proofs.NoInternal
/-!
# The exit modes of a function body: no `BREAK`, and `DEFEAT` only in defeat functions
-/
namespace HidVerif.Hid.TC
open HidVerif.Hid HidVerif.Hid.Lex HidVerif.Hid.Parse HidVerif.Gen

/-! ## call nodes of a flavour: the typed tree has none the source does not have -/
mutual
def hasFl (fl : Flavor) : TE → Bool
  | .call _ fl' args _ _ => fl' == fl || hasFls fl args
  | .cast _ e => hasFl fl e
  | .index s i => hasFl fl s || hasFl fl i
  | .len s => hasFl fl s
  | .arrlit vals _ _ => hasFls fl vals
  | .arrinit _ l => hasFl fl l
  | .arith _ l r _ => hasFl fl l || hasFl fl r
  | .unarith _ e _ => hasFl fl e
  | .boolop _ l r => hasFl fl l || hasFl fl r
  | .notop e => hasFl fl e
  | .spec l r => hasFl fl l || hasFl fl r
  | _ => false
def hasFls (fl : Flavor) : List TE → Bool
  | [] => false
  | e :: rest => hasFl fl e || hasFls fl rest
end

mutual
def callFl (fl : Flavor) : PExpr → Bool
  | .call _ fl' args => fl' == fl || callFls fl args
  | .arrlit items => callFls fl items
  | .len e => callFl fl e
  | .index e i => callFl fl e || callFl fl i
  | .un _ e => callFl fl e
  | .is_ e _ => callFl fl e
  | .bin _ l r => callFl fl l || callFl fl r
  | .spec l r => callFl fl l || callFl fl r
  | _ => false
def callFls (fl : Flavor) : List PExpr → Bool
  | [] => false
  | e :: rest => callFl fl e || callFls fl rest
end

theorem genericCast_fl {fl : Flavor} {e : TE} {t new : Ty} {e' : TE} (hn : hasFl fl e = false)
    (h : genericCast e t new = .ok e') : hasFl fl e' = false := by
  unfold genericCast at h
  split at h
  · have := pure_ok h; subst this; exact hn
  · split at h <;>
      first
      | (exact (throw_ok h).elim)
      | (have := pure_ok h; subst this; simp [hasFl, hn])
      | (split at h
         · have := pure_ok h; subst this; simp [hasFl, hn]
         · exact (throw_ok h).elim)

mutual
theorem cast_fl (fl : Flavor) : ∀ (e : TE) (new : Ty) (impl : Bool) (e' : TE), hasFl fl e = false →
    cast e new impl = .ok e' → hasFl fl e' = false
  | .intv v b sh, new, impl, e', hn, h => by
    unfold cast at h
    split at h
    · have := pure_ok h; subst this; simp [hasFl]
    · have := pure_ok h; subst this; simp [hasFl]
    · have := pure_ok h; subst this; simp [hasFl]
    · exact genericCast_fl hn h
  | .boolv b, new, impl, e', hn, h => by
    unfold cast at h
    split at h
    · have := pure_ok h; subst this; simp [hasFl]
    · have := pure_ok h; subst this; simp [hasFl]
    · exact genericCast_fl hn h
  | .strv bs, new, impl, e', hn, h => by
    unfold cast at h
    split at h
    · have := pure_ok h; subst this; simp [hasFl]
    · exact genericCast_fl hn h
  | .arrlit vals ty lk, new, impl, e', hn, h => by
    unfold cast at h
    split at h
    · obtain ⟨vs, hvs, h⟩ := bind_ok h
      have := pure_ok h; subst this
      simp only [hasFl] at hn ⊢
      exact castAll_fl fl vals _ vs hn hvs
    · exact genericCast_fl hn h
  | .cast k inner, new, impl, e', hn, h => by
    cases k with
    | vol =>
      unfold cast at h
      simp only [hasFl] at hn
      exact cast_fl fl inner new false e' hn h
    | b2i => unfold cast at h; exact genericCast_fl hn h
    | i2b => unfold cast at h; exact genericCast_fl hn h
    | i2bool => unfold cast at h; exact genericCast_fl hn h
    | bool2b => unfold cast at h; exact genericCast_fl hn h
    | s2a => unfold cast at h; exact genericCast_fl hn h
  | .var n t c, new, impl, e', hn, h => by unfold cast at h; exact genericCast_fl hn h
  | .index a i, new, impl, e', hn, h => by unfold cast at h; exact genericCast_fl hn h
  | .len a, new, impl, e', hn, h => by unfold cast at h; exact genericCast_fl hn h
  | .call n fl' args ptys r, new, impl, e', hn, h => by unfold cast at h; exact genericCast_fl hn h
  | .arrinit el l, new, impl, e', hn, h => by unfold cast at h; exact genericCast_fl hn h
  | .arith op l r sh, new, impl, e', hn, h => by unfold cast at h; exact genericCast_fl hn h
  | .unarith op a sh, new, impl, e', hn, h => by unfold cast at h; exact genericCast_fl hn h
  | .boolop op l r, new, impl, e', hn, h => by unfold cast at h; exact genericCast_fl hn h
  | .notop a, new, impl, e', hn, h => by unfold cast at h; exact genericCast_fl hn h
  | .spec l r, new, impl, e', hn, h => by unfold cast at h; exact genericCast_fl hn h
  | .param t, new, impl, e', hn, h => by unfold cast at h; exact genericCast_fl hn h

theorem castAll_fl (fl : Flavor) : ∀ (es : List TE) (new : Ty) (es' : List TE), hasFls fl es = false →
    castAll es new = .ok es' → hasFls fl es' = false
  | [], new, es', _, h => by
    unfold castAll at h
    have := pure_ok h; subst this; simp [hasFls]
  | e :: rest, new, es', hn, h => by
    unfold castAll at h
    obtain ⟨c, hc, h⟩ := bind_ok h
    obtain ⟨cs, hcs, h⟩ := bind_ok h
    have := pure_ok h; subst this
    simp only [hasFls, Bool.or_eq_false_iff] at hn ⊢
    exact ⟨cast_fl fl e new false c hn.1 hc, castAll_fl fl rest new cs hn.2 hcs⟩
end

theorem coerce_fl {fl : Flavor} {e : TE} {new : Ty} {e' : TE} (hn : hasFl fl e = false) (h : coerce e new = .ok e') :
    hasFl fl e' = false := by
  unfold coerce at h
  split at h
  · split at h <;> exact cast_fl fl _ _ _ _ hn h
  · exact (throw_ok h).elim

theorem coerceArgs_fl (fl : Flavor) : ∀ (as : List TE) (ts : List Ty) (cs : List TE), hasFls fl as = false →
    coerceArgs as ts = .ok cs → hasFls fl cs = false
  | [], _, cs, _, h => by
    unfold coerceArgs at h
    have := pure_ok h; subst this; simp [hasFls]
  | _ :: _, [], cs, _, h => by
    unfold coerceArgs at h
    have := pure_ok h; subst this; simp [hasFls]
  | a :: as, t :: ts, cs, hn, h => by
    unfold coerceArgs at h
    obtain ⟨c, hc, h⟩ := bind_ok h
    obtain ⟨cs', hcs, h⟩ := bind_ok h
    have := pure_ok h; subst this
    simp only [hasFls, Bool.or_eq_false_iff] at hn ⊢
    exact ⟨coerce_fl hn.1 hc, coerceArgs_fl fl as ts cs' hn.2 hcs⟩

theorem pickElemTy_fl (fl : Flavor) (vs : List TE) (hn : hasFls fl vs = false) : ∀ (tys : List Ty) (te : TE),
    pickElemTy vs tys = .ok te → hasFl fl te = false
  | [], te, h => by unfold pickElemTy at h; exact (throw_ok h).elim
  | t :: rest, te, h => by
    unfold pickElemTy at h
    split at h
    · exact (throw_ok h).elim
    · split at h
      · exact (throw_ok h).elim
      · split at h
        · have := pure_ok h; subst this; simpa [hasFl] using hn
        · exact pickElemTy_fl fl vs hn rest te h

theorem fold_fl {fl : Flavor} {a b : TE} {op : BinOp} {te : TE} (ha : hasFl fl a = false) (hb : hasFl fl b = false)
    (h : (if (isPrimitive a && isPrimitive b) = true then
            (match primData a, primData b with
             | some x, some y => (pure (TE.boolv (cmpOperate op x y)) : R TE)
             | _, _ => pure (.boolop op a b))
          else pure (.boolop op a b)) = .ok te) : hasFl fl te = false := by
  split at h
  · split at h
    · have := pure_ok h; subst this; simp [hasFl]
    · have := pure_ok h; subst this; simp [hasFl, ha, hb]
  · have := pure_ok h; subst this; simp [hasFl, ha, hb]

mutual
theorem tcExpr_fl (fl : Flavor) (env : Env) : ∀ (e : PExpr) (te : TE), callFl fl e = false → tcExpr env e = .ok te →
    hasFl fl te = false
  | .int v, te, _, h => by unfold tcExpr at h; have := pure_ok h; subst this; simp [hasFl]
  | .char b, te, _, h => by unfold tcExpr at h; have := pure_ok h; subst this; simp [hasFl]
  | .str bs, te, _, h => by unfold tcExpr at h; have := pure_ok h; subst this; simp [hasFl]
  | .bool b, te, _, h => by unfold tcExpr at h; have := pure_ok h; subst this; simp [hasFl]
  | .var n, te, _, h => by
    unfold tcExpr at h
    split at h
    · exact (throw_ok h).elim
    · rename_i d hd
      split at h
      · rename_i hc
        have := pure_ok h; subst this
        have hp : isPrimitive d.init = true := by simp at hc; exact hc.2
        cases hi : d.init <;> simp_all [isPrimitive, atSpan, hasFl]
      · have := pure_ok h; subst this; simp [hasFl]
  | .index s i, te, hp, h => by
    simp only [callFl, Bool.or_eq_false_iff] at hp
    unfold tcExpr at h
    obtain ⟨src, hsrc, h⟩ := bind_ok h
    have hs := tcExpr_fl fl env s src hp.1 hsrc
    dsimp only at h
    split at h
    · exact (throw_bind_ok h).elim
    have tail : ∀ src' : TE, hasFl fl src' = false →
        (do let idx ← tcExpr env i
            let idx ← coerce idx Ty.int
            pure (src'.index idx) : R TE) = .ok te → hasFl fl te = false := by
      intro src' hs' h
      obtain ⟨idx, hidx, h⟩ := bind_ok h
      obtain ⟨idx', hidx', h⟩ := bind_ok h
      have := pure_ok h; subst this
      simp [hasFl, hs', coerce_fl (tcExpr_fl fl env i idx hp.2 hidx) hidx']
    split at h
    · exact (throw_bind_ok h).elim
    · obtain ⟨src', hsrc', h⟩ := bind_ok h
      exact tail src' (coerce_fl hs hsrc') h
    · simp only [pure_bind] at h
      exact tail src hs h
  | .len s, te, hp, h => by
    simp only [callFl] at hp
    unfold tcExpr at h
    obtain ⟨src, hsrc, h⟩ := bind_ok h
    dsimp only at h
    split at h
    · exact (throw_bind_ok h).elim
    have := pure_ok h; subst this
    simpa [hasFl] using tcExpr_fl fl env s src hp hsrc
  | .call n fl' args, te, hp, h => by
    simp only [callFl, Bool.or_eq_false_iff] at hp
    unfold tcExpr at h
    obtain ⟨as, has, h⟩ := bind_ok h
    dsimp only at h
    split at h
    · exact (throw_ok h).elim
    · obtain ⟨cs, hcs, h⟩ := bind_ok h
      have := pure_ok h; subst this
      simp [hasFl, hp.1, coerceArgs_fl fl as _ cs (tcExprs_fl fl env args as hp.2 has) hcs]
  | .arrlit items, te, hp, h => by
    simp only [callFl] at hp
    unfold tcExpr at h
    split at h
    · have := pure_ok h; subst this; simp [hasFl, hasFls]
    · obtain ⟨vs, hvs, h⟩ := bind_ok h
      exact pickElemTy_fl fl vs (tcExprs_fl fl env items vs hp hvs) _ te h
  | .un op e, te, hp, h => by
    simp only [callFl] at hp
    unfold tcExpr at h
    obtain ⟨a, ha, h⟩ := bind_ok h
    have hwa := tcExpr_fl fl env e a hp ha
    split at h
    · obtain ⟨b, hb, h⟩ := bind_ok h
      have hwb := cast_fl fl a .bool false b hwa hb
      split at h <;> (have := pure_ok h; subst this) <;> simp_all [hasFl]
    · obtain ⟨ai, hai, h⟩ := bind_ok h
      have hwi := coerce_fl hwa hai
      split at h <;> (have := pure_ok h; subst this) <;> simp_all [hasFl]
  | .is_ e t, te, hp, h => by
    simp only [callFl] at hp
    unfold tcExpr at h
    obtain ⟨a, ha, h⟩ := bind_ok h
    exact cast_fl fl a t false te (tcExpr_fl fl env e a hp ha) h
  | .bin op l r, te, hp, h => by
    simp only [callFl, Bool.or_eq_false_iff] at hp
    unfold tcExpr at h
    split at h
    · obtain ⟨a, ha, h⟩ := bind_ok h
      have hwa := tcExpr_fl fl env l a hp.1 ha
      obtain ⟨b, hb, h⟩ := bind_ok h
      have hwb := tcExpr_fl fl env r b hp.2 hb
      obtain ⟨ai, hai, h⟩ := bind_ok h
      obtain ⟨bi, hbi, h⟩ := bind_ok h
      split at h
      · obtain ⟨v, _, h⟩ := bind_ok h
        have := pure_ok h; subst this; simp [hasFl]
      · have := pure_ok h; subst this
        simp [hasFl, coerce_fl hwa hai, coerce_fl hwb hbi]
    · split at h
      · obtain ⟨a, ha, h⟩ := bind_ok h
        have hwa := tcExpr_fl fl env l a hp.1 ha
        obtain ⟨a', ha', h⟩ := bind_ok h
        obtain ⟨b, hb, h⟩ := bind_ok h
        have hwb := tcExpr_fl fl env r b hp.2 hb
        obtain ⟨b', hb', h⟩ := bind_ok h
        exact fold_fl (cast_fl fl a .bool false a' hwa ha') (cast_fl fl b .bool false b' hwb hb') h
      · split at h
        · obtain ⟨a, ha, h⟩ := bind_ok h
          have hwa := tcExpr_fl fl env l a hp.1 ha
          obtain ⟨a', ha', h⟩ := bind_ok h
          obtain ⟨b, hb, h⟩ := bind_ok h
          have hwb := tcExpr_fl fl env r b hp.2 hb
          obtain ⟨b', hb', h⟩ := bind_ok h
          split at h
          · have := pure_ok h; subst this; simp [hasFl]
          · have := pure_ok h; subst this
            simp [hasFl, coerce_fl hwa ha', coerce_fl hwb hb']
        · split at h
          · obtain ⟨a, ha, h⟩ := bind_ok h
            have hwa := tcExpr_fl fl env l a hp.1 ha
            obtain ⟨b, hb, h⟩ := bind_ok h
            have hwb := tcExpr_fl fl env r b hp.2 hb
            dsimp only at h
            split at h
            · simp only [pure_bind] at h
              exact fold_fl hwa hwb h
            · obtain ⟨a2, ha2, h⟩ := bind_ok h
              obtain ⟨b2, hb2, h⟩ := bind_ok h
              simp only [pure_bind] at h
              exact fold_fl (coerce_fl hwa ha2) (coerce_fl hwb hb2) h
          · exact (throw_ok h).elim
  | .spec l r, te, hp, h => by
    simp only [callFl, Bool.or_eq_false_iff] at hp
    unfold tcExpr at h
    obtain ⟨a, ha, h⟩ := bind_ok h
    have hwa := tcExpr_fl fl env l a hp.1 ha
    dsimp only at h
    split at h
    · exact (throw_bind_ok h).elim
    obtain ⟨b, hb, h⟩ := bind_ok h
    have hwb := tcExpr_fl fl env r b hp.2 hb
    obtain ⟨b', hb', h⟩ := bind_ok h
    split at h
    · have := pure_ok h; subst this; exact hwa
    · have := pure_ok h; subst this
      simp [hasFl, hwa, coerce_fl hwb hb']

theorem tcExprs_fl (fl : Flavor) (env : Env) : ∀ (es : List PExpr) (ts : List TE), callFls fl es = false →
    tcExprs env es = .ok ts → hasFls fl ts = false
  | [], ts, _, h => by unfold tcExprs at h; have := pure_ok h; subst this; simp [hasFls]
  | e :: rest, ts, hp, h => by
    simp only [callFls, Bool.or_eq_false_iff] at hp
    unfold tcExprs at h
    obtain ⟨t, ht, h⟩ := bind_ok h
    obtain ⟨ts', hts, h⟩ := bind_ok h
    have := pure_ok h; subst this
    simp [hasFls, tcExpr_fl fl env e t hp.1 ht, tcExprs_fl fl env rest ts' hp.2 hts]
end

/-- a defeat-flavoured call anywhere in an expression the rules allow means the position admits defeat calls -/
theorem rules_defeat {p : Pos} {e : PExpr} (h : RulesE p e) : callFl .defeat e = true → mayCall p .defeat = true := by
  induction h with
  | int => simp [callFl]
  | char => simp [callFl]
  | str => simp [callFl]
  | bool => simp [callFl]
  | var => simp [callFl]
  | @arrlit p items _ ih =>
    simp only [callFl]
    intro hc
    have : ∀ (l : List PExpr), (∀ a ∈ l, callFl .defeat a = true → mayCall p .defeat = true) → callFls .defeat l = true →
        mayCall p .defeat = true := by
      intro l
      induction l with
      | nil => simp [callFls]
      | cons a l ihl =>
        intro hl hcl
        simp only [callFls, Bool.or_eq_true] at hcl
        rcases hcl with h1 | h1
        · exact hl a (by simp) h1
        · exact ihl (fun b hb => hl b (by simp [hb])) h1
    exact this items ih hc
  | @call p n fl args hm _ ih =>
    simp only [callFl, Bool.or_eq_true, beq_iff_eq]
    intro hc
    rcases hc with rfl | hc
    · exact hm
    · have : ∀ (l : List PExpr), (∀ a ∈ l, callFl .defeat a = true → mayCall p .defeat = true) → callFls .defeat l = true →
          mayCall p .defeat = true := by
        intro l
        induction l with
        | nil => simp [callFls]
        | cons a l ihl =>
          intro hl hcl
          simp only [callFls, Bool.or_eq_true] at hcl
          rcases hcl with h1 | h1
          · exact hl a (by simp) h1
          · exact ihl (fun b hb => hl b (by simp [hb])) h1
      exact this args ih hc
  | len _ ih => simpa [callFl] using ih
  | index _ _ ih1 ih2 =>
    simp only [callFl, Bool.or_eq_true]
    intro hc; rcases hc with h1 | h1
    · exact ih1 h1
    · exact ih2 h1
  | un _ ih => simpa [callFl] using ih
  | is_ _ ih => simpa [callFl] using ih
  | bin _ _ ih1 ih2 =>
    simp only [callFl, Bool.or_eq_true]
    intro hc; rcases hc with h1 | h1
    · exact ih1 h1
    · exact ih2 h1
  | @spec p l r _ _ _ ih1 ih2 =>
    simp only [callFl, Bool.or_eq_true]
    intro hc
    have hf : mayCall { p with inSpec := true } .defeat = false := by simp [mayCall]
    rcases hc with h1 | h1
    · have := ih1 h1; rw [hf] at this; cases this
    · have := ih2 h1; rw [hf] at this; cases this

/-! ## bit facts on mode values (five flags: all values are below 32) -/
theorem em_vals : em "NONE" = 1 ∧ em "BREAK" = 2 ∧ em "LOOP" = 4 ∧ em "DEFEAT" = 8 ∧ em "RETURN" = 16 := by decide

def hB (m : Nat) : Bool := Nat.land m 2 == 2
def hD (m : Nat) : Bool := Nat.land m 8 == 8
theorem emHas_break (m : Nat) : emHas m "BREAK" = hB m := by simp [emHas, em_vals.2.1, hB]
theorem emHas_defeat (m : Nat) : emHas m "DEFEAT" = hD m := by simp [emHas, em_vals.2.2.2.1, hD]

theorem repl_lt : ∀ m < 32, ∀ n < 32, ∀ o ∈ [1, 2, 8], emReplace m o n < 32 := by decide
theorem lor_lt32 : ∀ m < 32, ∀ n < 32, Nat.lor m n < 32 := by decide
theorem f1 : ∀ m < 32, ∀ n < 32, hB (emReplace m 1 n) = (hB m || hB n) ∧ hD (emReplace m 1 n) = (hD m || hD n) := by decide
theorem f2 : ∀ m < 32, ∀ n < 32, hB (Nat.lor m n) = (hB m || hB n) ∧ hD (Nat.lor m n) = (hD m || hD n) := by decide
theorem f3 : ∀ m < 32, ∀ n < 32, hB (emReplace m 8 n) = (hB m || hB n) ∧ hD (emReplace m 8 n) = hD n := by decide
theorem f4 : ∀ m < 32, hB (emReplace m 2 1) = false ∧ hD (emReplace m 2 1) = hD m := by decide
theorem f5 : ∀ m < 32, hB (emReplace m 1 4) = hB m ∧ hD (emReplace m 1 4) = hD m := by decide

/-- what a position allows a mode value to contain -/
def ModeOK (p : Pos) (m : Nat) : Prop :=
  m < 32 ∧ (p.inLoop = false → hB m = false) ∧ (hD m = true → mayCall p .defeat = true)

theorem ModeOK.zero (p : Pos) : ModeOK p 0 := ⟨by decide, fun _ => (by decide), fun h => (by simp [hD] at h)⟩
theorem ModeOK.none (p : Pos) : ModeOK p 1 := ⟨by decide, fun _ => (by decide), fun h => (by simp [hD] at h)⟩
theorem ModeOK.loopc (p : Pos) : ModeOK p 4 := ⟨by decide, fun _ => (by decide), fun h => (by simp [hD] at h)⟩
theorem ModeOK.ret (p : Pos) : ModeOK p 16 := ⟨by decide, fun _ => (by decide), fun h => (by simp [hD] at h)⟩
theorem ModeOK.brk {p : Pos} (h : p.inLoop = true) : ModeOK p 2 :=
  ⟨by decide, fun h' => (by rw [h] at h'; cases h'), fun h => (by simp [hD] at h)⟩
theorem ModeOK.defeat {p : Pos} (h : mayCall p .defeat = true) : ModeOK p 8 := ⟨by decide, fun _ => (by decide), fun _ => h⟩

theorem ModeOK.repl_none {p : Pos} {m n : Nat} (hm : ModeOK p m) (hn : ModeOK p n) : ModeOK p (emReplace m 1 n) := by
  obtain ⟨h1, h2⟩ := f1 m hm.1 n hn.1
  refine ⟨repl_lt m hm.1 n hn.1 1 (by simp), fun hl => ?_, fun hd => ?_⟩
  · rw [h1, hm.2.1 hl, hn.2.1 hl]; rfl
  · rw [h2] at hd
    simp only [Bool.or_eq_true] at hd
    rcases hd with hd | hd
    · exact hm.2.2 hd
    · exact hn.2.2 hd

theorem ModeOK.lor {p : Pos} {m n : Nat} (hm : ModeOK p m) (hn : ModeOK p n) : ModeOK p (Nat.lor m n) := by
  obtain ⟨h1, h2⟩ := f2 m hm.1 n hn.1
  refine ⟨lor_lt32 m hm.1 n hn.1, fun hl => ?_, fun hd => ?_⟩
  · rw [h1, hm.2.1 hl, hn.2.1 hl]; rfl
  · rw [h2] at hd
    simp only [Bool.or_eq_true] at hd
    rcases hd with hd | hd
    · exact hm.2.2 hd
    · exact hn.2.2 hd

/-- the flags a typed statement contributes to the modes of the block it stands in (`stepMode`) -/
def ownModes (t : TS) : Nat :=
  match t with
  | .block _ _ | .ifb _ _ _ | .loop _ _ _ | .tryb _ _ _ | .preempt _ => exitModesOf t
  | .ret _ => 16
  | .brk => 2
  | .cont => 0
  | .expr (.call n fl args _ _) =>
    if fl == .defeat && n == cps "is_defeat" && args.isEmpty then 8
    else if fl == .none && (n == cps "all_is_win" || n == cps "all_is_broken") && args.isEmpty then 4
    else if fl == .defeat then 8
    else 0
  | _ => 0

theorem stepMode_ok {p : Pos} {mode : Nat} {t : TS} (hm : ModeOK p mode) (ht : ModeOK p (ownModes t)) :
    ModeOK p (stepMode mode t).1 := by
  unfold stepMode
  simp only [em_vals.1, em_vals.2.1, em_vals.2.2.1, em_vals.2.2.2.1, em_vals.2.2.2.2]
  cases t with
  | block ss m => exact hm.repl_none (by simpa [ownModes] using ht)
  | ifb c a b => exact hm.repl_none (by simpa [ownModes] using ht)
  | loop c a b => exact hm.repl_none (by simpa [ownModes] using ht)
  | tryb a k b => exact hm.repl_none (by simpa [ownModes] using ht)
  | preempt a => exact hm.repl_none (by simpa [ownModes] using ht)
  | ret e => exact hm.repl_none (ModeOK.ret p)
  | brk => exact hm.repl_none (by simpa [ownModes] using ht)
  | cont => exact hm
  | expr e =>
    cases e with
    | call n fl args ptys r =>
      simp only [ownModes] at ht
      dsimp only
      split
      · rename_i h1; rw [if_pos h1] at ht; exact hm.repl_none ht
      · rename_i h1; rw [if_neg h1] at ht
        split
        · exact hm.repl_none (ModeOK.loopc p)
        · rename_i h2; rw [if_neg h2] at ht
          split
          · rename_i h3; rw [if_pos h3] at ht; exact hm.lor ht
          · exact hm
    | _ => exact hm
  | decl n ty c i => exact hm
  | assign l r => exact hm
  | incassign l r op ty => exact hm

theorem ModeOK.exit {p : Pos} {t : TS} (h : ModeOK p (ownModes t)) : ModeOK p (exitModesOf t) := by
  cases t <;> first | exact h | (simp only [exitModesOf]; exact ModeOK.zero p)

theorem mayCall_loop (p : Pos) : mayCall { p with inLoop := true } .defeat = mayCall p .defeat := by simp [mayCall]

theorem ModeOK.ofLoop {p : Pos} {m : Nat} (h : ModeOK { p with inLoop := true } m) :
    m < 32 ∧ (hD m = true → mayCall p .defeat = true) := ⟨h.1, fun hd => by rw [← mayCall_loop]; exact h.2.2 hd⟩

/-- the typed expression statement: a defeat flag only where defeat calls are allowed -/
theorem expr_modes {p : Pos} {env : Env} {e : PExpr} {te : TE} (hr : RulesE p e) (h : tcExpr env e = .ok te) :
    ModeOK p (ownModes (.expr te)) := by
  have key : hasFl .defeat te = true → mayCall p .defeat = true := by
    intro hh
    apply rules_defeat hr
    cases hc : callFl .defeat e with
    | true => rfl
    | false => rw [tcExpr_fl .defeat env e te hc h] at hh; cases hh
  cases te with
  | call n fl args ptys r =>
    simp only [ownModes]
    split
    · rename_i h1
      simp only [Bool.and_eq_true, beq_iff_eq] at h1
      exact ModeOK.defeat (key (by simp [hasFl, h1.1.1]))
    · split
      · exact ModeOK.loopc p
      · split
        · rename_i h3
          simp only [beq_iff_eq] at h3
          exact ModeOK.defeat (key (by simp [hasFl, h3]))
        · exact ModeOK.zero p
  | _ => exact ModeOK.zero p

theorem loop_modes_aux {p : Pos} {m : Nat} (ti : Bool) (hlt : m < 32) (hd : hD m = true → mayCall p .defeat = true) :
    ModeOK p (if (!emHas m "BREAK" && ti) = true then emReplace m 1 4 else emReplace m 2 1) := by
  split
  · rename_i hc
    have hnb : hB m = false := by
      simp only [Bool.and_eq_true, Bool.not_eq_true', emHas_break] at hc
      exact hc.1
    obtain ⟨f5b, f5d⟩ := f5 _ hlt
    exact ⟨repl_lt _ hlt 4 (by decide) 1 (by simp), fun _ => (by rw [f5b, hnb]), fun hdd => hd (by rw [← f5d]; exact hdd)⟩
  · obtain ⟨f4b, f4d⟩ := f4 _ hlt
    exact ⟨repl_lt _ hlt 1 (by decide) 2 (by simp), fun _ => f4b, fun hdd => hd (by rw [← f4d]; exact hdd)⟩

mutual
theorem tcStmt_modes : ∀ (s : PStmt) (env env' : Env) (t : TS) (p : Pos), RulesS p s → tcStmt env s = .ok (env', t) →
    ModeOK p (ownModes t)
  | .expr e, env, env', t, p, hr, h => by
    cases hr with
    | expr he =>
      unfold tcStmt at h
      obtain ⟨te, hte, h⟩ := bind_ok h
      have := pure_ok h
      simp only [Prod.mk.injEq] at this
      obtain ⟨_, rfl⟩ := this
      exact expr_modes he hte
  | .decl n ty c init, env, env', t, p, _, h => by
    unfold tcStmt at h
    obtain ⟨_, _, h⟩ := bind_ok h
    obtain ⟨i, _, h⟩ := bind_ok h
    unfold tcDecl at h
    obtain ⟨_, _, h⟩ := bind_ok h
    obtain ⟨i', _, h⟩ := bind_ok h
    split at h
    · exact (throw_ok h).elim
    · have := pure_ok h
      simp only [Prod.mk.injEq] at this
      obtain ⟨_, rfl⟩ := this
      exact ModeOK.zero p
  | .vla n el c len, env, env', t, p, _, h => by
    unfold tcStmt at h
    obtain ⟨_, _, h⟩ := bind_ok h
    obtain ⟨l, _, h⟩ := bind_ok h
    obtain ⟨l', _, h⟩ := bind_ok h
    unfold tcDecl at h
    obtain ⟨_, _, h⟩ := bind_ok h
    obtain ⟨i', _, h⟩ := bind_ok h
    split at h
    · exact (throw_ok h).elim
    · have := pure_ok h
      simp only [Prod.mk.injEq] at this
      obtain ⟨_, rfl⟩ := this
      exact ModeOK.zero p
  | .assign l r, env, env', t, p, _, h => by
    unfold tcStmt at h
    obtain ⟨lk, e, rfl⟩ := tcAssign_shape h
    exact ModeOK.zero p
  | .incassign l r op, env, env', t, p, _, h => by
    unfold tcStmt at h
    split at h
    · exact (throw_ok h).elim
    · obtain ⟨pr, hpr, h⟩ := bind_ok h
      obtain ⟨env1, eq⟩ := pr
      obtain ⟨lk0, e0, rfl⟩ := tcAssign_shape hpr
      dsimp only at h
      obtain ⟨lk, _, h⟩ := bind_ok h
      obtain ⟨e, _, h⟩ := bind_ok h
      have := pure_ok h
      simp only [Prod.mk.injEq] at this
      obtain ⟨_, rfl⟩ := this
      exact ModeOK.zero p
  | .ret e, env, env', t, p, _, h => by
    unfold tcStmt at h
    split at h
    · exact (throw_ok h).elim
    · split at h
      · split at h
        · exact (throw_ok h).elim
        · obtain ⟨te, _, h⟩ := bind_ok h
          obtain ⟨te', _, h⟩ := bind_ok h
          have := pure_ok h
          simp only [Prod.mk.injEq] at this
          obtain ⟨_, rfl⟩ := this
          exact ModeOK.ret p
      · split at h
        · exact (throw_ok h).elim
        · have := pure_ok h
          simp only [Prod.mk.injEq] at this
          obtain ⟨_, rfl⟩ := this
          exact ModeOK.ret p
  | .brk, env, env', t, p, hr, h => by
    cases hr with
    | brk hl =>
      unfold tcStmt at h
      have := pure_ok h
      simp only [Prod.mk.injEq] at this
      obtain ⟨_, rfl⟩ := this
      exact ModeOK.brk hl
  | .cont, env, env', t, p, _, h => by
    unfold tcStmt at h
    have := pure_ok h
    simp only [Prod.mk.injEq] at this
    obtain ⟨_, rfl⟩ := this
    exact ModeOK.zero p
  | .block ss pre, env, env', t, p, hr, h => by
    cases hr with
    | block hss =>
      unfold tcStmt at h
      obtain ⟨b, hb, h⟩ := bind_ok h
      have := pure_ok h
      simp only [Prod.mk.injEq] at this
      obtain ⟨_, rfl⟩ := this
      obtain ⟨ts, m, rfl, hm⟩ := tcBlockGo_modes ss env.child [] _ _ b p hss (by rw [em_vals.1]; exact ModeOK.none p) hb
      simpa [ownModes, exitModesOf] using hm
  | .ifb c a b, env, env', t, p, hr, h => by
    cases hr with
    | ifb _ ha hb =>
      unfold tcStmt at h
      obtain ⟨ta, hta, h⟩ := bind_ok h
      obtain ⟨cc, _, h⟩ := bind_ok h
      obtain ⟨cc', _, h⟩ := bind_ok h
      obtain ⟨tb, htb, h⟩ := bind_ok h
      have := pure_ok h
      simp only [Prod.mk.injEq] at this
      obtain ⟨_, rfl⟩ := this
      have h1 := (tcStmt_modes a env ta.1 ta.2 p ha hta).exit
      have h2 := (tcStmt_modes b env tb.1 tb.2 p hb htb).exit
      simpa [ownModes, exitModesOf] using h1.lor h2
  | .loop c a b, env, env', t, p, hr, h => by
    cases hr with
    | loop _ ha _ =>
      unfold tcStmt at h
      obtain ⟨ta, hta, h⟩ := bind_ok h
      obtain ⟨cc, _, h⟩ := bind_ok h
      obtain ⟨cc', _, h⟩ := bind_ok h
      obtain ⟨tb, _, h⟩ := bind_ok h
      have := pure_ok h
      simp only [Prod.mk.injEq] at this
      obtain ⟨_, rfl⟩ := this
      obtain ⟨hlt, hd⟩ := (tcStmt_modes a env ta.1 ta.2 _ ha hta).exit.ofLoop
      simp only [ownModes, exitModesOf, em_vals.1, em_vals.2.1, em_vals.2.2.1]
      exact loop_modes_aux _ hlt hd
  | .tryb a k b, env, env', t, p, hr, h => by
    cases hr with
    | tryb hmt ha hb =>
      unfold tcStmt at h
      obtain ⟨ta, hta, h⟩ := bind_ok h
      obtain ⟨tb, htb, h⟩ := bind_ok h
      have := pure_ok h
      simp only [Prod.mk.injEq] at this
      obtain ⟨_, rfl⟩ := this
      have h1 := (tcStmt_modes a env ta.1 ta.2 _ ha hta).exit
      have h2 := (tcStmt_modes b env tb.1 tb.2 p hb htb).exit
      simp only [ownModes, exitModesOf, em_vals.2.2.2.1]
      obtain ⟨f3b, f3d⟩ := f3 _ h1.1 _ h2.1
      refine ⟨repl_lt _ h1.1 _ h2.1 8 (by simp), fun hl => ?_, fun hdd => ?_⟩
      · rw [f3b, h1.2.1 hl, h2.2.1 hl]; rfl
      · rw [f3d] at hdd; exact h2.2.2 hdd
  | .preempt a, env, env', t, p, hr, h => by
    cases hr with
    | preempt _ ha =>
      unfold tcStmt at h
      obtain ⟨ta, hta, h⟩ := bind_ok h
      have := pure_ok h
      simp only [Prod.mk.injEq] at this
      obtain ⟨_, rfl⟩ := this
      have h1 := (tcStmt_modes a env ta.1 ta.2 p ha hta).exit
      simpa [ownModes, exitModesOf, em_vals.1] using h1.lor (ModeOK.none p)

theorem tcBlockGo_modes : ∀ (ss : List PStmt) (env : Env) (acc : List TS) (mode : Nat) (fc : Bool) (t : TS) (p : Pos),
    (∀ s ∈ ss, RulesS p s) → ModeOK p mode → tcBlockGo env ss acc mode fc = .ok t → ∃ ts m, t = .block ts m ∧ ModeOK p m
  | [], env, acc, mode, fc, t, p, _, hm, h => by
    unfold tcBlockGo at h
    have := pure_ok h; subst this
    exact ⟨_, _, rfl, hm⟩
  | s :: rest, env, acc, mode, fc, t, p, hss, hm, h => by
    unfold tcBlockGo at h
    split at h
    · split at h
      · exact (throw_ok h).elim
      · have := pure_ok h; subst this
        exact ⟨_, _, rfl, hm⟩
    · obtain ⟨pr, hpr, h⟩ := bind_ok h
      obtain ⟨env1, t1⟩ := pr
      dsimp only at h
      have h1 := tcStmt_modes s env env1 t1 p (hss s (by simp)) hpr
      exact tcBlockGo_modes rest env1 _ _ _ t p (fun s' hs' => hss s' (by simp [hs'])) (stepMode_ok hm h1) h
end

/-! ## functions and programs -/
theorem finishBody_ni {fl : Flavor} {ret : Ty} {body : TS} {mode : Nat} (hm : ModeOK (startPos fl) mode) :
    NI (finishBody fl ret body mode) := by
  unfold finishBody
  split
  · rename_i hb
    rw [emHas_break] at hb
    have := hm.2.1 (by cases fl <;> rfl)
    rw [this] at hb; cases hb
  · split
    · rename_i hd
      simp only [Bool.and_eq_true, emHas_defeat, bne_iff_ne, ne_eq] at hd
      have := hm.2.2 hd.1
      cases fl <;> simp_all [mayCall, startPos]
    · split
      · split
        · exact NI.tc
        · split <;> exact NI.pure
      · exact NI.pure

theorem bodyStmts_rules {p : Pos} {s : PStmt} (h : RulesS p s) : ∀ x ∈ bodyStmts s, RulesS p x := by
  cases h with
  | block hss => simpa [bodyStmts] using hss
  | expr he => intro x hx; simp only [bodyStmts, List.mem_singleton] at hx; subst hx; exact .expr he
  | decl he => intro x hx; simp only [bodyStmts, List.mem_singleton] at hx; subst hx; exact .decl he
  | vla he => intro x hx; simp only [bodyStmts, List.mem_singleton] at hx; subst hx; exact .vla he
  | assign h1 h2 => intro x hx; simp only [bodyStmts, List.mem_singleton] at hx; subst hx; exact .assign h1 h2
  | incassign h1 h2 => intro x hx; simp only [bodyStmts, List.mem_singleton] at hx; subst hx; exact .incassign h1 h2
  | ret h1 => intro x hx; simp only [bodyStmts, List.mem_singleton] at hx; subst hx; exact .ret h1
  | brk h1 => intro x hx; simp only [bodyStmts, List.mem_singleton] at hx; subst hx; exact .brk h1
  | cont h1 => intro x hx; simp only [bodyStmts, List.mem_singleton] at hx; subst hx; exact .cont h1
  | ifb h1 h2 h3 => intro x hx; simp only [bodyStmts, List.mem_singleton] at hx; subst hx; exact .ifb h1 h2 h3
  | loop h1 h2 h3 => intro x hx; simp only [bodyStmts, List.mem_singleton] at hx; subst hx; exact .loop h1 h2 h3
  | tryb h1 h2 h3 => intro x hx; simp only [bodyStmts, List.mem_singleton] at hx; subst hx; exact .tryb h1 h2 h3
  | preempt h1 h2 => intro x hx; simp only [bodyStmts, List.mem_singleton] at hx; subst hx; exact .preempt h1 h2

theorem bodyStmts_ops {s : PStmt} (h : opsS s = true) : opsSs (bodyStmts s) = true := by
  cases s <;> simp_all [bodyStmts, opsS, opsSs]

theorem params_fold_ni : ∀ (ps : List (List CP × Ty × Bool)) (env : Env),
    NI (ps.foldlM (fun (e : Env) (p : List CP × Ty × Bool) => do
      let (e', _) ← tcDecl e p.1 p.2.1 p.2.2 (.param p.2.1)
      pure e') env)
  | [], env => by simp only [List.foldlM_nil]; exact NI.pure
  | q :: ps, env => by
    simp only [List.foldlM_cons]
    exact NI.bind (NI.bind (tcDecl_ni _ _ _ _ _) (fun _ _ => NI.pure)) (fun _ _ => params_fold_ni ps _)

theorem tcFunc_ni (env : Env) (f : PFunc) (hr : RulesS (startPos f.fl) f.body) (ho : opsS f.body = true) : NI (tcFunc env f) := by
  unfold tcFunc
  refine NI.bind (params_fold_ni _ _) (fun env1 _ => ?_)
  refine NI.bind (tcBlockGo_ni _ _ _ _ _ (bodyStmts_ops ho)) (fun body hb => ?_)
  obtain ⟨ts, m, rfl, hm⟩ := tcBlockGo_modes _ _ _ _ _ body (startPos f.fl) (bodyStmts_rules hr)
    (by rw [em_vals.1]; exact ModeOK.none _) hb
  exact NI.bind (finishBody_ni (by simpa [exitModesOf] using hm)) (fun _ _ => NI.pure)

theorem sigs_fold_ni : ∀ (fl : List PFunc) (acc : List FuncSig),
    NI (fl.foldlM (fun (acc : List FuncSig) (f : PFunc) =>
      let ptys := f.params.map (fun q => q.2.1)
      if acc.any (fun g => g.name == f.name && g.fl == f.fl && g.ptys == ptys) then (MonadExcept.throw (TErr.tc "Redefinition of function") : R (List FuncSig))
      else pure (acc ++ [⟨f.name, f.fl, ptys, f.ret, false⟩])) acc)
  | [], acc => by simp only [List.foldlM_nil]; exact NI.pure
  | f :: fl, acc => by
    simp only [List.foldlM_cons]
    exact NI.bind (by split <;> first | exact NI.tc | exact NI.pure) (fun _ _ => sigs_fold_ni fl _)

theorem vars_fold_ni : ∀ (vs : List PStmt) (env : Env), opsSs vs = true →
    NI (vs.foldlM (fun (e : Env) (s : PStmt) => do let (e', _) ← tcStmt e s; pure e') env)
  | [], env, _ => by simp only [List.foldlM_nil]; exact NI.pure
  | v :: vs, env, hp => by
    simp only [opsSs, Bool.and_eq_true] at hp
    simp only [List.foldlM_cons]
    exact NI.bind (NI.bind (tcStmt_ni v env hp.1) (fun _ _ => NI.pure)) (fun _ _ => vars_fold_ni vs _ hp.2)

theorem mapM_ni {α β : Type} (f : α → R β) : ∀ (l : List α), (∀ a ∈ l, NI (f a)) → NI (l.mapM f)
  | [], _ => by simp only [List.mapM_nil]; exact NI.pure
  | a :: l, h => by
    simp only [List.mapM_cons]
    exact NI.bind (h a (by simp)) (fun _ _ => NI.bind (mapM_ni f l (fun b hb => h b (by simp [hb]))) (fun _ _ => NI.pure))

theorem tcProgram_ni (lint : Bool) (p : PProgram) (hf : ∀ f ∈ p.funcs, RulesS (startPos f.fl) f.body ∧ opsS f.body = true)
    (hv : opsSs p.vars = true) : NI (tcProgram lint p) := by
  unfold tcProgram
  refine NI.bind (sigs_fold_ni _ _) (fun funcs _ => ?_)
  dsimp only
  refine NI.bind (vars_fold_ni _ _ hv) (fun env _ => ?_)
  exact NI.bind (mapM_ni _ _ (fun f hf' => tcFunc_ni env f (hf f hf').1 (hf f hf').2)) (fun _ _ => NI.pure)

/-! ## from the parser -/
theorem opsEs_of_all : ∀ (l : List PExpr), (∀ a ∈ l, opsE a = true) → opsEs l = true
  | [], _ => by simp [opsEs]
  | a :: l, h => by
    simp only [opsEs, Bool.and_eq_true]
    exact ⟨h a (by simp), opsEs_of_all l (fun b hb => h b (by simp [hb]))⟩

theorem opsE_of_ok {c : Nat} {e : PExpr} (h : OkE c e) : opsE e = true := by
  induction h with
  | int => simp [opsE]
  | char => simp [opsE]
  | str => simp [opsE]
  | bool => simp [opsE]
  | var => simp [opsE]
  | arrlit _ ih => simp only [opsE]; exact opsEs_of_all _ ih
  | call _ _ _ ih => simp only [opsE]; exact opsEs_of_all _ ih
  | len _ ih => simpa [opsE] using ih
  | index _ _ ih1 ih2 => simp [opsE, ih1, ih2]
  | un _ ih => simpa [opsE] using ih
  | is_ _ _ ih => simpa [opsE] using ih
  | bin _ _ hop ih1 ih2 => simp [opsE, ih1, ih2, hop]
  | spec _ _ _ ih1 ih2 => simp [opsE, ih1, ih2]

theorem opsSs_of_all : ∀ (l : List PStmt), (∀ a ∈ l, opsS a = true) → opsSs l = true
  | [], _ => by simp [opsSs]
  | a :: l, h => by
    simp only [opsSs, Bool.and_eq_true]
    exact ⟨h a (by simp), opsSs_of_all l (fun b hb => h b (by simp [hb]))⟩

theorem opsS_of_ok {c : Nat} {s : PStmt} (h : OkS c s) : opsS s = true := by
  induction h with
  | expr he => simpa [opsS] using opsE_of_ok he
  | decl he _ => simp [opsS, opsE_of_ok he]
  | vla he _ => simp [opsS, opsE_of_ok he]
  | assign h1 h2 => simp [opsS, opsE_of_ok h1, opsE_of_ok h2]
  | incassign h1 h2 hop => simp [opsS, opsE_of_ok h1, opsE_of_ok h2, hop]
  | @ret ctx eo he =>
    cases eo with
    | none => simp [opsS]
    | some e => simpa [opsS] using opsE_of_ok (he e rfl)
  | brk => simp [opsS]
  | cont => simp [opsS]
  | block _ ih => simp only [opsS]; exact opsSs_of_all _ ih
  | ifb hc _ _ _ _ ih1 ih2 => simp [opsS, opsE_of_ok hc, ih1, ih2]
  | loop hc _ _ _ _ ih1 ih2 => simp [opsS, opsE_of_ok hc, ih1, ih2]
  | tryb _ _ _ _ _ ih1 ih2 => simp [opsS, ih1, ih2]
  | preempt _ _ _ ih => simpa [opsS] using ih

/-- **The typechecker model never reports an internal error on a program the parser accepted**: the operator classes
it dispatches on are the grammar's, a compound assignment is arithmetic, and the two assertions at the end of
`FuncDefinition.evaluate` hold — the exit modes of a function body never contain `BREAK` (the parser admits `break` only
inside loops, and a loop absorbs it), and contain `DEFEAT` only in defeat functions (the parser admits defeat calls only
in try bodies, whose `DEFEAT` the handler replaces, and in defeat functions). -/
theorem typechecker_never_internal (lint : Bool) (src : List Line) (p : PProgram) (hparse : parse src = .ok p) (m : String) :
    tcProgram lint p ≠ .error (.internal m) := by
  have ok := parse_sound src p hparse
  have rules := accepted_respects_rules src p hparse
  exact tcProgram_ni lint p (fun f hf => ⟨rules.1 f hf, opsS_of_ok (ok.funcs f hf)⟩)
    (opsSs_of_all _ (fun v hv => opsS_of_ok (ok.vars v hv))) m

end HidVerif.Hid.TC
