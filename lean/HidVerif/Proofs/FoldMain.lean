import HidVerif.Proofs.Fold
/-!
# C14 main theorem: folding = run-time evaluation under `InRange`
-/
namespace HidVerif.Hid

@[simp] theorem wrap_zero (E : Env) : E.wrap 0 = 0 := by simp [Env.wrap]

theorem b2i_range (p : Bool) : 0 ≤ b2i p ∧ b2i p ≤ 1 := by cases p <;> simp [b2i]

/-- values of in-range expressions are in range -/
theorem inRange_val (H : Int) (hH : 256 ≤ H) (e : CExpr) (h : InRange H e) (v : Int) (hv : evalZ e = some v) :
    -H ≤ v ∧ v < H := by
  cases e with
  | lit x => simp [evalZ] at hv; subst hv; exact h
  | bin op l r => exact h.2.2 v hv
  | un op e => exact h.2 v hv
  | toByte e =>
    simp only [evalZ, Option.map_eq_some_iff] at hv
    obtain ⟨a, _, rfl⟩ := hv
    have := Int.emod_nonneg a (by omega : (256 : Int) ≠ 0)
    have := Int.emod_lt_of_pos a (by omega : (0 : Int) < 256)
    omega
  | toBool e =>
    simp only [evalZ, Option.map_eq_some_iff] at hv
    obtain ⟨a, _, rfl⟩ := hv
    have := b2i_range (decide (a ≠ 0)); omega

theorem wrap_mod256 (E : Env) (hM : 0 < E.M) (hdiv : E.M % 256 = 0) (h256 : 256 ≤ E.M) (a : Int) :
    E.wrap a % 256 = E.wrap (a % 256) := by
  apply wrap_of_cast E hM _ _ (by have := Nat.mod_lt (E.wrap a) (by omega : 0 < 256); omega)
  rw [Int.natCast_emod, wrap_cast E hM a]
  have hd : (256 : Int) ∣ (E.M : Int) := by
    have : (256 : Nat) ∣ E.M := Nat.dvd_of_mod_eq_zero hdiv
    exact Int.natCast_dvd_natCast.2 this
  have h256c : ((256 : Nat) : Int) = 256 := rfl
  rw [h256c, Int.emod_emod_of_dvd a hd]
  have h1 := Int.emod_nonneg a (by omega : (256 : Int) ≠ 0)
  have h2 := Int.emod_lt_of_pos a (by omega : (0 : Int) < 256)
  exact (Int.emod_eq_of_lt h1 (by omega)).symm

theorem fold_agrees (E : Env) (hM : 512 ≤ E.M) (heven : E.M % 2 = 0) (hdiv : E.M % 256 = 0)
    (e : CExpr) (h : InRange E.H e) : evalW E e = (evalZ e).map E.wrap := by
  have hH : (256 : Int) ≤ (E.H : Int) := by unfold Env.H; omega
  have hM0 : 0 < E.M := by omega
  have hM2 : 2 ≤ E.M := by omega
  induction e with
  | lit v => simp [evalW, evalZ]
  | toByte e ih =>
    simp only [InRange] at h
    simp only [evalW, evalZ, ih h]
    cases evalZ e with
    | none => rfl
    | some a => simp [wrap_mod256 E hM0 hdiv (by omega) a]
  | toBool e ih =>
    simp only [InRange] at h
    simp only [evalW, evalZ, ih h]
    cases hz : evalZ e with
    | none => rfl
    | some a =>
      obtain ⟨r1, r2⟩ := inRange_val E.H hH e h a hz
      have hz0 := wrap_eq_zero_iff E hM2 heven a r1 r2
      simp only [Option.map_some, wrap_b2i E hM2]
      by_cases ha : a = 0 <;> simp [ha, hz0]
  | un op e ih =>
    simp only [InRange] at h
    obtain ⟨he, hres⟩ := h
    simp only [evalW, evalZ, ih he]
    cases hz : evalZ e with
    | none => rfl
    | some a =>
      obtain ⟨r1, r2⟩ := inRange_val E.H hH e he a hz
      cases op with
      | pos => simp
      | neg =>
        simp only [Option.map_some]
        have := wrap_sub E 0 a hM0
        have w0 : E.wrap 0 = 0 := by simp [Env.wrap]
        rw [w0, Nat.zero_add] at this
        simp [this]
      | not =>
        have hz0 := wrap_eq_zero_iff E hM2 heven a r1 r2
        simp only [Option.map_some, wrap_b2i E hM2]
        by_cases ha : a = 0 <;> simp [ha, hz0]
  | bin op l r ihl ihr =>
    simp only [InRange] at h
    obtain ⟨hl, hr, hres⟩ := h
    simp only [evalW, ihl hl, ihr hr]
    cases hzl : evalZ l with
    | none => simp [evalZ, hzl]
    | some a =>
      cases hzr : evalZ r with
      | none => simp [evalZ, hzl, hzr]
      | some b =>
        obtain ⟨a1, a2⟩ := inRange_val E.H hH l hl a hzl
        obtain ⟨b1, b2⟩ := inRange_val E.H hH r hr b hzr
        have ta := wrap_toS E hM2 heven a a1 a2
        have tb := wrap_toS E hM2 heven b b1 b2
        have hb0 := wrap_eq_zero_iff E hM2 heven b b1 b2
        have ha0 := wrap_eq_zero_iff E hM2 heven a a1 a2
        have hinj := wrap_inj E hM2 heven a b a1 a2 b1 b2
        have hblt : E.wrap b % E.M = E.wrap b := Nat.mod_eq_of_lt (wrap_lt E hM0 b)
        simp only [Option.map_some, evalZ, hzl, hzr]
        cases op with
        | add => simp [binArith, wrap_add' E a b hM0]
        | sub => simp [binArith, wrap_sub E a b hM0]
        | mul => simp [binArith, wrap_mul E a b hM0]
        | div =>
          by_cases hb : b = 0
          · simp [binArith, hb, hblt, hb0]
          · simp [binArith, hb, hblt, hb0, ta, tb]
        | mod =>
          by_cases hb : b = 0
          · simp [binArith, hb, hblt, hb0]
          · simp [binArith, hb, hblt, hb0, ta, tb]
        | lt => simp [binArith, ta, tb, wrap_b2i E hM2]
        | gt => simp [binArith, ta, tb, wrap_b2i E hM2]
        | le => simp [binArith, ta, tb, wrap_b2i E hM2]
        | ge => simp [binArith, ta, tb, wrap_b2i E hM2]
        | eq => by_cases hab : a = b <;> simp [binArith, wrap_b2i E hM2, hab, hinj]
        | ne => by_cases hab : a = b <;> simp [binArith, wrap_b2i E hM2, hab, hinj]
        | and => by_cases ha : a = 0 <;> by_cases hb : b = 0 <;> simp [binArith, wrap_b2i E hM2, ha, hb, ha0, hb0]
        | or => by_cases ha : a = 0 <;> by_cases hb : b = 0 <;> simp [binArith, wrap_b2i E hM2, ha, hb, ha0, hb0]

end HidVerif.Hid
