import HidVerif.Prophetic
/-!
# Theory of prophetic transition systems (S1–S3 of DESIGN §3.2 and the `Reach` calculus)

Everything here is generic in the system, so it holds for the Sphinx machine and for the HiD
reference machine alike.
-/
namespace HidVerif.PSys
variable {σ ε : Type} {sys : PSys σ ε}

/-- **S1** committed execution preserves halting status. -/
theorem cstep_halts_iff {s ev s'} (h : CStep sys s ev s') : Halts sys s ↔ Halts sys s' := by
  cases h with
  | next hs => exact ⟨fun hh => by cases hh <;> simp_all, Halts.next hs⟩
  | jumpYes hs ha => exact ⟨fun hh => by cases hh <;> simp_all, Halts.jump hs ha⟩
  | jumpNo hs ha => exact ⟨fun hh => by cases hh <;> simp_all, fun h => absurd h ha⟩

theorem exec_halts_iff {s tr s'} (h : Exec sys s tr s') : Halts sys s ↔ Halts sys s' := by
  induction h with
  | refl => rfl
  | step c _ ih => exact (cstep_halts_iff c).trans ih

theorem exec_trans {s t1 s1 t2 s2} (h1 : Exec sys s t1 s1) (h2 : Exec sys s1 t2 s2) :
    Exec sys s (t1 ++ t2) s2 := by
  induction h1 with
  | refl => simpa
  | step c _ ih => rw [List.append_assoc]; exact Exec.step c (ih h2)

theorem Exec.single {s ev s'} (h : CStep sys s ev s') : Exec sys s (evl ev) s' := by
  simpa using Exec.step h Exec.refl

/-- **S3** the committed step is deterministic. -/
theorem cstep_det {s ev₁ s₁ ev₂ s₂} (h₁ : CStep sys s ev₁ s₁) (h₂ : CStep sys s ev₂ s₂) :
    ev₁ = ev₂ ∧ s₁ = s₂ := by
  cases h₁ <;> cases h₂ <;> simp_all

/-- a state with a committed successor does not step to `halt` -/
theorem cstep_not_halt {s ev s'} (h : CStep sys s ev s') : sys.step s ≠ .halt := by
  cases h <;> simp_all

/-- **S3** traces are unique: two committed runs from the same state are prefixes of one
another (stated for equal length via the common continuation). -/
theorem exec_det {s tr₁ s₁ tr₂ s₂} (h₁ : Exec sys s tr₁ s₁) (h₂ : Exec sys s tr₂ s₂) :
    (∃ tr, Exec sys s₁ tr s₂ ∧ tr₂ = tr₁ ++ tr) ∨ (∃ tr, Exec sys s₂ tr s₁ ∧ tr₁ = tr₂ ++ tr) := by
  induction h₁ generalizing tr₂ s₂ with
  | refl => exact Or.inl ⟨tr₂, h₂, by simp⟩
  | @step s ev s' tr s'' c _ ih =>
    cases h₂ with
    | refl => exact Or.inr ⟨_, Exec.step c ‹_›, by simp⟩
    | @step _ ev' t' tr' _ c' e' =>
      obtain ⟨he, hs⟩ := cstep_det c c'
      subst he; subst hs
      rcases ih e' with ⟨t, ht, rfl⟩ | ⟨t, ht, rfl⟩
      · exact Or.inl ⟨t, ht, by simp⟩
      · exact Or.inr ⟨t, ht, by simp⟩

/-- **S2** coinduction principle: a set closed under "the `next` successor is safe / one of
the two jump successors is safe / never at a firing halt" contains no halting state. -/
theorem safe_not_halts (Safe : σ → Prop)
    (hstep : ∀ s, Safe s → match sys.step s with
      | .next s' _ => Safe s' | .halt => False | .jump a b => Safe a ∨ Safe b | .fault _ => True) :
    ∀ s, Safe s → ¬ Halts sys s := by
  intro s hs hh
  induction hh with
  | halt h => have := hstep _ hs; simp [h] at this
  | next h _ ih => have := hstep _ hs; simp [h] at this; exact ih this
  | jump h _ _ iha ihb =>
    have := hstep _ hs; simp [h] at this
    rcases this with x | x
    · exact iha x
    · exact ihb x

theorem not_halts_of_fault {s why} (h : sys.step s = .fault why) : ¬ Halts sys s := by
  intro hh; cases hh <;> simp_all

/-! ## `Reach` -/

theorem Reach.refl {s} : Reach sys s [] s := ⟨id, fun _ => Exec.refl⟩

theorem Reach.trans {s t1 s1 t2 s2} (h1 : Reach sys s t1 s1) (h2 : Reach sys s1 t2 s2) :
    Reach sys s (t1 ++ t2) s2 := by
  refine ⟨fun h => h1.1 (h2.1 h), fun h => ?_⟩
  have e2 := h2.2 h
  have : ¬ Halts sys s1 := fun hh => h ((exec_halts_iff e2).1 hh)
  exact exec_trans (h1.2 this) e2

theorem Reach.of_next {s s' ev} (h : sys.step s = .next s' ev) : Reach sys s (evl ev) s' :=
  ⟨Halts.next h, fun _ => by simpa using Exec.step (CStep.next h) Exec.refl⟩

/-- `j L; h… ` with the halt firing: control is at `L`. -/
theorem Reach.jump_taken {s a b} (h : sys.step s = .jump a b) (hno : sys.step a = .halt) :
    Reach sys s [] b :=
  ⟨fun hb => Halts.jump h (Halts.halt hno) hb,
   fun _ => by simpa [evl] using Exec.step (CStep.jumpYes h (Halts.halt hno)) Exec.refl⟩

/-- more generally, when the not-taken side halts -/
theorem Reach.jump_taken' {s a b} (h : sys.step s = .jump a b) (hno : Halts sys a) :
    Reach sys s [] b :=
  ⟨fun hb => Halts.jump h hno hb,
   fun _ => by simpa [evl] using Exec.step (CStep.jumpYes h hno) Exec.refl⟩

/-- `j L; hC a b` with the halt *not* firing: control falls through, provided the target
would halt whenever the fall-through does (the generator's habit of re-testing the inverse
condition at the target, or a never-halting error stub, provides exactly this). -/
theorem Reach.jump_fallthrough {s a b a'} (h : sys.step s = .jump a b)
    (hno : sys.step a = .next a' none) (hb : Halts sys a' → Halts sys b) : Reach sys s [] a' := by
  refine ⟨fun ha' => Halts.jump h (Halts.next hno ha') (hb ha'), fun hn => ?_⟩
  have hna : ¬ Halts sys a := fun hh => by cases hh <;> simp_all
  have := Exec.step (CStep.jumpNo h hna) (Exec.step (CStep.next hno) Exec.refl)
  simpa [evl] using this

/-- not-taken side does not halt: the committed run continues there -/
theorem Reach.jump_not_taken {s a b} (h : sys.step s = .jump a b) (hb : Halts sys a → Halts sys b) :
    Reach sys s [] a :=
  ⟨fun ha => Halts.jump h ha (hb ha),
   fun hn => by simpa [evl] using Exec.step (CStep.jumpNo h hn) Exec.refl⟩

/-- From `Reach` to a statement about the committed run, given that the end never halts. -/
theorem Reach.exec {s tr s'} (h : Reach sys s tr s') (hn : ¬ Halts sys s') :
    Exec sys s tr s' ∧ ¬ Halts sys s :=
  ⟨h.2 hn, fun hh => hn ((exec_halts_iff (h.2 hn)).1 hh)⟩

/-- the Turing-jump law in its semantic form: a jump commits to `yes` iff `no` halts -/
theorem jump_law {s a b} (h : sys.step s = .jump a b) :
    (Halts sys a → CStep sys s none b) ∧ (¬ Halts sys a → CStep sys s none a) :=
  ⟨CStep.jumpYes h, CStep.jumpNo h⟩

theorem halts_jump_iff {s a b} (h : sys.step s = .jump a b) :
    Halts sys s ↔ Halts sys a ∧ Halts sys b := by
  constructor
  · intro hh; cases hh <;> simp_all
  · rintro ⟨ha, hb⟩; exact Halts.jump h ha hb

theorem halts_next_iff {s s' ev} (h : sys.step s = .next s' ev) : Halts sys s ↔ Halts sys s' := by
  constructor
  · intro hh; cases hh <;> simp_all
  · exact Halts.next h

end HidVerif.PSys
